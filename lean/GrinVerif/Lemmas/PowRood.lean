import GrinVerif.Lemmas.PowUWalk
/-! Cuckarood verifier: slots are numbered per direction (`idx = 4*ndir[dir] + 2*dir`), the two
head arrays hold time-ordered lists keyed by `(node << 1 | dir) & mask`. -/
namespace GV.Pow

/-- number of `e' < e` with `f e'` -/
def cntBelow (f : Nat → Bool) : Nat → Nat
  | 0 => 0
  | e+1 => cntBelow f e + (if f e then 1 else 0)

theorem cntBelow_mono (f : Nat → Bool) : ∀ a b, a ≤ b → cntBelow f a ≤ cntBelow f b := by
  intro a b h
  induction b with
  | zero => have : a = 0 := by omega
            subst this; exact Nat.le_refl _
  | succ b ih =>
    rcases Nat.lt_or_ge a (b+1) with h1 | h1
    · have := ih (by omega); simp only [cntBelow]; omega
    · have : a = b + 1 := by omega
      subst this; exact Nat.le_refl _

theorem cntBelow_lt (f : Nat → Bool) (a b : Nat) (h : a < b) (hf : f a = true) :
    cntBelow f a < cntBelow f b := by
  have h1 : cntBelow f (a+1) = cntBelow f a + 1 := by simp [cntBelow, hf]
  have h2 := cntBelow_mono f (a+1) b (by omega)
  omega

theorem cntBelow_le (f : Nat → Bool) : ∀ n, cntBelow f n ≤ n := by
  intro n
  induction n with
  | zero => simp [cntBelow]
  | succ n ih => simp only [cntBelow]; split <;> omega

/-- direction bit of the `e`-th edge of the proof -/
def dirF (ns : List Nat) (e : Nat) : Nat := ns.getD e 0 % 2

theorem dirF_lt (ns : List Nat) (e : Nat) : dirF ns e < 2 := by unfold dirF; omega

/-- `u` slot of the `e`-th edge: `4 * ndir[dir] + 2 * dir` at the time the edge is added -/
def slotOf (ns : List Nat) (e : Nat) : Nat :=
  4 * cntBelow (fun e' => dirF ns e' == dirF ns e) e + 2 * dirF ns e

theorem slotOf_even (ns : List Nat) (e : Nat) : slotOf ns e % 2 = 0 := by unfold slotOf; omega

theorem slotOf_dir (ns : List Nat) (e : Nat) : slotOf ns e / 2 % 2 = dirF ns e := by
  have := dirF_lt ns e
  unfold slotOf; omega

theorem slotOf_inj (ns : List Nat) (e e' : Nat) (h : slotOf ns e = slotOf ns e') : e = e' := by
  have d1 := dirF_lt ns e
  have d2 := dirF_lt ns e'
  have hd : dirF ns e = dirF ns e' := by
    have a := slotOf_dir ns e
    have b := slotOf_dir ns e'
    rw [h] at a; omega
  have hc : cntBelow (fun x => dirF ns x == dirF ns e) e = cntBelow (fun x => dirF ns x == dirF ns e') e' := by
    unfold slotOf at h; omega
  rw [← hd] at hc
  rcases Nat.lt_trichotomy e e' with hlt | heq | hgt
  · have := cntBelow_lt (fun x => dirF ns x == dirF ns e) e e' hlt (by simp); omega
  · exact heq
  · have := cntBelow_lt (fun x => dirF ns x == dirF ns e) e' e hgt (by simp [hd]); omega


/-- bucket keys of the `e`-th edge in `headu` / `headv` -/
def bU (P : Params) (ep : Nat → Nat × Nat) (ns : List Nat) (e : Nat) : Nat :=
  P.bk (2 * frmF ep ns e + dirF ns e)
def bV (P : Params) (ep : Nat → Nat × Nat) (ns : List Nat) (e : Nat) : Nat :=
  P.bk (2 * toF ep ns e + dirF ns e)
/-- slot of an edge index, `ns.length` standing for "none" (`2 * size`) -/
def slU (ns : List Nat) (e : Nat) : Nat := if e = ns.length then 2 * ns.length else slotOf ns e
def slV (ns : List Nat) (e : Nat) : Nat := if e = ns.length then 2 * ns.length else slotOf ns e + 1

structure RoodInv (P : Params) (ep : Nat → Nat × Nat) (ns : List Nat) (n : Nat) (s : RoodSt) : Prop where
  nd0 : s.nd0 = cntBelow (fun e => dirF ns e == 0) n
  nd1 : s.nd1 = cntBelow (fun e => dirF ns e == 1) n
  bal : s.nd0 ≤ ns.length / 2 ∧ s.nd1 ≤ ns.length / 2
  lt : ∀ e, e < n → slotOf ns e + 1 < 2 * ns.length
  uvsU : ∀ e, e < n → s.uvs (slotOf ns e) = frmF ep ns e
  uvsV : ∀ e, e < n → s.uvs (slotOf ns e + 1) = toF ep ns e
  headu : ∀ b, s.headu b = slU ns (lastBelow (fun e => bU P ep ns e == b) ns.length n)
  headv : ∀ b, s.headv b = slV ns (lastBelow (fun e => bV P ep ns e == b) ns.length n)
  prevU : ∀ e, e < n → s.prev (slotOf ns e) =
    slU ns (lastBelow (fun e' => bU P ep ns e' == bU P ep ns e) ns.length e)
  prevV : ∀ e, e < n → s.prev (slotOf ns e + 1) =
    slV ns (lastBelow (fun e' => bV P ep ns e' == bV P ep ns e) ns.length e)

theorem roodInv_init (P : Params) (ep : Nat → Nat × Nat) (ns : List Nat) :
    RoodInv P ep ns 0 (RoodSt.init ns.length) := by
  refine ⟨rfl, rfl, ⟨Nat.zero_le _, Nat.zero_le _⟩, ?_, ?_, ?_, ?_, ?_, ?_, ?_⟩
  all_goals first
    | (intro e he; exact absurd he (Nat.not_lt_zero e))
    | (intro b; simp [RoodSt.init, lastBelow, slU, slV])

theorem roodInv_step (P : Params) (ep : Nat → Nat × Nat) (ns : List Nat) (n : Nat) (s s' : RoodSt)
    (inv : RoodInv P ep ns n s) (hn : n < ns.length)
    (hnd : cntBelow (fun e' => dirF ns e' == dirF ns n) n < ns.length / 2)
    (h0 : s'.nd0 = cntBelow (fun e => dirF ns e == 0) (n+1))
    (h1 : s'.nd1 = cntBelow (fun e => dirF ns e == 1) (n+1))
    (huvs : s'.uvs = upd (upd s.uvs (slotOf ns n) (frmF ep ns n)) (slotOf ns n + 1) (toF ep ns n))
    (hprev : s'.prev = upd (upd s.prev (slotOf ns n) (s.headu (bU P ep ns n))) (slotOf ns n + 1)
      (s.headv (bV P ep ns n)))
    (hhu : s'.headu = upd s.headu (bU P ep ns n) (slotOf ns n))
    (hhv : s'.headv = upd s.headv (bV P ep ns n) (slotOf ns n + 1)) :
    RoodInv P ep ns (n+1) s' := by
  have hne : ∀ e, e < n → slotOf ns e ≠ slotOf ns n := fun e he h => by
    have := slotOf_inj ns e n h; omega
  have hev : ∀ e, slotOf ns e % 2 = 0 := slotOf_even ns
  have hd := dirF_lt ns n
  refine ⟨h0, h1, ?_, ?_, ?_, ?_, ?_, ?_, ?_, ?_⟩
  · rw [h0, h1]
    have b0 := inv.bal.1
    have b1 := inv.bal.2
    rw [inv.nd0] at b0
    rw [inv.nd1] at b1
    simp only [cntBelow]
    by_cases hz : dirF ns n = 0
    · rw [hz] at hnd; simp [hz]; omega
    · have h1' : dirF ns n = 1 := by omega
      rw [h1'] at hnd; simp [h1']; omega
  · intro e he
    rcases Nat.lt_succ_iff_lt_or_eq.mp he with he | rfl
    · exact inv.lt e he
    · unfold slotOf; omega
  · intro e he
    rw [huvs]
    rcases Nat.lt_succ_iff_lt_or_eq.mp he with he | rfl
    · have a := hne e he
      have b : slotOf ns e ≠ slotOf ns n + 1 := by have := hev e; have := hev n; omega
      simp only [upd, a, b, if_false]; exact inv.uvsU e he
    · have b : slotOf ns e ≠ slotOf ns e + 1 := by omega
      simp [upd, b]
  · intro e he
    rw [huvs]
    rcases Nat.lt_succ_iff_lt_or_eq.mp he with he | rfl
    · have a := hne e he
      have b : slotOf ns e + 1 ≠ slotOf ns n + 1 := by omega
      have c : slotOf ns e + 1 ≠ slotOf ns n := by have := hev e; have := hev n; omega
      simp only [upd, b, c, if_false]; exact inv.uvsV e he
    · simp [upd]
  · intro b
    rw [hhu]
    simp only [upd, lastBelow]
    by_cases e : b = bU P ep ns n
    · subst e
      have : n ≠ ns.length := by omega
      simp [slU, this]
    · have e' : ¬ (bU P ep ns n = b) := fun h => e h.symm
      simp only [e, if_false, beq_iff_eq, e']
      exact inv.headu b
  · intro b
    rw [hhv]
    simp only [upd, lastBelow]
    by_cases e : b = bV P ep ns n
    · subst e
      have : n ≠ ns.length := by omega
      simp [slV, this]
    · have e' : ¬ (bV P ep ns n = b) := fun h => e h.symm
      simp only [e, if_false, beq_iff_eq, e']
      exact inv.headv b
  · intro e he
    rw [hprev]
    rcases Nat.lt_succ_iff_lt_or_eq.mp he with he | rfl
    · have a := hne e he
      have b : slotOf ns e ≠ slotOf ns n + 1 := by have := hev e; have := hev n; omega
      simp only [upd, a, b, if_false]; exact inv.prevU e he
    · have b : slotOf ns e ≠ slotOf ns e + 1 := by omega
      simp only [upd, b, if_false, if_true]
      exact inv.headu _
  · intro e he
    rw [hprev]
    rcases Nat.lt_succ_iff_lt_or_eq.mp he with he | rfl
    · have a := hne e he
      have b : slotOf ns e + 1 ≠ slotOf ns n + 1 := by omega
      have c : slotOf ns e + 1 ≠ slotOf ns n := by have := hev e; have := hev n; omega
      simp only [upd, b, c, if_false]; exact inv.prevV e he
    · simp only [upd, if_true]
      exact inv.headv _


theorem roodBuild_spec (P : Params) (ep : Nat → Nat × Nat) (ns : List Nat) :
    ∀ xs pre last s s', ns = pre ++ xs → RoodInv P ep ns pre.length s →
      roodBuild P ep ns.length xs last s = .ok s' →
      RoodInv P ep ns ns.length s' ∧ (∀ x ∈ xs, x ≤ P.edgeMask) ∧ ascChain last xs := by
  intro xs
  induction xs with
  | nil =>
    intro pre last s s' hns inv h
    simp only [roodBuild] at h
    injection h with h
    subst h
    have e : pre.length = ns.length := by simp [hns]
    rw [e] at inv
    exact ⟨inv, by simp, trivial⟩
  | cons x xs ih =>
    intro pre last s s' hns inv h
    have hx : ns.getD pre.length 0 = x := by rw [hns]; exact getD_append_cons pre xs x
    have hpl : pre.length < ns.length := by simp [hns]
    have hdir : x % 2 = dirF ns pre.length := by unfold dirF; rw [hx]
    have hdlt := dirF_lt ns pre.length
    have hnd : (if x % 2 = 0 then s.nd0 else s.nd1) =
        cntBelow (fun e' => dirF ns e' == dirF ns pre.length) pre.length := by
      by_cases hz : x % 2 = 0
      · rw [if_pos hz, inv.nd0, ← hdir, hz]
      · have : x % 2 = 1 := by omega
        rw [if_neg hz, inv.nd1, ← hdir, this]
    unfold roodBuild at h
    simp only [] at h
    by_cases hb : (if x % 2 = 0 then s.nd0 else s.nd1) ≥ ns.length / 2
    · simp [hb] at h
    · by_cases h1 : x > P.edgeMask
      · simp [hb, h1] at h
      · by_cases h2 : notAsc last x = true
        · simp [hb, h1, h2] at h
        · have h2' : notAsc last x = false := by simpa using h2
          simp only [hb, h1, h2', if_false, Bool.false_eq_true] at h
          have hns' : ns = (pre ++ [x]) ++ xs := by simp [hns]
          have hlen : (pre ++ [x]).length = pre.length + 1 := by simp
          have hidx : 4 * (if x % 2 = 0 then s.nd0 else s.nd1) + 2 * (x % 2) = slotOf ns pre.length := by
            rw [hnd, hdir]; rfl
          have hu : (ep x).1 = frmF ep ns pre.length := by unfold frmF; rw [hx]
          have hv : (ep x).2 = toF ep ns pre.length := by unfold toF; rw [hx]
          have inv' := roodInv_step P ep ns pre.length s (inv := inv) (hn := hpl) (hnd := by rw [← hnd]; omega)
            (s' := { uvs := upd (upd s.uvs (4 * (if x % 2 = 0 then s.nd0 else s.nd1) + 2 * (x % 2)) (ep x).1)
                        (4 * (if x % 2 = 0 then s.nd0 else s.nd1) + 2 * (x % 2) + 1) (ep x).2,
                     prev := upd (upd s.prev (4 * (if x % 2 = 0 then s.nd0 else s.nd1) + 2 * (x % 2))
                          (s.headu (P.bk (2 * (ep x).1 + x % 2))))
                        (4 * (if x % 2 = 0 then s.nd0 else s.nd1) + 2 * (x % 2) + 1)
                        (s.headv (P.bk (2 * (ep x).2 + x % 2))),
                     headu := upd s.headu (P.bk (2 * (ep x).1 + x % 2))
                        (4 * (if x % 2 = 0 then s.nd0 else s.nd1) + 2 * (x % 2)),
                     headv := upd s.headv (P.bk (2 * (ep x).2 + x % 2))
                        (4 * (if x % 2 = 0 then s.nd0 else s.nd1) + 2 * (x % 2) + 1),
                     nd0 := if x % 2 = 0 then s.nd0 + 1 else s.nd0,
                     nd1 := if x % 2 = 0 then s.nd1 else s.nd1 + 1,
                     x0 := s.x0 ^^^ (ep x).1, x1 := s.x1 ^^^ (ep x).2 })
            (by
              simp only [cntBelow, inv.nd0, ← hdir]
              by_cases hz : x % 2 = 0 <;> simp [hz])
            (by
              simp only [cntBelow, inv.nd1, ← hdir]
              by_cases hz : x % 2 = 0
              · simp [hz]
              · have : x % 2 = 1 := by omega
                simp [this])
            (by simp only [hidx]; simp only [hu, hv])
            (by simp only [hidx]; simp only [hu, hv, bU, bV, hdir])
            (by simp only [hidx]; simp only [hu, bU, hdir])
            (by simp only [hidx]; simp only [hv, bV, hdir])
          rw [← hlen] at inv'
          obtain ⟨r1, r2, r3⟩ := ih (pre ++ [x]) (some x) _ s' hns' inv' h
          refine ⟨r1, ?_, ⟨h2', r3⟩⟩
          intro y hy
          rcases List.mem_cons.mp hy with rfl | hy
          · omega
          · exact r2 y hy


/-! ### the inner search along one (non-circular) bucket list -/

section
variable (L : Nat) (s : RoodSt) (i : Nat) (sl val bkt : Nat → Nat) (bstar : Nat)

/-- edges of the bucket already inspected when the search stands at edge `e` (`L` = list end) -/
def TSeen (e e' : Nat) : Prop := e' < L ∧ bkt e' = bstar ∧ (e = L ∨ e < e')

def RInvJ (e j : Nat) : Prop :=
  (j = i ∧ ∀ e', TSeen L bkt bstar e e' → val e' ≠ s.uvs i) ∨
  (∃ ej, TSeen L bkt bstar e ej ∧ j = sl ej ∧ val ej = s.uvs i ∧
    ∀ e', TSeen L bkt bstar e e' → val e' = s.uvs i → e' = ej)

variable (hslL : sl L = 2 * L) (hsl : ∀ e, e < L → sl e ≠ 2 * L)
  (hval : ∀ e, e < L → s.uvs (sl e) = val e)
  (hprev : ∀ e, e < L → s.prev (sl e) = sl (lastBelow (fun e' => bkt e' == bkt e) L e))
  (hne : ∀ e, e < L → bkt e = bstar → sl e ≠ i)
include hslL hsl hval hprev hne

theorem chainFind : ∀ f e j r, e ≤ L → (e < L → bkt e = bstar) → RInvJ L s i sl val bkt bstar e j →
    roodFind L s i f (sl e) j = .ok r → RInvJ L s i sl val bkt bstar L r := by
  intro f
  induction f with
  | zero => intro e j r _ _ _ h; simp [roodFind] at h
  | succ f ih =>
    intro e j r he hb inv h
    unfold roodFind at h
    by_cases hend : e = L
    · subst hend
      simp only [hslL, if_true] at h
      injection h with h
      subst h
      exact inv
    · have heL : e < L := by omega
      have hk : sl e ≠ 2 * L := hsl e heL
      simp only [hk, if_false] at h
      rw [hval e heL, hprev e heL] at h
      have hbe := hb heL
      have sp := lastBelow_spec (fun e' => bkt e' == bkt e) L e
      -- next position and what it has seen
      have hnext : lastBelow (fun e' => bkt e' == bkt e) L e ≤ L ∧
          (lastBelow (fun e' => bkt e' == bkt e) L e < L →
            bkt (lastBelow (fun e' => bkt e' == bkt e) L e) = bstar) ∧
          (∀ e', TSeen L bkt bstar (lastBelow (fun e' => bkt e' == bkt e) L e) e' ↔
            (TSeen L bkt bstar e e' ∨ e' = e)) := by
        rcases sp with ⟨s1, s2⟩ | ⟨s1, s2, s3⟩
        · refine ⟨by omega, fun h => by omega, fun e' => ?_⟩
          rw [s1]
          unfold TSeen
          constructor
          · intro ⟨a, b, _⟩
            by_cases c : e' < e
            · have := s2 e' c; simp [b, hbe] at this
            · by_cases d : e' = e
              · right; exact d
              · left; exact ⟨a, b, Or.inr (by omega)⟩
          · intro h
            rcases h with ⟨a, b, _⟩ | h
            · exact ⟨a, b, Or.inl rfl⟩
            · subst h; exact ⟨heL, hbe, Or.inl rfl⟩
        · have s2' : bkt (lastBelow (fun e' => bkt e' == bkt e) L e) = bkt e := by simpa using s2
          refine ⟨by omega, fun _ => by rw [s2', hbe], fun e' => ?_⟩
          unfold TSeen
          constructor
          · intro ⟨a, b, c⟩
            by_cases c1 : e' < e
            · have := s3 e' c1 (by simp [b, hbe]); omega
            · by_cases d : e' = e
              · right; exact d
              · left; exact ⟨a, b, Or.inr (by omega)⟩
          · intro h
            rcases h with ⟨a, b, c⟩ | h
            · exact ⟨a, b, Or.inr (by omega)⟩
            · subst h; exact ⟨heL, hbe, Or.inr s1⟩
      obtain ⟨n1, n2, n3⟩ := hnext
      by_cases hm : val e = s.uvs i
      · simp only [hm, if_true] at h
        by_cases hj : j = i
        · simp only [hj, ne_eq, not_true_eq_false, if_false] at h
          refine ih _ _ r n1 n2 ?_ h
          right
          refine ⟨e, (n3 e).mpr (Or.inr rfl), rfl, hm, ?_⟩
          intro e' hs hv
          rcases (n3 e').mp hs with hs | hs
          · rcases inv with ⟨_, j2⟩ | ⟨ej, _, j2, _, _⟩
            · exact absurd hv (j2 e' hs)
            · rw [hj] at j2
              exact absurd j2.symm (hne ej (by unfold TSeen at *; omega) (by unfold TSeen at *; omega))
          · exact hs
        · simp [hj] at h
      · simp only [hm, if_false] at h
        refine ih _ _ r n1 n2 ?_ h
        rcases inv with ⟨j1, j2⟩ | ⟨ej, j1, j2, j3, j4⟩
        · left
          refine ⟨j1, fun e' hs => ?_⟩
          rcases (n3 e').mp hs with hs | hs
          · exact j2 e' hs
          · rw [hs]; exact hm
        · right
          refine ⟨ej, (n3 ej).mpr (Or.inl j1), j2, j3, fun e' hs hv => ?_⟩
          rcases (n3 e').mp hs with hs | hs
          · exact j4 e' hs hv
          · rw [hs] at hv; exact absurd hv hm

end


/-! ### one step of the outer loop -/

/-- the slot through which the walk enters edge `e`: its `u` end for direction 0, `v` end for 1 -/
def ent (ns : List Nat) (e : Nat) : Nat := slotOf ns e + dirF ns e

/-- node of edge `e` on side `d` (0 = `u`, else `v`) -/
def sideNode (ep : Nat → Nat × Nat) (ns : List Nat) (d e : Nat) : Nat :=
  if d = 0 then frmF ep ns e else toF ep ns e

theorem ent_inj (ns : List Nat) (e e' : Nat) (h : ent ns e = ent ns e') : e = e' := by
  have a := slotOf_even ns e
  have b := slotOf_even ns e'
  have c := dirF_lt ns e
  have d := dirF_lt ns e'
  unfold ent at h
  exact slotOf_inj ns e e' (by omega)

theorem roodStep_ent (P : Params) (ep : Nat → Nat × Nat) (ns : List Nat) (s : RoodSt)
    (hbk : ∀ x, P.bk x % 2 = x % 2) (inv : RoodInv P ep ns ns.length s) (e i' : Nat)
    (he : e < ns.length) (h : roodStep P ns.length s (ent ns e) = .ok i') :
    ∃ e2, e2 < ns.length ∧ dirF ns e2 ≠ dirF ns e ∧
      sideNode ep ns (dirF ns e) e2 = sideNode ep ns (dirF ns e) e ∧
      (∀ e', e' < ns.length → dirF ns e' ≠ dirF ns e →
        sideNode ep ns (dirF ns e) e' = sideNode ep ns (dirF ns e) e → e' = e2) ∧
      i' = ent ns e2 := by
  have hd := dirF_lt ns e
  have hev := slotOf_even ns e
  unfold roodStep at h
  by_cases hz : dirF ns e = 0
  · -- at the `u` end of a direction-0 edge: search `headu` for direction-1 edges with the same `u`
    have hent : ent ns e = slotOf ns e := by unfold ent; omega
    rw [hent] at h
    simp only [hev, if_true] at h
    rw [inv.uvsU e he, inv.headu] at h
    cases hf : roodFind ns.length s (slotOf ns e) (2 * ns.length + 1)
        (slU ns (lastBelow (fun e' => bU P ep ns e' == P.bk (2 * frmF ep ns e + 1)) ns.length ns.length))
        (slotOf ns e) with
    | error err => simp [hf] at h
    | ok j =>
      simp only [hf] at h
      by_cases hji : j = slotOf ns e
      · simp [hji] at h
      · simp only [hji, if_false] at h
        injection h with h
        have sp := lastBelow_spec (fun e' => bU P ep ns e' == P.bk (2 * frmF ep ns e + 1)) ns.length ns.length
        have hpar : ∀ e', bU P ep ns e' = P.bk (2 * frmF ep ns e + 1) → dirF ns e' = 1 := by
          intro e' hb
          have h1 := hbk (2 * frmF ep ns e' + dirF ns e')
          have h2 := hbk (2 * frmF ep ns e + 1)
          have := dirF_lt ns e'
          unfold bU at hb
          rw [hb] at h1
          omega
        have r := chainFind ns.length s (slotOf ns e) (slU ns) (frmF ep ns) (bU P ep ns)
          (P.bk (2 * frmF ep ns e + 1))
          (by simp [slU])
          (fun e' he' => by have := inv.lt e' he'; simp only [slU]; split <;> omega)
          (fun e' he' => by
            have : e' ≠ ns.length := by omega
            simp only [slU, this, if_false]; exact inv.uvsU e' he')
          (fun e' he' => by
            have : e' ≠ ns.length := by omega
            simp only [slU, this, if_false]; exact inv.prevU e' he')
          (fun e' he' hb => by
            have : e' ≠ ns.length := by omega
            simp only [slU, this, if_false]
            intro heq
            have a := slotOf_dir ns e'
            have b := slotOf_dir ns e
            rw [heq, b, hpar e' hb] at a
            omega)
          _ _ (slotOf ns e) j
          (by rcases sp with ⟨a, _⟩ | ⟨a, _, _⟩ <;> omega)
          (by
            intro hlt
            rcases sp with ⟨a, _⟩ | ⟨_, a, _⟩
            · omega
            · simpa using a)
          (by
            left
            refine ⟨rfl, ?_⟩
            intro e' ⟨t1, t2, t3⟩
            rcases sp with ⟨a, b⟩ | ⟨a, _, c⟩
            · have := b e' t1; simp [t2] at this
            · have := c e' t1 (by simp [t2]); omega)
          hf
        rcases r with ⟨r1, _⟩ | ⟨ej, ⟨t1, t2, _⟩, r2, r3, r4⟩
        · exact absurd r1 hji
        · have hne : ej ≠ ns.length := by omega
          have hdj := hpar ej t2
          refine ⟨ej, t1, by omega, ?_, ?_, ?_⟩
          · simp only [sideNode, hz, if_true]
            rw [r3, inv.uvsU e he]
          · intro e' he' hd' hs
            have hd1 : dirF ns e' = 1 := by have := dirF_lt ns e'; omega
            simp only [sideNode, hz, if_true] at hs
            refine r4 e' ⟨he', ?_, Or.inl rfl⟩ (by rw [hs, inv.uvsU e he])
            unfold bU; rw [hs, hd1]
          · rw [← h, r2]
            have := slotOf_even ns ej
            simp only [slU, hne, if_false, ent, hdj]
            rw [xor_one_eq]; simp [this]
  · -- at the `v` end of a direction-1 edge: search `headv` for direction-0 edges with the same `v`
    have h1d : dirF ns e = 1 := by omega
    have hent : ent ns e = slotOf ns e + 1 := by unfold ent; omega
    have hodd : ¬ ((slotOf ns e + 1) % 2 = 0) := by omega
    rw [hent] at h
    simp only [hodd, if_false] at h
    rw [inv.uvsV e he, inv.headv] at h
    cases hf : roodFind ns.length s (slotOf ns e + 1) (2 * ns.length + 1)
        (slV ns (lastBelow (fun e' => bV P ep ns e' == P.bk (2 * toF ep ns e)) ns.length ns.length))
        (slotOf ns e + 1) with
    | error err => simp [hf] at h
    | ok j =>
      simp only [hf] at h
      by_cases hji : j = slotOf ns e + 1
      · simp [hji] at h
      · simp only [hji, if_false] at h
        injection h with h
        have sp := lastBelow_spec (fun e' => bV P ep ns e' == P.bk (2 * toF ep ns e)) ns.length ns.length
        have hpar : ∀ e', bV P ep ns e' = P.bk (2 * toF ep ns e) → dirF ns e' = 0 := by
          intro e' hb
          have h1 := hbk (2 * toF ep ns e' + dirF ns e')
          have h2 := hbk (2 * toF ep ns e)
          have := dirF_lt ns e'
          unfold bV at hb
          rw [hb] at h1
          omega
        have r := chainFind ns.length s (slotOf ns e + 1) (slV ns) (toF ep ns) (bV P ep ns)
          (P.bk (2 * toF ep ns e))
          (by simp [slV])
          (fun e' he' => by have := inv.lt e' he'; simp only [slV]; split <;> omega)
          (fun e' he' => by
            have : e' ≠ ns.length := by omega
            simp only [slV, this, if_false]; exact inv.uvsV e' he')
          (fun e' he' => by
            have : e' ≠ ns.length := by omega
            simp only [slV, this, if_false]; exact inv.prevV e' he')
          (fun e' he' hb => by
            have : e' ≠ ns.length := by omega
            simp only [slV, this, if_false]
            intro heq
            have a := slotOf_dir ns e'
            have b := slotOf_dir ns e
            have : slotOf ns e' = slotOf ns e := by omega
            rw [this, b, hpar e' hb] at a
            omega)
          _ _ (slotOf ns e + 1) j
          (by rcases sp with ⟨a, _⟩ | ⟨a, _, _⟩ <;> omega)
          (by
            intro hlt
            rcases sp with ⟨a, _⟩ | ⟨_, a, _⟩
            · omega
            · simpa using a)
          (by
            left
            refine ⟨rfl, ?_⟩
            intro e' ⟨t1, t2, t3⟩
            rcases sp with ⟨a, b⟩ | ⟨a, _, c⟩
            · have := b e' t1; simp [t2] at this
            · have := c e' t1 (by simp [t2]); omega)
          hf
        rcases r with ⟨r1, _⟩ | ⟨ej, ⟨t1, t2, _⟩, r2, r3, r4⟩
        · exact absurd r1 hji
        · have hne : ej ≠ ns.length := by omega
          have hdj := hpar ej t2
          refine ⟨ej, t1, by omega, ?_, ?_, ?_⟩
          · simp only [sideNode, hz, if_false]
            rw [r3, inv.uvsV e he]
          · intro e' he' hd' hs
            have hd1 : dirF ns e' = 0 := by have := dirF_lt ns e'; omega
            simp only [sideNode, hz, if_false] at hs
            refine r4 e' ⟨he', ?_, Or.inl rfl⟩ (by rw [hs, inv.uvsV e he])
            unfold bV; rw [hs, hd1, Nat.add_zero]
          · rw [← h, r2]
            have := slotOf_even ns ej
            simp only [slV, hne, if_false, ent, hdj]
            rw [xor_one_eq]
            have : ¬ ((slotOf ns ej + 1) % 2 = 0) := by omega
            simp [this]

end GV.Pow
