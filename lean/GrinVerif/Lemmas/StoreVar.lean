import GrinVerif.Lemmas.StoreFiles
/-! The variable-size data file (`AppendOnlyFile<T>` with `SizeInfo::VariableSize(size_file)`,
`store/src/types.rs`; in the node: the kernel MMR's `pmmr_data.bin` + `pmmr_size.bin`) refines the
element-level file `AOF Bytes`.

`VarFile.Rep el v f`: the byte-level file `v` (data bytes, byte buffer, its size file with
`(offset, size)` entries, both `buffer_start_pos` / `_bak` pairs) represents the element-level file
`f` whose elements are byte strings.  Every operation of `types.rs` on `v` is the same operation on
`f`: `append`, `read_as_elmt`, `rewind`, `flush` (incl. the `set_len` truncation computed from the
size entry `buffer_start_pos - 1` of the ALREADY FLUSHED size file), `discard`, compaction
(`write_tmp_pruned` + `replace_with_tmp` + `rebuild_size_file`), and reopen (`open`, with or
without a usable size file).  Core Lean only. -/
namespace GV.Store
open GV

namespace VarFile

/-- the reader `el` (bytes consumed by `T::read`) reads exactly `e` from any stream that starts
with `e`, and `e` is not empty: what `T::write` followed by `T::read` guarantees for a type whose
encoding is self-delimiting (every `Writeable` stored in a data file). -/
def Delim (el : Bytes → Option Nat) (e : Bytes) : Prop :=
  (e ≠ [] ∧ e.length < 65536) ∧ ∀ rest, el (e ++ rest) = some e.length

/-! ### `sizeEntries`, `slice`, `parseAll` -/

theorem sizeEntries_length : ∀ (l : List Bytes) (off : Nat), (sizeEntries off l).length = l.length
  | [], _ => rfl
  | e :: es, off => by simp [sizeEntries, sizeEntries_length es]

/-- for elements shorter than 65536 bytes the `u16` size cast changes nothing -/
theorem sizeEntriesW_eq : ∀ (l : List Bytes) (off : Nat), (∀ e ∈ l, e.length < 65536) →
    sizeEntriesW off l = sizeEntries off l
  | [], _, _ => rfl
  | e :: es, off, h => by
    have he : u16 e.length = e.length := Nat.mod_eq_of_lt (h e (by simp))
    simp only [sizeEntriesW, sizeEntries, he, sizeEntriesW_eq es _ (fun x hx => h x (by simp [hx]))]

theorem sizeEntries_append : ∀ (a b : List Bytes) (off : Nat),
    sizeEntries off (a ++ b) = sizeEntries off a ++ sizeEntries (off + a.flatten.length) b
  | [], b, off => by simp [sizeEntries]
  | e :: es, b, off => by
    simp only [List.cons_append, sizeEntries, List.flatten_cons, List.length_append,
      sizeEntries_append es b, List.cons.injEq, true_and]
    rw [Nat.add_assoc]

theorem sizeEntries_take : ∀ (l : List Bytes) (off n : Nat),
    (sizeEntries off l).take n = sizeEntries off (l.take n)
  | [], _, n => by simp [sizeEntries]
  | e :: es, off, 0 => by simp [sizeEntries]
  | e :: es, off, n+1 => by simp [sizeEntries, sizeEntries_take es]

theorem sizeEntries_getElem? : ∀ (l : List Bytes) (off i : Nat),
    (sizeEntries off l)[i]? = l[i]?.map fun e => (off + (l.take i).flatten.length, e.length)
  | [], _, i => by simp [sizeEntries]
  | e :: es, off, 0 => by simp [sizeEntries]
  | e :: es, off, i+1 => by
    simp only [sizeEntries, List.getElem?_cons_succ, sizeEntries_getElem? es, List.take_succ_cons,
      List.flatten_cons, List.length_append]
    cases es[i]? with
    | none => rfl
    | some x => simp only [Option.map_some]; rw [Nat.add_assoc]

/-- the bytes of element `i` inside the concatenation, addressed by its size entry -/
theorem slice_flatten (l : List Bytes) (i : Nat) (e : Bytes) (h : l[i]? = some e) (rest : Bytes) :
    slice (l.flatten ++ rest) (l.take i).flatten.length e.length = e := by
  have hi : i < l.length := by
    rcases Nat.lt_or_ge i l.length with h' | h'
    · exact h'
    · rw [List.getElem?_eq_none h'] at h; exact absurd h (by simp)
  have hl : l = l.take i ++ e :: l.drop (i + 1) := by
    have h1 : l.drop i = e :: l.drop (i + 1) := by
      rw [List.drop_eq_getElem_cons hi]
      rw [List.getElem?_eq_getElem hi] at h
      injection h with h; rw [h]
    calc l = l.take i ++ l.drop i := (List.take_append_drop i l).symm
      _ = _ := by rw [h1]
  have hf : l.flatten = (l.take i).flatten ++ (e ++ (l.drop (i + 1)).flatten) := by
    conv => lhs; rw [hl]
    simp
  unfold slice
  rw [hf]
  have hlen : ¬ ((l.take i).flatten ++ (e ++ (l.drop (i + 1)).flatten) ++ rest).length <
      (l.take i).flatten.length + e.length := by
    simp only [List.length_append]; omega
  rw [if_neg hlen, List.append_assoc, List.drop_left, List.append_assoc, List.take_left]

theorem slice_flatten' (l : List Bytes) (i : Nat) (e : Bytes) (h : l[i]? = some e) :
    slice l.flatten (l.take i).flatten.length e.length = e := by
  have := slice_flatten l i e h []
  rwa [List.append_nil] at this

/-- stream-parsing the concatenation of self-delimiting elements gives the elements back -/
theorem parseAll_flatten (el : Bytes → Option Nat) : ∀ (E : List Bytes) (fuel : Nat),
    (∀ e ∈ E, Delim el e) → E.length ≤ fuel → parseAll el fuel E.flatten = E
  | [], fuel, _, _ => by
    cases fuel with
    | zero => rfl
    | succ n =>
      simp only [List.flatten_nil, parseAll]
      cases el [] with
      | none => rfl
      | some k =>
        by_cases hk : k = 0
        · simp [hk]
        · have : ([] : Bytes).length < k := by simp; omega
          simp [this]
  | e :: es, 0, _, hl => by simp at hl
  | e :: es, fuel+1, hd, hl => by
    obtain ⟨⟨hne, _⟩, hr⟩ := hd e (by simp)
    have hpos : 0 < e.length := List.length_pos_iff.2 hne
    simp only [List.flatten_cons, parseAll, hr]
    have h1 : ¬ (e.length = 0 ∨ (e ++ es.flatten).length < e.length) := by
      simp only [List.length_append]; omega
    rw [if_neg h1, List.take_left, List.drop_left,
      parseAll_flatten el es fuel (fun x hx => hd x (by simp [hx])) (by simpa using hl)]

theorem length_le_flatten : ∀ (E : List Bytes), (∀ e ∈ E, e ≠ []) → E.length ≤ E.flatten.length
  | [], _ => by simp
  | e :: es, h => by
    have hpos : 0 < e.length := List.length_pos_iff.2 (h e (by simp))
    have := length_le_flatten es (fun x hx => h x (by simp [hx]))
    simp only [List.length_cons, List.flatten_cons, List.length_append]; omega

theorem parseAll_disk (el : Bytes → Option Nat) (E : List Bytes) (hd : ∀ e ∈ E, Delim el e) :
    parseAll el (E.flatten.length + 1) E.flatten = E :=
  parseAll_flatten el E _ hd (by
    have := length_le_flatten E (fun e he => (hd e he).1.1); omega)

theorem flatten_eq_nil_of_delim {el : Bytes → Option Nat} {E : List Bytes}
    (hd : ∀ e ∈ E, Delim el e) (h : E.flatten.length = 0) : E = [] := by
  have := length_le_flatten E (fun e he => (hd e he).1.1)
  exact List.eq_nil_of_length_eq_zero (by omega)

/-- the elements `write_tmp_pruned` keeps are elements of the file -/
theorem mem_writeTmpLoop {E : Type} : ∀ (es : List E) (cur : Nat) (pp : List Nat) (x : E),
    x ∈ AOF.writeTmpLoop es cur pp → x ∈ es
  | [], _, _, x, h => by simp [AOF.writeTmpLoop] at h
  | e :: es, cur, pp, x, h => by
    unfold AOF.writeTmpLoop at h
    split at h
    · exact List.mem_cons_of_mem _ (mem_writeTmpLoop es _ _ x h)
    · rcases List.mem_cons.1 h with h | h
      · rw [h]; exact List.mem_cons_self
      · exact List.mem_cons_of_mem _ (mem_writeTmpLoop es _ _ x h)

/-! ### the representation relation -/

/-- `v` (bytes + size file) represents the element-level file `f` -/
structure Rep (el : Bytes → Option Nat) (v : VarFile) (f : AOF Bytes) : Prop where
  delimDisk : ∀ e ∈ f.disk, Delim el e
  delimBuf : ∀ e ∈ f.buffer, Delim el e
  disk : v.disk = f.disk.flatten
  buffer : v.buffer = f.buffer.flatten
  bsp : v.bsp = f.bsp
  bak : v.bak = f.bak
  sfDisk : v.sizeFile.disk = sizeEntries 0 f.disk
  /-- the size entries of the buffered elements continue at the byte offset the file is (or will
  be, after the truncation of a rewound state) long -/
  sfBuffer : v.sizeFile.buffer = sizeEntries (f.disk.take f.bsp).flatten.length f.buffer
  sfBsp : v.sizeFile.bsp = f.bsp
  sfBak : v.sizeFile.bak = f.bak
  le : f.bsp ≤ f.disk.length
  bak0 : f.bak = 0 → f.bsp = f.disk.length
  bakPos : 0 < f.bak → f.bak = f.disk.length

theorem rep_empty (el : Bytes → Option Nat) : Rep el {} {} :=
  ⟨by simp, by simp, rfl, rfl, rfl, rfl, rfl, rfl, rfl, rfl, Nat.le_refl _, fun _ => rfl,
    fun h => absurd h (by simp)⟩

variable {el : Bytes → Option Nat} {v : VarFile} {f : AOF Bytes}

theorem Rep.sizeUnsync (h : Rep el v f) : sizeUnsyncInElmts v = f.sizeUnsyncInElmts := by
  unfold sizeUnsyncInElmts AOF.sizeUnsyncInElmts
  rw [h.sfBsp, h.sfBuffer, sizeEntries_length]

theorem Rep.size (h : Rep el v f) : sizeInElmts v = f.sizeInElmts := by
  unfold sizeInElmts AOF.sizeInElmts
  rw [h.sfDisk, sizeEntries_length]

/-- the size file read at `pos` below the unsynced size -/
theorem Rep.sf_read_disk (h : Rep el v f) (pos : Nat) (hp : pos < f.bsp) :
    v.sizeFile.read pos = f.disk[pos]?.map fun e => ((f.disk.take pos).flatten.length, e.length) := by
  unfold AOF.read AOF.sizeUnsyncInElmts
  rw [h.sfBsp]
  have h1 : ¬ pos ≥ f.bsp + v.sizeFile.buffer.length := by omega
  rw [if_neg h1, if_pos hp, h.sfDisk, sizeEntries_getElem?]
  simp

theorem Rep.sf_read_buf (h : Rep el v f) (pos : Nat) (hp : f.bsp ≤ pos)
    (hp2 : pos < f.bsp + f.buffer.length) :
    v.sizeFile.read pos = f.buffer[pos - f.bsp]?.map fun e =>
      ((f.disk.take f.bsp).flatten.length + (f.buffer.take (pos - f.bsp)).flatten.length, e.length) := by
  unfold AOF.read AOF.sizeUnsyncInElmts
  rw [h.sfBsp, h.sfBuffer, sizeEntries_length]
  have h1 : ¬ pos ≥ f.bsp + f.buffer.length := by omega
  have h2 : ¬ pos < f.bsp := by omega
  rw [if_neg h1, if_neg h2, sizeEntries_getElem?]

/-- **`read_as_elmt`**: the element the size entry addresses in the mmap or in the buffer is the
element of the abstract file -/
theorem Rep.read (h : Rep el v f) (pos : Nat) : VarFile.read el v pos = f.read pos := by
  unfold VarFile.read readBytes
  rw [h.sizeUnsync]
  unfold AOF.read
  by_cases hge : pos ≥ f.sizeUnsyncInElmts
  · rw [if_pos hge, if_pos hge]
    simp only
    cases hel : el [] with
    | none => rfl
    | some k =>
      by_cases hk : k = 0
      · simp [hk]
      · have : ([] : Bytes).length < k := by simp; omega
        simp [this]
  · rw [if_neg hge, if_neg hge]
    have hlt : pos < f.bsp + f.buffer.length := by
      unfold AOF.sizeUnsyncInElmts at hge; omega
    unfold offsetAndSize
    by_cases hp : pos < f.bsp
    · rw [h.sf_read_disk pos hp, if_pos hp]
      have hpd : pos < f.disk.length := Nat.lt_of_lt_of_le hp h.le
      rw [List.getElem?_eq_getElem hpd]
      simp only [Option.map_some, h.bsp, if_pos hp, h.disk]
      have hs := slice_flatten' f.disk pos f.disk[pos] (List.getElem?_eq_getElem hpd)
      rw [hs]
      obtain ⟨⟨hne, _⟩, hr⟩ := h.delimDisk f.disk[pos] (List.getElem_mem hpd)
      have := hr []
      rw [List.append_nil] at this
      rw [this]
      have hpos : 0 < (f.disk[pos]).length := List.length_pos_iff.2 hne
      have h3 : ¬ ((f.disk[pos]).length = 0 ∨ (f.disk[pos]).length < (f.disk[pos]).length) := by omega
      simp only [h3, if_false, List.take_length]
    · have hp' : f.bsp ≤ pos := Nat.le_of_not_lt hp
      have hj : pos - f.bsp < f.buffer.length := by omega
      rw [h.sf_read_buf pos hp' hlt, if_neg hp, List.getElem?_eq_getElem hj]
      simp only [Option.map_some, h.bsp, if_neg hp]
      -- the buffer offset: the size entry at `buffer_start_pos`
      have h0 : f.bsp < f.bsp + f.buffer.length := by omega
      have hb0 := h.sf_read_buf f.bsp (Nat.le_refl _) h0
      rw [Nat.sub_self] at hb0
      have h00 : 0 < f.buffer.length := by omega
      rw [List.getElem?_eq_getElem h00] at hb0
      simp only [Option.map_some, List.take_zero, List.flatten_nil, List.length_nil,
        Nat.add_zero] at hb0
      rw [hb0]
      simp only [Nat.add_sub_cancel_left, h.buffer]
      have hs := slice_flatten' f.buffer (pos - f.bsp) _ (List.getElem?_eq_getElem hj)
      rw [hs]
      obtain ⟨⟨hne, _⟩, hr⟩ := h.delimBuf _ (List.getElem_mem hj)
      have := hr []
      rw [List.append_nil] at this
      rw [this]
      have hpos : 0 < (f.buffer[pos - f.bsp]).length := List.length_pos_iff.2 hne
      have h3 : ¬ ((f.buffer[pos - f.bsp]).length = 0 ∨
          (f.buffer[pos - f.bsp]).length < (f.buffer[pos - f.bsp]).length) := by omega
      simp only [h3, if_false, List.take_length]

theorem Rep.read1 (h : Rep el v f) (position : Nat) : VarFile.read1 el v position = f.read1 position := by
  unfold VarFile.read1 AOF.read1
  split
  · rfl
  · exact h.read _

/-- the previous size entry `append` reads ends where the next element starts: at the byte length
of everything `read` can see -/
theorem Rep.prev_entry (h : Rep el v f) (hnz : f.bsp + f.buffer.length ≠ 0) :
    ∃ o s, v.sizeFile.read (f.bsp + f.buffer.length - 1) = some (o, s) ∧
      o + s = (f.disk.take f.bsp).flatten.length + f.buffer.flatten.length := by
  by_cases hb : f.buffer.length = 0
  · have h2 : f.buffer = [] := List.eq_nil_of_length_eq_zero hb
    have hp : f.bsp + f.buffer.length - 1 < f.bsp := by omega
    have hpd : f.bsp + f.buffer.length - 1 < f.disk.length := Nat.lt_of_lt_of_le hp h.le
    refine ⟨(f.disk.take (f.bsp + f.buffer.length - 1)).flatten.length,
      (f.disk[f.bsp + f.buffer.length - 1]'hpd).length, ?_, ?_⟩
    · rw [h.sf_read_disk _ hp, List.getElem?_eq_getElem hpd]; rfl
    · have e1 : f.bsp + f.buffer.length - 1 = f.bsp - 1 := by omega
      have : f.disk.take f.bsp = f.disk.take (f.bsp - 1) ++ [f.disk[f.bsp - 1]'(by omega)] := by
        have hb1 : f.bsp = (f.bsp - 1) + 1 := by omega
        conv => lhs; rw [hb1]
        rw [List.take_succ_eq_append_getElem]
      rw [this]
      simp only [e1, h2, List.flatten_append, List.length_append, List.flatten_cons, List.flatten_nil,
        List.append_nil, List.length_nil, Nat.add_zero]
  · have hp1 : f.bsp ≤ f.bsp + f.buffer.length - 1 := by omega
    have hp2 : f.bsp + f.buffer.length - 1 < f.bsp + f.buffer.length := by omega
    have e1 : f.bsp + f.buffer.length - 1 - f.bsp = f.buffer.length - 1 := by omega
    have hj : f.buffer.length - 1 < f.buffer.length := by omega
    refine ⟨(f.disk.take f.bsp).flatten.length + (f.buffer.take (f.buffer.length - 1)).flatten.length,
      (f.buffer[f.buffer.length - 1]'hj).length, ?_, ?_⟩
    · rw [h.sf_read_buf _ hp1 hp2, e1, List.getElem?_eq_getElem hj]; rfl
    · have : f.buffer = f.buffer.take (f.buffer.length - 1) ++ [f.buffer[f.buffer.length - 1]] := by
        have hb1 : f.buffer.length = (f.buffer.length - 1) + 1 := by omega
        have := List.take_succ_eq_append_getElem (l := f.buffer) hj
        rw [← hb1, List.take_length] at this
        exact this
      conv => rhs; rw [this]
      simp only [e1, List.flatten_append, List.length_append, List.flatten_cons, List.flatten_nil,
        List.append_nil, Nat.add_assoc]

/-- **`append`** never fails and appends the element (its size entry continues the offsets) -/
theorem Rep.append (h : Rep el v f) (e : Bytes) (he : Delim el e) :
    ∃ v', VarFile.append v e = some v' ∧ Rep el v' (f.append e) := by
  have hsu : v.sizeFile.sizeUnsyncInElmts = f.bsp + f.buffer.length := by
    unfold AOF.sizeUnsyncInElmts
    rw [h.sfBsp, h.sfBuffer, sizeEntries_length]
  have key : ∀ off, off = (f.disk.take f.bsp).flatten.length + f.buffer.flatten.length →
      Rep el { v with sizeFile := v.sizeFile.append (off, u16 e.length), buffer := v.buffer ++ e }
        (f.append e) := by
    have hu : u16 e.length = e.length := Nat.mod_eq_of_lt he.1.2
    intro off hoff
    refine ⟨h.delimDisk, ?_, h.disk, ?_, h.bsp, h.bak, h.sfDisk, ?_, h.sfBsp, h.sfBak, h.le, h.bak0,
      h.bakPos⟩
    · intro x hx
      simp only [AOF.append, List.mem_append, List.mem_singleton] at hx
      rcases hx with hx | hx
      · exact h.delimBuf x hx
      · rw [hx]; exact he
    · simp [AOF.append, h.buffer]
    · simp only [AOF.append, h.sfBuffer, sizeEntries_append, sizeEntries, hoff, hu]
  unfold VarFile.append
  dsimp only
  rw [hsu]
  by_cases hz : f.bsp + f.buffer.length = 0
  · rw [if_pos hz]
    refine ⟨_, rfl, key 0 ?_⟩
    have h1 : f.bsp = 0 := by omega
    have h2 : f.buffer = [] := List.eq_nil_of_length_eq_zero (by omega)
    simp [h1, h2]
  · rw [if_neg hz]
    obtain ⟨o, s, hr, hos⟩ := h.prev_entry hz
    rw [hr]
    exact ⟨_, rfl, key (o + s) hos⟩

/-- **`rewind`** (before anything is buffered, to a position inside the file) -/
theorem Rep.rewind (h : Rep el v f) (hb : f.buffer = []) (pos : Nat) (hp : pos ≤ f.disk.length) :
    Rep el (v.rewind pos) (f.rewind pos) := by
  have hvb : v.sizeFile.buffer = [] := by rw [h.sfBuffer, hb]; rfl
  refine ⟨h.delimDisk, h.delimBuf, h.disk, h.buffer, rfl, ?_, h.sfDisk, ?_, rfl, ?_, hp, ?_, ?_⟩
  · simp only [VarFile.rewind, AOF.rewind, h.bak, h.bsp]
  · simp only [VarFile.rewind, AOF.rewind, hvb, hb]; rfl
  · simp only [VarFile.rewind, AOF.rewind, h.sfBak, h.sfBsp]
  · intro h0
    simp only [AOF.rewind] at h0 ⊢
    by_cases hk : f.bak = 0
    · rw [if_pos hk] at h0
      have := h.bak0 hk
      omega
    · rw [if_neg hk] at h0; exact absurd h0 hk
  · intro h0
    simp only [AOF.rewind] at h0 ⊢
    by_cases hk : f.bak = 0
    · rw [if_pos hk] at h0 ⊢; exact h.bak0 hk
    · rw [if_neg hk]; exact h.bakPos (by omega)

/-- **`discard`** -/
theorem Rep.discard (h : Rep el v f) : Rep el v.discard f.discard := by
  refine ⟨h.delimDisk, by simp [AOF.discard], h.disk, rfl, ?_, rfl, h.sfDisk, rfl, ?_, rfl, ?_, ?_, ?_⟩
  · simp only [VarFile.discard, AOF.discard, h.bak, h.bsp]
  · simp only [VarFile.discard, AOF.discard, h.sfBak, h.sfBsp]
  · simp only [AOF.discard]
    split
    · rw [h.bakPos (by assumption)]; exact Nat.le_refl _
    · exact h.le
  · intro _
    simp only [AOF.discard]
    split
    · exact h.bakPos (by assumption)
    · exact h.bak0 (by omega)
  · intro h0; simp [AOF.discard] at h0

/-- **`flush`**: the size file is flushed first; the data file is truncated to `offset + size` of
size entry `buffer_start_pos - 1` read from the flushed size file, then the buffer is appended -/
theorem Rep.flush (h : Rep el v f) : Rep el v.flush f.flush := by
  -- the flushed size file
  have hsf : v.sizeFile.flush.disk = sizeEntries 0 f.flush.disk := by
    simp only [AOF.flush, h.sfBak, h.sfBsp, h.sfDisk, h.sfBuffer]
    by_cases hk : f.bak > 0
    · simp only [if_pos hk, sizeEntries_take, sizeEntries_append, Nat.zero_add]
    · have hk0 : f.bak = 0 := by omega
      have hb := h.bak0 hk0
      simp only [if_neg hk, sizeEntries_append, Nat.zero_add, hb, List.take_length]
  have hdisk : v.flush.disk = f.flush.disk.flatten := by
    have hfd : f.flush.disk = (if f.bak > 0 then f.disk.take f.bsp else f.disk) ++ f.buffer := rfl
    rw [hfd]
    unfold VarFile.flush
    dsimp only
    rw [h.bak, h.bsp]
    by_cases hk : f.bak > 0
    · simp only [if_pos hk]
      by_cases hz : f.bsp = 0
      · simp [hz, h.buffer]
      · rw [if_neg hz]
        -- entry `bsp - 1` of the flushed size file
        have hrd : v.sizeFile.flush.read (f.bsp - 1) =
            some ((f.disk.take (f.bsp - 1)).flatten.length,
              (f.disk[f.bsp - 1]'(by have := h.le; omega)).length) := by
          have hlen : f.bsp - 1 < (f.disk.take f.bsp ++ f.buffer).length := by
            simp only [List.length_append, List.length_take]; have := h.le; omega
          unfold AOF.read AOF.sizeUnsyncInElmts
          have hfl : v.sizeFile.flush.bsp = (f.disk.take f.bsp ++ f.buffer).length := by
            have := hsf
            simp only [AOF.flush, if_pos hk] at this ⊢
            rw [this, sizeEntries_length]
          have hfb : v.sizeFile.flush.buffer = [] := rfl
          rw [hfl, hfb]
          have h1 : ¬ f.bsp - 1 ≥ (f.disk.take f.bsp ++ f.buffer).length + ([] : List SizeEntry).length := by
            simp only [List.length_nil, Nat.add_zero]; omega
          rw [if_neg h1, if_pos hlen, hsf]
          simp only [AOF.flush, if_pos hk, sizeEntries_getElem?, Nat.zero_add]
          have hlt : f.bsp - 1 < (f.disk.take f.bsp).length := by
            rw [List.length_take]; have := h.le; omega
          rw [List.getElem?_append_left hlt, List.getElem?_eq_getElem hlt]
          simp only [Option.map_some, List.getElem_take, List.take_append_of_le_length (Nat.le_of_lt hlt),
            List.take_take, Nat.min_eq_left (show f.bsp - 1 ≤ f.bsp by omega)]
        rw [hrd]
        simp only
        have hsplit : f.disk.take f.bsp = f.disk.take (f.bsp - 1) ++
            [f.disk[f.bsp - 1]'(by have := h.le; omega)] := by
          have hb1 : f.bsp = (f.bsp - 1) + 1 := by omega
          conv => lhs; rw [hb1]
          rw [List.take_succ_eq_append_getElem]
        have hsum : (f.disk.take (f.bsp - 1)).flatten.length +
            (f.disk[f.bsp - 1]'(by have := h.le; omega)).length = (f.disk.take f.bsp).flatten.length := by
          have e : (f.disk.take f.bsp).flatten.length =
              (f.disk.take (f.bsp - 1) ++ [f.disk[f.bsp - 1]'(by have := h.le; omega)]).flatten.length := by
            rw [← hsplit]
          rw [e]
          simp only [List.flatten_append, List.length_append, List.flatten_cons, List.flatten_nil,
            List.append_nil]
        rw [hsum, h.disk]
        have hd : f.disk.flatten = (f.disk.take f.bsp).flatten ++ (f.disk.drop f.bsp).flatten := by
          rw [← List.flatten_append, List.take_append_drop]
        rw [hd, List.take_left]
        have : (f.disk.take f.bsp).flatten.length -
            ((f.disk.take f.bsp).flatten ++ (f.disk.drop f.bsp).flatten).length = 0 := by
          simp only [List.length_append]; omega
        rw [this]
        simp [h.buffer]
    · simp [if_neg hk, h.disk, h.buffer]
  refine ⟨?_, by simp [AOF.flush], hdisk, rfl, ?_, rfl, hsf, rfl, ?_, rfl, Nat.le_refl _, fun _ => rfl,
    fun h0 => absurd h0 (by simp [AOF.flush])⟩
  · intro e he
    simp only [AOF.flush, List.mem_append] at he
    rcases he with he | he
    · split at he
      · exact h.delimDisk e (List.mem_of_mem_take he)
      · exact h.delimDisk e he
    · exact h.delimBuf e he
  · show v.sizeFile.flush.sizeInElmts = f.flush.bsp
    unfold AOF.sizeInElmts
    rw [hsf, sizeEntries_length]; rfl
  · show v.sizeFile.flush.bsp = f.flush.bsp
    have : v.sizeFile.flush.bsp = v.sizeFile.flush.disk.length := rfl
    rw [this, hsf, sizeEntries_length]; rfl

/-- the state `init` leaves when data file and size file are consistent -/
theorem rep_init {E : List Bytes} (hd : ∀ e ∈ E, Delim el e) (v0 : VarFile)
    (h1 : v0.disk = E.flatten) (h2 : v0.sizeFile.disk = sizeEntries 0 E)
    (hb : v0.buffer = []) (hsb : v0.sizeFile.buffer = []) (hk : v0.bak = 0) (hsk : v0.sizeFile.bak = 0) :
    Rep el (init v0) (AOF.ofDisk E) := by
  have hlen : (init v0).bsp = E.length := by
    simp only [init, AOF.init, AOF.sizeInElmts, h1, h2, sizeEntries_length]
    split
    · rename_i h0
      rw [flatten_eq_nil_of_delim hd h0]; rfl
    · rfl
  refine ⟨hd, by simp [AOF.ofDisk], h1, by simp [init, hb, AOF.ofDisk], hlen, hk, h2, ?_, ?_, hsk,
    Nat.le_refl _, fun _ => rfl, fun h0 => absurd h0 (by simp [AOF.ofDisk])⟩
  · simp only [init, AOF.init, hsb, AOF.ofDisk]; rfl
  · simp only [init, AOF.init, h2, sizeEntries_length, AOF.ofDisk]

/-- **`rebuild_size_file` + `init`**: whatever the size file held, after the rebuild the pair
represents the elements the data file holds -/
theorem rep_rebuild {E : List Bytes} (hd : ∀ e ∈ E, Delim el e) (v0 : VarFile)
    (h1 : v0.disk = E.flatten)
    (hb : v0.buffer = []) (hsb : v0.sizeFile.buffer = []) (hk : v0.bak = 0) (hsk : v0.sizeFile.bak = 0) :
    Rep el (init (rebuildSizeFile el v0)) (AOF.ofDisk E) := by
  apply rep_init hd
  · exact h1
  · simp only [rebuildSizeFile, h1, parseAll_disk el E hd, sizeEntriesW_eq E 0 (fun e he => (hd e he).1.2)]
  · exact hb
  · exact hsb
  · exact hk
  · exact hsk

/-- **`open`** on a data file holding `E` with ANY size file: if the size file is the one that
belongs to `E`, or if `open` notices the inconsistency (`sum_sizes != file length`) and rebuilds
it, the opened file represents `E`.  (A size file with the right sum and wrong entries is not
noticed – the check is only the sum.) -/
theorem rep_ofDisk {E : List Bytes} (hd : ∀ e ∈ E, Delim el e) (sizes : List SizeEntry)
    (hs : sizes = sizeEntries 0 E ∨
      sumSizes (init { disk := E.flatten, sizeFile := { disk := sizes } }).sizeFile ≠ E.flatten.length) :
    Rep el (ofDisk el E.flatten sizes) (AOF.ofDisk E) := by
  unfold ofDisk
  simp only
  split
  · have := rep_rebuild (el := el) hd (init { disk := E.flatten, sizeFile := { disk := sizes } })
      rfl rfl rfl rfl rfl
    exact this
  · rename_i hne
    rcases hs with hs | hs
    · exact rep_init hd _ rfl hs rfl rfl rfl rfl
    · exact absurd hs hne

/-- **reopen** of a represented file (after `flush`: the durable parts) -/
theorem Rep.reopen (h : Rep el v f) : Rep el (ofDisk el v.disk v.sizeFile.disk) (AOF.ofDisk f.disk) := by
  rw [h.disk, h.sfDisk]
  exact rep_ofDisk h.delimDisk _ (Or.inl rfl)

/-- **compaction** (`write_tmp_pruned` over the parsed element stream, `replace_with_tmp`,
`rebuild_size_file`, `init`) of a synced file -/
theorem Rep.compact (h : Rep el v f) (hc : f.Clean) (idx : List Nat) :
    Rep el (replaceWith el v (writeTmpPruned el v idx)) (f.replaceWith (f.writeTmpPruned idx)) := by
  obtain ⟨c1, c2, c3⟩ := hc
  have hE : ∀ e ∈ AOF.writeTmpLoop f.disk 0 idx, Delim el e :=
    fun e he => h.delimDisk e (mem_writeTmpLoop _ _ _ e he)
  have hw : writeTmpPruned el v idx = (AOF.writeTmpLoop f.disk 0 idx).flatten := by
    simp only [writeTmpPruned, h.disk, parseAll_disk el f.disk h.delimDisk]
  have hR : f.replaceWith (f.writeTmpPruned idx) = AOF.ofDisk (AOF.writeTmpLoop f.disk 0 idx) := by
    simp only [AOF.replaceWith, AOF.init, AOF.writeTmpPruned, AOF.ofDisk, c1, c2]
  rw [hR, replaceWith, hw]
  apply rep_rebuild hE
  · rfl
  · show v.buffer = []
    rw [h.buffer, c1]; rfl
  · show v.sizeFile.buffer = []
    rw [h.sfBuffer, c1]; rfl
  · show v.bak = 0
    rw [h.bak, c2]
  · show v.sizeFile.bak = 0
    rw [h.sfBak, c2]

end VarFile
end GV.Store
