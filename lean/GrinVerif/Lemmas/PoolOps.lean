import GrinVerif.Lemmas.PoolInv
/-! Preservation of the pool invariant by `TransactionPool::add_to_pool` (when no eviction is
triggered), `reconcile_block`, `reconcile_reorg_cache`. -/
namespace GV.Pool

theorem isAcceptable_not_over {c : Ctx} {s : TxPool} {t : Tx} (h : s.txpool.length ≤ c.cfg.maxPool) :
    s.isAcceptable c t false ≠ some "OverCapacity" := by
  unfold TxPool.isAcceptable
  have h1 : ¬ (s.txpool.length > c.cfg.maxPool) := by omega
  simp only [h1, if_false, Bool.false_and, decide_false, Bool.or_false, Bool.false_eq_true]
  split <;> simp

/-- unfolding the txpool aggregate used as `extra_tx` back into the txpool's transactions -/
theorem netOK_unfold_extra {c : Ctx} {tp : Pool} {x : Option Tx} {l : List Tx} (htp : TxpoolOK c tp)
    (hx : Pool.allAggregate c tp none = .ok x) (h : NetOK (utxoIds c) (l ++ x.toList)) :
    NetOK (utxoIds c) (l ++ tp.txs) := by
  rcases allAggregate_txpoolOK htp with ⟨h1, h2⟩ | ⟨a, h1, h2⟩
  · rw [h2] at hx; simp at hx; subst hx; subst h1; simpa using h
  · rw [h2] at hx; simp at hx; subst hx
    exact netOK_unfold_aggregate h1 (by simpa using h)

theorem mem_addToReorgCache {c : Ctx} {s : TxPool} {e x : Entry} (h : x ∈ (s.addToReorgCache c e).cache) :
    x ∈ s.cache ∨ x = e := by
  unfold TxPool.addToReorgCache at h
  simp only at h
  split at h
  · have := List.mem_of_mem_drop h
    simpa using this
  · simpa using h

/-- the stempool gained a validated entry -/
theorem inv_stem_added {c : Ctx} {s : TxPool} {entry : Entry} {extra : Option Tx} {sp : Pool}
    (hInv : Inv c s) (hval : entry.tx.validate c .asTransaction = none)
    (hx : Pool.allAggregate c s.txpool none = .ok extra)
    (hadd : Pool.addToPool c s.stempool entry extra = .ok sp) :
    Inv c { txpool := s.txpool, stempool := sp, cache := s.cache } := by
  obtain ⟨hsp, hnet⟩ := netOK_of_add hadd
  refine ⟨?_, hInv.txOK, netOK_unfold_extra hInv.txOK hx hnet⟩
  intro e he
  simp only at he
  rcases he with he | he | he
  · exact hInv.valid e (Or.inl he)
  · rw [hsp] at he
    rcases List.mem_append.mp he with he | he
    · exact hInv.valid e (Or.inr (Or.inl he))
    · simp at he; subst he; exact hval
  · exact hInv.valid e (Or.inr (Or.inr he))

/-- after a successful `add_to_txpool` (+ reorg cache) the invariant holds, whatever the state
was before, provided all entries were standalone valid -/
theorem inv_after_txpool_add {c : Ctx} {s s2 : TxPool} {entry : Entry}
    (hv : AllValid c s) (hval : entry.tx.validate c .asTransaction = none)
    (h1 : s2.txpool = s.txpool ++ [entry]) (h2 : TxpoolOK c s2.txpool)
    (h3 : NetOK (utxoIds c) (s2.stempool.txs ++ s2.txpool.txs))
    (h4 : ∀ x ∈ s2.stempool, x ∈ s.stempool) (h5 : s2.cache = s.cache) :
    Inv c (s2.addToReorgCache c entry) := by
  refine ⟨?_, h2, h3⟩
  intro e he
  rcases he with he | he | he
  · have : e ∈ s2.txpool := he
    rw [h1] at this
    rcases List.mem_append.mp this with h | h
    · exact hv e (Or.inl h)
    · simp at h; subst h; exact hval
  · exact hv e (Or.inr (Or.inl (h4 e he)))
  · rcases mem_addToReorgCache he with h | h
    · rw [h5] at h; exact hv e (Or.inr (Or.inr h))
    · subst h; exact hval

theorem addCore_inv_fluff {c : Ctx} {s : TxPool} (src : Src) (tx : Tx) (stemOk : Bool)
    (hInv : Inv c s) (hcap : s.txpool.length ≤ c.cfg.maxPool) :
    Inv c (s.addCore c src tx false stemOk).1 := by
  unfold TxPool.addCore
  split
  · exact hInv
  split
  · exact hInv
  rename_i entry hentry
  simp only []
  split
  · exact hInv
  split
  · exact hInv
  split
  · exact hInv
  rename_i hval
  split
  · exact hInv
  split
  · exact hInv
  split
  · exact hInv
  split
  · exact hInv
  have hno : (!false && TxPool.isAcceptable c s entry.tx false == some "OverCapacity") = false := by
    have := isAcceptable_not_over (t := entry.tx) hcap
    simp only [Bool.not_false, Bool.true_and, beq_eq_false_iff_ne, ne_eq]
    exact this
  simp only [Bool.false_eq_true, if_false, hno]
  rcases addToTxpool_cases c s entry with ⟨er, h⟩ | ⟨s2, h, h1, h2, h3, h4, h5⟩
  · rw [h]; exact hInv
  · rw [h]
    exact inv_after_txpool_add hInv.valid hval h1 h2 h3 h4 h5

theorem addCore_inv_stem {c : Ctx} {s : TxPool} (src : Src) (tx : Tx) (stemOk : Bool)
    (hInv : Inv c s) :
    Inv c (s.addCore c src tx true stemOk).1 := by
  unfold TxPool.addCore
  split
  · exact hInv
  split
  · exact hInv
  rename_i entry hentry
  simp only []
  split
  · exact hInv
  split
  · exact hInv
  split
  · exact hInv
  rename_i hval
  split
  · exact hInv
  split
  · exact hInv
  rename_i extra hextra
  split
  · exact hInv
  split
  · exact hInv
  simp only [if_true] at hextra
  simp only [if_true, Bool.not_true, Bool.false_and, Bool.false_eq_true, if_false]
  cases hadd : Pool.addToPool c s.stempool entry extra with
  | error er => exact hInv
  | ok sp =>
    have hInv1 := inv_stem_added hInv hval hextra hadd
    cases stemOk with
    | true => exact hInv1
    | false =>
      simp only []
      rcases addToTxpool_cases c { txpool := s.txpool, stempool := sp, cache := s.cache } entry with
        ⟨er, h⟩ | ⟨s2, h, h1, h2, h3, h4, h5⟩
      · rw [h]; exact hInv1
      · rw [h]
        exact inv_after_txpool_add hInv1.valid hval h1 h2 h3 h4 h5

/-- `TransactionPool::add_to_pool` keeps the invariant when the pool is not over capacity -/
theorem addToPool_inv {c : Ctx} {s : TxPool} (src : Src) (tx : Tx) (stem stemOk : Bool)
    (hInv : Inv c s) (hcap : s.txpool.length ≤ c.cfg.maxPool) :
    Inv c (s.addToPool c src tx stem stemOk).1 := by
  unfold TxPool.addToPool
  split
  · exact addCore_inv_fluff src tx stemOk hInv hcap
  · cases stem with
    | true => exact addCore_inv_stem src tx stemOk hInv
    | false => exact addCore_inv_fluff src tx stemOk hInv hcap

end GV.Pool
