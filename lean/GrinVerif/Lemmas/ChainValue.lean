import GrinVerif.Lemmas.ChainApply
/-! Value accounting on the replayed state (C01 `state_equation`) and the exact effect of a block
on the unspent set. -/
namespace GV.Chain

/-- what `verify_sorted_and_unique` enforces on a body: no input and no output commitment occurs
twice (`dupInBody` in `validateBody`; see `sane_of_validateBody`). -/
def Blk.Sane (b : Blk) : Prop := b.ins.Nodup ∧ (b.outs.map (·.1)).Nodup

theorem sane_of_validateBody (p : Params) (outs : List OutDef) (b : Blk) (iv : Nat)
    (h : validateBody p outs b iv = none) : b.Sane := validateBody_none_nodup p outs b iv h

/-- membership in the unspent set after a block, in terms of the set before -/
theorem effects_has (s : UState) (b : Blk) (o : Nat) :
    (effects s b).has o = ((s.has o && !b.ins.contains o) || b.outs.any (·.1 == o)) := by
  simp only [UState.has, effects, List.any_append, List.any_filter, List.any_map]
  congr 1
  · induction s.utxo with
    | nil => simp
    | cons u us ih =>
      simp only [List.any_cons, ih]
      by_cases hu : u.1 = o
      · subst hu; simp
      · have : (u.1 == o) = false := by simpa using hu
        simp [this]

theorem has_iff_mem (s : UState) (o : Nat) : s.has o = true ↔ o ∈ s.utxo.map (·.1) := by
  simp only [UState.has, List.any_eq_true, List.mem_map]
  constructor
  · rintro ⟨u, hu, he⟩; exact ⟨u, hu, by simpa using he⟩
  · rintro ⟨u, hu, he⟩; exact ⟨u, hu, by simpa using he⟩

theorem foldl_add_eq_sum (l : List Nat) (a : Nat) : l.foldl (· + ·) a = a + l.sum := by
  induction l generalizing a with
  | nil => simp
  | cons x xs ih => simp only [List.foldl_cons, ih, List.sum_cons]; omega

theorem sumVals_eq_sum (outs : List OutDef) (ids : List Nat) :
    sumVals outs ids = (ids.map (valOf outs)).sum := by
  unfold sumVals
  rw [foldl_add_eq_sum]; omega

/-- total value of the unspent outputs of a replayed state -/
def utxoValue (outs : List OutDef) (s : UState) : Nat := (s.utxo.map (fun u => valOf outs u.1)).sum

/-- removing the one entry with id `i` from a list with distinct ids removes exactly its value -/
theorem sum_filter_ne (f : Nat → Nat) (L : List (Nat × Nat × Bool)) (i : Nat)
    (hnd : (L.map (·.1)).Nodup) (hm : i ∈ L.map (·.1)) :
    ((L.filter (fun u => !(u.1 == i))).map (fun u => f u.1)).sum + f i = (L.map (fun u => f u.1)).sum := by
  induction L with
  | nil => cases hm
  | cons u us ih =>
    simp only [List.map_cons, List.nodup_cons] at hnd
    simp only [List.map_cons, List.mem_cons] at hm
    by_cases hu : u.1 = i
    · subst hu
      have hfil : us.filter (fun v => !(v.1 == u.1)) = us := by
        apply List.filter_eq_self.mpr
        intro v hv
        have : v.1 ≠ u.1 := fun he => hnd.1 (he ▸ List.mem_map.mpr ⟨v, hv, rfl⟩)
        simpa using this
      simp only [List.filter_cons, beq_self_eq_true, Bool.not_true, hfil, List.map_cons, List.sum_cons]
      simp
      omega
    · have hne : (u.1 == i) = false := by simpa using hu
      have hm' : i ∈ us.map (·.1) := by
        rcases hm with h | h
        · exact absurd h.symm hu
        · exact h
      have := ih hnd.2 hm'
      simp only [List.filter_cons, hne, Bool.not_false, if_true, List.map_cons, List.sum_cons]
      omega

/-- removing the entries of distinct ids `ins`, all present, removes exactly their values -/
theorem sum_filter_notin (f : Nat → Nat) (ins : List Nat) : ∀ (L : List (Nat × Nat × Bool)),
    (L.map (·.1)).Nodup → ins.Nodup → (∀ i ∈ ins, i ∈ L.map (·.1)) →
    ((L.filter (fun u => !ins.contains u.1)).map (fun u => f u.1)).sum + (ins.map f).sum =
      (L.map (fun u => f u.1)).sum := by
  induction ins with
  | nil =>
    intro L _ _ _
    have : L.filter (fun _ => true) = L := List.filter_eq_self.mpr (fun _ _ => rfl)
    simp [this]
  | cons i rest ih =>
    intro L hnd hin hsub
    simp only [List.nodup_cons] at hin
    have hsplit : L.filter (fun u => !(i :: rest).contains u.1) =
        (L.filter (fun u => !(u.1 == i))).filter (fun u => !rest.contains u.1) := by
      rw [List.filter_filter]
      apply List.filter_congr
      intro u _
      by_cases h : u.1 = i
      · simp [h]
      · have h' : (u.1 == i) = false := by simpa using h
        simp [h, h']
    have hnd' : ((L.filter (fun u => !(u.1 == i))).map (·.1)).Nodup :=
      (List.filter_sublist.map _).nodup hnd
    have hsub' : ∀ j ∈ rest, j ∈ (L.filter (fun u => !(u.1 == i))).map (·.1) := by
      intro j hj
      obtain ⟨u, hu, huj⟩ := List.mem_map.mp (hsub j (List.mem_cons_of_mem _ hj))
      refine List.mem_map.mpr ⟨u, List.mem_filter.mpr ⟨hu, ?_⟩, huj⟩
      have : u.1 ≠ i := fun he => hin.1 (by rw [← he, huj]; exact hj)
      simpa using this
    have h1 := ih _ hnd' hin.2 hsub'
    have h2 := sum_filter_ne f L i hnd (hsub i (List.mem_cons_self ..))
    rw [hsplit]
    simp only [List.map_cons, List.sum_cons]
    omega

/-- the value change of one block on the replayed state: what it spends leaves, what it creates
enters -/
theorem effects_value (outs : List OutDef) (s : UState) (b : Blk)
    (hnd : (s.utxo.map (·.1)).Nodup) (hin : b.ins.Nodup) (hsub : ∀ i ∈ b.ins, s.has i = true) :
    utxoValue outs (effects s b) + sumVals outs b.ins =
      utxoValue outs s + sumVals outs (b.outs.map (·.1)) := by
  have h := sum_filter_notin (valOf outs) b.ins s.utxo hnd hin
    (fun i hi => (has_iff_mem s i).mp (hsub i hi))
  simp only [utxoValue, effects, sumVals_eq_sum, List.map_append, List.sum_append, List.map_map]
  have e : (b.outs.map ((fun u : Nat × Nat × Bool => valOf outs u.1) ∘ fun o => (o.1, b.h, o.2))) =
      b.outs.map (valOf outs ∘ fun x => x.1) := by
    apply List.map_congr_left; intro o _; rfl
  rw [e]
  omega

/-- distinct ids are kept by a block whose outputs are distinct and not already unspent -/
theorem effects_nodup (s : UState) (b : Blk) (hnd : (s.utxo.map (·.1)).Nodup)
    (hon : (b.outs.map (·.1)).Nodup) (hfresh : ∀ o ∈ b.outs, s.has o.1 = false) :
    ((effects s b).utxo.map (·.1)).Nodup := by
  simp only [effects, List.map_append, List.map_map]
  have e : b.outs.map ((fun u : Nat × Nat × Bool => u.1) ∘ fun o => (o.1, b.h, o.2)) = b.outs.map (·.1) := by
    apply List.map_congr_left; intro o _; rfl
  rw [e]
  refine List.nodup_append.mpr ⟨(List.filter_sublist.map _).nodup hnd, hon, ?_⟩
  intro a ha c hc hac
  subst hac
  obtain ⟨o, ho, hoa⟩ := List.mem_map.mp hc
  have h1 := hfresh o ho
  obtain ⟨u, hu, hua⟩ := List.mem_map.mp ha
  have : s.has o.1 = true := (has_iff_mem s o.1).mpr
    (List.mem_map.mpr ⟨u, (List.mem_filter.mp hu).1, by rw [hua, hoa]⟩)
  rw [this] at h1; cases h1

/-- **state equation along a replay**: over any sequence of blocks that replays successfully and
whose bodies balance (`valueMismatch = false`: Σ outputs = Σ inputs + subsidy), the value of the
unspent set grows by exactly one subsidy per block; unspent ids stay distinct. -/
theorem replay_value (p : Params) (outs : List OutDef) (bs : List Blk) : ∀ (s s' : UState),
    (s.utxo.map (·.1)).Nodup → replay p s bs = .ok s' →
    (∀ b ∈ bs, b.Sane ∧ valueMismatch p outs b (sumVals outs b.ins) = false) →
    utxoValue outs s' = utxoValue outs s + bs.length * p.reward ∧ (s'.utxo.map (·.1)).Nodup := by
  induction bs with
  | nil =>
    intro s s' hnd hr _
    simp only [replay] at hr
    injection hr with hr
    subst hr
    exact ⟨by simp, hnd⟩
  | cons b bs ih =>
    intro s s' hnd hr hb
    simp only [replay] at hr
    cases h1 : applyBlock p s b with
    | error e => simp only [h1] at hr; cases hr
    | ok s1 =>
      simp only [h1] at hr
      obtain ⟨hins, houts, _, _, he⟩ := applyBlock_ok p s s1 b h1
      obtain ⟨hs, hv⟩ := hb b (List.mem_cons_self ..)
      subst he
      have hnd1 := effects_nodup s b hnd hs.2 houts
      obtain ⟨hval, hnd'⟩ := ih _ s' hnd1 hr (fun b' hb' => hb b' (List.mem_cons_of_mem _ hb'))
      refine ⟨?_, hnd'⟩
      have hv' : sumVals outs (b.outs.map (·.1)) = sumVals outs b.ins + p.reward := by
        unfold valueMismatch at hv; simpa using hv
      have := effects_value outs s b hnd hs.1 hins
      rw [hval, List.length_cons, Nat.add_mul]
      omega

end GV.Chain
