import GrinVerif.Model.CrashRecov
import GrinVerif.Lemmas.CrashRecover
import GrinVerif.Lemmas.CrashSteps
/-! Lemmas about the start-up recovery as a sequence of durable writes (`Model/CrashRecov.lean`):
`validAt` depends on the files only through their prefixes and on the leaf set only through
membership; what one `sync` of a rewound extension does to `validAt`; the loop acting on its own
writes (`fallbackS`) decides like the net-effect loop (`fallback`). -/
namespace GV.Crash

theorem mem_leafAt (leaf readd : List Leaf) (P : List BlkInfo) (l : Leaf) :
    l ∈ leafAt leaf readd P ↔ l ∈ leavesOf P ∧ (l ∈ leaf ∨ l ∈ readd) :=
  mem_rewoundLeaf leaf readd P l

/-- `validAt` with the rewound leaf set named -/
theorem validAt_eq (bc : Nat → Bool) (d : Durable) (r : List Leaf) (P : List BlkInfo) :
    validAt bc d r P =
      (d.outHash.take (leavesOf P).length == leavesOf P && d.outData.take (leavesOf P).length == leavesOf P &&
       d.kerHash.take P.length == P.map (·.id) && d.kerData.take P.length == P.map (·.id) &&
       (!bc (P.length - 1) ||
         ((unspentOf P).all (fun l => (rewoundLeaf d.leaf r P).contains l) &&
          (rewoundLeaf d.leaf r P).all (fun l => (unspentOf P).contains l)))) := rfl

/-- validity looks at the file prefixes and at the members of the rewound leaf set only -/
theorem validAt_congr (bc : Nat → Bool) (d1 d2 : Durable) (s1 s2 : List Leaf) (P : List BlkInfo)
    (h1 : d1.outHash.take (leavesOf P).length = d2.outHash.take (leavesOf P).length)
    (h2 : d1.outData.take (leavesOf P).length = d2.outData.take (leavesOf P).length)
    (h3 : d1.kerHash.take P.length = d2.kerHash.take P.length)
    (h4 : d1.kerData.take P.length = d2.kerData.take P.length)
    (hl : ∀ l, l ∈ leavesOf P → ((l ∈ d1.leaf ∨ l ∈ s1) ↔ (l ∈ d2.leaf ∨ l ∈ s2))) :
    validAt bc d1 s1 P = validAt bc d2 s2 P := by
  rw [validAt_eq, validAt_eq, h1, h2, h3, h4]
  have hb : ((unspentOf P).all (fun l => (rewoundLeaf d1.leaf s1 P).contains l) &&
          (rewoundLeaf d1.leaf s1 P).all (fun l => (unspentOf P).contains l)) =
        ((unspentOf P).all (fun l => (rewoundLeaf d2.leaf s2 P).contains l) &&
          (rewoundLeaf d2.leaf s2 P).all (fun l => (unspentOf P).contains l)) := by
    rw [Bool.eq_iff_iff, bitmapOk_iff, bitmapOk_iff]
    have hm : ∀ l, l ∈ rewoundLeaf d1.leaf s1 P ↔ l ∈ rewoundLeaf d2.leaf s2 P := by
      intro l
      rw [mem_rewoundLeaf, mem_rewoundLeaf]
      constructor
      · rintro ⟨a, b⟩; exact ⟨a, (hl l a).1 b⟩
      · rintro ⟨a, b⟩; exact ⟨a, (hl l a).2 b⟩
    constructor
    · intro h l; rw [h l]; exact hm l
    · intro h l; rw [h l]; exact (hm l).symm
  rw [hb]

theorem leavesOf_prefix_len (Q P : List BlkInfo) (h : Q <+: P) :
    (leavesOf Q).length ≤ (leavesOf P).length := by
  obtain ⟨R, rfl⟩ := h
  rw [leavesOf_append, List.length_append]; omega

theorem leavesOf_prefix_mem (Q P : List BlkInfo) (h : Q <+: P) (l : Leaf) (hl : l ∈ leavesOf Q) :
    l ∈ leavesOf P := by
  obtain ⟨R, rfl⟩ := h
  rw [leavesOf_append]; exact List.mem_append_left _ hl

/-- what the three `backend.sync()`s of a committed rewind to `P` leave on disk -/
theorem runIns_sync (d : Durable) (P : List BlkInfo) (t : List Leaf) :
    runIns d (syncIns P t) =
      { d with outHash := d.outHash.take (leavesOf P).length, outData := d.outData.take (leavesOf P).length,
               leaf := leafAt d.leaf t P,
               kerHash := d.kerHash.take P.length, kerData := d.kerData.take P.length } := rfl

theorem take_take_le {α : Type} (l : List α) (a b : Nat) (h : b ≤ a) : (l.take a).take b = l.take b := by
  rw [List.take_take, Nat.min_eq_left h]

/-- **One sync.** After the files were synced at `P` (re-adding `t`), judging a prefix `Q` of `P`
with further re-added leaves `s` is judging the state before the sync with `t ++ s` re-added. -/
theorem validAt_sync (bc : Nat → Bool) (d : Durable) (P Q : List BlkInfo) (t s : List Leaf)
    (hQ : Q <+: P) :
    validAt bc (runIns d (syncIns P t)) s Q = validAt bc d (t ++ s) Q := by
  rw [runIns_sync]
  have hlen := leavesOf_prefix_len Q P hQ
  have hlen2 : Q.length ≤ P.length := hQ.length_le
  apply validAt_congr
  · exact take_take_le _ _ _ hlen
  · exact take_take_le _ _ _ hlen
  · exact take_take_le _ _ _ hlen2
  · exact take_take_le _ _ _ hlen2
  · intro l hl
    have hP := leavesOf_prefix_mem Q P hQ l hl
    simp only [mem_leafAt, List.mem_append]
    constructor
    · rintro (⟨_, a | a⟩ | a)
      · exact Or.inl a
      · exact Or.inr (Or.inl a)
      · exact Or.inr (Or.inr a)
    · rintro (a | a | a)
      · exact Or.inl ⟨hP, Or.inl a⟩
      · exact Or.inl ⟨hP, Or.inr a⟩
      · exact Or.inr a

theorem dropLast_prefix {α : Type} (l : List α) : l.dropLast <+: l := by
  induction l using list_rev_ind with
  | nil => simp
  | snoc l a _ => rw [List.dropLast_concat]; exact List.prefix_append l [a]

/-- the parent path of a found path of length > 1 is the found path of its own tip -/
theorem pathOf_dropLast (tbl : List BlkInfo) (fuel h : Nat) (path : List BlkInfo)
    (hp : pathOf tbl fuel h [] = some path) (hl : ¬ path.length ≤ 1) :
    pathOf tbl fuel ((path.dropLast.getLast?.map (·.id)).getD 0) [] = some path.dropLast := by
  obtain ⟨pre, b, rfl, _, _⟩ := pathOf_snoc tbl fuel h path hp
  rw [List.dropLast_concat]
  have hne : pre ≠ [] := by
    intro e; subst e; simp at hl
  exact pathOf_prefix tbl fuel pre hne [b] h hp

/-- **The loop on its own writes decides like the net-effect loop.** If judging any prefix of the
candidate's path on the current files `d'` is judging the original files `d` with `r` re-added,
`fallbackS` on `d'` and `fallback` on `(d, r)` end alike. -/
theorem fallbackS_outcome (bc : Nat → Bool) (tbl : List BlkInfo) :
    ∀ (fuel : Nat) (d' d : Durable) (r : List Leaf) (h : Nat),
      (∀ P, pathOf tbl (tbl.length + 1) h [] = some P → ∀ Q, Q <+: P → ∀ s,
          validAt bc d' s Q = validAt bc d (r ++ s) Q) →
      (fallbackS bc tbl fuel d' h).2 = fallback bc tbl d fuel h r := by
  intro fuel
  induction fuel with
  | zero => intro d' d r h _; rfl
  | succ fuel ih =>
    intro d' d r h hinv
    unfold fallbackS fallback
    cases hp : pathOf tbl (tbl.length + 1) h [] with
    | none => rfl
    | some path =>
      simp only []
      by_cases hl : path.length ≤ 1
      · simp [hl]
      · have hv : validAt bc d' [] path = validAt bc d r path := by
          have := hinv path hp path (List.prefix_refl _) []
          simpa using this
        simp only [hl, if_false, hv]
        by_cases hval : validAt bc d r path = true
        · simp [hval]
        · simp only [hval, Bool.false_eq_true, if_false]
          apply ih
          intro P' hP' Q hQ s
          have hpar := pathOf_dropLast tbl (tbl.length + 1) h path hp hl
          rw [hpar] at hP'
          have hPe : P' = path.dropLast := (Option.some.inj hP').symm
          subst hPe
          rw [validAt_sync bc d' path.dropLast Q _ s hQ]
          have := hinv path hp Q (hQ.trans (dropLast_prefix path))
            (spentLeaves (unspentOf path.dropLast) path.getLast! ++ s)
          rw [this, List.append_assoc]

/-- the header truncations do not touch what the loop looks at -/
theorem validAt_hdrIns (bc : Nat → Bool) (d : Durable) (hp : List BlkInfo) (s : List Leaf) (Q : List BlkInfo) :
    validAt bc (runIns d (hdrIns hp)) s Q = validAt bc d s Q := rfl

/-- **`recoverS` ends like `recover`.** -/
theorem recoverS_outcome (bc : Nat → Bool) (tbl : List BlkInfo) (d : Durable) :
    (recoverS bc tbl d).2 = recover bc tbl d := by
  unfold recoverS recover
  by_cases h1 : d.hdrHash.length ≠ d.hdrData.length
  · simp [h1]
  · simp only [h1, if_false]
    cases hp : pathOf tbl (tbl.length + 1) d.dbHHead [] with
    | none => rfl
    | some hpath =>
      simp only []
      by_cases h2 : d.hdrData.take hpath.length ≠ hpath.map (·.id)
      · simp [h2]
      · simp only [h2, if_false]
        have hout := fallbackS_outcome bc tbl (tbl.length + 1) (runIns d (hdrIns hpath)) d [] d.dbHead
          (by intro P _ Q _ s; rw [validAt_hdrIns]; rfl)
        rw [← hout]
        cases (fallbackS bc tbl (tbl.length + 1) (runIns d (hdrIns hpath)) d.dbHead).2 <;> rfl

end GV.Crash
