import GrinVerif.Lemmas.CodecFrag
import GrinVerif.Lemmas.MsgBound
/-! What `Codec::read` does on the flat stream: frame header round trip, refusals, plain / unknown
frames, attachments; the chain calculus that assembles single reads into the reader loop. -/
namespace GV.Codec
open GV GV.Ser GV.Dec GV.Msg GV.Gen.Msg

variable {B H : Type}

/-- the idle codec: state `None`, nothing buffered -/
def idle : Codec H := { buffer := [], state := .none }

/-! ### frame header -/

theorem encHeader_length (c : NetCfg) (t len : Nat) : (encHeader c t len).length = 11 := by
  simp [encHeader, writeU8, writeU64]

/-- network magic and type are bytes, the length a `u64` -/
structure HdrWF (c : NetCfg) (t len : Nat) : Prop where
  len64 : len < 2^64

theorem rExpectU8_hit (v : Nat) (rest : Bytes) : rExpectU8 v (v :: rest) = .ok v rest 0 := by
  simp [rExpectU8, expectU8, readU8, GV.Dec.lift]

theorem rExpectU8_miss (v b : Nat) (h : b ≠ v) (rest : Bytes) : rExpectU8 v (b :: rest) = .err .unexpectedData 0 := by
  simp [rExpectU8, expectU8, readU8, GV.Dec.lift, h]

theorem rU8_cons (b : Nat) (rest : Bytes) : rU8 (b :: rest) = .ok b rest 0 := by
  simp [rU8, readU8, GV.Dec.lift]

theorem rU64_write' (n : Nat) (h : n < 2^64) (rest : Bytes) : rU64 (writeU64 n ++ rest) = .ok n rest 0 := by
  simp [rU64, readU64_write n h, GV.Dec.lift]

/-- `MsgHeaderWrapper::read` on a header written by `MsgHeader::write` -/
theorem decHeader_encHeader (c : NetCfg) (t len : Nat) (hl : len < 2^64) (rest : Bytes) :
    decHeader c (encHeader c t len ++ rest) =
      if len > maxLen c t then .err .tooLarge 0
      else if isKnownType t then .ok (.known t len) rest 0
      else .ok (.unknown len t) rest 0 := by
  unfold decHeader encHeader
  simp only [writeU8, List.cons_append, List.nil_append, List.append_assoc]
  rw [rExpectU8_hit, bind_ok, rExpectU8_hit, bind_ok, rU8_cons, bind_ok, rU64_write' len hl, bind_ok]
  by_cases h1 : len > maxLen c t
  · simp [h1, Outcome.addAlloc]
  · by_cases h2 : isKnownType t = true
    · simp [h1, h2, Outcome.addAlloc]
    · simp [h1, h2, Outcome.addAlloc]

/-- wrong first magic byte -/
theorem decHeader_wrong_magic1 (c : NetCfg) (b : Nat) (rest : Bytes) (h : b ≠ c.magic.1) :
    decHeader c (b :: rest) = .err .unexpectedData 0 := by
  unfold decHeader
  rw [rExpectU8_miss _ _ h, bind_err]

/-- wrong second magic byte -/
theorem decHeader_wrong_magic2 (c : NetCfg) (b : Nat) (rest : Bytes) (h : b ≠ c.magic.2) :
    decHeader c (c.magic.1 :: b :: rest) = .err .unexpectedData 0 := by
  unfold decHeader
  rw [rExpectU8_hit, bind_ok, rExpectU8_miss _ _ h, bind_err]
  rfl

/-! ### one iteration of the loop -/

theorem readLoop_inl {σ : Type} (env : Env B H) (ops : SockOps σ) (fuel : Nat) (c c1 c2 : Codec H) (s s1 : σ)
    (br al a : Nat) (r : Res B H)
    (hf : fill ops c s (nextLen env c.state) = some (c1, s1))
    (hs : stepState env c1 (nextLen env c.state) = .inl (r, c2, a)) :
    readLoop env ops (fuel + 1) c s br al =
      { res := r, bytesRead := br + (nextLen env c.state - c.buffer.length),
        alloc := al + (nextLen env c.state - c.buffer.length) + a, codec := c2, sock := s1 } := by
  simp only [readLoop, hf, hs]

theorem readLoop_inr {σ : Type} (env : Env B H) (ops : SockOps σ) (fuel : Nat) (c c1 c2 : Codec H) (s s1 : σ)
    (br al a : Nat)
    (hf : fill ops c s (nextLen env c.state) = some (c1, s1))
    (hs : stepState env c1 (nextLen env c.state) = .inr (c2, a)) :
    readLoop env ops (fuel + 1) c s br al =
      readLoop env ops fuel c2 s1 (br + (nextLen env c.state - c.buffer.length))
        (al + (nextLen env c.state - c.buffer.length) + a) := by
  simp only [readLoop, hf, hs]

theorem readLoop_eof {σ : Type} (env : Env B H) (ops : SockOps σ) (fuel : Nat) (c : Codec H) (s : σ) (br al : Nat)
    (hf : fill ops c s (nextLen env c.state) = none) :
    readLoop env ops (fuel + 1) c s br al =
      { res := .err .conn, bytesRead := br, alloc := al + (nextLen env c.state - c.buffer.length),
        codec := c, sock := ops.drain s } := by
  simp only [readLoop, hf]

/-- filling on the flat stream: the buffer holds `pre`, the next `nl - |pre|` bytes are appended -/
theorem fill_flat (st : State H) (pre x rest : Bytes) (nl : Nat) (hx : x.length = nl - pre.length) :
    fill flatOps ({ buffer := pre, state := st } : Codec H) (x ++ rest) nl =
      some ({ buffer := pre ++ x, state := st }, rest) := by
  unfold fill
  by_cases h : nl - pre.length > 0
  · simp only [h, if_true]
    have : flatOps.rx (nl - pre.length) (x ++ rest) = some (x, rest) := by
      show splitExact (nl - pre.length) (x ++ rest) = _
      rw [← hx]; exact splitExact_append x rest
    rw [this]
  · simp only [h, if_false]
    have : x = [] := List.eq_nil_of_length_eq_zero (by omega)
    subst this; simp

theorem fill_flat_eof (st : State H) (pre s : Bytes) (nl : Nat) (h : s.length < nl - pre.length) :
    fill flatOps ({ buffer := pre, state := st } : Codec H) s nl = none := by
  unfold fill
  have h0 : nl - pre.length > 0 := by omega
  simp only [h0, if_true]
  have : flatOps.rx (nl - pre.length) s = none := by
    show splitExact (nl - pre.length) s = none
    rw [splitExact_eq, if_neg (by omega)]
  rw [this]

/-! ### the arms of `match &mut self.state` -/

theorem stepState_none (env : Env B H) (hd : Bytes) (hl : hd.length = 11) :
    stepState env ({ buffer := hd, state := .none } : Codec H) 11 =
      match decHeader env.net hd with
      | .ok h _ _ => .inr ({ buffer := [], state := .header h }, 0)
      | .err e _ => .inl (.err (.ser e), idle, 0)
      | .panic s _ => .inl (.panic s, idle, 0) := by
  have ht : hd.take 11 = hd := by rw [← hl]; exact List.take_length
  have hdp : hd.drop 11 = [] := by rw [← hl]; exact List.drop_length
  simp only [stepState, hl, Nat.lt_irrefl, if_false, ht, hdp]
  cases decHeader env.net hd <;> rfl

theorem stepState_body (env : Env B H) (t : Nat) (body : Bytes) (ht : t ≠ T_Headers) :
    stepState env ({ buffer := body, state := .header (.known t body.length) } : Codec H) body.length =
      .inl ((match decodeMessage env t body with
              | .ok m => .msg m
              | .error e => .err e), idle, 0) := by
  simp only [stepState, Nat.lt_irrefl, if_false, ht, List.take_length, List.drop_length]
  cases decodeMessage env t body <;> rfl

theorem stepState_unknown (env : Env B H) (t : Nat) (body : Bytes) :
    stepState env ({ buffer := body, state := .header (.unknown body.length t) } : Codec H) body.length =
      .inl (.msg (.unknown t), idle, 0) := by
  simp only [stepState, Nat.lt_irrefl, if_false, List.drop_length]
  rfl

theorem stepState_attachment (env : Env B H) (left : Nat) (chunk : Bytes) (hle : chunk.length ≤ left) :
    stepState env ({ buffer := chunk, state := .attachment left } : Codec H) chunk.length =
      .inl (.msg (.attachment chunk.length (left - chunk.length) chunk),
            { buffer := [], state := if left - chunk.length = 0 then .none else .attachment (left - chunk.length) }, 0) := by
  have : ¬ left < chunk.length := by omega
  simp only [stepState, Nat.lt_irrefl, if_false, this, List.take_length, List.drop_length]

/-! ### whole reads on the flat stream -/

theorem nextLen_none (env : Env B H) : nextLen env (State.none : State H) = 11 := rfl

/-- reading the frame header from the idle state: 11 bytes are pulled and parsed, nothing else -/
theorem readLoop_header_ok (env : Env B H) (fuel : Nat) (hd rest : Bytes) (hl : hd.length = 11) (br al : Nat)
    (h : HdrW) (r0 : Bytes) (a0 : Nat) (hdec : decHeader env.net hd = .ok h r0 a0) :
    readLoop env flatOps (fuel + 1) idle (hd ++ rest) br al =
      readLoop env flatOps fuel { buffer := [], state := .header h } rest (br + 11) (al + 11 + 0) := by
  have hf := fill_flat (H := H) .none [] hd rest 11 (by simpa using hl)
  have hs := stepState_none env hd hl
  rw [hdec] at hs
  exact readLoop_inr env flatOps fuel idle _ _ _ _ br al 0 hf hs

/-- a frame header that `MsgHeaderWrapper::read` refuses: the error, 11 bytes read, 11 bytes reserved -/
theorem readLoop_header_err (env : Env B H) (fuel : Nat) (hd rest : Bytes) (hl : hd.length = 11) (br al : Nat)
    (e : SerErr) (a0 : Nat) (hdec : decHeader env.net hd = .err e a0) :
    readLoop env flatOps (fuel + 1) idle (hd ++ rest) br al =
      { res := .err (.ser e), bytesRead := br + 11, alloc := al + 11 + 0, codec := idle, sock := rest } := by
  have hf := fill_flat (H := H) .none [] hd rest 11 (by simpa using hl)
  have hs := stepState_none env hd hl
  rw [hdec] at hs
  exact readLoop_inl env flatOps fuel idle _ _ _ _ br al 0 _ hf hs

/-- the body of a known, non-`Headers` frame -/
theorem readLoop_body (env : Env B H) (fuel : Nat) (t : Nat) (body rest : Bytes) (ht : t ≠ T_Headers) (br al : Nat) :
    readLoop env flatOps (fuel + 1) { buffer := [], state := .header (.known t body.length) } (body ++ rest) br al =
      { res := match decodeMessage env t body with
          | .ok m => .msg m
          | .error e => .err e
        bytesRead := br + body.length, alloc := al + body.length + 0, codec := idle, sock := rest } := by
  have hnl : nextLen env (State.header (.known t body.length) : State H) = body.length := by
    simp [nextLen, ht]
  have hf := fill_flat (H := H) (.header (.known t body.length)) [] body rest body.length (by simp)
  have hs := stepState_body env t body ht
  have := readLoop_inl env flatOps fuel { buffer := [], state := .header (.known t body.length) } _ _ _ _ br al 0 _
    (by rw [hnl]; exact hf) (by rw [hnl]; exact hs)
  rw [this, hnl]; rfl

/-- an unknown type: the announced bytes are pulled and dropped -/
theorem readLoop_unknown (env : Env B H) (fuel : Nat) (t : Nat) (body rest : Bytes) (br al : Nat) :
    readLoop env flatOps (fuel + 1) { buffer := [], state := .header (.unknown body.length t) } (body ++ rest) br al =
      { res := .msg (.unknown t), bytesRead := br + body.length, alloc := al + body.length + 0,
        codec := idle, sock := rest } := by
  have hnl : nextLen env (State.header (.unknown body.length t) : State H) = body.length := rfl
  have hf := fill_flat (H := H) (.header (.unknown body.length t)) [] body rest body.length (by simp)
  have hs := stepState_unknown env t body
  have := readLoop_inl env flatOps fuel { buffer := [], state := .header (.unknown body.length t) } _ _ _ _ br al 0 _
    (by rw [hnl]; exact hf) (by rw [hnl]; exact hs)
  rw [this, hnl]; rfl

/-- one attachment chunk -/
theorem readLoop_attachment (env : Env B H) (fuel : Nat) (left : Nat) (chunk rest : Bytes)
    (hc : chunk.length = min left ATTACHMENT_CHUNK) (br al : Nat) :
    readLoop env flatOps (fuel + 1) { buffer := [], state := .attachment left } (chunk ++ rest) br al =
      { res := .msg (.attachment chunk.length (left - chunk.length) chunk),
        bytesRead := br + chunk.length, alloc := al + chunk.length + 0,
        codec := { buffer := [], state := if left - chunk.length = 0 then .none else .attachment (left - chunk.length) },
        sock := rest } := by
  have hnl : nextLen env (State.attachment left : State H) = chunk.length := by simp [nextLen, hc]
  have hle : chunk.length ≤ left := by rw [hc]; exact Nat.min_le_left _ _
  have hf := fill_flat (H := H) (.attachment left) [] chunk rest chunk.length (by simp)
  have hs := stepState_attachment env left chunk hle
  have := readLoop_inl env flatOps fuel { buffer := [], state := .attachment left } _ _ _ _ br al 0 _
    (by rw [hnl]; exact hf) (by rw [hnl]; exact hs)
  rw [this, hnl]; rfl

/-- the stream ended while the codec was idle: `Error::Connection`, nothing read -/
theorem readLoop_idle_eof (env : Env B H) (fuel : Nat) (s : Bytes) (hs : s.length < 11) (br al : Nat) :
    readLoop env flatOps (fuel + 1) (idle : Codec H) s br al =
      { res := .err .conn, bytesRead := br, alloc := al + 11, codec := idle, sock := [] } := by
  have hf := fill_flat_eof (H := H) .none [] s 11 (by simpa using hs)
  exact readLoop_eof env flatOps fuel idle s br al hf

end GV.Codec
