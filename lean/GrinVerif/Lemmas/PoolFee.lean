import GrinVerif.Lemmas.PoolHeight
/-! The minimum-fee clause at full strength (since `is_acceptable` checks the fee before the
capacity, 3aef11dd9): every entry of the txpool, the stempool and the reorg cache pays at least
`accept_fee` for its weight, after every operation - admissions at capacity, evictions, blocks,
reorg-cache replays included. -/
namespace GV.Pool

/-- the entry pays at least the minimum fee for its weight -/
def Paid (c : Ctx) (e : Entry) : Prop := e.tx.acceptFee c.cfg ≤ e.tx.shiftedFee

/-- every entry (txpool, stempool, reorg cache) pays at least the minimum fee for its weight -/
def AllPaid (c : Ctx) (s : TxPool) : Prop :=
  ∀ e, (e ∈ s.txpool ∨ e ∈ s.stempool ∨ e ∈ s.cache) → Paid c e

/-- whatever `is_acceptable` answers other than `LowFee`, the fee was sufficient -/
theorem isAcceptable_paid {c : Ctx} {s : TxPool} {t : Tx} {stem : Bool}
    (h : s.isAcceptable c t stem ≠ some "LowFee") : t.acceptFee c.cfg ≤ t.shiftedFee := by
  unfold TxPool.isAcceptable at h
  by_cases hf : t.shiftedFee < t.acceptFee c.cfg
  · simp [hf] at h
  · omega

theorem allPaid_of_subset {c : Ctx} {s s' : TxPool} {entry : Entry} (hv : AllPaid c s) (hp : Paid c entry)
    (h1 : ∀ e ∈ s'.txpool, e ∈ s.txpool ∨ e = entry) (h2 : ∀ e ∈ s'.stempool, e ∈ s.stempool ∨ e = entry)
    (h3 : ∀ e ∈ s'.cache, e ∈ s.cache ∨ e = entry) : AllPaid c s' := by
  intro e he
  rcases he with he | he | he
  · rcases h1 e he with h | h
    · exact hv e (Or.inl h)
    · subst h; exact hp
  · rcases h2 e he with h | h
    · exact hv e (Or.inr (Or.inl h))
    · subst h; exact hp
  · rcases h3 e he with h | h
    · exact hv e (Or.inr (Or.inr h))
    · subst h; exact hp

theorem tail_allPaid {c : Ctx} {s1 s2 : TxPool} {entry : Entry} {r : Res} (hv1 : AllPaid c s1)
    (hp : Paid c entry) (heq : s1.addToTxpool c entry = (s2, r)) :
    AllPaid c s2 ∧ AllPaid c (s2.addToReorgCache c entry) ∧
    AllPaid c { txpool := Pool.evict c (TxPool.addToReorgCache c s2 entry).txpool,
                stempool := (TxPool.addToReorgCache c s2 entry).stempool,
                cache := (TxPool.addToReorgCache c s2 entry).cache } := by
  obtain ⟨m1, m2, m3⟩ := addToTxpool_members c s1 entry
  rw [heq] at m1 m2 m3
  simp only at m1 m2 m3
  refine ⟨?_, ?_, ?_⟩
  · exact allPaid_of_subset hv1 hp m1 (fun e he => Or.inl (m2 e he)) (fun e he => by rw [m3] at he; exact Or.inl he)
  · refine allPaid_of_subset hv1 hp m1 (fun e he => Or.inl (m2 e he)) ?_
    intro e he
    rcases mem_addToReorgCache he with h | h
    · rw [m3] at h; exact Or.inl h
    · exact Or.inr h
  · refine allPaid_of_subset hv1 hp (fun e he => m1 e (mem_evict he)) (fun e he => Or.inl (m2 e he)) ?_
    intro e he
    rcases mem_addToReorgCache he with h | h
    · rw [m3] at h; exact Or.inl h
    · exact Or.inr h

/-- `add_to_pool`: whatever gets in - on the stem path, the fluff path, at capacity (with the
eviction that follows) - paid the minimum fee -/
theorem addCore_allPaid {c : Ctx} {s : TxPool} (src : Src) (tx : Tx) (stem stemOk : Bool)
    (hv : AllPaid c s) : AllPaid c (s.addCore c src tx stem stemOk).1 := by
  unfold TxPool.addCore
  split
  · exact hv
  split
  · exact hv
  rename_i entry hentry
  simp only []
  split
  · exact hv
  split
  · exact hv
  rename_i hacc
  -- past `is_acceptable`: its answer was Ok or (fluff) OverCapacity, never LowFee
  have hp : Paid c entry := by
    apply isAcceptable_paid (s := s) (stem := stem)
    intro hlow
    apply hacc
    rw [hlow]
    simp
  split
  · exact hv
  split
  · exact hv
  split
  · exact hv
  rename_i extra hextra
  split
  · exact hv
  split
  · exact hv
  cases stem with
  | false =>
    simp only [Bool.false_eq_true, if_false]
    split
    · rename_i s2 er heq; exact (tail_allPaid hv hp heq).1
    · rename_i s2 heq
      split
      · exact (tail_allPaid hv hp heq).2.2
      · exact (tail_allPaid hv hp heq).2.1
  | true =>
    simp only [if_true]
    cases hadd : Pool.addToPool c s.stempool entry extra with
    | error er => exact hv
    | ok sp =>
      have hsp := (addToPool_ok hadd).1
      have hv1 : AllPaid c { txpool := s.txpool, stempool := sp, cache := s.cache } := by
        refine allPaid_of_subset hv hp (fun e he => Or.inl he) ?_ (fun e he => Or.inl he)
        intro e he
        simp only at he
        rw [hsp] at he
        rcases List.mem_append.mp he with h | h
        · exact Or.inl h
        · right; simpa using h
      cases stemOk with
      | true => exact hv1
      | false =>
        simp only []
        split
        · rename_i s2 er heq; exact (tail_allPaid hv1 hp heq).1
        · rename_i s2 heq
          split
          · exact (tail_allPaid hv1 hp heq).2.2
          · exact (tail_allPaid hv1 hp heq).2.1

theorem addToPool_allPaid {c : Ctx} {s : TxPool} (src : Src) (tx : Tx) (stem stemOk : Bool)
    (hv : AllPaid c s) : AllPaid c (s.addToPool c src tx stem stemOk).1 := by
  unfold TxPool.addToPool
  split <;> exact addCore_allPaid src tx _ stemOk hv

/-- replaying the reorg cache only moves entries that paid -/
theorem foldl_addToTxpool_allPaid (c : Ctx) (l : List Entry) (acc : TxPool) (hv : AllPaid c acc)
    (hl : ∀ e ∈ l, Paid c e) :
    AllPaid c (l.foldl (fun acc e => (acc.addToTxpool c e).1) acc) := by
  induction l generalizing acc with
  | nil => exact hv
  | cons e rest ih =>
    simp only [List.foldl_cons]
    apply ih
    · obtain ⟨m1, m2, m3⟩ := addToTxpool_members c acc e
      exact allPaid_of_subset hv (hl e (by simp)) m1 (fun x hx => Or.inl (m2 x hx))
        (fun x hx => by rw [m3] at hx; exact Or.inl hx)
    · intro x hx; exact hl x (by simp [hx])

/-- `reconcile_block` only drops entries -/
theorem reconcileBlock_members (c : Ctx) (s : TxPool) (ins kers : List Nat) :
    (∀ e ∈ (s.reconcileBlock c ins kers).1.txpool, e ∈ s.txpool) ∧
    (∀ e ∈ (s.reconcileBlock c ins kers).1.stempool, e ∈ s.stempool) ∧
    (s.reconcileBlock c ins kers).1.cache = s.cache := by
  unfold TxPool.reconcileBlock
  simp only []
  split
  · refine ⟨fun e he => ?_, fun e he => ?_, rfl⟩
    · exact (mem_reconcileBlock (reconcile_subset c none _ e he))
    · exact (mem_reconcileBlock he)
  · refine ⟨fun e he => ?_, fun e he => ?_, rfl⟩
    · exact (mem_reconcileBlock (reconcile_subset c none _ e he))
    · exact (mem_reconcileBlock (reconcile_subset c _ _ e he))

theorem step_allPaid (cs : Ctx × TxPool) (op : Op) (hv : AllPaid cs.1 cs.2) :
    AllPaid (step cs op).1 (step cs op).2 := by
  cases op with
  | submit src tx stem ok => exact addToPool_allPaid src tx stem ok hv
  | block head ver ins kers =>
    obtain ⟨m1, m2, m3⟩ := reconcileBlock_members { cs.1 with head := head, ver := ver } cs.2 ins kers
    intro e he
    simp only [step] at he
    rcases he with he | he | he
    · exact hv e (Or.inl (m1 e he))
    · exact hv e (Or.inr (Or.inl (m2 e he)))
    · rw [m3] at he; exact hv e (Or.inr (Or.inr he))
  | reorgCache =>
    exact foldl_addToTxpool_allPaid cs.1 cs.2.cache cs.2 hv (fun e he => hv e (Or.inr (Or.inr he)))
  | evict =>
    intro e he
    rcases he with he | he | he
    · exact hv e (Or.inl (mem_evict he))
    · exact hv e (Or.inr (Or.inl he))
    · exact hv e (Or.inr (Or.inr he))
  | truncate n =>
    intro e he
    rcases he with he | he | he
    · exact hv e (Or.inl he)
    · exact hv e (Or.inr (Or.inl he))
    · exact hv e (Or.inr (Or.inr (List.mem_of_mem_drop he)))

theorem run_allPaid (cs : Ctx × TxPool) (ops : List Op) (hv : AllPaid cs.1 cs.2) :
    AllPaid (run cs ops).1 (run cs ops).2 := by
  induction ops generalizing cs with
  | nil => exact hv
  | cons op rest ih => exact ih (step cs op) (step_allPaid cs op hv)

end GV.Pool
