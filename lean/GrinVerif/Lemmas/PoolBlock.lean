import GrinVerif.Lemmas.PoolSpec
/-! The block assembled from a set that passed `validate_raw_tx` is accepted by the chain model
(`GV.Chain.validateBody`, `GV.Chain.applyBlock`), under the side conditions `reconcile` does not
re-check (lock heights, coinbase maturity) and for sets without NRD kernels. -/
namespace GV.Pool
open GV.Chain

theorem foldl_add_init (l : List Nat) (i : Nat) : l.foldl (· + ·) i = i + l.foldl (· + ·) 0 := by
  induction l generalizing i with
  | nil => simp
  | cons x xs ih => simp only [List.foldl_cons]; rw [ih (i + x), ih (0 + x)]; omega

theorem foldl_add_append (l m : List Nat) : (l ++ m).foldl (· + ·) 0 = l.foldl (· + ·) 0 + m.foldl (· + ·) 0 := by
  rw [List.foldl_append, foldl_add_init]

theorem foldl_eq_natSum (l : List Nat) : l.foldl (· + ·) 0 = natSum l := by
  induction l with
  | nil => rfl
  | cons x xs ih => simp only [List.foldl_cons, natSum, List.foldr_cons]; rw [foldl_add_init, ih]; simp [natSum]

theorem sumVals_append (outs : List OutDef) (a b : List Nat) :
    sumVals outs (a ++ b) = sumVals outs a + sumVals outs b := by
  simp only [sumVals, List.map_append]
  exact foldl_add_append _ _

theorem valOf_extend {outs : List OutDef} {d : OutDef} (hfresh : ∀ x ∈ outs, x.id ≠ d.id) (o : Nat) :
    valOf (outs ++ [d]) o = if o = d.id then d.v else valOf outs o := by
  unfold valOf
  rw [List.find?_append]
  by_cases ho : o = d.id
  · subst ho
    have : outs.find? (fun x => x.id == d.id) = none := by
      rw [List.find?_eq_none]; intro x hx; simpa using hfresh x hx
    simp [this]
  · cases hf : outs.find? (fun x => x.id == o) with
    | some x => simp [ho]
    | none =>
      have : (d.id == o) = false := by simpa using fun h => ho h.symm
      simp [ho, this]

theorem sumVals_extend {outs : List OutDef} {d : OutDef} (hfresh : ∀ x ∈ outs, x.id ≠ d.id)
    (ids : List Nat) (hn : d.id ∉ ids) : sumVals (outs ++ [d]) ids = sumVals outs ids := by
  unfold sumVals
  congr 1
  apply List.map_congr_left
  intro o ho
  rw [valOf_extend hfresh]
  have : o ≠ d.id := fun h => hn (h ▸ ho)
  simp [this]

theorem sumVals_single_new {outs : List OutDef} {d : OutDef} (hfresh : ∀ x ∈ outs, x.id ≠ d.id) :
    sumVals (outs ++ [d]) [d.id] = d.v := by
  simp [sumVals, valOf_extend hfresh]

theorem blk_fees (a : Tx) : (a.kers.map (·.ker) ++ [Ker.cb]).map Ker.fee = a.kers.map (·.ker.fee) ++ [0] := by
  simp [Ker.fee]

theorem validate_no_cb {c : Ctx} {w : Weighting} {t : Tx} (h : t.validate c w = none) :
    t.kers.any (fun k => k.ker == .cb) = false := by
  unfold Tx.validate at h
  split at h
  · simp at h
  · rename_i h1; simpa using h1

theorem lockHeight_bound (kers : List PKer) (n : Nat)
    (h : kers.foldr (fun k acc => match k.ker with | .hl _ l => max acc l | _ => acc) 0 ≤ n) :
    ∀ k ∈ kers, ∀ f l, k.ker = .hl f l → l ≤ n := by
  induction kers with
  | nil => intro k hk; simp at hk
  | cons x xs ih =>
    simp only [List.foldr_cons] at h
    intro k hk f l hkl
    rcases List.mem_cons.mp hk with hk | hk
    · subst hk
      rw [hkl] at h
      simp only at h
      omega
    · apply ih _ k hk f l hkl
      cases hx : x.ker <;> rw [hx] at h <;> simp only at h <;> omega

/-- state-dependent half: `applyBlock` accepts the assembled block -/
theorem mkBlock_applies {c : Ctx} {w : Weighting} {a : Tx} {cb : Nat}
    (hva : validateRawTx c w a = none)
    (hmat : immatureCoinbase c a.ins = false) (hnrd : a.hasNrd = false)
    (hcb : c.head.has cb = false) :
    ∃ s', applyBlock { maturity := c.cfg.maturity } c.head (mkBlock c a cb) = .ok s' := by
  have hv := validateRawTx_validate hva
  have hch : chainValidateTx c a = none := by
    unfold validateRawTx at hva; rw [hv] at hva; exact hva
  obtain ⟨co, ci⟩ := chainValidate_shape hch
  unfold applyBlock stateChecks
  have h1 : (mkBlock c a cb).ins.all c.head.has = true := by
    simp only [mkBlock, List.all_eq_true]; exact ci
  have h2 : immature { maturity := c.cfg.maturity } c.head (mkBlock c a cb) = false := by
    have e : immature { maturity := c.cfg.maturity } c.head (mkBlock c a cb) = immatureCoinbase c a.ins := by
      unfold immature immatureCoinbase
      simp only [mkBlock]
      congr 1
    rw [e, hmat]
  have h3 : dupOutput c.head (mkBlock c a cb) = false := by
    unfold dupOutput
    simp only [mkBlock, List.any_append, List.any_map, Bool.or_eq_false_iff]
    constructor
    · rw [List.any_eq_false]; intro o ho; simpa using co o ho
    · simp [hcb]
  have h4 : nrdBad c.head (mkBlock c a cb) = false := by
    unfold nrdBad
    simp only [mkBlock, List.any_append, List.any_map, Bool.or_eq_false_iff]
    constructor
    · unfold Tx.hasNrd at hnrd
      rw [List.any_eq_false] at hnrd ⊢
      intro k hk
      have := hnrd k hk
      simp only [Function.comp]
      cases hker : k.ker <;> simp_all
    · simp
  have h5 : ∀ pfx, hasTag (mkBlock c a cb) pfx = none := by
    intro pfx; simp [hasTag, mkBlock]
  simp [h1, h2, h3, h4, h5]

theorem mkBlock_fees (c : Ctx) (a : Tx) (cb : Nat) : (mkBlock c a cb).fees = a.fee := by
  unfold Blk.fees
  simp only [mkBlock, blk_fees, foldl_eq_natSum, Tx.fee]
  induction a.kers with
  | nil => simp [natSum]
  | cons k ks ih => simp only [List.map_cons, List.cons_append, natSum, List.foldr_cons] at ih ⊢; rw [ih]

/-- state-independent half: `validateBody` accepts the assembled block -/
theorem mkBlock_body_valid {c : Ctx} {w : Weighting} {a : Tx} {cb : Nat}
    (hva : validateRawTx c w a = none)
    (hlock : a.lockHeight ≤ c.head.height + 1) (hnrd : a.hasNrd = false)
    (hcb1 : cb ∉ a.ins) (hcb2 : cb ∉ a.outs) (hfresh : ∀ x ∈ c.outs, x.id ≠ cb) :
    validateBody { maturity := c.cfg.maturity }
      (c.outs ++ [{ id := cb, cb := true, v := ({ maturity := c.cfg.maturity } : Params).reward + a.fee }])
      (mkBlock c a cb)
      (sumVals (c.outs ++ [{ id := cb, cb := true, v := ({ maturity := c.cfg.maturity } : Params).reward + a.fee }])
        (mkBlock c a cb).ins) = none := by
  have hv := validateRawTx_validate hva
  obtain ⟨hnd1, hnd2, hdis, hbal⟩ := validate_shape hv
  have h0 : dupInBody (mkBlock c a cb) = false := by
    unfold dupInBody
    have e1 : (mkBlock c a cb).ins = a.ins := rfl
    have e2 : (mkBlock c a cb).outs.map (·.1) = a.outs ++ [cb] := by
      simp [mkBlock, Function.comp_def]
    have n1 : a.ins.Nodup := (nodupB_iff _).1 hnd1
    have n2 : (a.outs ++ [cb]).Nodup := by
      rw [List.nodup_append]
      refine ⟨(nodupB_iff _).1 hnd2, by simp, ?_⟩
      intro x hx y hy
      have : y = cb := by simpa using hy
      subst this
      intro h; subst h; exact hcb2 hx
    rw [e1, e2]
    simp [n1, n2]
  generalize hd : ({ id := cb, cb := true, v := ({ maturity := c.cfg.maturity } : Params).reward + a.fee } : OutDef) = d
  have hdid : d.id = cb := by rw [← hd]
  have hdv : d.v = ({ maturity := c.cfg.maturity } : Params).reward + a.fee := by rw [← hd]
  have hfresh' : ∀ x ∈ c.outs, x.id ≠ d.id := by rw [hdid]; exact hfresh
  have htag : ∀ pfx, hasTag (mkBlock c a cb) pfx = none := by
    intro pfx; simp [hasTag, mkBlock]
  have h1 : cutThroughViolation (mkBlock c a cb) = false := by
    unfold cutThroughViolation
    simp only [mkBlock]
    rw [List.any_eq_false]
    intro i hi
    simp only [List.any_append, List.any_map, Bool.or_eq_true, not_or, Bool.not_eq_true]
    constructor
    · rw [List.any_eq_false]
      intro o ho
      simp only [Function.comp, beq_iff_eq]
      intro h; subst h; exact hdis _ hi ho
    · simp only [List.any_cons, List.any_nil, Bool.or_false, beq_eq_false_iff_ne, ne_eq]
      intro h; subst h; exact hcb1 hi
  have h2 : lockViolation (mkBlock c a cb) = false := by
    unfold lockViolation
    simp only [mkBlock, List.any_append, List.any_map, Bool.or_eq_false_iff]
    constructor
    · rw [List.any_eq_false]
      intro k hk
      simp only [Function.comp]
      cases hker : k.ker with
      | hl f l =>
        have := lockHeight_bound a.kers _ hlock k hk f l hker
        simp only [gt_iff_lt, decide_eq_true_eq, Nat.not_lt]; exact this
      | _ => simp
    · simp
  have h3 : nrdEraViolation (mkBlock c a cb) = false := by
    unfold nrdEraViolation
    rw [Bool.and_eq_false_iff]
    left
    simp only [mkBlock, List.any_append, List.any_map, Bool.or_eq_false_iff]
    constructor
    · unfold Tx.hasNrd at hnrd
      rw [List.any_eq_false] at hnrd ⊢
      intro k hk
      have := hnrd k hk
      simp only [Function.comp]
      cases hker : k.ker <;> simp_all
    · simp
  have hins : sumVals (c.outs ++ [d]) a.ins = sumVals c.outs a.ins :=
    sumVals_extend hfresh' a.ins (by rw [hdid]; exact hcb1)
  have houts : sumVals (c.outs ++ [d]) a.outs = sumVals c.outs a.outs :=
    sumVals_extend hfresh' a.outs (by rw [hdid]; exact hcb2)
  have hcbv : sumVals (c.outs ++ [d]) [cb] = d.v := by rw [← hdid]; exact sumVals_single_new hfresh'
  have hbal' : sumVals c.outs a.ins = sumVals c.outs a.outs + a.fee := by
    simpa [Tx.balanced] using hbal
  have h4 : coinbaseMismatch { maturity := c.cfg.maturity } (c.outs ++ [d]) (mkBlock c a cb) = false := by
    unfold coinbaseMismatch
    rw [mkBlock_fees]
    have e1 : ((mkBlock c a cb).outs.filter (·.2)).map (·.1) = [cb] := by
      simp [mkBlock, List.filter_append, List.filter_map, Function.comp_def]
    have e2 : ((mkBlock c a cb).kers.filter (· == Ker.cb)).length ≠ 0 := by
      simp [mkBlock, List.filter_append]
    rw [e1, hcbv, hdv]
    simp [e2]
  have h5 : valueMismatch { maturity := c.cfg.maturity } (c.outs ++ [d]) (mkBlock c a cb)
      (sumVals (c.outs ++ [d]) (mkBlock c a cb).ins) = false := by
    unfold valueMismatch
    have e1 : (mkBlock c a cb).outs.map (·.1) = a.outs ++ [cb] := by
      simp [mkBlock, Function.comp_def]
    have e2 : (mkBlock c a cb).ins = a.ins := rfl
    rw [e1, e2, sumVals_append, hins, houts, hcbv, hdv, hbal']
    simp; omega
  unfold validateBody
  simp [htag, h0, h1, h2, h3, h4, h5]

end GV.Pool
