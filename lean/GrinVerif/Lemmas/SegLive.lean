import GrinVerif.Lemmas.SegCompleteVec
/-! The loop of `Segment::root` with a bitmap over complete subtrees: the stack entry of a subtree
is `Some(committed hash)` when some leaf below it is *required* (the bitmap marks it or its
sibling, or it is the last position of the MMR; no bitmap: always) and `None` otherwise, provided
the segment carries the data of every required leaf and the hash of the dead child of every node
with exactly one live child.  One lemma for `bitmap = None` and `bitmap = Some(..)`.
Core Lean only. -/
namespace GV.Seg
open GV GV.Pmmr

variable {α H : Type}

/-- some leaf under the node of height `h` at `p` is required -/
def liveAt (bm : Option (Nat → Bool)) (S : Nat) : Nat → Nat → Bool
  | 0, q => required bm S q
  | k + 1, q => liveAt bm S k (q - 2 ^ (k + 1)) || liveAt bm S k (q - 1)

/-- the stack entry the loop leaves for the subtree of height `h` at `p` -/
def entryAt (hf : HashFn α H) (f : Nat → α) (bm : Option (Nat → Bool)) (S h p : Nat) : Option H :=
  if liveAt bm S h p then some (hAt hf f p) else none

theorem liveAt_none (S : Nat) : ∀ h p, liveAt none S h p = true := by
  intro h
  induction h with
  | zero => intro p; rfl
  | succ k ih => intro p; simp [liveAt, ih]

/-! ### the shared leaf iterator -/

/-- invariant of the leaf iterator: sorted by position, genuine data, and still holding every
needed leaf from `lo` on -/
structure IterInv (f : Nat → α) (need : Nat → Prop) (it : List (Nat × α)) (lo : Nat) : Prop where
  sorted : it.Pairwise (fun a b => a.1 < b.1)
  genuine : ∀ e ∈ it, e.2 = dAt f e.1
  has : ∀ q, lo ≤ q → need q → (q, dAt f q) ∈ it

theorem IterInv.mono {f : Nat → α} {need : Nat → Prop} {it : List (Nat × α)} {lo lo' : Nat}
    (h : IterInv f need it lo) (hle : lo ≤ lo') : IterInv f need it lo' :=
  ⟨h.sorted, h.genuine, fun q hq hn => h.has q (by omega) hn⟩

theorem iterFind_of_mem {β : Type} : ∀ (l : List (Nat × β)) (q : Nat) (y : β), (q, y) ∈ l →
    ∃ x rest pre, iterFind l q = some (x, rest) ∧ l = pre ++ (q, x) :: rest := by
  intro l
  induction l with
  | nil => intro q y h; cases h
  | cons a l ih =>
    intro q y h
    obtain ⟨p, z⟩ := a
    by_cases hp : p = q
    · subst hp
      exact ⟨z, l, [], by simp [iterFind], rfl⟩
    · have hm : (q, y) ∈ l := by
        rcases List.mem_cons.1 h with h | h
        · injection h with h1 _; exact absurd h1.symm hp
        · exact h
      obtain ⟨x, rest, pre, h1, h2⟩ := ih q y hm
      exact ⟨x, rest, (p, z) :: pre, by simp [iterFind, hp, h1], by rw [h2]; rfl⟩

theorem IterInv.find {f : Nat → α} {need : Nat → Prop} {it : List (Nat × α)} {lo q : Nat}
    (h : IterInv f need it lo) (hq : lo ≤ q) (hn : need q) :
    ∃ it', iterFind it q = some (dAt f q, it') ∧ IterInv f need it' (q + 1) := by
  obtain ⟨x, rest, pre, h1, h2⟩ := iterFind_of_mem it q _ (h.has q hq hn)
  have hx : x = dAt f q := by
    have := h.genuine (q, x) (by rw [h2]; simp)
    exact this
  subst hx
  have hs := h.sorted
  rw [h2, List.pairwise_append] at hs
  obtain ⟨_, hs2, hs3⟩ := hs
  rw [List.pairwise_cons] at hs2
  refine ⟨rest, h1, ⟨hs2.2, fun e he => h.genuine e (by rw [h2]; simp [he]), ?_⟩⟩
  intro q' hq' hn'
  have hm := h.has q' (by omega) hn'
  rw [h2] at hm
  rcases List.mem_append.1 hm with hm | hm
  · have := hs3 _ hm (q, dAt f q) (List.mem_cons_self ..)
    simp only at this; omega
  · rcases List.mem_cons.1 hm with hm | hm
    · injection hm with h1' _; omega
    · exact hm

/-! ### the loop over one complete subtree -/

section Loop
variable (hf : HashFn α H) (f : Nat → α) (s : Segment α H) (bm : Option (Nat → Bool)) (S : Nat)
  (need : Nat → Prop) (lo0 hi0 : Nat)

/-- what the segment must hold for the positions `lo0..=hi0` -/
structure Holds : Prop where
  /-- every required leaf of the range is needed (and `IterInv` then says its data is there) -/
  leaf : ∀ q, lo0 ≤ q → q ≤ hi0 → height q = 0 → required bm S q = true → need q
  /-- the hash of a dead left child next to a live right child -/
  left : ∀ p k, lo0 ≤ p + 2 - 2 ^ (k + 1 + 1) → p ≤ hi0 → height p = k + 1 → liveAt bm S k (p - 2 ^ (k + 1)) = false →
    liveAt bm S k (p - 1) = true → s.getHash (p - 2 ^ (k + 1)) = .ok (hAt hf f (p - 2 ^ (k + 1)))
  /-- the hash of a dead right child next to a live left child -/
  right : ∀ p k, lo0 ≤ p + 2 - 2 ^ (k + 1 + 1) → p ≤ hi0 → height p = k + 1 → liveAt bm S k (p - 2 ^ (k + 1)) = true →
    liveAt bm S k (p - 1) = false → s.getHash (p - 1) = .ok (hAt hf f (p - 1))

theorem rootLoop_tree_live (hold : Holds hf f s bm S need lo0 hi0) :
    ∀ (h p : Nat) (stk : List (Option H)) (it : List (Nat × α)), height p = h →
      lo0 ≤ p + 2 - 2 ^ (h + 1) → p ≤ hi0 → IterInv f need it (p + 2 - 2 ^ (h + 1)) →
      ∃ it', rootLoop hf s bm S (stk, it) (treeRange h p) = .ok (entryAt hf f bm S h p :: stk, it') ∧
        IterInv f need it' (p + 1) := by
  intro h
  induction h with
  | zero =>
    intro p stk it hp hlo hhi hinv
    have e0 : p + 2 - 2 ^ (0 + 1) = p := by simp
    rw [e0] at hlo hinv
    simp only [treeRange_zero, rootLoop, rootStep, hp, if_true, entryAt, liveAt]
    by_cases hr : required bm S p = true
    · obtain ⟨it', hfind, hinv'⟩ := hinv.find (Nat.le_refl p) (hold.leaf p hlo hhi hp hr)
      refine ⟨it', ?_, hinv'⟩
      simp only [hr, if_true, hfind, hAt_leafLaw hf f p hp]
    · refine ⟨it, ?_, hinv.mono (by omega)⟩
      simp only [hr, Bool.false_eq_true, if_false]
  | succ h ih =>
    intro p stk it hp hlo hhi hinv
    have hb := GV.Store.height_bound p
    rw [hp] at hb
    obtain ⟨hr, hl⟩ := height_children p h hp
    have hp1 := two_pow_succ h
    have hp2 := two_pow_succ (h + 1)
    have hpos : 0 < 2 ^ h := Nat.pow_pos (by omega)
    -- left subtree
    have eL : p - 2 ^ (h + 1) + 2 - 2 ^ (h + 1) = p + 2 - 2 ^ (h + 1 + 1) := by omega
    obtain ⟨it1, hloop1, hinv1⟩ := ih (p - 2 ^ (h + 1)) stk it hl (by omega) (by omega) (by rw [eL]; exact hinv)
    -- right subtree
    have eR : p - 1 + 2 - 2 ^ (h + 1) = p - 2 ^ (h + 1) + 1 := by omega
    obtain ⟨it2, hloop2, hinv2⟩ := ih (p - 1) (entryAt hf f bm S h (p - 2 ^ (h + 1)) :: stk) it1 hr
      (by omega) (by omega) (by rw [eR]; exact hinv1)
    refine ⟨it2, ?_, hinv2.mono (by omega)⟩
    rw [treeRange_succ h p hb, rootLoop_append, rootLoop_append, hloop1]
    simp only
    rw [hloop2]
    simp only [rootLoop, rootStep, hp, Nat.add_one_ne_zero, if_false]
    have hnode := hAt_nodeLaw hf f p h hp
    have elc : 1 + p - 2 ^ (h + 1) - 1 = p - 2 ^ (h + 1) := by omega
    cases bm with
    | none =>
      simp only [entryAt, liveAt_none, if_true, liveAt, Bool.or_self]
      rw [hnode]
    | some b =>
      simp only [entryAt, liveAt]
      rcases Bool.eq_false_or_eq_true (liveAt (some b) S h (p - 2 ^ (h + 1))) with hL | hL <;>
        rcases Bool.eq_false_or_eq_true (liveAt (some b) S h (p - 1)) with hR | hR
      · simp only [hL, hR, if_true, Bool.or_self]
        rw [hnode]
      · have := hold.right p h hlo hhi hp hL hR
        simp only [hL, hR, Bool.false_eq_true, if_false, if_true, Bool.or_false, this]
        rw [hnode]
      · have := hold.left p h hlo hhi hp hL hR
        simp only [hL, hR, Bool.false_eq_true, if_false, if_true, Bool.or_true, elc, this]
        rw [hnode]
      · simp [hL, hR]

/-- the loop over a list of complete subtrees (the final segment) -/
theorem rootLoop_tiles_live (hold : Holds hf f s bm S need lo0 hi0) :
    ∀ (l : List (Nat × Nat)) (a : Nat) (stk : List (Option H)) (it : List (Nat × α)),
      (∀ c ∈ l, c.2 ≤ trailingOnes c.1) →
      tiles l = List.range' a (tiles l).length → lo0 ≤ a → a + (tiles l).length ≤ hi0 + 1 →
      IterInv f need it a →
      ∃ it', rootLoop hf s bm S (stk, it) (tiles l)
          = .ok ((l.map fun c => entryAt hf f bm S c.2 (Co.cpos c)).reverse ++ stk, it') ∧
        IterInv f need it' (a + (tiles l).length) := by
  intro l
  induction l with
  | nil => intro a stk it _ _ _ _ hinv; exact ⟨it, by simp [tiles, rootLoop], by simpa [tiles] using hinv⟩
  | cons c l ih =>
    intro a stk it hv htl hlo hhi hinv
    have hc := hv c (List.mem_cons_self ..)
    have hh : height (Co.cpos c) = c.2 := GV.Props.C07.height_coord c.1 c.2 hc
    have hb := GV.Store.height_bound (Co.cpos c)
    rw [hh] at hb
    have hp1 := two_pow_succ c.2
    have hpos : 0 < 2 ^ c.2 := Nat.pow_pos (by omega)
    rw [tiles_cons] at htl hhi ⊢
    have hlen : (treeRange c.2 (Co.cpos c)).length = 2 ^ (c.2 + 1) - 1 := by simp [treeRange]
    -- the first tree starts at `a`
    have hstart : Co.cpos c + 2 - 2 ^ (c.2 + 1) = a := by
      have h0 := congrArg (fun l => l[0]?) htl
      simp only [List.length_append, hlen] at h0
      have : (treeRange c.2 (Co.cpos c) ++ tiles l)[0]? = some (Co.cpos c + 2 - 2 ^ (c.2 + 1)) := by
        rw [List.getElem?_append_left (by rw [hlen]; omega)]
        unfold treeRange
        rw [List.getElem?_range' (by omega)]
        simp
      have hl2 : (treeRange c.2 (Co.cpos c) ++ tiles l).length = 2 ^ (c.2 + 1) - 1 + (tiles l).length := by
        rw [List.length_append, hlen]
      rw [this, List.getElem?_range' (by omega)] at h0
      simpa using h0
    -- the rest is a range again
    have htl' : tiles l = List.range' (a + (2 ^ (c.2 + 1) - 1)) (tiles l).length := by
      have h1 := htl
      rw [List.length_append, hlen, ← List.range'_append_1] at h1
      have hl2 : (treeRange c.2 (Co.cpos c)).length = (List.range' a (2 ^ (c.2 + 1) - 1)).length := by
        rw [hlen]; simp
      exact (List.append_inj h1 hl2).2
    rw [List.length_append, hlen] at hhi
    obtain ⟨it1, hloop1, hinv1⟩ := rootLoop_tree_live hf f s bm S need lo0 hi0 hold c.2 (Co.cpos c) stk it hh
      (by omega) (by omega) (by rw [hstart]; exact hinv)
    have hnext : Co.cpos c + 1 = a + (2 ^ (c.2 + 1) - 1) := by omega
    obtain ⟨it2, hloop2, hinv2⟩ := ih (a + (2 ^ (c.2 + 1) - 1))
      (entryAt hf f bm S c.2 (Co.cpos c) :: stk) it1
      (fun x hx => hv x (List.mem_cons_of_mem _ hx)) htl' (by omega) (by omega) (by rw [← hnext]; exact hinv1)
    refine ⟨it2, ?_, ?_⟩
    · rw [rootLoop_append, hloop1]
      simp only
      rw [hloop2]
      simp
    · rw [List.length_append, hlen]
      have : a + (2 ^ (c.2 + 1) - 1 + (tiles l).length) = a + (2 ^ (c.2 + 1) - 1) + (tiles l).length := by omega
      rw [this]; exact hinv2

end Loop

/-! ### the bagging loop with dead peaks loaded from the segment's hashes -/

theorem bagPeaks_entries (hf : HashFn α H) (s : Segment α H) (bm : Option (Nat → Bool)) (size : Nat) :
    ∀ (ts : List (Option H × Nat × H)) (acc : Option H) (stk : List (Option H)),
      (∀ t ∈ ts, t.1 = some t.2.2 ∨
        (t.1 = none ∧ bm.isSome = true ∧ s.getHash t.2.1 = .ok t.2.2)) →
      bagPeaks hf s bm size (ts.map (·.1) ++ stk) acc (ts.map (·.2.1))
        = .ok ((ts.map (·.2.2)).foldl (bagStep hf size) acc) := by
  intro ts
  induction ts with
  | nil => intro acc stk _; simp [bagPeaks]
  | cons t ts ih =>
    intro acc stk h
    obtain ⟨e, p, x⟩ := t
    have ht := h (e, p, x) (List.mem_cons_self ..)
    have ih' := fun acc' => ih acc' stk (fun t' ht' => h t' (List.mem_cons_of_mem _ ht'))
    simp only [List.map_cons, List.cons_append, bagPeaks, List.foldl_cons]
    rcases ht with ht | ⟨ht, hb, hg⟩
    · simp only at ht
      subst ht
      simp only [Option.isNone_some, Bool.false_and, Bool.false_eq_true, if_false]
      rw [ih']; rfl
    · simp only at ht hg
      subst ht
      simp only [Option.isNone_none, hb, Bool.and_self, if_true, hg]
      rw [ih']; rfl

end GV.Seg
