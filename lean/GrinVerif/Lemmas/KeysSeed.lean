import GrinVerif.Lemmas.KeysView
/-! Seeds (C20): the collision-freedom hypotheses about the seed → master-key map (HMAC-SHA512 over
the whole seed), the switch-commitment blinding and the rewind-nonce hash, what follows from them,
and a term instance that satisfies all three (non-vacuity).  Core Lean only. -/
namespace GV.Keys

variable {K : Type}

/-- Collision-freedom of the key material (HMAC-SHA512 / BIP32, cryptographic assumption — an
explicit hypothesis): a derived secret scalar determines the **whole seed**, of whatever length, and
the path below the master key. -/
def SeedInj (sd : SeedDeriv K) : Prop :=
  ∀ s s' cs cs' k k', ckdAll (sd.kd s) (sd.masterOf s) cs = some k →
    ckdAll (sd.kd s') (sd.masterOf s') cs' = some k' → sd.secret k = sd.secret k' → s = s' ∧ cs = cs'

/-- `blind_switch(amount, ·)` is injective in the key (it adds a hash of the commitment points) -/
def SwitchInj (sd : SeedDeriv K) : Prop := ∀ a k k', sd.blindSwitch a k = sd.blindSwitch a k' → k = k'

/-- the rewind-nonce hash is collision-free in the key material, for a fixed commitment -/
def NonceInj (sd : SeedDeriv K) : Prop := ∀ m m' c, sd.nonceOf m c = sd.nonceOf m' c → m = m'

theorem master_ne (sd : SeedDeriv K) (hinj : SeedInj sd) (s s' : Bytes) (hne : s ≠ s') :
    sd.secret (sd.masterOf s) ≠ sd.secret (sd.masterOf s') := by
  intro h
  exact hne (hinj s s' [] [] _ _ rfl rfl h).1

/-- the blinding factor `derive_key` returns for the extended key `k` -/
def keyOf (sd : SeedDeriv K) (sw : Switch) (amount : Nat) (k : K) : Nat :=
  match sw with
  | .regular => sd.blindSwitch amount (sd.secret k)
  | .none => sd.secret k

/-- a successful `commit(amount, id, switch)` of the keychain of `seed` -/
theorem commit_inv (sd : SeedDeriv K) (seed : Bytes) (amount : Nat) (id : Ident) (sw : Switch)
    (c : Opening) (hd : id.toPath.depth ≤ 4) (h : commit (sd.kd seed) amount id sw = .ok c) :
    ∃ k, ckdAll (sd.kd seed) (sd.masterOf seed) id.words = some k ∧
      c = ⟨amount, keyOf sd sw amount k⟩ := by
  unfold commit deriveKey at h
  rw [prefix?_eq_words id hd] at h
  simp only at h
  have hm : (sd.kd seed).master = sd.masterOf seed := rfl
  rw [hm] at h
  cases hk : ckdAll (sd.kd seed) (sd.masterOf seed) id.words with
  | none => rw [hk] at h; cases h
  | some k =>
    rw [hk] at h
    refine ⟨k, rfl, ?_⟩
    cases sw with
    | regular => simp only at h; injection h with h; exact h.symm
    | none => simp only at h; injection h with h; exact h.symm

theorem commit_ne (sd : SeedDeriv K) (hinj : SeedInj sd) (hsw : SwitchInj sd) (s s' : Bytes)
    (hne : s ≠ s') (amount : Nat) (id : Ident) (sw : Switch) (c c' : Opening)
    (hd : id.toPath.depth ≤ 4) (h : commit (sd.kd s) amount id sw = .ok c)
    (h' : commit (sd.kd s') amount id sw = .ok c') : c ≠ c' := by
  obtain ⟨k, hk, rfl⟩ := commit_inv sd s amount id sw c hd h
  obtain ⟨k', hk', rfl⟩ := commit_inv sd s' amount id sw c' hd h'
  intro he
  have hb : keyOf sd sw amount k = keyOf sd sw amount k' := by injection he
  have hs : sd.secret k = sd.secret k' := by
    cases sw with
    | regular => exact hsw _ _ _ hb
    | none => exact hb
  exact hne (hinj s s' _ _ k k' hk hk' hs).1

theorem nonce_ne (sd : SeedDeriv K) (hinj : SeedInj sd) (hn : NonceInj sd) (s s' : Bytes)
    (hne : s ≠ s') (c : Opening) : sd.rn s c ≠ sd.rn s' c := by
  intro h
  exact master_ne sd hinj s s' hne (hn _ _ c h)

/-! ## the term instance -/

/-- injective code of a byte string (any length) -/
def bytesCode : Bytes → Nat
  | [] => 0
  | b :: bs => pairCode b (bytesCode bs)

theorem bytesCode_inj : ∀ (l l' : Bytes), bytesCode l = bytesCode l' → l = l' := by
  intro l
  induction l with
  | nil =>
    intro l' h
    cases l' with
    | nil => rfl
    | cons c cs => have := pairCode_pos c (bytesCode cs); simp only [bytesCode] at h; omega
  | cons c cs ih =>
    intro l' h
    cases l' with
    | nil => have := pairCode_pos c (bytesCode cs); simp only [bytesCode] at h; omega
    | cons c' cs' =>
      simp only [bytesCode] at h
      obtain ⟨h1, h2⟩ := pairCode_inj _ _ _ _ h
      rw [h1, ih cs' h2]

/-- the term model: a key *is* (seed, path); its secret is the injective code of the pair;
`blind_switch` is an injective pairing, the nonce "hash" is the key material itself (codes are kept
small enough for the kernel to evaluate the examples) -/
def termSD : SeedDeriv (Bytes × List ChildNumber) where
  masterOf := fun s => (s, [])
  ckd := fun k c => some (k.1, k.2 ++ [c])
  secret := fun k => pairCode (wordsCode k.2) (bytesCode k.1)
  blindSwitch := fun amount key => pairCode amount key
  nonceOf := fun m _ => m

theorem termSD_ckdAll (seed : Bytes) : ∀ (cs : List ChildNumber) (k : Bytes × List ChildNumber),
    ckdAll (termSD.kd seed) k cs = some (k.1, k.2 ++ cs) := by
  intro cs
  induction cs with
  | nil => intro k; simp [ckdAll]
  | cons c cs ih =>
    intro k
    simp only [ckdAll]
    show ckdAll (termSD.kd seed) (k.1, k.2 ++ [c]) cs = _
    rw [ih]; simp

theorem termSD_seedInj : SeedInj termSD := by
  intro s s' cs cs' k k' h h' hs
  have e : termSD.masterOf s = (s, []) := rfl
  have e' : termSD.masterOf s' = (s', []) := rfl
  rw [e, termSD_ckdAll] at h
  rw [e', termSD_ckdAll] at h'
  simp only [List.nil_append, Option.some.injEq] at h h'
  subst h; subst h'
  have := pairCode_inj _ _ _ _ (show pairCode (wordsCode cs) (bytesCode s) =
    pairCode (wordsCode cs') (bytesCode s') from hs)
  exact ⟨bytesCode_inj _ _ this.2, wordsCode_inj _ _ this.1⟩

theorem termSD_switchInj : SwitchInj termSD := by
  intro a k k' h
  exact (pairCode_inj _ _ _ _ (show pairCode a k = pairCode a k' from h)).2

theorem termSD_nonceInj : NonceInj termSD := by
  intro m m' c h
  exact h

end GV.Keys
