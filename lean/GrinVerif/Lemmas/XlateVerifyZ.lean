import GrinVerif.Lemmas.XlateVerify

/-! # Helper lemmas for `Props/XlateVerifyZ.lean` (translated Cuckarooz verifier = hand model)

Cuckarooz (`core/src/pow/cuckarooz.rs`) differs from Cuckaroo in loops 1 and 2:
* ONE `head` array, slot `u & mask` for both endpoints (model: `cfgCuckarooz.key bk _ u = bk u`), so
  the translated list `head` and the model's map `s.head` are related directly by `R`;
* ONE xor accumulator `xoruv ^= uvs[2n] ^ uvs[2n+1]` (model keeps `x0`, `x1`; invariant
  `xoruv = s.x0 ^^^ s.x1`);
* loop 2 runs over `0..2*size`, one slot per iteration (model `uCirc`: `size` iterations, two slots
  each) — `z2_eq` pairs two translated iterations with one model iteration.
Loops 3 and 4 are `z3_eq` / `z4_eq` in `Lemmas/XlateVerify.lean`.
-/

namespace GV.Lemmas.XlateVerifyZ
open GV GV.Gen GV.Gen.Fns GV.Pow GV.Lemmas.XlateVerify

/-! ## loop 1 (`for n in 0..size`) = `uBuild cfgCuckarooz` -/

theorem z1_nil (p : CuckooParams) (nonces : List Nat) (mask : Nat) (uvs : List Nat) (x : Nat)
    (hd prev : List Nat) :
    Cuckarooz_verify_loop1 p nonces mask [] uvs x hd prev = .go (uvs, x, hd, prev) := by
  conv => lhs; unfold Cuckarooz_verify_loop1

theorem z1_cons (p : CuckooParams) (nonces : List Nat) (mask n : Nat) (rest uvs : List Nat)
    (x : Nat) (hd prev : List Nat) :
    Cuckarooz_verify_loop1 p nonces mask (n :: rest) uvs x hd prev =
      if decide (idx nonces n > p.edge_mask) then .ret none
      else if (decide (n > 0)) && (decide (idx nonces n ≤ idx nonces (subW n 1))) then .ret none
      else
        let edge := siphash_block p.siphash_keys (idx nonces n) 21 true
        let u := edge &&& p.node_mask
        let v := (shrW edge 32) &&& p.node_mask
        let uvs2 := List.set (List.set uvs (mulW 2 n) u) (addW (mulW 2 n) 1) v
        let hd1 := List.set hd (u &&& mask) (mulW 2 n)
        Cuckarooz_verify_loop1 p nonces mask rest uvs2
          (x ^^^ (idx uvs2 (mulW 2 n) ^^^ idx uvs2 (addW (mulW 2 n) 1)))
          (List.set hd1 (v &&& mask) (addW (mulW 2 n) 1))
          (List.set (List.set prev (mulW 2 n) (idx hd (u &&& mask))) (addW (mulW 2 n) 1)
            (idx hd1 (v &&& mask))) := by
  conv => lhs; unfold Cuckarooz_verify_loop1

theorem z1_ok_cons (p : CuckooParams) (nonces : List Nat) (mask n : Nat) (rest uvs : List Nat)
    (x : Nat) (hd prev : List Nat)
    (h : Cuckarooz_verify_loop1_ok p nonces mask (n :: rest) uvs x hd prev = true) :
    n < nonces.length ∧
    (¬ idx nonces n > p.edge_mask →
     ¬ (n > 0 ∧ idx nonces n ≤ idx nonces (subW n 1)) →
        let edge := siphash_block p.siphash_keys (idx nonces n) 21 true
        let u := edge &&& p.node_mask
        let v := (shrW edge 32) &&& p.node_mask
        let uvs2 := List.set (List.set uvs (mulW 2 n) u) (addW (mulW 2 n) 1) v
        let hd1 := List.set hd (u &&& mask) (mulW 2 n)
        mulW 2 n < uvs.length ∧ addW (mulW 2 n) 1 < uvs.length ∧
        u &&& mask < hd.length ∧ v &&& mask < hd.length ∧
        Cuckarooz_verify_loop1_ok p nonces mask rest uvs2
          (x ^^^ (idx uvs2 (mulW 2 n) ^^^ idx uvs2 (addW (mulW 2 n) 1)))
          (List.set hd1 (v &&& mask) (addW (mulW 2 n) 1))
          (List.set (List.set prev (mulW 2 n) (idx hd (u &&& mask))) (addW (mulW 2 n) 1)
            (idx hd1 (v &&& mask))) = true) := by
  conv at h => lhs; unfold Cuckarooz_verify_loop1_ok
  simp only [Bool.and_eq_true, decide_eq_true_eq] at h
  refine ⟨h.1, ?_⟩
  intro h1 h2
  have h' := h.2
  rw [if_neg h1, Bool.and_eq_true] at h'
  have h'' := h'.2
  rw [if_neg h2] at h''
  simp only [Bool.and_eq_true, decide_eq_true_eq, List.length_set] at h''
  obtain ⟨-, hA, ⟨hC1, -⟩, -, hE, ⟨hF1, -⟩, -, -, hok⟩ := h''
  exact ⟨hA, hE, hC1, hF1, hok⟩

/-- state of the translated first loop (uvs, xoruv, head, prev) vs. the model's `USt` -/
def RelZ (st : List Nat × Nat × List Nat × List Nat) (s : USt) : Prop :=
  R st.1 s.uvs ∧ st.2.1 = s.x0 ^^^ s.x1 ∧ R st.2.2.1 s.head ∧ R st.2.2.2 s.prev

theorem xor_pair (a b u v : Nat) : (a ^^^ b) ^^^ (u ^^^ v) = (a ^^^ u) ^^^ (b ^^^ v) := by
  ac_rfl

theorem z1_eq (p : CuckooParams) (nonces : List Nat) (mask : Nat) (P : Params) (ep : Nat → Nat × Nat)
    (hsz : nonces.length < 2^62) (hP2 : P.edgeMask = p.edge_mask) (hbk : ∀ u, P.bk u = u &&& mask)
    (hep : ∀ x, ep x = (siphash_block p.siphash_keys x 21 true &&& p.node_mask,
        shrW (siphash_block p.siphash_keys x 21 true) 32 &&& p.node_mask)) :
    ∀ (k a : Nat) (uvs : List Nat) (x : Nat) (hd prev : List Nat) (s : USt),
      a + k = nonces.length → RelZ (uvs, x, hd, prev) s →
      Cuckarooz_verify_loop1_ok p nonces mask (List.range' a k) uvs x hd prev = true →
      (Cuckarooz_verify_loop1 p nonces mask (List.range' a k) uvs x hd prev = .ret none ∧
        ∃ e, uBuild cfgCuckarooz P ep (nonces.drop a) a (lastOf nonces a) s = .error e) ∨
      (∃ st s', Cuckarooz_verify_loop1 p nonces mask (List.range' a k) uvs x hd prev = .go st ∧
        uBuild cfgCuckarooz P ep (nonces.drop a) a (lastOf nonces a) s = .ok s' ∧ RelZ st s') := by
  intro k
  induction k with
  | zero =>
    intro a uvs x hd prev s hak hrel _
    right
    refine ⟨_, s, ?_, ?_, hrel⟩
    · rw [List.range'_zero, z1_nil]
    · rw [List.drop_of_length_le (by omega), uBuild]
  | succ k ih =>
    intro a uvs x hd prev s hak hrel hok
    rw [List.range'_succ] at hok ⊢
    obtain ⟨han, hrest⟩ := z1_ok_cons _ _ _ _ _ _ _ _ _ hok
    rw [z1_cons, drop_eq_cons nonces a han, uBuild]
    by_cases h1 : idx nonces a > p.edge_mask
    · left
      rw [if_pos (by simpa using h1), if_pos (by rw [hP2]; exact h1)]
      exact ⟨rfl, _, rfl⟩
    · by_cases h2 : a > 0 ∧ idx nonces a ≤ idx nonces (subW a 1)
      · left
        rw [if_neg (by simpa using h1), if_pos (by simpa using h2), if_neg (by rw [hP2]; exact h1),
          if_pos ((notAsc_lastOf nonces a _ (by omega)).2 h2)]
        exact ⟨rfl, _, rfl⟩
      · obtain ⟨hu1, hu2, hub, hvb, hok'⟩ := hrest h1 h2
        rw [if_neg (by simpa using h1), if_neg (by simpa using h2), if_neg (by rw [hP2]; exact h1),
          if_neg (fun h => h2 ((notAsc_lastOf nonces a _ (by omega)).1 h))]
        rw [← lastOf_succ]
        obtain ⟨r1, r2, r3, r4⟩ := hrel
        simp only [hep, hbk, cfgCuckarooz]
        simp only [mulW_two a (by omega), addW_one (2 * a) (by omega)] at hok' hu1 hu2 ⊢
        refine ih (a + 1) _ _ _ _ _ (by omega) ?_ hok'
        generalize siphash_block p.siphash_keys (idx nonces a) 21 true &&& p.node_mask = U at hub ⊢
        generalize shrW (siphash_block p.siphash_keys (idx nonces a) 21 true) 32 &&& p.node_mask = V
          at hvb ⊢
        have eU : idx (List.set (List.set uvs (2 * a) U) (2 * a + 1) V) (2 * a) = U := by
          rw [idx_set _ _ _ _ (by rw [List.length_set]; exact hu1), if_neg (by omega),
            idx_set _ _ _ _ hu1, if_pos rfl]
        have eV : idx (List.set (List.set uvs (2 * a) U) (2 * a + 1) V) (2 * a + 1) = V := by
          rw [idx_set _ _ _ _ (by rw [List.length_set]; exact hu2), if_pos rfl]
        have e1 : idx hd (U &&& mask) = s.head (U &&& mask) := r3 _ hub
        have e2 : idx (List.set hd (U &&& mask) (2 * a)) (V &&& mask)
            = upd s.head (U &&& mask) (2 * a) (V &&& mask) :=
          R_set r3 _ _ _ (by rw [List.length_set]; exact hvb)
        rw [e1, e2]
        refine ⟨R_set (R_set r1 _ _) _ _, ?_, R_set (R_set r3 _ _) _ _, R_set (R_set r4 _ _) _ _⟩
        show x ^^^ (idx (List.set (List.set uvs (2 * a) U) (2 * a + 1) V) (2 * a) ^^^
            idx (List.set (List.set uvs (2 * a) U) (2 * a + 1) V) (2 * a + 1))
          = (s.x0 ^^^ U) ^^^ (s.x1 ^^^ V)
        rw [eU, eV, show x = s.x0 ^^^ s.x1 from r2]
        exact xor_pair _ _ _ _

/-! ## loop 2 (`for n in 0..2*size`, one slot per iteration) = `uCirc cfgCuckarooz` (two per step) -/

theorem z2_nil (size : Nat) (uvs : List Nat) (mask : Nat) (hd prev : List Nat) :
    Cuckarooz_verify_loop2 size uvs mask hd [] prev = prev := by
  conv => lhs; unfold Cuckarooz_verify_loop2

theorem z2_cons (size : Nat) (uvs : List Nat) (mask : Nat) (hd : List Nat) (n : Nat)
    (rest prev : List Nat) :
    Cuckarooz_verify_loop2 size uvs mask hd (n :: rest) prev =
      Cuckarooz_verify_loop2 size uvs mask hd rest
        (if (idx prev n == mulW 2 size) = true then
          List.set prev n (idx hd ((idx uvs n) &&& mask)) else prev) := by
  conv => lhs; unfold Cuckarooz_verify_loop2

theorem z2_ok_cons (size : Nat) (uvs : List Nat) (mask : Nat) (hd : List Nat) (n : Nat)
    (rest prev : List Nat)
    (h : Cuckarooz_verify_loop2_ok size uvs mask hd (n :: rest) prev = true) :
    n < prev.length ∧
    (idx prev n = mulW 2 size → n < uvs.length ∧ (idx uvs n) &&& mask < hd.length) ∧
    Cuckarooz_verify_loop2_ok size uvs mask hd rest
      (if (idx prev n == mulW 2 size) = true then
        List.set prev n (idx hd ((idx uvs n) &&& mask)) else prev) = true := by
  conv at h => lhs; unfold Cuckarooz_verify_loop2_ok
  simp only [Bool.and_eq_true, decide_eq_true_eq] at h
  obtain ⟨⟨h1, h2⟩, h3⟩ := h
  refine ⟨h1, ?_, h3⟩
  intro e
  rw [if_pos (by simpa using e)] at h2
  simp only [Bool.and_eq_true, decide_eq_true_eq] at h2
  exact ⟨h2.1, h2.2.1⟩

theorem range_two (a m : Nat) :
    List.range' (2 * a) (2 * (m + 1)) = (2 * a) :: (2 * a + 1) :: List.range' (2 * (a + 1)) (2 * m) := by
  rw [show 2 * (m + 1) = 2 * m + 1 + 1 by omega, List.range'_succ, List.range'_succ,
    show 2 * a + 1 + 1 = 2 * (a + 1) by omega]

theorem z2_eq (size : Nat) (uvs : List Nat) (mask : Nat) (hd : List Nat) (P : Params) (s : USt)
    (hsz : size < 2^62) (hbk : ∀ u, P.bk u = u &&& mask)
    (r1 : R uvs s.uvs) (r3 : R hd s.head) :
    ∀ (m a : Nat) (prev : List Nat) (prevf : Nat → Nat), a + m = size → R prev prevf →
      Cuckarooz_verify_loop2_ok size uvs mask hd (List.range' (2 * a) (2 * m)) prev = true →
      R (Cuckarooz_verify_loop2 size uvs mask hd (List.range' (2 * a) (2 * m)) prev)
        (uCirc cfgCuckarooz P size s m prevf) := by
  intro m
  induction m with
  | zero =>
    intro a prev prevf _ hR _
    rw [Nat.mul_zero, List.range'_zero, z2_nil, uCirc]; exact hR
  | succ m ih =>
    intro a prev prevf ham hR hok
    rw [range_two] at hok ⊢
    obtain ⟨h1, h2, h3⟩ := z2_ok_cons _ _ _ _ _ _ _ hok
    obtain ⟨h4, h5, h6⟩ := z2_ok_cons _ _ _ _ _ _ _ h3
    rw [z2_cons, z2_cons, uCirc]
    simp only [mulW_two size hsz] at h1 h2 h4 h5 h6 ⊢
    have ea : size - (m + 1) = a := by omega
    simp only [ea, cfgCuckarooz, hbk]
    have hR1 := circ_step hR (2 * a) (2 * size) (idx hd (idx uvs (2 * a) &&& mask))
      (s.head (s.uvs (2 * a) &&& mask)) h1 (fun e => by
        rw [r3 _ (h2 e).2, r1 _ (h2 e).1])
    have hR2 := circ_step hR1 (2 * a + 1) (2 * size) (idx hd (idx uvs (2 * a + 1) &&& mask))
      (s.head (s.uvs (2 * a + 1) &&& mask)) h4 (fun e => by
        rw [r3 _ (h5 e).2, r1 _ (h5 e).1])
    exact ih (a + 1) _ _ (by omega) hR2 h6

end GV.Lemmas.XlateVerifyZ
