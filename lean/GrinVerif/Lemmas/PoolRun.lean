import GrinVerif.Lemmas.PoolOps
/-! Block reconciliation, reorg-cache reconciliation, standalone validity of all entries under
every operation (eviction included), and the invariant over histories. -/
namespace GV.Pool

theorem validate_indep_head (c : Ctx) (head : GV.Chain.UState) (ver : Nat) (w : Weighting) (t : Tx) :
    t.validate { c with head := head, ver := ver } w = t.validate c w := rfl

theorem allValid_indep_head {c : Ctx} {s : TxPool} (head : GV.Chain.UState) (ver : Nat) (h : AllValid c s) :
    AllValid { c with head := head, ver := ver } s := fun e he => h e he

theorem mem_reconcileBlock {p : Pool} {ins kers : List Nat} {e : Entry} (h : e ∈ p.reconcileBlock ins kers) :
    e ∈ p := by
  unfold Pool.reconcileBlock at h
  exact (List.mem_filter.mp h).1

/-- `reconcile_block` establishes the invariant from any state whose entries are standalone valid -/
theorem reconcileBlock_inv {c : Ctx} {s : TxPool} (ins kers : List Nat) (hv : AllValid c s) :
    Inv c (s.reconcileBlock c ins kers).1 := by
  unfold TxPool.reconcileBlock
  simp only []
  have htp := reconcile_txpoolOK c (s.txpool.reconcileBlock ins kers)
  split
  · rename_i er hagg
    rcases allAggregate_txpoolOK htp with ⟨_, h2⟩ | ⟨a, _, h2⟩ <;> rw [h2] at hagg <;> simp at hagg
  · rename_i agg hagg
    refine ⟨?_, htp, stem_reconciled htp hagg⟩
    intro e he
    rcases he with he | he | he
    · exact hv e (Or.inl (mem_reconcileBlock (reconcile_subset c none _ e he)))
    · exact hv e (Or.inr (Or.inl (mem_reconcileBlock (reconcile_subset c agg _ e he))))
    · exact hv e (Or.inr (Or.inr he))

theorem inv_of_txpool_add {c : Ctx} {s s2 : TxPool} {entry : Entry}
    (hv : AllValid c s) (hval : entry.tx.validate c .asTransaction = none)
    (h1 : s2.txpool = s.txpool ++ [entry]) (h2 : TxpoolOK c s2.txpool)
    (h3 : NetOK (utxoIds c) (s2.stempool.txs ++ s2.txpool.txs))
    (h4 : ∀ x ∈ s2.stempool, x ∈ s.stempool) (h5 : s2.cache = s.cache) : Inv c s2 := by
  refine ⟨?_, h2, h3⟩
  intro e he
  rcases he with he | he | he
  · rw [h1] at he
    rcases List.mem_append.mp he with h | h
    · exact hv e (Or.inl h)
    · simp at h; subst h; exact hval
  · exact hv e (Or.inr (Or.inl (h4 e he)))
  · rw [h5] at he; exact hv e (Or.inr (Or.inr he))

theorem foldl_addToTxpool_inv (c : Ctx) (l : List Entry) (acc : TxPool) (hInv : Inv c acc)
    (hl : ∀ e ∈ l, e.tx.validate c .asTransaction = none) :
    Inv c (l.foldl (fun acc e => (acc.addToTxpool c e).1) acc) := by
  induction l generalizing acc with
  | nil => exact hInv
  | cons e rest ih =>
    simp only [List.foldl_cons]
    apply ih
    · rcases addToTxpool_cases c acc e with ⟨er, h⟩ | ⟨s2, h, h1, h2, h3, h4, h5⟩
      · rw [h]; exact hInv
      · rw [h]; exact inv_of_txpool_add hInv.valid (hl e (by simp)) h1 h2 h3 h4 h5
    · intro x hx; exact hl x (by simp [hx])

/-- `reconcile_reorg_cache` keeps the invariant -/
theorem reconcileReorgCache_inv {c : Ctx} {s : TxPool} (hInv : Inv c s) : Inv c (s.reconcileReorgCache c) := by
  unfold TxPool.reconcileReorgCache
  exact foldl_addToTxpool_inv c s.cache s hInv (fun e he => hInv.valid e (Or.inr (Or.inr he)))

theorem truncateCache_inv {c : Ctx} {s : TxPool} (n : Nat) (hInv : Inv c s) : Inv c (s.truncateCache n) := by
  refine ⟨?_, hInv.txOK, hInv.stem⟩
  intro e he
  rcases he with he | he | he
  · exact hInv.valid e (Or.inl he)
  · exact hInv.valid e (Or.inr (Or.inl he))
  · exact hInv.valid e (Or.inr (Or.inr (List.mem_of_mem_drop he)))

/-! ### standalone validity of every entry is preserved by every operation, eviction included -/

theorem mem_evict {c : Ctx} {p : Pool} {e : Entry} (h : e ∈ p.evict c) : e ∈ p := by
  unfold Pool.evict at h
  split at h
  · exact h
  · exact (List.mem_filter.mp h).1

theorem allValid_of_subset {c : Ctx} {s s' : TxPool} {entry : Entry} (hv : AllValid c s)
    (hval : entry.tx.validate c .asTransaction = none)
    (h1 : ∀ e ∈ s'.txpool, e ∈ s.txpool ∨ e = entry) (h2 : ∀ e ∈ s'.stempool, e ∈ s.stempool ∨ e = entry)
    (h3 : ∀ e ∈ s'.cache, e ∈ s.cache ∨ e = entry) : AllValid c s' := by
  intro e he
  rcases he with he | he | he
  · rcases h1 e he with h | h
    · exact hv e (Or.inl h)
    · subst h; exact hval
  · rcases h2 e he with h | h
    · exact hv e (Or.inr (Or.inl h))
    · subst h; exact hval
  · rcases h3 e he with h | h
    · exact hv e (Or.inr (Or.inr h))
    · subst h; exact hval

theorem addToTxpool_members (c : Ctx) (s : TxPool) (e : Entry) :
    (∀ x ∈ (s.addToTxpool c e).1.txpool, x ∈ s.txpool ∨ x = e) ∧
    (∀ x ∈ (s.addToTxpool c e).1.stempool, x ∈ s.stempool) ∧ (s.addToTxpool c e).1.cache = s.cache := by
  rcases addToTxpool_cases c s e with ⟨er, h⟩ | ⟨s2, h, h1, _, _, h4, h5⟩
  · rw [h]; exact ⟨fun x hx => Or.inl hx, fun x hx => hx, rfl⟩
  · rw [h]
    refine ⟨fun x hx => ?_, h4, h5⟩
    rw [h1] at hx
    rcases List.mem_append.mp hx with h | h
    · exact Or.inl h
    · right; simpa using h

theorem tail_allValid {c : Ctx} {s1 s2 : TxPool} {entry : Entry} {r : Res} (hv1 : AllValid c s1)
    (hval : entry.tx.validate c .asTransaction = none) (heq : s1.addToTxpool c entry = (s2, r)) :
    AllValid c s2 ∧ AllValid c (s2.addToReorgCache c entry) ∧
    AllValid c { txpool := Pool.evict c (TxPool.addToReorgCache c s2 entry).txpool,
                 stempool := (TxPool.addToReorgCache c s2 entry).stempool,
                 cache := (TxPool.addToReorgCache c s2 entry).cache } := by
  obtain ⟨m1, m2, m3⟩ := addToTxpool_members c s1 entry
  rw [heq] at m1 m2 m3
  simp only at m1 m2 m3
  refine ⟨?_, ?_, ?_⟩
  · exact allValid_of_subset hv1 hval m1 (fun e he => Or.inl (m2 e he)) (fun e he => by rw [m3] at he; exact Or.inl he)
  · refine allValid_of_subset hv1 hval m1 (fun e he => Or.inl (m2 e he)) ?_
    intro e he
    rcases mem_addToReorgCache he with h | h
    · rw [m3] at h; exact Or.inl h
    · exact Or.inr h
  · refine allValid_of_subset hv1 hval (fun e he => m1 e (mem_evict he)) (fun e he => Or.inl (m2 e he)) ?_
    intro e he
    rcases mem_addToReorgCache he with h | h
    · rw [m3] at h; exact Or.inl h
    · exact Or.inr h

theorem addCore_allValid {c : Ctx} {s : TxPool} (src : Src) (tx : Tx) (stem stemOk : Bool)
    (hv : AllValid c s) : AllValid c (s.addCore c src tx stem stemOk).1 := by
  unfold TxPool.addCore
  split
  · exact hv
  split
  · exact hv
  rename_i entry hentry
  simp only []
  split
  · exact hv
  split
  · exact hv
  split
  · exact hv
  rename_i hval
  split
  · exact hv
  split
  · exact hv
  rename_i extra hextra
  split
  · exact hv
  split
  · exact hv
  cases stem with
  | false =>
    simp only [Bool.false_eq_true, if_false]
    split
    · rename_i s2 er heq; exact (tail_allValid hv hval heq).1
    · rename_i s2 heq
      split
      · exact (tail_allValid hv hval heq).2.2
      · exact (tail_allValid hv hval heq).2.1
  | true =>
    simp only [if_true]
    cases hadd : Pool.addToPool c s.stempool entry extra with
    | error er => exact hv
    | ok sp =>
      have hsp := (addToPool_ok hadd).1
      have hv1 : AllValid c { txpool := s.txpool, stempool := sp, cache := s.cache } := by
        refine allValid_of_subset hv hval (fun e he => Or.inl he) ?_ (fun e he => Or.inl he)
        intro e he
        simp only at he
        rw [hsp] at he
        rcases List.mem_append.mp he with h | h
        · exact Or.inl h
        · right; simpa using h
      cases stemOk with
      | true => exact hv1
      | false =>
        simp only []
        split
        · rename_i s2 er heq; exact (tail_allValid hv1 hval heq).1
        · rename_i s2 heq
          split
          · exact (tail_allValid hv1 hval heq).2.2
          · exact (tail_allValid hv1 hval heq).2.1

theorem addToPool_allValid {c : Ctx} {s : TxPool} (src : Src) (tx : Tx) (stem stemOk : Bool)
    (hv : AllValid c s) : AllValid c (s.addToPool c src tx stem stemOk).1 := by
  unfold TxPool.addToPool
  split <;> exact addCore_allValid src tx _ stemOk hv

theorem foldl_addToTxpool_allValid (c : Ctx) (l : List Entry) (acc : TxPool) (hv : AllValid c acc)
    (hl : ∀ e ∈ l, e.tx.validate c .asTransaction = none) :
    AllValid c (l.foldl (fun acc e => (acc.addToTxpool c e).1) acc) := by
  induction l generalizing acc with
  | nil => exact hv
  | cons e rest ih =>
    simp only [List.foldl_cons]
    apply ih
    · obtain ⟨m1, m2, m3⟩ := addToTxpool_members c acc e
      exact allValid_of_subset hv (hl e (by simp)) m1 (fun x hx => Or.inl (m2 x hx))
        (fun x hx => by rw [m3] at hx; exact Or.inl hx)
    · intro x hx; exact hl x (by simp [hx])

/-- every operation keeps all entries standalone valid -/
theorem step_allValid (cs : Ctx × TxPool) (op : Op) (hv : AllValid cs.1 cs.2) :
    AllValid (step cs op).1 (step cs op).2 := by
  cases op with
  | submit src tx stem ok => exact addToPool_allValid src tx stem ok hv
  | block head ver ins kers =>
    exact (reconcileBlock_inv ins kers (allValid_indep_head head ver hv)).valid
  | reorgCache =>
    exact foldl_addToTxpool_allValid cs.1 cs.2.cache cs.2 hv (fun e he => hv e (Or.inr (Or.inr he)))
  | evict =>
    intro e he
    rcases he with he | he | he
    · exact hv e (Or.inl (mem_evict he))
    · exact hv e (Or.inr (Or.inl he))
    · exact hv e (Or.inr (Or.inr he))
  | truncate n =>
    intro e he
    rcases he with he | he | he
    · exact hv e (Or.inl he)
    · exact hv e (Or.inr (Or.inl he))
    · exact hv e (Or.inr (Or.inr (List.mem_of_mem_drop he)))

theorem run_allValid (cs : Ctx × TxPool) (ops : List Op) (hv : AllValid cs.1 cs.2) :
    AllValid (run cs ops).1 (run cs ops).2 := by
  induction ops generalizing cs with
  | nil => exact hv
  | cons op rest ih => exact ih (step cs op) (step_allValid cs op hv)

/-- one operation that does not evict keeps the invariant -/
theorem step_inv (cs : Ctx × TxPool) (op : Op) (hInv : Inv cs.1 cs.2) (hne : ¬ evicts cs op) :
    Inv (step cs op).1 (step cs op).2 := by
  cases op with
  | submit src tx stem ok =>
    have hcap : cs.2.txpool.length ≤ cs.1.cfg.maxPool := by
      simp only [evicts] at hne; omega
    exact addToPool_inv src tx stem ok hInv hcap
  | block head ver ins kers => exact reconcileBlock_inv ins kers (allValid_indep_head head ver hInv.valid)
  | reorgCache => exact reconcileReorgCache_inv hInv
  | evict => exact absurd trivial hne
  | truncate n => exact truncateCache_inv n hInv

theorem run_inv (cs : Ctx × TxPool) (ops : List Op) (hInv : Inv cs.1 cs.2) (hne : NoEvict cs ops) :
    Inv (run cs ops).1 (run cs ops).2 := by
  induction ops generalizing cs with
  | nil => exact hInv
  | cons op rest ih => exact ih (step cs op) (step_inv cs op hInv hne.1) hne.2

end GV.Pool
