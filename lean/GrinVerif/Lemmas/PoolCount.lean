import GrinVerif.Model.Pool
/-! Counting lemmas for the pool model: multiset difference, cut-through, aggregation preserve
the *net* number of instances of every commitment; a transaction that passes
`validateRawTx` is jointly valid on its own. -/
namespace GV.Pool

theorem count_msub (a : Nat) (l m : List Nat) : (msub l m).count a = l.count a - m.count a := by
  induction m generalizing l with
  | nil => simp [msub]
  | cons b bs ih =>
    simp only [msub, ih, List.count_cons, List.count_erase]
    by_cases h : b = a
    · subst h; simp; omega
    · simp [h]

theorem nodupB_iff (l : List Nat) : nodupB l = true ↔ l.Nodup := by
  induction l with
  | nil => simp [nodupB]
  | cons a l ih => simp [nodupB, ih, List.nodup_cons]

theorem nodupB_count {l : List Nat} (h : nodupB l = true) (a : Nat) : l.count a ≤ 1 :=
  List.nodup_iff_count.mp ((nodupB_iff l).mp h) a

theorem allIns_append (a b : List Tx) : allIns (a ++ b) = allIns a ++ allIns b := by
  simp [allIns]

theorem allOuts_append (a b : List Tx) : allOuts (a ++ b) = allOuts a ++ allOuts b := by
  simp [allOuts]

@[simp] theorem allIns_nil : allIns [] = [] := rfl
@[simp] theorem allOuts_nil : allOuts [] = [] := rfl
@[simp] theorem allIns_cons (t : Tx) (l : List Tx) : allIns (t :: l) = t.ins ++ allIns l := by
  simp [allIns]
@[simp] theorem allOuts_cons (t : Tx) (l : List Tx) : allOuts (t :: l) = t.outs ++ allOuts l := by
  simp [allOuts]
theorem allIns_single (t : Tx) : allIns [t] = t.ins := by simp
theorem allOuts_single (t : Tx) : allOuts [t] = t.outs := by simp

/-- the result of a successful cut-through: counts are truncated differences, no duplicates -/
theorem cutThrough_ok {ins outs i o : List Nat} (h : cutThrough ins outs = .ok (i, o)) :
    (∀ a, i.count a = ins.count a - outs.count a) ∧ (∀ a, o.count a = outs.count a - ins.count a) ∧
    (∀ a, i.count a ≤ 1) ∧ (∀ a, o.count a ≤ 1) := by
  by_cases hn : (nodupB (msub ins outs) && nodupB (msub outs ins)) = true
  · simp only [cutThrough, hn, if_true, Except.ok.injEq, Prod.mk.injEq] at h
    simp only [Bool.and_eq_true] at hn
    obtain ⟨hi, ho⟩ := h
    subst hi; subst ho
    exact ⟨fun a => count_msub a _ _, fun a => count_msub a _ _,
      fun a => nodupB_count hn.1 a, fun a => nodupB_count hn.2 a⟩
  · simp [cutThrough, hn] at h

/-- **net preservation**: the aggregate creates, net, as many instances of every commitment as
the transactions it was made from -/
theorem aggregate_net {txs : List Tx} {a : Tx} (h : aggregate txs = .ok a) (o : Nat) :
    a.ins.count o + (allOuts txs).count o = a.outs.count o + (allIns txs).count o := by
  match txs, h with
  | [], h =>
    simp only [aggregate, Except.ok.injEq] at h
    subst h; simp [emptyTx]
  | [t], h =>
    simp only [aggregate, Except.ok.injEq] at h
    subst h; simp; omega
  | t1 :: t2 :: rest, h =>
    simp only [aggregate] at h
    split at h
    · simp at h
    · rename_i i o' hc
      simp only [Except.ok.injEq] at h
      subst h
      obtain ⟨hi, ho, _, _⟩ := cutThrough_ok hc
      simp only [hi o, ho o]
      omega

/-- what `Tx.validate` guarantees about the shape of a transaction -/
theorem validate_shape {c : Ctx} {w : Weighting} {t : Tx} (h : t.validate c w = none) :
    nodupB t.ins = true ∧ nodupB t.outs = true ∧ (∀ i ∈ t.ins, i ∉ t.outs) ∧ t.balanced c.outs = true := by
  unfold Tx.validate at h
  repeat (split at h; · simp at h)
  rename_i _ _ _ h4 _ h5 _ _ _ h9
  simp only [Bool.not_eq_eq_eq_not, Bool.not_true, Bool.and_eq_false_imp,
    Bool.and_eq_true] at h4
  simp only [Bool.or_eq_true, Bool.not_eq_eq_eq_not, Bool.not_true, not_or, Bool.not_eq_true,
    Bool.not_eq_false] at h9
  simp only [List.any_eq_true, List.contains_iff_mem, not_exists, not_and] at h5
  have h4' : nodupB t.ins = true ∧ nodupB t.outs = true := by
    by_cases a : nodupB t.ins = true
    · by_cases b : nodupB t.outs = true
      · exact ⟨a, b⟩
      · simp_all
    · simp_all
  exact ⟨h4'.1, h4'.2, fun i hi => h5 i hi, by simpa using h9.2⟩

theorem validate_weight {c : Ctx} {w : Weighting} {t : Tx} (h : t.validate c w = none) :
    overWeight c.cfg w t = false := by
  unfold Tx.validate at h
  split at h
  · simp at h
  · split at h
    · simp at h
    · rename_i h2; simpa using h2

theorem chainValidate_shape {c : Ctx} {t : Tx} (h : chainValidateTx c t = none) :
    (∀ o ∈ t.outs, c.head.has o = false) ∧ (∀ i ∈ t.ins, c.head.has i = true) := by
  unfold chainValidateTx at h
  split at h
  · simp at h
  · split at h
    · simp at h
    · clear h
      rename_i h1 h2
      simp only [List.any_eq_true, not_exists, not_and, Bool.not_eq_true] at h1
      have h2' : t.ins.all c.head.has = true := by simpa using h2
      rw [List.all_eq_true] at h2'
      exact ⟨fun o ho => h1 o ho, fun i hi => h2' i hi⟩

theorem has_iff_mem (c : Ctx) (o : Nat) : c.head.has o = true ↔ o ∈ utxoIds c := by
  simp only [GV.Chain.UState.has, utxoIds, List.any_eq_true, List.mem_map, beq_iff_eq]

theorem unspentCount_of_has {c : Ctx} {o : Nat} (h : c.head.has o = true) : unspentCount (utxoIds c) o = 1 := by
  simp [unspentCount, (has_iff_mem c o).mp h]

theorem unspentCount_of_not_has {c : Ctx} {o : Nat} (h : c.head.has o = false) : unspentCount (utxoIds c) o = 0 := by
  have : o ∉ utxoIds c := fun hm => by
    have := (has_iff_mem c o).mpr hm
    simp [h] at this
  simp [unspentCount, this]

theorem unspentCount_le (u : List Nat) (o : Nat) : unspentCount u o ≤ 1 := by
  unfold unspentCount; split <;> omega

/-- the per-commitment facts about a transaction that passed `validateRawTx` -/
theorem validateRawTx_counts {c : Ctx} {w : Weighting} {a : Tx} (h : validateRawTx c w a = none) (o : Nat) :
    a.ins.count o ≤ unspentCount (utxoIds c) o ∧
    a.outs.count o + unspentCount (utxoIds c) o ≤ 1 ∧
    (a.ins.count o = 0 ∨ a.outs.count o = 0) := by
  unfold validateRawTx at h
  split at h
  · simp at h
  · rename_i hv
    obtain ⟨hi, ho, hd, _⟩ := validate_shape hv
    obtain ⟨co, ci⟩ := chainValidate_shape h
    have h1 := nodupB_count hi o
    have h2 := nodupB_count ho o
    refine ⟨?_, ?_, ?_⟩
    · by_cases hm : o ∈ a.ins
      · rw [unspentCount_of_has (ci o hm)]; exact h1
      · rw [List.count_eq_zero.mpr hm]; omega
    · by_cases hm : o ∈ a.outs
      · rw [unspentCount_of_not_has (co o hm)]; omega
      · rw [List.count_eq_zero.mpr hm]
        have := unspentCount_le (utxoIds c) o
        omega
    · by_cases hm : o ∈ a.ins
      · right; exact List.count_eq_zero.mpr (hd o hm)
      · left; exact List.count_eq_zero.mpr hm

end GV.Pool
