import GrinVerif.Lemmas.PmmrCoord
import GrinVerif.Lemmas.StoreArith
import GrinVerif.Lemmas.PruneListInv
/-! Tree structure of MMR positions as the prune list sees it (C08): children / parent / sibling
arithmetic of `family`, `bintree_leftmost`, `height`; subtrees are contiguous position ranges
`[leftmost r, r]` that are nested or disjoint.  Derived from the `(n, h)` coordinates of
`Lemmas/PmmrCoord`.  Core Lean only. -/
namespace GV.Store
open GV GV.Pmmr GV.Pmmr.Co

/-- `q` lies in the subtree rooted at `r` (a contiguous range of positions ending at `r`) -/
def Sub (r q : Nat) : Prop := bintreeLeftmost r ≤ q ∧ q ≤ r

instance (r q : Nat) : Decidable (Sub r q) := by unfold Sub; exact inferInstance

theorem sub_refl (r : Nat) : Sub r r := ⟨PruneList.leftmost_le r, Nat.le_refl _⟩

theorem two_pow_succ' (h : Nat) : 2 ^ (h + 1) = 2 * 2 ^ h := by rw [Nat.pow_succ]; omega

/-- children of a node of height `h+1`: right child `p-1`, left child `p - 2·2^h`, both of height
`h`, each the sibling of the other with parent `p` -/
theorem children (p h : Nat) (hp : height p = h + 1) :
    2 * 2 ^ h ≤ p ∧ height (p - 1) = h ∧ height (p - 2 * 2 ^ h) = h ∧
    family (p - 1) = (p, p - 2 * 2 ^ h) ∧ family (p - 2 * 2 ^ h) = (p, p - 1) := by
  obtain ⟨n, k, hk, rfl⟩ := coord_surj p
  rw [height_co n k hk] at hp
  subst hp
  have hpos := two_pow_pos h
  have hlt : h < trailingOnes n := by omega
  obtain ⟨l1, l2, l3, l4⟩ := left_sibling_coord hlt
  have e1 : mmr n + (h + 1) - 1 = mmr n + h := by omega
  have e2 : mmr n + (h + 1) - 2 * 2 ^ h = mmr (n - 2 ^ h) + h := by omega
  have hb := height_bound (mmr n + (h + 1))
  rw [height_co n (h + 1) hk, two_pow_succ'] at hb
  refine ⟨by omega, ?_, ?_, ?_, ?_⟩
  · rw [e1]; exact height_co n h (by omega)
  · rw [e2]; exact height_co _ h l1
  · rw [e1]
    simp only [family, peakMapHeight_co n h (by omega), bitSet_coord (show h ≤ trailingOnes n by omega)]
    simp only [hlt, decide_true, if_true]
    congr 1 <;> omega
  · rw [e2]
    simp only [family, peakMapHeight_co _ h l1, bitSet_coord l1]
    have : ¬ h < trailingOnes (n - 2 ^ h) := by omega
    simp only [this, decide_false, Bool.false_eq_true, if_false]
    congr 1 <;> omega

/-- the parent returned by `family` is one level higher -/
theorem height_parent (p : Nat) : height (family p).1 = height p + 1 := by
  obtain ⟨n, h, hh, rfl⟩ := coord_surj p
  have hpos := two_pow_pos h
  rw [height_co n h hh]
  simp only [family, peakMapHeight_co n h hh, bitSet_coord hh]
  by_cases hlt : h < trailingOnes n
  · simp only [hlt, decide_true, if_true]
    have : mmr n + h + 1 = mmr n + (h + 1) := by omega
    rw [this]; exact height_co n (h + 1) hlt
  · simp only [hlt, decide_false, Bool.false_eq_true, if_false]
    obtain ⟨r1, r2⟩ := right_sibling_coord (show h = trailingOnes n by omega)
    have : mmr n + h + 2 * 2 ^ h = mmr (n + 2 ^ h) + (h + 1) := by omega
    rw [this]; exact height_co _ (h + 1) r1

/-- `family p` in terms of the children of the parent: `p` is the right child (parent `p+1`) or
the left child (parent `p + 2·2^h`) and the sibling is the other child -/
theorem family_cases (p : Nat) :
    (family p = (p + 1, p + 1 - 2 * 2 ^ height p) ∧ 2 * 2 ^ height p ≤ p + 1) ∨
    (family p = (p + 2 * 2 ^ height p, p + 2 * 2 ^ height p - 1)) := by
  have hb := height_bound (family p).1
  rw [height_parent p, two_pow_succ'] at hb
  have hpos := two_pow_pos (height p)
  by_cases hbit : bitSet (peakMapHeight p).1 (peakMapHeight p).2 = true
  · have hf : family p = (p + 1, p + 1 - 2 * 2 ^ height p) := by
      unfold family height; simp only [hbit, if_true]
    left; rw [hf] at hb; simp only at hb
    exact ⟨hf, by omega⟩
  · right; unfold family height; simp only [hbit]; rfl

theorem family_parent_gt' (p : Nat) : p < (family p).1 := PruneList.family_parent_gt p

/-- the sibling's family is the mirror image -/
theorem family_sibling (p : Nat) :
    height (family p).2 = height p ∧ family (family p).2 = ((family p).1, p) ∧
    (family p).2 ≠ p := by
  have hpar := height_parent p
  have hpos := two_pow_pos (height p)
  obtain ⟨c0, c1, c2, c3, c4⟩ := children (family p).1 (height p) hpar
  rcases family_cases p with ⟨hf, hle⟩ | hf
  · rw [hf] at c0 c1 c2 c3 c4 ⊢
    simp only at c0 c1 c2 c3 c4 ⊢
    exact ⟨c2, c4, by omega⟩
  · rw [hf] at c0 c1 c2 c3 c4 ⊢
    simp only at c0 c1 c2 c3 c4 ⊢
    have e : p + 2 * 2 ^ height p - 2 * 2 ^ height p = p := by omega
    rw [e] at c3 c4
    exact ⟨c1, c3, by omega⟩

/-- leftmost positions of the children -/
theorem leftmost_children (p h : Nat) (hp : height p = h + 1) :
    bintreeLeftmost (p - 2 * 2 ^ h) = bintreeLeftmost p ∧
    bintreeLeftmost (p - 1) = p - 2 * 2 ^ h + 1 := by
  obtain ⟨c0, c1, c2, _, _⟩ := children p h hp
  have hb := height_bound p
  rw [hp, two_pow_succ'] at hb
  have hpos := two_pow_pos h
  unfold bintreeLeftmost
  rw [c1, c2, hp, two_pow_succ']
  omega

theorem leftmost_eq {p h : Nat} (hp : height p = h + 1) :
    bintreeLeftmost p = p + 2 - 4 * 2 ^ h := by
  unfold bintreeLeftmost; rw [hp, two_pow_succ']; omega

/-- a position of the subtree of `p` other than `p` lies in the subtree of one of the children -/
theorem sub_children {p h q : Nat} (hp : height p = h + 1) (hs : Sub p q) (hne : q ≠ p) :
    Sub (p - 2 * 2 ^ h) q ∨ Sub (p - 1) q := by
  obtain ⟨l1, l2⟩ := leftmost_children p h hp
  obtain ⟨c0, _⟩ := children p h hp
  have hpos := two_pow_pos h
  obtain ⟨hs1, hs2⟩ := hs
  unfold Sub
  rw [l1, l2]
  omega

theorem sub_of_children {p h q : Nat} (hp : height p = h + 1)
    (hs : Sub (p - 2 * 2 ^ h) q ∨ Sub (p - 1) q) : Sub p q ∧ q ≠ p := by
  obtain ⟨l1, l2⟩ := leftmost_children p h hp
  obtain ⟨c0, _⟩ := children p h hp
  have hpos := two_pow_pos h
  have := PruneList.leftmost_le p
  have hL := leftmost_eq hp
  unfold Sub at *
  rw [l1, l2] at hs
  omega

theorem sub_leaf {p q : Nat} (hp : height p = 0) (hs : Sub p q) : q = p := by
  unfold Sub bintreeLeftmost at hs
  rw [hp] at hs
  omega

/-- **subtrees are nested**: a position inside the subtree of `p` has its own subtree inside it -/
theorem leftmost_mono : ∀ (h p r : Nat), height p = h → Sub p r → bintreeLeftmost p ≤ bintreeLeftmost r := by
  intro h
  induction h with
  | zero => intro p r hp hs; rw [sub_leaf hp hs]; exact Nat.le_refl _
  | succ h ih =>
    intro p r hp hs
    by_cases hne : r = p
    · rw [hne]; exact Nat.le_refl _
    · obtain ⟨l1, l2⟩ := leftmost_children p h hp
      obtain ⟨c0, c1, c2, _, _⟩ := children p h hp
      rcases sub_children hp hs hne with h1 | h1
      · have := ih _ _ c2 h1; omega
      · have := ih _ _ c1 h1
        have hlm := PruneList.leftmost_le p
        have hpos := two_pow_pos h
        have hL := leftmost_eq hp
        omega

theorem sub_trans {a b c : Nat} (h1 : Sub a b) (h2 : Sub b c) : Sub a c := by
  have := leftmost_mono _ a b rfl h1
  unfold Sub at *; omega

/-- two subtrees that share a position are nested -/
theorem sub_of_common {a b q : Nat} (ha : Sub a q) (hb : Sub b q) (hab : a ≤ b) : Sub b a := by
  unfold Sub at *; omega

/-- **going up stays inside**: the parent of a position strictly inside a subtree is in the subtree -/
theorem sub_parent : ∀ (h r q : Nat), height r = h → Sub r q → q ≠ r → Sub r (family q).1 := by
  intro h
  induction h with
  | zero => intro r q hr hs hne; exact absurd (sub_leaf hr hs) hne
  | succ h ih =>
    intro r q hr hs hne
    obtain ⟨c0, c1, c2, c3, c4⟩ := children r h hr
    rcases sub_children hr hs hne with h1 | h1
    · by_cases hq : q = r - 2 * 2 ^ h
      · rw [hq, c4]; exact sub_refl r
      · exact (sub_of_children hr (Or.inl (ih _ _ c2 h1 hq))).1
    · by_cases hq : q = r - 1
      · rw [hq, c3]; exact sub_refl r
      · exact (sub_of_children hr (Or.inr (ih _ _ c1 h1 hq))).1

/-- the subtree of the parent is the two sibling subtrees plus the parent -/
theorem sub_family (p q : Nat) :
    Sub (family p).1 q ↔ q = (family p).1 ∨ Sub p q ∨ Sub (family p).2 q := by
  have hpar := height_parent p
  have hpos := two_pow_pos (height p)
  obtain ⟨c0, c1, c2, c3, c4⟩ := children (family p).1 (height p) hpar
  have hcases : (p = (family p).1 - 1 ∧ (family p).2 = (family p).1 - 2 * 2 ^ height p) ∨
      (p = (family p).1 - 2 * 2 ^ height p ∧ (family p).2 = (family p).1 - 1) := by
    rcases family_cases p with ⟨hf, hle⟩ | hf
    · left; rw [hf]; exact ⟨by simp only; omega, by simp only⟩
    · right; rw [hf]; exact ⟨by simp only; omega, by simp only⟩
  constructor
  · intro hs
    by_cases hq : q = (family p).1
    · exact Or.inl hq
    · right
      rcases sub_children hpar hs hq with h1 | h1 <;> rcases hcases with ⟨e1, e2⟩ | ⟨e1, e2⟩
      · right; rw [e2]; exact h1
      · left; rw [e1]; exact h1
      · left; rw [e1]; exact h1
      · right; rw [e2]; exact h1
  · rintro (rfl | h1 | h1)
    · exact sub_refl _
    · rcases hcases with ⟨e1, e2⟩ | ⟨e1, e2⟩
      · rw [e1] at h1; exact (sub_of_children hpar (Or.inr h1)).1
      · rw [e1] at h1; exact (sub_of_children hpar (Or.inl h1)).1
    · rcases hcases with ⟨e1, e2⟩ | ⟨e1, e2⟩
      · rw [e2] at h1; exact (sub_of_children hpar (Or.inl h1)).1
      · rw [e2] at h1; exact (sub_of_children hpar (Or.inr h1)).1

/-- sibling subtrees are disjoint -/
theorem sub_sibling_disjoint (p q : Nat) (h1 : Sub p q) (h2 : Sub (family p).2 q) : False := by
  have hpar := height_parent p
  have hpos := two_pow_pos (height p)
  obtain ⟨c0, c1, c2, c3, c4⟩ := children (family p).1 (height p) hpar
  obtain ⟨l1, l2⟩ := leftmost_children (family p).1 (height p) hpar
  rcases family_cases p with ⟨hf, hle⟩ | hf
  · rw [hf] at l1 l2 h2; simp only at l1 l2 h2
    have e : p + 1 - 1 = p := by omega
    rw [e] at l2
    unfold Sub at h1 h2; omega
  · rw [hf] at l1 l2 h2; simp only at l1 l2 h2
    have e : p + 2 * 2 ^ height p - 2 * 2 ^ height p = p := by omega
    rw [e] at l2
    unfold Sub at h1 h2; omega

/-- `q` strictly inside the subtree of `r` iff the parent of `q` is inside it -/
theorem sub_parent_iff (r q : Nat) : (Sub r q ∧ q ≠ r) ↔ Sub r (family q).1 := by
  constructor
  · rintro ⟨hs, hne⟩; exact sub_parent _ r q rfl hs hne
  · intro hs
    have h1 : Sub (family q).1 q := (sub_family q q).2 (Or.inr (Or.inl (sub_refl q)))
    have hgt := family_parent_gt' q
    refine ⟨sub_trans hs h1, ?_⟩
    unfold Sub at hs; omega

/-- a node whose family says "parent `par`" is one of the two children of `par` -/
theorem child_of_parent {q par : Nat} (h : (family q).1 = par) :
    q = par - 1 ∨ q = par - 2 * 2 ^ height q := by
  have hpos := two_pow_pos (height q)
  rcases family_cases q with ⟨hf, hle⟩ | hf
  · left; rw [hf] at h; simp only at h; omega
  · right; rw [hf] at h; simp only at h; omega

/-- the two nodes with a given parent are siblings of each other -/
theorem same_parent {a b : Nat} (h : (family a).1 = (family b).1) : b = a ∨ b = (family a).2 := by
  have ha := height_parent a
  have hb := height_parent b
  rw [h] at ha
  have hh : height b = height a := by omega
  have hpos := two_pow_pos (height a)
  rcases family_cases a with ⟨hf, hle⟩ | hf <;> rcases family_cases b with ⟨hg, hle'⟩ | hg
  all_goals (rw [hh] at hg; rw [hf, hg] at h; rw [hf]; simp only at h ⊢; omega)

theorem isLeaf_iff (p : Nat) : isLeaf p = true ↔ height p = 0 := by simp [isLeaf]

/-- the leftmost position of a subtree is a leaf -/
theorem leftmost_isLeaf : ∀ (h p : Nat), height p = h → height (bintreeLeftmost p) = 0 := by
  intro h
  induction h with
  | zero =>
    intro p hp
    have : bintreeLeftmost p = p := by unfold bintreeLeftmost; rw [hp]; omega
    rw [this, hp]
  | succ h ih =>
    intro p hp
    obtain ⟨l1, _⟩ := leftmost_children p h hp
    obtain ⟨_, _, c2, _, _⟩ := children p h hp
    rw [← l1]; exact ih _ c2

end GV.Store
