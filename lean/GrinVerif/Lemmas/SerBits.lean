import GrinVerif.Model.SerSpec
/-! Little-endian byte strings as numbers: `ofLE` / `leBytes` (used for the packed proof nonces). -/
namespace GV.Ser
open GV

def AllBytes (bs : Bytes) : Prop := ∀ b ∈ bs, b < 256

theorem ofLE_nil : ofLE [] = 0 := rfl
theorem ofLE_cons (b : Nat) (r : Bytes) : ofLE (b :: r) = b + 256 * ofLE r := by
  simp [ofLE, List.foldr]; omega

theorem ofLE_append (a b : Bytes) : ofLE (a ++ b) = ofLE a + 256^a.length * ofLE b := by
  induction a with
  | nil => simp [ofLE_nil]
  | cons x a ih =>
    simp only [List.cons_append, ofLE_cons, ih, List.length_cons, Nat.pow_succ]
    grind

theorem ofLE_lt (bs : Bytes) (h : AllBytes bs) : ofLE bs < 256^bs.length := by
  induction bs with
  | nil => simp [ofLE_nil]
  | cons x r ih =>
    have hx : x < 256 := h x (by simp)
    have hr := ih (fun b hb => h b (by simp [hb]))
    simp only [ofLE_cons, List.length_cons, Nat.pow_succ]
    omega

theorem leBytes_length (k n : Nat) : (leBytes k n).length = k := by simp [leBytes]

theorem leBytes_zero (n : Nat) : leBytes 0 n = [] := by simp [leBytes]

theorem leBytes_succ (k n : Nat) : leBytes (k+1) n = (n % 256) :: leBytes k (n / 256) := by
  simp only [leBytes, List.range_succ_eq_map, List.map_cons, List.map_map, Nat.pow_zero, Nat.div_one]
  congr 1
  apply List.map_congr_left
  intro i _
  simp only [Function.comp, Nat.succ_eq_add_one, Nat.pow_succ]
  rw [Nat.mul_comm, Nat.div_div_eq_div_mul]

theorem leBytes_allBytes (k n : Nat) : AllBytes (leBytes k n) := by
  intro b hb
  simp only [leBytes, List.mem_map] at hb
  obtain ⟨i, _, rfl⟩ := hb
  omega

theorem ofLE_leBytes (k n : Nat) : ofLE (leBytes k n) = n % 256^k := by
  induction k generalizing n with
  | zero => simp [leBytes_zero, ofLE_nil, Nat.mod_one]
  | succ k ih =>
    rw [leBytes_succ, ofLE_cons, ih, Nat.pow_succ, Nat.mul_comm (256^k) 256, Nat.mod_mul]

theorem leBytes_add (a b n : Nat) : leBytes (a + b) n = leBytes a n ++ leBytes b (n / 256^a) := by
  induction a generalizing n with
  | zero => simp [leBytes_zero]
  | succ a ih =>
    rw [Nat.add_right_comm, leBytes_succ, leBytes_succ, ih, List.cons_append, Nat.pow_succ,
      Nat.mul_comm (256^a) 256, Nat.div_div_eq_div_mul]

theorem leBytes_ofLE (bs : Bytes) (h : AllBytes bs) : leBytes bs.length (ofLE bs) = bs := by
  induction bs with
  | nil => simp [leBytes_zero]
  | cons x r ih =>
    have hx : x < 256 := h x (by simp)
    have hr := ih (fun b hb => h b (by simp [hb]))
    rw [List.length_cons, leBytes_succ, ofLE_cons]
    have e1 : (x + 256 * ofLE r) % 256 = x := by omega
    have e2 : (x + 256 * ofLE r) / 256 = ofLE r := by omega
    rw [e1, e2, hr]

/-- `leBytes k 0` is all zeros -/
theorem leBytes_of_zero (k : Nat) : leBytes k 0 = List.replicate k 0 := by
  induction k with
  | zero => simp [leBytes_zero]
  | succ k ih => rw [leBytes_succ]; simp [ih, List.replicate_succ]

theorem take_leBytes (a k n : Nat) (h : a ≤ k) : (leBytes k n).take a = leBytes a n := by
  obtain ⟨b, rfl⟩ := Nat.exists_eq_add_of_le h
  rw [leBytes_add, List.take_left' (leBytes_length a n)]

theorem two56 (k : Nat) : 256^k = 2^(8*k) := by
  rw [show (256 : Nat) = 2^8 by rfl, ← Nat.pow_mul]

end GV.Ser
