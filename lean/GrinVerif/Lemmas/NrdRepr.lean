import GrinVerif.Lemmas.NrdStore
/-! Representation predicate of the NRD index (`Model/NrdIndex.lean`) and the effect of every
primitive operation of linked_list.rs on it.

`Repr kv e l`: the records the store holds for excess `e` are exactly the encoding linked_list.rs
uses for the list `l` (most recent first): nothing for `[]`, `Single` for one element, `Multi` with
head / tail pointers and a `Head`, `Middle`…, `Tail` record per element with consistent `next` /
`prev` pointers otherwise; positions strictly decreasing.  Records under other positions (stale
`Tail` / `Head` records that `pop_pos` / `pop_pos_back` leave behind when a two-element list becomes
`Single`) are allowed: they exist in the real store and are never read. -/
namespace GV.Nrd
variable {ε : Type} [DecidableEq ε]

/-- positions strictly decreasing from head to tail -/
def Decr (l : List CommitPos) : Prop := l.Pairwise (fun a b => a.pos > b.pos)

/-- last element of the non-empty list `p :: r` -/
def lastP : CommitPos → List CommitPos → CommitPos
  | p, [] => p
  | _, q :: r => lastP q r

/-- the `ListWrapper` record of a list -/
def wrapperOf : List CommitPos → Option ListWrapper
  | [] => none
  | [p] => some (.single p)
  | p :: q :: r => some (.multi p.pos (lastP q r).pos)

/-- the record of element `p` given the positions of its neighbours (`none` = no neighbour) -/
def Cell (kv : KV ε) (e : ε) (pv : Option Nat) (p : CommitPos) (nx : Option Nat) : Prop :=
  match pv, nx with
  | none, none => True
  | none, some n => kv.getEntry e p.pos = some (.head p n)
  | some v, none => kv.getEntry e p.pos = some (.tail p v)
  | some v, some n => kv.getEntry e p.pos = some (.middle p n v)

/-- list segment: the records of the elements of `l`, the element before the segment being at
`pv`, the one after it at `nx` -/
def Seg (kv : KV ε) (e : ε) : Option Nat → List CommitPos → Option Nat → Prop
  | _, [], _ => True
  | pv, [p], nx => Cell kv e pv p nx
  | pv, p :: q :: r, nx => Cell kv e pv p (some q.pos) ∧ Seg kv e (some p.pos) (q :: r) nx

/-- the store represents `l` for excess `e` -/
def Repr (kv : KV ε) (e : ε) (l : List CommitPos) : Prop :=
  Decr l ∧ kv.getList e = wrapperOf l ∧ Seg kv e none l none

/-! ### lists -/

theorem Decr.tail {p : CommitPos} {l : List CommitPos} (h : Decr (p :: l)) : Decr l :=
  (List.pairwise_cons.mp h).2

theorem Decr.lt {p : CommitPos} {l : List CommitPos} (h : Decr (p :: l)) :
    ∀ x ∈ l, x.pos < p.pos := (List.pairwise_cons.mp h).1

theorem Decr.length_le {p : CommitPos} {l : List CommitPos} (h : Decr (p :: l)) : l.length ≤ p.pos := by
  induction l generalizing p with
  | nil => simp
  | cons q r ih =>
    have h1 := ih h.tail
    have h2 := h.lt q (by simp)
    simp only [List.length_cons]; omega

theorem Decr.cons {p : CommitPos} {l : List CommitPos} (h : Decr l) (hp : specPushOk l p = true) :
    Decr (p :: l) := by
  refine List.pairwise_cons.mpr ⟨?_, h⟩
  intro x hx
  cases l with
  | nil => cases hx
  | cons q r =>
    simp only [specPushOk, decide_eq_true_eq] at hp
    rcases List.mem_cons.mp hx with rfl | hx
    · exact hp
    · have := h.lt x hx; omega

theorem Decr.snoc {l : List CommitPos} {z : CommitPos} (h : Decr (l ++ [z])) :
    Decr l ∧ ∀ x ∈ l, z.pos < x.pos := by
  have := List.pairwise_append.mp h
  exact ⟨this.1, fun x hx => this.2.2 x hx z (by simp)⟩

theorem lastP_snoc (p : CommitPos) (r : List CommitPos) (z : CommitPos) : lastP p (r ++ [z]) = z := by
  induction r generalizing p with
  | nil => rfl
  | cons q r ih => exact ih q

theorem wrapperOf_cons_snoc (f : CommitPos) (t : List CommitPos) (z : CommitPos) :
    wrapperOf (f :: (t ++ [z])) = some (.multi f.pos z.pos) := by
  cases t with
  | nil => rfl
  | cons q u => simp only [List.cons_append, wrapperOf, lastP_snoc]

theorem eq_nil_or_snoc {α : Type} (l : List α) : l = [] ∨ ∃ t z, l = t ++ [z] := by
  rcases List.eq_nil_or_concat l with h | ⟨t, z, h⟩
  · exact Or.inl h
  · exact Or.inr ⟨t, z, by simpa [List.concat_eq_append] using h⟩

/-! ### cells and segments -/

theorem Cell.congr {kv kv' : KV ε} {e : ε} {pv nx : Option Nat} {p : CommitPos}
    (h : kv'.getEntry e p.pos = kv.getEntry e p.pos) (c : Cell kv e pv p nx) : Cell kv' e pv p nx := by
  unfold Cell at *
  cases pv <;> cases nx <;> simp_all

theorem Seg.congr {kv kv' : KV ε} {e : ε} {l : List CommitPos} {pv nx : Option Nat}
    (h : ∀ x ∈ l, kv'.getEntry e x.pos = kv.getEntry e x.pos) (s : Seg kv e pv l nx) :
    Seg kv' e pv l nx := by
  induction l generalizing pv with
  | nil => trivial
  | cons p r ih =>
    cases r with
    | nil => exact Cell.congr (h p (by simp)) s
    | cons q r =>
      exact ⟨Cell.congr (h p (by simp)) s.1, ih (fun x hx => h x (List.mem_cons_of_mem _ hx)) s.2⟩

/-- position of the last element of `l`, or `pv` for the empty list -/
def lastOr (l : List CommitPos) (pv : Option Nat) : Option Nat :=
  match l.getLast? with
  | some x => some x.pos
  | none => pv

@[simp] theorem lastOr_nil (pv : Option Nat) : lastOr [] pv = pv := rfl
@[simp] theorem lastOr_snoc (l : List CommitPos) (y : CommitPos) (pv : Option Nat) :
    lastOr (l ++ [y]) pv = some y.pos := by simp [lastOr]
theorem lastOr_cons (p : CommitPos) (l : List CommitPos) (pv : Option Nat) :
    lastOr (p :: l) pv = lastOr l (some p.pos) := by
  cases l with
  | nil => simp [lastOr]
  | cons q r =>
    cases h : (q :: r).getLast? with
    | none => simp at h
    | some x => simp [lastOr, List.getLast?_cons_cons, h]

theorem lastOr_cons_some (p : CommitPos) (l : List CommitPos) (pv : Option Nat) :
    ∃ w, lastOr (p :: l) pv = some w := by
  induction l generalizing p pv with
  | nil => exact ⟨p.pos, by simp [lastOr]⟩
  | cons q r ih => rw [lastOr_cons]; exact ih q _

theorem Seg.snoc (kv : KV ε) (e : ε) (pv nx : Option Nat) (l : List CommitPos) (z : CommitPos) :
    Seg kv e pv (l ++ [z]) nx ↔ Seg kv e pv l (some z.pos) ∧ Cell kv e (lastOr l pv) z nx := by
  induction l generalizing pv with
  | nil => simp [Seg]
  | cons p r ih =>
    cases r with
    | nil => simp [Seg, lastOr]
    | cons q r =>
      have := ih (some p.pos)
      simp only [List.cons_append] at this ⊢
      simp only [Seg, this, lastOr_cons, and_assoc]

theorem Repr.sameAt {kv kv' : KV ε} {e : ε} {l : List CommitPos} (h : SameAt kv kv' e)
    (r : Repr kv e l) : Repr kv' e l :=
  ⟨r.1, h.1.trans r.2.1, Seg.congr (fun x _ => h.2 x.pos) r.2.2⟩

theorem Repr.frame {kv kv' : KV ε} {e e' : ε} {l : List CommitPos} (h : Frame kv kv' e) (hne : e' ≠ e)
    (r : Repr kv e' l) : Repr kv' e' l := r.sameAt (h e' hne)

theorem repr_empty (e : ε) : Repr ({} : KV ε) e [] := ⟨List.Pairwise.nil, rfl, trivial⟩

/-! ### reading -/

theorem walkFrom_seg (kv : KV ε) (e : ε) (r : List CommitPos) (p : CommitPos) (pv : Option Nat)
    (fuel : Nat) (hs : Seg kv e pv (p :: r) none) (hpv : pv = none → r ≠ []) (hf : r.length < fuel) :
    walkFrom kv e fuel p.pos = p :: r := by
  induction r generalizing p pv fuel with
  | nil =>
    cases fuel with
    | zero => simp at hf
    | succ f =>
      cases pv with
      | none => exact absurd rfl (hpv rfl)
      | some v =>
        simp only [Seg, Cell] at hs
        simp [walkFrom, hs]
  | cons q r ih =>
    cases fuel with
    | zero => simp at hf
    | succ f =>
      have hrec := ih q (some p.pos) f hs.2 (by simp) (by simpa using hf)
      have hc := hs.1
      cases pv with
      | none => simp only [Cell] at hc; simp [walkFrom, hc, hrec]
      | some v => simp only [Cell] at hc; simp [walkFrom, hc, hrec]

/-- the list an observer reads by following the `next` pointers is the represented list -/
theorem abs_repr {kv : KV ε} {e : ε} {l : List CommitPos} (h : Repr kv e l) : abs kv e = l := by
  obtain ⟨hd, hw, hs⟩ := h
  match l, hd, hw, hs with
  | [], _, hw, _ => simp [abs, hw, wrapperOf]
  | [p], _, hw, _ => simp [abs, hw, wrapperOf]
  | p :: q :: r, hd, hw, hs =>
    simp only [abs, hw, wrapperOf]
    exact walkFrom_seg kv e (q :: r) p none _ hs (by simp) (by have := hd.length_le; omega)

/-- the represented list is unique -/
theorem Repr.unique {kv : KV ε} {e : ε} {l l' : List CommitPos} (h : Repr kv e l) (h' : Repr kv e l') :
    l = l' := (abs_repr h).symm.trans (abs_repr h')

theorem peekPos_repr {kv : KV ε} {e : ε} {l : List CommitPos} (h : Repr kv e l) :
    peekPos kv e = .ok l.head? := by
  obtain ⟨_, hw, hs⟩ := h
  match l, hw, hs with
  | [], hw, _ => simp [peekPos, hw, wrapperOf]
  | [p], hw, _ => simp [peekPos, hw, wrapperOf]
  | p :: q :: r, hw, hs =>
    have hc : kv.getEntry e p.pos = some (.head p q.pos) := hs.1
    simp [peekPos, hw, wrapperOf, hc]

theorem peekBack_repr {kv : KV ε} {e : ε} {l : List CommitPos} (h : Repr kv e l) :
    peekBack kv e = .ok l.getLast? := by
  obtain ⟨_, hw, hs⟩ := h
  match l, hw, hs with
  | [], hw, _ => simp [peekBack, hw, wrapperOf]
  | [p], hw, _ => simp [peekBack, hw, wrapperOf]
  | p :: q :: r, hw, hs =>
    rcases eq_nil_or_snoc (q :: r) with h0 | ⟨t, z, hz⟩
    · cases h0
    · rw [hz] at hw hs ⊢
      rw [wrapperOf_cons_snoc] at hw
      rw [← List.cons_append, Seg.snoc] at hs
      obtain ⟨w, hw'⟩ := lastOr_cons_some p t none
      have hc := hs.2
      rw [hw'] at hc
      simp only [Cell] at hc
      have hl : (p :: (t ++ [z])).getLast? = some z := by
        rw [← List.cons_append, List.getLast?_append]; simp
      simp [peekBack, hw, hc, hl]

/-! ### `push_pos` -/

theorem pushPos_repr {kv : KV ε} {e : ε} {l : List CommitPos} (np : CommitPos) (h : Repr kv e l)
    (hok : specPushOk l np = true) :
    ∃ kv', pushPos kv e np = ⟨kv', .ok ()⟩ ∧ Repr kv' e (np :: l) ∧ Frame kv kv' e := by
  have hd' : Decr (np :: l) := h.1.cons hok
  obtain ⟨hd, hw, hs⟩ := h
  match l, hd, hd', hw, hs, hok with
  | [], _, hd', hw, _, _ =>
    refine ⟨_, (by simp only [pushPos, hw, wrapperOf]; rfl), ⟨hd', by simp [wrapperOf], trivial⟩, ?_⟩
    intro e' hne
    exact ⟨by simp [Ne.symm hne], fun p => by simp⟩
  | [p], _, hd', hw, _, hok =>
    have hlt : p.pos < np.pos := by simpa [specPushOk] using hok
    have hnle : ¬ np.pos ≤ p.pos := by omega
    refine ⟨_, (by simp only [pushPos, hw, wrapperOf, hnle, if_false]; rfl), ⟨hd', by simp [wrapperOf, lastP], ?_⟩, ?_⟩
    · have hne : ¬ p.pos = np.pos := by omega
      simp [Seg, Cell, hne]
    · intro e' hne
      have hne' : ¬ e = e' := fun h => hne h.symm
      exact ⟨by simp [hne'], fun q => by simp [hne']⟩
  | p :: q :: r, hd, hd', hw, hs, hok =>
    have hlt : p.pos < np.pos := by simpa [specPushOk] using hok
    have hnle : ¬ np.pos ≤ p.pos := by omega
    have hc : kv.getEntry e p.pos = some (.head p q.pos) := hs.1
    refine ⟨_, (by simp only [pushPos, hw, wrapperOf, hnle, if_false, hc]; rfl), ⟨hd', by simp [wrapperOf, lastP], ?_⟩, ?_⟩
    · have hne : ¬ p.pos = np.pos := by omega
      refine ⟨by simp [Cell, hne], by simp [Cell], ?_⟩
      refine Seg.congr (fun x hx => ?_) hs.2
      have h1 := hd.lt x hx
      have h2 : ¬ p.pos = x.pos := by omega
      have h3 : ¬ np.pos = x.pos := by omega
      simp [h2, h3]
    · intro e' hne
      have hne' : ¬ e = e' := fun h => hne h.symm
      exact ⟨by simp [hne'], fun q => by simp [hne']⟩

theorem pushPos_repr_err {kv : KV ε} {e : ε} {l : List CommitPos} (np : CommitPos) (h : Repr kv e l)
    (hok : specPushOk l np = false) : pushPos kv e np = ⟨kv, .error .posNotIncreasing⟩ := by
  obtain ⟨_, hw, hs⟩ := h
  match l, hw, hs, hok with
  | [], _, _, hok => simp [specPushOk] at hok
  | [p], hw, _, hok =>
    have hle : np.pos ≤ p.pos := by simpa [specPushOk] using hok
    simp only [pushPos, hw, wrapperOf, hle, if_true]
  | p :: q :: r, hw, _, hok =>
    have hle : np.pos ≤ p.pos := by simpa [specPushOk] using hok
    simp only [pushPos, hw, wrapperOf, hle, if_true]

/-! ### `pop_pos` -/

theorem popPos_repr {kv : KV ε} {e : ε} {l : List CommitPos} (h : Repr kv e l) :
    ∃ kv', popPos kv e = ⟨kv', .ok l.head?⟩ ∧ Repr kv' e l.tail ∧ Frame kv kv' e := by
  obtain ⟨hd, hw, hs⟩ := h
  have frameOf : ∀ kv' : KV ε, (∀ e', ¬ e = e' → kv'.getList e' = kv.getList e' ∧
      ∀ p, kv'.getEntry e' p = kv.getEntry e' p) → Frame kv kv' e :=
    fun kv' hh e' hne => hh e' (fun h => hne h.symm)
  match l, hd, hw, hs with
  | [], _, hw, _ =>
    exact ⟨kv, by simp [popPos, hw, wrapperOf], ⟨List.Pairwise.nil, hw, trivial⟩, Frame.refl kv e⟩
  | [p], _, hw, _ =>
    refine ⟨_, (by simp only [popPos, hw, wrapperOf, List.head?]; rfl), ⟨List.Pairwise.nil, by simp [wrapperOf], trivial⟩, ?_⟩
    exact frameOf _ fun e' hne => ⟨by simp [hne], fun q => by simp⟩
  | [p, q], hd, hw, hs =>
    have hc : kv.getEntry e p.pos = some (.head p q.pos) := hs.1
    have hq : kv.getEntry e q.pos = some (.tail q p.pos) := hs.2
    refine ⟨_, (by simp only [popPos, hw, wrapperOf, hc, hq, List.head?]; rfl), ⟨hd.tail, by simp [wrapperOf], trivial⟩, ?_⟩
    exact frameOf _ fun e' hne => ⟨by simp [hne], fun x => by simp [hne]⟩
  | p :: q :: s :: r, hd, hw, hs =>
    have hc : kv.getEntry e p.pos = some (.head p q.pos) := hs.1
    have hq : kv.getEntry e q.pos = some (.middle q s.pos p.pos) := hs.2.1
    refine ⟨_, (by simp only [popPos, hw, wrapperOf, hc, hq, List.head?]; rfl), ⟨hd.tail, by simp [wrapperOf, lastP], ?_⟩, ?_⟩
    · refine ⟨by simp [Cell], ?_⟩
      refine Seg.congr (fun x hx => ?_) hs.2.2
      have h1 := hd.tail.lt x hx
      have h0 := hd.lt q (by simp)
      have h2 : ¬ p.pos = x.pos := by omega
      have h3 : ¬ q.pos = x.pos := by omega
      simp [h2, h3]
    · exact frameOf _ fun e' hne => ⟨by simp [hne], fun x => by simp [hne]⟩

/-! ### `pop_pos_back` -/

theorem popPosBack_repr_nil {kv : KV ε} {e : ε} (h : Repr kv e []) :
    popPosBack kv e = ⟨kv, .ok none⟩ := by
  simp [popPosBack, h.2.1, wrapperOf]

theorem popPosBack_repr_snoc {kv : KV ε} {e : ε} {front : List CommitPos} {z : CommitPos}
    (h : Repr kv e (front ++ [z])) :
    ∃ kv', popPosBack kv e = ⟨kv', .ok (some z)⟩ ∧ Repr kv' e front ∧ Frame kv kv' e := by
  obtain ⟨hd, hw, hs⟩ := h
  have frameOf : ∀ kv' : KV ε, (∀ e', ¬ e = e' → kv'.getList e' = kv.getList e' ∧
      ∀ p, kv'.getEntry e' p = kv.getEntry e' p) → Frame kv kv' e :=
    fun kv' hh e' hne => hh e' (fun h => hne h.symm)
  rcases eq_nil_or_snoc front with rfl | ⟨front', y, rfl⟩
  · -- single
    simp only [List.nil_append, wrapperOf] at hw
    refine ⟨_, (by simp only [popPosBack, hw]; rfl), ⟨List.Pairwise.nil, by simp [wrapperOf], trivial⟩, ?_⟩
    exact frameOf _ fun e' hne => ⟨by simp [hne], fun q => by simp⟩
  · obtain ⟨hd1, hz⟩ := hd.snoc
    have hzy : z.pos < y.pos := hz y (by simp)
    rw [Seg.snoc, lastOr_snoc] at hs
    have hcz : kv.getEntry e z.pos = some (.tail z y.pos) := hs.2
    cases front' with
    | nil =>
      -- two elements: the `Head` branch
      simp only [List.nil_append] at hw hs hd1 ⊢
      have hcy : kv.getEntry e y.pos = some (.head y z.pos) := hs.1
      have hw' : kv.getList e = some (.multi y.pos z.pos) := hw
      refine ⟨_, (by simp only [popPosBack, hw', hcz, hcy]; rfl), ⟨hd1, by simp [wrapperOf], trivial⟩, ?_⟩
      exact frameOf _ fun e' hne => ⟨by simp [hne], fun x => by simp [hne]⟩
    | cons f t =>
      have hw' : kv.getList e = some (.multi f.pos z.pos) := by
        rw [hw]; exact wrapperOf_cons_snoc f (t ++ [y]) z
      have hs1 := hs.1
      rw [Seg.snoc] at hs1
      obtain ⟨w, hwv⟩ := lastOr_cons_some f t none
      have hcy : kv.getEntry e y.pos = some (.middle y z.pos w) := by
        have := hs1.2; rw [hwv] at this; exact this
      refine ⟨_, (by simp only [popPosBack, hw', hcz, hcy]; rfl),
        ⟨hd1, by simp only [getList_putList, if_true, List.cons_append, wrapperOf_cons_snoc], ?_⟩, ?_⟩
      · rw [Seg.snoc, hwv]
        refine ⟨Seg.congr (fun x hx => ?_) hs1.1, by simp [Cell]⟩
        have h1 : y.pos < x.pos := (hd1.snoc).2 x hx
        have h2 : ¬ z.pos = x.pos := by omega
        have h3 : ¬ y.pos = x.pos := by omega
        simp [h2, h3]
      · exact frameOf _ fun e' hne => ⟨by simp [hne], fun x => by simp [hne]⟩

theorem popPosBack_repr {kv : KV ε} {e : ε} {l : List CommitPos} (h : Repr kv e l) :
    ∃ kv', popPosBack kv e = ⟨kv', .ok l.getLast?⟩ ∧ Repr kv' e l.dropLast ∧ Frame kv kv' e := by
  rcases eq_nil_or_snoc l with rfl | ⟨front, z, rfl⟩
  · exact ⟨kv, by simpa using popPosBack_repr_nil h, by simpa using h, Frame.refl kv e⟩
  · obtain ⟨kv', h1, h2, h3⟩ := popPosBack_repr_snoc h
    exact ⟨kv', by simpa using h1, by simpa using h2, h3⟩

/-! ### `rewind` -/

theorem rewindLoop_repr (e : ε) (r : Nat) (l : List CommitPos) (kv : KV ε) (fuel : Nat)
    (h : Repr kv e l) (hf : l.length < fuel) :
    ∃ kv', rewindLoop e r fuel kv = ⟨kv', .ok ()⟩ ∧ Repr kv' e (specRewind l r) ∧ Frame kv kv' e := by
  induction l generalizing kv fuel with
  | nil =>
    cases fuel with
    | zero => simp at hf
    | succ f =>
      exact ⟨kv, by simp [rewindLoop, peekPos_repr h], by simpa [specRewind] using h, Frame.refl kv e⟩
  | cons p t ih =>
    cases fuel with
    | zero => simp at hf
    | succ f =>
      by_cases hp : p.pos > r
      · obtain ⟨kv1, h1, h2, h3⟩ := popPos_repr h
        obtain ⟨kv2, g1, g2, g3⟩ := ih kv1 f h2 (by simpa using hf)
        refine ⟨kv2, ?_, ?_, h3.trans g3⟩
        · simp only [rewindLoop, peekPos_repr h, List.head?, hp, if_true, h1]; exact g1
        · simpa [specRewind, hp] using g2
      · refine ⟨kv, ?_, ?_, Frame.refl kv e⟩
        · simp only [rewindLoop, peekPos_repr h, List.head?, hp, if_false]
        · simpa [specRewind, hp] using h

theorem rewindFuel_repr {kv : KV ε} {e : ε} {l : List CommitPos} (h : Repr kv e l) :
    l.length < rewindFuel kv e := by
  unfold rewindFuel
  rw [peekPos_repr h]
  cases l with
  | nil => simp
  | cons p t => have := h.1.length_le; simp; omega

theorem rewind_repr {kv : KV ε} {e : ε} {l : List CommitPos} (r : Nat) (h : Repr kv e l) :
    ∃ kv', rewind kv e r = ⟨kv', .ok ()⟩ ∧ Repr kv' e (specRewind l r) ∧ Frame kv kv' e :=
  rewindLoop_repr e r l kv _ h (rewindFuel_repr h)

/-! ### pruning from the back -/

theorem pruneBackLoop_repr (e : ε) (c : Nat) (n : Nat) (l : List CommitPos) (hn : l.length = n)
    (kv : KV ε) (fuel : Nat) (h : Repr kv e l) (hf : l.length < fuel) :
    ∃ kv', pruneBackLoop e c fuel kv = ⟨kv', .ok ()⟩ ∧ Repr kv' e (specPrune l c) ∧ Frame kv kv' e := by
  induction n generalizing l kv fuel with
  | zero =>
    have : l = [] := List.eq_nil_of_length_eq_zero hn
    subst this
    cases fuel with
    | zero => simp at hf
    | succ f =>
      exact ⟨kv, by simp [pruneBackLoop, peekBack_repr h], by simpa [specPrune] using h, Frame.refl kv e⟩
  | succ n ih =>
    rcases eq_nil_or_snoc l with rfl | ⟨front, z, rfl⟩
    · simp at hn
    · cases fuel with
      | zero => simp at hf
      | succ f =>
        have hlen : front.length = n := by simpa using hn
        by_cases hp : z.pos < c
        · obtain ⟨kv1, h1, h2, h3⟩ := popPosBack_repr_snoc h
          obtain ⟨kv2, g1, g2, g3⟩ := ih front hlen kv1 f h2 (by simp at hf; omega)
          refine ⟨kv2, ?_, ?_, h3.trans g3⟩
          · simp only [pruneBackLoop, peekBack_repr h, List.getLast?_append, List.getLast?_singleton,
              Option.some_or, hp, if_true, h1]; exact g1
          · simpa [specPrune, hp] using g2
        · refine ⟨kv, ?_, ?_, Frame.refl kv e⟩
          · simp only [pruneBackLoop, peekBack_repr h, List.getLast?_append, List.getLast?_singleton,
              Option.some_or, hp, if_false]
          · simpa [specPrune, hp] using h

theorem pruneBack_repr {kv : KV ε} {e : ε} {l : List CommitPos} (c : Nat) (h : Repr kv e l) :
    ∃ kv', pruneBack kv e c = ⟨kv', .ok ()⟩ ∧ Repr kv' e (specPrune l c) ∧ Frame kv kv' e :=
  pruneBackLoop_repr e c l.length l rfl kv _ h (rewindFuel_repr h)

end GV.Nrd
