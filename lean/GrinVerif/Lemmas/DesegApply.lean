import GrinVerif.Lemmas.DesegState
/-! `apply_next_segments` / `next_desired_segments` keep the invariant of `Lemmas/DesegState.lean`;
the measure `remaining`. -/
namespace GV.Deseg
open GV GV.Pmmr GV.Seg

/-- what the proofs need to know about the four values `next_required_*_segment_index` return
(`next_values`): stated for variables, so that no term below contains the wrapped u64 arithmetic
of the real functions (a projection of `applyTree … (s.nextRequired …) …` makes `whnf` — of the
elaborator and of the kernel — unfold all of it) -/
structure NextOk (No Nk : Nat) (s : St) (vb vo vr vk : Option Nat) : Prop where
  b : ∀ o, Pos false s.hB (Dsg.expectedChunks No) s.bm.leaves o → vb = o
  o : ∀ k, Pos true s.hO No s.out.leaves (some k) → vo = some k
  r : ∀ k, Pos true s.hR No s.rp.leaves (some k) → vr = some k
  k : ∀ o, Pos true s.hK Nk s.ker.leaves o → vk = o

theorem nextOk_real (No Nk : Nat) (s : St) (hi : Inv No Nk s) :
    NextOk No Nk s (s.nextRequired .bitmap) (s.nextRequired .output) (s.nextRequired .rangeproof)
      (s.nextRequired .kernel) := by
  obtain ⟨nb, no, nr, nk⟩ := next_values No Nk s hi
  exact ⟨nb, no, nr, nk⟩

theorem applyWith_inv (No Nk : Nat) (s : St) (hi : Inv No Nk s) (vb vo vr vk : Option Nat)
    (hv : NextOk No Nk s vb vo vr vk) : Inv No Nk (s.applyNextWith vb vo vr vk) := by
  obtain ⟨nb, no, nr, nk⟩ := hv
  obtain ⟨par, bm, clean, out, rp, ker, noMis, fin⟩ := hi
  have hcs := chunks_small No par.NoS
  obtain ⟨ob, pb⟩ := bm.pos'
  have hnb := nb ob pb
  rw [hnb]
  cases ob with
  | some k =>
    simp only [St.applyNextWith]
    cases hr : removeFirstIdx s.bm.cache k with
    | none => exact ⟨par, bm, clean, out, rp, ker, noMis, fin⟩
    | some pr =>
      obtain ⟨c, rest⟩ := pr
      obtain ⟨hc, hci, hrest⟩ := removeFirstIdx_mem _ _ _ _ hr
      simp only
      have hbs : s.bmSize = mmr (Dsg.expectedChunks No) := par.bms
      have key := applyBitmapSeg_ok s.hB (Dsg.expectedChunks No) k s.bm c rest par.hB hcs bm pb
        (bm.own c hc) hci (clean c hc) hrest
      rw [← hbs] at key
      obtain ⟨a, b, c'⟩ := key
      refine ⟨par, a, ?_, out, rp, ker, noMis, ?_⟩
      · intro x hx
        have : x ∈ rest := by rw [← c']; exact hx
        exact clean x (hrest x this)
      · intro hf
        have := fin hf
        have := pb.lt_of_some
        omega
  | none =>
    simp only [St.applyNextWith]
    have ebm := pb.eq_of_none
    obtain ⟨oo, po⟩ := out.pos'
    obtain ⟨orr, pr⟩ := rp.pos'
    obtain ⟨ok', pk⟩ := ker.pos'
    have hso : s.outSize = mmr No := par.out
    have hsk : s.kerSize = mmr Nk := par.ker
    have ka := applyTree_ok true true s.hO No vo s.out out
      (reach_of_pos po (fun _ => par.hO1) _ (fun k hk => by subst hk; exact no k po))
    have kb := applyTree_ok true true s.hR No vr s.rp rp
      (reach_of_pos pr (fun _ => par.hR1) _ (fun k hk => by subst hk; exact nr k pr))
    have kc := applyTree_ok false true s.hK Nk vk s.ker ker
      (reach_of_pos pk (fun _ => par.hK1) _ (fun k hk => by subst hk; exact nk _ pk))
    rw [← hso] at ka kb
    rw [← hsk] at kc
    obtain ⟨a1, a2, _⟩ := ka
    obtain ⟨b1, b2, _⟩ := kb
    obtain ⟨c1, c2, _⟩ := kc
    refine ⟨par, bm, clean, a1, b1, c1, ?_, fun _ => ebm⟩
    show (s.misapplied || _ || _ || _) = false
    rw [noMis, a2, b2, c2]; rfl

/-- `apply_next_segments` keeps the invariant -/
theorem apply_inv (No Nk : Nat) (s : St) (hi : Inv No Nk s) : Inv No Nk s.applyNextSegments :=
  applyWith_inv No Nk s hi _ _ _ _ (nextOk_real No Nk s hi)

/-- `next_desired_segments` only sets `all_segments_complete` -/
theorem want_inv (No Nk : Nat) (s : St) (max : Nat) (hi : Inv No Nk s) :
    Inv No Nk (s.nextDesiredSegments max).1 := by
  obtain ⟨par, bm, clean, out, rp, ker, noMis, fin⟩ := hi
  exact ⟨par, bm, clean, out, rp, ker, noMis, fin⟩

/-! ## the measure -/

/-- `remaining` in the vocabulary of the invariant -/
theorem remaining_eq (No Nk : Nat) (s : St) (hi : Inv No Nk s) :
    s.remaining = (Dsg.expectedChunks No - s.bm.leaves) + (if s.bitmapCache then 0 else 1) +
      (No - s.out.leaves) + (No - s.rp.leaves) + (Nk - s.ker.leaves) := by
  have par := hi.par
  unfold St.remaining Tree.leaves
  have e1 : s.bmLeafCount = Dsg.expectedChunks No := par.bmc
  have e2 : s.outSize = mmr No := par.out
  have e3 : s.kerSize = mmr Nk := par.ker
  rw [e1, e2, e3, nLeaves_mmr, nLeaves_mmr]

/-- `check_progress` says "complete" exactly when nothing remains -/
theorem checkProgress_iff (No Nk : Nat) (s : St) (hi : Inv No Nk s) :
    s.checkProgress = true ↔ s.remaining = 0 := by
  rw [remaining_eq No Nk s hi]
  obtain ⟨par, bm, _, out, rp, ker, _, fin⟩ := hi
  have hb := bm.leaves_le
  have ho := out.leaves_le
  have hr := rp.leaves_le
  have hk := ker.leaves_le
  unfold St.checkProgress
  have e2 : s.outSize = mmr No := par.out
  have e3 : s.kerSize = mmr Nk := par.ker
  rw [e2, e3, out.size_eq, rp.size_eq, ker.size_eq]
  simp only [Bool.and_eq_true, beq_iff_eq, mmr_eq_iff]
  constructor
  · rintro ⟨⟨⟨h1, h2⟩, h3⟩, h4⟩
    have := fin h4
    rw [h4]; simp only [if_true]; omega
  · intro h
    by_cases hc : s.bitmapCache = true
    · rw [hc] at h; simp only [if_true] at h
      exact ⟨⟨⟨by omega, by omega⟩, by omega⟩, hc⟩
    · have : s.bitmapCache = false := by simpa using hc
      rw [this] at h; simp at h

/-- `apply_next_segments` never loses a leaf of any tree and never un-finalises the bitmap -/
theorem applyWith_mono (No Nk : Nat) (s : St) (hi : Inv No Nk s) (vb vo vr vk : Option Nat)
    (hv : NextOk No Nk s vb vo vr vk) :
    s.bm.leaves ≤ (s.applyNextWith vb vo vr vk).bm.leaves ∧
      s.out.leaves ≤ (s.applyNextWith vb vo vr vk).out.leaves ∧
      s.rp.leaves ≤ (s.applyNextWith vb vo vr vk).rp.leaves ∧
      s.ker.leaves ≤ (s.applyNextWith vb vo vr vk).ker.leaves ∧
      (s.bitmapCache = true → (s.applyNextWith vb vo vr vk).bitmapCache = true) := by
  obtain ⟨nb, no, nr, nk⟩ := hv
  obtain ⟨par, bm, clean, out, rp, ker, noMis, fin⟩ := hi
  have hcs := chunks_small No par.NoS
  obtain ⟨ob, pb⟩ := bm.pos'
  have hnb := nb ob pb
  rw [hnb]
  cases ob with
  | some k =>
    simp only [St.applyNextWith]
    cases hr : removeFirstIdx s.bm.cache k with
    | none => exact ⟨Nat.le_refl _, Nat.le_refl _, Nat.le_refl _, Nat.le_refl _, fun h => h⟩
    | some pr =>
      obtain ⟨c, rest⟩ := pr
      obtain ⟨hc, hci, hrest⟩ := removeFirstIdx_mem _ _ _ _ hr
      simp only
      have hbs : s.bmSize = mmr (Dsg.expectedChunks No) := par.bms
      have key := applyBitmapSeg_ok s.hB (Dsg.expectedChunks No) k s.bm c rest par.hB hcs bm pb
        (bm.own c hc) hci (clean c hc) hrest
      rw [← hbs] at key
      obtain ⟨_, b, _⟩ := key
      exact ⟨Nat.le_of_lt b, Nat.le_refl _, Nat.le_refl _, Nat.le_refl _, fun h => h⟩
  | none =>
    simp only [St.applyNextWith]
    obtain ⟨oo, po⟩ := out.pos'
    obtain ⟨orr, pr⟩ := rp.pos'
    obtain ⟨ok', pk⟩ := ker.pos'
    have hso : s.outSize = mmr No := par.out
    have hsk : s.kerSize = mmr Nk := par.ker
    have ka := applyTree_ok true true s.hO No vo s.out out
      (reach_of_pos po (fun _ => par.hO1) _ (fun k hk => by subst hk; exact no k po))
    have kb := applyTree_ok true true s.hR No vr s.rp rp
      (reach_of_pos pr (fun _ => par.hR1) _ (fun k hk => by subst hk; exact nr k pr))
    have kc := applyTree_ok false true s.hK Nk vk s.ker ker
      (reach_of_pos pk (fun _ => par.hK1) _ (fun k hk => by subst hk; exact nk _ pk))
    rw [← hso] at ka kb
    rw [← hsk] at kc
    exact ⟨Nat.le_refl _, ka.2.2, kb.2.2, kc.2.2, fun _ => trivial⟩

theorem apply_mono (No Nk : Nat) (s : St) (hi : Inv No Nk s) :
    s.bm.leaves ≤ s.applyNextSegments.bm.leaves ∧ s.out.leaves ≤ s.applyNextSegments.out.leaves ∧
      s.rp.leaves ≤ s.applyNextSegments.rp.leaves ∧ s.ker.leaves ≤ s.applyNextSegments.ker.leaves ∧
      (s.bitmapCache = true → s.applyNextSegments.bitmapCache = true) :=
  applyWith_mono No Nk s hi _ _ _ _ (nextOk_real No Nk s hi)

theorem apply_remaining_le (No Nk : Nat) (s : St) (hi : Inv No Nk s) :
    s.applyNextSegments.remaining ≤ s.remaining := by
  have hi' := apply_inv No Nk s hi
  obtain ⟨m1, m2, m3, m4, m5⟩ := apply_mono No Nk s hi
  rw [remaining_eq No Nk _ hi', remaining_eq No Nk s hi]
  have : (if s.applyNextSegments.bitmapCache = true then 0 else 1) ≤ (if s.bitmapCache = true then 0 else 1) := by
    by_cases hc : s.bitmapCache = true
    · rw [if_pos hc, if_pos (m5 hc)]; exact Nat.le_refl _
    · rw [if_neg hc]; split <;> omega
  omega

/-! ## progress -/

/-- "the segment the current phase needs next is there": in the bitmap phase the next bitmap
segment is cached; after it, the bitmap still has to be finalised, or for one of the three trees
the segment that comes next is cached -/
def Needed (No Nk : Nat) (s : St) : Prop :=
  (∃ k, Pos false s.hB (Dsg.expectedChunks No) s.bm.leaves (some k) ∧ ∃ c ∈ s.bm.cache, c.id.idx = k) ∨
  (Pos false s.hB (Dsg.expectedChunks No) s.bm.leaves none ∧
    (s.bitmapCache = false ∨
     (∃ k, Pos true s.hO No s.out.leaves (some k) ∧ ∃ c ∈ s.out.cache, c.id.idx = k) ∨
     (∃ k, Pos true s.hR No s.rp.leaves (some k) ∧ ∃ c ∈ s.rp.cache, c.id.idx = k) ∨
     (∃ k, Pos true s.hK Nk s.ker.leaves (some k) ∧ ∃ c ∈ s.ker.cache, c.id.idx = k)))

theorem applyWith_remaining_le (No Nk : Nat) (s : St) (hi : Inv No Nk s) (vb vo vr vk : Option Nat)
    (hv : NextOk No Nk s vb vo vr vk) :
    (s.applyNextWith vb vo vr vk).remaining ≤ s.remaining := by
  have hi' := applyWith_inv No Nk s hi vb vo vr vk hv
  obtain ⟨m1, m2, m3, m4, m5⟩ := applyWith_mono No Nk s hi vb vo vr vk hv
  rw [remaining_eq No Nk _ hi', remaining_eq No Nk s hi]
  have : (if (s.applyNextWith vb vo vr vk).bitmapCache = true then 0 else 1) ≤
      (if s.bitmapCache = true then 0 else 1) := by
    by_cases hc : s.bitmapCache = true
    · rw [if_pos hc, if_pos (m5 hc)]; exact Nat.le_refl _
    · rw [if_neg hc]; split <;> omega
  omega

/-- `apply_next_segments` makes progress as soon as the segment that comes next is cached -/
theorem applyWith_progress (No Nk : Nat) (s : St) (hi : Inv No Nk s) (vb vo vr vk : Option Nat)
    (hv : NextOk No Nk s vb vo vr vk) (hn : Needed No Nk s) :
    (s.applyNextWith vb vo vr vk).remaining < s.remaining := by
  have hi' := applyWith_inv No Nk s hi vb vo vr vk hv
  obtain ⟨m1, m2, m3, m4, m5⟩ := applyWith_mono No Nk s hi vb vo vr vk hv
  have hb' := hi'.bm.leaves_le
  have ho' := hi'.out.leaves_le
  have hr' := hi'.rp.leaves_le
  have hk' := hi'.ker.leaves_le
  rw [remaining_eq No Nk _ hi', remaining_eq No Nk s hi]
  have hle : (if (s.applyNextWith vb vo vr vk).bitmapCache = true then 0 else 1) ≤
      (if s.bitmapCache = true then 0 else 1) := by
    by_cases hc : s.bitmapCache = true
    · rw [if_pos hc, if_pos (m5 hc)]; exact Nat.le_refl _
    · rw [if_neg hc]; split <;> omega
  obtain ⟨nb, no, nr, nk⟩ := hv
  obtain ⟨par, bm, clean, out, rp, ker, noMis, fin⟩ := hi
  have hcs := chunks_small No par.NoS
  have hso : s.outSize = mmr No := par.out
  have hsk : s.kerSize = mmr Nk := par.ker
  rcases hn with ⟨k, pb, c0, hc0, hci0⟩ | ⟨pb, hrest⟩
  · -- bitmap phase: the next bitmap segment is applied
    have hnb := nb _ pb
    have key : s.bm.leaves < (s.applyNextWith vb vo vr vk).bm.leaves := by
      rw [hnb]
      simp only [St.applyNextWith]
      obtain ⟨c, rest, hr, _, _, _⟩ := removeFirstIdx_some s.bm.cache k ⟨c0, hc0, hci0⟩
      rw [hr]
      obtain ⟨hc, hci, hrest⟩ := removeFirstIdx_mem _ _ _ _ hr
      simp only
      have hbs : s.bmSize = mmr (Dsg.expectedChunks No) := par.bms
      have key := applyBitmapSeg_ok s.hB (Dsg.expectedChunks No) k s.bm c rest par.hB hcs bm pb
        (bm.own c hc) hci (clean c hc) hrest
      rw [← hbs] at key
      exact key.2.1
    omega
  · have hnb := nb _ pb
    rcases hrest with hbc | ⟨k, po, hc⟩ | ⟨k, pr, hc⟩ | ⟨k, pk, hc⟩
    · -- the bitmap is finalised
      have h1 : (s.applyNextWith vb vo vr vk).bitmapCache = true := by
        rw [hnb]; rfl
      rw [h1, hbc]
      simp only [if_true, Bool.false_eq_true, if_false]
      omega
    · have h1 : s.out.leaves < (s.applyNextWith vb vo vr vk).out.leaves := by
        rw [hnb, no k po]
        have := applyTree_progress true true s.hO No k s.out out (fun _ => par.hO1) po hc
        rw [← hso] at this
        exact this
      omega
    · have h1 : s.rp.leaves < (s.applyNextWith vb vo vr vk).rp.leaves := by
        rw [hnb, nr k pr]
        have := applyTree_progress true true s.hR No k s.rp rp (fun _ => par.hR1) pr hc
        rw [← hso] at this
        exact this
      omega
    · have h1 : s.ker.leaves < (s.applyNextWith vb vo vr vk).ker.leaves := by
        rw [hnb, nk _ pk]
        have := applyTree_progress false true s.hK Nk k s.ker ker (fun _ => par.hK1) pk hc
        rw [← hsk] at this
        exact this
      omega

theorem apply_progress (No Nk : Nat) (s : St) (hi : Inv No Nk s) (hn : Needed No Nk s) :
    s.applyNextSegments.remaining < s.remaining :=
  applyWith_progress No Nk s hi _ _ _ _ (nextOk_real No Nk s hi) hn

/-- while something remains, some segment (or the finalisation of the bitmap) comes next: the
premise of `apply_progress` only asks for that segment to be cached -/
theorem next_exists (No Nk : Nat) (s : St) (hi : Inv No Nk s) (hr : s.remaining ≠ 0) :
    (∃ k, Pos false s.hB (Dsg.expectedChunks No) s.bm.leaves (some k)) ∨
    (Pos false s.hB (Dsg.expectedChunks No) s.bm.leaves none ∧
      (s.bitmapCache = false ∨ (∃ k, Pos true s.hO No s.out.leaves (some k)) ∨
        (∃ k, Pos true s.hR No s.rp.leaves (some k)) ∨ (∃ k, Pos true s.hK Nk s.ker.leaves (some k)))) := by
  rw [remaining_eq No Nk s hi] at hr
  obtain ⟨par, bm, clean, out, rp, ker, noMis, fin⟩ := hi
  obtain ⟨ob, pb⟩ := bm.pos'
  cases ob with
  | some k => exact Or.inl ⟨k, pb⟩
  | none =>
    refine Or.inr ⟨pb, ?_⟩
    have eb := pb.eq_of_none
    by_cases hc : s.bitmapCache = true
    · obtain ⟨oo, po⟩ := out.pos'
      obtain ⟨orr, pr⟩ := rp.pos'
      obtain ⟨ok', pk⟩ := ker.pos'
      cases oo with
      | some k => exact Or.inr (Or.inl ⟨k, po⟩)
      | none =>
        cases orr with
        | some k => exact Or.inr (Or.inr (Or.inl ⟨k, pr⟩))
        | none =>
          cases ok' with
          | some k => exact Or.inr (Or.inr (Or.inr ⟨k, pk⟩))
          | none =>
            have e1 := po.eq_of_none
            have e2 := pr.eq_of_none
            have e3 := pk.eq_of_none
            rw [hc] at hr
            simp only [if_true] at hr
            omega
    · exact Or.inl (by simpa using hc)

/-! ## deliveries -/

theorem deliver_inv (No Nk : Nat) (s : St) (d : Delivery) (hi : Inv No Nk s)
    (hclean : d.kind = .bitmap → d.seg.extra = 0) : Inv No Nk (s.deliver d) :=
  add_inv No Nk s d.kind d.seg hi hclean

theorem deliverAll_inv (No Nk : Nat) : ∀ (ds : List Delivery) (s : St), Inv No Nk s →
    (∀ d ∈ ds, d.kind = .bitmap → d.seg.extra = 0) → Inv No Nk (s.deliverAll ds)
  | [], s, hi, _ => hi
  | d :: ds, s, hi, hc => by
    show Inv No Nk ((s.deliver d).deliverAll ds)
    exact deliverAll_inv No Nk ds _ (deliver_inv No Nk s d hi (hc d List.mem_cons_self))
      (fun x hx => hc x (List.mem_cons_of_mem _ hx))

theorem deliver_remaining (s : St) (d : Delivery) : (s.deliver d).remaining = s.remaining := by
  obtain ⟨h1, h2, h3, h4, h5, _⟩ := add_sizes s d.kind d.seg
  have hp : (s.deliver d).bmLeafCount = s.bmLeafCount ∧ (s.deliver d).outSize = s.outSize ∧
      (s.deliver d).kerSize = s.kerSize := by
    unfold St.deliver
    by_cases hok : (s.addSegment d.kind d.seg).2 = .ok
    · rw [addSegment_ok_state s d.kind d.seg hok]
      cases d.kind <;> exact ⟨rfl, rfl, rfl⟩
    · rw [addSegment_refused s d.kind d.seg hok]; exact ⟨rfl, rfl, rfl⟩
  unfold St.remaining
  show _ = _
  unfold St.deliver at hp ⊢
  rw [h1, h2, h3, h4, h5, hp.1, hp.2.1, hp.2.2]

theorem deliverAll_remaining : ∀ (ds : List Delivery) (s : St), (s.deliverAll ds).remaining = s.remaining
  | [], _ => rfl
  | d :: ds, s => by
    show ((s.deliver d).deliverAll ds).remaining = _
    rw [deliverAll_remaining ds, deliver_remaining]

end GV.Deseg
