import GrinVerif.Lemmas.TxAgg
/-! Lemmas for `deaggregate` (C12): aggregation of transactions that share nothing, the
`pushNew` loops, and the offset subtraction. -/
namespace GV.Tx
open List

theorem eq_nil_of_count_zero {l : List Nat} (h : ∀ c, l.count c = 0) : l = [] := by
  cases l with
  | nil => rfl
  | cons a t => have := h a; simp at this

/-- nothing to cut: if no input commitment occurs among the outputs, the merge keeps everything -/
theorem merged_no_cut (cb : Nat → Nat) {ins outs : List Nat} (h : ∀ x ∈ ins, x ∉ outs.map cb) :
    ((merged id cb ins outs).ins ~ ins) ∧ ((merged id cb ins outs).outs ~ outs) := by
  have hz : (merged id cb ins outs).cutIns = [] := by
    apply eq_nil_of_count_zero
    intro c
    have := (merged_count id cb ins outs c).2.2
    simp only [map_id] at this
    rw [this]
    by_cases hc : c ∈ ins
    · rw [count_eq_zero.2 (h c hc)]; simp
    · rw [count_eq_zero.2 hc]; simp
  have hz' : (merged id cb ins outs).cutOuts = [] := by
    have k : (merged id cb ins outs).cutIns.map id = (merged id cb ins outs).cutOuts.map cb :=
      cutMerge_cut_keys id cb _ _
    rw [hz] at k
    have := congrArg length k
    simp only [map_nil, length_nil, length_map] at this
    exact length_eq_zero_iff.1 this.symm
  have p := merged_perm id cb ins outs
  rw [hz, hz'] at p
  simpa using p

/-- `aggregateFull` of transactions that share nothing and have nothing to cut: always succeeds,
plain sorted union, offsets summed -/
theorem aggregateFull_disjoint {K : Keys} {txs : List Tx}
    (iI : InjOn K.ik (allIns K txs)) (iO : InjOn K.ok (allOuts txs))
    (ndI : (allIns K txs).Nodup) (ndO : (allOuts txs).Nodup)
    (hdis : ∀ x ∈ allIns K txs, x ∉ (allOuts txs).map outCommit) :
    aggregateFull K txs =
      .ok ⟨(toSecrets (allOffs txs)).sum % N, false, sortBy K.ik (allIns K txs), sortBy K.ok (allOuts txs),
        sortBy K.kk (allKers txs)⟩ := by
  obtain ⟨pI, pO⟩ := merged_no_cut outCommit hdis
  have eI := sortBy_congr (key := K.ik) (iI.of_perm pI.symm) pI
  have eO := sortBy_congr (key := K.ok) (iO.of_perm pO.symm) pO
  have d1 : adjDup (sortBy K.ik (merged id outCommit (allIns K txs) (allOuts txs)).ins) = false :=
    (adjDup_sortBy (iI.of_perm pI.symm)).2 (pI.nodup_iff.2 ndI)
  have d2 : adjDup (sortBy K.ok (merged id outCommit (allIns K txs) (allOuts txs)).outs) = false :=
    (adjDup_sortBy (iO.of_perm pO.symm)).2 (pO.nodup_iff.2 ndO)
  rw [aggregateFull_eq, d1, d2, sortBy_idem, sortBy_idem, eI, eO, sumKernelOffsets_nil]
  simp only [Bool.false_eq_true, if_false]

/-- the `if !other.contains(x) && !acc.contains(x) { acc.push(x) }` loop on a duplicate-free
vector is a filter -/
theorem pushNew_nodup (other : List Nat) : ∀ (xs acc : List Nat), xs.Nodup → (∀ x ∈ xs, x ∉ acc) →
    pushNew other acc xs = acc ++ xs.filter (fun x => !other.contains x)
  | [], acc, _, _ => by simp [pushNew]
  | x :: xs, acc, nd, hd => by
    have ndx := (nodup_cons.1 nd)
    have hxa : acc.contains x = false := by
      cases hc : acc.contains x
      · rfl
      · exact absurd (by simpa using hc) (hd x mem_cons_self)
    unfold pushNew
    by_cases ho : other.contains x = true
    · have ih := pushNew_nodup other xs acc ndx.2 (fun y hy => hd y (mem_cons_of_mem _ hy))
      simp only [ho, Bool.true_or, if_true, ih, filter_cons, Bool.not_true, Bool.false_eq_true, if_false]
    · have ho' : other.contains x = false := by simpa using ho
      have ih := pushNew_nodup other xs (acc ++ [x]) ndx.2 (fun y hy hm => by
        rcases mem_append.1 hm with hm | hm
        · exact hd y (mem_cons_of_mem _ hy) hm
        · have : y = x := by simpa using hm
          exact ndx.1 (this ▸ hy))
      simp only [ho', hxa, Bool.or_self, Bool.false_eq_true, if_false, ih, filter_cons, Bool.not_false,
        if_true, append_assoc, singleton_append]

/-- removing the first part from a duplicate-free concatenation leaves the second part -/
theorem filter_remove_left {p q other l : List Nat} (nd : (p ++ q).Nodup) (hl : l ~ p ++ q) (ho : other ~ p) :
    l.filter (fun x => !other.contains x) ~ q := by
  have h1 := hl.filter (fun x => !other.contains x)
  refine h1.trans ?_
  rw [filter_append]
  have dis : ∀ x ∈ q, x ∉ p := fun x hq hp => (nodup_append.1 nd).2.2 x hp x hq rfl
  have e1 : p.filter (fun x => !other.contains x) = [] := by
    apply filter_eq_nil_iff.2
    intro x hx
    have : x ∈ other := ho.mem_iff.2 hx
    simp [this]
  have e2 : q.filter (fun x => !other.contains x) = q := by
    apply filter_eq_self.2
    intro x hx
    have : x ∉ other := fun hm => dis x hx (ho.mem_iff.1 hm)
    simp [this]
  rw [e1, e2, nil_append]

/-- the offset subtraction of `deaggregate` in closed form: always the remainder's offset sum,
zero included (`mk` offset = subset offset ≠ 0 gives the zero offset, not an error) -/
theorem deagg_offset (m a SA SB : Nat) (hm : m = (SA + SB) % N) (ha : a = SA % N) :
    (if (toSecrets [m]).isEmpty && (toSecrets [a]).isEmpty then (.ok 0 : Except Err Nat)
      else blindSumOrZero (toSecrets [m]) (toSecrets [a])) = .ok (SB % N) := by
  have hN : 0 < N := by decide
  have hmN : m < N := hm ▸ Nat.mod_lt _ hN
  have haN : a < N := ha ▸ Nat.mod_lt _ hN
  rw [toSecrets_singleton_of_lt hmN, toSecrets_singleton_of_lt haN, blindSumOrZero_eq]
  by_cases m0 : m = 0
  · by_cases a0 : a = 0
    · have : SB % N = 0 := by
        simp only [N] at *
        omega
      simp [m0, a0, this]
    · have : (N - a % N) % N = SB % N := by
        simp only [N] at *
        omega
      simp [m0, a0, scalarSum, this]
  · by_cases a0 : a = 0
    · have : m % N = SB % N := by
        simp only [N] at *
        omega
      simp [m0, a0, scalarSum, this]
    · have : (m + (N - a % N)) % N = SB % N := by
        simp only [N] at *
        omega
      simp [m0, a0, scalarSum, this]

end GV.Tx
