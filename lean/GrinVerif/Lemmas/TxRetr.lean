import GrinVerif.Model.TxBlock
import GrinVerif.Lemmas.TxSort
/-! Lemmas about `Pool::retrieve_transactions` (`Model/TxBlock.lean: retrLoop`): what the two nested
loops with their `break 'outer` compute, as a prefix of the loop without the break. -/
namespace GV.Tx
open List

/-- the kernels of a transaction whose short id is asked for, in order -/
def matching (sid : Nat → Nat) (ids : List Nat) (ks : List Nat) : List Nat :=
  ks.filter (fun k => ids.contains (sid k))

/-- ids found by the loops without the `break`: pool order, kernel order -/
def foundAll (sid : Nat → Nat) (ids : List Nat) (pool : List Tx) : List Nat :=
  pool.flatMap fun tx => (matching sid ids tx.kernels).map sid

/-- transactions pushed by the loops without the `break`: each once per matching kernel -/
def pushedAll (sid : Nat → Nat) (ids : List Nat) (pool : List Tx) : List Tx :=
  pool.flatMap fun tx => replicate (matching sid ids tx.kernels).length tx

theorem take_len_add {α : Type} (l₁ l₂ : List α) {m : Nat} (h : l₁.length = m) (n : Nat) :
    (l₁ ++ l₂).take (m + n) = l₁ ++ l₂.take n := by
  subst h; exact take_length_add_append _

theorem retrKernels_cons_match {sid : Nat → Nat} {ids : List Nat} {tx : Tx} {r : Retr} {k : Nat} {ks : List Nat}
    (hm : ids.contains (sid k) = true) :
    retrKernels sid ids tx r (k :: ks) =
      if ((r.found ++ [sid k]).length == ids.length) = true
      then { txs := r.txs ++ [tx], found := r.found ++ [sid k], done := true }
      else retrKernels sid ids tx { r with txs := r.txs ++ [tx], found := r.found ++ [sid k] } ks := by
  simp only [retrKernels, hm, ↓reduceIte]

theorem retrKernels_cons_nomatch {sid : Nat → Nat} {ids : List Nat} {tx : Tx} {r : Retr} {k : Nat} {ks : List Nat}
    (hm : ids.contains (sid k) = false) :
    retrKernels sid ids tx r (k :: ks) =
      if (r.found.length == ids.length) = true then { r with done := true }
      else retrKernels sid ids tx r ks := by
  simp only [retrKernels, hm, Bool.false_eq_true, ↓reduceIte]

theorem matching_cons_match {sid : Nat → Nat} {ids : List Nat} {k : Nat} {ks : List Nat}
    (hm : ids.contains (sid k) = true) : matching sid ids (k :: ks) = k :: matching sid ids ks := by
  simp only [matching, filter_cons, hm, ↓reduceIte]

theorem matching_cons_nomatch {sid : Nat → Nat} {ids : List Nat} {k : Nat} {ks : List Nat}
    (hm : ids.contains (sid k) = false) : matching sid ids (k :: ks) = matching sid ids ks := by
  simp only [matching, filter_cons, hm, Bool.false_eq_true, ↓reduceIte]

theorem retrKernels_spec (sid : Nat → Nat) (ids : List Nat) (tx : Tx) :
    ∀ (ks : List Nat) (r : Retr), r.done = false →
      ∃ n, n ≤ (matching sid ids ks).length ∧
        (retrKernels sid ids tx r ks).found = r.found ++ ((matching sid ids ks).take n).map sid ∧
        (retrKernels sid ids tx r ks).txs = r.txs ++ replicate n tx ∧
        ((retrKernels sid ids tx r ks).done = false → n = (matching sid ids ks).length) ∧
        ((retrKernels sid ids tx r ks).done = true →
          (retrKernels sid ids tx r ks).found.length = ids.length)
  | [], r, hd => ⟨0, by simp [matching], by simp [retrKernels, matching], by simp [retrKernels],
      by simp [retrKernels, matching], by simp [retrKernels, hd]⟩
  | k :: ks, r, hd => by
    cases hm : ids.contains (sid k)
    · -- the kernel does not match
      rw [retrKernels_cons_nomatch hm, matching_cons_nomatch hm]
      cases hl : (r.found.length == ids.length)
      · simp only [Bool.false_eq_true, ↓reduceIte]
        exact retrKernels_spec sid ids tx ks r hd
      · simp only [↓reduceIte]
        exact ⟨0, by simp, by simp, by simp, by simp, fun _ => by simpa using hl⟩
    · rw [retrKernels_cons_match hm, matching_cons_match hm]
      cases hl : ((r.found ++ [sid k]).length == ids.length)
      · simp only [Bool.false_eq_true, ↓reduceIte]
        obtain ⟨n, hn, hf, ht, h0, h1⟩ :=
          retrKernels_spec sid ids tx ks { r with txs := r.txs ++ [tx], found := r.found ++ [sid k] } hd
        refine ⟨n + 1, by simp only [length_cons]; omega, ?_, ?_, ?_, h1⟩
        · rw [hf]; simp
        · rw [ht]; simp [replicate_succ, append_assoc]
        · intro h; rw [h0 h]; simp
      · simp only [↓reduceIte]
        exact ⟨1, by simp, by simp, by simp [replicate], by simp, fun _ => by simpa using hl⟩

/-- **the two loops compute a prefix of the break-free loops**: after the pool has been walked,
`found` / `txs` are the first `n` ids found / transactions pushed by the loops without the
`break`; if the `break` was not taken that is all of them, and if it was taken exactly as many ids
were found as were asked for. -/
theorem retrLoop_spec (sid : Nat → Nat) (ids : List Nat) :
    ∀ (pool : List Tx) (r : Retr), r.done = false →
      ∃ n, (retrLoop sid ids r pool).found = r.found ++ (foundAll sid ids pool).take n ∧
        (retrLoop sid ids r pool).txs = r.txs ++ (pushedAll sid ids pool).take n ∧
        ((retrLoop sid ids r pool).done = false → (foundAll sid ids pool).length ≤ n) ∧
        ((retrLoop sid ids r pool).done = true → (retrLoop sid ids r pool).found.length = ids.length)
  | [], r, hd => ⟨0, by simp [retrLoop, foundAll], by simp [retrLoop, pushedAll], by simp [foundAll],
      by simp [retrLoop, hd]⟩
  | tx :: rest, r, hd => by
    obtain ⟨n1, hn1, hf1, ht1, h01, h11⟩ := retrKernels_spec sid ids tx tx.kernels r hd
    have eF : foundAll sid ids (tx :: rest) = (matching sid ids tx.kernels).map sid ++ foundAll sid ids rest := by
      simp [foundAll]
    have eT : pushedAll sid ids (tx :: rest) =
        replicate (matching sid ids tx.kernels).length tx ++ pushedAll sid ids rest := by
      simp [pushedAll]
    by_cases hdone : (retrKernels sid ids tx r tx.kernels).done = true
    · have e : retrLoop sid ids r (tx :: rest) = retrKernels sid ids tx r tx.kernels := by
        simp [retrLoop, hdone]
      rw [e]
      refine ⟨n1, ?_, ?_, ?_, h11⟩
      · rw [hf1, eF, take_append_of_le_length (by simpa using hn1), map_take]
      · rw [ht1, eT, take_append_of_le_length (by simpa using hn1), take_replicate, Nat.min_eq_left hn1]
      · intro h; rw [hdone] at h; cases h
    · have hdone' : (retrKernels sid ids tx r tx.kernels).done = false := by simpa using hdone
      have e : retrLoop sid ids r (tx :: rest) = retrLoop sid ids (retrKernels sid ids tx r tx.kernels) rest := by
        simp [retrLoop, hdone']
      obtain ⟨n2, hf2, ht2, h02, h12⟩ := retrLoop_spec sid ids rest _ hdone'
      have en1 := h01 hdone'
      rw [e]
      refine ⟨(matching sid ids tx.kernels).length + n2, ?_, ?_, ?_, h12⟩
      · rw [hf2, hf1, eF, en1, take_length, append_assoc, take_len_add _ _ (by simp)]
      · rw [ht2, ht1, eT, en1, append_assoc, take_len_add _ _ (by simp)]
      · intro h
        have := h02 h
        rw [eF]; simp only [length_append, length_map]; omega

theorem mem_pushedAll {sid : Nat → Nat} {ids : List Nat} {pool : List Tx} {t : Tx} :
    t ∈ pushedAll sid ids pool ↔ t ∈ pool ∧ ∃ k ∈ t.kernels, ids.contains (sid k) = true := by
  simp only [pushedAll, mem_flatMap, mem_replicate]
  constructor
  · rintro ⟨tx, htx, hne, rfl⟩
    refine ⟨htx, ?_⟩
    obtain ⟨k, hk⟩ := exists_mem_of_length_pos (Nat.pos_of_ne_zero hne)
    exact ⟨k, (mem_filter.1 hk).1, (mem_filter.1 hk).2⟩
  · rintro ⟨htx, k, hk, hm⟩
    refine ⟨t, htx, ?_, rfl⟩
    apply Nat.ne_of_gt
    exact length_pos_of_mem (mem_filter.2 ⟨hk, hm⟩)

theorem mem_foundAll {sid : Nat → Nat} {ids : List Nat} {pool : List Tx} {i : Nat} :
    i ∈ foundAll sid ids pool ↔ i ∈ ids ∧ ∃ t ∈ pool, ∃ k ∈ t.kernels, sid k = i := by
  simp only [foundAll, mem_flatMap, mem_map, matching, mem_filter]
  constructor
  · rintro ⟨t, ht, k, ⟨hk, hm⟩, rfl⟩
    exact ⟨by simpa using hm, t, ht, k, hk, rfl⟩
  · rintro ⟨hi, t, ht, k, hk, rfl⟩
    exact ⟨t, ht, k, ⟨hk, by simpa using hi⟩, rfl⟩

theorem dedupAdjTx_sublist : ∀ (l : List Tx), (dedupAdjTx l).Sublist l
  | [] => by simp [dedupAdjTx]
  | [_] => by simp [dedupAdjTx]
  | a :: b :: t => by
    have ih := dedupAdjTx_sublist (b :: t)
    unfold dedupAdjTx
    split
    · exact ih.trans (sublist_cons_self _ _)
    · exact ih.cons_cons a

theorem mem_dedupAdjTx : ∀ {l : List Tx} {x : Tx}, x ∈ dedupAdjTx l ↔ x ∈ l
  | [], _ => by simp [dedupAdjTx]
  | [_], _ => by simp [dedupAdjTx]
  | a :: b :: t, x => by
    have ih := @mem_dedupAdjTx (b :: t) x
    unfold dedupAdjTx
    by_cases e : (a == b) = true
    · have : a = b := by simpa using e
      subst this
      simp only [e, if_true, ih, mem_cons]
      constructor
      · intro h; exact Or.inr h
      · rintro (h | h); exact Or.inl h; exact h
    · simp only [e, Bool.false_eq_true, if_false, mem_cons, ih]

theorem length_pushedAll (sid : Nat → Nat) (ids : List Nat) :
    ∀ (pool : List Tx), (pushedAll sid ids pool).length = (foundAll sid ids pool).length
  | [] => rfl
  | tx :: rest => by
    have ih := length_pushedAll sid ids rest
    simp only [pushedAll, foundAll, flatMap_cons, length_append, length_replicate, length_map] at ih ⊢
    omega

/-- all kernels of the pool, entry by entry -/
def poolKers (pool : List Tx) : List Nat := pool.flatMap (·.kernels)

theorem foundAll_eq (sid : Nat → Nat) (ids : List Nat) :
    ∀ (pool : List Tx), foundAll sid ids pool = (matching sid ids (poolKers pool)).map sid
  | [] => rfl
  | tx :: rest => by
    have ih := foundAll_eq sid ids rest
    simp only [foundAll, poolKers, matching, flatMap_cons, filter_append, map_append] at ih ⊢
    rw [ih]

theorem take_eq_self_of_length {α : Type} {l : List α} {n : Nat} (h : (l.take n).length = l.length) : l.take n = l := by
  apply take_of_length_le
  rw [length_take] at h
  omega

/-- `dedup` of a block of equal transactions followed by something that starts differently -/
theorem dedupAdjTx_replicate (a : Tx) : ∀ (m : Nat) (l : List Tx), l.head? ≠ some a →
    dedupAdjTx (replicate (m + 1) a ++ l) = a :: dedupAdjTx l
  | 0, [], _ => by simp [replicate, dedupAdjTx]
  | 0, b :: t, h => by
    have hne : (a == b) = false := by
      cases hb : (a == b)
      · rfl
      · exfalso; apply h; have : a = b := by simpa using hb
        simp [this]
    simp only [replicate, nil_append, cons_append]
    rw [dedupAdjTx]
    simp [hne]
  | m + 1, l, h => by
    have ih := dedupAdjTx_replicate a m l h
    have e : replicate (m + 1 + 1) a ++ l = a :: a :: (replicate m a ++ l) := by
      simp [replicate_succ]
    rw [e, dedupAdjTx]
    have e2 : a :: (replicate m a ++ l) = replicate (m + 1) a ++ l := by simp [replicate_succ]
    simp only [beq_self_eq_true, if_true]
    rw [e2, ih]

/-- with pairwise different selected entries, `dedup` of the pushed transactions is the selection -/
theorem dedupAdjTx_pushedAll (sid : Nat → Nat) (ids : List Nat) :
    ∀ (pool : List Tx),
      (pool.filter fun tx => (matching sid ids tx.kernels).length != 0).Pairwise (· ≠ ·) →
      dedupAdjTx (pushedAll sid ids pool) = pool.filter fun tx => (matching sid ids tx.kernels).length != 0
  | [], _ => by simp [pushedAll, dedupAdjTx]
  | tx :: rest, hp => by
    cases hm : (matching sid ids tx.kernels).length with
    | zero =>
      have hp' : (rest.filter fun tx => (matching sid ids tx.kernels).length != 0).Pairwise (· ≠ ·) := by
        simpa [filter_cons, hm] using hp
      have ih := dedupAdjTx_pushedAll sid ids rest hp'
      simp only [pushedAll, flatMap_cons, hm, replicate_zero, nil_append, filter_cons] at ih ⊢
      simpa using ih
    | succ m =>
      have hp' : tx ∉ (rest.filter fun tx => (matching sid ids tx.kernels).length != 0) ∧
          (rest.filter fun tx => (matching sid ids tx.kernels).length != 0).Pairwise (· ≠ ·) := by
        have : (filter (fun tx => (matching sid ids tx.kernels).length != 0) (tx :: rest)) =
            tx :: filter (fun tx => (matching sid ids tx.kernels).length != 0) rest := by
          simp [hm]
        rw [this, pairwise_cons] at hp
        exact ⟨fun h => hp.1 tx h rfl, hp.2⟩
      have ih := dedupAdjTx_pushedAll sid ids rest hp'.2
      have hd : (pushedAll sid ids rest).head? ≠ some tx := by
        intro h
        have hmem : tx ∈ pushedAll sid ids rest := mem_of_mem_head? h
        have hmem' : tx ∈ dedupAdjTx (pushedAll sid ids rest) := mem_dedupAdjTx.2 hmem
        rw [ih] at hmem'
        exact hp'.1 hmem'
      have e : pushedAll sid ids (tx :: rest) = replicate (m + 1) tx ++ pushedAll sid ids rest := by
        simp [pushedAll, hm]
      rw [e, dedupAdjTx_replicate tx m _ hd, ih]
      simp [hm]

end GV.Tx
