import GrinVerif.Lemmas.ChainBasic
/-! Characterisation lemmas for the steps of `Model/Chain.lean`: `validateHeader`, `processHeader`,
`precheck`, `processBlockSingle` — written once so that later proofs never unfold the nested
`if`/`match` chains again. -/
namespace GV.Chain

/-- header rules as a predicate on the definitions only (no node history) -/
def HdrOk (p : Params) (n : Node) (b : Blk) : Prop :=
  ∃ par pb, b.parent = some par ∧ n.blk par = some pb ∧ b.h = pb.h + 1 ∧
    b.ver = headerVersion p b.h ∧ pb.ts < b.ts ∧ hasTag b "hdr:" = none

theorem HdrOk_congr {n m : Node} (h : n.blks = m.blks) (p : Params) (b : Blk) :
    HdrOk p n b ↔ HdrOk p m b := by
  simp [HdrOk, blk_congr h]

theorem validateHeader_none_iff (p : Params) (n : Node) (b : Blk) :
    validateHeader p n b = none ↔
      HdrOk p n b ∧ ∃ par, b.parent = some par ∧ par ∈ n.headers := by
  unfold validateHeader HdrOk
  constructor
  · intro h
    split at h
    · simp at h
    · rename_i par hpar
      split at h
      · simp at h
      · rename_i hc
        split at h
        · simp at h
        · rename_i hh
          split at h
          · simp at h
          · rename_i hv
            split at h
            · simp at h
            · rename_i pb hpb
              split at h
              · simp at h
              · rename_i hts
                split at h
                · simp at h
                · rename_i htag
                  refine ⟨⟨par, pb, hpar, hpb, ?_, ?_, ?_, htag⟩, par, hpar, ?_⟩
                  · simp [Node.heightOf, hpb] at hh; exact hh
                  · simpa using hv
                  · omega
                  · simpa using hc
  · rintro ⟨⟨par, pb, hpar, hpb, hh, hv, hts, htag⟩, par', hpar', hmem⟩
    rw [hpar] at hpar'
    cases hpar'
    simp only [hpar, Node.heightOf, hpb, hh, htag]
    have : ¬ b.ts ≤ pb.ts := by omega
    simp [this, ← hh, ← hv, hmem]


/-- `check_known`: the full block is the head, the head's parent, or in the block store -/
def KnownFull (n : Node) (b : Blk) : Prop :=
  b.id = n.head ∨ some b.id = n.parentOf n.head ∨ b.id ∈ n.stored

instance (n : Node) (b : Blk) : Decidable (KnownFull n b) := by unfold KnownFull; infer_instance

def hdrUpdate (n : Node) (b : Blk) : Node :=
  { n with headers := if n.headers.contains b.id then n.headers else n.headers ++ [b.id],
           hhead := if b.work > n.workOf n.hhead then b.id else n.hhead }

theorem processHeader_known (p : Params) (n : Node) (b : Blk) (h : KnownFull n b) :
    processHeader p n b = .ok n := by
  unfold processHeader
  rw [if_pos]
  unfold KnownFull at h
  simpa using h

/-- inversion of a successful `processHeader` -/
theorem processHeader_ok_cases (p : Params) (n n' : Node) (b : Blk) (h : processHeader p n b = .ok n') :
    (n' = n ∧ (KnownFull n b ∨ (b.id ∈ n.headers ∧ ∃ par, b.parent = some par ∧ par ∈ n.headers))) ∨
    (¬ KnownFull n b ∧ validateHeader p n b = none ∧ n' = hdrUpdate n b) := by
  unfold processHeader at h
  split at h
  · rename_i hk
    left
    cases h
    refine ⟨rfl, Or.inl ?_⟩
    unfold KnownFull
    simpa using hk
  · rename_i hk
    have hk' : ¬ KnownFull n b := by unfold KnownFull; simpa using hk
    split at h
    · simp at h
    · rename_i par hpar
      split at h
      · simp at h
      · rename_i hc
        split at h
        · rename_i hs
          cases h
          left
          exact ⟨rfl, Or.inr ⟨by simpa using hs.1, par, hpar, by simpa using hc⟩⟩
        · split at h
          · simp at h
          · rename_i hv
            right
            cases h
            exact ⟨hk', hv, rfl⟩

/-- a failed `processHeader` -/
theorem processHeader_error_cases (p : Params) (n : Node) (b : Blk) (e : Err)
    (h : processHeader p n b = .error e) :
    ¬ KnownFull n b ∧ (b.parent = none ∨ (∃ par, b.parent = some par ∧ par ∉ n.headers) ∨
      validateHeader p n b = some e) := by
  unfold processHeader at h
  split at h
  · simp at h
  · rename_i hk
    have hk' : ¬ KnownFull n b := by unfold KnownFull; simpa using hk
    refine ⟨hk', ?_⟩
    split at h
    · left; assumption
    · rename_i par hpar
      split at h
      · rename_i hc
        right; left
        exact ⟨par, hpar, by simpa using hc⟩
      · split at h
        · simp at h
        · split at h
          · rename_i e' hv
            cases h
            right; right; exact hv
          · simp at h

/-- when the full block is not known, the parent header is, and the header passes validation,
processing succeeds -/
theorem processHeader_valid (p : Params) (n : Node) (b : Blk) (hk : ¬ KnownFull n b)
    (par : Nat) (hpar : b.parent = some par) (hmem : par ∈ n.headers)
    (hv : validateHeader p n b = none) :
    processHeader p n b = .ok n ∨ processHeader p n b = .ok (hdrUpdate n b) := by
  unfold processHeader
  rw [if_neg (by unfold KnownFull at hk; simpa using hk)]
  simp only [hpar]
  rw [if_neg (by simpa using hmem)]
  split
  · left; rfl
  · right; simp [hv, hdrUpdate]


theorem precheck_go (n1 : Node) (b : Blk) (par : Nat) (h : precheck n1 b = .go par) :
    b.parent = some par ∧ (par = n1.head ∨ par ∈ n1.stored) ∧ ¬ KnownFull n1 b := by
  unfold precheck at h
  split at h
  · simp at h
  · rename_i h1
    split at h
    · simp at h
    · rename_i h2
      split at h
      · simp at h
      · rename_i par' hpar
        split at h
        · simp at h
        · rename_i h3
          split at h
          · simp at h
          · rename_i h4
            split at h
            · simp at h
            · rename_i h5
              cases h
              refine ⟨hpar, ?_, ?_⟩
              · simp only [beq_iff_eq, List.contains_eq_mem, decide_eq_true_eq, Decidable.not_not] at h3
                exact h3
              · unfold KnownFull
                simp only [beq_iff_eq, not_or, List.contains_eq_mem, decide_eq_true_eq] at h4 h5
                simp only [not_or]
                exact ⟨h4.1, h4.2, h5⟩

theorem precheck_orphan (n1 : Node) (b : Blk) (h : precheck n1 b = .orphan) :
    ∃ par, b.parent = some par ∧ par ≠ n1.head ∧ par ∉ n1.stored := by
  unfold precheck at h
  split at h
  · simp at h
  · split at h
    · simp at h
    · split at h
      · simp at h
      · rename_i par' hpar
        split at h
        · rename_i h3
          exact ⟨par', hpar, by simpa using h3⟩
        · split at h
          · simp at h
          · split at h <;> simp at h

theorem precheck_go_of (n1 : Node) (b : Blk) (par : Nat) (hpar : b.parent = some par)
    (hp : par = n1.head ∨ par ∈ n1.stored) (hk : ¬ KnownFull n1 b) : precheck n1 b = .go par := by
  unfold KnownFull at hk
  have h1 : ¬ b.id = n1.head := fun h => hk (Or.inl h)
  have h2 : ¬ some b.id = n1.parentOf n1.head := fun h => hk (Or.inr (Or.inl h))
  have h3 : ¬ b.id ∈ n1.stored := fun h => hk (Or.inr (Or.inr h))
  unfold precheck
  simp [h1, h2, h3, hpar]
  intro a
  cases hp with
  | inl h => exact absurd h a
  | inr h => exact h

theorem precheck_reject (n1 : Node) (b : Blk) (e : Err) (h : precheck n1 b = .reject e) :
    KnownFull n1 b ∨ b.parent = none := by
  unfold precheck at h
  unfold KnownFull
  split at h
  · rename_i h1; left; left; simpa using h1
  · split at h
    · rename_i h2; left; right; right; simpa using h2.2
    · split at h
      · right; assumption
      · split at h
        · simp at h
        · split at h
          · rename_i h4
            simp only [beq_iff_eq] at h4
            rcases h4 with h4 | h4
            · left; left; exact h4
            · left; right; left; exact h4
          · split at h
            · rename_i h5; left; right; right; simpa using h5
            · simp at h

/-- a block that is already stored is never passed on to validation -/
theorem precheck_stored (n1 : Node) (b : Blk) (h : b.id ∈ n1.stored) : ∀ par, precheck n1 b ≠ .go par := by
  intro par hg
  exact (precheck_go n1 b par hg).2.2 (Or.inr (Or.inr h))


/-- complete case analysis of one processing step -/
theorem processBlockSingle_spec (p : Params) (n : Node) (b : Blk) :
    (∃ e, processHeader p n b = .error e ∧ processBlockSingle p n b = (n, .err e)) ∨
    (∃ n1, processHeader p n b = .ok n1 ∧
      ((∃ e, precheck n1 b = .reject e ∧ processBlockSingle p n b = (n1, .err e)) ∨
       (precheck n1 b = .orphan ∧ processBlockSingle p n b = (addOrphan n1 b, .err "Orphan")) ∨
       (∃ par, precheck n1 b = .go par ∧
         ((∃ e, checkBlock p n1 b par = .error e ∧ processBlockSingle p n b = (n1, .err e)) ∨
          (∃ s', checkBlock p n1 b par = .ok s' ∧ processBlockSingle p n b = storeBlock n1 b))))) := by
  unfold processBlockSingle
  split
  · rename_i e he
    left; exact ⟨e, he, rfl⟩
  · rename_i n1 h1
    right
    refine ⟨n1, h1, ?_⟩
    split
    · rename_i e he
      left; exact ⟨e, he, rfl⟩
    · rename_i ho
      right; left; exact ⟨ho, rfl⟩
    · rename_i par hg
      right; right
      refine ⟨par, hg, ?_⟩
      split
      · rename_i e he
        left; exact ⟨e, he, rfl⟩
      · rename_i s' hs
        right; exact ⟨s', hs, rfl⟩

end GV.Chain
