import GrinVerif.Lemmas.PoolCount
/-! `NetOK`: the counting core of `JointlyValid`; it depends only on the net number of instances
each commitment gains, so it is invariant under reordering and under replacing transactions by
their aggregate. -/
namespace GV.Pool

/-- counting part of `JointlyValid` -/
def NetOK (utxo : List Nat) (txs : List Tx) : Prop :=
  ∀ o, (allIns txs).count o ≤ (allOuts txs).count o + unspentCount utxo o ∧
       (allOuts txs).count o + unspentCount utxo o ≤ (allIns txs).count o + 1

theorem jointlyValid_iff (outs : List GV.Chain.OutDef) (utxo : List Nat) (txs : List Tx) :
    JointlyValid outs utxo txs ↔ NetOK utxo txs ∧ ∀ t ∈ txs, t.balanced outs = true :=
  ⟨fun h => ⟨fun o => ⟨h.covered o, h.noDup o⟩, h.balanced⟩,
   fun h => ⟨fun o => (h.1 o).1, fun o => (h.1 o).2, h.2⟩⟩

theorem netOK_nil (utxo : List Nat) : NetOK utxo [] := by
  intro o
  have := unspentCount_le utxo o
  simp; omega

/-- `NetOK` only looks at the counts -/
theorem netOK_congr {utxo : List Nat} {a b : List Tx}
    (hi : ∀ o, (allIns a).count o = (allIns b).count o)
    (ho : ∀ o, (allOuts a).count o = (allOuts b).count o) (h : NetOK utxo a) : NetOK utxo b := by
  intro o
  have := h o
  rw [hi o, ho o] at this
  exact this

theorem netOK_perm3 {utxo : List Nat} (a b c : List Tx) (h : NetOK utxo (a ++ b ++ c)) :
    NetOK utxo (a ++ c ++ b) := by
  refine netOK_congr ?_ ?_ h <;> intro o <;>
    simp only [allIns_append, allOuts_append, List.count_append] <;> omega

theorem netOK_swap {utxo : List Nat} (a b : List Tx) (h : NetOK utxo (a ++ b)) : NetOK utxo (b ++ a) := by
  refine netOK_congr ?_ ?_ h <;> intro o <;>
    simp only [allIns_append, allOuts_append, List.count_append] <;> omega

/-- a transaction list whose aggregate passes `validateRawTx` is `NetOK` -/
theorem netOK_of_aggregate {c : Ctx} {w : Weighting} {txs : List Tx} {a : Tx}
    (ha : aggregate txs = .ok a) (hv : validateRawTx c w a = none) : NetOK (utxoIds c) txs := by
  intro o
  obtain ⟨h1, h2, h3⟩ := validateRawTx_counts hv o
  have hn := aggregate_net ha o
  omega

/-- replacing a group of transactions by their aggregate (or back) does not change `NetOK` -/
theorem netOK_unfold_aggregate {utxo : List Nat} {pre grp : List Tx} {a : Tx}
    (ha : aggregate grp = .ok a) (h : NetOK utxo (pre ++ [a])) : NetOK utxo (pre ++ grp) := by
  intro o
  have hn := aggregate_net ha o
  have := h o
  simp only [allIns_append, allOuts_append, List.count_append, allIns_single, allOuts_single] at this ⊢
  omega

/-- removing transactions that neither feed nor are fed by the rest keeps `NetOK` -/
theorem netOK_remove {utxo : List Nat} {rest removed : List Tx}
    (h : NetOK utxo (rest ++ removed))
    (hout : ∀ o ∈ allOuts removed, o ∉ allIns rest ∧ o ∉ allIns removed)
    (hin : ∀ i ∈ allIns removed, i ∉ allOuts rest) : NetOK utxo rest := by
  intro o
  have := h o
  have hu := unspentCount_le utxo o
  simp only [allIns_append, allOuts_append, List.count_append] at this
  by_cases h1 : o ∈ allOuts removed
  · obtain ⟨a, b⟩ := hout o h1
    rw [List.count_eq_zero.mpr a, List.count_eq_zero.mpr b] at this
    rw [List.count_eq_zero.mpr a]
    omega
  · by_cases h2 : o ∈ allIns removed
    · have a := hin o h2
      rw [List.count_eq_zero.mpr a, List.count_eq_zero.mpr h1] at this
      rw [List.count_eq_zero.mpr a]
      omega
    · rw [List.count_eq_zero.mpr h1, List.count_eq_zero.mpr h2] at this
      omega

/-- with fresh output ids (no commitment is created twice, none duplicates an unspent one) the
counting form reads as the plain-language one: no output is spent twice and every input is
unspent at the head or created by a pool transaction -/
theorem netOK_plain {utxo : List Nat} {txs : List Tx} (h : NetOK utxo txs)
    (fresh : (allOuts txs).Nodup ∧ ∀ o ∈ allOuts txs, o ∉ utxo) :
    (allIns txs).Nodup ∧ ∀ i ∈ allIns txs, i ∈ utxo ∨ i ∈ allOuts txs := by
  constructor
  · rw [List.nodup_iff_count]
    intro o
    have := (h o).1
    have hc := List.nodup_iff_count.mp fresh.1 o
    by_cases hm : o ∈ allOuts txs
    · have : unspentCount utxo o = 0 := by simp [unspentCount, fresh.2 o hm]
      omega
    · have := List.count_eq_zero.mpr hm
      have := unspentCount_le utxo o
      omega
  · intro i hi
    have := (h i).1
    have hp : 0 < (allIns txs).count i := List.count_pos_iff.mpr hi
    by_cases hm : i ∈ allOuts txs
    · exact Or.inr hm
    · left
      have h0 := List.count_eq_zero.mpr hm
      by_cases hu : i ∈ utxo
      · exact hu
      · have : unspentCount utxo i = 0 := by simp [unspentCount, hu]
        omega

end GV.Pool
