import GrinVerif.Model.CrashAof
/-! Lemmas for the byte-level `AppendOnlyFile` model: the `SizeEntry` codec round-trips, fixed-size
chunk arithmetic on the size file, canonical offsets. -/
namespace GV.CrashAof

theorem foldl_be (l : Bytes) : ∀ acc : Nat,
    l.foldl (fun acc b => acc * 256 + b) acc = acc * 256 ^ l.length + l.foldl (fun acc b => acc * 256 + b) 0 := by
  induction l with
  | nil => intro acc; simp
  | cons a l ih =>
    intro acc
    simp only [List.foldl_cons, List.length_cons]
    rw [ih (acc * 256 + a), ih (0 * 256 + a)]
    simp [Nat.pow_succ, Nat.add_mul, Nat.mul_assoc, Nat.mul_comm 256, Nat.add_assoc]

theorem ofBE_cons (a : Nat) (l : Bytes) : ofBE (a :: l) = a * 256 ^ l.length + ofBE l := by
  unfold ofBE
  simp only [List.foldl_cons]
  rw [foldl_be l (0 * 256 + a)]
  simp

theorem beBytes_length (w n : Nat) : (beBytes w n).length = w := by simp [beBytes]

theorem beBytes_succ (w n : Nat) : beBytes (w + 1) n = (n / 256 ^ w % 256) :: beBytes w n := by
  unfold beBytes
  rw [List.range_succ_eq_map]
  simp only [List.map_cons, List.map_map]
  congr 1
  apply List.map_congr_left
  intro i _
  simp only [Function.comp]
  congr 3
  omega

theorem ofBE_beBytes (w n : Nat) : ofBE (beBytes w n) = n % 256 ^ w := by
  induction w with
  | zero => simp [beBytes, ofBE, Nat.mod_one]
  | succ w ih =>
    rw [beBytes_succ, ofBE_cons, beBytes_length, ih, Nat.pow_succ, Nat.mod_mul]
    rw [Nat.mul_comm (n / 256 ^ w % 256)]
    omega

theorem encEntry_length (e : Nat × Nat) : (encEntry e).length = 10 := by
  simp [encEntry, beBytes_length]

/-- decoding what `SizeEntry::write` wrote -/
def decEntry (b : Bytes) : Nat × Nat := (ofBE (b.take 8), ofBE ((b.drop 8).take 2))

theorem decEntry_enc (e : Nat × Nat) (h1 : e.1 < 2 ^ 64) (h2 : e.2 < 2 ^ 16) : decEntry (encEntry e) = e := by
  unfold decEntry encEntry
  have l8 : (beBytes 8 e.1).length = 8 := beBytes_length _ _
  have l2 : (beBytes 2 e.2).length = 2 := beBytes_length _ _
  rw [List.take_left' l8, List.drop_left' l8, List.take_of_length_le (by omega)]
  rw [ofBE_beBytes, ofBE_beBytes]
  have a : e.1 % 256 ^ 8 = e.1 := Nat.mod_eq_of_lt (by simpa using h1)
  have b : e.2 % 256 ^ 2 = e.2 := Nat.mod_eq_of_lt (by simpa using h2)
  rw [a, b]

/-- the bytes of a list of entries -/
def entBytes (L : List (Nat × Nat)) : Bytes := L.flatMap encEntry

theorem entBytes_length (L : List (Nat × Nat)) : (entBytes L).length = 10 * L.length := by
  induction L with
  | nil => rfl
  | cons a L ih => simp [entBytes, List.flatMap_cons, encEntry_length] at ih ⊢; omega

theorem entBytes_append (A B : List (Nat × Nat)) : entBytes (A ++ B) = entBytes A ++ entBytes B := by
  simp [entBytes]

theorem entBytes_drop (L : List (Nat × Nat)) : ∀ i, (entBytes L).drop (i * 10) = entBytes (L.drop i) := by
  induction L with
  | nil => intro i; simp [entBytes]
  | cons a L ih =>
    intro i
    cases i with
    | zero => simp
    | succ i =>
      have : (i + 1) * 10 = (encEntry a).length + i * 10 := by rw [encEntry_length]; omega
      simp only [entBytes, List.flatMap_cons, List.drop_succ_cons] at ih ⊢
      rw [this, List.drop_append, List.drop_eq_nil_of_le (by omega), List.nil_append]
      have e : (encEntry a).length + i * 10 - (encEntry a).length = i * 10 := by omega
      rw [e]
      exact ih i

theorem entBytes_take (L : List (Nat × Nat)) : ∀ i, (entBytes L).take (i * 10) = entBytes (L.take i) := by
  induction L with
  | nil => intro i; simp [entBytes]
  | cons a L ih =>
    intro i
    cases i with
    | zero => simp [entBytes]
    | succ i =>
      have : (i + 1) * 10 = (encEntry a).length + i * 10 := by rw [encEntry_length]; omega
      simp only [entBytes, List.flatMap_cons, List.take_succ_cons] at ih ⊢
      rw [this, List.take_append, List.take_of_length_le (by omega)]
      have e : (encEntry a).length + i * 10 - (encEntry a).length = i * 10 := by omega
      rw [e, ih i]

/-- a synced fixed-size file holding exactly `disk` -/
def syncedRaw (s : Nat) (disk : Bytes) (n : Nat) : Raw :=
  { s := s, disk := disk, buf := [], bsp := n, bak := 0, mmap := if disk.length = 0 then none else some disk }

/-- reading entry `i` of a size file whose map holds the entries `L` (whatever its buffer) -/
theorem readEntry_mapped (f : Raw) (L : List (Nat × Nat)) (i : Nat) (e : Nat × Nat)
    (hs : f.s = 10) (hm : f.mmap = some (entBytes L)) (hi : i < f.bsp) (hL : L[i]? = some e)
    (h1 : e.1 < 2 ^ 64) (h2 : e.2 < 2 ^ 16) : f.readEntry i = some e := by
  have hil : i < L.length := by
    rcases Nat.lt_or_ge i L.length with h | h
    · exact h
    · rw [List.getElem?_eq_none h] at hL; cases hL
  have hb : f.read i = encEntry e := by
    unfold Raw.read Raw.sizeUnsync Raw.readMmap
    have hq : i < f.bsp + f.buf.length / f.s := Nat.lt_of_lt_of_le hi (Nat.le_add_right _ _)
    rw [if_neg (Nat.not_le.mpr hq), if_pos hi, hm, hs]
    simp only [entBytes_length]
    have : ¬ (10 * L.length < i * 10 + 10) := by omega
    rw [if_neg this, entBytes_drop]
    have hd : L.drop i = e :: L.drop (i + 1) := by
      rw [List.drop_eq_getElem_cons hil]
      congr 1
      have := List.getElem?_eq_getElem hil
      rw [this] at hL; exact Option.some.inj hL
    rw [hd]
    simp only [entBytes, List.flatMap_cons]
    exact List.take_left' (encEntry_length e)
  unfold Raw.readEntry
  simp only [hb, encEntry_length]
  have := decEntry_enc e h1 h2
  unfold decEntry at this
  simp [this]

/-- canonical entries of a list of element encodings (`offset` = bytes before, `size` = own length) -/
def offs : List Bytes → Nat → List (Nat × Nat)
  | [], _ => []
  | e :: es, off => (off, e.length) :: offs es (off + e.length)

theorem offs_length (es : List Bytes) : ∀ off, (offs es off).length = es.length := by
  induction es with
  | nil => intro off; rfl
  | cons e es ih => intro off; simp [offs, ih]

theorem offs_append (A B : List Bytes) : ∀ off,
    offs (A ++ B) off = offs A off ++ offs B (off + A.flatten.length) := by
  induction A with
  | nil => intro off; simp [offs]
  | cons a A ih =>
    intro off
    simp only [List.cons_append, offs, List.flatten_cons, List.length_append, List.cons.injEq, true_and]
    rw [ih]; congr 2; omega

theorem offs_take (es : List Bytes) : ∀ (p off : Nat), offs (es.take p) off = (offs es off).take p := by
  induction es with
  | nil => intro p off; simp [offs]
  | cons e es ih =>
    intro p off
    cases p with
    | zero => simp [offs]
    | succ p => simp [offs, ih]

/-- entry `i` of the canonical entries: the bytes before element `i`, its own length -/
theorem offs_get (es : List Bytes) : ∀ (i off : Nat) (x : Bytes), es[i]? = some x →
    (offs es off)[i]? = some (off + (es.take i).flatten.length, x.length) := by
  induction es with
  | nil => intro i off x h; simp at h
  | cons e es ih =>
    intro i off x h
    cases i with
    | zero => simp at h; subst h; simp [offs]
    | succ i =>
      simp only [List.getElem?_cons_succ] at h
      simp only [offs, List.getElem?_cons_succ, List.take_succ_cons, List.flatten_cons, List.length_append]
      rw [ih i (off + e.length) x h]
      congr 2; omega

theorem flatten_take_prefix (es : List Bytes) (p : Nat) :
    es.flatten.take (es.take p).flatten.length = (es.take p).flatten := by
  have h : es.flatten = (es.take p).flatten ++ (es.drop p).flatten := by
    rw [← List.flatten_append, List.take_append_drop]
  rw [h]
  exact List.take_left

end GV.CrashAof
