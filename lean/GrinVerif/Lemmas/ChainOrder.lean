import GrinVerif.Lemmas.ChainValid
/-! Order independence of the final store and head for parents-first delivery histories. -/
namespace GV.Chain

theorem pbs_stored_sub (p : Params) (n : Node) (b : Blk) (s : Nat)
    (h : s ∈ (processBlockSingle p n b).1.stored) : s ∈ n.stored ∨ s = b.id := by
  rcases processBlockSingle_core p n b with ⟨_, hst, _⟩ | ⟨_, _, _, _, _, _, hst, _⟩
  · rw [hst] at h; exact Or.inl h
  · rw [hst] at h
    rcases List.mem_append.mp h with h | h
    · exact Or.inl h
    · right; simpa using h

theorem pbs_stored_mono (p : Params) (n : Node) (b : Blk) (s : Nat) (h : s ∈ n.stored) :
    s ∈ (processBlockSingle p n b).1.stored := by
  rcases processBlockSingle_core p n b with ⟨_, hst, _⟩ | ⟨_, _, _, _, _, _, hst, _⟩
  · rw [hst]; exact h
  · rw [hst]; exact List.mem_append_left _ h

theorem addOrphan_mem (n : Node) (b : Blk) (o : Nat) :
    o ∈ (addOrphan n b).orphans ↔ o ∈ n.orphans ∨ o = b.id := by
  unfold addOrphan
  by_cases hc : b.id ∈ n.orphans
  · simp only [List.contains_eq_mem, hc, decide_true, if_true]
    constructor
    · exact Or.inl
    · rintro (h | h)
      · exact h
      · subst h; exact hc
  · simp [hc]

theorem pbs_orphans_sub (p : Params) (n : Node) (b : Blk) (o : Nat)
    (h : o ∈ (processBlockSingle p n b).1.orphans) : o ∈ n.orphans ∨ o = b.id := by
  rcases processBlockSingle_spec p n b with ⟨e, _, hr⟩ | ⟨n1, h1, hr⟩
  · rw [hr] at h; exact Or.inl h
  · have hf := processHeader_frame p n n1 b h1
    rcases hr with ⟨e, _, hr⟩ | ⟨_, hr⟩ | ⟨par, _, ⟨e, _, hr⟩ | ⟨s', _, hr⟩⟩
    · rw [hr] at h; exact Or.inl (hf.2.2.2.1 ▸ h)
    · rw [hr] at h
      rcases (addOrphan_mem n1 b o).mp h with h | h
      · exact Or.inl (hf.2.2.2.1 ▸ h)
      · exact Or.inr h
    · rw [hr] at h; exact Or.inl (hf.2.2.2.1 ▸ h)
    · rw [hr] at h
      have : (storeBlock n1 b).1.orphans = n1.orphans := by unfold storeBlock; split <;> rfl
      rw [this] at h
      exact Or.inl (hf.2.2.2.1 ▸ h)

/-- a block that is not in the store of a closed store is not "known" -/
theorem not_knownFull (n : Node) (b : Blk) (hc : StoredClosed n) (hb : b.id ∉ n.stored) :
    ¬ KnownFull n b := by
  rintro (h | h | h)
  · exact hb (h ▸ hc.head)
  · unfold Node.parentOf at h
    cases hh : n.blk n.head with
    | none => rw [hh] at h; cases h
    | some hbk =>
      rw [hh] at h
      exact hb (hc.parent n.head hc.head hbk b.id hh h.symm)
  · exact hb h

/-- *settled* with respect to the set `D` of delivered block ids: the store holds only the genesis
and delivered blocks, holds every delivered block that is valid on its path, and the pool holds
only delivered blocks -/
structure Settled (p : Params) (n : Node) (D : List Nat) : Prop where
  sub : ∀ s ∈ n.stored, s = 0 ∨ s ∈ D
  complete : ∀ id, VOP p n id → id ∈ D → id ∈ n.stored
  pool : ∀ o ∈ n.orphans, o ∈ D

/-- re-processing a delivered block (a duplicate, or an orphan taken from the pool) keeps the
node settled -/
theorem settled_reprocess (p : Params) (n : Node) (D : List Nat) (b : Blk)
    (hd : b.id ∈ D) (hs : Settled p n D) : Settled p (processBlockSingle p n b).1 D := by
  have hdf := processBlockSingle_defs p n b
  refine ⟨?_, ?_, ?_⟩
  · intro s h
    rcases pbs_stored_sub p n b s h with h | h
    · exact hs.sub s h
    · exact Or.inr (h ▸ hd)
  · intro id hv hid
    exact pbs_stored_mono p n b id (hs.complete id ((VOP_congr hdf.2 hdf.1 p id).mp hv) hid)
  · intro o h
    rcases pbs_orphans_sub p n b o h with h | h
    · exact hs.pool o h
    · exact h ▸ hd

theorem preservedG_settled (p : Params) (D : List Nat) :
    PreservedG p (· ∈ D) (fun n => Inv p n ∧ Settled p n D) where
  single := fun n b hb hg h =>
    ⟨(preserved_inv p).single n b hb h.1, settled_reprocess p n D b hg h.2⟩
  shrink := fun n os hsub h =>
    ⟨(preserved_inv p).orphans n os h.1,
     ⟨h.2.sub, fun id hv hid => h.2.complete id (VOP_congr' (n := { n with orphans := os }) (m := n) rfl rfl p id hv) hid,
      fun o ho => h.2.pool o (hsub o ho)⟩⟩
  pool := fun _ h => h.2.pool

/-- delivering a block whose parent was delivered before (or is the genesis) keeps the node
settled, now with respect to the delivered set extended by the block -/
theorem settled_single (p : Params) (n : Node) (D : List Nat) (b : Blk) (hb : n.blk b.id = some b)
    (hpf : ∀ par, b.parent = some par → par = 0 ∨ par ∈ D)
    (hi : Inv p n) (hs : Settled p n D) : Settled p (processBlockSingle p n b).1 (b.id :: D) := by
  have hdf := processBlockSingle_defs p n b
  refine ⟨?_, ?_, ?_⟩
  · intro s h
    rcases pbs_stored_sub p n b s h with h | h
    · rcases hs.sub s h with h | h
      · exact Or.inl h
      · exact Or.inr (List.mem_cons_of_mem _ h)
    · exact Or.inr (h ▸ List.mem_cons_self ..)
  · intro id hv hid
    have hv' : VOP p n id := (VOP_congr hdf.2 hdf.1 p id).mp hv
    by_cases hin : id ∈ n.stored
    · exact pbs_stored_mono p n b id hin
    · rcases List.mem_cons.mp hid with h | h
      · subst h
        have h0 : b.id ≠ 0 := fun h => hin (h ▸ hi.2.closed.zero)
        obtain ⟨par, s', hpar, hvp, hok, hc⟩ := hv'.inv hb h0
        have hps : par ∈ n.stored := by
          rcases hpf par hpar with h | h
          · exact h ▸ hi.2.closed.zero
          · exact hs.complete par hvp h
        obtain ⟨n1, h1, hr⟩ := processBlockSingle_stores p n b par s'
          (not_knownFull n b hi.2.closed hin) hpar hps (hi.2.hdr.stored par hps) hok hc
        rw [hr, storeBlock_stored]
        simp
      · exact absurd (hs.complete id hv' h) hin
  · intro o h
    rcases pbs_orphans_sub p n b o h with h | h
    · exact List.mem_cons_of_mem _ (hs.pool o h)
    · exact h ▸ List.mem_cons_self ..

theorem settled_deliverBlock (p : Params) (n : Node) (D : List Nat) (b : Blk)
    (hb : n.blk b.id = some b) (hpf : ∀ par, b.parent = some par → par = 0 ∨ par ∈ D)
    (hi : Inv p n) (hs : Settled p n D) : Settled p (deliverBlock p n b).1 (b.id :: D) :=
  (deliverBlock_preservedG (preservedG_settled p (b.id :: D)) n b
    ⟨(preserved_inv p).single n b hb hi, settled_single p n D b hb hpf hi hs⟩).2

theorem settled_deliverHeader (p : Params) (n : Node) (D : List Nat) (b : Blk)
    (hs : Settled p n D) : Settled p (deliverHeader p n b).1 D := by
  unfold deliverHeader
  split
  · exact hs
  · rename_i n' hn
    have hf := processHeader_frame p n n' b hn
    exact ⟨fun s h => hs.sub s (hf.2.1 ▸ h),
      fun id hv hid => hf.2.1 ▸ hs.complete id ((VOP_congr hf.2.2.2.2 hf.2.2.1 p id).mp hv) hid,
      fun o h => hs.pool o (hf.2.2.2.1 ▸ h)⟩

/-- ids of the full blocks delivered by a history -/
def blockIds : List Event → List Nat
  | [] => []
  | .block b :: es => b.id :: blockIds es
  | .header _ :: es => blockIds es

/-- every full block is delivered after its parent (the genesis `0` counts as delivered);
`D` = ids delivered before this history. Duplicates, header events and invalid blocks are allowed
anywhere. -/
def ParentsFirst : List Nat → List Event → Prop
  | _, [] => True
  | D, .header _ :: es => ParentsFirst D es
  | D, .block b :: es => (∀ par, b.parent = some par → par = 0 ∨ par ∈ D) ∧ ParentsFirst (b.id :: D) es

theorem settled_run (p : Params) (es : List Event) : ∀ (n : Node) (D : List Nat),
    Registered n es → ParentsFirst D es → Inv p n → Settled p n D →
    ∃ D', (∀ id, id ∈ D' ↔ id ∈ blockIds es ∨ id ∈ D) ∧ Settled p (run p n es) D' := by
  induction es with
  | nil => intro n D _ _ _ hs; exact ⟨D, by simp [blockIds], hs⟩
  | cons e es ih =>
    intro n D hreg hpf hi hs
    rw [run_cons]
    have hreg' := hreg.tail p
    have hb := hreg e (List.mem_cons_self ..)
    have hi' := step_preserved (preserved_inv p) n e hb hi
    cases e with
    | header b =>
      obtain ⟨D', hD', h⟩ := ih (step p n (.header b)) D hreg' hpf hi' (settled_deliverHeader p n D b hs)
      exact ⟨D', by simpa [blockIds] using hD', h⟩
    | block b =>
      obtain ⟨D', hD', h⟩ := ih (step p n (.block b)) (b.id :: D) hreg' hpf.2 hi'
        (settled_deliverBlock p n D b hb hpf.1 hi hs)
      refine ⟨D', ?_, h⟩
      intro id
      rw [hD' id]
      simp only [blockIds, List.mem_cons]
      constructor
      · rintro (h | h | h)
        · exact Or.inl (Or.inr h)
        · exact Or.inl (Or.inl h)
        · exact Or.inr h
      · rintro ((h | h) | h)
        · exact Or.inr (Or.inl h)
        · exact Or.inl h
        · exact Or.inr (Or.inr h)

theorem settled_fresh (p : Params) (n : Node) (h : Fresh n) : Settled p n [] := by
  refine ⟨?_, ?_, ?_⟩
  · intro s hs
    rw [h.stored] at hs
    left; simpa using hs
  · intro _ _ hid; cases hid
  · intro o ho
    rw [h.orphans] at ho
    cases ho

/-- **the store after a parents-first history**: exactly the genesis and the delivered blocks
that are valid on their own path -/
theorem stored_after_parentsFirst (p : Params) (n : Node) (es : List Event) (hf : Fresh n)
    (hreg : Registered n es) (hpf : ParentsFirst [] es) (id : Nat) :
    id ∈ (run p n es).stored ↔ VOP p n id ∧ (id = 0 ∨ id ∈ blockIds es) := by
  obtain ⟨D', hD', hs⟩ := settled_run p es n [] hreg hpf (hf.inv p) (settled_fresh p n hf)
  have hi := run_preserved (preserved_inv p) n es hreg (hf.inv p)
  have hdf := run_defs p n es
  constructor
  · intro h
    refine ⟨(VOP_congr hdf.2 hdf.1 p id).mp (hi.2.valid id h), ?_⟩
    rcases hs.sub id h with h | h
    · exact Or.inl h
    · rcases (hD' id).mp h with h | h
      · exact Or.inr h
      · cases h
  · rintro ⟨hv, h | h⟩
    · exact h ▸ hi.2.closed.zero
    · exact hs.complete id ((VOP_congr hdf.2 hdf.1 p id).mpr hv) ((hD' id).mpr (Or.inl h))

end GV.Chain

namespace GV.Chain

/-- with `HeadMax`, a strict maximum of work among the stored blocks is the head -/
theorem head_of_unique_max (n : Node) (hm : HeadMax n) (hh : n.head ∈ n.stored) (w : Nat)
    (hw : w ∈ n.stored) (hu : ∀ s ∈ n.stored, s ≠ w → n.workOf s < n.workOf w) : n.head = w := by
  by_cases h : n.head = w
  · exact h
  · have h1 := hu n.head hh h
    have h2 := hm w hw
    omega

/-- **the head after a parents-first history**: if one delivered valid-on-path block has strictly
more work than every other one, it is the head -/
theorem head_after_parentsFirst (p : Params) (n : Node) (es : List Event) (hf : Fresh n)
    (hreg : Registered n es) (hpf : ParentsFirst [] es) (w : Nat)
    (hw : VOP p n w ∧ (w = 0 ∨ w ∈ blockIds es))
    (hu : ∀ id, VOP p n id → (id = 0 ∨ id ∈ blockIds es) → id ≠ w → n.workOf id < n.workOf w) :
    (run p n es).head = w := by
  have hi := run_preserved (preserved_inv p) n es hreg (hf.inv p)
  have hdf := run_defs p n es
  apply head_of_unique_max _ hi.1 hi.2.closed.head w
  · exact (stored_after_parentsFirst p n es hf hreg hpf w).mpr hw
  · intro s hs hne
    obtain ⟨hv, hd⟩ := (stored_after_parentsFirst p n es hf hreg hpf s).mp hs
    rw [workOf_congr hdf.1, workOf_congr hdf.1]
    exact hu s hv hd hne

end GV.Chain

namespace GV.Chain

/-- a chain of registered blocks hanging below `par`: each block's parent is the one before it -/
def Linked (n : Node) : Nat → List Blk → Prop
  | _, [] => True
  | par, b :: bs => n.blk b.id = some b ∧ b.parent = some par ∧ Linked n b.id bs

theorem blockIds_map_block (bs : List Blk) : blockIds (bs.map Event.block) = bs.map (·.id) := by
  induction bs with
  | nil => rfl
  | cons b bs ih => simp [blockIds, ih]

theorem Linked.registered {n : Node} : ∀ {par : Nat} {bs : List Blk}, Linked n par bs →
    Registered n (bs.map Event.block) := by
  intro par bs
  induction bs generalizing par with
  | nil => intro _ e he; cases he
  | cons b bs ih =>
    intro h e he
    rcases List.mem_cons.mp he with h1 | h1
    · subst h1; exact h.1
    · exact ih h.2.2 e h1

theorem Linked.parentsFirst {n : Node} : ∀ {par : Nat} {bs : List Blk} {D : List Nat},
    Linked n par bs → (par = 0 ∨ par ∈ D) → ParentsFirst D (bs.map Event.block) := by
  intro par bs
  induction bs generalizing par with
  | nil => intro D _ _; trivial
  | cons b bs ih =>
    intro D h hp
    refine ⟨?_, ih h.2.2 (Or.inr (List.mem_cons_self ..))⟩
    intro par' hpar'
    rw [h.2.1] at hpar'
    cases hpar'
    exact hp

end GV.Chain
