import GrinVerif.Model.KeysMnemonic
/-! Bit-list lemmas for `Props/C20Mnemonic.lean`: `bitsOf` / `ofBits` are inverse on `w`-bit values,
`chunksN` undoes `flatMap` of equal-length pieces. -/
namespace GV.Mnemonic
open List

theorem bitsOf_length : ∀ (w n : Nat), (bitsOf w n).length = w
  | 0, _ => rfl
  | w + 1, n => by simp [bitsOf, bitsOf_length w n]

theorem foldl_bits (l : List Bool) : ∀ (acc : Nat),
    l.foldl (fun acc b => 2 * acc + (if b then 1 else 0)) acc = acc * 2 ^ l.length + ofBits l := by
  induction l with
  | nil => intro acc; simp [ofBits]
  | cons b t ih =>
    intro acc
    unfold ofBits
    simp only [foldl_cons, length_cons]
    rw [ih, ih (2 * 0 + if b then 1 else 0)]
    simp only [Nat.mul_zero, Nat.zero_add, Nat.pow_succ, Nat.add_mul]
    rw [Nat.add_assoc]
    congr 1
    rw [Nat.mul_comm 2 acc, Nat.mul_assoc, Nat.mul_comm 2 (2 ^ t.length)]

theorem ofBits_cons (b : Bool) (t : List Bool) : ofBits (b :: t) = (if b then 1 else 0) * 2 ^ t.length + ofBits t := by
  have := foldl_bits t (2 * 0 + if b then 1 else 0)
  unfold ofBits at this ⊢
  simp only [foldl_cons]
  rw [this]
  simp

theorem ofBits_lt : ∀ (l : List Bool), ofBits l < 2 ^ l.length
  | [] => by simp [ofBits]
  | b :: t => by
    rw [ofBits_cons, length_cons, Nat.pow_succ]
    have := ofBits_lt t
    cases b <;> simp <;> omega

/-- `bitsOf w` reads only the `w` low bits -/
theorem bitsOf_add_mul (w : Nat) : ∀ (a r : Nat), r < 2 ^ w → bitsOf w (2 ^ w * a + r) = bitsOf w r := by
  induction w with
  | zero => intro a r _; rfl
  | succ w ih =>
    intro a r hr
    simp only [bitsOf]
    congr 1
    · rw [Nat.testBit_two_pow_mul_add a hr]; simp
    · -- split r = 2^w * (r / 2^w) + r % 2^w and the big term likewise
      have h1 : 2 ^ (w + 1) * a + r = 2 ^ w * (2 * a + r / 2 ^ w) + r % 2 ^ w := by
        have := Nat.div_add_mod r (2 ^ w)
        rw [Nat.pow_succ, Nat.mul_add]
        calc 2 ^ w * 2 * a + r = 2 ^ w * 2 * a + (2 ^ w * (r / 2 ^ w) + r % 2 ^ w) := by rw [this]
          _ = 2 ^ w * (2 * a) + 2 ^ w * (r / 2 ^ w) + r % 2 ^ w := by rw [Nat.mul_assoc, Nat.add_assoc]
      have h2 : r = 2 ^ w * (r / 2 ^ w) + r % 2 ^ w := (Nat.div_add_mod r (2 ^ w)).symm
      have hm : r % 2 ^ w < 2 ^ w := Nat.mod_lt _ (Nat.pow_pos (by decide))
      rw [h1, ih _ _ hm]
      conv => rhs; rw [h2]
      rw [ih _ _ hm]

theorem bitsOf_ofBits : ∀ (l : List Bool), bitsOf l.length (ofBits l) = l
  | [] => rfl
  | b :: t => by
    have hlt := ofBits_lt t
    rw [ofBits_cons, length_cons]
    simp only [bitsOf]
    have e : (if b then 1 else 0) * 2 ^ t.length + ofBits t = 2 ^ t.length * (if b then 1 else 0) + ofBits t := by
      rw [Nat.mul_comm]
    rw [e]
    congr 1
    · rw [Nat.testBit_two_pow_mul_add _ hlt]
      cases b <;> simp
    · rw [bitsOf_add_mul _ _ _ hlt]; exact bitsOf_ofBits t

theorem ofBits_bitsOf : ∀ (w n : Nat), n < 2 ^ w → ofBits (bitsOf w n) = n
  | 0, n, h => by simp at h; simp [bitsOf, ofBits, h]
  | w + 1, n, h => by
    simp only [bitsOf]
    rw [ofBits_cons, bitsOf_length]
    have hm : n % 2 ^ w < 2 ^ w := Nat.mod_lt _ (Nat.pow_pos (by decide))
    have hd : n = 2 ^ w * (n / 2 ^ w) + n % 2 ^ w := (Nat.div_add_mod n (2 ^ w)).symm
    have e1 : bitsOf w n = bitsOf w (n % 2 ^ w) := by
      conv => lhs; rw [hd]
      exact bitsOf_add_mul _ _ _ hm
    rw [e1, ofBits_bitsOf w _ hm]
    have hq : n / 2 ^ w < 2 := by
      apply Nat.div_lt_of_lt_mul
      rw [Nat.pow_succ] at h; exact h
    rw [Nat.testBit_eq_decide_div_mod_eq]
    generalize n / 2 ^ w = q at hq hd
    generalize n % 2 ^ w = r at hd
    have : q = 0 ∨ q = 1 := by omega
    rcases this with h0 | h1
    · subst h0; simp at hd ⊢; omega
    · subst h1; simp at hd ⊢; omega

/-! ### chunks -/

theorem chunksN_flatMap {α β : Type} (k : Nat) (f : α → List β) : ∀ (L : List α) (rest : List β),
    (∀ x ∈ L, (f x).length = k) → chunksN k L.length (L.flatMap f ++ rest) = L.map f
  | [], _, _ => rfl
  | x :: t, rest, h => by
    have hx := h x mem_cons_self
    simp only [length_cons, chunksN, flatMap_cons, map_cons, append_assoc]
    rw [take_left' hx, drop_left' hx]
    rw [chunksN_flatMap k f t rest (fun y hy => h y (mem_cons_of_mem _ hy))]

theorem chunksN_lengths {α : Type} (k : Nat) : ∀ (n : Nat) (l : List α), l.length = k * n →
    ∀ c ∈ chunksN k n l, c.length = k
  | 0, _, _ => by simp [chunksN]
  | n + 1, l, h => by
    intro c hc
    simp only [chunksN, mem_cons] at hc
    rcases hc with rfl | hc
    · rw [length_take]; rw [Nat.mul_succ] at h; omega
    · exact chunksN_lengths k n (l.drop k) (by rw [length_drop, h, Nat.mul_succ]; omega) c hc

theorem chunksN_flatten {α : Type} (k : Nat) : ∀ (n : Nat) (l : List α), l.length = k * n →
    (chunksN k n l).flatten = l
  | 0, l, h => by
    have : l = [] := by simpa using h
    simp [chunksN, this]
  | n + 1, l, h => by
    simp only [chunksN, flatten_cons]
    rw [chunksN_flatten k n (l.drop k) (by rw [length_drop, h, Nat.mul_succ]; omega)]
    exact take_append_drop k l

theorem chunksN_length {α : Type} (k : Nat) : ∀ (n : Nat) (l : List α), (chunksN k n l).length = n
  | 0, _ => rfl
  | n + 1, l => by simp [chunksN, chunksN_length k n]

end GV.Mnemonic
