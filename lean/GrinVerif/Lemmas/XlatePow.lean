import GrinVerif.Model.Basic
import GrinVerif.Model.Pow
import GrinVerif.Gen.FnsPrelude
/-! Helper lemmas for `Props/XlatePow.lean` (translated `core/src/pow/siphash.rs` = `Model/Pow.lean`):
bridges between the `Nat`-with-wrapping helpers of the translation (`addW shlW shrW subN notN idx`)
and the `UInt64` operations of the hand-written model. -/

namespace GV.Xlate
open GV GV.Gen.Fns GV.Pow

/-! ## `Nat.toUInt64` -/

theorem toNat_toUInt64 (n : Nat) : n.toUInt64.toNat = n % 2^64 := by
  show (UInt64.ofNat n).toNat = n % 2^64
  exact UInt64.toNat_ofNat'

theorem toNat_toUInt64_of_lt {n : Nat} (h : n < 2^64) : n.toUInt64.toNat = n := by
  rw [toNat_toUInt64]; exact Nat.mod_eq_of_lt h

theorem toUInt64_toNat (x : UInt64) : x.toNat.toUInt64 = x := by
  apply UInt64.toNat_inj.mp
  rw [toNat_toUInt64_of_lt x.toNat_lt]

/-! ## wrapping add, xor, and -/

theorem addW_toNat (a b : UInt64) : addW a.toNat b.toNat = (a + b).toNat := by
  rw [UInt64.toNat_add]; rfl

/-- `nonce0 + i` of `siphash_block` (`i` any u64) -/
theorem addW_toNat_nat (a : UInt64) (i : Nat) (h : i < 2^64) :
    addW a.toNat i = (a + i.toUInt64).toNat := by
  rw [← addW_toNat, toNat_toUInt64_of_lt h]

theorem xor_toNat (a b : UInt64) : a.toNat ^^^ b.toNat = (a ^^^ b).toNat :=
  (UInt64.toNat_xor a b).symm

/-! ## rotation

The Rust macro `rotl!(x, s)` is `x = (x << s) | (x >> (64 - s))`.  For the literal amounts `64 - s` is
computed in `u32` (`subN 32 64 s`), for `rot_e : u8` in `u8` (`subN 8 64 rot_e`, wrapping for
`rot_e > 64`); both shift amounts are then masked `% 64` by the u64 shift.  The model's
`rotl x r = (x <<< r) ||| (x >>> (64 - r))` subtracts in `UInt64` and Lean's `UInt64` shifts mask the
amount `% 64` too.  Since `64 ∣ 2^8`, `64 ∣ 2^32`, `64 ∣ 2^64` all three subtractions agree `% 64`,
hence code = model for EVERY amount, not only `< 64`. -/

/-- generic form: any two `Nat` shift amounts that agree `% 64` with the model's two amounts -/
theorem rotl_toNat_gen (x r : UInt64) (n m : Nat) (hn : n % 64 = r.toNat % 64)
    (hm : m % 64 = (64 - r).toNat % 64) :
    shlW x.toNat n ||| shrW x.toNat m = (rotl x r).toNat := by
  unfold rotl shlW shrW
  rw [UInt64.toNat_or, UInt64.toNat_shiftLeft, UInt64.toNat_shiftRight, hn, hm,
    Nat.shiftLeft_eq, Nat.shiftRight_eq_div_pow]

theorem sub64_toNat_mod (r : UInt64) : (64 - r).toNat % 64 = (64 - r.toNat % 64) % 64 := by
  have h := r.toNat_lt
  rw [UInt64.toNat_sub]
  have h64 : (64 : UInt64).toNat = 64 := rfl
  rw [h64]; omega

/-- the `rot_e : u8` path: `64 - rot_e` in wrapping u8 arithmetic.  Holds for every `r : Nat`
(in particular the whole u8 range `r < 256`; callers use 21 and 25). -/
theorem rotl_toNat_u8 (x : UInt64) (r : Nat) :
    shlW x.toNat r ||| shrW x.toNat (subN 8 64 r) = (rotl x r.toUInt64).toNat := by
  apply rotl_toNat_gen
  · rw [toNat_toUInt64]; omega
  · rw [sub64_toNat_mod, toNat_toUInt64]; unfold subN; omega

/-- the literal path: `64 - k` in u32 arithmetic (the literals 13, 16, 32, 17) -/
theorem rotl_toNat_u32 (x : UInt64) (r : Nat) :
    shlW x.toNat r ||| shrW x.toNat (subN 32 64 r) = (rotl x r.toUInt64).toNat := by
  apply rotl_toNat_gen
  · rw [toNat_toUInt64]; omega
  · rw [sub64_toNat_mod, toNat_toUInt64]; unfold subN; omega

theorem rotl13 (x : UInt64) : shlW x.toNat 13 ||| shrW x.toNat (subN 32 64 13) = (rotl x 13).toNat :=
  rotl_toNat_u32 x 13
theorem rotl16 (x : UInt64) : shlW x.toNat 16 ||| shrW x.toNat (subN 32 64 16) = (rotl x 16).toNat :=
  rotl_toNat_u32 x 16
theorem rotl32 (x : UInt64) : shlW x.toNat 32 ||| shrW x.toNat (subN 32 64 32) = (rotl x 32).toNat :=
  rotl_toNat_u32 x 32
theorem rotl17 (x : UInt64) : shlW x.toNat 17 ||| shrW x.toNat (subN 32 64 17) = (rotl x 17).toNat :=
  rotl_toNat_u32 x 17

/-! ## `Vec` indexing vs `Array` `[i]!` -/

/-- `nonce_hash[i]` of the translation (default 0 out of range) is the model's `hs[i]!` (default 0) -/
theorem idx_map_toNat (a : Array UInt64) (i : Nat) :
    idx (a.toList.map UInt64.toNat) i = (a[i]!).toNat := by
  unfold idx
  rw [Array.getElem!_eq_getD, List.getD_eq_getElem?_getD, List.getElem?_map, Array.getElem?_toList,
    Array.getD_eq_getD_getElem?]
  cases a[i]? <;> rfl

/-! ## masks of `siphash_block` -/

theorem and_not63_toNat (n : UInt64) :
    n.toNat &&& (2^64 - 1 - 63) = (n &&& ~~~(63 : UInt64)).toNat := by
  rw [UInt64.toNat_and, UInt64.toNat_not]; rfl

theorem and63_toNat (n : UInt64) : n.toNat &&& 63 = (n &&& 63).toNat := by
  rw [UInt64.toNat_and]; rfl

theorem and63_le (n : Nat) : n &&& 63 ≤ 63 := Nat.and_le_right

/-! ## the model's block digests as a list -/

/-- the chained digests `i, i+1, …, i+n-1` of one block starting from state `s`
(list form of `sipBlockDigests.go`) -/
def digestsL (nonce0 rotE : UInt64) : Sip → Nat → Nat → List UInt64
  | _, _, 0 => []
  | s, i, n+1 =>
    (s.hash (nonce0 + i.toUInt64) rotE).digest ::
      digestsL nonce0 rotE (s.hash (nonce0 + i.toUInt64) rotE) (i+1) n

theorem digestsL_length (nonce0 rotE : UInt64) : ∀ (n : Nat) (s : Sip) (i : Nat),
    (digestsL nonce0 rotE s i n).length = n := by
  intro n
  induction n with
  | zero => intro s i; rfl
  | succ n ih => intro s i; rw [digestsL, List.length_cons, ih]

theorem go_toList (nonce0 rotE : UInt64) : ∀ (fuel i : Nat) (s : Sip) (acc : Array UInt64),
    (sipBlockDigests.go nonce0 rotE i fuel s acc).toList = acc.toList ++ digestsL nonce0 rotE s i fuel := by
  intro fuel
  induction fuel with
  | zero => intro i s acc; rw [sipBlockDigests.go, digestsL, List.append_nil]
  | succ f ih =>
    intro i s acc
    rw [sipBlockDigests.go, ih, Array.toList_push, digestsL, List.append_assoc, List.singleton_append]

theorem sipBlockDigests_toList (k : Keys) (nonce0 rotE : UInt64) :
    (sipBlockDigests k nonce0 rotE).toList = digestsL nonce0 rotE k.sip 0 64 := by
  rw [sipBlockDigests, go_toList]; rfl

end GV.Xlate
