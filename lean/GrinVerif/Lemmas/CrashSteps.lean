import GrinVerif.Model.Crash
import GrinVerif.Lemmas.CrashPath
/-! The durable state after the first `k` steps, in closed form: plain extension of the old path
by one block (all 18 crash points), and a header acceptance onto an arbitrary fork (7 crash
points). -/
namespace GV.Crash

theorem leavesOf_append (P Q : List BlkInfo) : leavesOf (P ++ Q) = leavesOf P ++ leavesOf Q := by
  simp [leavesOf]

theorem unspentOf_snoc (P : List BlkInfo) (b : BlkInfo) : unspentOf (P ++ [b]) = applyU (unspentOf P) b := by
  simp [unspentOf]

theorem consistent_tip (P : List BlkInfo) : (consistent P).dbHead = tipOf P ∧ (consistent P).dbHHead = tipOf P := by
  simp [consistent, tipOf]

/-- closed form of the durable state `k` steps into accepting block `b` on top of `O` -/
def extState (O : List BlkInfo) (b : BlkInfo) (mvHH mvH : Bool) (k : Nat) : Durable :=
  { dbHead := if 17 ≤ k ∧ mvH = true then b.id else tipOf O,
    dbHHead := if 6 ≤ k ∧ mvHH = true then b.id else tipOf O,
    hdrHash := if 3 ≤ k then (O ++ [b]).map (·.id) else O.map (·.id),
    hdrData := if 5 ≤ k then (O ++ [b]).map (·.id) else O.map (·.id),
    outHash := if 9 ≤ k then leavesOf (O ++ [b]) else leavesOf O,
    outData := if 11 ≤ k then leavesOf (O ++ [b]) else leavesOf O,
    leaf := if 12 ≤ k then unspentOf (O ++ [b]) else unspentOf O,
    kerHash := if 14 ≤ k then (O ++ [b]).map (·.id) else O.map (·.id),
    kerData := if 16 ≤ k then (O ++ [b]).map (·.id) else O.map (·.id) }

theorem take_map_len (O : List BlkInfo) : List.take O.length (O.map (·.id)) = O.map (·.id) := by
  rw [← List.length_map (f := fun (x : BlkInfo) => x.id)]; exact List.take_length

theorem crashAfter_ge (t : Target) (d : Durable) (steps : List Step) (k : Nat) (h : steps.length ≤ k) :
    crashAfter t d steps k = crashAfter t d steps steps.length := by
  simp [crashAfter, List.take_of_length_le h]

theorem crashAfter_ext (t : Target) (O : List BlkInfo) (b : BlkInfo)
    (hN : t.newPath = O ++ [b]) (hF : t.forkLen = O.length) (k : Nat) :
    crashAfter t (consistent O) blockSteps k = extState O b t.movesHHead t.movesHead k := by
  obtain ⟨np, fl, m1, m2⟩ := t
  simp only at hN hF
  subst hN hF
  have key : ∀ j, j ≤ 17 →
      crashAfter ⟨O ++ [b], O.length, m1, m2⟩ (consistent O) blockSteps j = extState O b m1 m2 j := by
    intro j hj
    have : j = 0 ∨ j = 1 ∨ j = 2 ∨ j = 3 ∨ j = 4 ∨ j = 5 ∨ j = 6 ∨ j = 7 ∨ j = 8 ∨ j = 9 ∨ j = 10 ∨
        j = 11 ∨ j = 12 ∨ j = 13 ∨ j = 14 ∨ j = 15 ∨ j = 16 ∨ j = 17 := by omega
    rcases this with h | h | h | h | h | h | h | h | h | h | h | h | h | h | h | h | h | h <;> subst h <;>
      cases m1 <;> cases m2 <;>
      simp [crashAfter, blockSteps, applyStep, consistent, extState, Target.tip, Target.forkPath,
        take_map_len, tipOf]
  by_cases hk : k ≤ 17
  · exact key k hk
  · rw [crashAfter_ge _ _ _ _ (by simp [blockSteps]; omega)]
    have : blockSteps.length = 17 := rfl
    rw [this, key 17 (Nat.le_refl _)]
    simp only [extState]
    have h17 : 17 ≤ k := by omega
    have e : ∀ n, n ≤ 17 → (n ≤ k) = (n ≤ 17) := by intro n hn; simp [hn]; omega
    simp [e]

/-- closed form of the durable state `k` steps into accepting a header whose path is `N`, forking
from the old path `O` after `F` blocks -/
def hdrState (O N : List BlkInfo) (F : Nat) (mvHH : Bool) (k : Nat) : Durable :=
  { consistent O with
    dbHHead := if 6 ≤ k ∧ mvHH = true then tipOf N else tipOf O,
    hdrHash := if 3 ≤ k then N.map (·.id) else if 2 ≤ k then (O.map (·.id)).take F else O.map (·.id),
    hdrData := if 5 ≤ k then N.map (·.id) else if 4 ≤ k then (O.map (·.id)).take F else O.map (·.id) }

theorem crashAfter_hdr (t : Target) (O : List BlkInfo) (k : Nat) :
    crashAfter t (consistent O) headerSteps k = hdrState O t.newPath t.forkLen t.movesHHead k := by
  obtain ⟨np, fl, m1, m2⟩ := t
  have key : ∀ j, j ≤ 6 →
      crashAfter ⟨np, fl, m1, m2⟩ (consistent O) headerSteps j = hdrState O np fl m1 j := by
    intro j hj
    have : j = 0 ∨ j = 1 ∨ j = 2 ∨ j = 3 ∨ j = 4 ∨ j = 5 ∨ j = 6 := by omega
    rcases this with h | h | h | h | h | h | h <;> subst h <;> cases m1 <;>
      simp [crashAfter, headerSteps, applyStep, consistent, hdrState, Target.tip, tipOf]
  by_cases hk : k ≤ 6
  · exact key k hk
  · rw [crashAfter_ge _ _ _ _ (by simp [headerSteps]; omega)]
    have : headerSteps.length = 6 := rfl
    rw [this, key 6 (Nat.le_refl _)]
    simp only [hdrState]
    have e : ∀ n, n ≤ 6 → (n ≤ k) = (n ≤ 6) := by intro n hn; simp [hn]; omega
    simp [e]

/-- the first six steps of a block acceptance are the header acceptance -/
theorem crashAfter_block_le6 (t : Target) (d : Durable) (k : Nat) (hk : k ≤ 6) :
    crashAfter t d blockSteps k = crashAfter t d headerSteps k := by
  have : blockSteps.take k = headerSteps.take k := by
    have : k = 0 ∨ k = 1 ∨ k = 2 ∨ k = 3 ∨ k = 4 ∨ k = 5 ∨ k = 6 := by omega
    rcases this with h | h | h | h | h | h | h <;> subst h <;> rfl
  simp [crashAfter, this]

end GV.Crash
