import GrinVerif.Props.C07
/-! The last peak of an MMR of valid size is its last position: `1 + last (peaks (mmr n)) = mmr n`
(the expression `Desegmenter::calc_bitmap_mmr_sizes` used before commit 769a13f24 equals
`insertion_to_pmmr_index(leaf_count)` wherever it did not panic).  Core Lean only. -/
namespace GV.Seg
open GV GV.Pmmr

theorem greedySizes_rem (k : Nat) : ∀ (s pm : Nat), (greedySizes k s).2 = (greedy k s pm).2 := by
  induction k with
  | zero => intro s pm; simp [greedySizes, greedy]
  | succ k ih =>
    intro s pm
    simp only [greedySizes, greedy]
    split
    · exact ih _ _
    · exact ih _ _

theorem greedySizes_sum (k : Nat) : ∀ (s : Nat), (greedySizes k s).1.sum + (greedySizes k s).2 = s := by
  induction k with
  | zero => intro s; simp [greedySizes]
  | succ k ih =>
    intro s
    simp only [greedySizes]
    split
    · rename_i h
      have := ih (s - (2 ^ (k + 1) - 1))
      simp only [List.sum_cons]
      omega
    · exact ih s

theorem scanPeaks_last : ∀ (l : List Nat) (acc : Nat), l ≠ [] → (∀ x ∈ l, 0 < x) →
    (scanPeaks acc l).getLast? = some (acc + l.sum - 1) := by
  intro l
  induction l with
  | nil => intro acc h; exact absurd rfl h
  | cons x xs ih =>
    intro acc _ hpos
    cases xs with
    | nil => simp [scanPeaks]
    | cons y ys =>
      have := ih (acc + x) (by simp) (fun z hz => hpos z (List.mem_cons_of_mem _ hz))
      simp only [scanPeaks] at this ⊢
      rw [List.getLast?_cons_cons, this]
      simp only [List.sum_cons]
      congr 1
      omega

theorem greedySizes_pos (k : Nat) : ∀ (s : Nat), ∀ x ∈ (greedySizes k s).1, 0 < x := by
  induction k with
  | zero => intro s x hx; simp [greedySizes] at hx
  | succ k ih =>
    intro s x hx
    simp only [greedySizes] at hx
    split at hx
    · rcases List.mem_cons.1 hx with rfl | h
      · have : 0 < 2 ^ k := Nat.pow_pos (by omega)
        have hp : 2 ^ (k + 1) = 2 * 2 ^ k := by rw [Nat.pow_succ]; omega
        omega
      · exact ih _ x h
    · exact ih _ x hx

/-- the last peak of an MMR with `n ≥ 1` leaves is its last position -/
theorem last_peak (n : Nat) (hn : 1 ≤ n) : (peaks (mmr n)).getLast? = some (mmr n - 1) := by
  have hsz : mmr n ≠ 0 := by have := le_mmr n; omega
  have hc := GV.Props.C07.peakMapHeight_coord n 0 (Nat.zero_le _)
  simp only [Nat.add_zero] at hc
  unfold peakMapHeight at hc
  rw [if_neg hsz] at hc
  have hrem : (greedySizes (bitLen (mmr n)) (mmr n)).2 = 0 := by
    rw [greedySizes_rem _ _ 0, hc]
  have hsum := greedySizes_sum (bitLen (mmr n)) (mmr n)
  rw [hrem, Nat.add_zero] at hsum
  have hne : (greedySizes (bitLen (mmr n)) (mmr n)).1 ≠ [] := by
    intro h; rw [h] at hsum; simp at hsum; exact hsz hsum.symm
  unfold peaks peakSizesHeight
  simp only [if_neg hsz, hrem, if_true]
  rw [scanPeaks_last _ 0 hne (greedySizes_pos _ _), hsum, Nat.zero_add]

/-- `1 + peaks(insertion_to_pmmr_index(n)).last()` = `insertion_to_pmmr_index(n)` for `n ≥ 1`:
the old and the repaired expression of `calc_bitmap_mmr_sizes` agree wherever the old one did
not panic -/
theorem one_add_last_peak (n : Nat) (hn : 1 ≤ n) :
    (peaks (insertionToPmmrIndex n)).getLast?.map (1 + ·) = some (insertionToPmmrIndex n) := by
  unfold insertionToPmmrIndex
  rw [last_peak n hn]
  have := le_mmr n
  simp only [Option.map_some, Option.some.injEq]
  omega

end GV.Seg
