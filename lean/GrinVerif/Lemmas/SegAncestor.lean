import GrinVerif.Lemmas.SegNoPanic
/-! `first_unpruned_parent` climbs from the segment's last position to an ancestor only across
subtrees in which the bitmap has no bit set: the hash of a pruned subtree that the validation
accepts in place of a completely pruned segment covers spent leaves only.  Core Lean only. -/
namespace GV.Seg
open GV GV.Pmmr

variable {α H : Type}

/-- the leaf-index range `first_unpruned_parent` hands to `bitmap.range_cardinality` for the
subtree below `p0` -/
def subtreeLeafRange (p0 nLeavesTotal : Nat) : Nat × Nat :=
  (nLeaves (1 + bintreeLeftmost p0) - 1, min (nLeaves (1 + bintreeRightmost p0)) nLeavesTotal)

/-- the positions whose subtree the loop found empty before it stopped at `u - 1` -/
theorem fupLoop_ok (s : Segment α H) (b : Nat → Bool) (nl : Nat) :
    ∀ (fb : List (Nat × Nat)) (pos0 : Nat) (h : H) (u : Nat),
      fupLoop s b nl pos0 fb = .ok (h, u) →
      s.getHash (u - 1) = .ok h ∧
      (u = 1 + pos0 ∨
        ∃ x ∈ fb, u = 1 + x.1 ∧
          rangeCard b (subtreeLeafRange x.1 nl).1 (subtreeLeafRange x.1 nl).2 = 0) := by
  intro fb
  induction fb with
  | nil =>
    intro pos0 h u hr
    simp only [fupLoop] at hr
    cases hg : s.getHash pos0 with
    | ok h' =>
      rw [hg] at hr
      injection hr with hr; injection hr with h1 h2
      subst h1; subst h2
      exact ⟨by simpa using hg, Or.inl rfl⟩
    | err e => rw [hg] at hr; cases hr
    | panic => rw [hg] at hr; cases hr
  | cons x rest ih =>
    intro pos0 h u hr
    obtain ⟨p0, s0⟩ := x
    simp only [fupLoop] at hr
    cases hg : s.getHash pos0 with
    | ok h' =>
      rw [hg] at hr
      injection hr with hr; injection hr with h1 h2
      subst h1; subst h2
      exact ⟨by simpa using hg, Or.inl rfl⟩
    | panic => rw [hg] at hr; cases hr
    | err e =>
      rw [hg] at hr
      simp only at hr
      split at hr
      · rename_i hc
        obtain ⟨g, hcases⟩ := ih p0 h u hr
        refine ⟨g, Or.inr ?_⟩
        rcases hcases with he | ⟨y, hy, hu, hcard⟩
        · exact ⟨(p0, s0), List.mem_cons_self, he, hc⟩
        · exact ⟨y, List.mem_cons_of_mem _ hy, hu, hcard⟩
      · cases hr

/-- `range_cardinality == 0`: no bit of the (u32-truncated) range is set -/
theorem rangeCard_zero (b : Nat → Bool) (lo hi : Nat) (h : rangeCard b lo hi = 0) :
    ∀ i, lo % 2 ^ 32 ≤ i → i < hi % 2 ^ 32 → b i = false := by
  intro i h1 h2
  unfold rangeCard at h
  simp only [List.countP_eq_zero] at h
  have hm : i ∈ List.range' (lo % 2 ^ 32) (hi % 2 ^ 32 - lo % 2 ^ 32) := by
    rw [List.mem_range'_1]; omega
  have := h i hm
  simpa using this

end GV.Seg
