import GrinVerif.Lemmas.CodecRun
/-! The codec state machine never panics, never spins, and requests memory in proportion to what it
reads (C11 for `p2p/src/codec.rs`); used by `Props/C19.lean`. -/
namespace GV.Codec
open GV GV.Ser GV.Dec GV.Msg GV.Gen.Msg

variable {B H σ : Type}

/-- what `fill` guarantees: same state, the buffer holds at least `nl` bytes -/
theorem fill_some {ops : SockOps σ} {c c1 : Codec H} {s s1 : σ} {nl : Nat}
    (hrx : ∀ n s x s', ops.rx n s = some (x, s') → x.length = n)
    (h : fill ops c s nl = some (c1, s1)) : c1.state = c.state ∧ nl ≤ c1.buffer.length ∧ c.buffer.length ≤ c1.buffer.length := by
  unfold fill at h
  by_cases ht : nl - c.buffer.length > 0
  · simp only [ht, if_true] at h
    cases hr : ops.rx (nl - c.buffer.length) s with
    | none => simp [hr] at h
    | some p =>
      obtain ⟨x, s'⟩ := p
      have hx := hrx _ _ _ _ hr
      simp only [hr, Option.some.injEq, Prod.mk.injEq] at h
      have h1 := h.1
      subst h1
      refine ⟨rfl, ?_, ?_⟩
      · show nl ≤ (c.buffer ++ x).length
        rw [List.length_append, hx]; omega
      · show c.buffer.length ≤ (c.buffer ++ x).length
        rw [List.length_append]; omega
  · simp only [ht, if_false, Option.some.injEq, Prod.mk.injEq] at h
    have h1 := h.1
    subst h1
    exact ⟨rfl, by omega, Nat.le_refl _⟩

theorem flat_rx_len : ∀ n s x s', flatOps.rx n s = some (x, s') → x.length = n := by
  intro n s x s' h
  exact (GV.Dec.splitExact_len h).1

theorem frag_rx_len : ∀ n s x s', fragOps.rx n s = some (x, s') → x.length = n := by
  intro n s x s' h
  have hsp := readExact_spec n s
  by_cases hn : n ≤ s.flatten.length
  · obtain ⟨s'', e, _⟩ := hsp.1 hn
    have : fragOps.rx n s = readExact n s := rfl
    rw [this, e] at h
    simp only [Option.some.injEq, Prod.mk.injEq] at h
    rw [← h.1, List.length_take]; omega
  · have : fragOps.rx n s = readExact n s := rfl
    rw [this, hsp.2 (by omega)] at h
    simp at h

/-- **no arm of the state machine panics** once the buffer holds `next_len` bytes:
`split_to`/`advance` stay in range, `msg_len - 2` is only evaluated after two bytes were read (so
`msg_len ≥ 2`), `*left -= next_len` has `next_len ≤ left`, the header parser has no panic site -/
theorem stepState_no_panic (env : Env B H) (c : Codec H) (hb : nextLen env c.state ≤ c.buffer.length) :
    ∀ st c2 a, stepState env c (nextLen env c.state) ≠ .inl (.panic st, c2, a) := by
  intro st c2 a
  cases hs : c.state with
  | none =>
    have hnl : nextLen env (State.none : State H) = 11 := rfl
    rw [hs] at hb
    unfold stepState
    simp only [hs, Nat.not_lt.mpr hb, if_false]
    have hp := noPanic_decHeader env.net (c.buffer.take (nextLen env (State.none : State H)))
    cases hd : decHeader env.net (c.buffer.take (nextLen env (State.none : State H))) with
    | ok h r n => simp
    | err e n => simp
    | panic s n => simp [hd, Outcome.isPanic] at hp
  | header h =>
    rw [hs] at hb
    cases h with
    | known t len =>
      unfold stepState
      simp only [hs, Nat.not_lt.mpr hb, if_false]
      by_cases ht : t = T_Headers
      · subst ht
        simp only [if_true]
        cases hr : readU16 (c.buffer.take (nextLen env (State.header (.known T_Headers len) : State H))) with
        | error e => simp
        | ok p =>
          obtain ⟨items, r⟩ := p
          have hl := GV.Dec.readU16_len hr
          have hnl : nextLen env (State.header (.known T_Headers len) : State H) = min len 2 := by
            simp [nextLen, HEADERS_COUNT_LEN]
          rw [List.length_take, hnl] at hl
          have : ¬ len < 2 := by omega
          simp only [this, if_false]
          split <;> simp
      · simp only [ht, if_false]
        cases decodeMessage env t (c.buffer.take (nextLen env (State.header (.known t len) : State H))) <;> simp
    | unknown len t =>
      unfold stepState
      simp only [hs, Nat.not_lt.mpr hb, if_false]
      simp
  | blockHeaders bl il hs' =>
    unfold stepState
    simp only [hs]
    split
    · simp
    · cases env.decItem c.buffer with
      | error e => simp
      | ok p =>
        obtain ⟨h, rest⟩ := p
        simp only
        split
        · split
          · split <;> simp
          · simp
        · simp
  | attachment left =>
    rw [hs] at hb
    have hnl : nextLen env (State.attachment left : State H) = min left ATTACHMENT_CHUNK := rfl
    unfold stepState
    simp only [hs, Nat.not_lt.mpr hb, if_false]
    have : ¬ left < nextLen env (State.attachment left : State H) := by rw [hnl]; omega
    simp [this]

/-- **`Codec::read` never panics**, whatever the bytes, the fragmentation and the state it starts from -/
theorem readLoop_no_panic (env : Env B H) (ops : SockOps σ)
    (hrx : ∀ n s x s', ops.rx n s = some (x, s') → x.length = n) :
    ∀ (fuel : Nat) (c : Codec H) (s : σ) (br al : Nat) (st : Site), (readLoop env ops fuel c s br al).res ≠ .panic st := by
  intro fuel
  induction fuel with
  | zero => intro c s br al st; simp [readLoop]
  | succ fuel ih =>
    intro c s br al st
    simp only [readLoop]
    cases hf : fill ops c s (nextLen env c.state) with
    | none => simp
    | some p =>
      obtain ⟨c1, s1⟩ := p
      obtain ⟨hst, hbuf, _⟩ := fill_some hrx hf
      simp only
      cases hstep : stepState env c1 (nextLen env c.state) with
      | inl r =>
        obtain ⟨r, c2, a⟩ := r
        simp only
        intro hr
        subst hr
        rw [← hst] at hstep hbuf
        exact stepState_no_panic env c1 hbuf st c2 a hstep
      | inr r => obtain ⟨c2, a⟩ := r; exact ih c2 s1 _ _ st

/-! ### no hang -/

/-- the only thing a batch in progress must satisfy: fewer than 32 headers collected so far -/
def WFc (c : Codec H) : Prop :=
  match c.state with
  | .blockHeaders _ _ hs => hs.length < 32
  | _ => True

/-- iterations a `read` can still need from this state -/
def rank (c : Codec H) : Nat :=
  match c.state with
  | .none => 34
  | .header _ => 33
  | .blockHeaders _ _ hs => 32 - hs.length
  | .attachment _ => 1

theorem rank_pos (c : Codec H) (h : WFc c) : 0 < rank c := by
  unfold rank; unfold WFc at h
  cases hs : c.state <;> simp only [hs] at h ⊢ <;> omega

theorem stepState_inr_rank (env : Env B H) (c c2 : Codec H) (nl a : Nat) (hw : WFc c)
    (h : stepState env c nl = .inr (c2, a)) : rank c2 < rank c ∧ WFc c2 := by
  cases hs : c.state with
  | none =>
    unfold stepState at h
    simp only [hs] at h
    split at h
    · simp at h
    · cases hd : decHeader env.net (c.buffer.take nl) with
      | ok hh r n =>
        simp only [hd, Sum.inr.injEq, Prod.mk.injEq] at h
        rw [← h.1]; simp [rank, WFc, hs]
      | err e n => simp [hd] at h
      | panic s n => simp [hd] at h
  | header hh =>
    cases hh with
    | known t len =>
      unfold stepState at h
      simp only [hs] at h
      split at h
      · simp at h
      · split at h
        · cases hr : readU16 (c.buffer.take nl) with
          | error e => simp [hr] at h
          | ok p =>
            obtain ⟨items, r⟩ := p
            simp only [hr] at h
            split at h
            · simp at h
            · split at h
              · simp at h
              · simp only [Sum.inr.injEq, Prod.mk.injEq] at h
                rw [← h.1]; simp [rank, WFc, hs]
        · split at h <;> simp at h
    | unknown len t =>
      unfold stepState at h
      simp only [hs] at h
      split at h <;> simp at h
  | blockHeaders bl il hs' =>
    have hw' : hs'.length < 32 := by simpa [WFc, hs] using hw
    unfold stepState at h
    simp only [hs] at h
    split at h
    · simp at h
    · cases hd : env.decItem c.buffer with
      | error e => simp [hd] at h
      | ok p =>
        obtain ⟨hh, rest⟩ := p
        simp only [hd] at h
        split at h
        · split at h
          · split at h <;> simp at h
          · simp at h
        · rename_i hc
          simp only [Sum.inr.injEq, Prod.mk.injEq] at h
          rw [← h.1]
          have hbs : HEADER_BATCH_SIZE = 32 := rfl
          simp only [List.length_append, List.length_cons, List.length_nil, hbs, not_or] at hc
          simp only [rank, WFc, hs, List.length_append, List.length_cons, List.length_nil]
          omega
  | attachment left =>
    unfold stepState at h
    simp only [hs] at h
    split at h
    · simp at h
    · split at h <;> simp at h

/-- `hang` is only ever produced by running out of fuel -/
theorem stepState_not_hang (env : Env B H) (c : Codec H) (nl : Nat) :
    ∀ c2 a, stepState env c nl ≠ .inl (.hang, c2, a) := by
  intro c2 a h
  cases hs : c.state with
  | none =>
    unfold stepState at h
    simp only [hs] at h
    split at h
    · simp at h
    · cases hd : decHeader env.net (c.buffer.take nl) <;> simp [hd] at h
  | header hh =>
    cases hh with
    | known t len =>
      unfold stepState at h
      simp only [hs] at h
      split at h
      · simp at h
      · split at h
        · cases hr : readU16 (c.buffer.take nl) with
          | error e => simp [hr] at h
          | ok p =>
            obtain ⟨items, r⟩ := p
            simp only [hr] at h
            split at h
            · simp at h
            · split at h <;> simp at h
        · split at h <;> simp at h
    | unknown len t =>
      unfold stepState at h
      simp only [hs] at h
      split at h <;> simp at h
  | blockHeaders bl il hs' =>
    unfold stepState at h
    simp only [hs] at h
    split at h
    · simp at h
    · cases hd : env.decItem c.buffer with
      | error e => simp [hd] at h
      | ok p =>
        obtain ⟨hh, rest⟩ := p
        simp only [hd] at h
        split at h
        · split at h
          · split at h <;> simp at h
          · simp at h
        · simp at h
  | attachment left =>
    unfold stepState at h
    simp only [hs] at h
    split at h
    · simp at h
    · split at h <;> simp at h

theorem fill_WFc {ops : SockOps σ} {c c1 : Codec H} {s s1 : σ} {nl : Nat}
    (h : fill ops c s nl = some (c1, s1)) : c1.state = c.state := by
  unfold fill at h
  split at h
  · cases hr : ops.rx (nl - c.buffer.length) s with
    | none => simp [hr] at h
    | some p => obtain ⟨x, s'⟩ := p; simp only [hr, Option.some.injEq, Prod.mk.injEq] at h; rw [← h.1]
  · simp only [Option.some.injEq, Prod.mk.injEq] at h; rw [← h.1]

/-- **`Codec::read` terminates**: with fuel at least the rank of the state the loop never runs out -/
theorem readLoop_no_hang (env : Env B H) (ops : SockOps σ) :
    ∀ (fuel : Nat) (c : Codec H) (s : σ) (br al : Nat), WFc c → rank c ≤ fuel → 0 < fuel →
      (readLoop env ops fuel c s br al).res ≠ .hang := by
  intro fuel
  induction fuel with
  | zero => intro c s br al _ _ h; omega
  | succ fuel ih =>
    intro c s br al hw hr _
    simp only [readLoop]
    cases hf : fill ops c s (nextLen env c.state) with
    | none => simp
    | some p =>
      obtain ⟨c1, s1⟩ := p
      have hst := fill_WFc hf
      simp only
      cases hstep : stepState env c1 (nextLen env c.state) with
      | inl r =>
        obtain ⟨r, c2, a⟩ := r
        simp only
        intro hres
        subst hres
        exact stepState_not_hang env c1 _ c2 a hstep
      | inr r =>
        obtain ⟨c2, a⟩ := r
        have hw1 : WFc c1 := by unfold WFc; rw [hst]; exact hw
        have hr1 : rank c1 = rank c := by unfold rank; rw [hst]
        obtain ⟨hlt, hw2⟩ := stepState_inr_rank env c1 c2 _ a hw1 hstep
        have hpos := rank_pos c2 hw2
        exact ih c2 s1 _ _ hw2 (by omega) (by omega)


/-! ### allocation -/

/-- extra allocation of one arm: at most one `Vec::with_capacity(min(32, _))` of headers -/
def stepAlloc : (Res B H × Codec H × Nat) ⊕ (Codec H × Nat) → Nat
  | .inl (_, _, a) => a
  | .inr (_, a) => a

theorem min_batch_le (x m : Nat) : min HEADER_BATCH_SIZE x * m ≤ 32 * m := by
  apply Nat.mul_le_mul_right
  have : HEADER_BATCH_SIZE = 32 := rfl
  omega

theorem stepState_alloc_le (env : Env B H) (c : Codec H) (nl : Nat) :
    stepAlloc (stepState env c nl) ≤ 32 * env.hdrMem := by
  cases hs : c.state with
  | none =>
    unfold stepState
    simp only [hs]
    split
    · simp [stepAlloc]
    · cases hd : decHeader env.net (c.buffer.take nl) <;> simp [stepAlloc]
  | header hh =>
    cases hh with
    | known t len =>
      unfold stepState
      simp only [hs]
      split
      · simp [stepAlloc]
      · split
        · cases hr : readU16 (c.buffer.take nl) with
          | error e => simp [stepAlloc]
          | ok p =>
            obtain ⟨items, r⟩ := p
            simp only
            split
            · simp [stepAlloc]
            · split
              · simp [stepAlloc]
              · simp only [stepAlloc]; exact min_batch_le _ _
        · split <;> simp [stepAlloc]
    | unknown len t =>
      unfold stepState
      simp only [hs]
      split <;> simp [stepAlloc]
  | blockHeaders bl il hs' =>
    unfold stepState
    simp only [hs]
    split
    · simp [stepAlloc]
    · cases hd : env.decItem c.buffer with
      | error e => simp [stepAlloc]
      | ok p =>
        obtain ⟨hh, rest⟩ := p
        simp only
        split
        · split
          · split <;> (simp only [stepAlloc]; exact min_batch_le _ _)
          · simp only [stepAlloc]; exact min_batch_le _ _
        · simp [stepAlloc]
  | attachment left =>
    unfold stepState
    simp only [hs]
    split
    · simp [stepAlloc]
    · split <;> simp [stepAlloc]

/-- the stream ended during a fill -/
def isConn : Res B H → Bool
  | .err .conn => true
  | _ => false

/-- **allocation of one `Codec::read`**: the bytes it pulled from the socket (`reserve(to_read)`)
plus at most one header-batch vector per loop iteration; a failed fill has requested `to_read` more,
which is bounded by the per-type limit enforced on the frame header -/
theorem readLoop_alloc_bound (env : Env B H) (ops : SockOps σ) :
    ∀ (fuel : Nat) (c : Codec H) (s : σ) (br al : Nat) (o : ReadOut B H σ),
      readLoop env ops fuel c s br al = o →
      o.alloc + br ≤ al + o.bytesRead + fuel * (32 * env.hdrMem) +
        (if isConn o.res then nextLen env o.codec.state - o.codec.buffer.length else 0) := by
  intro fuel
  induction fuel with
  | zero => intro c s br al o ho; subst ho; simp [readLoop]
  | succ fuel ih =>
    intro c s br al o ho
    have hk : (fuel + 1) * (32 * env.hdrMem) = fuel * (32 * env.hdrMem) + 32 * env.hdrMem := by
      rw [Nat.add_mul]; omega
    cases hf : fill ops c s (nextLen env c.state) with
    | none =>
      rw [readLoop_eof env ops fuel c s br al hf] at ho
      subst ho
      simp only [isConn, if_true]
      omega
    | some p =>
      obtain ⟨c1, s1⟩ := p
      have hstep := stepState_alloc_le env c1 (nextLen env c.state)
      cases hst : stepState env c1 (nextLen env c.state) with
      | inl r =>
        obtain ⟨r, c2, a⟩ := r
        rw [hst] at hstep
        simp only [stepAlloc] at hstep
        rw [readLoop_inl env ops fuel c c1 c2 s s1 br al a r hf hst] at ho
        subst ho
        simp only
        refine Nat.le_trans ?_ (Nat.le_add_right _ _)
        omega
      | inr r =>
        obtain ⟨c2, a⟩ := r
        rw [hst] at hstep
        simp only [stepAlloc] at hstep
        rw [readLoop_inr env ops fuel c c1 c2 s s1 br al a hf hst] at ho
        have := ih c2 s1 _ _ o ho
        omega


/-! ### item count vs. length (after the repair 8eb131841 of the `BlockHeaders` arm) -/

/-- no items left: the arm refuses with `BadMessage` before decoding anything, whatever is buffered -/
theorem stepState_zero_items (env : Env B H) (bl : Nat) (hs : List H) (buffer : Bytes) (nl : Nat) :
    stepState env ({ buffer := buffer, state := .blockHeaders bl 0 hs } : Codec H) nl =
      .inl (.err .badMessage, { buffer := buffer, state := .none }, 0) := by
  simp [stepState]

/-- a batch handed to the caller carries `remaining = items_left − 1` with `items_left ≥ 1`: the
decrement never wraps -/
theorem stepState_headers_remaining (env : Env B H) (bl il : Nat) (hs : List H) (buffer : Bytes) (nl : Nat)
    (hil : il < USIZE_MOD) (hs' : List H) (rem : Nat) (c2 : Codec H) (a : Nat)
    (h : stepState env ({ buffer := buffer, state := .blockHeaders bl il hs } : Codec H) nl =
      .inl (.msg (.headers hs' rem), c2, a)) : rem + 1 = il := by
  unfold stepState at h
  simp only at h
  split at h
  · simp at h
  · rename_i hg
    simp only [not_or] at hg
    have hw : (il + USIZE_MOD - 1) % USIZE_MOD = il - 1 := by
      have : il + USIZE_MOD - 1 = (il - 1) + USIZE_MOD := by omega
      rw [this, Nat.add_mod_right]; exact Nat.mod_eq_of_lt (by omega)
    cases hd : env.decItem buffer with
    | error e => simp [hd] at h
    | ok p =>
      obtain ⟨hh, rest⟩ := p
      simp only [hd] at h
      split at h
      · split at h
        · split at h
          · simp at h
          · simp only [Sum.inl.injEq, Prod.mk.injEq, Res.msg.injEq, Message.headers.injEq] at h
            rw [← h.1.2, hw]; omega
        · simp only [Sum.inl.injEq, Prod.mk.injEq, Res.msg.injEq, Message.headers.injEq] at h
          rw [← h.1.2, hw]; omega
      · simp at h

end GV.Codec
