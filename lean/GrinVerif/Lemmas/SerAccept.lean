import GrinVerif.Lemmas.SerProofRt
/-! What an *accepting* decoder guarantees about arbitrary input bytes (the refusal side of the
canonical-form rules): whatever `TransactionBody::read` / `CompactBlockBody::read` accept is strictly
sorted by hash with no duplicates, has exactly the announced numbers of entries and is within the
weight limit; whatever `Proof::read` accepts has zero padding bits. -/
namespace GV.Ser
open GV

theorem andThen_inv {α β : Type} {p : Except SerErr (α × Bytes)} {f : α → Bytes → Except SerErr (β × Bytes)}
    {x : β × Bytes} (h : andThen p f = .ok x) : ∃ a r, p = .ok (a, r) ∧ f a r = .ok x := by
  cases p with
  | error e => simp [andThen] at h
  | ok v => exact ⟨v.1, v.2, rfl, by simpa [andThen] using h⟩

theorem decInputs_len {ver ni : Nat} {bs : Bytes} {ins : Inputs} {r : Bytes}
    (h : decInputs ver ni bs = .ok (ins, r)) : ins.len = ni := by
  unfold decInputs at h
  split at h
  · obtain ⟨l, r', h1, h2⟩ := andThen_inv h
    simp only [Except.ok.injEq, Prod.mk.injEq] at h2
    rw [← h2.1]
    exact readMulti_ok_length h1
  · obtain ⟨l, r', h1, h2⟩ := andThen_inv h
    simp only [Except.ok.injEq, Prod.mk.injEq] at h2
    rw [← h2.1]
    exact readMulti_ok_length h1

/-- Every byte string `TransactionBody::read` accepts yields a body whose inputs, outputs and
kernels are each strictly increasing by hash (so: sorted, no duplicates), whose entry counts are the
announced ones, and whose weight is within the limit. -/
theorem decTxBody_accepts {c : Cfg} {bs : Bytes} {b : TxBody} {r : Bytes}
    (h : decTxBody c bs = .ok (b, r)) :
    (b.inputs.keys c.key).Pairwise (· < ·)
    ∧ (b.outputs.map fun o => c.key o.hashBytes).Pairwise (· < ·)
    ∧ (b.kernels.map fun k => c.key k.hashBytes).Pairwise (· < ·)
    ∧ b.weight ≤ c.maxWeight := by
  rw [decTxBody] at h
  obtain ⟨ni, r1, _, h⟩ := andThen_inv h
  obtain ⟨no, r2, _, h⟩ := andThen_inv h
  obtain ⟨nk, r3, _, h⟩ := andThen_inv h
  split at h
  · simp at h
  rename_i hw
  obtain ⟨ins, r4, hi, h⟩ := andThen_inv h
  obtain ⟨outs, r5, ho, h⟩ := andThen_inv h
  obtain ⟨kers, r6, hk, h⟩ := andThen_inv h
  simp only at h
  split at h
  · simp at h
  rename_i hs
  simp only [Except.ok.injEq, Prod.mk.injEq] at h
  obtain ⟨rfl, _⟩ := h
  have hni := decInputs_len hi
  have hno := readMulti_ok_length ho
  have hnk := readMulti_ok_length hk
  simp only [TxBody.verifySorted] at hs
  split at hs
  · simp at hs
  rename_i h1
  split at hs
  · simp at hs
  rename_i h2
  refine ⟨(verifySortedUnique_iff _).mp ?_, (verifySortedUnique_iff _).mp ?_, (verifySortedUnique_iff _).mp ?_, ?_⟩
  · rw [h1]
  · rw [h2]
  · exact hs
  · simp only [TxBody.weight, hni, hno, hnk]; omega

/-- Counts whose weight exceeds `max_block_weight` are refused before anything else is read. -/
theorem decTxBody_overweight (c : Cfg) (ni no nk : Nat) (h1 : ni < 2^64) (h2 : no < 2^64) (h3 : nk < 2^64)
    (hw : weightByIok ni no nk > c.maxWeight) (r : Bytes) :
    decTxBody c (writeU64 ni ++ (writeU64 no ++ (writeU64 nk ++ r))) = .error .tooLarge := by
  rw [decTxBody, readU64_write _ h1, andThen_ok, readU64_write _ h2, andThen_ok, readU64_write _ h3,
    andThen_ok, if_pos hw]

/-- Same for `CompactBlockBody::read`: accepted ⇒ outputs, kernels and short ids strictly sorted. -/
theorem decCompactBody_accepts {c : Cfg} {bs : Bytes} {b : CompactBlockBody} {r : Bytes}
    (h : decCompactBody c bs = .ok (b, r)) :
    (b.outFull.map fun o => c.key o.hashBytes).Pairwise (· < ·)
    ∧ (b.kernFull.map fun k => c.key k.hashBytes).Pairwise (· < ·)
    ∧ (b.kernIds.map fun s => c.key (encShortId s)).Pairwise (· < ·) := by
  rw [decCompactBody] at h
  obtain ⟨no, r1, _, h⟩ := andThen_inv h
  obtain ⟨nk, r2, _, h⟩ := andThen_inv h
  obtain ⟨ni, r3, _, h⟩ := andThen_inv h
  obtain ⟨outs, r4, _, h⟩ := andThen_inv h
  obtain ⟨kers, r5, _, h⟩ := andThen_inv h
  obtain ⟨ids, r6, _, h⟩ := andThen_inv h
  simp only at h
  split at h
  · simp at h
  rename_i hs
  simp only [Except.ok.injEq, Prod.mk.injEq] at h
  obtain ⟨rfl, _⟩ := h
  simp only [CompactBlockBody.verifySorted] at hs
  split at hs
  · simp at hs
  rename_i h1
  split at hs
  · simp at hs
  rename_i h2
  exact ⟨(verifySortedUnique_iff _).mp (by rw [h1]), (verifySortedUnique_iff _).mp (by rw [h2]),
    (verifySortedUnique_iff _).mp hs⟩

/-! ## Proof -/

/-- `edge_bits` outside 1..=63 is refused -/
theorem decProof_edgeBits (c : Cfg) (eb : Nat) (h : eb = 0 ∨ eb > 63) (r : Bytes) :
    decProof c (eb :: r) = .error .corrupted := by
  rw [decProof]
  simp only [readU8, andThen_ok, h, ↓reduceIte]

/-- Non-zero padding bits (any bit at or above `proofsize * edge_bits` in the packed bytes) are
refused: for every byte string of the right length. -/
theorem decProof_padding (c : Cfg) (eb : Nat) (bits rest : Bytes) (h1 : 1 ≤ eb) (h63 : eb ≤ 63)
    (hlen : bits.length = packLen c.proofSize eb) (h8 : 8 ≤ packLen c.proofSize eb)
    (hcap : packLen c.proofSize eb ≤ MAX_FIXED_READ) (hall : AllBytes bits)
    (hpad : 2^(c.proofSize * eb) ≤ ofLE bits) :
    decProof c (eb :: (bits ++ rest)) = .error .corrupted := by
  have hrf := readFixed_write bits _ hlen hcap rest
  simp only [writeFixed] at hrf
  have hL : packLen c.proofSize eb = (eb * c.proofSize + 7) / 8 := rfl
  have hXlt := ofLE_lt bits hall
  rw [hlen, two56] at hXlt
  have hne : readNumber bits (c.proofSize * eb) (packLen c.proofSize eb * 8 - c.proofSize * eb) ≠ 0 := by
    rw [readNumber_eq bits hall _ _ (by omega) (by rw [hlen, hL, Nat.mul_comm c.proofSize eb]; omega)
      (by rw [hL, Nat.mul_comm c.proofSize eb]; omega)]
    generalize hX : ofLE bits = X at hpad hXlt
    generalize hB : c.proofSize * eb = B at hpad ⊢
    have hB' : eb * c.proofSize = B := by rw [Nat.mul_comm]; exact hB
    rw [hL, hB'] at hXlt ⊢
    have hsplit : (2:Nat)^(8 * ((B + 7) / 8)) = 2^B * 2^((B + 7) / 8 * 8 - B) := by
      rw [← Nat.pow_add]; congr 1; omega
    have hq : X / 2^B < 2^((B + 7) / 8 * 8 - B) := by
      rw [Nat.div_lt_iff_lt_mul (Nat.pow_pos (by omega)), Nat.mul_comm, ← hsplit]; exact hXlt
    rw [Nat.mod_eq_of_lt hq]
    have : 0 < X / 2^B := Nat.div_pos hpad (Nat.pow_pos (by omega))
    omega
  have c1 : ¬ (eb = 0 ∨ eb > 63) := by omega
  have c2 : ¬ packLen c.proofSize eb < 8 := by omega
  rw [decProof]
  simp only [readU8, andThen_ok, c1, c2, ↓reduceIte, hrf]
  exact if_pos hne

end GV.Ser
