import GrinVerif.Model.Seg
/-! The per-tree cache / apply bookkeeping of the desegmenter (`Model/Seg.lean`, namespace `Dsg`):
if the next required segment is cached it is applied whatever else is cached (`apply_progress`),
and no arrival sequence of segments of the asked height — any order, duplicates, late duplicates
of segments that were applied long ago — can bring a tree into a state where delivering the
required segment does not make progress (`cache_never_blocks`).  Core Lean only. -/
namespace GV.Seg.Dsg
open GV GV.Seg

/-- every cached segment has the height the desegmenter asks for -/
def OwnCache (t : Tree) : Prop := ∀ c ∈ t.cache, c.height = t.h

/-- where the local MMR of a tree ends: at the archive size, at a segment boundary below it, or
(output / rangeproof / kernel of a fresh chain) at the genesis leaf -/
inductive At (t : Tree) : Option Nat → Prop
  | done : t.leaves = t.total → At t none
  | boundary (k : Nat) : t.leaves = k * 2 ^ t.h → k * 2 ^ t.h < t.total →
      (t.flavor = .bitmap ∨ 1 ≤ t.h) → At t (some k)
  | genesis : t.flavor ≠ .bitmap → t.leaves = 1 → 1 ≤ t.h → 1 < t.total → At t (some 0)

theorem pow_pos' (h : Nat) : 0 < 2 ^ h := Nat.pow_pos (by omega)

theorem segCount_boundary (k h : Nat) : segCount (k * 2 ^ h) h = k := by
  unfold segCount
  have hp := pow_pos' h
  apply Nat.div_eq_of_lt_le
  · omega
  · rw [Nat.succ_mul]; omega

theorem lt_segCount (k h total : Nat) (hlt : k * 2 ^ h < total) : k < segCount total h := by
  unfold segCount
  have hp := pow_pos' h
  rw [Nat.lt_iff_add_one_le, Nat.le_div_iff_mul_le hp, Nat.succ_mul]
  omega

theorem two_le_pow (h : Nat) (hh : 1 ≤ h) : 2 ≤ 2 ^ h := by
  obtain ⟨n, rfl⟩ : ∃ n, h = n + 1 := ⟨h - 1, by omega⟩
  have := pow_pos' n
  rw [Nat.pow_succ]; omega

/-- `next_required_*_segment_index` at a segment boundary / at the genesis leaf asks for exactly
the segment that starts there -/
theorem next_of_at (t : Tree) (k : Nat) (h : At t (some k)) : t.next = some k := by
  cases h with
  | boundary _ hl hlt hh =>
    have hk : k < segCount t.total t.h := lt_segCount k t.h t.total hlt
    have hs : segCount t.leaves t.h = k := by rw [hl]; exact segCount_boundary k t.h
    unfold Tree.next
    cases hf : t.flavor with
    | bitmap => simp only [hs]; rw [if_neg (by omega)]
    | prunable =>
      have h1 : 1 ≤ t.h := by
        rcases hh with hb | hb
        · rw [hf] at hb; cases hb
        · exact hb
      have h2 := two_le_pow t.h h1
      have hne : t.leaves ≠ 1 := by
        intro he; rw [hl] at he
        cases k with
        | zero => simp at he
        | succ n => rw [Nat.succ_mul] at he; omega
      have hnl : ¬ t.leaves < k * 2 ^ t.h := by rw [hl]; exact Nat.lt_irrefl _
      simp only [hne, if_false, hs]
      rw [if_neg hnl, if_neg (by omega)]
    | kernel =>
      have h1 : 1 ≤ t.h := by
        rcases hh with hb | hb
        · rw [hf] at hb; cases hb
        · exact hb
      have h2 := two_le_pow t.h h1
      have hne : t.leaves ≠ 1 := by
        intro he; rw [hl] at he
        cases k with
        | zero => simp at he
        | succ n => rw [Nat.succ_mul] at he; omega
      have hnl : ¬ t.leaves < k * 2 ^ t.h := by rw [hl]; exact Nat.lt_irrefl _
      simp only [hne, if_false, hs]
      have hc : ¬ (segCount t.total t.h ≠ k ∧ t.leaves < k * 2 ^ t.h) := fun hx => hnl hx.2
      rw [if_neg hc, if_neg (by omega)]
  | genesis hf hl hh ht =>
    have hk : 0 < segCount t.total t.h := lt_segCount 0 t.h t.total (by omega)
    unfold Tree.next
    cases hfl : t.flavor with
    | bitmap => exact absurd hfl hf
    | prunable => simp only [hl, if_true, Nat.zero_mul, Nat.not_lt_zero, if_false]; rw [if_neg (by omega)]
    | kernel =>
      simp only [hl, if_true, Nat.zero_mul, Nat.not_lt_zero, and_false, if_false]
      rw [if_neg (by omega)]

theorem takeBatch_cons (cache rest : List Ident) (n k : Nat) (s : Ident)
    (hr : removeFirstIdx cache n = some (s, rest)) :
    takeBatch cache n (k + 1) = (s :: (takeBatch rest (n + 1) k).1, (takeBatch rest (n + 1) k).2) := by
  simp [takeBatch, hr]

theorem applySeg_ge (total leaves : Nat) (s : Ident) : leaves ≤ applySeg total leaves s := by
  unfold applySeg; simp only; split <;> omega

theorem foldl_applySeg_ge (total : Nat) : ∀ (l : List Ident) (leaves : Nat),
    leaves ≤ l.foldl (applySeg total) leaves := by
  intro l
  induction l with
  | nil => intro leaves; exact Nat.le_refl _
  | cons s rest ih =>
    intro leaves
    exact Nat.le_trans (applySeg_ge total leaves s) (ih _)

theorem removeFirstIdx_some (cache : List Ident) (n : Nat) (h : ∃ c ∈ cache, c.idx = n) :
    ∃ s rest, removeFirstIdx cache n = some (s, rest) ∧ s ∈ cache ∧ s.idx = n ∧
      (∀ x ∈ rest, x ∈ cache) := by
  induction cache with
  | nil => obtain ⟨c, hc, _⟩ := h; cases hc
  | cons c cs ih =>
    by_cases hc : c.idx = n
    · exact ⟨c, cs, by simp [removeFirstIdx, hc], List.mem_cons_self, hc,
        fun x hx => List.mem_cons_of_mem _ hx⟩
    · obtain ⟨c', hc', hi⟩ := h
      have : ∃ c ∈ cs, c.idx = n := by
        rcases List.mem_cons.mp hc' with he | he
        · subst he; exact absurd hi hc
        · exact ⟨c', he, hi⟩
      obtain ⟨s, rest, hr, hs, hsi, hrest⟩ := ih this
      refine ⟨s, c :: rest, by simp [removeFirstIdx, hc, hr], List.mem_cons_of_mem _ hs, hsi, ?_⟩
      intro x hx
      rcases List.mem_cons.mp hx with he | he
      · subst he; exact List.mem_cons_self
      · exact List.mem_cons_of_mem _ (hrest x he)

theorem removeFirstIdx_mem (cache : List Ident) (n : Nat) (s : Ident) (rest : List Ident)
    (h : removeFirstIdx cache n = some (s, rest)) :
    s ∈ cache ∧ s.idx = n ∧ ∀ x ∈ rest, x ∈ cache := by
  induction cache generalizing rest with
  | nil => simp [removeFirstIdx] at h
  | cons c cs ih =>
    simp only [removeFirstIdx] at h
    split at h
    · rename_i hc
      injection h with h; injection h with h1 h2
      subst h1; subst h2
      exact ⟨List.mem_cons_self, hc, fun x hx => List.mem_cons_of_mem _ hx⟩
    · split at h
      · rename_i x rest' hr
        injection h with h; injection h with h1 h2
        subst h1; subst h2
        obtain ⟨a, b, c'⟩ := ih rest' hr
        refine ⟨List.mem_cons_of_mem _ a, b, ?_⟩
        intro y hy
        rcases List.mem_cons.mp hy with he | he
        · subst he; exact List.mem_cons_self
        · exact List.mem_cons_of_mem _ (c' y he)
      · cases h

/-- everything `take_segment_batch` hands out or leaves behind was in the cache; the taken
segments have consecutive indices from `next` on -/
theorem takeBatch_mem : ∀ (k : Nat) (cache : List Ident) (next : Nat),
    (∀ x ∈ (takeBatch cache next k).1, x ∈ cache) ∧ (∀ x ∈ (takeBatch cache next k).2, x ∈ cache) := by
  intro k
  induction k with
  | zero => intro cache next; simp [takeBatch]
  | succ k ih =>
    intro cache next
    simp only [takeBatch]
    cases hr : removeFirstIdx cache next with
    | none => simp
    | some p =>
      obtain ⟨s, rest⟩ := p
      obtain ⟨hs, _, hrest⟩ := removeFirstIdx_mem cache next s rest hr
      obtain ⟨i1, i2⟩ := ih rest (next + 1)
      simp only
      constructor
      · intro x hx
        rcases List.mem_cons.mp hx with he | he
        · subst he; exact hs
        · exact hrest x (i1 x he)
      · intro x hx; exact hrest x (i2 x hx)

/-- applying a segment of the asked height to a tree that ends at a boundary (or at the archive
size) leaves it at a boundary (or at the archive size) -/
theorem applySeg_boundary (h total leaves : Nat) (s : Ident) (hs : s.height = h)
    (hb : leaves = total ∨ ∃ k, leaves = k * 2 ^ h ∧ k * 2 ^ h < total) :
    applySeg total leaves s = total ∨
      ∃ k, applySeg total leaves s = k * 2 ^ h ∧ k * 2 ^ h < total := by
  unfold applySeg
  simp only [hs]
  split
  · by_cases hm : (s.idx + 1) * 2 ^ h < total
    · right; exact ⟨s.idx + 1, by omega, hm⟩
    · left; omega
  · exact hb

theorem foldl_applySeg_boundary (h total : Nat) : ∀ (l : List Ident) (leaves : Nat),
    (∀ s ∈ l, s.height = h) →
    (leaves = total ∨ ∃ k, leaves = k * 2 ^ h ∧ k * 2 ^ h < total) →
    (l.foldl (applySeg total) leaves = total ∨
      ∃ k, l.foldl (applySeg total) leaves = k * 2 ^ h ∧ k * 2 ^ h < total) := by
  intro l
  induction l with
  | nil => intro leaves _ hb; exact hb
  | cons s rest ih =>
    intro leaves hl hb
    exact ih _ (fun x hx => hl x (List.mem_cons_of_mem _ hx))
      (applySeg_boundary h total leaves s (hl s List.mem_cons_self) hb)

/-- the segment that starts where the tree ends advances it to the end of that segment -/
theorem applySeg_next (t : Tree) (k : Nat) (ha : At t (some k)) (s : Ident) (hs : s.height = t.h)
    (hi : s.idx = k) :
    applySeg t.total t.leaves s = min ((k + 1) * 2 ^ t.h) t.total ∧
      t.leaves < min ((k + 1) * 2 ^ t.h) t.total := by
  have hp := pow_pos' t.h
  unfold applySeg
  simp only [hs, hi]
  cases ha with
  | boundary _ hl hlt _ =>
    have : k * 2 ^ t.h ≤ t.leaves ∧ t.leaves < min ((k + 1) * 2 ^ t.h) t.total := by
      rw [hl, Nat.succ_mul]; omega
    rw [if_pos this]; exact ⟨rfl, this.2⟩
  | genesis _ hl hh ht =>
    have h2 := two_le_pow t.h hh
    have : 0 * 2 ^ t.h ≤ t.leaves ∧ t.leaves < min ((0 + 1) * 2 ^ t.h) t.total := by
      rw [hl]; omega
    rw [if_pos this]; exact ⟨rfl, this.2⟩

/-- **apply_progress** (batch flavours: output, rangeproof, kernel) -/
theorem apply_progress_batch (t : Tree) (k : Nat) (ha : At t (some k)) (hown : OwnCache t)
    (hc : ∃ c ∈ t.cache, c.idx = k) :
    min ((k + 1) * 2 ^ t.h) t.total ≤ t.apply.leaves ∧ t.leaves < t.apply.leaves := by
  obtain ⟨s, rest, hr, hs, hsi, _⟩ := removeFirstIdx_some t.cache k hc
  have hn := next_of_at t k ha
  unfold Tree.apply
  rw [hn]
  have hb : batchSize = 3 + 1 := rfl
  simp only [hb, takeBatch_cons t.cache rest k 3 s hr, List.foldl_cons]
  obtain ⟨e, hlt⟩ := applySeg_next t k ha s (hown s hs) hsi
  rw [e]
  have := foldl_applySeg_ge t.total (takeBatch rest (k + 1) 3).1 (min ((k + 1) * 2 ^ t.h) t.total)
  exact ⟨this, Nat.lt_of_lt_of_le hlt this⟩

/-- … bitmap flavour (one segment per call) -/
theorem apply_progress_one (t : Tree) (k : Nat) (ha : At t (some k)) (hown : OwnCache t)
    (hc : ∃ c ∈ t.cache, c.idx = k) :
    t.applyOne.leaves = min ((k + 1) * 2 ^ t.h) t.total ∧ t.leaves < t.applyOne.leaves := by
  obtain ⟨s, rest, hr, hs, hsi, _⟩ := removeFirstIdx_some t.cache k hc
  have hn := next_of_at t k ha
  unfold Tree.applyOne
  rw [hn]
  simp only [hr]
  obtain ⟨e, hlt⟩ := applySeg_next t k ha s (hown s hs) hsi
  exact ⟨e, by rw [e]; exact hlt⟩

/-- the invariant of a tree that only ever receives segments of the asked height -/
structure Inv (t : Tree) : Prop where
  own : OwnCache t
  pos : ∃ o, At t o

theorem at_of_boundary (t : Tree) (hfl : t.flavor = .bitmap ∨ 1 ≤ t.h)
    (hb : t.leaves = t.total ∨ ∃ k, t.leaves = k * 2 ^ t.h ∧ k * 2 ^ t.h < t.total) :
    ∃ o, At t o := by
  rcases hb with hb | ⟨k, h1, h2⟩
  · exact ⟨none, .done hb⟩
  · exact ⟨some k, .boundary k h1 h2 hfl⟩

theorem add_inv (t : Tree) (id : Ident) (hid : id.height = t.h) (hi : Inv t) : Inv (t.add id) := by
  obtain ⟨own, o, pos⟩ := hi
  unfold Tree.add
  split
  · exact ⟨own, o, pos⟩
  · refine ⟨?_, o, ?_⟩
    · intro c hc
      rcases List.mem_append.mp hc with h | h
      · exact own c h
      · simp only [List.mem_singleton] at h; subst h; exact hid
    · cases pos with
      | done h => exact .done h
      | boundary k a b c => exact .boundary k a b c
      | genesis a b c d => exact .genesis a b c d

theorem add_leaves (t : Tree) (id : Ident) : (t.add id).leaves = t.leaves := by
  unfold Tree.add; split <;> rfl

theorem add_next (t : Tree) (id : Ident) : (t.add id).next = t.next := by
  unfold Tree.add; split <;> rfl

/-- what a state `At t o` says in the vocabulary of `applySeg_boundary`, after at least one
segment of the asked height has been applied at `o = some k` -/
theorem boundary_of_at (t : Tree) (o : Option Nat) (ha : At t o) :
    (t.leaves = t.total ∨ ∃ k, t.leaves = k * 2 ^ t.h ∧ k * 2 ^ t.h < t.total) ∨
      (t.flavor ≠ .bitmap ∧ t.leaves = 1 ∧ 1 ≤ t.h ∧ 1 < t.total) := by
  cases ha with
  | done h => exact Or.inl (Or.inl h)
  | boundary k a b _ => exact Or.inl (Or.inr ⟨k, a, b⟩)
  | genesis a b c d => exact Or.inr ⟨a, b, c, d⟩

theorem flavor_side (t : Tree) (o : Option Nat) (ha : At t o) (hne : t.leaves ≠ t.total) :
    t.flavor = .bitmap ∨ 1 ≤ t.h := by
  cases ha with
  | done h => exact absurd h hne
  | boundary _ _ _ c => exact c
  | genesis _ _ c _ => exact Or.inr c

theorem at_add (t : Tree) (id : Ident) (o : Option Nat) (pos : At t o) : At (t.add id) o := by
  have hl := add_leaves t id
  have e1 : (t.add id).h = t.h := by unfold Tree.add; split <;> rfl
  have e2 : (t.add id).total = t.total := by unfold Tree.add; split <;> rfl
  have e3 : (t.add id).flavor = t.flavor := by unfold Tree.add; split <;> rfl
  cases pos with
  | done h => exact .done (by rw [hl, e2]; exact h)
  | boundary k a b c => exact .boundary k (by rw [hl, e1]; exact a) (by rw [e1, e2]; exact b) (by rw [e1, e3]; exact c)
  | genesis a b c d => exact .genesis (by rw [e3]; exact a) (by rw [hl]; exact b) (by rw [e1]; exact c) (by rw [e2]; exact d)

theorem mem_add_self (t : Tree) (id : Ident) : id ∈ (t.add id).cache := by
  unfold Tree.add
  split
  · rename_i h; simpa using h
  · simp

theorem applySeg_total (total : Nat) (s : Ident) : applySeg total total s = total := by
  unfold applySeg; simp only; split <;> omega

theorem foldl_applySeg_total (total : Nat) : ∀ l : List Ident, l.foldl (applySeg total) total = total := by
  intro l
  induction l with
  | nil => rfl
  | cons s rest ih => rw [List.foldl_cons, applySeg_total, ih]

/-- from the genesis leaf a segment of the asked height either changes nothing or is segment 0 -/
theorem applySeg_genesis (h total : Nat) (s : Ident) (hs : s.height = h) (hh : 1 ≤ h) :
    applySeg total 1 s = 1 ∨ applySeg total 1 s = total ∨
      ∃ k, applySeg total 1 s = k * 2 ^ h ∧ k * 2 ^ h < total := by
  unfold applySeg
  simp only [hs]
  split
  · by_cases hm : (s.idx + 1) * 2 ^ h < total
    · right; right; exact ⟨s.idx + 1, by omega, hm⟩
    · right; left; omega
  · left; rfl

theorem foldl_applySeg_genesis (h total : Nat) (hh : 1 ≤ h) : ∀ (l : List Ident),
    (∀ s ∈ l, s.height = h) →
    (l.foldl (applySeg total) 1 = 1 ∨ l.foldl (applySeg total) 1 = total ∨
      ∃ k, l.foldl (applySeg total) 1 = k * 2 ^ h ∧ k * 2 ^ h < total) := by
  intro l
  induction l with
  | nil => intro _; left; rfl
  | cons s rest ih =>
    intro hl
    rw [List.foldl_cons]
    rcases applySeg_genesis h total s (hl s List.mem_cons_self) hh with e | e | ⟨k, e1, e2⟩
    · rw [e]; exact ih (fun x hx => hl x (List.mem_cons_of_mem _ hx))
    · rw [e, foldl_applySeg_total]; right; left; rfl
    · right
      rw [e1]
      exact foldl_applySeg_boundary h total rest _ (fun x hx => hl x (List.mem_cons_of_mem _ hx))
        (Or.inr ⟨k, rfl, e2⟩)

/-- a list of segments of the asked height keeps a tree at the archive size / a boundary / genesis -/
theorem fold_at (t : Tree) (o : Option Nat) (ha : At t o) (l : List Ident)
    (hl : ∀ s ∈ l, s.height = t.h) (cache' : List Ident) :
    ∃ o', At { t with leaves := l.foldl (applySeg t.total) t.leaves, cache := cache' } o' := by
  cases ha with
  | done h =>
    refine ⟨none, .done ?_⟩
    show l.foldl (applySeg t.total) t.leaves = t.total
    rw [h, foldl_applySeg_total]
  | boundary k a b c =>
    rcases foldl_applySeg_boundary t.h t.total l t.leaves hl (Or.inr ⟨k, a, b⟩) with e | ⟨k', e1, e2⟩
    · exact ⟨none, .done e⟩
    · exact ⟨some k', .boundary k' e1 e2 c⟩
  | genesis a b c d =>
    have := foldl_applySeg_genesis t.h t.total c l hl
    rw [← b] at this
    rcases this with e | e | ⟨k', e1, e2⟩
    · exact ⟨some 0, .genesis a (by show l.foldl (applySeg t.total) t.leaves = 1; rw [e, b]) c d⟩
    · exact ⟨none, .done e⟩
    · exact ⟨some k', .boundary k' e1 e2 (Or.inr c)⟩

theorem apply_inv (t : Tree) (hi : Inv t) : Inv t.apply ∧ t.leaves ≤ t.apply.leaves := by
  obtain ⟨own, o, pos⟩ := hi
  unfold Tree.apply
  cases hn : t.next with
  | none =>
    simp only
    split
    · refine ⟨⟨fun c hc => (by cases hc), ?_⟩, Nat.le_refl _⟩
      cases pos with
      | done h => exact ⟨none, .done h⟩
      | boundary k a b c => exact ⟨some k, .boundary k a b c⟩
      | genesis a b c d => exact ⟨some 0, .genesis a b c d⟩
    · exact ⟨⟨own, o, pos⟩, Nat.le_refl _⟩
  | some n =>
    simp only
    obtain ⟨m1, m2⟩ := takeBatch_mem batchSize t.cache n
    refine ⟨⟨fun c hc => own c (m2 c hc), ?_⟩, foldl_applySeg_ge _ _ _⟩
    exact fold_at t o pos _ (fun s hs => own s (m1 s hs)) _

theorem applyOne_inv (t : Tree) (hi : Inv t) : Inv t.applyOne ∧ t.leaves ≤ t.applyOne.leaves := by
  obtain ⟨own, o, pos⟩ := hi
  unfold Tree.applyOne
  cases hn : t.next with
  | none => exact ⟨⟨own, o, pos⟩, Nat.le_refl _⟩
  | some n =>
    simp only
    cases hr : removeFirstIdx t.cache n with
    | none => exact ⟨⟨own, o, pos⟩, Nat.le_refl _⟩
    | some p =>
      obtain ⟨s, rest⟩ := p
      obtain ⟨hs, _, hrest⟩ := removeFirstIdx_mem t.cache n s rest hr
      simp only
      refine ⟨⟨fun c hc => own c (hrest c hc), ?_⟩, applySeg_ge _ _ _⟩
      have := fold_at t o pos [s] (fun x hx => by
        simp only [List.mem_singleton] at hx; subst hx; exact own x hs) rest
      simpa using this

theorem apply_params (t : Tree) :
    t.apply.h = t.h ∧ t.apply.total = t.total ∧ t.apply.flavor = t.flavor := by
  unfold Tree.apply
  split
  · exact ⟨rfl, rfl, rfl⟩
  · split <;> exact ⟨rfl, rfl, rfl⟩

theorem applyOne_params (t : Tree) :
    t.applyOne.h = t.h ∧ t.applyOne.total = t.total ∧ t.applyOne.flavor = t.flavor := by
  unfold Tree.applyOne
  split
  · split <;> exact ⟨rfl, rfl, rfl⟩
  · exact ⟨rfl, rfl, rfl⟩

theorem step_params (t : Tree) (e : Ev) :
    (t.step e).h = t.h ∧ (t.step e).total = t.total ∧ (t.step e).flavor = t.flavor := by
  cases e with
  | add id =>
    simp only [Tree.step, Tree.receive]
    split
    · exact ⟨rfl, rfl, rfl⟩
    · simp only [if_true, Tree.add]; split <;> exact ⟨rfl, rfl, rfl⟩
  | apply =>
    simp only [Tree.step]
    split
    · exact applyOne_params t
    · exact apply_params t

/-- a validated segment arriving: cached if it has the asked height, refused otherwise -/
theorem receive_inv (t : Tree) (id : Ident) (hi : Inv t) :
    Inv (t.receive id true).1 ∧ (t.receive id true).1.leaves = t.leaves := by
  unfold Tree.receive
  split
  · exact ⟨hi, rfl⟩
  · rename_i hh
    simp only [if_true]
    exact ⟨add_inv t id (by simpa using hh) hi, add_leaves t id⟩

theorem step_inv (t : Tree) (e : Ev) (hi : Inv t) :
    Inv (t.step e) ∧ t.leaves ≤ (t.step e).leaves := by
  cases e with
  | add id =>
    obtain ⟨a, b⟩ := receive_inv t id hi
    exact ⟨a, by rw [show (t.step (.add id)) = (t.receive id true).1 from rfl, b]; exact Nat.le_refl _⟩
  | apply =>
    simp only [Tree.step]
    split
    · exact applyOne_inv t hi
    · exact apply_inv t hi

/-- **every** event sequence — segments of any height and index, in any order, any number of
times, interleaved with applies — keeps a tree regular and never loses leaves -/
theorem run_inv : ∀ (evs : List Ev) (t : Tree), Inv t →
    Inv (t.run evs) ∧ t.leaves ≤ (t.run evs).leaves ∧ (t.run evs).h = t.h ∧
      (t.run evs).total = t.total ∧ (t.run evs).flavor = t.flavor := by
  intro evs
  induction evs with
  | nil => intro t hi; exact ⟨hi, Nat.le_refl _, rfl, rfl, rfl⟩
  | cons e rest ih =>
    intro t hi
    obtain ⟨i1, l1⟩ := step_inv t e hi
    obtain ⟨p1, p2, p3⟩ := step_params t e
    obtain ⟨i2, l2, q1, q2, q3⟩ := ih (t.step e) i1
    have hr : t.run (e :: rest) = (t.step e).run rest := rfl
    rw [hr]
    exact ⟨i2, Nat.le_trans l1 l2, q1.trans p1, q2.trans p2, q3.trans p3⟩

/-- a segment of another height is refused: nothing changes -/
theorem receive_foreign (t : Tree) (id : Ident) (valid : Bool) (h : id.height ≠ t.h) :
    t.receive id valid = (t, false) := by
  unfold Tree.receive; rw [if_pos h]

theorem at_le_total (t : Tree) (o : Option Nat) (ha : At t o) : t.leaves ≤ t.total := by
  cases ha with
  | done h => omega
  | boundary k a b _ => omega
  | genesis _ b _ d => omega

/-- one round of an honest peer: deliver the segment the tree asks for, then apply -/
def deliverNext (t : Tree) : Tree :=
  match t.next with
  | some k => (t.add ⟨t.h, k⟩).step .apply
  | none => t

/-- `n` such rounds -/
def rounds : Nat → Tree → Tree
  | 0, t => t
  | n + 1, t => rounds n (deliverNext t)

theorem step_apply_progress (t : Tree) (k : Nat) (ha : At t (some k)) (hown : OwnCache t)
    (hc : ∃ c ∈ t.cache, c.idx = k) :
    t.leaves < (t.step .apply).leaves ∧ min ((k + 1) * 2 ^ t.h) t.total ≤ (t.step .apply).leaves := by
  simp only [Tree.step]
  split
  · obtain ⟨a, b⟩ := apply_progress_one t k ha hown hc
    exact ⟨b, by rw [a]; exact Nat.le_refl _⟩
  · obtain ⟨a, b⟩ := apply_progress_batch t k ha hown hc
    exact ⟨b, a⟩

theorem deliverNext_spec (t : Tree) (hi : Inv t) :
    Inv (deliverNext t) ∧ (deliverNext t).total = t.total ∧ (deliverNext t).h = t.h ∧
      (t.leaves = t.total → (deliverNext t).leaves = t.total) ∧
      (t.leaves ≠ t.total → t.leaves < (deliverNext t).leaves) := by
  obtain ⟨own, o, pos⟩ := hi
  unfold deliverNext
  cases hn : t.next with
  | none =>
    refine ⟨⟨own, o, pos⟩, rfl, rfl, fun h => h, ?_⟩
    intro hne
    cases pos with
    | done h => exact absurd h hne
    | boundary k a b c => rw [next_of_at t k (.boundary k a b c)] at hn; cases hn
    | genesis a b c d => rw [next_of_at t 0 (.genesis a b c d)] at hn; cases hn
  | some k =>
    simp only
    have e1 : (t.add ⟨t.h, k⟩).h = t.h := by unfold Tree.add; split <;> rfl
    have e2 : (t.add ⟨t.h, k⟩).total = t.total := by unfold Tree.add; split <;> rfl
    have iadd : Inv (t.add ⟨t.h, k⟩) := add_inv t ⟨t.h, k⟩ rfl ⟨own, o, pos⟩
    obtain ⟨i1, l1⟩ := step_inv (t.add ⟨t.h, k⟩) .apply iadd
    obtain ⟨p1, p2, _⟩ := step_params (t.add ⟨t.h, k⟩) .apply
    rw [add_leaves] at l1
    refine ⟨i1, p2.trans e2, p1.trans e1, ?_, ?_⟩
    · intro he
      obtain ⟨_, o', pos'⟩ := i1
      have := at_le_total _ o' pos'
      rw [p2, e2] at this
      omega
    · intro hne
      cases pos with
      | done h => exact absurd h hne
      | boundary k' a b c =>
        have hk : k = k' := by
          have := next_of_at t k' (.boundary k' a b c); rw [hn] at this; injection this
        subst hk
        have := (step_apply_progress (t.add ⟨t.h, k⟩) k (at_add t _ _ (.boundary k a b c)) iadd.own
          ⟨⟨t.h, k⟩, mem_add_self t _, rfl⟩).1
        rw [add_leaves] at this; exact this
      | genesis a b c d =>
        have hk : k = 0 := by
          have := next_of_at t 0 (.genesis a b c d); rw [hn] at this; injection this
        subst hk
        have := (step_apply_progress (t.add ⟨t.h, 0⟩) 0 (at_add t _ _ (.genesis a b c d)) iadd.own
          ⟨⟨t.h, 0⟩, mem_add_self t _, rfl⟩).1
        rw [add_leaves] at this; exact this

/-- an honest peer completes a tree in at most `total - leaves` rounds, whatever is in the cache -/
theorem rounds_complete : ∀ (n : Nat) (t : Tree), Inv t → t.total - t.leaves ≤ n →
    (rounds n t).leaves = t.total := by
  intro n
  induction n with
  | zero =>
    intro t hi hle
    obtain ⟨_, o, pos⟩ := hi
    have := at_le_total t o pos
    simp only [rounds]; omega
  | succ n ih =>
    intro t hi hle
    obtain ⟨i1, e1, _, hdone, hprog⟩ := deliverNext_spec t hi
    simp only [rounds]
    rw [← e1]
    apply ih _ i1
    by_cases he : t.leaves = t.total
    · rw [hdone he, e1]; omega
    · have := hprog he; rw [e1]; omega

end GV.Seg.Dsg
