import GrinVerif.Lemmas.NrdRepr
/-! Simulation: every operation of the NRD index (`Model/NrdIndex.lean`), primitive or composite,
is matched step by step by the specification operation on per-excess lists. -/
namespace GV.Nrd
variable {ε : Type} [DecidableEq ε]

/-- the store represents the specification state `S` -/
def Sim (kv : KV ε) (S : Spec ε) : Prop := ∀ e, Repr kv e (S e)

/-- representation invariant: the records of every excess encode some list -/
def Inv (kv : KV ε) : Prop := ∀ e, ∃ l, Repr kv e l

theorem Sim.inv {kv : KV ε} {S : Spec ε} (h : Sim kv S) : Inv kv := fun e => ⟨S e, h e⟩

theorem Sim.abs {kv : KV ε} {S : Spec ε} (h : Sim kv S) (e : ε) : abs kv e = S e := abs_repr (h e)

theorem Inv.sim {kv : KV ε} (h : Inv kv) : Sim kv (abs kv) := fun e => by
  obtain ⟨l, hl⟩ := h e
  rw [abs_repr hl]; exact hl

theorem sim_empty : Sim ({} : KV ε) (fun _ => []) := fun e => repr_empty e

@[simp] theorem upd_same (S : Spec ε) (e : ε) (l : List CommitPos) : upd S e l e = l := by simp [upd]
theorem upd_other (S : Spec ε) {e e' : ε} (l : List CommitPos) (h : e' ≠ e) : upd S e l e' = S e' := by
  simp [upd, h]

theorem upd_self (S : Spec ε) (e : ε) : upd S e (S e) = S := by
  funext e'; by_cases h : e' = e
  · subst h; simp
  · simp [upd, h]

theorem Sim.upd {kv kv' : KV ε} {S : Spec ε} {e : ε} {l : List CommitPos} (h : Sim kv S)
    (hr : Repr kv' e l) (hf : Frame kv kv' e) : Sim kv' (upd S e l) := by
  intro e'
  by_cases he : e' = e
  · subst he; simpa using hr
  · rw [upd_other S l he]; exact (h e').frame hf he

/-! ### primitive operations -/

theorem peekPos_sim {kv : KV ε} {S : Spec ε} (h : Sim kv S) (e : ε) : peekPos kv e = .ok (sPeek S e) :=
  peekPos_repr (h e)

theorem pushPos_sim {kv : KV ε} {S : Spec ε} (h : Sim kv S) (e : ε) (p : CommitPos) :
    ∃ kv', pushPos kv e p = ⟨kv', (sPush S e p).res⟩ ∧ Sim kv' (sPush S e p).st := by
  unfold sPush
  cases hok : specPushOk (S e) p with
  | true =>
    obtain ⟨kv', h1, h2, h3⟩ := pushPos_repr p (h e) hok
    exact ⟨kv', by simpa using h1, by simpa using h.upd h2 h3⟩
  | false =>
    exact ⟨kv, by simpa using pushPos_repr_err p (h e) hok, by simpa using h⟩

theorem popPos_sim {kv : KV ε} {S : Spec ε} (h : Sim kv S) (e : ε) :
    ∃ kv', popPos kv e = ⟨kv', (sPop S e).res⟩ ∧ Sim kv' (sPop S e).st := by
  obtain ⟨kv', h1, h2, h3⟩ := popPos_repr (h e)
  exact ⟨kv', h1, h.upd h2 h3⟩

theorem popPosBack_sim {kv : KV ε} {S : Spec ε} (h : Sim kv S) (e : ε) :
    ∃ kv', popPosBack kv e = ⟨kv', (sPopBack S e).res⟩ ∧ Sim kv' (sPopBack S e).st := by
  obtain ⟨kv', h1, h2, h3⟩ := popPosBack_repr (h e)
  exact ⟨kv', h1, h.upd h2 h3⟩

theorem rewind_sim {kv : KV ε} {S : Spec ε} (h : Sim kv S) (e : ε) (r : Nat) :
    ∃ kv', rewind kv e r = ⟨kv', .ok ()⟩ ∧ Sim kv' (sRewind S e r).st := by
  obtain ⟨kv', h1, h2, h3⟩ := rewind_repr r (h e)
  exact ⟨kv', h1, h.upd h2 h3⟩

theorem pruneBack_sim {kv : KV ε} {S : Spec ε} (h : Sim kv S) (e : ε) (c : Nat) :
    ∃ kv', pruneBack kv e c = ⟨kv', .ok ()⟩ ∧ Sim kv' (sPruneBack S e c).st := by
  obtain ⟨kv', h1, h2, h3⟩ := pruneBack_repr c (h e)
  exact ⟨kv', h1, h.upd h2 h3⟩

theorem clear_sim (kv : KV ε) (S : Spec ε) :
    ∃ kv', clear kv = ⟨kv', (sClear S).res⟩ ∧ Sim kv' (sClear S).st := ⟨{}, rfl, sim_empty⟩

/-! ### the callers in txhashset.rs -/

theorem applyKernelRules_sim {kv : KV ε} {S : Spec ε} (h : Sim kv S) (k : Kernel ε) (pos : CommitPos) :
    ∃ kv', applyKernelRules kv k pos = ⟨kv', (sApplyKernelRules S k pos).res⟩ ∧
      Sim kv' (sApplyKernelRules S k pos).st := by
  unfold applyKernelRules sApplyKernelRules
  cases hn : k.nrd with
  | none => exact ⟨kv, rfl, h⟩
  | some rel =>
    simp only [peekPos_sim h, sPeek]
    cases hl : S k.excess with
    | nil =>
      have := pushPos_sim h k.excess pos
      simpa [specNrdOk, hl] using this
    | cons q t =>
      by_cases hlt : satSub pos.height q.height < rel
      · exact ⟨kv, by simp [specNrdOk, hlt], by simpa [specNrdOk, hlt] using h⟩
      · have := pushPos_sim h k.excess pos
        simpa [specNrdOk, hlt, hl] using this

theorem applyKernels_sim (height : Nat) (ks : List (Kernel ε × Nat)) {kv : KV ε} {S : Spec ε}
    (h : Sim kv S) :
    ∃ kv', applyKernels kv height ks = ⟨kv', (sApplyKernels S height ks).res⟩ ∧
      Sim kv' (sApplyKernels S height ks).st := by
  induction ks generalizing kv S with
  | nil => exact ⟨kv, rfl, h⟩
  | cons a rest ih =>
    obtain ⟨k, pos⟩ := a
    obtain ⟨kv1, h1, h2⟩ := applyKernelRules_sim h k ⟨pos, height⟩
    simp only [applyKernels, sApplyKernels, h1]
    generalize sApplyKernelRules S k ⟨pos, height⟩ = o at h1 h2 ⊢
    obtain ⟨S1, r1⟩ := o
    cases r1 with
    | error err => exact ⟨kv1, rfl, h2⟩
    | ok u => exact ih h2

theorem applyBlock_sim (b : Blk ε) {kv : KV ε} {S : Spec ε} (h : Sim kv S) :
    ∃ kv', applyBlock kv b = ⟨kv', (sApplyBlock S b).res⟩ ∧ Sim kv' (sApplyBlock S b).st :=
  applyKernels_sim b.height b.kernels h

theorem applyBlocks_sim (bs : List (Blk ε)) {kv : KV ε} {S : Spec ε} (h : Sim kv S) :
    ∃ kv', applyBlocks kv bs = ⟨kv', (sApplyBlocks S bs).res⟩ ∧ Sim kv' (sApplyBlocks S bs).st := by
  induction bs generalizing kv S with
  | nil => exact ⟨kv, rfl, h⟩
  | cons b rest ih =>
    obtain ⟨kv1, h1, h2⟩ := applyBlock_sim b h
    simp only [applyBlocks, sApplyBlocks, h1]
    generalize sApplyBlock S b = o at h1 h2 ⊢
    obtain ⟨S1, r1⟩ := o
    cases r1 with
    | error err => exact ⟨kv1, rfl, h2⟩
    | ok u => exact ih h2

theorem rewindKernels_sim (c : Nat) (ks : List (Kernel ε × Nat)) {kv : KV ε} {S : Spec ε}
    (h : Sim kv S) :
    ∃ kv', rewindKernels kv c ks = ⟨kv', .ok ()⟩ ∧ Sim kv' (sRewindKernels S c ks) := by
  induction ks generalizing kv S with
  | nil => exact ⟨kv, rfl, h⟩
  | cons a rest ih =>
    obtain ⟨k, pos⟩ := a
    cases hn : k.nrd with
    | none => simpa [rewindKernels, sRewindKernels, hn] using ih h
    | some rel =>
      obtain ⟨kv1, h1, h2⟩ := rewind_sim h k.excess c
      simpa [rewindKernels, sRewindKernels, hn, h1] using ih h2

theorem rewindSingleBlock_sim (b : Blk ε) {kv : KV ε} {S : Spec ε} (h : Sim kv S) :
    ∃ kv', rewindSingleBlock kv b = ⟨kv', .ok ()⟩ ∧ Sim kv' (sRewindSingleBlock S b) :=
  rewindKernels_sim b.prevSize b.kernels h

theorem rewindBlocks_sim (bs : List (Blk ε)) {kv : KV ε} {S : Spec ε} (h : Sim kv S) :
    ∃ kv', rewindBlocks kv bs = ⟨kv', .ok ()⟩ ∧ Sim kv' (sRewindBlocks S bs) := by
  induction bs generalizing kv S with
  | nil => exact ⟨kv, rfl, h⟩
  | cons b rest ih =>
    obtain ⟨kv1, h1, h2⟩ := rewindSingleBlock_sim b h
    simpa [rewindBlocks, sRewindBlocks, h1] using ih h2

theorem verifyKernelPosIndex_sim (kv : KV ε) (bs : List (Blk ε)) :
    ∃ kv', verifyKernelPosIndex kv bs = ⟨kv', (sApplyBlocks (fun _ => []) bs).res⟩ ∧
      Sim kv' (sApplyBlocks (fun _ => []) bs).st :=
  applyBlocks_sim bs sim_empty

end GV.Nrd
