import GrinVerif.Lemmas.DesegWant
/-! `next_desired_segments` after the bitmap phase, for EVERY `max_elements`
(`chain/src/txhashset/desegmenter.rs`, the three `while (next_idx as usize) < total` loops and the
three `maybe_add_to_request` steps).

* `max_elements ≥ 3`: the request list contains the next output, the next rangeproof and the next
  kernel segment (each unless cached).  The reason is a counting argument, not luck: a tree whose
  next segment is NOT taken by its own loop (its range ends at the local size: the final segment
  that adds a single leaf — the loops test `last > local`, not `>=`) contributes nothing to the
  round-robin part, so the "ensure" steps never find the list full and never pop.
* `max_elements ≤ 2`: the quota `max_elements / 3` is 0, the loops add nothing and the list is what
  the three "ensure" steps leave: with `max_elements = 2` the rangeproof tree is starved, with
  `max_elements ≤ 1` the output and the rangeproof tree (`desired_small*`). -/
namespace GV.Deseg
open GV GV.Pmmr GV.Seg

/-! ## one request loop -/

theorem wantLoop_length (h A L : Nat) (cache : List Cached) (quota total : Nat) :
    ∀ (fuel idx added : Nat), added ≤ quota →
      (wantLoop h A L cache quota total idx added fuel).length ≤ quota - added
  | 0, _, _, _ => by simp [wantLoop]
  | fuel + 1, idx, added, ha => by
    unfold wantLoop
    split
    · split
      · simp
      · rename_i hne
        simp only
        split
        · have := wantLoop_length h A L cache quota total fuel (idx + 1) (added + 1) (by omega)
          simp only [List.length_cons]
          omega
        · have := wantLoop_length h A L cache quota total fuel (idx + 1) added ha
          omega
    · simp

/-- quota 0 (`max_elements < 3`): the loop breaks at once -/
theorem wantLoop_quota_zero (h A L : Nat) (cache : List Cached) (total idx fuel : Nat) :
    wantLoop h A L cache 0 total idx 0 fuel = [] := by
  have := wantLoop_length h A L cache 0 total fuel idx 0 (Nat.le_refl _)
  exact List.eq_nil_of_length_eq_zero (by omega)

/-- the identifier the loop starts at is taken first when its test succeeds -/
theorem wantLoop_head (h A L : Nat) (cache : List Cached) (quota total idx fuel : Nat)
    (hi : idx < total) (hq : 0 ≠ quota)
    (hc : (decide ((({ height := h, idx := idx } : Ident).posRange A).2 > L) &&
            !hasId cache { height := h, idx := idx }) = true) :
    ∃ r, wantLoop h A L cache quota total idx 0 (fuel + 1) = ({ height := h, idx := idx } : Ident) :: r := by
  unfold wantLoop
  rw [if_pos hi, if_neg hq]
  simp only
  rw [if_pos hc]
  exact ⟨_, rfl⟩

/-- … and when the test fails on the LAST identifier the loop adds nothing -/
theorem wantLoop_last (h A L : Nat) (cache : List Cached) (quota total idx fuel : Nat)
    (hi : ¬ idx + 1 < total)
    (hc : (decide ((({ height := h, idx := idx } : Ident).posRange A).2 > L) &&
            !hasId cache { height := h, idx := idx }) = false) :
    wantLoop h A L cache quota total idx 0 (fuel + 1) = [] := by
  unfold wantLoop
  split
  · split
    · rfl
    · simp only
      rw [hc]
      simp only [Bool.false_eq_true, if_false]
      cases fuel with
      | zero => rfl
      | succ f =>
        unfold wantLoop
        rw [if_neg hi]
  · rfl

theorem wantTree_length (h A : Nat) (t : Tree) (next : Option Nat) (q : Nat) :
    (wantTree h A t next q).length ≤ q := by
  unfold wantTree
  cases next with
  | none => simp
  | some n =>
    simp only
    have := wantLoop_length h A t.size t.cache q (Ident.countSegmentsRequired A h)
      (Ident.countSegmentsRequired A h - n) n 0 (Nat.zero_le _)
    omega

theorem wantTree_quota_zero (h A : Nat) (t : Tree) (next : Option Nat) : wantTree h A t next 0 = [] :=
  List.eq_nil_of_length_eq_zero (by have := wantTree_length h A t next 0; omega)

/-- a FULL segment that starts at or before the end of the local MMR (`n` leaves, `n` inside the
segment) ends beyond it: `last > local` holds (height ≥ 1: the segment has a root above its leaves) -/
theorem posRange_last_gt_full (id : Ident) (N n : Nat) (hh : id.height ≤ 61) (h1 : 1 ≤ id.height)
    (hN : N < 2 ^ 62) (hfit : (id.idx + 1) * 2 ^ id.height ≤ N) (hn : n < (id.idx + 1) * 2 ^ id.height) :
    mmr n < (id.posRange (mmr N)).2 := by
  have v : FullId id (mmr N) := ⟨by omega, by rw [nLeaves_mmr]; exact hfit, by rw [nLeaves_mmr]; exact hN⟩
  rw [(full_arith id (mmr N) v).2.2.2]
  unfold lastOf
  have hp := pow_pos' id.height
  have : n ≤ id.idx * 2 ^ id.height + (2 ^ id.height - 1) := by
    rw [Nat.succ_mul] at hn; omega
  have := Co.mmr_le_mmr this
  simp only
  omega

/-- **What one tree contributes to the round-robin part**, in a regular state with quota ≥ 1: the
segment that comes next is the FIRST identifier of the tree's part — or the part is empty (then the
next segment is the final one and adds a single leaf: `last = local`, the `>` test fails) -/
theorem wantTree_next (h N n k q : Nat) (t : Tree) (hh : h ≤ 61) (h1 : 1 ≤ h) (hN : N < 2 ^ 62)
    (hsz : t.size = mmr n) (p : Pos true h N n (some k)) (hq : 1 ≤ q)
    (hnc : hasId t.cache { height := h, idx := k } = false) :
    (∃ r, wantTree h (mmr N) t (some k) q = ({ height := h, idx := k } : Ident) :: r) ∨
      wantTree h (mmr N) t (some k) q = [] := by
  obtain ⟨hlo, hhi, hlt⟩ := p.bounds (fun _ => h1)
  have hk : k < Dsg.segCount N h := (idx_lt_segCount_iff _ _ _).mpr hlt
  unfold wantTree
  simp only
  rw [csr_mmr N h hh hN, hsz]
  obtain ⟨f, hf⟩ : ∃ f, Dsg.segCount N h - k = f + 1 := ⟨Dsg.segCount N h - k - 1, by omega⟩
  rw [hf]
  by_cases hgt : (({ height := h, idx := k } : Ident).posRange (mmr N)).2 > mmr n
  · left
    refine wantLoop_head h (mmr N) (mmr n) t.cache q _ k f hk (by omega) ?_
    rw [hnc]
    simp only [Bool.not_false, Bool.and_true, decide_eq_true_eq]
    exact hgt
  · right
    refine wantLoop_last h (mmr N) (mmr n) t.cache q _ k f ?_ ?_
    · intro hk1
      have hfull : (k + 1) * 2 ^ h < N := (idx_lt_segCount_iff _ _ _).mp hk1
      exact hgt (posRange_last_gt_full ⟨h, k⟩ N n hh h1 hN (Nat.le_of_lt hfull) hhi)
    · have : decide ((({ height := h, idx := k } : Ident).posRange (mmr N)).2 > mmr n) = false := by
        simp only [decide_eq_false_iff_not]; exact hgt
      rw [this]; rfl

/-! ## the "ensure" steps -/

/-- `maybe_add_to_request` while the list is not full: nothing is popped -/
theorem maybeAdd_room (max : Nat) (acc : List (Kind × Ident)) (x : Kind × Ident) (hx : x ∉ acc)
    (hl : acc.length < max) : maybeAdd max acc x = acc ++ [x] := by
  unfold maybeAdd
  have : acc.contains x = false := by
    cases hc : acc.contains x with
    | false => rfl
    | true => exact absurd (List.contains_iff_mem.mp hc) hx
  rw [this]
  simp only [Bool.false_eq_true, if_false]
  rw [if_neg (by omega)]

/-- one "ensure" step, seen together with the part its tree contributed to the list: if that part
holds the next segment or is empty, and an empty part leaves room, the step pops nothing, appends
at most one identifier (none when the part is not empty) and afterwards the next segment is in the
list -/
theorem ensure_step (max : Nat) (acc part : List (Kind × Ident)) (K : Kind) (h : Nat) (next : Option Nat)
    (cache : List Cached) (hsub : ∀ y ∈ part, y ∈ acc)
    (hp : ∀ n, next = some n → hasId cache { height := h, idx := n } = false →
      (K, ({ height := h, idx := n } : Ident)) ∈ part ∨ part = [])
    (hlen : part.length = 0 → acc.length < max) :
    ∃ l, ensureNext max acc K h next cache = acc ++ l ∧ l.length ≤ 1 ∧ (0 < part.length → l.length = 0) ∧
      (∀ n, next = some n → hasId cache { height := h, idx := n } = false →
        (K, ({ height := h, idx := n } : Ident)) ∈ acc ++ l) := by
  cases next with
  | none =>
    refine ⟨[], by simp [ensureNext], by simp, by simp, ?_⟩
    intro n hn; cases hn
  | some n =>
    by_cases hc : hasId cache { height := h, idx := n } = true
    · refine ⟨[], by simp [ensureNext, hc], by simp, by simp, ?_⟩
      intro m hm hnc
      injection hm with hm; subst hm
      rw [hc] at hnc; cases hnc
    · have hc' : hasId cache { height := h, idx := n } = false := by
        cases hb : hasId cache { height := h, idx := n } with
        | false => rfl
        | true => exact absurd hb hc
      by_cases hmem : (K, ({ height := h, idx := n } : Ident)) ∈ acc
      · refine ⟨[], ?_, by simp, by simp, ?_⟩
        · unfold ensureNext
          simp only [hc', Bool.false_eq_true, if_false]
          unfold maybeAdd
          rw [if_pos (List.contains_iff_mem.mpr hmem)]
          simp
        · intro m hm _
          injection hm with hm; subst hm
          simpa using hmem
      · have hpart : part = [] := by
          rcases hp n rfl hc' with h1 | h1
          · exact absurd (hsub _ h1) hmem
          · exact h1
        have hroom : acc.length < max := hlen (by rw [hpart]; rfl)
        refine ⟨[(K, { height := h, idx := n })], ?_, by simp, ?_, ?_⟩
        · unfold ensureNext
          simp only [hc', Bool.false_eq_true, if_false]
          exact maybeAdd_room max acc _ hmem hroom
        · intro h0; rw [hpart] at h0; simp at h0
        · intro m hm _
          injection hm with hm; subst hm
          exact List.mem_append_right _ List.mem_cons_self

/-- **The three "ensure" steps over the round-robin part never pop** when every tree's part has at
most `q ≥ 1` identifiers with `3·q ≤ max_elements` and holds its tree's next segment or is empty:
the final list extends the round-robin part and contains the next segment of each tree -/
theorem ensure_three (max q : Nat) (PO PR PK : List (Kind × Ident)) (hO hR hK : Nat)
    (no nr nk : Option Nat) (cO cR cK : List Cached) (hq : 1 ≤ q) (h3 : 3 * q ≤ max)
    (lO : PO.length ≤ q) (lR : PR.length ≤ q) (lK : PK.length ≤ q)
    (pO : ∀ n, no = some n → hasId cO { height := hO, idx := n } = false →
      (Kind.output, ({ height := hO, idx := n } : Ident)) ∈ PO ∨ PO = [])
    (pR : ∀ n, nr = some n → hasId cR { height := hR, idx := n } = false →
      (Kind.rangeproof, ({ height := hR, idx := n } : Ident)) ∈ PR ∨ PR = [])
    (pK : ∀ n, nk = some n → hasId cK { height := hK, idx := n } = false →
      (Kind.kernel, ({ height := hK, idx := n } : Ident)) ∈ PK ∨ PK = []) :
    ∃ l, ensureNext max (ensureNext max (ensureNext max (PO ++ PR ++ PK) .output hO no cO)
        .rangeproof hR nr cR) .kernel hK nk cK = (PO ++ PR ++ PK) ++ l ∧
      (∀ n, no = some n → hasId cO { height := hO, idx := n } = false →
        (Kind.output, ({ height := hO, idx := n } : Ident)) ∈ (PO ++ PR ++ PK) ++ l) ∧
      (∀ n, nr = some n → hasId cR { height := hR, idx := n } = false →
        (Kind.rangeproof, ({ height := hR, idx := n } : Ident)) ∈ (PO ++ PR ++ PK) ++ l) ∧
      (∀ n, nk = some n → hasId cK { height := hK, idx := n } = false →
        (Kind.kernel, ({ height := hK, idx := n } : Ident)) ∈ (PO ++ PR ++ PK) ++ l) := by
  have hlen0 : (PO ++ PR ++ PK).length = PO.length + PR.length + PK.length := by
    simp only [List.length_append]
  obtain ⟨l1, e1, b1, z1, m1⟩ := ensure_step max (PO ++ PR ++ PK) PO .output hO no cO
    (fun y hy => List.mem_append_left _ (List.mem_append_left _ hy)) pO (by intro h0; omega)
  rw [e1]
  obtain ⟨l2, e2, b2, z2, m2⟩ := ensure_step max ((PO ++ PR ++ PK) ++ l1) PR .rangeproof hR nr cR
    (fun y hy => List.mem_append_left _ (List.mem_append_left _ (List.mem_append_right _ hy))) pR
    (by intro h0; rw [List.length_append, hlen0]; omega)
  rw [e2]
  obtain ⟨l3, e3, b3, z3, m3⟩ := ensure_step max (((PO ++ PR ++ PK) ++ l1) ++ l2) PK .kernel hK nk cK
    (fun y hy => List.mem_append_left _ (List.mem_append_left _ (List.mem_append_right _ hy))) pK
    (by intro h0; rw [List.length_append, List.length_append, hlen0]; omega)
  rw [e3]
  refine ⟨l1 ++ l2 ++ l3, by simp only [List.append_assoc], ?_, ?_, ?_⟩
  · intro n hn hc
    have := m1 n hn hc
    simp only [List.mem_append] at this ⊢
    rcases this with h | h
    · exact Or.inl h
    · exact Or.inr (Or.inl (Or.inl h))
  · intro n hn hc
    have := m2 n hn hc
    simp only [List.mem_append] at this ⊢
    rcases this with (h | h) | h
    · exact Or.inl h
    · exact Or.inr (Or.inl (Or.inl h))
    · exact Or.inr (Or.inl (Or.inr h))
  · intro n hn hc
    have := m3 n hn hc
    simp only [List.mem_append] at this ⊢
    rcases this with ((h | h) | h) | h
    · exact Or.inl h
    · exact Or.inr (Or.inl (Or.inl h))
    · exact Or.inr (Or.inl (Or.inr h))
    · exact Or.inr (Or.inr h)

/-- membership in a tagged part -/
theorem mem_tag_of_head (K : Kind) (id : Ident) (l r : List Ident) (h : l = id :: r) :
    (K, id) ∈ l.map (fun i => (K, i)) := by
  rw [h]; exact List.mem_cons_self

/-- the part a tree contributes, tagged: holds the next segment or is empty -/
theorem part_prop (K : Kind) (h N q : Nat) (t : Tree) (next : Option Nat) (hh : h ≤ 61) (h1 : 1 ≤ h)
    (hN : N < 2 ^ 62) (ok : TreeOk true h N t) (hq : 1 ≤ q)
    (hnext : ∀ k, Pos true h N t.leaves (some k) → next = some k)
    (hdone : Pos true h N t.leaves none → wantTree h (mmr N) t next q = []) :
    ∀ n, next = some n → hasId t.cache { height := h, idx := n } = false →
      (K, ({ height := h, idx := n } : Ident)) ∈ (wantTree h (mmr N) t next q).map (fun i => (K, i)) ∨
        (wantTree h (mmr N) t next q).map (fun i => (K, i)) = [] := by
  intro n hn hnc
  obtain ⟨o, p⟩ := ok.pos'
  cases o with
  | none => right; rw [hdone p]; rfl
  | some k =>
    have hk := hnext k p
    rw [hn] at hk; injection hk with hk; subst hk
    rw [hn]
    rcases wantTree_next h N t.leaves n q t hh h1 hN ok.size_eq p hq hnc with ⟨r, hr⟩ | he
    · left; exact mem_tag_of_head K _ _ r hr
    · right; rw [he]; rfl

/-- a complete output / rangeproof tree contributes nothing to the round-robin part, also when
`next_required_*_segment_index` keeps naming its last, not full segment -/
theorem wantTree_done_prunable (h N q : Nat) (t : Tree) (hh : h ≤ 61) (h1 : 1 ≤ h) (hN : N < 2 ^ 62)
    (hN1 : 1 ≤ N) (hsz : t.size = mmr N) :
    wantTree h (mmr N) t (nextRequiredPrunable h (mmr N) (mmr N)) q = [] := by
  rcases nextPrunable_done h N hh h1 hN hN1 with ⟨e, _⟩ | ⟨e, hlo, hhi⟩
  · rw [e]; rfl
  · rw [e]
    have hpos := segCount_pos N h (by omega)
    unfold wantTree
    simp only
    rw [csr_mmr N h hh hN, hsz]
    have hf : Dsg.segCount N h - (Dsg.segCount N h - 1) = 0 + 1 := by omega
    rw [hf]
    refine wantLoop_last h (mmr N) (mmr N) t.cache q _ _ 0 (by omega) ?_
    have hl := posRange_last_final ⟨h, Dsg.segCount N h - 1⟩ N hh hN hlo (by
      show N < (Dsg.segCount N h - 1 + 1) * 2 ^ h
      rw [Nat.sub_add_cancel hpos]; exact hhi)
    have : decide ((({ height := h, idx := Dsg.segCount N h - 1 } : Ident).posRange (mmr N)).2 > mmr N) = false := by
      simp only [decide_eq_false_iff_not]; rw [hl]; omega
    rw [this]; rfl

/-- **After the bitmap phase, with `max_elements ≥ 3`, the request list contains the segment that
comes next in EACH of the three trees** (unless it is cached), in every regular state -/
theorem desired_all_next (No Nk : Nat) (s : St) (hi : Inv No Nk s) (hbc : s.bitmapCache = true)
    (max : Nat) (hm : 3 ≤ max) :
    (∀ k, Pos true s.hO No s.out.leaves (some k) → hasId s.out.cache { height := s.hO, idx := k } = false →
      (Kind.output, ({ height := s.hO, idx := k } : Ident)) ∈ s.desired max) ∧
    (∀ k, Pos true s.hR No s.rp.leaves (some k) → hasId s.rp.cache { height := s.hR, idx := k } = false →
      (Kind.rangeproof, ({ height := s.hR, idx := k } : Ident)) ∈ s.desired max) ∧
    (∀ k, Pos true s.hK Nk s.ker.leaves (some k) → hasId s.ker.cache { height := s.hK, idx := k } = false →
      (Kind.kernel, ({ height := s.hK, idx := k } : Ident)) ∈ s.desired max) := by
  obtain ⟨nvb, nvo, nvr, nvk⟩ := next_values No Nk s hi
  obtain ⟨par, bm, _, out, rp, ker, _, _⟩ := hi
  have hq : 1 ≤ max / 3 := by omega
  have h3 : 3 * (max / 3) ≤ max := by omega
  have pO := part_prop .output s.hO No (max / 3) s.out (s.nextRequired .output) par.hO par.hO1 par.NoS out hq nvo
    (by
      intro p
      have hl : s.out.size = mmr No := by rw [out.size_eq, p.eq_of_none]
      have : s.nextRequired .output = nextRequiredPrunable s.hO (mmr No) (mmr No) := by
        show nextRequiredPrunable s.hO s.outSize s.out.size = _
        rw [par.out, hl]
      rw [this]
      exact wantTree_done_prunable s.hO No _ s.out par.hO par.hO1 par.NoS par.No1 hl)
  have pR := part_prop .rangeproof s.hR No (max / 3) s.rp (s.nextRequired .rangeproof) par.hR par.hR1 par.NoS rp hq nvr
    (by
      intro p
      have hl : s.rp.size = mmr No := by rw [rp.size_eq, p.eq_of_none]
      have : s.nextRequired .rangeproof = nextRequiredPrunable s.hR (mmr No) (mmr No) := by
        show nextRequiredPrunable s.hR s.outSize s.rp.size = _
        rw [par.out, hl]
      rw [this]
      exact wantTree_done_prunable s.hR No _ s.rp par.hR par.hR1 par.NoS par.No1 hl)
  have pK := part_prop .kernel s.hK Nk (max / 3) s.ker (s.nextRequired .kernel) par.hK par.hK1 par.NkS ker hq
    (fun k p => nvk _ p)
    (by intro p; rw [nvk _ p]; rfl)
  obtain ⟨l, el, mo, mr, mk⟩ := ensure_three max (max / 3) _ _ _ s.hO s.hR s.hK
    (s.nextRequired .output) (s.nextRequired .rangeproof) (s.nextRequired .kernel)
    s.out.cache s.rp.cache s.ker.cache hq h3
    (by rw [List.length_map]; exact wantTree_length _ _ _ _ _)
    (by rw [List.length_map]; exact wantTree_length _ _ _ _ _)
    (by rw [List.length_map]; exact wantTree_length _ _ _ _ _) pO pR pK
  unfold St.desired
  rw [hbc]
  simp only [Bool.not_true, Bool.false_eq_true, if_false]
  rw [par.out, par.ker, el]
  exact ⟨fun k p hc => mo k (nvo k p) hc, fun k p hc => mr k (nvr k p) hc, fun k p hc => mk k (nvk _ p) hc⟩

/-! ## `max_elements ≤ 2` -/

/-- **With `max_elements ≤ 2` the round-robin part is empty** (quota `max_elements / 3 = 0`): the
request list is what the three "ensure" steps build from nothing -/
theorem desired_small (s : St) (hbc : s.bitmapCache = true) (max : Nat) (hm : max ≤ 2) :
    s.desired max =
      ensureNext max (ensureNext max (ensureNext max [] .output s.hO (s.nextRequired .output) s.out.cache)
        .rangeproof s.hR (s.nextRequired .rangeproof) s.rp.cache) .kernel s.hK (s.nextRequired .kernel) s.ker.cache := by
  have hq : max / 3 = 0 := by omega
  unfold St.desired
  rw [hbc]
  simp only [Bool.not_true, Bool.false_eq_true, if_false]
  rw [hq, wantTree_quota_zero, wantTree_quota_zero, wantTree_quota_zero]
  rfl

/-- … so when all three trees wait for a segment that is not cached: `max_elements = 2` asks for the
output and the kernel segment (the rangeproof tree is starved), `max_elements ≤ 1` for the kernel
segment only (output and rangeproof trees starved) -/
theorem desired_small_all (s : St) (hbc : s.bitmapCache = true) (o r k : Nat)
    (ho : s.nextRequired .output = some o) (hr : s.nextRequired .rangeproof = some r)
    (hk : s.nextRequired .kernel = some k)
    (co : hasId s.out.cache { height := s.hO, idx := o } = false)
    (cr : hasId s.rp.cache { height := s.hR, idx := r } = false)
    (ck : hasId s.ker.cache { height := s.hK, idx := k } = false) :
    s.desired 2 = [(Kind.output, ⟨s.hO, o⟩), (Kind.kernel, ⟨s.hK, k⟩)] ∧
    s.desired 1 = [(Kind.kernel, ⟨s.hK, k⟩)] ∧ s.desired 0 = [(Kind.kernel, ⟨s.hK, k⟩)] := by
  refine ⟨?_, ?_, ?_⟩
  · rw [desired_small s hbc 2 (by omega), ho, hr, hk]
    simp [ensureNext, maybeAdd, co, cr, ck]
  · rw [desired_small s hbc 1 (by omega), ho, hr, hk]
    simp [ensureNext, maybeAdd, co, cr, ck]
  · rw [desired_small s hbc 0 (by omega), ho, hr, hk]
    simp [ensureNext, maybeAdd, co, cr, ck]

end GV.Deseg
