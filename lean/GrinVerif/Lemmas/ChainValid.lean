import GrinVerif.Lemmas.ChainInv
/-! Validity along the block's own path (`VOP`), the header invariants, and the exact conditions
under which `processBlockSingle` stores a block or puts it into the orphan pool. -/
namespace GV.Chain

/-- *valid on path*: the block and all its ancestors down to the genesis `0` are registered and
pass the header rules (`HdrOk`) and `checkBlock` against the replayed state of their own parent.
A function of the definitions (`outs`, `blks`) only. -/
inductive VOP (p : Params) (n : Node) : Nat → Prop
  | genesis : VOP p n 0
  | child (b : Blk) (par : Nat) (s' : UState) : n.blk b.id = some b → b.parent = some par →
      VOP p n par → HdrOk p n b → checkBlock p n b par = .ok s' → VOP p n b.id

theorem VOP_congr' {n m : Node} (ho : n.outs = m.outs) (hb : n.blks = m.blks) (p : Params)
    (id : Nat) (h : VOP p n id) : VOP p m id := by
  induction h with
  | genesis => exact .genesis
  | child b par s' h1 h2 _ h4 h5 ih =>
    exact .child b par s' (blk_congr hb _ ▸ h1) h2 ih ((HdrOk_congr hb p b).mp h4)
      (checkBlock_congr ho hb p b par ▸ h5)

theorem VOP_congr {n m : Node} (ho : n.outs = m.outs) (hb : n.blks = m.blks) (p : Params)
    (id : Nat) : VOP p n id ↔ VOP p m id :=
  ⟨VOP_congr' ho hb p id, VOP_congr' ho.symm hb.symm p id⟩

/-- inversion for a registered block other than the genesis -/
theorem VOP.inv {p : Params} {n : Node} {b : Blk} (h : VOP p n b.id) (hb : n.blk b.id = some b)
    (h0 : b.id ≠ 0) : ∃ par s', b.parent = some par ∧ VOP p n par ∧ HdrOk p n b ∧
      checkBlock p n b par = .ok s' := by
  generalize hid : b.id = id at h
  cases h with
  | genesis => exact absurd hid h0
  | child b' par s' h1 h2 h3 h4 h5 =>
    rw [← hid] at h1
    have : b' = b := by
      have := h1.symm.trans hb
      exact Option.some.inj this
    subst this
    exact ⟨par, s', h2, h3, h4, h5⟩


/-! ### exact conditions for storing / pooling a block -/

theorem processBlockSingle_header_ok {p : Params} {n n1 : Node} {b : Blk}
    (h1 : processHeader p n b = .ok n1) :
    processBlockSingle p n b =
      match precheck n1 b with
      | .reject e => (n1, .err e)
      | .orphan => (addOrphan n1 b, .err "Orphan")
      | .go par => match checkBlock p n1 b par with
        | .error e => (n1, .err e)
        | .ok _ => storeBlock n1 b := by
  simp only [processBlockSingle, h1]
  rfl

/-- the header gate passes for a block that is not known, whose parent header is known and whose
header is valid; the node that results has the same head / store / definitions / pool -/
theorem processHeader_gate (p : Params) (n : Node) (b : Blk) (par : Nat) (hk : ¬ KnownFull n b)
    (hpar : b.parent = some par) (hph : par ∈ n.headers) (hv : HdrOk p n b) :
    ∃ n1, processHeader p n b = .ok n1 ∧ (n1 = n ∨ n1 = hdrUpdate n b) := by
  have hvn : validateHeader p n b = none :=
    (validateHeader_none_iff p n b).mpr ⟨hv, par, hpar, hph⟩
  rcases processHeader_valid p n b hk par hpar hph hvn with h | h
  · exact ⟨n, h, Or.inl rfl⟩
  · exact ⟨_, h, Or.inr rfl⟩

/-- a valid, not yet known block whose parent is stored **is** stored -/
theorem processBlockSingle_stores (p : Params) (n : Node) (b : Blk) (par : Nat) (s' : UState)
    (hk : ¬ KnownFull n b) (hpar : b.parent = some par) (hps : par ∈ n.stored)
    (hph : par ∈ n.headers) (hv : HdrOk p n b) (hc : checkBlock p n b par = .ok s') :
    ∃ n1, processHeader p n b = .ok n1 ∧ processBlockSingle p n b = storeBlock n1 b := by
  obtain ⟨n1, h1, _⟩ := processHeader_gate p n b par hk hpar hph hv
  have hf := processHeader_frame p n n1 b h1
  refine ⟨n1, h1, ?_⟩
  have hk1 : ¬ KnownFull n1 b := fun h => hk ((KnownFull_congr hf.2.2.1 hf.1 hf.2.1 b).mp h)
  have hg : precheck n1 b = .go par := precheck_go_of n1 b par hpar (Or.inr (hf.2.1 ▸ hps)) hk1
  have hc1 : checkBlock p n1 b par = .ok s' := by
    rw [checkBlock_congr hf.2.2.2.2 hf.2.2.1]; exact hc
  rw [processBlockSingle_header_ok h1]
  simp only [hg, hc1]

/-- a not yet known block with a valid header whose parent is not stored goes to the orphan pool -/
theorem processBlockSingle_pools (p : Params) (n : Node) (b : Blk) (par : Nat)
    (hk : ¬ KnownFull n b) (hpar : b.parent = some par) (hps : par ∉ n.stored) (hne : par ≠ n.head)
    (hph : par ∈ n.headers) (hv : HdrOk p n b) :
    ∃ n1, processHeader p n b = .ok n1 ∧ processBlockSingle p n b = (addOrphan n1 b, .err "Orphan") := by
  obtain ⟨n1, h1, _⟩ := processHeader_gate p n b par hk hpar hph hv
  have hf := processHeader_frame p n n1 b h1
  refine ⟨n1, h1, ?_⟩
  have hpre : precheck n1 b = .orphan := by
    cases hpc : precheck n1 b with
    | orphan => rfl
    | reject e =>
      exfalso
      rcases precheck_reject n1 b e hpc with h | h
      · exact hk ((KnownFull_congr hf.2.2.1 hf.1 hf.2.1 b).mp h)
      · rw [hpar] at h; cases h
    | go par' =>
      exfalso
      obtain ⟨hp', hs', _⟩ := precheck_go n1 b par' hpc
      rw [hpar] at hp'; cases hp'
      rw [hf.1, hf.2.1] at hs'
      rcases hs' with h | h
      · exact hne h
      · exact hps h
  rw [processBlockSingle_header_ok h1]
  simp only [hpre]

/-! ### header and store invariants -/

/-- a finer decomposition of `Preserved.single`: header step, pool change, store step -/
structure PreservedParts (p : Params) (P : Node → Prop) : Prop where
  header : ∀ n b n', n.blk b.id = some b → processHeader p n b = .ok n' → P n → P n'
  orphans : ∀ n os, P n → P { n with orphans := os }
  store : ∀ n n1 b par s', n.blk b.id = some b → processHeader p n b = .ok n1 → P n → P n1 →
    precheck n1 b = .go par → checkBlock p n1 b par = .ok s' → P (storeBlock n1 b).1

theorem PreservedParts.toPreserved {p : Params} {P : Node → Prop} (h : PreservedParts p P) :
    Preserved p P where
  header := h.header
  orphans := h.orphans
  single := by
    intro n b hb hn
    rcases processBlockSingle_spec p n b with ⟨e, _, hr⟩ | ⟨n1, h1, hr⟩
    · rw [hr]; exact hn
    · have hn1 := h.header n b n1 hb h1 hn
      rcases hr with ⟨e, _, hr⟩ | ⟨_, hr⟩ | ⟨par, hg, ⟨e, _, hr⟩ | ⟨s', hc, hr⟩⟩
      · rw [hr]; exact hn1
      · rw [hr]; exact h.orphans n1 _ hn1
      · rw [hr]; exact hn1
      · rw [hr]; exact h.store n n1 b par s' hb h1 hn hn1 hg hc

/-- stored blocks have known headers; every known header other than the genesis is the registered
definition of a block that passes the header rules and whose parent header is known -/
structure HdrInv (p : Params) (n : Node) : Prop where
  stored : ∀ s ∈ n.stored, s ∈ n.headers
  valid : ∀ h ∈ n.headers, h = 0 ∨ ∃ b par, n.blk h = some b ∧ HdrOk p n b ∧
    b.parent = some par ∧ par ∈ n.headers

theorem hdrUpdate_headers_mem (n : Node) (b : Blk) (h : Nat) :
    h ∈ (hdrUpdate n b).headers ↔ h ∈ n.headers ∨ h = b.id := by
  unfold hdrUpdate
  by_cases hc : b.id ∈ n.headers
  · simp only [List.contains_eq_mem, hc, decide_true, if_true]
    constructor
    · exact Or.inl
    · rintro (h1 | h1)
      · exact h1
      · subst h1; exact hc
  · simp [hc]

/-- the header of a block that went through the header gate and is not fully known is known
afterwards and valid -/
theorem header_after_gate (p : Params) (n n1 : Node) (b : Blk) (hb : n.blk b.id = some b)
    (h1 : processHeader p n b = .ok n1) (hk : ¬ KnownFull n b) (hi : HdrInv p n) :
    b.id ∈ n1.headers ∧ (b.id = 0 ∨ HdrOk p n b) := by
  rcases processHeader_ok_cases p n n1 b h1 with ⟨e, h | ⟨hm, _⟩⟩ | ⟨_, hv, e⟩
  · exact absurd h hk
  · subst e
    refine ⟨hm, ?_⟩
    rcases hi.valid b.id hm with h0 | ⟨b', par, hb', hv, _⟩
    · exact Or.inl h0
    · rw [hb] at hb'; cases hb'; exact Or.inr hv
  · subst e
    exact ⟨(hdrUpdate_headers_mem n b b.id).mpr (Or.inr rfl),
      Or.inr ((validateHeader_none_iff p n b).mp hv).1⟩

theorem parts_hdrInv (p : Params) : PreservedParts p (HdrInv p) where
  header := by
    intro n b n' hb hn hi
    have hf := processHeader_frame p n n' b hn
    rcases processHeader_ok_cases p n n' b hn with ⟨e, _⟩ | ⟨_, hv, e⟩
    · subst e; exact hi
    · subst e
      obtain ⟨hok, par, hpar, hpm⟩ := (validateHeader_none_iff p n b).mp hv
      refine ⟨?_, ?_⟩
      · intro s hs
        exact (hdrUpdate_headers_mem n b s).mpr (Or.inl (hi.stored s hs))
      · intro h hh
        rcases (hdrUpdate_headers_mem n b h).mp hh with hm | hm
        · rcases hi.valid h hm with h0 | ⟨b', par', hb', hv', hp', hpm'⟩
          · exact Or.inl h0
          · exact Or.inr ⟨b', par', hb', hv', hp', (hdrUpdate_headers_mem n b par').mpr (Or.inl hpm')⟩
        · subst hm
          exact Or.inr ⟨b, par, hb, hok, hpar, (hdrUpdate_headers_mem n b par).mpr (Or.inl hpm)⟩
  orphans := by intro n os h; exact ⟨h.stored, h.valid⟩
  store := by
    intro n n1 b par s' hb h1 hi hi1 hg _
    have hf := processHeader_frame p n n1 b h1
    have hk : ¬ KnownFull n b := fun h =>
      (precheck_go n1 b par hg).2.2 ((KnownFull_congr hf.2.2.1 hf.1 hf.2.1 b).mpr h)
    have hh := (header_after_gate p n n1 b hb h1 hk hi).1
    have hst : (storeBlock n1 b).1.headers = n1.headers ∧ (storeBlock n1 b).1.blks = n1.blks := by
      unfold storeBlock; split <;> exact ⟨rfl, rfl⟩
    refine ⟨?_, ?_⟩
    · intro s hs
      rw [storeBlock_stored] at hs
      rw [hst.1]
      rcases List.mem_append.mp hs with h | h
      · exact hi1.stored s h
      · have : s = b.id := by simpa using h
        subst this; exact hh
    · intro h hm
      rw [hst.1] at hm ⊢
      simp only [blk_congr hst.2, HdrOk_congr hst.2]
      exact hi1.valid h hm


theorem Preserved.and {p : Params} {P Q : Node → Prop} (hP : Preserved p P) (hQ : Preserved p Q) :
    Preserved p (fun n => P n ∧ Q n) where
  single := fun n b hb h => ⟨hP.single n b hb h.1, hQ.single n b hb h.2⟩
  orphans := fun n os h => ⟨hP.orphans n os h.1, hQ.orphans n os h.2⟩
  header := fun n b n' hb hn h => ⟨hP.header n b n' hb hn h.1, hQ.header n b n' hb hn h.2⟩

/-- the structural invariant of the block store: closed under parents, headers known and valid,
every stored block valid on its own path, no block stored twice -/
structure StoreInv (p : Params) (n : Node) : Prop where
  closed : StoredClosed n
  hdr : HdrInv p n
  valid : ∀ s ∈ n.stored, VOP p n s
  nodup : n.stored.Nodup

theorem parts_storeInv (p : Params) : PreservedParts p (StoreInv p) where
  header := by
    intro n b n' hb hn hi
    have hf := processHeader_frame p n n' b hn
    refine ⟨(preserved_storedClosed p).header n b n' hb hn hi.closed,
      (parts_hdrInv p).header n b n' hb hn hi.hdr, ?_, hf.2.1 ▸ hi.nodup⟩
    intro s hs
    exact (VOP_congr hf.2.2.2.2 hf.2.2.1 p s).mpr (hi.valid s (hf.2.1 ▸ hs))
  orphans := by
    intro n os h
    exact ⟨(preserved_storedClosed p).orphans n os h.closed, (parts_hdrInv p).orphans n os h.hdr,
      fun s hs => VOP_congr' (n := n) (m := { n with orphans := os }) rfl rfl p s (h.valid s hs), h.nodup⟩
  store := by
    intro n n1 b par s' hb h1 hi hi1 hg hc
    have hf := processHeader_frame p n n1 b h1
    obtain ⟨hpar, hp, hk1⟩ := precheck_go n1 b par hg
    have hk : ¬ KnownFull n b := fun h => hk1 ((KnownFull_congr hf.2.2.1 hf.1 hf.2.1 b).mpr h)
    have hps : par ∈ n1.stored := by
      rcases hp with h | h
      · exact h ▸ hi1.closed.head
      · exact h
    have hb1 : n1.blk b.id = some b := by rw [blk_congr hf.2.2.1]; exact hb
    have hst : (storeBlock n1 b).1.blks = n1.blks ∧ (storeBlock n1 b).1.outs = n1.outs := by
      unfold storeBlock; split <;> exact ⟨rfl, rfl⟩
    refine ⟨?_, (parts_hdrInv p).store n n1 b par s' hb h1 hi.hdr hi1.hdr hg hc, ?_, ?_⟩
    · refine ⟨?_, ?_, ?_⟩
      · rw [storeBlock_stored]; exact List.mem_append_left _ hi1.closed.zero
      · rw [storeBlock_stored]
        rcases storeBlock_head n1 b with ⟨a, _, _⟩ | ⟨a, _, _⟩
        · rw [a]; exact List.mem_append_left _ hi1.closed.head
        · rw [a]; simp
      · intro s hs b' par' hb' hp'
        rw [storeBlock_stored] at hs ⊢
        rw [blk_congr hst.1] at hb'
        rcases List.mem_append.mp hs with h | h
        · exact List.mem_append_left _ (hi1.closed.parent s h b' par' hb' hp')
        · have : s = b.id := by simpa using h
          subst this
          rw [hb1] at hb'; cases hb'
          rw [hpar] at hp'; cases hp'
          exact List.mem_append_left _ hps
    · intro s hs
      rw [storeBlock_stored] at hs
      rw [VOP_congr hst.2 hst.1]
      rcases List.mem_append.mp hs with h | h
      · exact hi1.valid s h
      · have : s = b.id := by simpa using h
        subst this
        rcases (header_after_gate p n n1 b hb h1 hk hi.hdr).2 with h0 | hv
        · rw [h0]; exact .genesis
        · exact .child b par s' hb1 hpar (hi1.valid par hps) ((HdrOk_congr hf.2.2.1 p b).mpr hv) hc
    · rw [storeBlock_stored]
      have hns : b.id ∉ n1.stored := fun h => hk1 (Or.inr (Or.inr h))
      exact List.nodup_append.mpr ⟨hi1.nodup, by simp, by
        intro a ha c hc'
        have : c = b.id := by simpa using hc'
        subst this
        intro e; subst e; exact hns ha⟩

/-- all node invariants together -/
def Inv (p : Params) (n : Node) : Prop := HeadMax n ∧ StoreInv p n

theorem preserved_inv (p : Params) : Preserved p (Inv p) :=
  (preserved_headMax p).and (parts_storeInv p).toPreserved


/-- a node that has processed nothing: only the genesis `0` is stored / known, the pool is empty,
and the definition registered under `0` (if any) has no parent -/
structure Fresh (n : Node) : Prop where
  stored : n.stored = [0]
  head : n.head = 0
  headers : n.headers = [0]
  orphans : n.orphans = []
  genesis : ∀ g, n.blk 0 = some g → g.parent = none

theorem Fresh.inv {n : Node} (p : Params) (h : Fresh n) : Inv p n := by
  refine ⟨?_, ⟨?_, ?_, ?_⟩, ⟨?_, ?_⟩, ?_, ?_⟩
  · intro s hs
    rw [h.stored] at hs
    have : s = 0 := by simpa using hs
    rw [this, h.head]; exact Nat.le_refl _
  · rw [h.stored]; simp
  · rw [h.stored, h.head]; simp
  · intro s hs b par hb hp
    rw [h.stored] at hs
    have : s = 0 := by simpa using hs
    subst this
    rw [h.genesis b hb] at hp; cases hp
  · intro s hs; rw [h.stored] at hs; rw [h.headers]; exact hs
  · intro x hx; rw [h.headers] at hx; left; simpa using hx
  · intro s hs
    rw [h.stored] at hs
    have : s = 0 := by simpa using hs
    rw [this]; exact .genesis
  · rw [h.stored]; simp

end GV.Chain
