import GrinVerif.Lemmas.PoolFee
/-! Kernel-variant admission rules (`TransactionPool::verify_kernel_variants`) on transactions with
ANY number of kernels, and what they buy for the mineable set: while `global::is_nrd_enabled()` is
false no entry of the txpool, the stempool or the reorg cache ever holds an NRD kernel, so the block
assembled from the mineable set passes the chain's feature-flag gate
(`Block::verify_nrd_kernels_for_header_version`, `blockNrdGate`).  Also: the replay of the reorg
cache reconciles the stempool after every entry it puts back. -/
namespace GV.Pool

/-! ### `verify_kernel_variants` looks at every kernel -/

/-- a kernel of a variant the pool has to refuse in context `c`: an NRD kernel while the feature
flag is off, or while the head's header version is below 4 -/
def PKer.refusedVariant (c : Ctx) (k : PKer) : Bool :=
  k.isNrd && (!c.cfg.nrdEnabled || decide (c.ver < 4))

theorem hasNrd_eq_any (t : Tx) : t.hasNrd = t.kers.any PKer.isNrd := rfl

theorem hasNrd_iff (t : Tx) : t.hasNrd = true ↔ ∃ k ∈ t.kers, k.isNrd = true := by
  rw [hasNrd_eq_any, List.any_eq_true]

theorem hasNrd_false_iff (t : Tx) : t.hasNrd = false ↔ ∀ k ∈ t.kers, k.isNrd = false := by
  rw [hasNrd_eq_any, List.any_eq_false]
  constructor
  · intro h k hk; simpa using h k hk
  · intro h k hk; simp [h k hk]

/-- the gate passes exactly when NO kernel of the list — wherever it stands — is of a refused
variant -/
theorem verifyKernelVariants_none_iff (c : Ctx) (t : Tx) :
    verifyKernelVariants c t = none ↔ ∀ k ∈ t.kers, k.refusedVariant c = false := by
  unfold verifyKernelVariants
  cases hn : t.hasNrd with
  | false =>
    simp only [Bool.false_eq_true, if_false, true_iff]
    intro k hk
    have := (hasNrd_false_iff t).mp hn k hk
    simp [PKer.refusedVariant, this]
  | true =>
    obtain ⟨k, hk, hkn⟩ := (hasNrd_iff t).mp hn
    simp only [if_true]
    cases hflag : c.cfg.nrdEnabled with
    | false =>
      simp only [Bool.not_false, if_true]
      constructor
      · intro h; simp at h
      · intro h; have := h k hk; simp [PKer.refusedVariant, hkn, hflag] at this
    | true =>
      simp only [Bool.not_true, Bool.false_eq_true, if_false]
      by_cases hv : c.ver < 4
      · simp only [hv, if_true]
        constructor
        · intro h; simp at h
        · intro h; have := h k hk; simp [PKer.refusedVariant, hkn, hv] at this
      · simp only [hv, if_false, true_iff]
        intro k' _
        simp [PKer.refusedVariant, hflag, hv]

/-- the error names the rule: the feature flag first, then the header version -/
theorem verifyKernelVariants_disabled {c : Ctx} {t : Tx} (hd : c.cfg.nrdEnabled = false)
    (h : t.hasNrd = true) : verifyKernelVariants c t = some "NRDKernelNotEnabled" := by
  simp [verifyKernelVariants, h, hd]

/-- the verdict does not depend on the order of the kernels -/
theorem verifyKernelVariants_perm (c : Ctx) {t t' : Tx} (h : t.kers.Perm t'.kers) :
    verifyKernelVariants c t = verifyKernelVariants c t' := by
  have hn : t.hasNrd = t'.hasNrd := by
    rw [Bool.eq_iff_iff, hasNrd_iff, hasNrd_iff]
    constructor
    · rintro ⟨k, hk, hp⟩; exact ⟨k, h.mem_iff.mp hk, hp⟩
    · rintro ⟨k, hk, hp⟩; exact ⟨k, h.mem_iff.mpr hk, hp⟩
  unfold verifyKernelVariants
  rw [hn]

/-- a transaction whose considered form (itself on the stem path, deaggregated on the fluff path)
does not pass `verify_kernel_variants` is refused, the pool unchanged, in any fill state -/
theorem addCore_refuses_variant {c : Ctx} {s : TxPool} (src : Src) (tx : Tx) (stem stemOk : Bool)
    (hbad : ∀ e, entryOf s src tx stem = .ok e → verifyKernelVariants c e.tx ≠ none) :
    ∃ er, s.addCore c src tx stem stemOk = (s, some er) := by
  unfold TxPool.addCore
  split
  · exact ⟨_, rfl⟩
  split
  · exact ⟨_, rfl⟩
  rename_i entry hentry
  simp only []
  split
  · exact ⟨_, rfl⟩
  · rename_i hvar
    exact absurd hvar (hbad entry hentry)

/-! ### an invariant of the entries, generic in the predicate -/

/-- every entry of the txpool, the stempool and the reorg cache satisfies `P` -/
def AllE (P : Entry → Prop) (s : TxPool) : Prop :=
  ∀ e, (e ∈ s.txpool ∨ e ∈ s.stempool ∨ e ∈ s.cache) → P e

theorem allE_of_subset {P : Entry → Prop} {s s' : TxPool} {entry : Entry} (hv : AllE P s) (hp : P entry)
    (h1 : ∀ e ∈ s'.txpool, e ∈ s.txpool ∨ e = entry) (h2 : ∀ e ∈ s'.stempool, e ∈ s.stempool ∨ e = entry)
    (h3 : ∀ e ∈ s'.cache, e ∈ s.cache ∨ e = entry) : AllE P s' := by
  intro e he
  rcases he with he | he | he
  · rcases h1 e he with h | h
    · exact hv e (Or.inl h)
    · subst h; exact hp
  · rcases h2 e he with h | h
    · exact hv e (Or.inr (Or.inl h))
    · subst h; exact hp
  · rcases h3 e he with h | h
    · exact hv e (Or.inr (Or.inr h))
    · subst h; exact hp

theorem tail_allE {P : Entry → Prop} {c : Ctx} {s1 s2 : TxPool} {entry : Entry} {r : Res} (hv1 : AllE P s1)
    (hp : P entry) (heq : s1.addToTxpool c entry = (s2, r)) :
    AllE P s2 ∧ AllE P (s2.addToReorgCache c entry) ∧
    AllE P { txpool := Pool.evict c (TxPool.addToReorgCache c s2 entry).txpool,
             stempool := (TxPool.addToReorgCache c s2 entry).stempool,
             cache := (TxPool.addToReorgCache c s2 entry).cache } := by
  obtain ⟨m1, m2, m3⟩ := addToTxpool_members c s1 entry
  rw [heq] at m1 m2 m3
  simp only at m1 m2 m3
  refine ⟨?_, ?_, ?_⟩
  · exact allE_of_subset hv1 hp m1 (fun e he => Or.inl (m2 e he)) (fun e he => by rw [m3] at he; exact Or.inl he)
  · refine allE_of_subset hv1 hp m1 (fun e he => Or.inl (m2 e he)) ?_
    intro e he
    rcases mem_addToReorgCache he with h | h
    · rw [m3] at h; exact Or.inl h
    · exact Or.inr h
  · refine allE_of_subset hv1 hp (fun e he => m1 e (mem_evict he)) (fun e he => Or.inl (m2 e he)) ?_
    intro e he
    rcases mem_addToReorgCache he with h | h
    · rw [m3] at h; exact Or.inl h
    · exact Or.inr h

/-- `add_to_pool`: whatever gets in - stem path, fluff path, at capacity with the eviction that
follows - is the considered form of the submitted transaction and passed `verify_kernel_variants` -/
theorem addCore_allE {P : Entry → Prop} {c : Ctx} {s : TxPool} (src : Src) (tx : Tx) (stem stemOk : Bool)
    (hv : AllE P s)
    (hP : ∀ entry, entryOf s src tx stem = .ok entry → verifyKernelVariants c entry.tx = none → P entry) :
    AllE P (s.addCore c src tx stem stemOk).1 := by
  unfold TxPool.addCore
  split
  · exact hv
  split
  · exact hv
  rename_i entry hentry
  simp only []
  split
  · exact hv
  rename_i hvar
  have hp : P entry := hP entry hentry hvar
  split
  · exact hv
  split
  · exact hv
  split
  · exact hv
  split
  · exact hv
  rename_i extra hextra
  split
  · exact hv
  split
  · exact hv
  cases stem with
  | false =>
    simp only [Bool.false_eq_true, if_false]
    split
    · rename_i s2 er heq; exact (tail_allE hv hp heq).1
    · rename_i s2 heq
      split
      · exact (tail_allE hv hp heq).2.2
      · exact (tail_allE hv hp heq).2.1
  | true =>
    simp only [if_true]
    cases hadd : Pool.addToPool c s.stempool entry extra with
    | error er => exact hv
    | ok sp =>
      have hsp := (addToPool_ok hadd).1
      have hv1 : AllE P { txpool := s.txpool, stempool := sp, cache := s.cache } := by
        refine allE_of_subset hv hp (fun e he => Or.inl he) ?_ (fun e he => Or.inl he)
        intro e he
        simp only at he
        rw [hsp] at he
        rcases List.mem_append.mp he with h | h
        · exact Or.inl h
        · right; simpa using h
      cases stemOk with
      | true => exact hv1
      | false =>
        simp only []
        split
        · rename_i s2 er heq; exact (tail_allE hv1 hp heq).1
        · rename_i s2 heq
          split
          · exact (tail_allE hv1 hp heq).2.2
          · exact (tail_allE hv1 hp heq).2.1

theorem addToPool_allE {P : Entry → Prop} {c : Ctx} {s : TxPool} (src : Src) (tx : Tx) (stem stemOk : Bool)
    (hv : AllE P s)
    (hP : ∀ st entry, entryOf s src tx st = .ok entry → verifyKernelVariants c entry.tx = none → P entry) :
    AllE P (s.addToPool c src tx stem stemOk).1 := by
  unfold TxPool.addToPool
  split
  · exact addCore_allE src tx false stemOk hv (hP false)
  · exact addCore_allE src tx stem stemOk hv (hP stem)

theorem foldl_addToTxpool_allE {P : Entry → Prop} (c : Ctx) (l : List Entry) (acc : TxPool) (hv : AllE P acc)
    (hl : ∀ e ∈ l, P e) : AllE P (l.foldl (fun acc e => (acc.addToTxpool c e).1) acc) := by
  induction l generalizing acc with
  | nil => exact hv
  | cons e rest ih =>
    simp only [List.foldl_cons]
    apply ih
    · obtain ⟨m1, m2, m3⟩ := addToTxpool_members c acc e
      exact allE_of_subset hv (hl e (by simp)) m1 (fun x hx => Or.inl (m2 x hx))
        (fun x hx => by rw [m3] at hx; exact Or.inl hx)
    · intro x hx; exact hl x (by simp [hx])

/-- every operation other than a submission only moves or drops entries -/
theorem step_allE {P : Entry → Prop} (cs : Ctx × TxPool) (op : Op) (hv : AllE P cs.2)
    (hP : ∀ src tx stem ok, op = .submit src tx stem ok → ∀ st entry, entryOf cs.2 src tx st = .ok entry →
      verifyKernelVariants cs.1 entry.tx = none → P entry) :
    AllE P (step cs op).2 := by
  cases op with
  | submit src tx stem ok => exact addToPool_allE src tx stem ok hv (hP src tx stem ok rfl)
  | block head ver ins kers =>
    obtain ⟨m1, m2, m3⟩ := reconcileBlock_members { cs.1 with head := head, ver := ver } cs.2 ins kers
    intro e he
    simp only [step] at he
    rcases he with he | he | he
    · exact hv e (Or.inl (m1 e he))
    · exact hv e (Or.inr (Or.inl (m2 e he)))
    · rw [m3] at he; exact hv e (Or.inr (Or.inr he))
  | reorgCache =>
    exact foldl_addToTxpool_allE cs.1 cs.2.cache cs.2 hv (fun e he => hv e (Or.inr (Or.inr he)))
  | evict =>
    intro e he
    rcases he with he | he | he
    · exact hv e (Or.inl (mem_evict he))
    · exact hv e (Or.inr (Or.inl he))
    · exact hv e (Or.inr (Or.inr he))
  | truncate n =>
    intro e he
    rcases he with he | he | he
    · exact hv e (Or.inl he)
    · exact hv e (Or.inr (Or.inl he))
    · exact hv e (Or.inr (Or.inr (List.mem_of_mem_drop he)))

/-! ### no NRD kernel is pooled while the feature flag is off -/

/-- no entry (txpool, stempool, reorg cache) holds an NRD kernel -/
def NoNrd (s : TxPool) : Prop := AllE (fun e => e.tx.hasNrd = false) s

theorem noNrd_empty : NoNrd {} := fun e he => by simp at he

theorem step_noNrd (cs : Ctx × TxPool) (op : Op) (hd : cs.1.cfg.nrdEnabled = false) (hv : NoNrd cs.2) :
    NoNrd (step cs op).2 := by
  apply step_allE cs op hv
  intro src tx stem ok _ st entry _ hvar
  cases hn : entry.tx.hasNrd with
  | false => rfl
  | true => rw [verifyKernelVariants_disabled hd hn] at hvar; simp at hvar

theorem run_noNrd (cs : Ctx × TxPool) (ops : List Op) (hd : cs.1.cfg.nrdEnabled = false) (hv : NoNrd cs.2) :
    NoNrd (run cs ops).2 := by
  induction ops generalizing cs with
  | nil => exact hv
  | cons op rest ih =>
    have hc : (step cs op).1.cfg = cs.1.cfg := by cases op <;> rfl
    exact ih (step cs op) (by rw [hc]; exact hd) (step_noNrd cs op hd hv)

/-- the kernels of an aggregate come from its parts -/
theorem aggregate_kers_subset {txs : List Tx} {a : Tx} (h : aggregate txs = .ok a) :
    ∀ k ∈ a.kers, ∃ t ∈ txs, k ∈ t.kers := by
  intro k hk
  match txs, h with
  | [], h =>
    simp only [aggregate, Except.ok.injEq] at h
    subst h; simp [emptyTx] at hk
  | [x], h =>
    simp only [aggregate, Except.ok.injEq] at h
    subst h
    exact ⟨_, by simp, hk⟩
  | t1 :: t2 :: rest, h =>
    simp only [aggregate] at h
    split at h
    · simp at h
    · simp only [Except.ok.injEq] at h
      subst h
      obtain ⟨t, ht, hkt⟩ := List.mem_flatMap.mp hk
      exact ⟨t, ht, hkt⟩

/-- the aggregate of transactions without NRD kernels has none -/
theorem aggregate_noNrd {txs : List Tx} {a : Tx} (h : aggregate txs = .ok a)
    (hn : ∀ t ∈ txs, t.hasNrd = false) : a.hasNrd = false := by
  rw [hasNrd_false_iff]
  intro k hk
  obtain ⟨t, ht, hkt⟩ := aggregate_kers_subset h k hk
  exact (hasNrd_false_iff t).mp (hn t ht) k hkt

/-- the block assembled from a body without NRD kernels passes the feature-flag gate whatever the
flag says; with the flag on every block passes it -/
theorem blockNrdGate_of_noNrd (flag : Bool) (c : Ctx) {a : Tx} (cb : Nat) (h : a.hasNrd = false) :
    blockNrdGate flag (mkBlock c a cb) = none := by
  unfold blockNrdGate
  have : ((mkBlock c a cb).kers.any kerIsNrd) = false := by
    simp only [mkBlock, List.any_append, List.any_map, Bool.or_eq_false_iff]
    constructor
    · unfold Tx.hasNrd at h
      rw [List.any_eq_false] at h ⊢
      intro k hk
      have := h k hk
      simp only [Function.comp, kerIsNrd]
      cases hker : k.ker <;> simp_all
    · simp [kerIsNrd]
  rw [this]; simp

theorem blockNrdGate_enabled (b : GV.Chain.Blk) : blockNrdGate true b = none := by
  simp [blockNrdGate]

/-- the gate refuses a block built from a body WITH an NRD kernel while the flag is off -/
theorem blockNrdGate_refuses (c : Ctx) {a : Tx} (cb : Nat) (h : a.hasNrd = true) :
    blockNrdGate false (mkBlock c a cb) = some "Block:NRDKernelNotEnabled" := by
  unfold blockNrdGate
  have : ((mkBlock c a cb).kers.any kerIsNrd) = true := by
    simp only [mkBlock, List.any_append, List.any_map, Bool.or_eq_true]
    left
    unfold Tx.hasNrd at h
    rw [List.any_eq_true] at h ⊢
    obtain ⟨k, hk, hp⟩ := h
    refine ⟨k, hk, ?_⟩
    simp only [Function.comp, kerIsNrd]
    cases hker : k.ker <;> simp_all
  rw [this]; simp

/-! ### the replay of the reorg cache reconciles the stempool -/

/-- `reconcile_reorg_cache`, from ANY state: either no cached entry went back into the txpool and
nothing changed at all, or the txpool validates on the head AND the stempool was reconciled against
it — stempool ∪ txpool is `NetOK` — after the LAST entry that went back (every replayed entry is
followed by `stempool.reconcile(txpool aggregate)`, as in `add_to_txpool`). -/
theorem foldl_addToTxpool_reconciled (c : Ctx) (l : List Entry) (acc : TxPool)
    (h : l.foldl (fun acc e => (acc.addToTxpool c e).1) acc ≠ acc) :
    TxpoolOK c (l.foldl (fun acc e => (acc.addToTxpool c e).1) acc).txpool ∧
    NetOK (utxoIds c) ((l.foldl (fun acc e => (acc.addToTxpool c e).1) acc).stempool.txs ++
      (l.foldl (fun acc e => (acc.addToTxpool c e).1) acc).txpool.txs) := by
  induction l generalizing acc with
  | nil => exact absurd rfl h
  | cons e rest ih =>
    simp only [List.foldl_cons] at h ⊢
    by_cases hrest : rest.foldl (fun acc e => (acc.addToTxpool c e).1) (acc.addToTxpool c e).1 = (acc.addToTxpool c e).1
    · rw [hrest] at h ⊢
      rcases addToTxpool_cases c acc e with ⟨er, he⟩ | ⟨s2, he, _, h2, h3, _, _⟩
      · rw [he] at h; exact absurd rfl h
      · rw [he]; exact ⟨h2, h3⟩
    · exact ih _ hrest

end GV.Pool
