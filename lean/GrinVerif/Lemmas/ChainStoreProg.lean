import GrinVerif.Model.ChainStore
import GrinVerif.Lemmas.KvProg
/-! Helper lemmas for the typed layer of C18 (`chain/src/store.rs` over `store/src/lmdb.rs`):
typed keys do not alias, lowering of typed batch bodies commutes with flattening. -/
namespace GV.ChainStore
open GV GV.Kv

/-- different typed objects live at different `(db, key)` pairs -/
theorem tkey_injective (a b : TKey) (h : a.key = b.key) : a = b := by
  cases a <;> cases b <;> simp_all [TKey.key]

theorem prependOps_flat_lower (o : TOp) (p : Prog) : (prependOps o.lower p).flat = o.lower ++ p.flat := by
  cases o <;> simp [TOp.lower, prependOps, Prog.flat]

/-- the store-level body a typed body denotes performs exactly the operations the typed layer
executes -/
theorem flat_lower : ∀ p : TProg, p.lower.flat = p.flat
  | .done => rfl
  | .op o rest => by
    simp only [TProg.lower, TProg.flat, prependOps_flat_lower, flat_lower rest]
  | .child b c rest => by
    simp only [TProg.lower, TProg.flat, Prog.flat, flat_lower b, flat_lower rest]

theorem ttxn_eq (p : TProg) (c : Bool) : ttxn p c = txn p.lower c := by
  simp [ttxn, txn, flat_lower]

/-- reads of the innermost batch after a typed operation (three cases of `step`) -/
theorem bget_put (st : St) (k k' : Key) (v : Val) (h : st.stack ≠ []) :
    bget (step st (.put k v)) k' = if k = k' then some v else bget st k' := by
  cases hs : st.stack with
  | nil => exact absurd hs h
  | cons o s => by_cases hk : k = k' <;> simp [bget, step, hs, ovGet, hk]

theorem bget_del (st : St) (k k' : Key) (h : st.stack ≠ []) :
    bget (step st (.del k)) k' = if k = k' then none else bget st k' := by
  cases hs : st.stack with
  | nil => exact absurd hs h
  | cons o s => by_cases hk : k = k' <;> simp [bget, step, hs, ovGet, hk]

theorem stack_put (st : St) (k : Key) (v : Val) (h : st.stack ≠ []) : (step st (.put k v)).stack ≠ [] := by
  cases hs : st.stack with
  | nil => exact absurd hs h
  | cons o s => simp [step, hs]

theorem stack_del (st : St) (k : Key) (h : st.stack ≠ []) : (step st (.del k)).stack ≠ [] := by
  cases hs : st.stack with
  | nil => exact absurd hs h
  | cons o s => simp [step, hs]

end GV.ChainStore
