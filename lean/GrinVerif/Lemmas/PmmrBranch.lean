import GrinVerif.Lemmas.PmmrPeaks
/-! The way from a leaf to its peak in `(n, h)` coordinates (C07): `family`, `is_left_sibling` and
`family_branch` along the ancestors `up i j` of leaf `i`, and where those ancestors sit relative to
the peak list of a valid size.  Core Lean only. -/
namespace GV.Pmmr.Co
open GV GV.Pmmr

/-- coordinates of the sibling of the level-`j` ancestor of leaf `i` -/
def sibCo (i j : Nat) : Nat × Nat :=
  if bitSet i j then (up i j - 2^j, j) else (up i j + 2^j, j)

theorem trailingOnes_up_of_clear {i j : Nat} (hb : bitSet i j = false) : j = trailingOnes (up i j) := by
  have h1 := up_valid i j
  have h2 := bitSet_up_iff i j
  rw [hb] at h2
  have : ¬ j < trailingOnes (up i j) := fun hc => by have := h2.1 hc; simp at this
  omega

/-- one step up from a right child -/
theorem step_right {i j : Nat} (hb : bitSet i j = true) :
    up i (j+1) = up i j ∧ sibCo i j = (up i j - 2^j, j)
    ∧ cpos (up i (j+1), j+1) = cpos (up i j, j) + 1
    ∧ cpos (sibCo i j) + 2 * 2^j = cpos (up i j, j) + 1
    ∧ j ≤ trailingOnes (up i j - 2^j) ∧ trailingOnes (up i j - 2^j) = j
    ∧ up i j - 2^j < up i j := by
  have hlt := (bitSet_up_iff i j).2 hb
  obtain ⟨h1, h2, h3, h4⟩ := left_sibling_coord hlt
  have hpos := two_pow_pos j
  have hu : up i (j+1) = up i j := by rw [up_succ, hb]; rfl
  have hs : sibCo i j = (up i j - 2^j, j) := by simp [sibCo, hb]
  refine ⟨hu, hs, ?_, ?_, h1, h4, by omega⟩
  · simp only [cpos, hu]; omega
  · simp only [cpos, hs]; omega

/-- one step up from a left child -/
theorem step_left {i j : Nat} (hb : bitSet i j = false) :
    up i (j+1) = up i j + 2^j ∧ sibCo i j = (up i (j+1), j)
    ∧ cpos (up i (j+1), j+1) = cpos (up i j, j) + 2 * 2^j
    ∧ cpos (sibCo i j) + 1 = cpos (up i j, j) + 2 * 2^j
    ∧ j + 1 ≤ trailingOnes (up i (j+1)) := by
  have he := trailingOnes_up_of_clear hb
  obtain ⟨h1, h2⟩ := right_sibling_coord he
  have hu : up i (j+1) = up i j + 2^j := by rw [up_succ, hb]; rfl
  have hs : sibCo i j = (up i (j+1), j) := by simp [sibCo, hb, hu]
  refine ⟨hu, hs, ?_, ?_, by rw [hu]; exact h1⟩
  · simp only [cpos, hu]; omega
  · simp only [cpos, hs, hu]; omega

theorem sibCo_snd (i j : Nat) : (sibCo i j).2 = j := by
  unfold sibCo; split <;> rfl

theorem sibCo_valid (i j : Nat) : (sibCo i j).2 ≤ trailingOnes (sibCo i j).1 := by
  cases hb : bitSet i j with
  | true => obtain ⟨_, hs, _, _, h5, _⟩ := step_right hb; rw [hs]; exact h5
  | false => obtain ⟨_, hs, _, _, h5⟩ := step_left hb; rw [hs]; simp only; omega

theorem sibCo_fst_le (i j : Nat) : (sibCo i j).1 ≤ up i (j+1) := by
  cases hb : bitSet i j with
  | true => obtain ⟨hu, hs, _, _, _, _, h7⟩ := step_right hb; rw [hs, hu]; simp only; omega
  | false => obtain ⟨_, hs, _⟩ := step_left hb; rw [hs]; exact Nat.le_refl _

theorem cpos_up_lt_succ (i j : Nat) : cpos (up i j, j) < cpos (up i (j+1), j+1) := by
  have hpos := two_pow_pos j
  cases hb : bitSet i j with
  | true => obtain ⟨_, _, h3, _⟩ := step_right hb; omega
  | false => obtain ⟨_, _, h3, _⟩ := step_left hb; omega

/-- `family` at the level-`j` ancestor of leaf `i`: (parent, sibling) -/
theorem family_up (i j : Nat) :
    family (cpos (up i j, j)) = (cpos (up i (j+1), j+1), cpos (sibCo i j)) := by
  have hv := up_valid i j
  have hpos := two_pow_pos j
  simp only [family, cpos, peakMapHeight_co _ _ hv, bitSet_up]
  cases hb : bitSet i j with
  | true =>
    obtain ⟨_, _, h3, h4, _⟩ := step_right hb
    simp only [cpos] at h3 h4
    simp only [if_true]
    congr 1 <;> omega
  | false =>
    obtain ⟨_, _, h3, h4, _⟩ := step_left hb
    simp only [cpos] at h3 h4
    simp only [Bool.false_eq_true, if_false]
    congr 1 <;> omega

/-- the sibling of a right child is a left sibling and vice versa -/
theorem isLeftSibling_sibCo (i j : Nat) : isLeftSibling (cpos (sibCo i j)) = bitSet i j := by
  cases hb : bitSet i j with
  | true =>
    obtain ⟨_, hs, _, _, h5, h6, _⟩ := step_right hb
    simp only [isLeftSibling, cpos, hs, peakMapHeight_co _ _ h5, bitSet_coord h5, h6]
    simp
  | false =>
    obtain ⟨_, hs, _, _, h5⟩ := step_left hb
    have hv : j ≤ trailingOnes (up i (j+1)) := by omega
    simp only [isLeftSibling, cpos, hs, peakMapHeight_co _ _ hv, bitSet_coord hv]
    simp; omega

theorem family_fst_gt (pos : Nat) : pos < (family pos).1 := by
  have hpos := two_pow_pos (peakMapHeight pos).2
  simp only [family]
  split <;> simp only <;> omega

/-! ### `family_branch` for a leaf of an MMR with `N` leaves -/

/-- the peak above leaf `i` in the MMR with `N` leaves: `(up i k, k)` splits the forest -/
structure PeakCtx (N i k : Nat) (L R : List (Nat × Nat)) : Prop where
  split : forest N = L ++ (up i k, k) :: R

namespace PeakCtx
variable {N i k : Nat} {L R : List (Nat × Nat)}

theorem mem (c : PeakCtx N i k L R) : (up i k, k) ∈ forest N := by
  rw [c.split]; simp

theorem peak_facts (c : PeakCtx N i k L R) :
    k = trailingOnes (up i k) ∧ up i k < N ∧ N ≤ up i k + 2^k := by
  have := forest_mem c.mem; simpa using this

theorem i_lt (c : PeakCtx N i k L R) : i < N := by
  have := c.peak_facts; have := le_up i k; omega

theorem bit_clear (c : PeakCtx N i k L R) : bitSet i k = false := by
  have h1 := c.peak_facts.1
  have h2 := bitSet_up_iff i k
  cases hb : bitSet i k with
  | false => rfl
  | true => have := h2.2 hb; omega

theorem up_lt (c : PeakCtx N i k L R) {j : Nat} (hj : j ≤ k) : up i j < N := by
  have := c.peak_facts; have := up_mono i hj; omega

theorem cpos_lt (c : PeakCtx N i k L R) {j : Nat} (hj : j ≤ k) : cpos (up i j, j) < mmr N :=
  (coord_lt_iff (up_valid i j)).2 (c.up_lt hj)

/-- the parent of the peak is outside the MMR -/
theorem parent_ge (c : PeakCtx N i k L R) : mmr N ≤ cpos (up i (k+1), k+1) := by
  obtain ⟨hu, _, _, _, hv⟩ := step_left c.bit_clear
  have := c.peak_facts
  have h1 := mmr_le_mmr (show N ≤ up i (k+1) by omega)
  unfold cpos; simp only; omega

theorem sib_lt (c : PeakCtx N i k L R) {j : Nat} (hj : j < k) : (sibCo i j).1 < N := by
  have := sibCo_fst_le i j; have := c.up_lt (show j+1 ≤ k from hj); omega

end PeakCtx

theorem exists_peakCtx {N i : Nat} (hi : i < N) : ∃ k L R, PeakCtx N i k L R := by
  obtain ⟨k, hk⟩ := forest_cover hi
  obtain ⟨L, R, h⟩ := List.append_of_mem hk
  exact ⟨k, L, R, ⟨h⟩⟩

/-- the (parent, sibling) positions on the way from leaf `i` to its peak of height `k` -/
def branchCo (i j d : Nat) : List (Nat × Nat) :=
  (List.range' j d).map fun j => (cpos (up i (j+1), j+1), cpos (sibCo i j))

theorem familyBranchLoop_coord {N i k : Nat} {L R : List (Nat × Nat)} (c : PeakCtx N i k L R) :
    ∀ d j fuel, j + d = k → mmr N + 1 ≤ fuel + cpos (up i j, j) →
      familyBranchLoop i (mmr N) fuel (cpos (up i j, j)) j = branchCo i j d := by
  intro d
  induction d with
  | zero =>
    intro j fuel hj _
    have : j = k := by omega
    subst this
    cases fuel with
    | zero => simp [familyBranchLoop, branchCo]
    | succ fuel =>
      rw [familyBranchLoop]
      obtain ⟨_, _, h3, _⟩ := step_left c.bit_clear
      have hp := c.parent_ge
      simp only [c.bit_clear, Bool.false_eq_true, if_false, branchCo, List.range'_zero, List.map_nil]
      split
      · rw [if_pos (by omega)]
      · rfl
  | succ d ih =>
    intro j fuel hj hfu
    have hjk : j < k := by omega
    have hlt := c.cpos_lt (show j ≤ k by omega)
    have hlt' := c.cpos_lt (show j + 1 ≤ k from hjk)
    have hstep := cpos_up_lt_succ i j
    cases fuel with
    | zero => omega
    | succ fuel =>
      rw [familyBranchLoop, if_pos (by omega)]
      have hpos := two_pow_pos j
      simp only [branchCo, List.range'_succ, List.map_cons]
      cases hb : bitSet i j with
      | true =>
        obtain ⟨_, _, h3, h4, _⟩ := step_right hb
        simp only [if_true]
        rw [if_neg (by omega)]
        have e1 : cpos (up i j, j) + 1 = cpos (up i (j+1), j+1) := by omega
        have e2 : cpos (up i j, j) + 1 - 2 * 2^j = cpos (sibCo i j) := by omega
        rw [e2, e1, ih (j+1) fuel (by omega) (by omega)]
        rfl
      | false =>
        obtain ⟨_, _, h3, h4, _⟩ := step_left hb
        simp only [Bool.false_eq_true, if_false]
        rw [if_neg (by omega)]
        have e1 : cpos (up i j, j) + 2 * 2^j = cpos (up i (j+1), j+1) := by omega
        have e2 : cpos (up i j, j) + 2 * 2^j - 1 = cpos (sibCo i j) := by omega
        rw [e2, e1, ih (j+1) fuel (by omega) (by omega)]
        rfl

/-- `family_branch` of a leaf inside a valid size: the coordinate path to the leaf's peak -/
theorem familyBranch_leaf {N i k : Nat} {L R : List (Nat × Nat)} (c : PeakCtx N i k L R) :
    familyBranch (mmr i) (mmr N) = branchCo i 0 k := by
  have h := familyBranchLoop_coord c k 0 (mmr N + 1) (by omega) (by omega)
  simp only [cpos, up_zero, Nat.add_zero] at h
  simp only [familyBranch, peakMapHeight_leaf]
  exact h

/-! ### `family_branch` from any node, inside any size -/

/-- (parent position, sibling position) of the level-`j` ancestor of `n` -/
def ancestorStep (n j : Nat) : Nat × Nat := (cpos (up n (j+1), j+1), cpos (sibCo n j))

theorem familyBranchLoop_general (n size : Nat) : ∀ fuel j,
    familyBranchLoop n size fuel (cpos (up n j, j)) j
      = ((List.range' j fuel).map (ancestorStep n)).takeWhile (fun x => x.1 < size) := by
  intro fuel
  induction fuel with
  | zero => intro j; simp [familyBranchLoop]
  | succ fuel ih =>
    intro j
    have hstep := cpos_up_lt_succ n j
    have hpos := two_pow_pos j
    rw [familyBranchLoop]
    simp only [List.range'_succ, List.map_cons, List.takeWhile_cons, ancestorStep]
    by_cases hlt : cpos (up n (j+1), j+1) < size
    · have h1 : cpos (up n j, j) + 1 < size := by omega
      simp only [h1, hlt, if_true, decide_true]
      cases hb : bitSet n j with
      | true =>
        obtain ⟨_, _, h3, h4, _⟩ := step_right hb
        have e1 : cpos (up n j, j) + 1 = cpos (up n (j+1), j+1) := by omega
        have e2 : cpos (up n (j+1), j+1) - 2 * 2^j = cpos (sibCo n j) := by omega
        simp only [if_true, e1, e2]
        rw [if_neg (by omega), ih (j+1)]
      | false =>
        obtain ⟨_, _, h3, h4, _⟩ := step_left hb
        have e1 : cpos (up n j, j) + 2 * 2^j = cpos (up n (j+1), j+1) := by omega
        have e2 : cpos (up n (j+1), j+1) - 1 = cpos (sibCo n j) := by omega
        simp only [Bool.false_eq_true, if_false, e1, e2]
        rw [if_neg (by omega), ih (j+1)]
    · simp only [hlt, decide_false]
      by_cases h1 : cpos (up n j, j) + 1 < size
      · simp only [h1, if_true]
        cases hb : bitSet n j with
        | true =>
          obtain ⟨_, _, h3, _⟩ := step_right hb
          simp only [if_true]
          rw [if_pos (by omega)]; rfl
        | false =>
          obtain ⟨_, _, h3, _⟩ := step_left hb
          simp only [Bool.false_eq_true, if_false]
          rw [if_pos (by omega)]
      · simp only [h1, if_false]; rfl

/-! ### Where the ancestors sit in the peak list -/

theorem findIdx_append_cons (A B : List Nat) (x : Nat) (hx : x ∉ A) :
    findIdx (A ++ x :: B) x = some A.length := by
  unfold findIdx
  have : List.idxOf x (A ++ x :: B) = A.length := by
    simp [List.idxOf_append, hx]
  rw [this]; simp

theorem findIdx_none (l : List Nat) (x : Nat) (hx : x ∉ l) : findIdx l x = none := by
  unfold findIdx
  have : ¬ List.idxOf x l < l.length := by
    intro h; exact hx (List.idxOf_lt_length_iff.1 h)
  rw [if_neg this]

theorem peaks_lt_size {N p : Nat} (hp : p ∈ peaks (mmr N)) : p < mmr N := by
  rw [peaks_forest] at hp
  obtain ⟨c, hc, rfl⟩ := List.mem_map.1 hp
  have := forest_mem hc
  exact (coord_lt_iff (by omega)).2 this.2.1

namespace PeakCtx
variable {N i k : Nat} {L R : List (Nat × Nat)}

theorem peaks_eq (c : PeakCtx N i k L R) :
    peaks (mmr N) = L.map cpos ++ cpos (up i k, k) :: R.map cpos := by
  rw [peaks_forest, c.split]; simp

theorem pairwise (c : PeakCtx N i k L R) :
    (L.map cpos ++ cpos (up i k, k) :: R.map cpos).Pairwise (· < ·) := by
  have := forest_pos_pairwise N
  rwa [c.split, List.map_append, List.map_cons] at this

theorem left_lt (c : PeakCtx N i k L R) : ∀ p ∈ L.map cpos, p < cpos (up i k, k) := by
  intro p hp
  have := (List.pairwise_append.1 c.pairwise).2.2 p hp (cpos (up i k, k)) (List.mem_cons_self ..)
  exact this

theorem right_gt (c : PeakCtx N i k L R) : ∀ p ∈ R.map cpos, cpos (up i k, k) < p := by
  intro p hp
  have h := (List.pairwise_append.1 c.pairwise).2.1
  exact (List.pairwise_cons.1 h).1 p hp

theorem findIdx_peak (c : PeakCtx N i k L R) :
    findIdx (peaks (mmr N)) (cpos (up i k, k)) = some L.length := by
  rw [c.peaks_eq]
  have : cpos (up i k, k) ∉ L.map cpos := fun h => by have := c.left_lt _ h; omega
  have := findIdx_append_cons (L.map cpos) (R.map cpos) _ this
  simpa using this

theorem peaks_length (c : PeakCtx N i k L R) : (peaks (mmr N)).length = L.length + 1 + R.length := by
  rw [c.peaks_eq]; simp; omega

/-- a proper ancestor below the peak is not a peak -/
theorem findIdx_below (c : PeakCtx N i k L R) {j : Nat} (hj : j < k) :
    findIdx (peaks (mmr N)) (cpos (up i j, j)) = none := by
  apply findIdx_none
  intro hmem
  rw [peaks_forest] at hmem
  obtain ⟨d, hd, he⟩ := List.mem_map.1 hmem
  have hm := forest_mem hd
  have hinj := coord_inj (show d.2 ≤ trailingOnes d.1 by omega) (up_valid i j) he
  obtain ⟨h1, h2⟩ := hinj
  -- `(up i j, j)` would be a peak: left child whose parent is outside; but its parent is inside
  have hclear : bitSet i j = false := by
    cases hb : bitSet i j with
    | false => rfl
    | true => have := (bitSet_up_iff i j).2 hb; rw [← h1, ← h2] at this; omega
  obtain ⟨hu, _⟩ := step_left hclear
  have := c.up_lt (show j + 1 ≤ k from hj)
  rw [h1, h2] at hm
  omega

theorem filter_lt (c : PeakCtx N i k L R) :
    (peaks (mmr N)).filter (· < cpos (up i k, k)) = L.map cpos := by
  rw [c.peaks_eq, List.filter_append, List.filter_cons]
  have h1 : (L.map cpos).filter (· < cpos (up i k, k)) = L.map cpos :=
    List.filter_eq_self.2 (fun p hp => by simpa using c.left_lt p hp)
  have h2 : (R.map cpos).filter (· < cpos (up i k, k)) = [] :=
    List.filter_eq_nil_iff.2 (fun p hp => by have := c.right_gt p hp; simp; omega)
  rw [h1, h2]; simp

theorem filter_gt (c : PeakCtx N i k L R) :
    (peaks (mmr N)).filter (· > cpos (up i k, k)) = R.map cpos := by
  rw [c.peaks_eq, List.filter_append, List.filter_cons]
  have h1 : (L.map cpos).filter (· > cpos (up i k, k)) = [] :=
    List.filter_eq_nil_iff.2 (fun p hp => by have := c.left_lt p hp; simp; omega)
  have h2 : (R.map cpos).filter (· > cpos (up i k, k)) = R.map cpos :=
    List.filter_eq_self.2 (fun p hp => by simpa using c.right_gt p hp)
  rw [h1, h2]; simp

theorem left_valid (c : PeakCtx N i k L R) : ∀ d ∈ L, d.2 ≤ trailingOnes d.1 ∧ d.1 < N := by
  intro d hd
  have := forest_mem (show d ∈ forest N by rw [c.split]; simp [hd]); omega

theorem right_valid (c : PeakCtx N i k L R) : ∀ d ∈ R, d.2 ≤ trailingOnes d.1 ∧ d.1 < N := by
  intro d hd
  have := forest_mem (show d ∈ forest N by rw [c.split]; simp [hd]); omega

end PeakCtx

end GV.Pmmr.Co
