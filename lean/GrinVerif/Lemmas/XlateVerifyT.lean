import GrinVerif.Lemmas.XlateVerify

/-! # Helper lemmas for `Props/XlateVerifyT.lean` (translated Cuckatoo verifier = hand model)

Loops of `Cuckatoo_verify` (`Gen/FnsVerify.lean`, from `core/src/pow/cuckatoo.rs` `verify_impl`):
`t1_eq` first `for` = `uBuild cfgCuckatoo`; `t2_eq` second `for` = `uCirc cfgCuckatoo`;
(`t4_eq` inner `loop` = `uFind cfgCuckatoo` is in `Lemmas/XlateVerify.lean`);
`t3_eq` outer `loop` = `uWalk (uStep cfgCuckatoo …)`.
Same array relations as Cuckaroo (`R`, `RK k0/k1`, `RelU`); the head slot of an endpoint `u` is
`2 * ((u >>> 1) &&& mask) + side`. -/

namespace GV.Lemmas.XlateVerifyT
open GV GV.Gen GV.Gen.Fns GV.Pow GV.Lemmas.XlateVerify

/-! ### loop 1 = `uBuild cfgCuckatoo` -/

theorem t1_nil (p : CuckooParams) (nonces : List Nat) (mask : Nat) (uvs : List Nat) (x0 x1 : Nat)
    (hu hv prev : List Nat) :
    Cuckatoo_verify_loop1 p nonces mask [] uvs x0 x1 hu hv prev = .go (uvs, x0, x1, hu, hv, prev) := by
  conv => lhs; unfold Cuckatoo_verify_loop1

/-- one iteration, with the two `sipnode(..)?` calls returning `Ok(U)`, `Ok(V)` -/
theorem t1_cons (p : CuckooParams) (nonces : List Nat) (mask n : Nat) (rest uvs : List Nat)
    (x0 x1 : Nat) (hu hv prev : List Nat) (U V : Nat)
    (hsu : CuckooParams_sipnode p.siphash_keys p.node_mask (idx nonces n) 0 = some U)
    (hsv : CuckooParams_sipnode p.siphash_keys p.node_mask (idx nonces n) 1 = some V) :
    Cuckatoo_verify_loop1 p nonces mask (n :: rest) uvs x0 x1 hu hv prev =
      if decide (idx nonces n > p.edge_mask) then .ret none
      else if (decide (n > 0)) && (decide (idx nonces n ≤ idx nonces (subW n 1))) then .ret none
      else
        Cuckatoo_verify_loop1 p nonces mask rest
          (List.set (List.set uvs (mulW 2 n) U) (addW (mulW 2 n) 1) V) (x0 ^^^ U) (x1 ^^^ V)
          (List.set hu ((shrW U 1) &&& mask) (mulW 2 n))
          (List.set hv ((shrW V 1) &&& mask) (addW (mulW 2 n) 1))
          (List.set (List.set prev (mulW 2 n) (idx hu ((shrW U 1) &&& mask))) (addW (mulW 2 n) 1)
            (idx hv ((shrW V 1) &&& mask))) := by
  conv => lhs; unfold Cuckatoo_verify_loop1
  rw [hsu, hsv]

theorem t1_ok_cons (p : CuckooParams) (nonces : List Nat) (mask n : Nat) (rest uvs : List Nat)
    (x0 x1 : Nat) (hu hv prev : List Nat) (U V : Nat)
    (hsu : CuckooParams_sipnode p.siphash_keys p.node_mask (idx nonces n) 0 = some U)
    (hsv : CuckooParams_sipnode p.siphash_keys p.node_mask (idx nonces n) 1 = some V)
    (h : Cuckatoo_verify_loop1_ok p nonces mask (n :: rest) uvs x0 x1 hu hv prev = true) :
    n < nonces.length ∧
    (¬ idx nonces n > p.edge_mask →
     ¬ (n > 0 ∧ idx nonces n ≤ idx nonces (subW n 1)) →
        (shrW U 1) &&& mask < hu.length ∧ (shrW V 1) &&& mask < hv.length ∧
        Cuckatoo_verify_loop1_ok p nonces mask rest
          (List.set (List.set uvs (mulW 2 n) U) (addW (mulW 2 n) 1) V) (x0 ^^^ U) (x1 ^^^ V)
          (List.set hu ((shrW U 1) &&& mask) (mulW 2 n))
          (List.set hv ((shrW V 1) &&& mask) (addW (mulW 2 n) 1))
          (List.set (List.set prev (mulW 2 n) (idx hu ((shrW U 1) &&& mask))) (addW (mulW 2 n) 1)
            (idx hv ((shrW V 1) &&& mask))) = true) := by
  conv at h => lhs; unfold Cuckatoo_verify_loop1_ok
  rw [hsu, hsv] at h
  simp only [Bool.and_eq_true, decide_eq_true_eq] at h
  refine ⟨h.1, ?_⟩
  intro h1 h2
  have h' := h.2
  rw [if_neg h1, Bool.and_eq_true] at h'
  have h'' := h'.2
  rw [if_neg h2] at h''
  simp only [Bool.and_eq_true, decide_eq_true_eq] at h''
  exact ⟨h''.2.2.2.1.1, h''.2.2.2.2.2.2.1.1, h''.2.2.2.2.2.2.2.2⟩

theorem t1_eq (p : CuckooParams) (nonces : List Nat) (mask : Nat) (P : Params) (ep : Nat → Nat × Nat)
    (hsz : nonces.length < 2^62) (hP2 : P.edgeMask = p.edge_mask) (hbk : ∀ u, P.bk u = u &&& mask)
    (hep : ∀ x, CuckooParams_sipnode p.siphash_keys p.node_mask x 0 = some (ep x).1 ∧
                CuckooParams_sipnode p.siphash_keys p.node_mask x 1 = some (ep x).2) :
    ∀ (k a : Nat) (uvs : List Nat) (x0 x1 : Nat) (hu hv prev : List Nat) (s : USt),
      a + k = nonces.length → RelU k0 k1 (uvs, x0, x1, hu, hv, prev) s →
      Cuckatoo_verify_loop1_ok p nonces mask (List.range' a k) uvs x0 x1 hu hv prev = true →
      (Cuckatoo_verify_loop1 p nonces mask (List.range' a k) uvs x0 x1 hu hv prev = .ret none ∧
        ∃ e, uBuild cfgCuckatoo P ep (nonces.drop a) a (lastOf nonces a) s = .error e) ∨
      (∃ st s', Cuckatoo_verify_loop1 p nonces mask (List.range' a k) uvs x0 x1 hu hv prev = .go st ∧
        uBuild cfgCuckatoo P ep (nonces.drop a) a (lastOf nonces a) s = .ok s' ∧ RelU k0 k1 st s') := by
  intro k
  induction k with
  | zero =>
    intro a uvs x0 x1 hu hv prev s hak hrel _
    right
    refine ⟨_, s, ?_, ?_, hrel⟩
    · rw [List.range'_zero, t1_nil]
    · rw [List.drop_of_length_le (by omega), uBuild]
  | succ k ih =>
    intro a uvs x0 x1 hu hv prev s hak hrel hok
    rw [List.range'_succ] at hok ⊢
    obtain ⟨han, hrest⟩ := t1_ok_cons _ _ _ _ _ _ _ _ _ _ _ _ _
      (hep (idx nonces a)).1 (hep (idx nonces a)).2 hok
    rw [t1_cons _ _ _ _ _ _ _ _ _ _ _ _ _ (hep (idx nonces a)).1 (hep (idx nonces a)).2,
      drop_eq_cons nonces a han, uBuild]
    by_cases h1 : idx nonces a > p.edge_mask
    · left
      rw [if_pos (by simpa using h1), if_pos (by rw [hP2]; exact h1)]
      exact ⟨rfl, _, rfl⟩
    · by_cases h2 : a > 0 ∧ idx nonces a ≤ idx nonces (subW a 1)
      · left
        rw [if_neg (by simpa using h1), if_pos (by simpa using h2), if_neg (by rw [hP2]; exact h1),
          if_pos ((notAsc_lastOf nonces a _ (by omega)).2 h2)]
        exact ⟨rfl, _, rfl⟩
      · obtain ⟨hub, hvb, hok'⟩ := hrest h1 h2
        rw [if_neg (by simpa using h1), if_neg (by simpa using h2), if_neg (by rw [hP2]; exact h1),
          if_neg (fun h => h2 ((notAsc_lastOf nonces a _ (by omega)).1 h))]
        rw [← lastOf_succ]
        obtain ⟨r1, r2, r3, r4, r5, r6⟩ := hrel
        simp only [hbk, cfgCuckatoo]
        simp only [mulW_two a (by omega), addW_one (2 * a) (by omega), shrW_one] at hok' hub hvb ⊢
        refine ih (a + 1) _ _ _ _ _ _ _ (by omega) ?_ hok'
        generalize (ep (idx nonces a)).1 = U at hub ⊢
        generalize (ep (idx nonces a)).2 = V at hvb ⊢
        have e1 : idx hu (U >>> 1 &&& mask) = s.head (2 * (U >>> 1 &&& mask) + 0) := r4 _ hub
        have e2 : idx hv (V >>> 1 &&& mask)
            = upd s.head (2 * (U >>> 1 &&& mask) + 0) (2 * a) (2 * (V >>> 1 &&& mask) + 1) := by
          rw [r5 _ hvb]; unfold upd k1; rw [if_neg (by omega)]
        rw [e1, e2]
        refine ⟨R_set (R_set r1 _ _) _ _, ?_, ?_, ?_, ?_, R_set (R_set r6 _ _) _ _⟩
        · show x0 ^^^ U = s.x0 ^^^ U
          rw [show x0 = s.x0 from r2]
        · show x1 ^^^ V = s.x1 ^^^ V
          rw [show x1 = s.x1 from r3]
        · exact RK_other (RK_set k0_inj r4 _ _) _ _ (fun b => k0_ne_k1 b _)
        · exact RK_set k1_inj (RK_other r5 _ _ (fun b => k1_ne_k0 b _)) _ _

/-! ### loop 2 (make prev lists circular) = `uCirc cfgCuckatoo` -/

theorem t2_nil (size : Nat) (uvs : List Nat) (mask : Nat) (hu hv prev : List Nat) :
    Cuckatoo_verify_loop2 size uvs mask hu hv [] prev = prev := by
  conv => lhs; unfold Cuckatoo_verify_loop2

theorem t2_cons (size : Nat) (uvs : List Nat) (mask : Nat) (hu hv : List Nat) (n : Nat)
    (rest prev : List Nat) :
    Cuckatoo_verify_loop2 size uvs mask hu hv (n :: rest) prev =
      let prev1 := if (idx prev (mulW 2 n) == mulW 2 size) = true then
          List.set prev (mulW 2 n) (idx hu ((shrW (idx uvs (mulW 2 n)) 1) &&& mask)) else prev
      let prev2 := if (idx prev1 (addW (mulW 2 n) 1) == mulW 2 size) = true then
          List.set prev1 (addW (mulW 2 n) 1) (idx hv ((shrW (idx uvs (addW (mulW 2 n) 1)) 1) &&& mask))
        else prev1
      Cuckatoo_verify_loop2 size uvs mask hu hv rest prev2 := by
  conv => lhs; unfold Cuckatoo_verify_loop2

theorem t2_ok_cons (size : Nat) (uvs : List Nat) (mask : Nat) (hu hv : List Nat) (n : Nat)
    (rest prev : List Nat)
    (h : Cuckatoo_verify_loop2_ok size uvs mask hu hv (n :: rest) prev = true) :
    let prev1 := if (idx prev (mulW 2 n) == mulW 2 size) = true then
        List.set prev (mulW 2 n) (idx hu ((shrW (idx uvs (mulW 2 n)) 1) &&& mask)) else prev
    let prev2 := if (idx prev1 (addW (mulW 2 n) 1) == mulW 2 size) = true then
        List.set prev1 (addW (mulW 2 n) 1) (idx hv ((shrW (idx uvs (addW (mulW 2 n) 1)) 1) &&& mask))
      else prev1
    mulW 2 n < prev.length ∧
    (idx prev (mulW 2 n) = mulW 2 size →
      mulW 2 n < uvs.length ∧ (shrW (idx uvs (mulW 2 n)) 1) &&& mask < hu.length) ∧
    addW (mulW 2 n) 1 < prev1.length ∧
    (idx prev1 (addW (mulW 2 n) 1) = mulW 2 size →
      addW (mulW 2 n) 1 < uvs.length ∧ (shrW (idx uvs (addW (mulW 2 n) 1)) 1) &&& mask < hv.length) ∧
    Cuckatoo_verify_loop2_ok size uvs mask hu hv rest prev2 = true := by
  conv at h => lhs; unfold Cuckatoo_verify_loop2_ok
  simp only [Bool.and_eq_true, decide_eq_true_eq] at h
  dsimp only
  obtain ⟨⟨h1, h2⟩, ⟨h3, h4⟩, h5⟩ := h
  refine ⟨h1, ?_, h3, ?_, h5⟩
  · intro e
    rw [if_pos (by simpa using e)] at h2
    simp only [Bool.and_eq_true, decide_eq_true_eq] at h2
    exact ⟨h2.1, h2.2.1⟩
  · intro e
    rw [if_pos (by simpa using e)] at h4
    simp only [Bool.and_eq_true, decide_eq_true_eq] at h4
    exact ⟨h4.1, h4.2.1⟩

theorem t2_eq (size : Nat) (uvs : List Nat) (mask : Nat) (hu hv : List Nat) (P : Params) (s : USt)
    (hsz : size < 2^62) (hbk : ∀ u, P.bk u = u &&& mask)
    (r1 : R uvs s.uvs) (r4 : RK k0 hu s.head) (r5 : RK k1 hv s.head) :
    ∀ (m a : Nat) (prev : List Nat) (prevf : Nat → Nat), a + m = size → R prev prevf →
      Cuckatoo_verify_loop2_ok size uvs mask hu hv (List.range' a m) prev = true →
      R (Cuckatoo_verify_loop2 size uvs mask hu hv (List.range' a m) prev)
        (uCirc cfgCuckatoo P size s m prevf) := by
  intro m
  induction m with
  | zero =>
    intro a prev prevf _ hR _
    rw [List.range'_zero, t2_nil, uCirc]; exact hR
  | succ m ih =>
    intro a prev prevf ham hR hok
    rw [List.range'_succ] at hok ⊢
    have hc := t2_ok_cons _ _ _ _ _ _ _ _ hok
    rw [t2_cons, uCirc]
    simp only [mulW_two a (by omega), addW_one (2 * a) (by omega), mulW_two size hsz, shrW_one] at hc ⊢
    obtain ⟨h1, h2, h3, h4, h5⟩ := hc
    have ea : size - (m + 1) = a := by omega
    simp only [ea, cfgCuckatoo, hbk]
    have hR1 := circ_step hR (2 * a) (2 * size) (idx hu (idx uvs (2 * a) >>> 1 &&& mask))
      (s.head (2 * (s.uvs (2 * a) >>> 1 &&& mask) + 0)) h1 (fun e => by
        rw [r4 _ (h2 e).2, r1 _ (h2 e).1]; rfl)
    have hR2 := circ_step hR1 (2 * a + 1) (2 * size) (idx hv (idx uvs (2 * a + 1) >>> 1 &&& mask))
      (s.head (2 * (s.uvs (2 * a + 1) >>> 1 &&& mask) + 1)) h3 (fun e => by
        rw [r5 _ (h4 e).2, r1 _ (h4 e).1]; rfl)
    exact ih (a + 1) _ _ (by omega) hR2 h5

/-! ### loop 3 (outer `loop`) = `uWalk (uStep cfgCuckatoo …)`; dead-end test `j == i || uvs[j] == uvs[i]` -/

theorem t3_succ (size : Nat) (uvs prev : List Nat) (f n i j : Nat) :
    Cuckatoo_verify_loop3 size uvs prev (f + 1) n i j =
      match Cuckatoo_verify_loop4 uvs prev i (2 * size + 1) i i with
      | .ret r4 => .ret r4
      | .go st5 =>
        if ((st5.1 == i) || (idx uvs st5.1 == idx uvs i)) = true then .ret none
        else if (st5.1 ^^^ 1 == 0) = true then .go (addW n 1, st5.1 ^^^ 1, st5.1)
        else Cuckatoo_verify_loop3 size uvs prev f (addW n 1) (st5.1 ^^^ 1) st5.1 := by
  conv => lhs; unfold Cuckatoo_verify_loop3
  rw [if_pos rfl]
  rfl

theorem t3_exits_zero (size : Nat) (uvs prev : List Nat) (n i j : Nat) :
    Cuckatoo_verify_loop3_exits size uvs prev 0 n i j = false := by
  conv => lhs; unfold Cuckatoo_verify_loop3_exits
  rfl

theorem t3_exits_succ (size : Nat) (uvs prev : List Nat) (f n i j : Nat)
    (h : Cuckatoo_verify_loop3_exits size uvs prev (f + 1) n i j = true) :
    Cuckatoo_verify_loop4_exits uvs prev i (2 * size + 1) i i = true ∧
    (∀ j' k', Cuckatoo_verify_loop4 uvs prev i (2 * size + 1) i i = .go (j', k') →
      (j' = i ∨ (j' < uvs.length ∧ i < uvs.length)) ∧
      (¬ (j' = i ∨ idx uvs j' = idx uvs i) → j' ^^^ 1 ≠ 0 →
        Cuckatoo_verify_loop3_exits size uvs prev f (addW n 1) (j' ^^^ 1) j' = true)) := by
  conv at h => lhs; unfold Cuckatoo_verify_loop3_exits
  rw [if_pos rfl, Bool.and_eq_true] at h
  refine ⟨h.1, fun j' k' e => ?_⟩
  have h2' := h.2
  rw [e] at h2'
  dsimp only at h2'
  rw [Bool.and_eq_true] at h2'
  refine ⟨by simpa using h2'.1, fun h1 h2 => ?_⟩
  have h3 := h2'.2
  rw [if_neg (by simpa using h1), if_neg (by simpa using h2)] at h3
  exact h3

theorem t3_eq (size : Nat) (uvs prev : List Nat) (uvsf prevf : Nat → Nat)
    (r1 : R uvs uvsf) (r6 : R prev prevf) :
    ∀ (f n i j : Nat), n + f < 2^63 → Cuckatoo_verify_loop3_exits size uvs prev f n i j = true →
      (Cuckatoo_verify_loop3 size uvs prev f n i j = .ret none ∧
        ∃ e, uWalk (uStep cfgCuckatoo size uvsf prevf) f i n = .error e) ∨
      (∃ n' i' j', Cuckatoo_verify_loop3 size uvs prev f n i j = .go (n', i', j') ∧
        uWalk (uStep cfgCuckatoo size uvsf prevf) f i n = .ok n') := by
  intro f
  induction f with
  | zero => intro n i j _ h; rw [t3_exits_zero] at h; cases h
  | succ f ih =>
    intro n i j hn h
    obtain ⟨h4, hrest⟩ := t3_exits_succ _ _ _ _ _ _ _ h
    rw [t3_succ, uWalk, uStep]
    rcases t4_eq uvs prev uvsf prevf i r1 r6 _ _ _ h4 with ⟨e1, e2⟩ | ⟨j', k', e1, e2⟩
    · left
      rw [e1, e2]
      exact ⟨rfl, _, rfl⟩
    · obtain ⟨hb, hrec⟩ := hrest j' k' e1
      rw [e1, e2]
      dsimp only
      simp only [cfgCuckatoo, Bool.true_and]
      -- the dead-end tests agree
      have hdead : ((j' == i) || (idx uvs j' == idx uvs i)) = true ↔
          (decide (j' = i) || (uvsf j' == uvsf i)) = true := by
        rcases hb with hb | ⟨hb1, hb2⟩
        · simp [hb]
        · rw [r1 _ hb1, r1 _ hb2]; simp
      by_cases c1 : ((j' == i) || (idx uvs j' == idx uvs i)) = true
      · left
        rw [if_pos c1, if_pos (hdead.1 c1)]
        exact ⟨rfl, _, rfl⟩
      · rw [if_neg c1, if_neg (fun h => c1 (hdead.2 h))]
        dsimp only
        rw [addW_one n (by omega)]
        by_cases c2 : j' ^^^ 1 = 0
        · right
          rw [if_pos (by simpa using c2), if_pos c2]
          exact ⟨_, _, _, rfl, rfl⟩
        · rw [if_neg (by simpa using c2), if_neg c2]
          have := hrec (by simpa using c1) c2
          rw [addW_one n (by omega)] at this
          exact ih _ _ _ (by omega) this

end GV.Lemmas.XlateVerifyT
