import GrinVerif.Model.Pow
import GrinVerif.Gen.FnsVerify

/-! # Helper lemmas for `Props/XlateVerify.lean` (translated cycle verifiers = hand model)

* `R l f` : the list array `l` (translation) and the function array `f` (model) agree on every index
  of the list; `RK g l f` : the same through an injective re-indexing `g` (the model packs the two
  head arrays `headu`, `headv` of the Rust code into one map keyed `2*b` / `2*b+1`).
* no-wrap facts for `mulW 2 n`, `addW n 1`, `subW n 1` on small numbers.
* `…_cons` / `…_nil` unfolding equations of the generated loops (obtained with
  `conv => lhs; unfold f`, see the note in `Props/XlatePow.lean`).
-/

namespace GV.Lemmas.XlateVerify
open GV GV.Gen GV.Gen.Fns GV.Pow

/-! ## arrays -/

/-- list array and function array agree on the indices of the list -/
def R (l : List Nat) (f : Nat → Nat) : Prop := ∀ i, i < l.length → idx l i = f i

/-- the same through a re-indexing `g` of the model's map -/
def RK (g : Nat → Nat) (l : List Nat) (f : Nat → Nat) : Prop :=
  ∀ i, i < l.length → idx l i = f (g i)

theorem idx_set (l : List Nat) (i v j : Nat) (hj : j < l.length) :
    idx (l.set i v) j = if j = i then v else idx l j := by
  unfold idx
  rw [List.getD_eq_getElem?_getD, List.getD_eq_getElem?_getD, List.getElem?_set]
  by_cases h : i = j
  · subst h; simp [hj]
  · have h' : ¬ j = i := fun e => h e.symm
    simp [h, h']

theorem R_set {l : List Nat} {f : Nat → Nat} (h : R l f) (i v : Nat) :
    R (l.set i v) (upd f i v) := by
  intro j hj
  rw [List.length_set] at hj
  rw [idx_set l i v j hj]
  unfold upd
  by_cases e : j = i
  · simp [e]
  · simp [e, h j hj]

theorem R_same {l : List Nat} {f : Nat → Nat} (h : R l f) (i : Nat) :
    R l (upd f i (f i)) := by
  intro j hj
  unfold upd
  by_cases e : j = i
  · simp [e]; rw [← e]; exact h j hj
  · simp [e, h j hj]

theorem RK_set {g : Nat → Nat} (hg : ∀ a b, g a = g b → a = b) {l : List Nat} {f : Nat → Nat}
    (h : RK g l f) (i v : Nat) : RK g (l.set i v) (upd f (g i) v) := by
  intro j hj
  rw [List.length_set] at hj
  rw [idx_set l i v j hj]
  unfold upd
  by_cases e : j = i
  · simp [e]
  · have : ¬ g j = g i := fun e' => e (hg _ _ e')
    simp [e, this, h j hj]

theorem RK_other {g : Nat → Nat} {l : List Nat} {f : Nat → Nat} (h : RK g l f) (k v : Nat)
    (hk : ∀ b, g b ≠ k) : RK g l (upd f k v) := by
  intro j hj
  unfold upd
  simp [hk j, h j hj]

theorem R_replicate (n v : Nat) : R (List.replicate n v) (fun _ => v) := by
  intro i hi
  rw [List.length_replicate] at hi
  unfold idx
  rw [List.getD_eq_getElem?_getD, List.getElem?_replicate]
  simp [hi]

theorem RK_replicate (g : Nat → Nat) (n v : Nat) : RK g (List.replicate n v) (fun _ => v) := by
  intro i hi
  exact R_replicate n v i hi

/-! ## no-wrap arithmetic -/

theorem mulW_two (n : Nat) (h : n < 2^62) : mulW 2 n = 2 * n := by
  unfold mulW; exact Nat.mod_eq_of_lt (by omega)

theorem addW_one (n : Nat) (h : n < 2^63) : addW n 1 = n + 1 := by
  unfold addW; exact Nat.mod_eq_of_lt (by omega)

theorem subW_one (n : Nat) (h0 : 0 < n) (h : n < 2^63) : subW n 1 = n - 1 := by
  unfold subW
  have : n + 2^64 - 1 % 2^64 = (n - 1) + 2^64 := by omega
  rw [this, Nat.add_mod_right]; exact Nat.mod_eq_of_lt (by omega)

theorem shrW_one (a : Nat) : shrW a 1 = a >>> 1 := by
  unfold shrW; rw [Nat.shiftRight_eq_div_pow]

theorem drop_eq_cons (l : List Nat) (a : Nat) (h : a < l.length) :
    l.drop a = idx l a :: l.drop (a + 1) := by
  unfold idx
  rw [List.getD_eq_getElem?_getD, List.getElem?_eq_getElem h, Option.getD_some]
  exact List.drop_eq_getElem_cons h

/-! ## Cuckaroo (`core/src/pow/cuckaroo.rs`) -/

theorem c1_nil (p : CuckooParams) (nonces : List Nat) (mask : Nat) (uvs : List Nat) (x0 x1 : Nat)
    (hu hv prev : List Nat) :
    Cuckaroo_verify_loop1 p nonces mask [] uvs x0 x1 hu hv prev = .go (uvs, x0, x1, hu, hv, prev) := by
  conv => lhs; unfold Cuckaroo_verify_loop1

theorem c1_cons (p : CuckooParams) (nonces : List Nat) (mask n : Nat) (rest uvs : List Nat)
    (x0 x1 : Nat) (hu hv prev : List Nat) :
    Cuckaroo_verify_loop1 p nonces mask (n :: rest) uvs x0 x1 hu hv prev =
      if decide (idx nonces n > p.edge_mask) then .ret none
      else if (decide (n > 0)) && (decide (idx nonces n ≤ idx nonces (subW n 1))) then .ret none
      else
        let edge := siphash_block p.siphash_keys (idx nonces n) 21 false
        let u := edge &&& p.node_mask
        let v := (shrW edge 32) &&& p.node_mask
        Cuckaroo_verify_loop1 p nonces mask rest
          (List.set (List.set uvs (mulW 2 n) u) (addW (mulW 2 n) 1) v) (x0 ^^^ u) (x1 ^^^ v)
          (List.set hu (u &&& mask) (mulW 2 n)) (List.set hv (v &&& mask) (addW (mulW 2 n) 1))
          (List.set (List.set prev (mulW 2 n) (idx hu (u &&& mask))) (addW (mulW 2 n) 1)
            (idx hv (v &&& mask))) := by
  conv => lhs; unfold Cuckaroo_verify_loop1

theorem c1_ok_cons (p : CuckooParams) (nonces : List Nat) (mask n : Nat) (rest uvs : List Nat)
    (x0 x1 : Nat) (hu hv prev : List Nat)
    (h : Cuckaroo_verify_loop1_ok p nonces mask (n :: rest) uvs x0 x1 hu hv prev = true) :
    n < nonces.length ∧
    (¬ idx nonces n > p.edge_mask →
     ¬ (n > 0 ∧ idx nonces n ≤ idx nonces (subW n 1)) →
        let edge := siphash_block p.siphash_keys (idx nonces n) 21 false
        let u := edge &&& p.node_mask
        let v := (shrW edge 32) &&& p.node_mask
        u &&& mask < hu.length ∧ v &&& mask < hv.length ∧
        Cuckaroo_verify_loop1_ok p nonces mask rest
          (List.set (List.set uvs (mulW 2 n) u) (addW (mulW 2 n) 1) v) (x0 ^^^ u) (x1 ^^^ v)
          (List.set hu (u &&& mask) (mulW 2 n)) (List.set hv (v &&& mask) (addW (mulW 2 n) 1))
          (List.set (List.set prev (mulW 2 n) (idx hu (u &&& mask))) (addW (mulW 2 n) 1)
            (idx hv (v &&& mask))) = true) := by
  conv at h => lhs; unfold Cuckaroo_verify_loop1_ok
  simp only [Bool.and_eq_true, decide_eq_true_eq] at h
  refine ⟨h.1, ?_⟩
  intro h1 h2
  have h' := h.2
  rw [if_neg h1, Bool.and_eq_true] at h'
  have h'' := h'.2
  rw [if_neg h2] at h''
  simp only [Bool.and_eq_true, decide_eq_true_eq] at h''
  exact ⟨h''.2.2.1.1, h''.2.2.2.2.2.1.1, h''.2.2.2.2.2.2.2⟩

def k0 (b : Nat) : Nat := 2 * b
def k1 (b : Nat) : Nat := 2 * b + 1
theorem k0_inj (a b : Nat) (h : k0 a = k0 b) : a = b := by unfold k0 at h; omega
theorem k1_inj (a b : Nat) (h : k1 a = k1 b) : a = b := by unfold k1 at h; omega
theorem k0_ne_k1 (a b : Nat) : k0 a ≠ k1 b := by unfold k0 k1; omega
theorem k1_ne_k0 (a b : Nat) : k1 a ≠ k0 b := by unfold k0 k1; omega

/-- `nonces[a-1]` as the model's `last` -/
def lastOf (nonces : List Nat) (a : Nat) : Option Nat :=
  if a = 0 then none else some (idx nonces (a - 1))

theorem lastOf_succ (nonces : List Nat) (a : Nat) : lastOf nonces (a + 1) = some (idx nonces a) := by
  simp [lastOf]

theorem notAsc_lastOf (nonces : List Nat) (a x : Nat) (ha : a < 2^63) :
    (notAsc (lastOf nonces a) x = true) ↔ (a > 0 ∧ x ≤ idx nonces (subW a 1)) := by
  unfold lastOf
  by_cases h : a = 0
  · simp [h, notAsc]
  · rw [if_neg h, subW_one a (by omega) ha]; simp [notAsc]; omega

/-- state of the translated first loop vs. the model's `USt` -/
def RelU (g0 g1 : Nat → Nat) (st : List Nat × Nat × Nat × List Nat × List Nat × List Nat)
    (s : USt) : Prop :=
  R st.1 s.uvs ∧ st.2.1 = s.x0 ∧ st.2.2.1 = s.x1 ∧ RK g0 st.2.2.2.1 s.head ∧
    RK g1 st.2.2.2.2.1 s.head ∧ R st.2.2.2.2.2 s.prev

theorem c1_eq (p : CuckooParams) (nonces : List Nat) (mask : Nat) (P : Params) (ep : Nat → Nat × Nat)
    (hsz : nonces.length < 2^62) (hP2 : P.edgeMask = p.edge_mask) (hbk : ∀ u, P.bk u = u &&& mask)
    (hep : ∀ x, ep x = (siphash_block p.siphash_keys x 21 false &&& p.node_mask,
        shrW (siphash_block p.siphash_keys x 21 false) 32 &&& p.node_mask)) :
    ∀ (k a : Nat) (uvs : List Nat) (x0 x1 : Nat) (hu hv prev : List Nat) (s : USt),
      a + k = nonces.length → RelU k0 k1 (uvs, x0, x1, hu, hv, prev) s →
      Cuckaroo_verify_loop1_ok p nonces mask (List.range' a k) uvs x0 x1 hu hv prev = true →
      (Cuckaroo_verify_loop1 p nonces mask (List.range' a k) uvs x0 x1 hu hv prev = .ret none ∧
        ∃ e, uBuild cfgCuckaroo P ep (nonces.drop a) a (lastOf nonces a) s = .error e) ∨
      (∃ st s', Cuckaroo_verify_loop1 p nonces mask (List.range' a k) uvs x0 x1 hu hv prev = .go st ∧
        uBuild cfgCuckaroo P ep (nonces.drop a) a (lastOf nonces a) s = .ok s' ∧ RelU k0 k1 st s') := by
  intro k
  induction k with
  | zero =>
    intro a uvs x0 x1 hu hv prev s hak hrel _
    right
    refine ⟨_, s, ?_, ?_, hrel⟩
    · rw [List.range'_zero, c1_nil]
    · rw [List.drop_of_length_le (by omega), uBuild]
  | succ k ih =>
    intro a uvs x0 x1 hu hv prev s hak hrel hok
    rw [List.range'_succ] at hok ⊢
    obtain ⟨han, hrest⟩ := c1_ok_cons _ _ _ _ _ _ _ _ _ _ _ hok
    rw [c1_cons, drop_eq_cons nonces a han, uBuild]
    by_cases h1 : idx nonces a > p.edge_mask
    · left
      rw [if_pos (by simpa using h1), if_pos (by rw [hP2]; exact h1)]
      exact ⟨rfl, _, rfl⟩
    · by_cases h2 : a > 0 ∧ idx nonces a ≤ idx nonces (subW a 1)
      · left
        rw [if_neg (by simpa using h1), if_pos (by simpa using h2), if_neg (by rw [hP2]; exact h1),
          if_pos ((notAsc_lastOf nonces a _ (by omega)).2 h2)]
        exact ⟨rfl, _, rfl⟩
      · obtain ⟨hub, hvb, hok'⟩ := hrest h1 h2
        rw [if_neg (by simpa using h1), if_neg (by simpa using h2), if_neg (by rw [hP2]; exact h1),
          if_neg (fun h => h2 ((notAsc_lastOf nonces a _ (by omega)).1 h))]
        rw [← lastOf_succ]
        obtain ⟨r1, r2, r3, r4, r5, r6⟩ := hrel
        simp only [hep, hbk, cfgCuckaroo]
        simp only [mulW_two a (by omega), addW_one (2 * a) (by omega)] at hok' ⊢
        refine ih (a + 1) _ _ _ _ _ _ _ (by omega) ?_ hok'
        generalize siphash_block p.siphash_keys (idx nonces a) 21 false &&& p.node_mask = U at hub ⊢
        generalize shrW (siphash_block p.siphash_keys (idx nonces a) 21 false) 32 &&& p.node_mask = V
          at hvb ⊢
        have e1 : idx hu (U &&& mask) = s.head (2 * (U &&& mask) + 0) := r4 _ hub
        have e2 : idx hv (V &&& mask)
            = upd s.head (2 * (U &&& mask) + 0) (2 * a) (2 * (V &&& mask) + 1) := by
          rw [r5 _ hvb]; unfold upd k1; rw [if_neg (by omega)]
        rw [e1, e2]
        refine ⟨R_set (R_set r1 _ _) _ _, ?_, ?_, ?_, ?_, R_set (R_set r6 _ _) _ _⟩
        · show x0 ^^^ U = s.x0 ^^^ U
          rw [show x0 = s.x0 from r2]
        · show x1 ^^^ V = s.x1 ^^^ V
          rw [show x1 = s.x1 from r3]
        · exact RK_other (RK_set k0_inj r4 _ _) _ _ (fun b => k0_ne_k1 b _)
        · exact RK_set k1_inj (RK_other r5 _ _ (fun b => k1_ne_k0 b _)) _ _

/-! ### loop 2 (make prev lists circular) = `uCirc` -/

theorem circ_step {prev : List Nat} {prevf : Nat → Nat} (hR : R prev prevf) (i nil v w : Nat)
    (hi : i < prev.length) (hv : idx prev i = nil → v = w) :
    R (if (idx prev i == nil) = true then prev.set i v else prev)
      (upd prevf i (circVal nil prevf i w)) := by
  unfold circVal
  rw [← hR i hi]
  by_cases h : idx prev i = nil
  · rw [if_pos (by simpa using h), if_pos h, hv h]; exact R_set hR _ _
  · rw [if_neg (by simpa using h), if_neg h, hR i hi]; exact R_same hR _

theorem c2_nil (size : Nat) (uvs : List Nat) (mask : Nat) (hu hv prev : List Nat) :
    Cuckaroo_verify_loop2 size uvs mask hu hv [] prev = prev := by
  conv => lhs; unfold Cuckaroo_verify_loop2

theorem c2_cons (size : Nat) (uvs : List Nat) (mask : Nat) (hu hv : List Nat) (n : Nat)
    (rest prev : List Nat) :
    Cuckaroo_verify_loop2 size uvs mask hu hv (n :: rest) prev =
      let prev1 := if (idx prev (mulW 2 n) == mulW 2 size) = true then
          List.set prev (mulW 2 n) (idx hu ((idx uvs (mulW 2 n)) &&& mask)) else prev
      let prev2 := if (idx prev1 (addW (mulW 2 n) 1) == mulW 2 size) = true then
          List.set prev1 (addW (mulW 2 n) 1) (idx hv ((idx uvs (addW (mulW 2 n) 1)) &&& mask)) else prev1
      Cuckaroo_verify_loop2 size uvs mask hu hv rest prev2 := by
  conv => lhs; unfold Cuckaroo_verify_loop2

theorem c2_ok_cons (size : Nat) (uvs : List Nat) (mask : Nat) (hu hv : List Nat) (n : Nat)
    (rest prev : List Nat)
    (h : Cuckaroo_verify_loop2_ok size uvs mask hu hv (n :: rest) prev = true) :
    let prev1 := if (idx prev (mulW 2 n) == mulW 2 size) = true then
        List.set prev (mulW 2 n) (idx hu ((idx uvs (mulW 2 n)) &&& mask)) else prev
    let prev2 := if (idx prev1 (addW (mulW 2 n) 1) == mulW 2 size) = true then
        List.set prev1 (addW (mulW 2 n) 1) (idx hv ((idx uvs (addW (mulW 2 n) 1)) &&& mask)) else prev1
    mulW 2 n < prev.length ∧
    (idx prev (mulW 2 n) = mulW 2 size →
      mulW 2 n < uvs.length ∧ (idx uvs (mulW 2 n)) &&& mask < hu.length) ∧
    addW (mulW 2 n) 1 < prev1.length ∧
    (idx prev1 (addW (mulW 2 n) 1) = mulW 2 size →
      addW (mulW 2 n) 1 < uvs.length ∧ (idx uvs (addW (mulW 2 n) 1)) &&& mask < hv.length) ∧
    Cuckaroo_verify_loop2_ok size uvs mask hu hv rest prev2 = true := by
  conv at h => lhs; unfold Cuckaroo_verify_loop2_ok
  simp only [Bool.and_eq_true, decide_eq_true_eq] at h
  dsimp only
  obtain ⟨⟨h1, h2⟩, ⟨h3, h4⟩, h5⟩ := h
  refine ⟨h1, ?_, h3, ?_, h5⟩
  · intro e
    rw [if_pos (by simpa using e)] at h2
    simp only [Bool.and_eq_true, decide_eq_true_eq] at h2
    exact ⟨h2.1, h2.2.1⟩
  · intro e
    rw [if_pos (by simpa using e)] at h4
    simp only [Bool.and_eq_true, decide_eq_true_eq] at h4
    exact ⟨h4.1, h4.2.1⟩

theorem c2_eq (size : Nat) (uvs : List Nat) (mask : Nat) (hu hv : List Nat) (P : Params) (s : USt)
    (hsz : size < 2^62) (hbk : ∀ u, P.bk u = u &&& mask)
    (r1 : R uvs s.uvs) (r4 : RK k0 hu s.head) (r5 : RK k1 hv s.head) :
    ∀ (m a : Nat) (prev : List Nat) (prevf : Nat → Nat), a + m = size → R prev prevf →
      Cuckaroo_verify_loop2_ok size uvs mask hu hv (List.range' a m) prev = true →
      R (Cuckaroo_verify_loop2 size uvs mask hu hv (List.range' a m) prev)
        (uCirc cfgCuckaroo P size s m prevf) := by
  intro m
  induction m with
  | zero =>
    intro a prev prevf _ hR _
    rw [List.range'_zero, c2_nil, uCirc]; exact hR
  | succ m ih =>
    intro a prev prevf ham hR hok
    rw [List.range'_succ] at hok ⊢
    have hc := c2_ok_cons _ _ _ _ _ _ _ _ hok
    rw [c2_cons, uCirc]
    simp only [mulW_two a (by omega), addW_one (2 * a) (by omega), mulW_two size hsz] at hc ⊢
    obtain ⟨h1, h2, h3, h4, h5⟩ := hc
    have ea : size - (m + 1) = a := by omega
    simp only [ea, cfgCuckaroo, hbk]
    have hR1 := circ_step hR (2 * a) (2 * size) (idx hu (idx uvs (2 * a) &&& mask))
      (s.head (2 * (s.uvs (2 * a) &&& mask) + 0)) h1 (fun e => by
        rw [r4 _ (h2 e).2, r1 _ (h2 e).1]; rfl)
    have hR2 := circ_step hR1 (2 * a + 1) (2 * size) (idx hv (idx uvs (2 * a + 1) &&& mask))
      (s.head (2 * (s.uvs (2 * a + 1) &&& mask) + 1)) h3 (fun e => by
        rw [r5 _ (h4 e).2, r1 _ (h4 e).1]; rfl)
    exact ih (a + 1) _ _ (by omega) hR2 h5

/-! ### loop 4 (inner `loop`) = `uFind`, loop 3 (outer `loop`) = `uWalk (uStep …)` -/

theorem c4_zero (uvs prev : List Nat) (i j k : Nat) :
    Cuckaroo_verify_loop4 uvs prev i 0 j k = .go (j, k) := by
  conv => lhs; unfold Cuckaroo_verify_loop4

theorem c4_succ (uvs prev : List Nat) (i f j k : Nat) :
    Cuckaroo_verify_loop4 uvs prev i (f + 1) j k =
      if (idx prev k == i) = true then .go (j, idx prev k)
      else if (idx uvs (idx prev k) == idx uvs i) = true then
        (if (j != i) = true then .ret none
         else Cuckaroo_verify_loop4 uvs prev i f (idx prev k) (idx prev k))
      else Cuckaroo_verify_loop4 uvs prev i f j (idx prev k) := by
  conv => lhs; unfold Cuckaroo_verify_loop4
  rw [if_pos rfl]

theorem c4_exits_zero (uvs prev : List Nat) (i j k : Nat) :
    Cuckaroo_verify_loop4_exits uvs prev i 0 j k = false := by
  conv => lhs; unfold Cuckaroo_verify_loop4_exits
  rfl

theorem c4_exits_succ (uvs prev : List Nat) (i f j k : Nat)
    (h : Cuckaroo_verify_loop4_exits uvs prev i (f + 1) j k = true) :
    k < prev.length ∧ (idx prev k ≠ i → idx prev k < uvs.length ∧ i < uvs.length ∧
      (if (idx uvs (idx prev k) == idx uvs i) = true then
        (j = i → Cuckaroo_verify_loop4_exits uvs prev i f (idx prev k) (idx prev k) = true)
       else Cuckaroo_verify_loop4_exits uvs prev i f j (idx prev k) = true)) := by
  conv at h => lhs; unfold Cuckaroo_verify_loop4_exits
  rw [if_pos rfl] at h
  simp only [Bool.and_eq_true, decide_eq_true_eq] at h
  refine ⟨h.1, fun hne => ?_⟩
  have h2 := h.2
  rw [if_neg (by simpa using hne)] at h2
  simp only [Bool.and_eq_true, decide_eq_true_eq] at h2
  refine ⟨h2.1.1, h2.1.2, ?_⟩
  have h3 := h2.2
  by_cases e : (idx uvs (idx prev k) == idx uvs i) = true
  · rw [if_pos e] at h3 ⊢
    intro hj
    rw [if_neg (by simpa using hj)] at h3
    exact h3
  · rw [if_neg e] at h3 ⊢
    exact h3

theorem c4_eq (uvs prev : List Nat) (uvsf prevf : Nat → Nat) (i : Nat)
    (r1 : R uvs uvsf) (r6 : R prev prevf) :
    ∀ (f j k : Nat), Cuckaroo_verify_loop4_exits uvs prev i f j k = true →
      (Cuckaroo_verify_loop4 uvs prev i f j k = .ret none ∧
        uFind cfgCuckaroo uvsf prevf i f k j = .error .branch) ∨
      (∃ j' k', Cuckaroo_verify_loop4 uvs prev i f j k = .go (j', k') ∧
        uFind cfgCuckaroo uvsf prevf i f k j = .ok j') := by
  intro f
  induction f with
  | zero => intro j k h; rw [c4_exits_zero] at h; cases h
  | succ f ih =>
    intro j k h
    obtain ⟨hk, hrest⟩ := c4_exits_succ _ _ _ _ _ _ h
    rw [c4_succ, uFind]
    simp only [cfgCuckaroo]
    rw [← r6 k hk]
    by_cases e1 : idx prev k = i
    · right
      rw [if_pos (by simpa using e1), if_pos e1]
      exact ⟨_, _, rfl, rfl⟩
    · obtain ⟨hk', hi, hrec⟩ := hrest e1
      rw [if_neg (by simpa using e1), if_neg e1, ← r1 _ hk', ← r1 _ hi]
      by_cases e2 : (idx uvs (idx prev k) == idx uvs i) = true
      · rw [if_pos e2] at hrec
        simp only [e2, if_true]
        by_cases e3 : j = i
        · rw [if_neg (by simpa using e3), if_neg (by simpa using e3)]
          exact ih _ _ (hrec e3)
        · left
          rw [if_pos (by simpa using e3), if_pos (by simpa using e3)]
          exact ⟨rfl, rfl⟩
      · rw [if_neg e2] at hrec
        simp only [e2]
        exact ih _ _ hrec

theorem c3_succ (size : Nat) (uvs prev : List Nat) (f n i j : Nat) :
    Cuckaroo_verify_loop3 size uvs prev (f + 1) n i j =
      match Cuckaroo_verify_loop4 uvs prev i (2 * size + 1) i i with
      | .ret r4 => .ret r4
      | .go st5 =>
        if (st5.1 == i) = true then .ret none
        else if (st5.1 ^^^ 1 == 0) = true then .go (addW n 1, st5.1 ^^^ 1, st5.1)
        else Cuckaroo_verify_loop3 size uvs prev f (addW n 1) (st5.1 ^^^ 1) st5.1 := by
  conv => lhs; unfold Cuckaroo_verify_loop3
  rw [if_pos rfl]
  rfl

theorem c3_exits_zero (size : Nat) (uvs prev : List Nat) (n i j : Nat) :
    Cuckaroo_verify_loop3_exits size uvs prev 0 n i j = false := by
  conv => lhs; unfold Cuckaroo_verify_loop3_exits
  rfl

theorem c3_exits_succ (size : Nat) (uvs prev : List Nat) (f n i j : Nat)
    (h : Cuckaroo_verify_loop3_exits size uvs prev (f + 1) n i j = true) :
    Cuckaroo_verify_loop4_exits uvs prev i (2 * size + 1) i i = true ∧
    (∀ j' k', Cuckaroo_verify_loop4 uvs prev i (2 * size + 1) i i = .go (j', k') → j' ≠ i →
      j' ^^^ 1 ≠ 0 →
      Cuckaroo_verify_loop3_exits size uvs prev f (addW n 1) (j' ^^^ 1) j' = true) := by
  conv at h => lhs; unfold Cuckaroo_verify_loop3_exits
  rw [if_pos rfl, Bool.and_eq_true] at h
  refine ⟨h.1, fun j' k' e h1 h2 => ?_⟩
  have h2' := h.2
  rw [e] at h2'
  dsimp only at h2'
  rw [if_neg (by simpa using h1), if_neg (by simpa using h2)] at h2'
  exact h2'

theorem c3_eq (size : Nat) (uvs prev : List Nat) (uvsf prevf : Nat → Nat)
    (r1 : R uvs uvsf) (r6 : R prev prevf) :
    ∀ (f n i j : Nat), n + f < 2^63 → Cuckaroo_verify_loop3_exits size uvs prev f n i j = true →
      (Cuckaroo_verify_loop3 size uvs prev f n i j = .ret none ∧
        ∃ e, uWalk (uStep cfgCuckaroo size uvsf prevf) f i n = .error e) ∨
      (∃ n' i' j', Cuckaroo_verify_loop3 size uvs prev f n i j = .go (n', i', j') ∧
        uWalk (uStep cfgCuckaroo size uvsf prevf) f i n = .ok n') := by
  intro f
  induction f with
  | zero => intro n i j _ h; rw [c3_exits_zero] at h; cases h
  | succ f ih =>
    intro n i j hn h
    obtain ⟨h4, hrest⟩ := c3_exits_succ _ _ _ _ _ _ _ h
    rw [c3_succ, uWalk, uStep]
    rcases c4_eq uvs prev uvsf prevf i r1 r6 _ _ _ h4 with ⟨e1, e2⟩ | ⟨j', k', e1, e2⟩
    · left
      rw [e1, e2]
      exact ⟨rfl, _, rfl⟩
    · rw [e1, e2]
      dsimp only
      simp only [cfgCuckaroo, Bool.false_and, Bool.or_false, decide_eq_true_eq]
      by_cases c1 : j' = i
      · left
        rw [if_pos (by simpa using c1), if_pos c1]
        exact ⟨rfl, _, rfl⟩
      · rw [if_neg (by simpa using c1), if_neg c1]
        dsimp only
        rw [addW_one n (by omega)]
        by_cases c2 : j' ^^^ 1 = 0
        · right
          rw [if_pos (by simpa using c2), if_pos c2]
          exact ⟨_, _, _, rfl, rfl⟩
        · rw [if_neg (by simpa using c2), if_neg c2]
          have := hrest j' k' e1 c1 c2
          rw [addW_one n (by omega)] at this
          exact ih _ _ _ (by omega) this
/-! ## Cuckarooz (`core/src/pow/cuckarooz.rs`): loops 3 and 4 (same text as Cuckaroo's) -/

theorem z4_zero (uvs prev : List Nat) (i j k : Nat) :
    Cuckarooz_verify_loop4 uvs prev i 0 j k = .go (j, k) := by
  conv => lhs; unfold Cuckarooz_verify_loop4

theorem z4_succ (uvs prev : List Nat) (i f j k : Nat) :
    Cuckarooz_verify_loop4 uvs prev i (f + 1) j k =
      if (idx prev k == i) = true then .go (j, idx prev k)
      else if (idx uvs (idx prev k) == idx uvs i) = true then
        (if (j != i) = true then .ret none
         else Cuckarooz_verify_loop4 uvs prev i f (idx prev k) (idx prev k))
      else Cuckarooz_verify_loop4 uvs prev i f j (idx prev k) := by
  conv => lhs; unfold Cuckarooz_verify_loop4
  rw [if_pos rfl]

theorem z4_exits_zero (uvs prev : List Nat) (i j k : Nat) :
    Cuckarooz_verify_loop4_exits uvs prev i 0 j k = false := by
  conv => lhs; unfold Cuckarooz_verify_loop4_exits
  rfl

theorem z4_exits_succ (uvs prev : List Nat) (i f j k : Nat)
    (h : Cuckarooz_verify_loop4_exits uvs prev i (f + 1) j k = true) :
    k < prev.length ∧ (idx prev k ≠ i → idx prev k < uvs.length ∧ i < uvs.length ∧
      (if (idx uvs (idx prev k) == idx uvs i) = true then
        (j = i → Cuckarooz_verify_loop4_exits uvs prev i f (idx prev k) (idx prev k) = true)
       else Cuckarooz_verify_loop4_exits uvs prev i f j (idx prev k) = true)) := by
  conv at h => lhs; unfold Cuckarooz_verify_loop4_exits
  rw [if_pos rfl] at h
  simp only [Bool.and_eq_true, decide_eq_true_eq] at h
  refine ⟨h.1, fun hne => ?_⟩
  have h2 := h.2
  rw [if_neg (by simpa using hne)] at h2
  simp only [Bool.and_eq_true, decide_eq_true_eq] at h2
  refine ⟨h2.1.1, h2.1.2, ?_⟩
  have h3 := h2.2
  by_cases e : (idx uvs (idx prev k) == idx uvs i) = true
  · rw [if_pos e] at h3 ⊢
    intro hj
    rw [if_neg (by simpa using hj)] at h3
    exact h3
  · rw [if_neg e] at h3 ⊢
    exact h3

theorem z4_eq (uvs prev : List Nat) (uvsf prevf : Nat → Nat) (i : Nat)
    (r1 : R uvs uvsf) (r6 : R prev prevf) :
    ∀ (f j k : Nat), Cuckarooz_verify_loop4_exits uvs prev i f j k = true →
      (Cuckarooz_verify_loop4 uvs prev i f j k = .ret none ∧
        uFind cfgCuckarooz uvsf prevf i f k j = .error .branch) ∨
      (∃ j' k', Cuckarooz_verify_loop4 uvs prev i f j k = .go (j', k') ∧
        uFind cfgCuckarooz uvsf prevf i f k j = .ok j') := by
  intro f
  induction f with
  | zero => intro j k h; rw [z4_exits_zero] at h; cases h
  | succ f ih =>
    intro j k h
    obtain ⟨hk, hrest⟩ := z4_exits_succ _ _ _ _ _ _ h
    rw [z4_succ, uFind]
    simp only [cfgCuckarooz]
    rw [← r6 k hk]
    by_cases e1 : idx prev k = i
    · right
      rw [if_pos (by simpa using e1), if_pos e1]
      exact ⟨_, _, rfl, rfl⟩
    · obtain ⟨hk', hi, hrec⟩ := hrest e1
      rw [if_neg (by simpa using e1), if_neg e1, ← r1 _ hk', ← r1 _ hi]
      by_cases e2 : (idx uvs (idx prev k) == idx uvs i) = true
      · rw [if_pos e2] at hrec
        simp only [e2, if_true]
        by_cases e3 : j = i
        · rw [if_neg (by simpa using e3), if_neg (by simpa using e3)]
          exact ih _ _ (hrec e3)
        · left
          rw [if_pos (by simpa using e3), if_pos (by simpa using e3)]
          exact ⟨rfl, rfl⟩
      · rw [if_neg e2] at hrec
        simp only [e2]
        exact ih _ _ hrec

theorem z3_succ (size : Nat) (uvs prev : List Nat) (f n i j : Nat) :
    Cuckarooz_verify_loop3 size uvs prev (f + 1) n i j =
      match Cuckarooz_verify_loop4 uvs prev i (2 * size + 1) i i with
      | .ret r4 => .ret r4
      | .go st5 =>
        if (st5.1 == i) = true then .ret none
        else if (st5.1 ^^^ 1 == 0) = true then .go (addW n 1, st5.1 ^^^ 1, st5.1)
        else Cuckarooz_verify_loop3 size uvs prev f (addW n 1) (st5.1 ^^^ 1) st5.1 := by
  conv => lhs; unfold Cuckarooz_verify_loop3
  rw [if_pos rfl]
  rfl

theorem z3_exits_zero (size : Nat) (uvs prev : List Nat) (n i j : Nat) :
    Cuckarooz_verify_loop3_exits size uvs prev 0 n i j = false := by
  conv => lhs; unfold Cuckarooz_verify_loop3_exits
  rfl

theorem z3_exits_succ (size : Nat) (uvs prev : List Nat) (f n i j : Nat)
    (h : Cuckarooz_verify_loop3_exits size uvs prev (f + 1) n i j = true) :
    Cuckarooz_verify_loop4_exits uvs prev i (2 * size + 1) i i = true ∧
    (∀ j' k', Cuckarooz_verify_loop4 uvs prev i (2 * size + 1) i i = .go (j', k') → j' ≠ i →
      j' ^^^ 1 ≠ 0 →
      Cuckarooz_verify_loop3_exits size uvs prev f (addW n 1) (j' ^^^ 1) j' = true) := by
  conv at h => lhs; unfold Cuckarooz_verify_loop3_exits
  rw [if_pos rfl, Bool.and_eq_true] at h
  refine ⟨h.1, fun j' k' e h1 h2 => ?_⟩
  have h2' := h.2
  rw [e] at h2'
  dsimp only at h2'
  rw [if_neg (by simpa using h1), if_neg (by simpa using h2)] at h2'
  exact h2'

theorem z3_eq (size : Nat) (uvs prev : List Nat) (uvsf prevf : Nat → Nat)
    (r1 : R uvs uvsf) (r6 : R prev prevf) :
    ∀ (f n i j : Nat), n + f < 2^63 → Cuckarooz_verify_loop3_exits size uvs prev f n i j = true →
      (Cuckarooz_verify_loop3 size uvs prev f n i j = .ret none ∧
        ∃ e, uWalk (uStep cfgCuckarooz size uvsf prevf) f i n = .error e) ∨
      (∃ n' i' j', Cuckarooz_verify_loop3 size uvs prev f n i j = .go (n', i', j') ∧
        uWalk (uStep cfgCuckarooz size uvsf prevf) f i n = .ok n') := by
  intro f
  induction f with
  | zero => intro n i j _ h; rw [z3_exits_zero] at h; cases h
  | succ f ih =>
    intro n i j hn h
    obtain ⟨h4, hrest⟩ := z3_exits_succ _ _ _ _ _ _ _ h
    rw [z3_succ, uWalk, uStep]
    rcases z4_eq uvs prev uvsf prevf i r1 r6 _ _ _ h4 with ⟨e1, e2⟩ | ⟨j', k', e1, e2⟩
    · left
      rw [e1, e2]
      exact ⟨rfl, _, rfl⟩
    · rw [e1, e2]
      dsimp only
      simp only [cfgCuckarooz, Bool.false_and, Bool.or_false, decide_eq_true_eq]
      by_cases c1 : j' = i
      · left
        rw [if_pos (by simpa using c1), if_pos c1]
        exact ⟨rfl, _, rfl⟩
      · rw [if_neg (by simpa using c1), if_neg c1]
        dsimp only
        rw [addW_one n (by omega)]
        by_cases c2 : j' ^^^ 1 = 0
        · right
          rw [if_pos (by simpa using c2), if_pos c2]
          exact ⟨_, _, _, rfl, rfl⟩
        · rw [if_neg (by simpa using c2), if_neg c2]
          have := hrest j' k' e1 c1 c2
          rw [addW_one n (by omega)] at this
          exact ih _ _ _ (by omega) this
/-! ## Cuckatoo (`core/src/pow/cuckatoo.rs`): inner loop 4 = `uFind cfgCuckatoo` -/

theorem t4_zero (uvs prev : List Nat) (i j k : Nat) :
    Cuckatoo_verify_loop4 uvs prev i 0 j k = .go (j, k) := by
  conv => lhs; unfold Cuckatoo_verify_loop4

theorem t4_succ (uvs prev : List Nat) (i f j k : Nat) :
    Cuckatoo_verify_loop4 uvs prev i (f + 1) j k =
      if (idx prev k == i) = true then .go (j, idx prev k)
      else if (shrW (idx uvs (idx prev k)) 1 == shrW (idx uvs i) 1) = true then
        (if (j != i) = true then .ret none
         else Cuckatoo_verify_loop4 uvs prev i f (idx prev k) (idx prev k))
      else Cuckatoo_verify_loop4 uvs prev i f j (idx prev k) := by
  conv => lhs; unfold Cuckatoo_verify_loop4
  rw [if_pos rfl]

theorem t4_exits_zero (uvs prev : List Nat) (i j k : Nat) :
    Cuckatoo_verify_loop4_exits uvs prev i 0 j k = false := by
  conv => lhs; unfold Cuckatoo_verify_loop4_exits
  rfl

theorem t4_exits_succ (uvs prev : List Nat) (i f j k : Nat)
    (h : Cuckatoo_verify_loop4_exits uvs prev i (f + 1) j k = true) :
    k < prev.length ∧ (idx prev k ≠ i → idx prev k < uvs.length ∧ i < uvs.length ∧
      (if (shrW (idx uvs (idx prev k)) 1 == shrW (idx uvs i) 1) = true then
        (j = i → Cuckatoo_verify_loop4_exits uvs prev i f (idx prev k) (idx prev k) = true)
       else Cuckatoo_verify_loop4_exits uvs prev i f j (idx prev k) = true)) := by
  conv at h => lhs; unfold Cuckatoo_verify_loop4_exits
  rw [if_pos rfl] at h
  simp only [Bool.and_eq_true, decide_eq_true_eq] at h
  refine ⟨h.1, fun hne => ?_⟩
  have h2 := h.2
  rw [if_neg (by simpa using hne)] at h2
  simp only [Bool.and_eq_true, decide_eq_true_eq] at h2
  refine ⟨h2.1.1, h2.1.2, ?_⟩
  have h3 := h2.2
  by_cases e : (shrW (idx uvs (idx prev k)) 1 == shrW (idx uvs i) 1) = true
  · rw [if_pos e] at h3 ⊢
    intro hj
    rw [if_neg (by simpa using hj)] at h3
    exact h3
  · rw [if_neg e] at h3 ⊢
    exact h3

theorem t4_eq (uvs prev : List Nat) (uvsf prevf : Nat → Nat) (i : Nat)
    (r1 : R uvs uvsf) (r6 : R prev prevf) :
    ∀ (f j k : Nat), Cuckatoo_verify_loop4_exits uvs prev i f j k = true →
      (Cuckatoo_verify_loop4 uvs prev i f j k = .ret none ∧
        uFind cfgCuckatoo uvsf prevf i f k j = .error .branch) ∨
      (∃ j' k', Cuckatoo_verify_loop4 uvs prev i f j k = .go (j', k') ∧
        uFind cfgCuckatoo uvsf prevf i f k j = .ok j') := by
  intro f
  induction f with
  | zero => intro j k h; rw [t4_exits_zero] at h; cases h
  | succ f ih =>
    intro j k h
    obtain ⟨hk, hrest⟩ := t4_exits_succ _ _ _ _ _ _ h
    rw [t4_succ, uFind]
    simp only [cfgCuckatoo]
    rw [← r6 k hk]
    by_cases e1 : idx prev k = i
    · right
      rw [if_pos (by simpa using e1), if_pos e1]
      exact ⟨_, _, rfl, rfl⟩
    · obtain ⟨hk', hi, hrec⟩ := hrest e1
      rw [if_neg (by simpa using e1), if_neg e1, ← r1 _ hk', ← r1 _ hi]
      simp only [← shrW_one]
      by_cases e2 : (shrW (idx uvs (idx prev k)) 1 == shrW (idx uvs i) 1) = true
      · rw [if_pos e2] at hrec
        simp only [e2, if_true]
        by_cases e3 : j = i
        · rw [if_neg (by simpa using e3), if_neg (by simpa using e3)]
          exact ih _ _ (hrec e3)
        · left
          rw [if_pos (by simpa using e3), if_pos (by simpa using e3)]
          exact ⟨rfl, rfl⟩
      · rw [if_neg e2] at hrec
        simp only [e2]
        exact ih _ _ hrec

end GV.Lemmas.XlateVerify
