import GrinVerif.Lemmas.SerCanon
/-! Canonical form, decoder side, for `Proof`, `ProofOfWork`, `BlockHeader`: every accepted byte
string is the encoding of the returned value (so two different byte strings never decode to the same
header, and the header hash cannot be kept while changing header bytes other than by changing fields). -/
namespace GV.Ser
open GV

/-- re-packing the `w`-bit windows of `X` gives back the low `P·w` bits of `X` -/
theorem packNat_windows (w : Nat) (P : Nat) (X : Nat) :
    packNat w ((List.range P).map fun i => X / 2^(i * w) % 2^w) = X % 2^(P * w) := by
  induction P generalizing X with
  | zero => simp [packNat, Nat.mod_one]
  | succ P ih =>
    rw [List.range_succ_eq_map, List.map_cons, List.map_map]
    simp only [packNat, Nat.zero_mul, Nat.pow_zero, Nat.div_one]
    have hmap : (List.range P).map ((fun i => X / 2^(i * w) % 2^w) ∘ Nat.succ)
        = (List.range P).map (fun i => (X / 2^w) / 2^(i * w) % 2^w) := by
      apply List.map_congr_left
      intro i _
      simp only [Function.comp, Nat.succ_eq_add_one]
      have e : (i + 1) * w = w + i * w := by rw [Nat.add_mul, Nat.one_mul, Nat.add_comm]
      rw [e, Nat.pow_add, Nat.div_div_eq_div_mul]
    rw [hmap, ih (X / 2^w)]
    have e : (P + 1) * w = w + P * w := by rw [Nat.add_mul, Nat.one_mul, Nat.add_comm]
    rw [e, Nat.pow_add]
    exact Nat.mod_mul.symm

theorem decProof_inv {c : Cfg} {bs : Bytes} {p : Proof} {r : Bytes} (hb : AllBytes bs)
    (h : decProof c bs = .ok (p, r)) : bs = encProof c.proofSize .full p ++ r ∧ p.WF c.proofSize := by
  rw [decProof] at h
  obtain ⟨eb, r1, h1, k1⟩ := andThen_inv h
  clear h
  have e1 := readU8_inv h1
  subst e1
  have hb1 : AllBytes r1 := allBytes_append_right hb
  split at k1
  · simp at k1
  rename_i heb
  split at k1
  · simp at k1
  rename_i hl8
  obtain ⟨bits, r2, h2, k2⟩ := andThen_inv k1
  clear k1
  simp only at k2
  split at k2
  · simp at k2
  rename_i hpad
  simp only [Except.ok.injEq, Prod.mk.injEq] at k2
  obtain ⟨rfl, rfl⟩ := k2
  obtain ⟨e2, l2⟩ := readFixed_ok h2
  subst e2
  have hcap : packLen c.proofSize eb ≤ MAX_FIXED_READ := by
    rcases Nat.lt_or_ge MAX_FIXED_READ (packLen c.proofSize eb) with hgt | hle
    · rw [readFixed_tooLarge _ hgt] at h2; simp at h2
    · exact hle
  have hbits : AllBytes bits := fun x hx => hb1 x (by simp [hx])
  have hL : packLen c.proofSize eb = (eb * c.proofSize + 7) / 8 := rfl
  have heb1 : 1 ≤ eb := by omega
  have heb63 : eb ≤ 63 := by omega
  have h8 : 8 ≤ bits.length := by omega
  -- rewrite every window read as arithmetic on X = ofLE bits
  have hnon : (List.range c.proofSize).map (fun n => readNumber bits (n * eb) eb)
      = (List.range c.proofSize).map (fun i => ofLE bits / 2^(i * eb) % 2^eb) := by
    apply List.map_congr_left
    intro i hi
    have hi' : i < c.proofSize := List.mem_range.mp hi
    have hle : i * eb + eb ≤ eb * c.proofSize := by
      have : (i + 1) * eb ≤ c.proofSize * eb := Nat.mul_le_mul_right eb hi'
      rw [Nat.add_mul, Nat.one_mul, Nat.mul_comm c.proofSize] at this
      exact this
    exact readNumber_eq bits hbits (i * eb) eb h8 (by rw [l2, hL]; omega) heb63
  have hXlt := ofLE_lt bits hbits
  rw [l2, two56] at hXlt
  have hpad0 : ofLE bits / 2^(c.proofSize * eb) % 2^(packLen c.proofSize eb * 8 - c.proofSize * eb) = 0 := by
    have := readNumber_eq bits hbits (c.proofSize * eb) (packLen c.proofSize eb * 8 - c.proofSize * eb) h8
      (by rw [l2, hL, Nat.mul_comm c.proofSize eb]; omega)
      (by rw [hL, Nat.mul_comm c.proofSize eb]; omega)
    rw [← this]
    simpa using hpad
  -- zero padding: X fits in P·w bits
  have hXsmall : ofLE bits < 2^(c.proofSize * eb) := by
    generalize hX : ofLE bits = X at hpad0 hXlt
    generalize hB : c.proofSize * eb = B at hpad0 ⊢
    have hB' : eb * c.proofSize = B := by rw [Nat.mul_comm]; exact hB
    rw [hL, hB'] at hXlt hpad0
    have hsplit : (2:Nat)^(8 * ((B + 7) / 8)) = 2^B * 2^((B + 7) / 8 * 8 - B) := by
      rw [← Nat.pow_add]; congr 1; omega
    have hq : X / 2^B < 2^((B + 7) / 8 * 8 - B) := by
      rw [Nat.div_lt_iff_lt_mul (Nat.pow_pos (by omega)), Nat.mul_comm, ← hsplit]; exact hXlt
    rw [Nat.mod_eq_of_lt hq] at hpad0
    exact (Nat.div_eq_zero_iff_lt (Nat.pow_pos (by omega))).mp hpad0
  have harith : ∀ n ∈ (List.range c.proofSize).map (fun i => ofLE bits / 2^(i * eb) % 2^eb), n < 2^eb := by
    intro n hn
    obtain ⟨i, _, rfl⟩ := List.mem_map.mp hn
    exact Nat.mod_lt _ (Nat.pow_pos (by omega))
  have hwf : ({ edgeBits := eb, nonces := (List.range c.proofSize).map fun n => readNumber bits (n * eb) eb } : Proof).WF c.proofSize := by
    refine ⟨heb1, heb63, by simp, ?_, (show 8 ≤ packLen c.proofSize eb by omega), hcap⟩
    rw [hnon]; exact harith
  refine ⟨?_, hwf⟩
  -- re-packing gives the same bytes
  have hpk : packBits eb ((List.range c.proofSize).map (fun i => ofLE bits / 2^(i * eb) % 2^eb))
      (packLen c.proofSize eb) = bits := by
    rw [packBits_eq eb c.proofSize heb63 _ (by simp) harith, packNat_windows,
      Nat.mod_eq_of_lt hXsmall, ← l2, leBytes_ofLE bits hbits]
  simp only [encProof, reduceCtorEq, ↓reduceIte, Proof.packNonces, hnon, hpk, List.append_assoc]

theorem writeI64_toI64 (u : Nat) (h : u < 2^64) : writeI64 (toI64 u) = writeU64 u := by
  unfold writeI64 toI64
  congr 1
  split <;> omega

theorem readI64_inv {bs : Bytes} {z : Int} {r : Bytes} (hb : AllBytes bs) (h : readI64 bs = .ok (z, r)) :
    bs = writeI64 z ++ r ∧ -(2^63 : Int) ≤ z ∧ z < (2^63 : Int) := by
  unfold readI64 at h
  cases h1 : readU64 bs with
  | error e => simp [h1] at h
  | ok v =>
    obtain ⟨u, r1⟩ := v
    simp only [h1, Except.ok.injEq, Prod.mk.injEq] at h
    obtain ⟨rfl, rfl⟩ := h
    obtain ⟨e1, hu⟩ := readU64_inv hb h1
    refine ⟨by rw [writeI64_toI64 u hu]; exact e1, ?_, ?_⟩ <;> (unfold toI64; split <;> omega)

theorem readU32_inv {bs : Bytes} {n : Nat} {r : Bytes} (hb : AllBytes bs) (h : readU32 bs = .ok (n, r)) :
    bs = writeU32 n ++ r ∧ n < 2^32 := by
  match bs, hb, h with
  | b0 :: b1 :: b2 :: b3 :: r', hb, h =>
    simp only [readU32, Except.ok.injEq, Prod.mk.injEq] at h
    obtain ⟨rfl, rfl⟩ := h
    have h0 := hb b0 (by simp)
    have h1 := hb b1 (by simp)
    have h2 := hb b2 (by simp)
    have h3 := hb b3 (by simp)
    refine ⟨?_, by omega⟩
    simp only [writeU32, List.cons_append, List.nil_append, List.cons.injEq, and_true]
    omega
  | [], _, h => simp [readU32] at h
  | [_], _, h => simp [readU32] at h
  | [_, _], _, h => simp [readU32] at h
  | [_, _, _], _, h => simp [readU32] at h

theorem decProofOfWork_inv {c : Cfg} {bs : Bytes} {p : ProofOfWork} {r : Bytes} (hb : AllBytes bs)
    (h : decProofOfWork c bs = .ok (p, r)) :
    bs = encProofOfWork c.proofSize .full p ++ r ∧ p.WF c.proofSize := by
  rw [decProofOfWork] at h
  obtain ⟨td, r1, h1, k1⟩ := andThen_inv h
  obtain ⟨ss, r2, h2, k2⟩ := andThen_inv k1
  obtain ⟨nonce, r3, h3, k3⟩ := andThen_inv k2
  obtain ⟨pf, r4, h4, k4⟩ := andThen_inv k3
  clear h k1 k2 k3
  simp only [Except.ok.injEq, Prod.mk.injEq] at k4
  obtain ⟨rfl, rfl⟩ := k4
  obtain ⟨e1, l1⟩ := readU64_inv hb h1
  subst e1
  have hb1 := allBytes_append_right hb
  obtain ⟨e2, l2⟩ := readU32_inv hb1 h2
  subst e2
  have hb2 := allBytes_append_right hb1
  obtain ⟨e3, l3⟩ := readU64_inv hb2 h3
  subst e3
  have hb3 := allBytes_append_right hb2
  obtain ⟨e4, l4⟩ := decProof_inv hb3 h4
  subst e4
  exact ⟨by simp [encProofOfWork], l1, l2, l3, l4⟩

theorem decBlockHeader_inv {c : Cfg} {bs : Bytes} {hd : BlockHeader} {r : Bytes} (hb : AllBytes bs)
    (h : decBlockHeader c bs = .ok (hd, r)) :
    bs = encBlockHeader c.proofSize .full hd ++ r ∧ hd.WF c.proofSize := by
  rw [decBlockHeader] at h
  obtain ⟨version, r1, h1, k1⟩ := andThen_inv h
  obtain ⟨height, r2, h2, k2⟩ := andThen_inv k1
  obtain ⟨ts, r3, h3, k3⟩ := andThen_inv k2
  obtain ⟨ph, r4, h4, k4⟩ := andThen_inv k3
  obtain ⟨pr, r5, h5, k5⟩ := andThen_inv k4
  obtain ⟨orr, r6, h6, k6⟩ := andThen_inv k5
  obtain ⟨rr, r7, h7, k7⟩ := andThen_inv k6
  obtain ⟨kr, r8, h8, k8⟩ := andThen_inv k7
  obtain ⟨tko, r9, h9, k9⟩ := andThen_inv k8
  obtain ⟨oms, r10, h10, k10⟩ := andThen_inv k9
  obtain ⟨kms, r11, h11, k11⟩ := andThen_inv k10
  obtain ⟨pow, r12, h12, k12⟩ := andThen_inv k11
  clear h k1 k2 k3 k4 k5 k6 k7 k8 k9 k10 k11
  split at k12
  · simp at k12
  rename_i hts
  simp only [Except.ok.injEq, Prod.mk.injEq] at k12
  obtain ⟨rfl, rfl⟩ := k12
  obtain ⟨e1, l1⟩ := readU16_inv hb h1
  subst e1
  have b1 := allBytes_append_right hb
  obtain ⟨e2, l2⟩ := readU64_inv b1 h2
  subst e2
  have b2 := allBytes_append_right b1
  obtain ⟨e3, l3a, l3b⟩ := readI64_inv b2 h3
  subst e3
  have b3 := allBytes_append_right b2
  obtain ⟨e4, l4⟩ := readFixed_ok h4
  subst e4
  have b4 := allBytes_append_right b3
  obtain ⟨e5, l5⟩ := readFixed_ok h5
  subst e5
  have b5 := allBytes_append_right b4
  obtain ⟨e6, l6⟩ := readFixed_ok h6
  subst e6
  have b6 := allBytes_append_right b5
  obtain ⟨e7, l7⟩ := readFixed_ok h7
  subst e7
  have b7 := allBytes_append_right b6
  obtain ⟨e8, l8⟩ := readFixed_ok h8
  subst e8
  have b8 := allBytes_append_right b7
  obtain ⟨e9, l9⟩ := readFixed_ok h9
  subst e9
  have b9 := allBytes_append_right b8
  obtain ⟨e10, l10⟩ := readU64_inv b9 h10
  subst e10
  have b10 := allBytes_append_right b9
  obtain ⟨e11, l11⟩ := readU64_inv b10 h11
  subst e11
  have b11 := allBytes_append_right b10
  obtain ⟨e12, l12⟩ := decProofOfWork_inv b11 h12
  subst e12
  refine ⟨by simp [encBlockHeader, encHeaderPrePow, writeFixed], l1, l2,
    (show TS_MIN ≤ ts by omega), (show ts ≤ TS_MAX by omega), l4, l5, l6, l7, l8, l9, l10, l11, l12⟩

end GV.Ser
