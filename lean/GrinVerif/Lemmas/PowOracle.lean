import GrinVerif.Lemmas.PowUComplete
/-! # "every vertex has degree two and the edge set is connected" ⟺ "one simple cycle through all edges"

The independent formulation of the C05 specification (what the executable oracle of
`Model/PowSpec.lean` computes: degree counting + a connectivity closure) against the declarative
one (`IsCycle`), at the level of the generic undirected engine (`UCfg`, `Partner`).

* `Deg2`: every slot has exactly one partner slot (same vertex, other slot; Cuckatoo: the two ends
  differ in the low bit);
* `Conn`: every set of edges that contains edge 0 and is closed under "shares a vertex with" is
  the whole edge set.

`cycle_of_deg2_conn`: `Deg2 ∧ Conn ⟹ ∃ c, IsCycle …` — the cycle is the orbit of slot 0 under
"partner, then other end of the edge"; it closes (pigeonhole), never retraces an edge (partner is an
involution), and covers every edge (connectivity).  `deg2_conn_of_cycle`: the converse. -/
set_option linter.unusedSectionVars false
namespace GV.Pow

theorem nodup_subset_length_le {l m : List Nat} (nd : l.Nodup) (hs : ∀ x ∈ l, x ∈ m) :
    l.length ≤ m.length :=
  (List.subperm_of_subset nd hs).length_le

/-- every slot has a partner -/
def Deg2 (C : UCfg) (key uv : Nat → Nat) (L : Nat) : Prop :=
  ∀ i, i < 2 * L → ∃ j, Partner C key uv (2 * L) i j

/-- the edge set is connected through shared vertices -/
def Conn (C : UCfg) (key uv : Nat → Nat) (L : Nat) : Prop :=
  ∀ X : Nat → Prop, X 0 →
    (∀ e e', e < L → e' < L → X e' →
      (∃ x y, x / 2 = e ∧ y / 2 = e' ∧ sameVG C key uv x y) → X e) →
    ∀ e, e < L → X e

theorem exists_min_pos (p : Nat → Prop) : ∀ k, 1 ≤ k → p k →
    ∃ m, 1 ≤ m ∧ m ≤ k ∧ p m ∧ ∀ t, 1 ≤ t → t < m → ¬ p t := by
  intro k
  induction k using Nat.strongRecOn with
  | _ k ih =>
    intro hk hp
    by_cases h : ∃ t, 1 ≤ t ∧ t < k ∧ p t
    · obtain ⟨t, t1, t2, t3⟩ := h
      obtain ⟨m, m1, m2, m3, m4⟩ := ih t t2 t1 t3
      exact ⟨m, m1, by omega, m3, m4⟩
    · exact ⟨k, hk, Nat.le_refl _, hp, fun t t1 t2 pt => h ⟨t, t1, t2, pt⟩⟩

section
variable {C : UCfg} (E : MtEquiv C) {key uv : Nat → Nat} {L : Nat} (hL : 0 < L)
  (pf : Nat → Nat) (hpf : ∀ i, i < 2 * L → Partner C key uv (2 * L) i (pf i))
include E hL hpf

/-- the orbit of slot 0 under "partner, then the other end of that edge" -/
def orbit (pf : Nat → Nat) : Nat → Nat
  | 0 => 0
  | t + 1 => pf (orbit pf t) ^^^ 1

theorem orbit_lt : ∀ t, orbit pf t < 2 * L := by
  intro t
  induction t with
  | zero => show 0 < 2 * L; omega
  | succ t ih => exact xor_one_lt _ _ (hpf _ ih).1.1

theorem pf_invol (i : Nat) (hi : i < 2 * L) : pf (pf i) = i := by
  have h := hpf i hi
  have hs := partner_symm E hi h
  exact partner_fun (hpf (pf i) h.1.1) hs

theorem pf_inj (a b : Nat) (ha : a < 2 * L) (hb : b < 2 * L) (e : pf a = pf b) : a = b := by
  rw [← pf_invol E hL pf hpf a ha, ← pf_invol E hL pf hpf b hb, e]

theorem orbit_back : ∀ a b, a ≤ b → orbit pf a = orbit pf b → orbit pf 0 = orbit pf (b - a) := by
  intro a
  induction a with
  | zero => intro b _ e; simpa using e
  | succ a ih =>
    intro b hab e
    obtain ⟨b', rfl⟩ : ∃ b', b = b' + 1 := ⟨b - 1, by omega⟩
    have e1 : pf (orbit pf a) ^^^ 1 = pf (orbit pf b') ^^^ 1 := e
    have e2 : pf (orbit pf a) = pf (orbit pf b') := by
      have := congrArg (· ^^^ 1) e1
      simpa [xor_one_xor_one] using this
    have e3 := pf_inj E hL pf hpf _ _ (orbit_lt E hL pf hpf a) (orbit_lt E hL pf hpf b') e2
    have := ih b' (by omega) e3
    rw [this]
    congr 1
    omega

/-- the orbit comes back to slot 0 within `2L` steps -/
theorem orbit_returns : ∃ k, 1 ≤ k ∧ k ≤ 2 * L ∧ orbit pf k = 0 := by
  apply Classical.byContradiction
  intro hno
  have hne : ∀ k, 1 ≤ k → k ≤ 2 * L → orbit pf k ≠ 0 := fun k h1 h2 e => hno ⟨k, h1, h2, e⟩
  have nd : ((List.range (2 * L + 1)).map (orbit pf)).Nodup := by
    rw [List.Nodup, List.pairwise_map, List.pairwise_iff_getElem]
    intro a b ha hb hab e
    simp only [List.getElem_range] at e
    simp only [List.length_range] at ha hb
    have := orbit_back E hL pf hpf a b (by omega) e
    exact hne (b - a) (by omega) (by omega) this.symm
  have := nodup_subset_length_le nd (m := List.range (2 * L)) (by
    intro x hx
    obtain ⟨t, _, rfl⟩ := List.mem_map.mp hx
    exact List.mem_range.mpr (orbit_lt E hL pf hpf t))
  simp at this
  omega

/-- no retracing: an entry slot of the orbit is never the other end of an entry slot -/
theorem orbit_noretrace : ∀ d a, orbit pf a ≠ orbit pf (a + d) ^^^ 1 := by
  intro d
  induction d using Nat.strongRecOn with
  | _ d ih =>
    intro a heq
    match d, ih with
    | 0, _ => exact ne_xor_one _ heq
    | 1, _ =>
      have : orbit pf (a + 1) = pf (orbit pf a) ^^^ 1 := rfl
      rw [this, xor_one_xor_one] at heq
      exact (hpf _ (orbit_lt E hL pf hpf a)).1.2.1 heq.symm
    | d + 2, ih =>
      have hb : orbit pf (a + (d + 2)) = pf (orbit pf (a + d + 1)) ^^^ 1 := rfl
      rw [hb, xor_one_xor_one] at heq
      -- partner of slot (a+d+1) is slot a, so partner of slot a is slot (a+d+1)
      have h1 : pf (orbit pf a) = orbit pf (a + d + 1) := by
        rw [heq, pf_invol E hL pf hpf _ (orbit_lt E hL pf hpf _)]
      have h2 : orbit pf (a + 1) = orbit pf (a + 1 + d) ^^^ 1 := by
        show pf (orbit pf a) ^^^ 1 = _
        rw [h1]
        have : a + 1 + d = a + d + 1 := by omega
        rw [this]
      exact ih d (by omega) (a + 1) h2

theorem orbit_period (k : Nat) (hk : orbit pf k = 0) : ∀ t, orbit pf (t + k) = orbit pf t := by
  intro t
  induction t with
  | zero => rw [Nat.zero_add]; exact hk
  | succ t ih =>
    have : t + 1 + k = (t + k) + 1 := by omega
    rw [this]
    show pf (orbit pf (t + k)) ^^^ 1 = pf (orbit pf t) ^^^ 1
    rw [ih]

theorem orbit_mod (k : Nat) (hk1 : 1 ≤ k) (hk : orbit pf k = 0) (t : Nat) :
    orbit pf t = orbit pf (t % k) := by
  induction t using Nat.strongRecOn with
  | _ t ih =>
    by_cases h : t < k
    · rw [Nat.mod_eq_of_lt h]
    · have e : t = (t - k) + k := by omega
      rw [e, orbit_period E hL pf hpf k hk, Nat.add_mod_right]
      exact ih (t - k) (by omega)

/-- **degree two + connected ⟹ one simple cycle through all edges** -/
theorem cycle_of_deg2_conn_pf (hconn : Conn C key uv L) :
    ∃ c, IsCycle L (fun a b => Partner C key uv (2 * L) a b)
      (fun a b => key a = key b ∧ C.mt (uv a) (uv b) = true) c := by
  obtain ⟨k0, k01, k02, k03⟩ := orbit_returns E hL pf hpf
  obtain ⟨k, k1, _, kz, kmin⟩ := exists_min_pos (fun t => orbit pf t = 0) k0 k01 k03
  -- the orbit is injective below its period
  have hinj : ∀ a b, a < b → b < k → orbit pf a ≠ orbit pf b := by
    intro a b hab hb e
    have := orbit_back E hL pf hpf a b (by omega) e
    exact kmin (b - a) (by omega) (by omega) this.symm
  -- distinct entry slots lie on distinct edges
  have hedge : ((List.range k).map (fun t => orbit pf t / 2)).Nodup := by
    rw [List.Nodup, List.pairwise_map, List.pairwise_iff_getElem]
    intro a b ha hb hab e
    simp only [List.getElem_range] at e
    simp only [List.length_range] at ha hb
    rcases eq_or_xor_of_half _ _ e with h | h
    · exact hinj a b hab hb h
    · have := orbit_noretrace E hL pf hpf (b - a) a
      apply this
      have : a + (b - a) = b := by omega
      rw [this]; exact h
  have hkL : k ≤ L := by
    have := nodup_subset_length_le hedge (m := List.range L) (by
      intro x hx
      obtain ⟨t, _, rfl⟩ := List.mem_map.mp hx
      have := orbit_lt E hL pf hpf t
      exact List.mem_range.mpr (by omega))
    simpa using this
  -- connectivity: every edge is entered by the orbit
  have hall : ∀ e, e < L → ∃ t, orbit pf t / 2 = e := by
    apply hconn (fun e => ∃ t, orbit pf t / 2 = e)
    · exact ⟨0, by show (0 : Nat) / 2 = 0; rfl⟩
    · intro e e' he _ ⟨t0, ht0⟩ ⟨x, y, hx, hy, hv⟩
      -- WLOG the entry index is positive
      obtain ⟨t, ht, htp⟩ : ∃ t, orbit pf t / 2 = e' ∧ 1 ≤ t :=
        ⟨t0 + k, by rw [orbit_period E hL pf hpf k kz]; exact ht0, by omega⟩
      have hxN : x < 2 * L := by omega
      have hyN : y < 2 * L := by omega
      by_cases hxy : x = y
      · exact ⟨t, by rw [ht, ← hy, ← hxy, hx]⟩
      -- x is the partner of y
      have hxp : x = pf y := (hpf y hyN).2.2.1 x ⟨hxN, hxy, hv.1⟩ hv.2
      rcases eq_or_xor_of_half y (orbit pf t) (by rw [hy, ht]) with h | h
      · -- y is the entry slot: x is the exit slot, the other end of the next entry
        refine ⟨t + 1, ?_⟩
        show (pf (orbit pf t) ^^^ 1) / 2 = e
        rw [← h, ← hxp, Nat.xor_div_two]; simpa using hx
      · -- y is the other end of the entry slot = the exit slot of the previous vertex
        obtain ⟨t', rfl⟩ : ∃ t', t = t' + 1 := ⟨t - 1, by omega⟩
        have h' : y = pf (orbit pf t') := by
          rw [h]; show (pf (orbit pf t') ^^^ 1) ^^^ 1 = _; rw [xor_one_xor_one]
        refine ⟨t', ?_⟩
        rw [← hx, hxp, h', pf_invol E hL pf hpf _ (orbit_lt E hL pf hpf t')]
  have hLk : L ≤ k := by
    have := nodup_subset_length_le (List.nodup_range (n := L))
      (m := (List.range k).map (fun t => orbit pf t / 2)) (by
      intro e he
      obtain ⟨t, ht⟩ := hall e (List.mem_range.mp he)
      refine List.mem_map.mpr ⟨t % k, List.mem_range.mpr (Nat.mod_lt _ (by omega)), ?_⟩
      rw [← orbit_mod E hL pf hpf k k1 kz t]; exact ht)
    simpa using this
  have hk : k = L := by omega
  subst hk
  -- the orbit as a trace of the abstract step
  let step : Nat → Except Err Nat := fun i => .ok (pf i ^^^ 1)
  have hstep : ∀ i i', i < 2 * k → step i = .ok i' →
      ∃ j, Partner C key uv (2 * k) i j ∧ i' = j ^^^ 1 := by
    intro i i' hi hs
    injection hs with hs
    exact ⟨pf i, hpf i hi, hs.symm⟩
  have hget : ∀ t, t < k → ((List.range k).map (orbit pf)).getD t 0 = orbit pf t := by
    intro t ht
    simp [List.getD_eq_getElem?_getD, ht]
  have htr : Trace step 0 ((List.range k).map (orbit pf)) := by
    refine ⟨by simp; omega, by rw [hget 0 (by omega)]; rfl, ?_, ?_⟩
    · intro t ht
      simp only [List.length_map, List.length_range] at ht
      rw [hget t (by omega), hget (t + 1) ht]
      exact ⟨rfl, kmin (t + 1) (by omega) ht⟩
    · simp only [List.length_map, List.length_range]
      rw [hget (k - 1) (by omega)]
      show Except.ok (orbit pf (k - 1 + 1)) = _
      have : k - 1 + 1 = k := by omega
      rw [this, kz]
  exact ⟨_, ucyc_cycle E hstep htr (by simp)⟩

end

/-- **degree two + connected ⟹ one simple cycle through all edges** -/
theorem cycle_of_deg2_conn {C : UCfg} (E : MtEquiv C) {key uv : Nat → Nat} {L : Nat} (hL : 0 < L)
    (hdeg : Deg2 C key uv L) (hconn : Conn C key uv L) :
    ∃ c, IsCycle L (fun a b => Partner C key uv (2 * L) a b)
      (fun a b => key a = key b ∧ C.mt (uv a) (uv b) = true) c := by
  classical
  let pf : Nat → Nat := fun i => if h : i < 2 * L then Classical.choose (hdeg i h) else 0
  have hpf : ∀ i, i < 2 * L → Partner C key uv (2 * L) i (pf i) := by
    intro i hi
    simp only [pf, hi, dif_pos]
    exact Classical.choose_spec (hdeg i hi)
  exact cycle_of_deg2_conn_pf E hL pf hpf hconn

/-- **one simple cycle through all edges ⟹ degree two + connected** -/
theorem deg2_conn_of_cycle {C : UCfg} (E : MtEquiv C) {key uv : Nat → Nat} {L : Nat} {c : List Nat}
    (hG : IsCycle L (adjG C key uv) (sameVG C key uv) c) (hL : 0 < L) :
    Deg2 C key uv L ∧ Conn C key uv L := by
  have hlt := gcyc_lt E hG hL
  constructor
  · intro s hs
    obtain ⟨a, ha, h⟩ := gcyc_cover E hG hL s hs
    rcases h with rfl | rfl
    · exact ⟨_, gcyc_partner E hG hL a ha⟩
    · have hp : (a + L - 1) % L < L := Nat.mod_lt _ hL
      have := gcyc_partner E hG hL _ hp
      rw [pred_succ_mod a L hL ha] at this
      exact ⟨_, partner_symm E (hlt _ hp) this⟩
  · intro X h0 hcl
    -- position of edge 0 in the cycle
    have hmem0 : 0 ∈ c.map (· / 2) := hG.perm.mem_iff.mpr (List.mem_range.mpr hL)
    obtain ⟨s0, hs0, hs0e⟩ := List.mem_map.mp hmem0
    obtain ⟨a0, ha0, rfl⟩ := List.getElem_of_mem hs0
    have ha0L : a0 < L := hG.len ▸ ha0
    have hget : ∀ t (ht : t < L), c.getD t 0 = c[t]'(by rw [hG.len]; exact ht) := by
      intro t ht
      simp [List.getD_eq_getElem?_getD, hG.len, ht]
    -- walk along the cycle from there
    have hwalk : ∀ d, X (c.getD ((a0 + d) % L) 0 / 2) := by
      intro d
      induction d with
      | zero =>
        rw [Nat.add_zero, Nat.mod_eq_of_lt ha0L, hget a0 ha0L]
        have hs0e' : c[a0] / 2 = 0 := hs0e
        rw [hs0e']; exact h0
      | succ d ih =>
        have ht : (a0 + d) % L < L := Nat.mod_lt _ hL
        have hnext : ((a0 + d) % L + 1) % L = (a0 + (d + 1)) % L := by
          rw [Nat.add_mod ((a0 + d) % L) 1 L, Nat.mod_mod, ← Nat.add_mod, Nat.add_assoc]
        obtain ⟨l1, l2, _⟩ := hG.link _ ht
        rw [hnext] at l1 l2
        have hm : (a0 + (d + 1)) % L < L := Nat.mod_lt _ hL
        apply hcl _ _ (by have := hlt _ hm; omega) (by have := hlt _ ht; omega) ih
        refine ⟨c.getD ((a0 + (d + 1)) % L) 0 ^^^ 1, c.getD ((a0 + d) % L) 0, ?_, rfl, l1, l2⟩
        simp [Nat.xor_div_two]
    intro e he
    have hmem : e ∈ c.map (· / 2) := hG.perm.mem_iff.mpr (List.mem_range.mpr he)
    obtain ⟨s, hs, hse⟩ := List.mem_map.mp hmem
    obtain ⟨a, ha, rfl⟩ := List.getElem_of_mem hs
    have haL : a < L := hG.len ▸ ha
    have := hwalk (a + L - a0)
    have hidx : (a0 + (a + L - a0)) % L = a := by
      have : a0 + (a + L - a0) = a + L := by omega
      rw [this, Nat.add_mod_right, Nat.mod_eq_of_lt haL]
    rw [hidx, hget a haL] at this
    have hse' : c[a] / 2 = e := hse
    rw [hse'] at this
    exact this

end GV.Pow
