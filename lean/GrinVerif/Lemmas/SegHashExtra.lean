import GrinVerif.Lemmas.SegExtra
/-! Redundant extra *hash entries* are not rejected (C16, the caveat in the property text): hash
entries appended to a segment never turn a successful `root` into another result (`get_hash`
returns the first match and every failed lookup inside `root` is an error of the whole call), and
they leave `first_unpruned_parent` / `validate` / `validate_with` unchanged as long as — for a
segment without a root of its own, the only case in which a *failed* lookup is not an error — none
of them sits at a position the walk up the family branch asks for.  Core Lean only. -/
namespace GV.Seg
open GV GV.Pmmr

variable {α H : Type}

/-- `s'` answers every successful `get_hash` of `s` the same way (it may know more positions) -/
def HashExt (s s' : Segment α H) : Prop :=
  s'.id = s.id ∧ s'.leafPos = s.leafPos ∧ s'.leafData = s.leafData ∧
  ∀ q h, s.getHash q = .ok h → s'.getHash q = .ok h

theorem lookup_append {β : Type} : ∀ (l1 l2 : List (Nat × β)) (q : Nat),
    lookup (l1 ++ l2) q = match lookup l1 q with
      | some x => some x
      | none => lookup l2 q := by
  intro l1
  induction l1 with
  | nil => intro l2 q; rfl
  | cons a l1 ih =>
    intro l2 q
    obtain ⟨p, x⟩ := a
    simp only [List.cons_append, lookup]
    by_cases hp : p = q
    · simp [hp]
    · simp only [hp, if_false]; exact ih l2 q

theorem lookup_none_of_not_mem {β : Type} : ∀ (l : List (Nat × β)) (q : Nat),
    (∀ e ∈ l, e.1 ≠ q) → lookup l q = none := by
  intro l
  induction l with
  | nil => intro q _; rfl
  | cons a l ih =>
    intro q h
    obtain ⟨p, x⟩ := a
    have hp : p ≠ q := h (p, x) (List.mem_cons_self ..)
    simp only [lookup, hp, if_false]
    exact ih q (fun e he => h e (List.mem_cons_of_mem _ he))

/-- the segment with hash entries `(ep, eh)` appended -/
def addHashes (s : Segment α H) (ep : List Nat) (eh : List H) : Segment α H :=
  { s with hashPos := s.hashPos ++ ep, hashes := s.hashes ++ eh }

theorem addHashes_getHash (s : Segment α H) (ep : List Nat) (eh : List H)
    (hlen : s.hashPos.length = s.hashes.length) (q : Nat) :
    (addHashes s ep eh).getHash q = match lookup (s.hashPos.zip s.hashes) q with
      | some h => .ok h
      | none => match lookup (ep.zip eh) q with
        | some h => .ok h
        | none => .err (.missingHash q) := by
  unfold Segment.getHash addHashes
  simp only [List.zip_append hlen, lookup_append]
  cases lookup (s.hashPos.zip s.hashes) q <;> rfl

theorem addHashes_ext (s : Segment α H) (ep : List Nat) (eh : List H)
    (hlen : s.hashPos.length = s.hashes.length) : HashExt s (addHashes s ep eh) := by
  refine ⟨rfl, rfl, rfl, ?_⟩
  intro q h hq
  rw [addHashes_getHash s ep eh hlen]
  unfold Segment.getHash at hq
  cases hl : lookup (s.hashPos.zip s.hashes) q with
  | none => rw [hl] at hq; cases hq
  | some x => rw [hl] at hq; simpa using hq

/-- a position that is not among the appended ones is answered as before -/
theorem addHashes_getHash_other (s : Segment α H) (ep : List Nat) (eh : List H)
    (hlen : s.hashPos.length = s.hashes.length) (q : Nat) (hq : q ∉ ep) :
    (addHashes s ep eh).getHash q = s.getHash q := by
  rw [addHashes_getHash s ep eh hlen]
  have : lookup (ep.zip eh) q = none := by
    apply lookup_none_of_not_mem
    intro e he hc
    have := (List.of_mem_zip he).1
    rw [hc] at this
    exact hq this
  rw [this]
  unfold Segment.getHash
  cases lookup (s.hashPos.zip s.hashes) q <;> rfl

/-! ### `root` is monotone -/

theorem rootStep_ext (hf : HashFn α H) (s s' : Segment α H) (ext : HashExt s s')
    (bm : Option (Nat → Bool)) (size : Nat) (st st' : RootSt α H) (p : Nat)
    (h : rootStep hf s bm size st p = .ok st') : rootStep hf s' bm size st p = .ok st' := by
  obtain ⟨_, _, _, hget⟩ := ext
  obtain ⟨stk, it⟩ := st
  simp only [rootStep] at h ⊢
  by_cases hh : height p = 0
  · simp only [hh, if_true] at h ⊢; exact h
  · simp only [hh, if_false] at h ⊢
    match stk with
    | [] => exact h
    | [_] => exact h
    | r :: l :: rest =>
      cases bm with
      | none => exact h
      | some b =>
        simp only at h ⊢
        cases l with
        | none =>
          cases r with
          | none => exact h
          | some rh =>
            simp only at h ⊢
            cases hg : s.getHash (1 + p - 2 ^ height p - 1) with
            | ok g => rw [hg] at h; rw [hget _ _ hg]; exact h
            | err e => rw [hg] at h; cases h
            | panic => rw [hg] at h; cases h
        | some lh =>
          cases r with
          | some rh => exact h
          | none =>
            simp only at h ⊢
            cases hg : s.getHash (p - 1) with
            | ok g => rw [hg] at h; rw [hget _ _ hg]; exact h
            | err e => rw [hg] at h; cases h
            | panic => rw [hg] at h; cases h

theorem rootLoop_ext (hf : HashFn α H) (s s' : Segment α H) (ext : HashExt s s')
    (bm : Option (Nat → Bool)) (size : Nat) : ∀ (ps : List Nat) (st st' : RootSt α H),
    rootLoop hf s bm size st ps = .ok st' → rootLoop hf s' bm size st ps = .ok st' := by
  intro ps
  induction ps with
  | nil => intro st st' h; exact h
  | cons p ps ih =>
    intro st st' h
    simp only [rootLoop] at h ⊢
    cases hs : rootStep hf s bm size st p with
    | err e => rw [hs] at h; cases h
    | panic => rw [hs] at h; cases h
    | ok m =>
      rw [hs] at h
      rw [rootStep_ext hf s s' ext bm size st m p hs]
      exact ih m st' h

theorem bagPeaks_ext (hf : HashFn α H) (s s' : Segment α H) (ext : HashExt s s')
    (bm : Option (Nat → Bool)) (size : Nat) : ∀ (pks : List Nat) (stk : List (Option H))
    (acc o : Option H), bagPeaks hf s bm size stk acc pks = .ok o →
      bagPeaks hf s' bm size stk acc pks = .ok o := by
  obtain ⟨_, _, _, hget⟩ := ext
  intro pks
  induction pks with
  | nil => intro stk acc o h; simpa [bagPeaks] using h
  | cons p ps ih =>
    intro stk acc o h
    cases stk with
    | nil => simp [bagPeaks] at h
    | cons lh stk' =>
      simp only [bagPeaks] at h ⊢
      by_cases hc : (lh.isNone && bm.isSome) = true
      · simp only [hc, if_true] at h ⊢
        cases hg : s.getHash p with
        | ok g =>
          rw [hg] at h; rw [hget _ _ hg]
          simp only at h ⊢
          exact ih _ _ _ h
        | err e => rw [hg] at h; cases h
        | panic => rw [hg] at h; cases h
      · simp only [hc, Bool.false_eq_true, if_false] at h ⊢
        cases lh with
        | none => cases h
        | some l => simp only at h ⊢; exact ih _ _ _ h

theorem rootWith_ext (hf : HashFn α H) (s s' : Segment α H) (ext : HashExt s s')
    (size : Nat) (bm : Option (Nat → Bool)) (ps : List Nat) (full : Bool) (pks : List Nat)
    (o : Option H) (h : rootWith hf s size bm ps full pks = .ok o) :
    rootWith hf s' size bm ps full pks = .ok o := by
  have ext' := ext
  obtain ⟨_, hlp, hld, _⟩ := ext
  unfold rootWith at h ⊢
  rw [hlp, hld]
  cases hl : rootLoop hf s bm size ([], s.leafPos.zip s.leafData) ps with
  | err e => rw [hl] at h; cases h
  | panic => rw [hl] at h; cases h
  | ok st =>
    rw [hl] at h
    rw [rootLoop_ext hf s s' ext' bm size ps _ st hl]
    simp only [rootFinish] at h ⊢
    cases full with
    | true => exact h
    | false =>
      simp only [Bool.false_eq_true, if_false] at h ⊢
      cases hb : bagPeaks hf s bm size st.1 none pks with
      | err e => rw [hb] at h; cases h
      | panic => rw [hb] at h; cases h
      | ok w => rw [hb] at h; rw [bagPeaks_ext hf s s' ext' bm size pks _ _ w hb]; exact h

/-- **`Segment::root` ignores redundant hash entries**: whatever is appended, a successful result
stays the same -/
theorem root_ext (hf : HashFn α H) (s s' : Segment α H) (ext : HashExt s s') (size : Nat)
    (bm : Option (Nat → Bool)) (o : Option H) (h : s.root hf size bm = .ok o) :
    s'.root hf size bm = .ok o := by
  obtain ⟨hne, h⟩ := root_ok_rootWith hf s size bm o h
  rw [root_of_nonempty hf s' size bm (by rw [ext.1]; exact hne), ext.1]
  exact rootWith_ext hf s s' ext size bm _ _ _ o h

/-! ### `first_unpruned_parent` -/

theorem fupLoop_agree (s s' : Segment α H) (b : Nat → Bool) (nl : Nat) :
    ∀ (fb : List (Nat × Nat)) (pos0 : Nat),
      (∀ q, q = pos0 ∨ (∃ x ∈ fb, x.1 = q) → s'.getHash q = s.getHash q) →
      fupLoop s' b nl pos0 fb = fupLoop s b nl pos0 fb := by
  intro fb
  induction fb with
  | nil =>
    intro pos0 h
    simp only [fupLoop, h pos0 (Or.inl rfl)]
  | cons x rest ih =>
    intro pos0 h
    obtain ⟨p0, s0⟩ := x
    simp only [fupLoop, h pos0 (Or.inl rfl)]
    cases s.getHash pos0 with
    | ok g => rfl
    | panic => rfl
    | err e =>
      simp only
      rw [ih p0 (fun q hq => h q (by
        rcases hq with rfl | ⟨x, hx, rfl⟩
        · exact Or.inr ⟨(q, s0), List.mem_cons_self .., rfl⟩
        · exact Or.inr ⟨x, List.mem_cons_of_mem _ hx, rfl⟩))]

/-- `first_unpruned_parent` with redundant hash entries: unchanged when the segment has a root of
its own; for a segment without one, unchanged when the walk up the branch is answered as before -/
theorem fup_ext (hf : HashFn α H) (s s' : Segment α H) (ext : HashExt s s') (size : Nat)
    (bm : Option (Nat → Bool)) (x : H × Nat)
    (hwalk : s.root hf size bm = .ok none →
      ∀ q, q = (s.id.posRange size).2 ∨ (∃ y ∈ familyBranch (s.id.posRange size).2 size, y.1 = q) →
        s'.getHash q = s.getHash q)
    (h : s.firstUnprunedParent hf size bm = .ok x) : s'.firstUnprunedParent hf size bm = .ok x := by
  unfold Segment.firstUnprunedParent at h ⊢
  cases hr : s.root hf size bm with
  | err e => rw [hr] at h; cases h
  | panic => rw [hr] at h; cases h
  | ok o =>
    rw [hr] at h
    rw [root_ext hf s s' ext size bm o hr, ext.1]
    cases o with
    | some v => exact h
    | none =>
      unfold fupWith at h ⊢
      cases bm with
      | none => cases h
      | some b =>
        simp only at h ⊢
        rw [fupLoop_agree s s' b _ _ _ (hwalk hr)]
        exact h

/-- **Redundant extra hash entries are not rejected** (general form): `validate` -/
theorem validate_ext (hf : HashFn α H) [DecidableEq H] (s s' : Segment α H) (ext : HashExt s s')
    (hproof : s'.proof = s.proof) (size : Nat) (bm : Option (Nat → Bool)) (mmrRoot : H)
    (hwalk : s.root hf size bm = .ok none →
      ∀ q, q = (s.id.posRange size).2 ∨ (∃ y ∈ familyBranch (s.id.posRange size).2 size, y.1 = q) →
        s'.getHash q = s.getHash q)
    (h : s.validate hf size bm mmrRoot = .ok ()) : s'.validate hf size bm mmrRoot = .ok () := by
  obtain ⟨x, hx⟩ := fup_ok_of_validate hf s size bm mmrRoot h
  unfold Segment.validate at h ⊢
  rw [fup_ext hf s s' ext size bm x hwalk hx, hproof, ext.1]
  rw [hx] at h
  exact h

theorem validateWith_ext (hf : HashFn α H) [DecidableEq H] (s s' : Segment α H) (ext : HashExt s s')
    (hproof : s'.proof = s.proof) (size : Nat) (bm : Option (Nat → Bool)) (mmrRoot : H)
    (hlp : Nat) (other : H) (left : Bool)
    (hwalk : s.root hf size bm = .ok none →
      ∀ q, q = (s.id.posRange size).2 ∨ (∃ y ∈ familyBranch (s.id.posRange size).2 size, y.1 = q) →
        s'.getHash q = s.getHash q)
    (h : s.validateWith hf size bm mmrRoot hlp other left = .ok ()) :
    s'.validateWith hf size bm mmrRoot hlp other left = .ok () := by
  obtain ⟨x, hx⟩ := fup_ok_of_validateWith hf s size bm mmrRoot hlp other left h
  unfold Segment.validateWith at h ⊢
  rw [fup_ext hf s s' ext size bm x hwalk hx, hproof, ext.1]
  rw [hx] at h
  exact h

/-! ### appended entries -/

/-- appended entries leave the walk up the family branch unchanged when each of them is shadowed
by an entry the segment already holds or sits off the walk -/
theorem addHashes_walk (s : Segment α H) (ep : List Nat) (eh : List H)
    (hlen : s.hashPos.length = s.hashes.length) (last size : Nat)
    (hnew : ∀ e ∈ ep, (∃ h, s.getHash e = .ok h) ∨
      (e ≠ last ∧ ∀ y ∈ familyBranch last size, y.1 ≠ e)) :
    ∀ q, q = last ∨ (∃ y ∈ familyBranch last size, y.1 = q) →
      (addHashes s ep eh).getHash q = s.getHash q := by
  intro q hq
  by_cases hmem : q ∈ ep
  · rcases hnew q hmem with ⟨h, hh⟩ | ⟨h1, h2⟩
    · rw [hh]; exact (addHashes_ext s ep eh hlen).2.2.2 q h hh
    · rcases hq with rfl | ⟨y, hy, rfl⟩
      · exact absurd rfl h1
      · exact absurd rfl (h2 y hy)
  · exact addHashes_getHash_other s ep eh hlen q hmem

end GV.Seg
