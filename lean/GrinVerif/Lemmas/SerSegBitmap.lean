import GrinVerif.Lemmas.SerSegRt
/-! Round-trip and refusal lemmas for `BitmapBlock` (three modes, threshold rule) and `BitmapSegment`
(`Model/SerSeg.lean`). -/
namespace GV.SerSeg
open GV GV.Ser

/-! ## big-endian bytes of a number -/

theorem ofBE_eq_ofLE_reverse (bs : Bytes) : ofBE bs = ofLE bs.reverse := by
  simp [ofBE, ofLE, List.foldr_reverse]

theorem allBytes_reverse {bs : Bytes} (h : AllBytes bs) : AllBytes bs.reverse :=
  fun b hb => h b (List.mem_reverse.mp hb)

theorem toBE_length (k v : Nat) : (toBE k v).length = k := by simp [toBE, leBytes_length]

theorem ofBE_toBE (k v : Nat) (h : v < 256^k) : ofBE (toBE k v) = v := by
  rw [ofBE_eq_ofLE_reverse, toBE, List.reverse_reverse, ofLE_leBytes, Nat.mod_eq_of_lt h]

theorem toBE_ofBE (bs : Bytes) (h : AllBytes bs) : toBE bs.length (ofBE bs) = bs := by
  have := leBytes_ofLE bs.reverse (allBytes_reverse h)
  rw [List.length_reverse] at this
  rw [toBE, ofBE_eq_ofLE_reverse, this, List.reverse_reverse]

/-! ## bit positions -/

theorem filter_length_add {α : Type} (p : α → Bool) (l : List α) :
    (l.filter p).length + (l.filter fun x => !p x).length = l.length := by
  induction l with
  | nil => rfl
  | cons x l ih =>
    simp only [List.filter_cons]
    cases p x <;> simp <;> omega

theorem setPositions_lt {nbits v p : Nat} (h : p ∈ setPositions nbits v) : p < nbits := by
  simp only [setPositions, List.mem_filter, List.mem_range] at h
  exact h.1

theorem clearPositions_lt {nbits v p : Nat} (h : p ∈ clearPositions nbits v) : p < nbits := by
  simp only [clearPositions, List.mem_filter, List.mem_range] at h
  exact h.1

theorem clear_length (nbits v : Nat) :
    (clearPositions nbits v).length = nbits - (setPositions nbits v).length := by
  have := filter_length_add (fun i => bitAt nbits v i) (List.range nbits)
  simp only [List.length_range] at this
  simp only [clearPositions, setPositions]
  omega

theorem set_length_le (nbits v : Nat) : (setPositions nbits v).length ≤ nbits := by
  have := List.length_filter_le (fun i => bitAt nbits v i) (List.range nbits)
  simpa [setPositions] using this

theorem testBit_foldl_or (nbits : Nat) (ps : List Nat) (acc j : Nat) :
    (ps.foldl (fun a p => a ||| 2^(nbits - 1 - p)) acc).testBit j
      = (acc.testBit j || ps.any fun p => decide (nbits - 1 - p = j)) := by
  induction ps generalizing acc with
  | nil => simp
  | cons p r ih =>
    simp only [List.foldl_cons, ih, Nat.testBit_or, Nat.testBit_two_pow, List.any_cons, Bool.or_assoc]

theorem testBit_orBits (nbits : Nat) (ps : List Nat) (j : Nat) :
    (orBits nbits ps).testBit j = ps.any fun p => decide (nbits - 1 - p = j) := by
  simp [orBits, testBit_foldl_or]

/-- setting exactly the set bits of `v` gives `v` back -/
theorem orBits_setPositions (nbits v : Nat) (h : v < 2^nbits) :
    orBits nbits (setPositions nbits v) = v := by
  apply Nat.eq_of_testBit_eq
  intro j
  rw [testBit_orBits]
  by_cases hj : j < nbits
  · cases hv : v.testBit j with
    | true =>
      rw [List.any_eq_true]
      refine ⟨nbits - 1 - j, ?_, by simp; omega⟩
      simp only [setPositions, List.mem_filter, List.mem_range, bitAt]
      refine ⟨by omega, ?_⟩
      have : nbits - 1 - (nbits - 1 - j) = j := by omega
      rw [this, hv]
    | false =>
      rw [List.any_eq_false]
      intro p hp
      simp only [setPositions, List.mem_filter, List.mem_range, bitAt] at hp
      simp only [decide_eq_true_eq]
      intro e
      rw [e, hv] at hp
      exact absurd hp.2 (by simp)
  · have hv : v.testBit j = false :=
      Nat.testBit_lt_two_pow (Nat.lt_of_lt_of_le h (Nat.pow_le_pow_right (by omega) (by omega)))
    rw [hv, List.any_eq_false]
    intro p hp
    have := setPositions_lt hp
    simp only [decide_eq_true_eq]
    omega

/-- the clear bits of `v` are the set bits of its complement -/
theorem clearPositions_eq (nbits v : Nat) (h : v < 2^nbits) :
    clearPositions nbits v = setPositions nbits (2^nbits - 1 - v) := by
  simp only [clearPositions, setPositions]
  apply List.filter_congr
  intro i hi
  have hi' : i < nbits := List.mem_range.mp hi
  have e : 2^nbits - 1 - v = 2^nbits - (v + 1) := by omega
  simp only [bitAt]
  rw [e, Nat.testBit_two_pow_sub_succ h]
  have : nbits - 1 - i < nbits := by omega
  simp [this]

theorem orBits_clearPositions (nbits v : Nat) (h : v < 2^nbits) :
    (2^nbits - 1) - orBits nbits (clearPositions nbits v) = v := by
  have hc : 2^nbits - 1 - v < 2^nbits := by have := Nat.pow_pos (a := 2) (n := nbits) (by omega); omega
  rw [clearPositions_eq nbits v h, orBits_setPositions nbits _ hc]
  omega

theorem readBitPositions_write (nbits : Nat) (hn : nbits ≤ 65536) (ps : List Nat)
    (h : ∀ p ∈ ps, p < nbits) (rest : Bytes) :
    readBitPositions nbits ps.length (writeMulti writeU16 ps ++ rest) = .ok (ps, rest) := by
  induction ps with
  | nil => simp [readBitPositions, writeMulti]
  | cons p r ih =>
    have hp := h p (by simp)
    have h16 : p < 2^16 := by omega
    have hge : ¬ p ≥ nbits := by omega
    rw [writeMulti_cons, List.length_cons, readBitPositions, readU16_write _ h16, andThen_ok]
    simp only [hge, ↓reduceIte]
    rw [ih (fun q hq => h q (by simp [hq])), andThen_ok]

/-- an index at or beyond the block's bit length is refused, wherever it sits in the list -/
theorem readBitPositions_out_of_range (nbits : Nat) (ps : List Nat) (h16 : ∀ p ∈ ps, p < 2^16)
    (h : ∃ p ∈ ps, p ≥ nbits) (rest : Bytes) :
    readBitPositions nbits ps.length (writeMulti writeU16 ps ++ rest) = .error .corrupted := by
  induction ps with
  | nil => obtain ⟨p, hp, _⟩ := h; simp at hp
  | cons q r ih =>
    rw [writeMulti_cons, List.length_cons, readBitPositions, readU16_write _ (h16 q (by simp)), andThen_ok]
    by_cases hq : q ≥ nbits
    · simp [hq]
    · simp only [hq, ↓reduceIte]
      have h' : ∃ p ∈ r, p ≥ nbits := by
        obtain ⟨p, hp, hge⟩ := h
        rcases List.mem_cons.mp hp with rfl | hp
        · exact absurd hge hq
        · exact ⟨p, hp, hge⟩
      rw [ih (fun p hp => h16 p (by simp [hp])) h', andThen_error]

/-! ## BitmapBlock -/

/-- at most 64 chunks, no bits beyond the block's length -/
def BitmapBlock.WF (b : BitmapBlock) : Prop := b.nChunks ≤ BLOCK_NCHUNKS ∧ b.v < 2^b.nbits

theorem nbits_le (b : BitmapBlock) (h : b.nChunks ≤ BLOCK_NCHUNKS) : b.nbits ≤ 65536 := by
  unfold BitmapBlock.nbits CHUNK_BITS
  unfold BLOCK_NCHUNKS at h
  omega

theorem decBitmapBlock_enc (b : BitmapBlock) (h : b.WF) (rest : Bytes) :
    decBitmapBlock (encBitmapBlock b ++ rest) = .ok (b, rest) := by
  obtain ⟨nChunks, v⟩ := b
  obtain ⟨hc, hv⟩ := h
  simp only at hc
  have hn := nbits_le ⟨nChunks, v⟩ hc
  simp only [BitmapBlock.nbits] at hv hn
  have hnc : ¬ nChunks > BLOCK_NCHUNKS := by omega
  rw [decBitmapBlock, encBitmapBlock]
  simp only [BitmapBlock.nbits, List.append_assoc]
  rw [readU8_write, andThen_ok]
  simp only [hnc, ↓reduceIte]
  by_cases h1 : (setPositions (nChunks * CHUNK_BITS) v).length < BLOCK_THRESHOLD
  · -- positive indices
    have h16 : (setPositions (nChunks * CHUNK_BITS) v).length < 2^16 := by unfold BLOCK_THRESHOLD at h1; omega
    simp only [h1, ↓reduceIte, List.append_assoc]
    rw [readU8_write, andThen_ok]
    simp only [MODE_POSITIVE, MODE_RAW, show ¬ (1 = 0) by omega, ↓reduceIte]
    rw [readU16_write _ h16, andThen_ok,
      readBitPositions_write _ hn _ (fun p hp => setPositions_lt hp), andThen_ok,
      orBits_setPositions _ _ hv]
  · simp only [h1, ↓reduceIte]
    by_cases h2 : nChunks * CHUNK_BITS - (setPositions (nChunks * CHUNK_BITS) v).length < BLOCK_THRESHOLD
    · -- negative indices
      have h16 : nChunks * CHUNK_BITS - (setPositions (nChunks * CHUNK_BITS) v).length < 2^16 := by
        unfold BLOCK_THRESHOLD at h2; omega
      have hlen := clear_length (nChunks * CHUNK_BITS) v
      have rb := readBitPositions_write _ hn (clearPositions (nChunks * CHUNK_BITS) v)
        (fun p hp => clearPositions_lt hp)
      rw [hlen] at rb
      simp only [h2, ↓reduceIte, List.append_assoc]
      rw [readU8_write, andThen_ok]
      simp only [MODE_POSITIVE, MODE_RAW, MODE_NEGATIVE, show ¬ (2 = 0) by omega, show ¬ (2 = 1) by omega,
        ↓reduceIte]
      rw [readU16_write _ h16, andThen_ok, rb, andThen_ok, orBits_clearPositions _ _ hv]
    · -- raw bytes
      simp only [h2, ↓reduceIte, List.append_assoc]
      rw [readU8_write, andThen_ok]
      simp only [MODE_RAW, ↓reduceIte]
      have hk : nChunks * CHUNK_BITS / 8 = nChunks * 128 := by unfold CHUNK_BITS; omega
      have hcap : nChunks * 128 ≤ MAX_FIXED_READ := by unfold BLOCK_NCHUNKS at hc; unfold MAX_FIXED_READ; omega
      have hpow : v < 256^(nChunks * 128) := by
        rw [two56]
        have : 8 * (nChunks * 128) = nChunks * CHUNK_BITS := by unfold CHUNK_BITS; omega
        rw [this]; exact hv
      rw [hk, readFixed_write _ _ (toBE_length _ _) hcap, andThen_ok, ofBE_toBE _ _ hpow]

/-- a chunk count above 64 is refused -/
theorem decBitmapBlock_tooManyChunks (n : Nat) (h : n > BLOCK_NCHUNKS) (r : Bytes) :
    decBitmapBlock (n :: r) = .error .tooLarge := by
  simp [decBitmapBlock, readU8, h]

/-- a serialisation-mode byte other than 0, 1, 2 is refused -/
theorem decBitmapBlock_unknownMode (n m : Nat) (hn : n ≤ BLOCK_NCHUNKS) (hm : 3 ≤ m) (r : Bytes) :
    decBitmapBlock (n :: m :: r) = .error .corrupted := by
  have hnc : ¬ n > BLOCK_NCHUNKS := by omega
  have h0 : ¬ m = 0 := by omega
  have h1 : ¬ m = 1 := by omega
  have h2 : ¬ m = 2 := by omega
  simp [decBitmapBlock, readU8, hnc, MODE_RAW, MODE_POSITIVE, MODE_NEGATIVE, h0, h1, h2]

/-- a positive / negative index list containing an index outside the block is refused -/
theorem decBitmapBlock_indexOutOfRange (n m : Nat) (hn : n ≤ BLOCK_NCHUNKS) (hm : m = 1 ∨ m = 2)
    (ps : List Nat) (hl : ps.length < 2^16) (h16 : ∀ p ∈ ps, p < 2^16)
    (h : ∃ p ∈ ps, p ≥ n * CHUNK_BITS) (rest : Bytes) :
    decBitmapBlock (n :: m :: (writeU16 ps.length ++ (writeMulti writeU16 ps ++ rest))) = .error .corrupted := by
  have hnc : ¬ n > BLOCK_NCHUNKS := by omega
  rcases hm with rfl | rfl
  · simp only [decBitmapBlock, readU8, andThen_ok, hnc, ↓reduceIte, MODE_RAW, MODE_POSITIVE,
      show ¬ (1 = 0) by omega]
    rw [readU16_write _ hl, andThen_ok, readBitPositions_out_of_range _ ps h16 h, andThen_error]
  · simp only [decBitmapBlock, readU8, andThen_ok, hnc, ↓reduceIte, MODE_RAW, MODE_POSITIVE, MODE_NEGATIVE,
      show ¬ (2 = 0) by omega, show ¬ (2 = 1) by omega]
    rw [readU16_write _ hl, andThen_ok, readBitPositions_out_of_range _ ps h16 h, andThen_error]

/-! ## BitmapSegment -/

/-- the bitmap segments a reader returns: identifier within the served heights, leaf offset a `u64`,
block structure accepted by `validate_blocks` (all blocks full but the last, which is not empty; no
more chunks than `2^height`), well-formed blocks and proof -/
def BitmapSegment.WF (s : BitmapSegment) : Prop :=
  s.id.WF ∧ (∃ n, validateBlocks s.id s.blocks = .ok n) ∧ (∀ b ∈ s.blocks, b.WF) ∧ HashesWF s.proof

theorem nChunksOf_bound {blocks : List BitmapBlock} {n : Nat} (h : nChunksOf blocks = .ok n) :
    1 ≤ blocks.length ∧ BLOCK_NCHUNKS * (blocks.length - 1) + 1 ≤ n := by
  induction blocks generalizing n with
  | nil => simp [nChunksOf] at h
  | cons b r ih =>
    cases r with
    | nil =>
      simp only [nChunksOf] at h
      split at h
      · simp at h
      · simp only [Except.ok.injEq] at h
        simp only [List.length_cons, List.length_nil]
        omega
    | cons b2 r2 =>
      simp only [nChunksOf] at h
      split at h
      · simp at h
      · split at h
        · rename_i m hm
          simp only [Except.ok.injEq] at h
          have := ih hm
          simp only [List.length_cons] at this ⊢
          unfold BLOCK_NCHUNKS at this h ⊢
          omega
        · simp at h

theorem validateBlocks_ok {id : SegId} {blocks : List BitmapBlock} {n : Nat}
    (h : validateBlocks id blocks = .ok n) :
    (∃ off, leafOffset id = .ok off) ∧ nChunksOf blocks = .ok n ∧ maxChunks id = .ok (2^id.height)
      ∧ id.height ≤ MAX_BITMAP_SEGMENT_HEIGHT ∧ n ≤ 2^id.height := by
  unfold validateBlocks at h
  split at h
  · simp at h
  · rename_i off hoff
    split at h
    · simp at h
    · rename_i m hm
      split at h
      · simp at h
      · rename_i mx hmx
        split at h
        · simp at h
        · split at h
          · simp at h
          · rename_i hle _
            simp only [Except.ok.injEq] at h
            subst h
            unfold maxChunks at hmx
            split at hmx
            · simp at hmx
            · rename_i hh
              simp only [Except.ok.injEq] at hmx
              subst hmx
              refine ⟨⟨off, hoff⟩, hm, ?_, by omega, by omega⟩
              simp [maxChunks, hh]

theorem decBitmapSegment_enc (s : BitmapSegment) (h : s.WF) (rest : Bytes) :
    decBitmapSegment (encBitmapSegment s ++ rest) = .ok (s, rest) := by
  obtain ⟨hid, ⟨n, hv⟩, hb, hpf⟩ := h
  obtain ⟨⟨off, hoff⟩, hnc, hmx, hh, hle⟩ := validateBlocks_ok hv
  obtain ⟨hl1, hl2⟩ := nChunksOf_bound hnc
  have hpow : 2^s.id.height ≤ 2^13 := Nat.pow_le_pow_right (by omega) (by unfold MAX_BITMAP_SEGMENT_HEIGHT at hh; omega)
  have hlen16 : s.blocks.length < 2^16 := by unfold BLOCK_NCHUNKS at hl2; omega
  have hne : ¬ s.blocks.length = 0 := by omega
  have hmaxb : ¬ s.blocks.length > (2^s.id.height + BLOCK_NCHUNKS - 1) / BLOCK_NCHUNKS := by
    unfold BLOCK_NCHUNKS at hl2 ⊢; omega
  rw [decBitmapSegment, encBitmapSegment]
  simp only [List.append_assoc]
  rw [decSegId_enc _ hid, andThen_ok, readU16_write _ hlen16, andThen_ok]
  simp only [hne, ↓reduceIte, hmx, hmaxb, hoff]
  rw [readItems_write decBitmapBlock encBitmapBlock s.blocks (fun b hb' r => decBitmapBlock_enc b (hb b hb') r),
    andThen_ok]
  simp only [hv]
  rw [decSegProof_enc _ hpf, andThen_ok]

/-- a block count of zero is refused -/
theorem decBitmapSegment_zeroBlocks (id : SegId) (hid : id.WF) (rest : Bytes) :
    decBitmapSegment (encSegId id ++ (writeU16 0 ++ rest)) = .error .corrupted := by
  rw [decBitmapSegment, decSegId_enc _ hid, andThen_ok, readU16_write _ (by omega), andThen_ok]
  simp

/-- an identifier above `MAX_SEGMENT_HEIGHT` (13) is refused -/
theorem decBitmapSegment_height (id : SegId) (hid : id.WF) (hh : id.height > MAX_BITMAP_SEGMENT_HEIGHT)
    (nb : Nat) (hnb : nb < 2^16) (hnz : nb ≠ 0) (rest : Bytes) :
    decBitmapSegment (encSegId id ++ (writeU16 nb ++ rest)) = .error .tooLarge := by
  rw [decBitmapSegment, decSegId_enc _ hid, andThen_ok, readU16_write _ hnb, andThen_ok]
  simp [hnz, maxChunks, hh]

/-- more blocks than the identifier's height allows (`ceil(2^height / 64)`) are refused before any
block is read -/
theorem decBitmapSegment_tooManyBlocks (id : SegId) (hid : id.WF) (hh : id.height ≤ MAX_BITMAP_SEGMENT_HEIGHT)
    (nb : Nat) (hnb : nb < 2^16) (hover : nb > (2^id.height + BLOCK_NCHUNKS - 1) / BLOCK_NCHUNKS)
    (rest : Bytes) :
    decBitmapSegment (encSegId id ++ (writeU16 nb ++ rest)) = .error .tooLarge := by
  have hnz : ¬ nb = 0 := Nat.ne_of_gt (Nat.lt_of_le_of_lt (Nat.zero_le _) hover)
  have hh' : ¬ id.height > MAX_BITMAP_SEGMENT_HEIGHT := by omega
  rw [decBitmapSegment, decSegId_enc _ hid, andThen_ok, readU16_write _ hnb, andThen_ok]
  simp [hnz, maxChunks, hh', hover]

/-- block counts inconsistent with the content or the identifier — a non-final block that is not
full, an empty last block, more chunks than `2^height`, a leaf offset that overflows — are refused:
whatever `validate_blocks` answers for the blocks read is the answer of the reader -/
theorem decBitmapSegment_invalidBlocks (id : SegId) (hid : id.WF) (blocks : List BitmapBlock)
    (hb : ∀ b ∈ blocks, b.WF) (hh : id.height ≤ MAX_BITMAP_SEGMENT_HEIGHT)
    (hnz : blocks.length ≠ 0) (hmax : blocks.length ≤ (2^id.height + BLOCK_NCHUNKS - 1) / BLOCK_NCHUNKS)
    (off : Nat) (hoff : leafOffset id = .ok off)
    (e : SerErr) (he : validateBlocks id blocks = .error e) (rest : Bytes) :
    decBitmapSegment (encSegId id ++ (writeU16 blocks.length ++ (writeMulti encBitmapBlock blocks ++ rest)))
      = .error e := by
  have hpow : 2^id.height ≤ 2^13 := Nat.pow_le_pow_right (by omega) (by unfold MAX_BITMAP_SEGMENT_HEIGHT at hh; omega)
  have hlen16 : blocks.length < 2^16 := by unfold BLOCK_NCHUNKS at hmax; omega
  have hh' : ¬ id.height > MAX_BITMAP_SEGMENT_HEIGHT := by omega
  have hmax' : ¬ blocks.length > (2^id.height + BLOCK_NCHUNKS - 1) / BLOCK_NCHUNKS := by omega
  rw [decBitmapSegment, decSegId_enc _ hid, andThen_ok, readU16_write _ hlen16, andThen_ok]
  simp only [hnz, ↓reduceIte, maxChunks, hh', hmax', hoff]
  rw [readItems_write decBitmapBlock encBitmapBlock blocks (fun b hb' r => decBitmapBlock_enc b (hb b hb') r),
    andThen_ok]
  simp only [he]

/-- the index of the last leaf (`leaf_offset + n_chunks - 1`) must stay below 2^63 -/
theorem validateBlocks_leafIndexLimit (id : SegId) (blocks : List BitmapBlock) (off n : Nat)
    (hoff : leafOffset id = .ok off) (hn : nChunksOf blocks = .ok n) (h : off + (n - 1) ≥ 2^63) :
    validateBlocks id blocks = .error .tooLarge := by
  unfold validateBlocks
  simp only [hoff, hn]
  split
  · rename_i e he
    unfold maxChunks at he
    split at he
    · simp only [Except.error.injEq] at he; rw [← he]
    · simp at he
  · split
    · rfl
    · rfl

/-- a non-final block that is not full -/
theorem nChunksOf_shortBlock (pre : List BitmapBlock) (b : BitmapBlock) (post : List BitmapBlock)
    (hpre : ∀ x ∈ pre, x.nChunks = BLOCK_NCHUNKS) (hb : b.nChunks ≠ BLOCK_NCHUNKS) (hpost : post ≠ []) :
    nChunksOf (pre ++ b :: post) = .error .corrupted := by
  induction pre with
  | nil =>
    cases post with
    | nil => exact absurd rfl hpost
    | cons c r => simp [nChunksOf, hb]
  | cons x pre ih =>
    have hx := hpre x (by simp)
    have := ih (fun y hy => hpre y (by simp [hy]))
    cases hp : pre ++ b :: post with
    | nil => simp at hp
    | cons y ys =>
      rw [hp] at this
      simp only [List.cons_append, hp, nChunksOf, hx, ne_eq, not_true_eq_false, ↓reduceIte, this]

/-- an empty last block -/
theorem nChunksOf_emptyLast (pre : List BitmapBlock) (b : BitmapBlock) (hb : b.nChunks = 0) :
    nChunksOf (pre ++ [b]) = .error .corrupted := by
  induction pre with
  | nil => simp [nChunksOf, hb]
  | cons x pre ih =>
    cases hp : pre ++ [b] with
    | nil => simp at hp
    | cons y ys =>
      rw [hp] at ih
      simp only [List.cons_append, hp, nChunksOf]
      split
      · rfl
      · simp [ih]

end GV.SerSeg
