import GrinVerif.Lemmas.PowTotal
/-! Completeness of the undirected engine (Cuckatoo / Cuckaroo / Cuckarooz): a simple cycle through
all edges is accepted. -/
set_option linter.unusedSectionVars false
namespace GV.Pow

section
variable (C : UCfg) (key : Nat → Nat) (N : Nat) (uvs prev : Nat → Nat) (i : Nat)
  (hi : i < N) (hprev : ∀ t, t < N → prev t = prevCirc key N t)
include hi hprev

/-- the slot reached by one step has not been inspected before -/
theorem circ_fresh (k : Nat) (hk : k < N) (hkey : key k = key i) (hne : prev k ≠ i) :
    ¬ Vis i k (prev k) := by
  have ho := circ_order key N prev i hi hprev k hk hkey
  unfold Vis
  rcases ho with ⟨h1, h2⟩ | ⟨h1, h2⟩
  · omega
  · intro h
    rcases h with ⟨a, b, c⟩ | ⟨a, b⟩
    · omega
    · have := h2 a; omega

/-- `branch` is only returned when two different slots of the list match -/
theorem uFind_branch : ∀ f k j, k < N → key k = key i → FInv C key N uvs i k j →
    uFind C uvs prev i f k j = .error .branch →
    ∃ s1 s2, s1 ≠ s2 ∧ Other key N i s1 ∧ Other key N i s2 ∧
      C.mt (uvs s1) (uvs i) = true ∧ C.mt (uvs s2) (uvs i) = true := by
  intro f
  induction f with
  | zero => intro k j _ _ _ h; simp [uFind] at h
  | succ f ih =>
    intro k j hk hkey inv h
    obtain ⟨c1, c2, c3, c4⟩ := circ_step key N prev i hi hprev k hk hkey
    unfold uFind at h
    by_cases e : prev k = i
    · simp [e] at h
    · simp only [e, if_false] at h
      have hiff := c3 e
      have hoth : Other key N i (prev k) := ⟨c1, e, c2⟩
      have hfresh := circ_fresh key N prev i hi hprev k hk hkey e
      by_cases hm : C.mt (uvs (prev k)) (uvs i) = true
      · simp only [hm, if_true] at h
        by_cases hj : j = i
        · simp only [hj, ne_eq, not_true_eq_false, if_false] at h
          refine ih (prev k) (prev k) c1 c2 ?_ h
          right
          refine ⟨hoth, ((hiff _ hoth).mpr (Or.inr rfl)), hm, ?_⟩
          intro s hs hv hms
          rcases (hiff s hs).mp hv with hv | hv
          · rcases inv with ⟨_, j2⟩ | ⟨j1, _, _, _⟩
            · have := j2 s hs hv; rw [this] at hms; cases hms
            · exact absurd hj j1.2.1
          · exact hv
        · -- two matches: the remembered `j` and the new one
          rcases inv with ⟨j1, _⟩ | ⟨j1, j2, j3, _⟩
          · exact absurd j1 hj
          · refine ⟨j, prev k, ?_, j1, hoth, j3, hm⟩
            intro e2
            rw [e2] at j2
            exact hfresh j2
      · simp only [hm] at h
        refine ih (prev k) j c1 c2 ?_ h
        have hmf : C.mt (uvs (prev k)) (uvs i) = false := by simpa using hm
        rcases inv with ⟨j1, j2⟩ | ⟨j1, j2, j3, j4⟩
        · left
          refine ⟨j1, fun s hs hv => ?_⟩
          rcases (hiff s hs).mp hv with hv | hv
          · exact j2 s hs hv
          · rw [hv]; exact hmf
        · right
          refine ⟨j1, (hiff j j1).mpr (Or.inl j2), j3, fun s hs hv hms => ?_⟩
          rcases (hiff s hs).mp hv with hv | hv
          · exact j4 s hs hv hms
          · rw [hv, hmf] at hms; cases hms

end

/-- the inner loop only ever fails with `hang` or `branch` -/
theorem uFind_err (C : UCfg) (uvs prev : Nat → Nat) (i : Nat) :
    ∀ f k j e, uFind C uvs prev i f k j = .error e → e = .hang ∨ e = .branch := by
  intro f
  induction f with
  | zero => intro k j e h; simp [uFind] at h; left; exact h.symm
  | succ f ih =>
    intro k j e h
    unfold uFind at h
    simp only [] at h
    split at h
    · cases h
    · split at h
      · split at h
        · injection h with h; right; exact h.symm
        · exact ih _ _ _ h
      · exact ih _ _ _ h

/-- **one step of the outer loop goes to the partner's other end** -/
theorem uStep_complete (C : UCfg) (key : Nat → Nat) (N size : Nat) (uvs prev : Nat → Nat) (i j : Nat)
    (hN : N = 2 * size) (hi : i < N) (hprev : ∀ t, t < N → prev t = prevCirc key N t)
    (hp : Partner C key uvs N i j) :
    uStep C size uvs prev i = .ok (j ^^^ 1) := by
  obtain ⟨p1, p2, p3, p4⟩ := hp
  have hnh := uFind_no_hang C key N uvs prev i hi hprev (2 * size + 1) i i hi rfl
    (by simp only [Nat.le_refl, if_true]; omega)
  unfold uStep
  cases hf : uFind C uvs prev i (2 * size + 1) i i with
  | error e =>
    exfalso
    rcases uFind_err C uvs prev i _ _ _ _ hf with h | h
    · subst h; exact hnh hf
    · subst h
      obtain ⟨s1, s2, hne, o1, o2, m1, m2⟩ :=
        uFind_branch C key N uvs prev i hi hprev _ i i hi rfl (finv_init C key N uvs i) hf
      exact hne ((p3 s1 o1 m1).trans (p3 s2 o2 m2).symm)
  | ok r =>
    simp only []
    have hr := uFind_ok C key N uvs prev i hi hprev _ i i r hi rfl (finv_init C key N uvs i) hf
    have hrj : r = j := by
      rcases hr with ⟨_, r2⟩ | ⟨r1, r2, _⟩
      · have := r2 j p1; rw [this] at p2; cases p2
      · exact p3 r r1 r2
    subst hrj
    have h1 : ¬ (r = i) := p1.2.1
    by_cases hd : C.deadSame = true
    · have := p4 hd
      simp [h1, hd, this]
    · simp [h1, hd]


/-! ### from the declarative cycle to the partner structure -/

/-- generic reading of "the vertex entered through slot `a` is left through slot `b`" -/
def adjG (C : UCfg) (key uv : Nat → Nat) (a b : Nat) : Prop :=
  key b = key a ∧ C.mt (uv b) (uv a) = true ∧ (C.deadSame = true → uv b ≠ uv a)
/-- generic "same vertex" -/
def sameVG (C : UCfg) (key uv : Nat → Nat) (a b : Nat) : Prop :=
  key a = key b ∧ C.mt (uv a) (uv b) = true

theorem pred_succ_mod (a L : Nat) (hL : 0 < L) (ha : a < L) : ((a + L - 1) % L + 1) % L = a := by
  rw [modL_cases (a + L - 1) L hL (by omega)]
  by_cases h : a + L - 1 < L
  · rw [if_pos h]
    have : a + L - 1 + 1 = L := by omega
    rw [this, Nat.mod_self]; omega
  · rw [if_neg h]
    have : a + L - 1 - L + 1 = a := by omega
    rw [this, Nat.mod_eq_of_lt ha]

section
variable {C : UCfg} (E : MtEquiv C) {key uv : Nat → Nat} {L : Nat} {c : List Nat}
  (hG : IsCycle L (adjG C key uv) (sameVG C key uv) c) (hL : 0 < L)
include E hG hL

theorem gcyc_lt (t : Nat) (ht : t < L) : c.getD t 0 < 2 * L := by
  have hcl := hG.len
  have : c.getD t 0 / 2 ∈ c.map (· / 2) := by
    apply List.mem_map.mpr
    refine ⟨c.getD t 0, ?_, rfl⟩
    rw [List.getD_eq_getElem?_getD, List.getElem?_eq_getElem (by omega)]; simp
  have := List.mem_range.mp (hG.perm.mem_iff.mp this)
  omega

theorem gcyc_edge_inj (a b : Nat) (ha : a < L) (hb : b < L)
    (h : c.getD a 0 / 2 = c.getD b 0 / 2) : a = b := by
  have hcl := hG.len
  have hnd : (c.map (· / 2)).Nodup := hG.perm.nodup_iff.mpr List.nodup_range
  rw [List.Nodup, List.pairwise_map, List.pairwise_iff_getElem] at hnd
  have h' : ∀ x y (hx : x < c.length) (hy : y < c.length), x < y → c.getD x 0 / 2 ≠ c.getD y 0 / 2 := by
    intro x y hx hy hxy
    have := hnd x y hx hy hxy
    simpa [List.getD_eq_getElem?_getD, hx, hy] using this
  rcases Nat.lt_trichotomy a b with hlt | heq | hgt
  · exact absurd h (h' a b (by omega) (by omega) hlt)
  · exact heq
  · exact absurd h.symm (h' b a (by omega) (by omega) hgt)

theorem gcyc_cover (s : Nat) (hs : s < 2 * L) : ∃ a, a < L ∧ (s = c.getD a 0 ∨ s = c.getD a 0 ^^^ 1) := by
  have hcl := hG.len
  have : s / 2 ∈ c.map (· / 2) := hG.perm.mem_iff.mpr (List.mem_range.mpr (by omega))
  obtain ⟨x, hx, hxe⟩ := List.mem_map.mp this
  obtain ⟨a, ha, rfl⟩ := List.getElem_of_mem hx
  refine ⟨a, by omega, ?_⟩
  have : c.getD a 0 = c[a] := by
    rw [List.getD_eq_getElem?_getD, List.getElem?_eq_getElem ha]; rfl
  rw [this]
  exact eq_or_xor_of_half s c[a] hxe.symm

/-- in a simple cycle through all edges, the slot entered at step `t` has exactly one partner:
the slot through which the cycle leaves that vertex -/
theorem gcyc_partner (t : Nat) (ht : t < L) :
    Partner C key uv (2 * L) (c.getD t 0) (c.getD ((t + 1) % L) 0 ^^^ 1) := by
  have hm : (t + 1) % L < L := Nat.mod_lt _ hL
  obtain ⟨l1, l2, l3⟩ := hG.link t ht
  have hlt := gcyc_lt E hG hL
  refine ⟨⟨xor_one_lt _ _ (hlt _ hm), ?_, l1⟩, l2, ?_, l3⟩
  · intro e
    have h2 : c.getD ((t + 1) % L) 0 / 2 = c.getD t 0 / 2 := by
      have : (c.getD ((t + 1) % L) 0 ^^^ 1) / 2 = c.getD ((t + 1) % L) 0 / 2 := by
        simp [Nat.xor_div_two]
      rw [← this, e]
    have := gcyc_edge_inj E hG hL _ _ hm ht h2
    rw [this] at e
    exact ne_xor_one _ e.symm
  · intro s ⟨s1, s2, s3⟩ sm
    obtain ⟨a, ha, hs⟩ := gcyc_cover E hG hL s s1
    rcases hs with rfl | rfl
    · -- another entry slot of the same vertex: excluded by simplicity
      have hat : a ≠ t := fun h => s2 (by rw [h])
      exact absurd ⟨s3, sm⟩ (hG.simple a t ha ht hat)
    · -- an exit slot: it is the exit slot of the vertex entered one step before `a`
      have hp : (a + L - 1) % L < L := Nat.mod_lt _ hL
      have hps := pred_succ_mod a L hL ha
      obtain ⟨k1, k2, _⟩ := hG.link ((a + L - 1) % L) hp
      rw [hps] at k1 k2
      by_cases hpt : (a + L - 1) % L = t
      · rw [← hpt, hps]
      · exfalso
        apply hG.simple _ t hp ht hpt
        refine ⟨k1.symm.trans s3, ?_⟩
        have : C.mt (uv (c.getD ((a + L - 1) % L) 0)) (uv (c.getD a 0 ^^^ 1)) = true := by
          rw [E.symm]; exact k2
        exact E.trans _ _ _ this sm

end

/-! ### the walk follows the cycle, forwards or backwards -/

theorem trace_of_seq (step : Nat → Except Err Nat) (g : Nat → Nat) (L : Nat) (hL : 0 < L)
    (h0 : g 0 = 0)
    (hch : ∀ t, t + 1 < L → step (g t) = .ok (g (t+1)) ∧ g (t+1) ≠ 0)
    (hlast : step (g (L - 1)) = .ok 0) :
    Trace step 0 ((List.range L).map g) := by
  have hget : ∀ t, t < L → ((List.range L).map g).getD t 0 = g t := by
    intro t ht; simp [List.getD_eq_getElem?_getD, ht]
  refine ⟨by simpa using hL, by rw [hget 0 hL, h0], ?_, ?_⟩
  · intro t ht
    simp only [List.length_map, List.length_range] at ht
    rw [hget t (by omega), hget (t+1) ht]
    exact hch t ht
  · simp only [List.length_map, List.length_range]
    rw [hget (L-1) (by omega)]
    exact hlast

section
variable {C : UCfg} (E : MtEquiv C) {key uv : Nat → Nat} {L : Nat} {c : List Nat}
  (hG : IsCycle L (adjG C key uv) (sameVG C key uv) c) (hL : 0 < L)
  {step : Nat → Except Err Nat} {InE : Nat → Prop} (hE0 : InE 0)
  (hstep : ∀ i j, i < 2 * L → InE i → Partner C key uv (2 * L) i j →
    step i = .ok (j ^^^ 1) ∧ InE (j ^^^ 1))
include E hG hL hE0 hstep

/-- `InE` is a class of slots containing slot 0 and closed under the step, on which the step is
known to go to the partner's other end (all slots for the circular-list variants; the entry slots
`u` end of direction 0 / `v` end of direction 1 for Cuckarood) -/
theorem gcyc_trace : ∃ tr, Trace step 0 tr ∧ tr.length = L := by
  have hlt := gcyc_lt E hG hL
  have hinj := gcyc_edge_inj E hG hL
  obtain ⟨p, hp, h0⟩ := gcyc_cover E hG hL 0 (by omega)
  have hidx : ∀ a b, a < L → b < L → c.getD a 0 = c.getD b 0 → a = b :=
    fun a b ha hb e => hinj a b ha hb (by rw [e])
  rcases h0 with h0 | h0
  · -- the cycle enters edge 0 at its `u` end: the walk follows it forwards
    refine ⟨(List.range L).map (fun t => c.getD ((p + t) % L) 0), ?_, by simp⟩
    have hs' : ∀ t, InE (c.getD ((p + t) % L) 0) ∧
        step (c.getD ((p + t) % L) 0) = .ok (c.getD ((p + (t + 1)) % L) 0) := by
      intro t
      induction t with
      | zero =>
        have hm : (p + 0) % L < L := Nat.mod_lt _ hL
        have hin : InE (c.getD ((p + 0) % L) 0) := by
          simp only [Nat.add_zero, Nat.mod_eq_of_lt hp]; rw [← h0]; exact hE0
        have := hstep _ _ (hlt _ hm) hin (gcyc_partner E hG hL _ hm)
        rw [xor_one_xor_one, Nat.mod_add_mod] at this
        exact ⟨hin, this.1⟩
      | succ t ih =>
        have hm0 : (p + t) % L < L := Nat.mod_lt _ hL
        have hm : (p + (t + 1)) % L < L := Nat.mod_lt _ hL
        have hin : InE (c.getD ((p + (t + 1)) % L) 0) := by
          have := (hstep _ _ (hlt _ hm0) ih.1 (gcyc_partner E hG hL _ hm0)).2
          rw [xor_one_xor_one, Nat.mod_add_mod] at this
          exact this
        have := hstep _ _ (hlt _ hm) hin (gcyc_partner E hG hL _ hm)
        rw [xor_one_xor_one, Nat.mod_add_mod] at this
        exact ⟨hin, this.1⟩
    have hs : ∀ t, step (c.getD ((p + t) % L) 0) = .ok (c.getD ((p + (t + 1)) % L) 0) :=
      fun t => (hs' t).2
    apply trace_of_seq _ _ L hL
    · simp only [Nat.add_zero, Nat.mod_eq_of_lt hp]; exact h0.symm
    · intro t ht
      refine ⟨hs t, ?_⟩
      intro e
      have := hidx _ _ (Nat.mod_lt _ hL) hp (e.trans h0)
      rw [modL_cases _ _ hL (by omega)] at this
      split at this <;> omega
    · have := hs (L - 1)
      have e : p + (L - 1 + 1) = p + L := by omega
      rw [e, Nat.add_mod_right, Nat.mod_eq_of_lt hp, ← h0] at this
      exact this
  · -- the cycle enters edge 0 at its `v` end: the walk follows it backwards
    refine ⟨(List.range L).map (fun t => c.getD ((p + L - t) % L) 0 ^^^ 1), ?_, by simp⟩
    have hone : ∀ t, t < L → InE (c.getD ((p + L - t) % L) 0 ^^^ 1) →
        step (c.getD ((p + L - t) % L) 0 ^^^ 1) = .ok (c.getD ((p + L - (t + 1)) % L) 0 ^^^ 1) ∧
        InE (c.getD ((p + L - (t + 1)) % L) 0 ^^^ 1) := by
      intro t ht hin
      have hq : (p + L - t) % L < L := Nat.mod_lt _ hL
      have hq' : ((p + L - t) % L + L - 1) % L < L := Nat.mod_lt _ hL
      have hps := pred_succ_mod _ L hL hq
      have hpar := gcyc_partner E hG hL _ hq'
      rw [hps] at hpar
      have hsym := partner_symm E (hlt _ hq') hpar
      have e1 : ((p + L - t) % L + L - 1) % L = (p + L - (t + 1)) % L := by
        have : (p + L - t) % L + L - 1 = (p + L - t) % L + (L - 1) := by omega
        rw [this, Nat.mod_add_mod]
        have : p + L - t + (L - 1) = p + L - (t + 1) + L := by omega
        rw [this, Nat.add_mod_right]
      have := hstep _ _ (xor_one_lt _ _ (hlt _ hq)) hin hsym
      rw [e1] at this
      exact this
    have hs' : ∀ t, t < L → InE (c.getD ((p + L - t) % L) 0 ^^^ 1) := by
      intro t
      induction t with
      | zero =>
        intro _
        simp only [Nat.sub_zero, Nat.add_mod_right, Nat.mod_eq_of_lt hp]; rw [← h0]; exact hE0
      | succ t ih =>
        intro ht
        exact (hone t (by omega) (ih (by omega))).2
    have hs : ∀ t, t < L → step (c.getD ((p + L - t) % L) 0 ^^^ 1) =
        .ok (c.getD ((p + L - (t + 1)) % L) 0 ^^^ 1) :=
      fun t ht => (hone t ht (hs' t ht)).1
    apply trace_of_seq _ _ L hL
    · simp only [Nat.sub_zero, Nat.add_mod_right, Nat.mod_eq_of_lt hp]; exact h0.symm
    · intro t ht
      refine ⟨hs t (by omega), ?_⟩
      intro e
      have e' : c.getD ((p + L - (t + 1)) % L) 0 = c.getD p 0 := by
        have := congrArg (· ^^^ 1) (e.trans h0)
        simp only [xor_one_xor_one] at this
        exact this
      have := hidx _ _ (Nat.mod_lt _ hL) hp e'
      rw [modL_cases _ _ hL (by omega)] at this
      split at this <;> omega
    · have := hs (L - 1) (by omega)
      have e : p + L - (L - 1 + 1) = p := by omega
      rw [e, Nat.mod_eq_of_lt hp, ← h0] at this
      exact this

end

/-- the outer loop follows a trace to its end -/
theorem uWalk_complete (step : Nat → Except Err Nat) (tr : List Nat) (i0 : Nat)
    (htr : Trace step i0 tr) :
    ∀ d a f n, a + d = tr.length → 0 < d → d ≤ f →
      uWalk step f (tr.getD a 0) n = .ok (n + d) := by
  intro d
  induction d with
  | zero => intro a f n _ h; omega
  | succ d ih =>
    intro a f n had _ hf
    cases f with
    | zero => omega
    | succ f =>
      unfold uWalk
      by_cases hd : d = 0
      · subst hd
        have : tr.length - 1 = a := by omega
        have hl := htr.last
        rw [this] at hl
        rw [hl]
        simp
      · obtain ⟨c1, c2⟩ := htr.chain a (by omega)
        rw [c1]
        simp only [c2, if_false]
        rw [ih (a+1) f (n+1) (by omega) (by omega) (by omega)]
        have e : n + 1 + d = n + (d + 1) := by omega
        rw [e]


/-- the first loop succeeds on in-range ascending nonces; its xor accumulators -/
theorem uBuild_complete (C : UCfg) (P : Params) (ep : Nat → Nat × Nat) :
    ∀ xs n last s, (∀ x ∈ xs, x ≤ P.edgeMask) → ascChain last xs →
      ∃ s', uBuild C P ep xs n last s = .ok s' ∧
        s'.x0 = s.x0 ^^^ xorAll (xs.map (fun x => (ep x).1)) ∧
        s'.x1 = s.x1 ^^^ xorAll (xs.map (fun x => (ep x).2)) := by
  intro xs
  induction xs with
  | nil => intro n last s _ _; exact ⟨s, rfl, by simp [xorAll], by simp [xorAll]⟩
  | cons x xs ih =>
    intro n last s hm ha
    obtain ⟨a1, a2⟩ := ha
    have hx : ¬ x > P.edgeMask := by have := hm x (by simp); omega
    unfold uBuild
    simp only [hx, a1, if_false, Bool.false_eq_true]
    obtain ⟨s', r1, r2, r3⟩ := ih (n+1) (some x) _ (fun y hy => hm y (by simp [hy])) a2
    refine ⟨s', r1, ?_, ?_⟩
    · rw [r2]; simp only [List.map_cons, xorAll_cons, Nat.xor_assoc]
    · rw [r3]; simp only [List.map_cons, xorAll_cons, Nat.xor_assoc]

/-- completeness of the undirected engine, given that the early xor test passes -/
theorem verifyU_complete_of_xor (C : UCfg) (E : MtEquiv C) (P : Params) (ep : Nat → Nat × Nat)
    (ns : List Nat) (hps : 0 < P.proofsize) (hlen : ns.length = P.proofsize) (hasc : Ascending ns)
    (hmask : ∀ x ∈ ns, x ≤ P.edgeMask)
    (hctx : C.useCtxSize = true → P.ctxProofSize = P.proofsize)
    (c : List Nat)
    (hG : IsCycle ns.length (adjG C (keyF C P ep ns) (uvF ep ns)) (sameVG C (keyF C P ep ns) (uvF ep ns)) c)
    (hxor : ∀ s, uBuild C P ep ns 0 none (USt.init C ns.length) = .ok s →
      (if C.jointXor = true then s.x0 ^^^ s.x1 else s.x0 ||| s.x1) = 0) :
    verifyU C P ep ns = .ok () := by
  have hL : 0 < ns.length := by omega
  obtain ⟨s, hb, _, _⟩ := uBuild_complete C P ep ns 0 none (USt.init C ns.length) hmask
    (ascChain_of_pairwise ns none hasc (fun y hy => by cases hy))
  obtain ⟨inv, _, _⟩ :=
    uBuild_spec C P ep ns ns [] none _ s (by simp) (slotInv_init _ _ C ns.length) hb
  have hx := hxor s hb
  have hprev : ∀ t, t < 2 * ns.length →
      uCirc C P ns.length s ns.length s.prev t = prevCirc (keyF C P ep ns) (2 * ns.length) t := by
    intro t ht
    rw [uCirc_spec C P ns.length s ns.length s.prev (Nat.le_refl _) t]
    have hk : C.key P.bk (t % 2) (s.uvs t) = keyF C P ep ns t := by
      rw [inv.uvs t ht]; rfl
    rw [hk, inv.head, inv.prev t ht]
    unfold prevCirc
    have : 2 * (ns.length - ns.length) ≤ t := by omega
    simp only [this, ht, true_and]
  have hstep : ∀ i j, i < 2 * ns.length →
      Partner C (keyF C P ep ns) (uvF ep ns) (2 * ns.length) i j →
      uStep C ns.length s.uvs (uCirc C P ns.length s ns.length s.prev) i = .ok (j ^^^ 1) := by
    intro i j hi hp
    exact uStep_complete C (keyF C P ep ns) (2 * ns.length) ns.length s.uvs _ i j rfl hi hprev
      (partner_congr (fun t ht => (inv.uvs t ht).symm) hi hp)
  obtain ⟨tr, htr, htl⟩ := gcyc_trace E hG hL (InE := fun _ => True) trivial
    (fun i j hi _ hp => ⟨hstep i j hi hp, trivial⟩)
  have hw := uWalk_complete _ tr 0 htr ns.length 0 (2 * ns.length + 1) 0 (by omega) hL (by omega)
  rw [htr.head] at hw
  unfold verifyU
  simp only [hlen, ne_eq, not_true_eq_false, if_false]
  rw [← hlen, hb]
  simp only [hx, not_true_eq_false, if_false]
  rw [hw]
  by_cases hc : C.useCtxSize = true
  · simp [hc, hctx hc, hlen]
  · simp [hc]

end GV.Pow
