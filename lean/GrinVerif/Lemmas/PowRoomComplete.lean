import GrinVerif.Lemmas.PowRoom
/-! Completeness of the Cuckaroom verifier: every simple directed cycle through all edges, given
by strictly ascending in-range nonces of the right count, is accepted. -/
namespace GV.Pow

/-! ### xor of a list is permutation invariant -/

def xorAll (l : List Nat) : Nat := l.foldr (· ^^^ ·) 0

theorem xorAll_cons (x : Nat) (l : List Nat) : xorAll (x :: l) = x ^^^ xorAll l := rfl

theorem xorAll_perm {l1 l2 : List Nat} (h : l1.Perm l2) : xorAll l1 = xorAll l2 := by
  induction h with
  | nil => rfl
  | cons x _ ih => simp [xorAll_cons, ih]
  | swap x y l =>
    simp only [xorAll_cons]
    rw [← Nat.xor_assoc, ← Nat.xor_assoc, Nat.xor_comm y x]
  | trans _ _ ih1 ih2 => exact ih1.trans ih2

theorem map_range_getD (f : Nat → Nat) : ∀ l : List Nat,
    (List.range l.length).map (fun k => f (l.getD k 0)) = l.map f := by
  intro l
  induction l with
  | nil => rfl
  | cons x l ih =>
    rw [List.length_cons, List.range_succ_eq_map, List.map_cons, List.map_map]
    simp only [List.getD_cons_zero, List.map_cons]
    congr 1

theorem modL_cases (x L : Nat) (hL : 0 < L) (hx : x < 2 * L) :
    x % L = if x < L then x else x - L := by
  by_cases h : x < L
  · rw [if_pos h, Nat.mod_eq_of_lt h]
  · rw [if_neg h, Nat.mod_eq_sub_mod (by omega), Nat.mod_eq_of_lt (by omega)]

/-- the cyclic shift `t ↦ (t + p) % L` permutes `0 … L-1` -/
theorem shift_perm (L p : Nat) (hL : 0 < L) (hp : p < L) :
    ((List.range L).map (fun t => (t + p) % L)).Perm (List.range L) := by
  apply perm_range_of_nodup
  · rw [List.Nodup, List.pairwise_map, List.pairwise_iff_getElem]
    intro a b ha hb hab h
    simp only [List.length_range] at ha hb
    simp only [List.getElem_range] at h
    rw [modL_cases _ L hL (by omega), modL_cases _ L hL (by omega)] at h
    split at h <;> split at h <;> omega
  · intro x hx
    obtain ⟨t, _, rfl⟩ := List.mem_map.mp hx
    exact Nat.mod_lt _ hL
  · simp

theorem xorAll_shift (g : Nat → Nat) (L p : Nat) (hL : 0 < L) (hp : p < L) :
    xorAll ((List.range L).map (fun t => g ((t + p) % L))) = xorAll ((List.range L).map g) := by
  have : (List.range L).map (fun t => g ((t + p) % L)) =
      ((List.range L).map (fun t => (t + p) % L)).map g := by simp [List.map_map, Function.comp_def]
  rw [this]
  exact xorAll_perm ((shift_perm L p hL hp).map g)

/-- a list is the map of `getD` over its indices -/
theorem list_eq_map_range (c : List Nat) :
    c = (List.range c.length).map (fun t => c.getD t 0) := by
  have := map_range_getD (fun x => x) c
  simpa using this.symm


theorem ascChain_of_pairwise : ∀ xs last, xs.Pairwise (· < ·) →
    (∀ y, last = some y → ∀ x ∈ xs, y < x) → ascChain last xs := by
  intro xs
  induction xs with
  | nil => intro _ _ _; trivial
  | cons x xs ih =>
    intro last hp hl
    obtain ⟨h1, h2⟩ := List.pairwise_cons.mp hp
    refine ⟨?_, ih (some x) h2 ?_⟩
    · cases last with
      | none => rfl
      | some y =>
        have := hl y rfl x (by simp)
        simp [notAsc]; omega
    · intro y hy z hz
      injection hy with hy
      subst hy
      exact h1 z hz

/-- the first loop succeeds on in-range ascending nonces; its xor accumulators -/
theorem roomBuild_complete (P : Params) (ep : Nat → Nat × Nat) :
    ∀ xs n last s, (∀ x ∈ xs, x ≤ P.edgeMask) → ascChain last xs →
      ∃ s', roomBuild P ep xs n last s = .ok s' ∧
        s'.xf = s.xf ^^^ xorAll (xs.map (fun x => (ep x).1)) ∧
        s'.xt = s.xt ^^^ xorAll (xs.map (fun x => (ep x).2)) := by
  intro xs
  induction xs with
  | nil => intro n last s _ _; exact ⟨s, rfl, by simp [xorAll], by simp [xorAll]⟩
  | cons x xs ih =>
    intro n last s hm ha
    obtain ⟨a1, a2⟩ := ha
    have hx : ¬ x > P.edgeMask := by have := hm x (by simp); omega
    obtain ⟨s', r1, r2, r3⟩ := ih (n+1) (some x)
      { frm := upd s.frm n (ep x).1, prev := upd s.prev n (s.head (P.bk (ep x).1)),
        head := upd s.head (P.bk (ep x).1) n, to := upd s.to n (ep x).2,
        xf := s.xf ^^^ (ep x).1, xt := s.xt ^^^ (ep x).2 }
      (fun y hy => hm y (by simp [hy])) a2
    refine ⟨s', ?_, ?_, ?_⟩
    · unfold roomBuild
      simp only [hx, a1, if_false, Bool.false_eq_true]
      exact r1
    · rw [r2]; simp only [List.map_cons, xorAll_cons, Nat.xor_assoc]
    · rw [r3]; simp only [List.map_cons, xorAll_cons, Nat.xor_assoc]

/-- in a directed cycle through all edges the xor of all `from` equals the xor of all `to` -/
theorem room_xor_eq (ep : Nat → Nat × Nat) (ns c : List Nat) (h : IsDirCycle (ns.map ep) c)
    (hL : 0 < ns.length) :
    xorAll (ns.map (fun x => (ep x).1)) = xorAll (ns.map (fun x => (ep x).2)) := by
  have hlm : (ns.map ep).length = ns.length := by simp
  have hperm := h.perm
  rw [hlm] at hperm
  have hcl : c.length = ns.length := by rw [hperm.length_eq]; simp
  have hmem : ∀ t, t < ns.length → c.getD t 0 < ns.length := by
    intro t ht
    have : c.getD t 0 ∈ c := by
      rw [List.getD_eq_getElem?_getD, List.getElem?_eq_getElem (by omega)]
      simp
    exact List.mem_range.mp (hperm.mem_iff.mp this)
  -- xor over ns = xor over c, for both components
  have e1 : xorAll (ns.map (fun x => (ep x).1)) = xorAll (c.map (frmF ep ns)) := by
    rw [← map_range_getD (fun x => (ep x).1) ns]
    exact (xorAll_perm (hperm.map _)).symm
  have e2 : xorAll (ns.map (fun x => (ep x).2)) = xorAll (c.map (toF ep ns)) := by
    rw [← map_range_getD (fun x => (ep x).2) ns]
    exact (xorAll_perm (hperm.map _)).symm
  rw [e1, e2]
  -- `to` of each edge is `from` of the next
  have hto : c.map (toF ep ns) =
      (List.range ns.length).map (fun t => (fun t => frmF ep ns (c.getD t 0)) ((t + 1) % ns.length)) := by
    conv => lhs; rw [list_eq_map_range c]
    rw [List.map_map, hcl]
    apply List.map_congr_left
    intro t ht
    have ht' := List.mem_range.mp ht
    have hl := h.link t (by rw [hlm]; exact ht')
    rw [hlm] at hl
    have hm := hmem ((t + 1) % ns.length) (Nat.mod_lt _ hL)
    rw [map_getD_snd ep ns _ (hmem t ht'), map_getD_fst ep ns _ hm] at hl
    simpa using hl
  have hfrm : c.map (frmF ep ns) = (List.range ns.length).map (fun t => frmF ep ns (c.getD t 0)) := by
    conv => lhs; rw [list_eq_map_range c]
    rw [List.map_map, hcl]
    rfl
  rw [hto, hfrm]
  by_cases h1 : ns.length = 1
  · rw [h1]; rfl
  · exact (xorAll_shift (fun t => frmF ep ns (c.getD t 0)) ns.length 1 hL (by omega)).symm


/-- the inner search finds an edge whose `from` is the target when exactly one exists, and never
runs out of fuel -/
theorem roomFind_complete (P : Params) (ep : Nat → Nat × Nat) (ns : List Nat) (s : RoomSt)
    (inv : RoomInv P ep ns ns.length s) (target kst : Nat) (hk : kst < ns.length)
    (hf : frmF ep ns kst = target)
    (huniq : ∀ k, k < ns.length → frmF ep ns k = target → k = kst) :
    ∀ f k, k < ns.length → k < f → P.bk (frmF ep ns k) = P.bk target → kst ≤ k →
      roomFind ns.length s target f k = .ok kst := by
  intro f
  induction f with
  | zero => intro k _ h; omega
  | succ f ih =>
    intro k hkl hkf hb hle
    unfold roomFind
    have e : k ≠ ns.length := by omega
    simp only [e, if_false]
    by_cases e2 : s.frm k = target
    · simp only [e2, if_true]
      rw [inv.frm k hkl] at e2
      rw [huniq k hkl e2]
    · simp only [e2, if_false]
      rw [inv.frm k hkl] at e2
      rw [inv.prev k hkl]
      have hne : kst ≠ k := fun h => e2 (h ▸ hf)
      have hlt : kst < k := by omega
      have sp := lastBelow_spec (fun k' => P.bk (frmF ep ns k') == P.bk (frmF ep ns k)) ns.length k
      rcases sp with ⟨_, h2⟩ | ⟨h1, h2, h3⟩
      · have := h2 kst hlt
        simp [hf, hb] at this
      · have h2' : P.bk (frmF ep ns (lastBelow (fun k' => P.bk (frmF ep ns k') == P.bk (frmF ep ns k)) ns.length k)) =
            P.bk (frmF ep ns k) := by simpa using h2
        exact ih _ (by omega) (by omega) (by rw [h2', hb]) (h3 kst hlt (by simp [hf, hb]))

theorem roomStep_complete (P : Params) (ep : Nat → Nat × Nat) (ns : List Nat) (s : RoomSt)
    (inv : RoomInv P ep ns ns.length s) (i kst : Nat) (hk : kst < ns.length)
    (hf : frmF ep ns kst = s.to i)
    (huniq : ∀ k, k < ns.length → frmF ep ns k = s.to i → k = kst) :
    roomStep P ns.length s i = .ok kst := by
  unfold roomStep
  rw [inv.head]
  have sp := lastBelow_spec (fun k => P.bk (frmF ep ns k) == P.bk (s.to i)) ns.length ns.length
  rcases sp with ⟨_, h2⟩ | ⟨h1, h2, h3⟩
  · have := h2 kst hk
    simp [hf] at this
  · exact roomFind_complete P ep ns s inv (s.to i) kst hk hf huniq _ _ h1 (by omega)
      (by simpa using h2) (h3 kst hk (by simp [hf]))

/-- the outer loop follows a trace to its end -/
theorem roomWalk_complete (P : Params) (size : Nat) (s : RoomSt) (tr : List Nat) (i0 : Nat)
    (htr : Trace (roomStep P size s) i0 tr) :
    ∀ d a f vis n, a + d = tr.length → 0 < d → d ≤ f →
      (∀ x, vis x = true → ∃ b, b < a ∧ x = tr.getD b 0) →
      roomWalk P size s f vis (tr.getD a 0) n = .ok (n + d) := by
  intro d
  induction d with
  | zero => intro a f vis n _ h; omega
  | succ d ih =>
    intro a f vis n had _ hf hvis
    cases f with
    | zero => omega
    | succ f =>
      unfold roomWalk
      have hv : ¬ (vis (tr.getD a 0) = true) := by
        intro h
        obtain ⟨b, hb, e⟩ := hvis _ h
        exact htr.ne_of_lt hb (by omega) e.symm
      have hv' : vis (tr.getD a 0) = false := by simpa using hv
      simp only [hv', Bool.false_eq_true, if_false]
      have hstep : roomFind size s (s.to (tr.getD a 0)) (size + 1) (s.head (P.bk (s.to (tr.getD a 0)))) =
          roomStep P size s (tr.getD a 0) := rfl
      rw [hstep]
      by_cases hd : d = 0
      · subst hd
        have : tr.length - 1 = a := by omega
        have hl := htr.last
        rw [this] at hl
        rw [hl]
        simp
      · obtain ⟨c1, c2⟩ := htr.chain a (by omega)
        rw [c1]
        simp only [c2, if_false]
        have := ih (a+1) f (fun x => decide (x = tr.getD a 0) || vis x) (n+1) (by omega) (by omega) (by omega)
          (by
            intro x hx
            simp only [Bool.or_eq_true, decide_eq_true_eq] at hx
            rcases hx with hx | hx
            · exact ⟨a, by omega, hx⟩
            · obtain ⟨b, hb, e⟩ := hvis x hx
              exact ⟨b, by omega, e⟩)
        rw [this]
        have e : n + 1 + d = n + (d + 1) := by omega
        rw [e]


/-- a simple directed cycle through all edges, read from edge 0 on, is a trace of the walk -/
theorem room_trace_of_cycle (P : Params) (ep : Nat → Nat × Nat) (ns : List Nat) (s : RoomSt)
    (inv : RoomInv P ep ns ns.length s) (c : List Nat) (h : IsDirCycle (ns.map ep) c)
    (hL : 0 < ns.length) :
    ∃ tr, Trace (roomStep P ns.length s) 0 tr ∧ tr.length = ns.length := by
  have hlm : (ns.map ep).length = ns.length := by simp
  have hperm := h.perm
  rw [hlm] at hperm
  have hcl : c.length = ns.length := by rw [hperm.length_eq]; simp
  have hnd : c.Nodup := hperm.nodup_iff.mpr List.nodup_range
  have hget : ∀ t (ht : t < ns.length), c.getD t 0 = c[t]'(by omega) := by
    intro t ht
    rw [List.getD_eq_getElem?_getD, List.getElem?_eq_getElem (by omega)]; rfl
  have hmem : ∀ t, t < ns.length → c.getD t 0 < ns.length := by
    intro t ht
    have : c.getD t 0 ∈ c := by rw [hget t ht]; simp
    exact List.mem_range.mp (hperm.mem_iff.mp this)
  have hinj : ∀ a b, a < ns.length → b < ns.length → c.getD a 0 = c.getD b 0 → a = b := by
    intro a b ha hb e
    rw [hget a ha, hget b hb] at e
    have hpw := List.pairwise_iff_getElem.mp hnd
    rcases Nat.lt_trichotomy a b with hlt | heq | hgt
    · exact absurd e (hpw a b (by omega) (by omega) hlt)
    · exact heq
    · exact absurd e.symm (hpw b a (by omega) (by omega) hgt)
  have hidx : ∀ k, k < ns.length → ∃ a, a < ns.length ∧ c.getD a 0 = k := by
    intro k hk
    have : k ∈ c := hperm.mem_iff.mpr (List.mem_range.mpr hk)
    obtain ⟨a, ha, e⟩ := List.getElem_of_mem this
    exact ⟨a, by omega, by rw [hget a (by omega)]; exact e⟩
  -- the step follows the cycle
  have stepC : ∀ t, t < ns.length →
      roomStep P ns.length s (c.getD t 0) = .ok (c.getD ((t + 1) % ns.length) 0) := by
    intro t ht
    have hm : (t + 1) % ns.length < ns.length := Nat.mod_lt _ hL
    have hl := h.link t (by rw [hlm]; exact ht)
    rw [hlm, map_getD_snd ep ns _ (hmem t ht), map_getD_fst ep ns _ (hmem _ hm)] at hl
    apply roomStep_complete P ep ns s inv _ _ (hmem _ hm)
    · rw [inv.to _ (hmem t ht)]; exact hl.symm
    · intro k hk hf
      rw [inv.to _ (hmem t ht), hl] at hf
      obtain ⟨a, ha, rfl⟩ := hidx k hk
      by_cases e : a = (t + 1) % ns.length
      · rw [e]
      · have := h.simple a ((t + 1) % ns.length) (by rw [hlm]; exact ha) (by rw [hlm]; exact hm) e
        rw [map_getD_fst ep ns _ (hmem a ha), map_getD_fst ep ns _ (hmem _ hm)] at this
        exact absurd hf this
  obtain ⟨p, hp, hp0⟩ := hidx 0 hL
  refine ⟨(List.range ns.length).map (fun t => c.getD ((t + p) % ns.length) 0), ?_, by simp⟩
  have htr : ∀ t, t < ns.length →
      ((List.range ns.length).map (fun t => c.getD ((t + p) % ns.length) 0)).getD t 0 =
        c.getD ((t + p) % ns.length) 0 := by
    intro t ht
    simp [List.getD_eq_getElem?_getD, ht]
  refine ⟨by simpa using hL, ?_, ?_, ?_⟩
  · rw [htr 0 hL, Nat.zero_add, Nat.mod_eq_of_lt hp, hp0]
  · intro t ht
    simp only [List.length_map, List.length_range] at ht
    rw [htr t (by omega), htr (t+1) ht, stepC _ (Nat.mod_lt _ hL), Nat.mod_add_mod]
    have e : t + p + 1 = t + 1 + p := by omega
    rw [e]
    refine ⟨rfl, ?_⟩
    intro h0
    have h0' : c.getD ((t + 1 + p) % ns.length) 0 = c.getD p 0 := by rw [hp0]; exact h0
    have := hinj _ _ (Nat.mod_lt _ hL) hp h0'
    rw [modL_cases _ _ hL (by omega)] at this
    split at this <;> omega
  · simp only [List.length_map, List.length_range]
    rw [htr _ (by omega), stepC _ (Nat.mod_lt _ hL), Nat.mod_add_mod]
    have e : ns.length - 1 + p + 1 = ns.length + p := by omega
    rw [e, Nat.add_mod_left, Nat.mod_eq_of_lt hp, hp0]

end GV.Pow
