import GrinVerif.Lemmas.PruneListInv
import GrinVerif.Lemmas.StoreArith
/-! `get_shift pos` counts the compacted positions below `pos`; hence `pos − shift` is the index
of `pos` in the compacted hash file (DESIGN A.5, second half). Core Lean only. -/
namespace GV.Store
open GV GV.Pmmr

/-- `q` lies strictly inside the subtree of the (1-based) root `x` -/
def interior (x q : Nat) : Bool := decide (bintreeLeftmost (x - 1) ≤ q) && decide (q < x - 1)

/-- `q` is compacted away: strictly inside the subtree of some pruned root -/
def compactedP (bm : Bitmap) (q : Nat) : Bool := bm.any (interior · q)

/-- the positions of an MMR of `size` nodes that the compacted hash file still holds, in order -/
def layout (bm : Bitmap) (size : Nat) : List Nat := (List.range size).filter fun q => !compactedP bm q

theorem countP_or_disjoint {α : Type} (p q : α → Bool) (l : List α)
    (h : ∀ x ∈ l, ¬ (p x = true ∧ q x = true)) :
    l.countP (fun x => p x || q x) = l.countP p + l.countP q := by
  induction l with
  | nil => simp
  | cons a t ih =>
    have ih' := ih (fun x hx => h x (by simp [hx]))
    have ha := h a (by simp)
    simp only [List.countP_cons, ih']
    cases hp : p a <;> cases hq : q a <;> simp_all <;> omega

theorem countP_range_interval (lo hi n : Nat) (h : lo ≤ hi) :
    (List.range n).countP (fun q => decide (lo ≤ q) && decide (q < hi)) = min hi n - min lo n := by
  induction n with
  | zero => simp
  | succ n ih =>
    rw [List.range_succ, List.countP_append, ih]
    simp only [List.countP_cons, List.countP_nil]
    by_cases h1 : lo ≤ n <;> by_cases h2 : n < hi <;> simp [h1, h2] <;> omega

/-- number of compacted positions below `pos`, as a sum of truncated interval widths -/
theorem count_compacted (bm : Bitmap)
    (hdisj : List.Pairwise (fun a b => a ≤ bintreeLeftmost (b - 1)) bm) (hpos : ∀ x ∈ bm, 1 ≤ x)
    (pos : Nat) :
    (List.range pos).countP (compactedP bm) =
      sumF (fun r => min r pos - min (bintreeLeftmost r) pos) bm := by
  induction bm with
  | nil => simp [compactedP, sumF]
  | cons a t ih =>
    have hd := List.pairwise_cons.1 hdisj
    have ih' := ih hd.2 (fun x hx => hpos x (by simp [hx]))
    have hfun : compactedP (a :: t) = fun q => interior a q || compactedP t q := by
      funext q; simp [compactedP]
    rw [hfun, countP_or_disjoint, ih', sumF]
    · congr 1
      unfold interior
      exact countP_range_interval _ _ _ (PruneList.leftmost_le _)
    · intro q _ ⟨h1, h2⟩
      unfold interior at h1
      unfold compactedP at h2
      rw [List.any_eq_true] at h2
      obtain ⟨b, hb, hb2⟩ := h2
      unfold interior at hb2
      have := hd.1 b hb
      have := hpos a (by simp)
      simp at h1 hb2
      omega

theorem sumF_filter_of_zero (g : Nat → Nat) (c : Nat → Bool) (bm : List Nat)
    (h : ∀ x ∈ bm, c x = false → g (x - 1) = 0) : sumF g bm = sumF g (bm.filter c) := by
  induction bm with
  | nil => rfl
  | cons a t ih =>
    have ih' := ih (fun x hx => h x (by simp [hx]))
    rw [List.filter_cons]
    cases hc : c a
    · simp [sumF, h a (by simp) hc, ih']
    · simp [sumF, ih']

theorem sumF_congr (f g : Nat → Nat) (bm : List Nat) (h : ∀ x ∈ bm, f (x - 1) = g (x - 1)) :
    sumF f bm = sumF g bm := by
  induction bm with
  | nil => rfl
  | cons a t ih =>
    simp only [sumF]
    rw [h a (by simp), ih (fun x hx => h x (by simp [hx]))]

namespace PruneList

/-- **`get_shift pos` = number of compacted positions below `pos`**, for every `pos` that is not
itself compacted away -/
theorem getShift_counts {pl : PruneList} (h : Inv pl) (pos : Nat)
    (hnc : compactedP pl.bitmap pos = false) :
    getShift pl pos = (List.range pos).countP (compactedP pl.bitmap) := by
  rw [getShift_spec h, count_compacted _ h.disj h.pos]
  rw [sumF_filter_of_zero _ (fun x => decide (x ≤ 1 + pos)) pl.bitmap]
  · apply sumF_congr
    intro x hx
    have hx' := (List.mem_filter.1 hx).2
    have hx1 := h.pos x (List.mem_filter.1 hx).1
    simp at hx'
    have hlm := leftmost_le (x - 1)
    show rootShift (x - 1) = _
    unfold rootShift
    rw [← interior_width]
    omega
  · intro x hx hc
    simp at hc
    unfold compactedP at hnc
    rw [List.any_eq_false] at hnc
    have := hnc x hx
    unfold interior at this
    simp at this
    have hlm := leftmost_le (x - 1)
    show min (x - 1) pos - min (bintreeLeftmost (x - 1)) pos = 0
    omega

theorem getShift_le {pl : PruneList} (h : Inv pl) (pos : Nat)
    (hnc : compactedP pl.bitmap pos = false) : getShift pl pos ≤ pos := by
  rw [getShift_counts h pos hnc]
  have := List.countP_le_length (p := compactedP pl.bitmap) (l := List.range pos)
  simpa using this

end PruneList

theorem drop_countP_gt {l : List Nat} (a : Nat) (h : Sorted l) :
    ∀ x ∈ l.drop (l.countP (· ≤ a)), a < x := by
  induction l with
  | nil => intro x hx; simp at hx
  | cons b t ih =>
    have h' := List.pairwise_cons.1 h
    by_cases hb : b ≤ a
    · intro x hx
      rw [List.countP_cons] at hx
      simp only [hb, decide_true, if_true, List.drop_succ_cons] at hx
      exact ih h'.2 x hx
    · have hall : ∀ y ∈ t, a < y := fun y hy => by have := h'.1 y hy; omega
      have hc : (b :: t).countP (· ≤ a) = 0 := by
        rw [List.countP_cons]; simp [hb, countP_eq_zero_of_all_gt hall]
      intro x hx
      rw [hc] at hx
      rcases List.mem_cons.1 hx with rfl | hx
      · omega
      · exact hall x hx

namespace PruneList

/-- **`is_pruned` is right to look only at the next root**: under the invariant, `is_pruned pos`
holds exactly when `pos` is a pruned root or lies strictly inside the subtree of some pruned root -/
theorem isPruned_iff {pl : PruneList} (h : Inv pl) (p : Nat) :
    isPruned pl p = (isPrunedRoot pl p || compactedP pl.bitmap p) := by
  unfold isPruned
  by_cases hr : isPrunedRoot pl p = true
  · simp [hr]
  · have hr' : isPrunedRoot pl p = false := by simpa using hr
    rw [if_neg hr, hr', Bool.false_or]
    have hnot : (1 + p) ∉ pl.bitmap := by
      intro hm; rw [isPrunedRoot, contains_iff.2 hm] at hr'; exact absurd hr' (by simp)
    have hsplit : pl.bitmap = pl.bitmap.take (Bm.rank pl.bitmap (1 + p)) ++
        pl.bitmap.drop (Bm.rank pl.bitmap (1 + p)) := (List.take_append_drop _ _).symm
    have htake : ∀ x ∈ pl.bitmap.take (Bm.rank pl.bitmap (1 + p)), x ≤ 1 + p := by
      intro x hx
      unfold Bm.rank at hx
      rw [← filter_le_eq_take _ h.sorted] at hx
      simpa using (List.mem_filter.1 hx).2
    have hdrop : ∀ x ∈ pl.bitmap.drop (Bm.rank pl.bitmap (1 + p)), 1 + p < x :=
      drop_countP_gt (1 + p) h.sorted
    have hany1 : (pl.bitmap.take (Bm.rank pl.bitmap (1 + p))).any (interior · p) = false := by
      rw [List.any_eq_false]
      intro x hx
      have h1 := htake x hx
      have h2 : x ≠ 1 + p := fun e => hnot (e ▸ List.mem_of_mem_take hx)
      unfold interior; simp; omega
    have hsel : Bm.select pl.bitmap (Bm.rank pl.bitmap (1 + p)) =
        (pl.bitmap.drop (Bm.rank pl.bitmap (1 + p))).head? := by
      unfold Bm.select; rw [List.head?_drop]
    have hcp : compactedP pl.bitmap p =
        (pl.bitmap.drop (Bm.rank pl.bitmap (1 + p))).any (interior · p) := by
      unfold compactedP
      conv => lhs; rw [hsplit]
      rw [List.any_append, hany1, Bool.false_or]
    rw [hsel, hcp]
    have hdisj : List.Pairwise (fun a b => a ≤ bintreeLeftmost (b - 1))
        (pl.bitmap.drop (Bm.rank pl.bitmap (1 + p))) :=
      List.Pairwise.sublist (List.drop_sublist _ _) h.disj
    generalize pl.bitmap.drop (Bm.rank pl.bitmap (1 + p)) = d at hdrop hdisj ⊢
    cases d with
    | nil => simp
    | cons r rest =>
      have hr1 := hdrop r (by simp)
      have hd := List.pairwise_cons.1 hdisj
      have hrest : rest.any (interior · p) = false := by
        rw [List.any_eq_false]
        intro y hy
        have := hd.1 y hy
        unfold interior; simp; omega
      simp only [List.head?_cons, List.any_cons, hrest, Bool.or_false]
      unfold interior bintreeRange bintreeLeftmost
      have e1 : decide (p < r - 1 + 1) = true := by simp; omega
      have e2 : decide (p < r - 1) = true := by simp; omega
      simp only [e1, e2, Bool.and_true]

/-- a pruned root is never strictly inside another pruned subtree -/
theorem root_not_compacted {pl : PruneList} (h : Inv pl) (x : Nat) (hx : x ∈ pl.bitmap) :
    compactedP pl.bitmap (x - 1) = false := by
  unfold compactedP
  rw [List.any_eq_false]
  intro y hy
  have hx1 := h.pos x hx
  have hy1 := h.pos y hy
  unfold interior
  by_cases hxy : x < y
  · -- x sits before y in the list, so the subtree of y starts right of x
    obtain ⟨i, hi, rfl⟩ := List.mem_iff_getElem.1 hx
    obtain ⟨j, hj, rfl⟩ := List.mem_iff_getElem.1 hy
    have hij : i < j := by
      by_cases hij : i < j
      · exact hij
      · exfalso
        rcases Nat.lt_or_ge j i with hji | hji
        · have := List.pairwise_iff_getElem.1 h.sorted j i hj hi hji; omega
        · have : i = j := by omega
          subst this; omega
    have := List.pairwise_iff_getElem.1 h.disj i j hi hj hij
    simp; omega
  · simp; omega

/-- `is_compacted` for a position outside the leaf set: not a root, strictly inside a pruned subtree -/
theorem isCompacted_iff {H : Type} {b : Backend H} (h : Inv b.pruneList) (p : Nat)
    (hl : b.leafSet.includes p = false) :
    b.isCompacted p = (!b.pruneList.isPrunedRoot p && compactedP b.pruneList.bitmap p) := by
  unfold Backend.isCompacted Backend.isPruned Backend.isPrunedRoot
  rw [hl, isPruned_iff h]
  cases b.pruneList.isPrunedRoot p <;> simp

end PruneList

theorem filter_range_succ (p : Nat → Bool) (n : Nat) :
    (List.range (n + 1)).filter p = (List.range n).filter p ++ (if p n then [n] else []) := by
  rw [List.range_succ, List.filter_append]
  cases h : p n <;> simp [h]

/-- the `k`-th kept element of `range n`, where `k` = number of kept elements below `pos`, is `pos` -/
theorem filter_range_getElem (p : Nat → Bool) (pos : Nat) (hp : p pos = true) :
    ∀ n, pos < n → ((List.range n).filter p)[(List.range pos).countP p]? = some pos := by
  intro n hn
  induction n with
  | zero => omega
  | succ n ih =>
    rw [filter_range_succ]
    by_cases hpn : pos = n
    · subst hpn
      rw [List.getElem?_append_right (by rw [List.countP_eq_length_filter]; exact Nat.le_refl _)]
      simp [hp, List.countP_eq_length_filter]
    · have := ih (by omega)
      have hlt : (List.range pos).countP p < ((List.range n).filter p).length := by
        rcases List.getElem?_eq_some_iff.1 this with ⟨hl, _⟩; exact hl
      rw [List.getElem?_append_left hlt]; exact this

theorem countP_not_add (p : Nat → Bool) (l : List Nat) :
    l.countP (fun q => !p q) + l.countP p = l.length := by
  induction l with
  | nil => simp
  | cons a t ih => simp only [List.countP_cons, List.length_cons]; cases p a <;> simp <;> omega

/-- **`pos − get_shift pos` indexes the compacted file**: in the list of positions that survive
compaction, position `pos` sits at index `pos − get_shift pos` -/
theorem layout_index {pl : PruneList} (h : PruneList.Inv pl) (size pos : Nat) (hpos : pos < size)
    (hnc : compactedP pl.bitmap pos = false) :
    (layout pl.bitmap size)[pos - pl.getShift pos]? = some pos := by
  have hidx : pos - pl.getShift pos = (List.range pos).countP (fun q => !compactedP pl.bitmap q) := by
    have := countP_not_add (compactedP pl.bitmap) (List.range pos)
    rw [PruneList.getShift_counts h pos hnc]
    simp at this; omega
  rw [hidx]
  exact filter_range_getElem _ pos (by simp [hnc]) size hpos

end GV.Store
