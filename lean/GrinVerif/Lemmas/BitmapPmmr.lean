import GrinVerif.Props.C07
import GrinVerif.Model.Bitmap
/-! PMMR-level lemmas used by C15: pushing onto a Vec backend of a valid size only appends,
the size after `n` pushes is `mmr n`, hence truncating the hash vector to `mmr k` is the same as
never having pushed leaves `k..` (this is what `rewind_prior` relies on). Core Lean only. -/
namespace GV.Pmmr
open GV

theorem two_pow_trailingOnes_le (n : Nat) : 2 ^ trailingOnes n ≤ n + 1 := by
  induction n using Nat.strongRecOn with
  | _ n ih =>
    cases n with
    | zero => simp [trailingOnes]
    | succ m =>
      rw [trailingOnes]
      split
      · have := ih ((m+1)/2) (by omega)
        have hp : 2 ^ (1 + trailingOnes ((m+1)/2)) = 2 * 2 ^ trailingOnes ((m+1)/2) := by
          rw [Nat.add_comm, Nat.pow_succ]; omega
        omega
      · simp

theorem trailingOnes_le_of_lt (n k : Nat) (h : n < 2 ^ k) : trailingOnes n ≤ k := by
  have h1 := two_pow_trailingOnes_le n
  have h2 : 2 ^ trailingOnes n ≤ 2 ^ k := by omega
  exact (Nat.pow_le_pow_iff_right (by omega)).1 h2

theorem lt_two_pow_self' (j : Nat) : j + 1 < 2 * 2 ^ j := by
  induction j with
  | zero => simp
  | succ j ih => rw [Nat.pow_succ]; omega

theorem trailingOnes_unfold (m : Nat) :
    trailingOnes m = if m % 2 = 1 then 1 + trailingOnes (m / 2) else 0 := by
  cases m with
  | zero => simp [trailingOnes]
  | succ k => rw [trailingOnes]

variable {α H : Type}

/-- the `while (peak_map & peak) != 0` loop of `push`: with `n` leaves already in a backend of
`len = mmr n > 0` hashes it appends exactly `trailingOnes (n / 2^j)` parents and never fails. -/
theorem pushLoop_spec (hf : HashFn α H) (hashes : List H) (n : Nat) (hpos : 0 < n → 0 < hashes.length) :
    ∀ (fuel j : Nat) (cur : H) (acc : List H), trailingOnes (n / 2 ^ j) ≤ fuel →
      ∃ new, pushLoop hf hashes n fuel j (hashes.length + j) cur acc = some (acc ++ new)
        ∧ new.length = trailingOnes (n / 2 ^ j) := by
  intro fuel
  induction fuel with
  | zero =>
    intro j cur acc hf0
    exact ⟨[], by simp [pushLoop], by simp; omega⟩
  | succ fuel ih =>
    intro j cur acc hfu
    rw [pushLoop]
    have hun := trailingOnes_unfold (n / 2 ^ j)
    by_cases hb : bitSet n j = true
    · rw [if_pos hb]
      have hodd : n / 2 ^ j % 2 = 1 := by simpa [bitSet] using hb
      rw [if_pos hodd] at hun
      have hnpos : 0 < n := by
        rcases Nat.eq_zero_or_pos n with h | h
        · subst h; simp at hodd
        · exact h
      have hlen := hpos hnpos
      have hj := lt_two_pow_self' j
      have hidx : hashes.length + j + 1 - 2 * 2 ^ j < hashes.length := by omega
      obtain ⟨l, hl⟩ : ∃ l, hashes[hashes.length + j + 1 - 2 * 2 ^ j]? = some l :=
        ⟨_, List.getElem?_eq_getElem hidx⟩
      rw [hl]
      have hdiv : n / 2 ^ (j + 1) = n / 2 ^ j / 2 := by
        rw [Nat.pow_succ, Nat.div_div_eq_div_mul]
      simp only []
      obtain ⟨new, h1, h2⟩ := ih (j + 1)
        (hf.node (hashes.length + j + 1) l cur)
        (acc ++ [hf.node (hashes.length + j + 1) l cur])
        (by rw [hdiv]; omega)
      refine ⟨hf.node (hashes.length + j + 1) l cur :: new, ?_, ?_⟩
      · have e : hashes.length + (j + 1) = hashes.length + j + 1 := by omega
        rw [e] at h1
        rw [h1]; simp
      · rw [hun, List.length_cons, h2, hdiv]; omega
    · rw [if_neg hb]
      have hodd : ¬ n / 2 ^ j % 2 = 1 := by simpa [bitSet] using hb
      rw [if_neg hodd] at hun
      exact ⟨[], by simp, by simp [hun]⟩

/-- `push` onto a backend holding exactly `n < 2^64` leaves succeeds, only appends, and leaves a
backend holding `n + 1` leaves. -/
theorem push_spec (hf : HashFn α H) (hashes : List H) (n : Nat) (e : α)
    (hlen : hashes.length = mmr n) (hn : n < 2 ^ 64) :
    ∃ new, push hf hashes e = some (hashes ++ new) ∧ (hashes ++ new).length = mmr (n + 1) := by
  have hc := GV.Props.C07.peakMapHeight_coord n 0 (Nat.zero_le _)
  simp only [Nat.add_zero] at hc
  simp only [push, hlen, hc, ne_eq, not_true_eq_false, if_false]
  have hpos : 0 < n → 0 < hashes.length := by
    intro h; have := le_mmr n; omega
  have hfuel : trailingOnes (n / 2 ^ 0) ≤ 65 := by
    have := trailingOnes_le_of_lt n 64 hn; simpa using (by omega : trailingOnes n ≤ 65)
  obtain ⟨new, h1, h2⟩ := pushLoop_spec hf hashes n hpos 65 0 (hf.leaf (mmr n) e) [hf.leaf (mmr n) e] hfuel
  have e0 : hashes.length + 0 = mmr n := by omega
  rw [e0] at h1
  rw [h1]
  refine ⟨hf.leaf (mmr n) e :: new, by simp, ?_⟩
  simp only [List.length_append, List.length_cons, h2, hlen, Nat.pow_zero, Nat.div_one]
  rw [mmr_succ]; omega

/-- pushing a list of leaves onto a backend of `n` leaves: succeeds, extends, ends at `n + |d|` leaves -/
theorem pushAll_spec (hf : HashFn α H) : ∀ (d : List α) (hashes : List H) (n : Nat),
    hashes.length = mmr n → n + d.length ≤ 2 ^ 64 →
    ∃ hs, pushAll hf hashes d = some hs ∧ hs.length = mmr (n + d.length) ∧ hashes <+: hs := by
  intro d
  induction d with
  | nil => intro hashes n hlen _; exact ⟨hashes, rfl, by simpa using hlen, List.prefix_refl _⟩
  | cons e es ih =>
    intro hashes n hlen hb
    simp only [List.length_cons] at hb
    obtain ⟨new, h1, h2⟩ := push_spec hf hashes n e hlen (by omega)
    obtain ⟨hs, h3, h4, h5⟩ := ih (hashes ++ new) (n + 1) h2 (by omega)
    refine ⟨hs, ?_, ?_, ?_⟩
    · simp only [pushAll, h1, h3]
    · rw [h4]; congr 1; simp only [List.length_cons]; omega
    · exact List.IsPrefix.trans (List.prefix_append _ _) h5

theorem pushAll_append (hf : HashFn α H) : ∀ (a b : List α) (hashes : List H),
    pushAll hf hashes (a ++ b) = match pushAll hf hashes a with
      | none => none
      | some hs => pushAll hf hs b := by
  intro a
  induction a with
  | nil => intro b hashes; simp [pushAll]
  | cons e es ih =>
    intro b hashes
    simp only [List.cons_append, pushAll]
    cases push hf hashes e with
    | none => rfl
    | some hs' => exact ih b hs'

theorem mmr_mono {a b : Nat} (h : a ≤ b) : mmr a ≤ mmr b := by
  induction h with
  | refl => exact Nat.le_refl _
  | step _ ih => rw [mmr_succ]; omega

/-- truncating the hashes of `d` to `mmr k` gives the hashes of the first `k` leaves of `d` -/
theorem pushAll_take (hf : HashFn α H) (d : List α) (hs : List H) (k : Nat)
    (hb : d.length ≤ 2 ^ 64) (h : pushAll hf [] d = some hs) :
    pushAll hf [] (d.take k) = some (hs.take (mmr k)) := by
  have hm0 : ([] : List H).length = mmr 0 := by simp [mmr, popcount]
  by_cases hk : k ≤ d.length
  · obtain ⟨hk', h1, h2, _⟩ := pushAll_spec hf (d.take k) [] 0 hm0 (by simp; omega)
    have happ := pushAll_append hf (d.take k) (d.drop k) []
    rw [List.take_append_drop, h, h1] at happ
    obtain ⟨hs', h3, _, h5⟩ := pushAll_spec hf (d.drop k) hk' k
      (by rw [h2]; simp [Nat.min_eq_left hk]) (by simp; omega)
    simp only [h3] at happ
    have : hs = hs' := by injection happ
    subst this
    rw [h1]
    have := List.prefix_iff_eq_take.1 h5
    rw [h2] at this
    simp only [List.length_take, Nat.min_eq_left hk, Nat.zero_add] at this
    rw [← this]
  · have hk' : d.length ≤ k := by omega
    obtain ⟨hs', h1, h2, _⟩ := pushAll_spec hf d [] 0 hm0 (by omega)
    rw [h] at h1
    have : hs = hs' := by injection h1
    subst this
    rw [List.take_of_length_le hk', h]
    have : hs.length ≤ mmr k := by rw [h2]; simpa using mmr_mono hk'
    rw [List.take_of_length_le this]

end GV.Pmmr
