import GrinVerif.Lemmas.StoreOps
/-! Histories of store operations against the unpruned reference (C08 `history_refinement`):
the operations, the reference with its protocol bookkeeping, the usage protocol as a decidable
predicate on operation lists, and the invariant `HInv` preserved by every operation the protocol
allows.  Core Lean only. -/
namespace GV.Store
open GV GV.Pmmr GV.Pmmr.Co

/-- the operations of a prunable MMR store -/
inductive HOp
  /-- `PMMR::push` of one leaf -/
  | push (e : Bytes)
  /-- `PMMR::prune(pos0)` (spend a leaf) -/
  | prune (pos0 : Nat)
  /-- `PMMR::rewind` to the boundary of `N'` leaves, re-adding the leaves `rm` (1-based) -/
  | rewind (N' : Nat) (rm : Bitmap)
  /-- `Backend::sync` (commit the unit of work) -/
  | sync
  /-- `Backend::discard` (drop the unit of work) -/
  | discard
  /-- `check_compact` with cutoff at the boundary of `K` leaves and `rewind_rm_pos = rm` -/
  | compact (K : Nat) (rm : Bitmap)
  /-- drop the backend and open it again from its files -/
  | reopen
deriving Repr, DecidableEq

/-- what the unpruned reference holds: the leaf history and the unspent leaf positions (0-based) -/
structure RefView where
  es : List Bytes := []
  U : List Nat := []
deriving Repr, DecidableEq

/-- the reference with the bookkeeping the usage protocol talks about: the committed view, whether
a unit of work is open (`dirty`), whether a leaf has been appended in it (`app`), the leaf
positions compacted away so far (`G`) and the leaf count of the largest compaction cutoff so far
(`C`) -/
structure RefSt where
  cur : RefView := {}
  saved : RefView := {}
  dirty : Bool := false
  /-- a leaf was pushed since the last `sync` / `discard` -/
  app : Bool := false
  G : List Nat := []
  C : Nat := 0
deriving Repr, DecidableEq

namespace RefSt

/-- the reference semantics of the operations -/
def step (r : RefSt) : HOp → RefSt
  | .push e => { r with cur := { es := r.cur.es ++ [e], U := r.cur.U ++ [mmr r.cur.es.length] }, dirty := true,
                        app := true }
  | .prune p => { r with cur := { r.cur with U := r.cur.U.filter (· != p) }, dirty := true }
  | .rewind N' rm =>
    { r with cur := { es := r.cur.es.take N', U := r.cur.U.filter (· < mmr N') ++ rm.map (· - 1) },
             dirty := true }
  | .sync => { r with saved := r.cur, dirty := false, app := false }
  | .discard => { r with cur := r.saved, dirty := false, app := false }
  | .compact K rm =>
    { r with G := r.G ++ (List.range (mmr K)).filter (fun q =>
               isLeaf q && !r.cur.U.elem q && !rm.elem (q + 1) && !r.G.elem q),
             C := max r.C K }
  | .reopen => r

/-- **the usage protocol**, one operation: sizes stay below `2^64 − 64`; `rewind` only before the
first append of a unit of work (so several rewinds in a row – the chain rewinds block by block –
and rewinds after removals are allowed), to a boundary not below the largest compaction cutoff
and not above the current size, re-adding only leaf positions of the smaller MMR that no
compaction has removed; compaction and reopen only from a synced state, the cutoff a boundary
inside the MMR -/
def ok (r : RefSt) : HOp → Prop
  | .push _ => mmr (r.cur.es.length + 1) + 64 < 2 ^ 64
  | .prune _ => True
  | .rewind N' rm => r.app = false ∧ r.C ≤ N' ∧ N' ≤ r.cur.es.length ∧
      ∀ x ∈ rm, 1 ≤ x ∧ x ≤ mmr N' ∧ isLeaf (x - 1) = true ∧ (x - 1) ∉ r.G
  | .sync => True
  | .discard => True
  | .compact K _ => r.dirty = false ∧ K ≤ r.cur.es.length
  | .reopen => r.dirty = false

instance (r : RefSt) (op : HOp) : Decidable (r.ok op) := by
  cases op <;> unfold ok <;> exact inferInstance

/-- the usage protocol on an operation list -/
def Proto : RefSt → List HOp → Prop
  | _, [] => True
  | r, op :: ops => r.ok op ∧ Proto (r.step op) ops

instance : ∀ (r : RefSt) (ops : List HOp), Decidable (Proto r ops)
  | _, [] => isTrue trivial
  | r, op :: ops =>
    have := instDecidableProto (r.step op) ops
    by unfold Proto; exact inferInstance

end RefSt

/-- leaf `i` of a leaf history -/
def leafFn (es : List Bytes) : Nat → Bytes := fun i => es.getD i []

/-- the store side of the operations (`el` is only used by variable-size data files) -/
def bstep {H : Type} (el : Bytes → Option Nat) (hf : HashFn Bytes H) (p : PM H) : HOp → PM H
  | .push e => (PM.push hf p e).getD p
  | .prune pos => match PM.prune p pos with
    | some (p', _) => p'
    | none => p
  | .rewind N' rm => PM.rewind p (mmr N') rm
  | .sync => { p with b := p.b.sync }
  | .discard => { b := p.b.discard, size := p.b.discard.unprunedSize }
  | .compact K rm => { p with b := p.b.checkCompact el (mmr K) rm }
  | .reopen => { b := p.b.reopen el, size := (p.b.reopen el).unprunedSize }

/-! ### small facts -/

namespace Backend
variable {H : Type}

/-- `discard` inside a unit of work restores the synced backend the unit started from -/
theorem discard_of_inUnit {b0 b : Backend H} {df0 : AOF Bytes} (hc : CleanFixed b0 df0)
    (h : InUnit b0 df0 b) : b.discard = b0 := by
  obtain ⟨hpl, hpf, hh, ⟨df', hdf, hd⟩, hl⟩ := h
  have e1 := AOF.discard_of_inUnit hh
  have e2 := AOF.discard_of_inUnit hd
  have e3 := LeafSet.discard_of_clean_bak hc.leaf hl
  rw [AOF.ofDisk_of_clean hc.hash] at e1
  rw [AOF.ofDisk_of_clean hc.dataClean] at e2
  have hdata := hc.data
  cases b0; cases b
  simp only [discard, DFile.discard] at *
  subst hpl hpf
  simp_all

theorem inUnit_refl {b : Backend H} {df : AOF Bytes} (hc : CleanFixed b df) : InUnit b df b :=
  ⟨rfl, rfl, AOF.inUnit_of_clean hc.hash, ⟨df, hc.data, AOF.inUnit_of_clean hc.dataClean⟩, rfl⟩

end Backend

/-- reopening a synced backend from its files gives the same backend -/
theorem Synced.reopen {H : Type} (el : Bytes → Option Nat) {b : Backend H} {N : Nat} {ref : Nat → H}
    {dref : Nat → Bytes} {df : AOF Bytes} (h : Synced b N ref dref df) : b.reopen el = b := by
  have h1 := AOF.ofDisk_of_clean h.hashClean
  have h2 := AOF.ofDisk_of_clean h.dataClean
  have h3 := PruneList.openBm_of_inv h.inv
  have h4 : b.leafSet.bitmap = b.leafSet.bak := h.lsClean
  have h5 := h.pruneFile
  have h6 := h.data
  cases b with
  | mk hashFile dataFile leafSet pruneList pruneFile =>
    cases leafSet
    simp only at h1 h2 h3 h4 h5 h6
    subst h6
    simp only [Backend.reopen, DFile.reopen, LeafSet.reopen, h1, h2, h5, h3, h4]

theorem roundUp_mmr (N : Nat) : roundUpToLeafPos (mmr N) = mmr N := by
  unfold roundUpToLeafPos insertionToPmmrIndex
  simp [peakMapHeight_leaf]

theorem leafFn_append (es : List Bytes) (e : Bytes) :
    leafFn (es ++ [e]) es.length = e ∧ ∀ i, i < es.length → leafFn es i = leafFn (es ++ [e]) i := by
  unfold leafFn
  refine ⟨by simp [List.getD], ?_⟩
  intro i hi
  simp [List.getD, List.getElem?_append_left hi]

theorem leafFn_take (es : List Bytes) (k : Nat) :
    ∀ i, i < k → leafFn es i = leafFn (es.take k) i := by
  intro i hi
  unfold leafFn
  simp [List.getD, List.getElem?_take_of_lt hi]

/-- membership in `removed_pre_cutoff`, both directions -/
theorem LeafSet.mem_removedPreCutoff_iff {ls : LeafSet} {cutoff : Nat} {rm : Bitmap} {pl : PruneList}
    (hs : Sorted ls.bitmap) {x : Nat} :
    x ∈ ls.removedPreCutoff cutoff rm pl ↔
      1 ≤ x ∧ x ≤ cutoff ∧ x ∉ ls.bitmap ∧ x ∉ rm ∧ isLeaf (x - 1) = true ∧ pl.isPruned (x - 1) = false := by
  constructor
  · exact LeafSet.mem_removedPreCutoff
  · rintro ⟨h1, h2, h3, h4, h5, h6⟩
    unfold LeafSet.removedPreCutoff
    rw [LeafSet.mem_and, LeafSet.mem_flip]
    constructor
    · right
      refine ⟨h1, by omega, ?_⟩
      rw [mem_or, mem_removeRange]
      rintro (⟨h, _⟩ | h)
      · exact h3 h
      · exact h4 h
    · unfold LeafSet.unprunedPreCutoff
      rw [List.mem_filter]
      refine ⟨List.mem_range'_1.2 ⟨h1, by omega⟩, ?_⟩
      simp [h5, h6]

/-! ### the invariant of a history -/

/-- the store `p` agrees with the reference view `v`: in-unit reference invariant for the leaf
history, same size, same unspent set; the pruned leaves are the ghost set `G`; all pruned roots
lie below the boundary of `C` leaves -/
structure Agree {H : Type} (hf : HashFn Bytes H) (p : PM H) (v : RefView) (G : List Nat) (C : Nat)
    (df : AOF Bytes) : Prop where
  live : Live p.b v.es.length (refHash hf (leafFn v.es)) (refData (leafFn v.es)) df
  size : p.size = mmr v.es.length
  unspent : ∀ q, (q + 1) ∈ p.b.leafSet.bitmap ↔ q ∈ v.U
  pruned : ∀ l, height l = 0 → (PrunedBy p.b.pruneList.bitmap l ↔ l ∈ G)
  rootsC : ∀ x ∈ p.b.pruneList.bitmap, x ≤ mmr C
  cle : C ≤ v.es.length

/-- **the invariant of a history**: the store agrees with the current reference view; the backend
the current unit of work started from (`b0`) is synced and agrees with the committed view, and
the current backend is inside that unit; outside a unit both coincide -/
structure HInv {H : Type} (hf : HashFn Bytes H) (p : PM H) (r : RefSt) : Prop where
  cur : ∃ df, Agree hf p r.cur r.G r.C df
  saved : ∃ b0 df0, Synced b0 r.saved.es.length (refHash hf (leafFn r.saved.es))
      (refData (leafFn r.saved.es)) df0 ∧
    Agree hf { b := b0, size := mmr r.saved.es.length } r.saved r.G r.C df0 ∧
    Backend.InUnit b0 df0 p.b ∧ (r.dirty = false → p.b = b0 ∧ r.cur = r.saved)
  /-- as long as the unit has appended nothing, both buffers are empty -/
  nobuf : r.app = false → p.b.hashFile.buffer = [] ∧ ∀ df, p.b.dataFile = .fixed df → df.buffer = []

/-- a synced backend has empty buffers -/
theorem Synced.nobuf {H : Type} {b : Backend H} {N : Nat} {ref : Nat → H} {dref : Nat → Bytes}
    {df : AOF Bytes} (h : Synced b N ref dref df) :
    b.hashFile.buffer = [] ∧ ∀ df', b.dataFile = .fixed df' → df'.buffer = [] := by
  refine ⟨h.hashClean.1, ?_⟩
  intro df' hd
  rw [h.data] at hd
  injection hd with e
  rw [← e]; exact h.dataClean.1

theorem agree_of_synced {H : Type} {hf : HashFn Bytes H} {b : Backend H} {v : RefView} {G : List Nat}
    {C : Nat} {df : AOF Bytes}
    (h : Synced b v.es.length (refHash hf (leafFn v.es)) (refData (leafFn v.es)) df)
    (hu : ∀ q, (q + 1) ∈ b.leafSet.bitmap ↔ q ∈ v.U)
    (hp : ∀ l, height l = 0 → (PrunedBy b.pruneList.bitmap l ↔ l ∈ G))
    (hr : ∀ x ∈ b.pruneList.bitmap, x ≤ mmr C) (hc : C ≤ v.es.length) :
    Agree hf { b := b, size := mmr v.es.length } v G C df :=
  ⟨h.live, rfl, hu, hp, hr, hc⟩

/-- a synced store that agrees with the reference is a valid history state outside a unit -/
theorem hinv_of_synced {H : Type} {hf : HashFn Bytes H} {b : Backend H} {v : RefView} {G : List Nat}
    {C : Nat} {df : AOF Bytes} {s : RefView}
    (h : Synced b v.es.length (refHash hf (leafFn v.es)) (refData (leafFn v.es)) df)
    (ha : Agree hf { b := b, size := mmr v.es.length } v G C df) :
    HInv hf { b := b, size := mmr v.es.length } { cur := v, saved := v, dirty := false, G := G, C := C } :=
  ⟨⟨df, ha⟩, ⟨b, df, h, ha, Backend.inUnit_refl h.cleanFixed, fun _ => ⟨rfl, rfl⟩⟩, fun _ => h.nobuf⟩

theorem pm_eta {H : Type} (p : PM H) : p = { b := p.b, size := p.size } := by cases p; rfl

/-- **every operation the protocol allows preserves the invariant** -/
theorem hinv_step {H : Type} (el : Bytes → Option Nat) (hf : HashFn Bytes H) (p : PM H) (r : RefSt)
    (h : HInv hf p r) (op : HOp) (hok : r.ok op) : HInv hf (bstep el hf p op) (r.step op) := by
  obtain ⟨⟨df, hcur⟩, ⟨b0, df0, hs0, ha0, hunit, hclean⟩, hnb⟩ := h
  cases op with
  | push e =>
    have hb : mmr (r.cur.es.length + 1) + 64 < 2 ^ 64 := hok
    obtain ⟨hfN, hfold⟩ := leafFn_append r.cur.es e
    have hl := hcur.live.congr hfold
    obtain ⟨b', hp1, hp2, hp3, hp4, hp5⟩ := hl.push hb
    rw [hfN] at hp1 hp2 hp3
    have hsz : p.size = mmr r.cur.es.length := hcur.size
    have hstep : bstep el hf p (.push e) = { b := b', size := mmr (r.cur.es.length + 1) } := by
      cases p with
      | mk pb psz =>
        simp only at hsz hp1
        subst hsz
        simp only [bstep, hp1, Option.getD_some]
    rw [hstep]
    refine ⟨⟨df.append e, ⟨?_, ?_, ?_, ?_, ?_, ?_⟩⟩, ⟨b0, df0, hs0, ha0, ?_, ?_⟩,
      fun hd => absurd hd (by simp [RefSt.step])⟩
    · show Live b' (r.cur.es ++ [e]).length _ _ _
      rw [List.length_append, List.length_singleton]; exact hp3
    · show mmr (r.cur.es.length + 1) = mmr (r.cur.es ++ [e]).length
      rw [List.length_append, List.length_singleton]
    · intro q
      show (q + 1) ∈ b'.leafSet.bitmap ↔ q ∈ r.cur.U ++ [mmr r.cur.es.length]
      rw [hp4, mem_add, hcur.unspent q, List.mem_append, List.mem_singleton]
      constructor
      · rintro (h | h)
        · exact Or.inr (by omega)
        · exact Or.inl h
      · rintro (h | h)
        · exact Or.inr h
        · exact Or.inl (by omega)
    · show ∀ l, height l = 0 → (PrunedBy b'.pruneList.bitmap l ↔ l ∈ r.G)
      rw [hp5]; exact hcur.pruned
    · show ∀ x ∈ b'.pruneList.bitmap, x ≤ mmr r.C
      rw [hp5]; exact hcur.rootsC
    · show r.C ≤ (r.cur.es ++ [e]).length
      rw [List.length_append]; have := hcur.cle; omega
    · have := Backend.inUnit_apply hunit (.append e (emitted hf (leafFn (r.cur.es ++ [e])) r.cur.es.length)) trivial
      simp only [Backend.Op.apply, hp2, Option.getD_some] at this
      exact this
    · intro hd; exact absurd hd (by simp [RefSt.step])
  | prune pos =>
    -- the three outcomes of `PMMR::prune`
    have hkey : ∃ b', bstep el hf p (.prune pos) = { b := b', size := p.size } ∧
        Live b' r.cur.es.length (refHash hf (leafFn r.cur.es)) (refData (leafFn r.cur.es)) df ∧
        (∀ q, (q + 1) ∈ b'.leafSet.bitmap ↔ (q ∈ r.cur.U ∧ q ≠ pos)) ∧
        b'.pruneList = p.b.pruneList ∧ Backend.InUnit b0 df0 b' ∧
        b'.hashFile = p.b.hashFile ∧ b'.dataFile = p.b.dataFile := by
      unfold bstep PM.prune
      by_cases hleaf : isLeaf pos = true
      · simp only [hleaf, Bool.not_true, Bool.false_eq_true, if_false]
        by_cases hin : (pos + 1) ∈ p.b.leafSet.bitmap
        · rw [(hcur.live.read_unspent el pos hin).1]
          refine ⟨p.b.remove pos, rfl, hcur.live.remove pos, ?_, rfl,
            Backend.inUnit_apply hunit (.remove pos) trivial, rfl, rfl⟩
          intro q
          show (q + 1) ∈ Bm.remove p.b.leafSet.bitmap (1 + pos) ↔ _
          rw [mem_remove, hcur.unspent q]
          constructor
          · rintro ⟨h1, h2⟩; exact ⟨h1, by omega⟩
          · rintro ⟨h1, h2⟩; exact ⟨h1, by omega⟩
        · have hnone : p.b.getHash pos = none := by
            unfold Backend.getHash
            have : p.b.leafSet.includes pos = false := by
              cases hc : p.b.leafSet.includes pos with
              | false => rfl
              | true => exact absurd (Synced.includes_iff.1 hc) hin
            simp [hleaf, this]
          rw [hnone]
          refine ⟨p.b, pm_eta p, hcur.live, ?_, rfl, hunit, rfl, rfl⟩
          intro q
          rw [hcur.unspent q]
          constructor
          · intro h; refine ⟨h, ?_⟩
            rintro rfl; exact hin ((hcur.unspent _).2 h)
          · exact fun h => h.1
      · have hleaf' : isLeaf pos = false := by simpa using hleaf
        simp only [hleaf', Bool.not_false, if_true]
        refine ⟨p.b, pm_eta p, hcur.live, ?_, rfl, hunit, rfl, rfl⟩
        intro q
        rw [hcur.unspent q]
        constructor
        · intro h; refine ⟨h, ?_⟩
          rintro rfl
          have := (hcur.live.lsLeaf _ ((hcur.unspent _).2 h)).2.2
          rw [Nat.add_sub_cancel] at this
          rw [(isLeaf_iff _).2 this] at hleaf'; exact absurd hleaf' (by simp)
        · exact fun h => h.1
    obtain ⟨b', hb1, hb2, hb3, hb4, hb5, hb6, hb7⟩ := hkey
    rw [hb1]
    refine ⟨⟨df, ⟨hb2, hcur.size, ?_, ?_, ?_, hcur.cle⟩⟩, ⟨b0, df0, hs0, ha0, hb5, ?_⟩, ?_⟩
    rotate_right
    · intro ha
      show b'.hashFile.buffer = [] ∧ ∀ df, b'.dataFile = .fixed df → df.buffer = []
      rw [hb6, hb7]; exact hnb ha
    · intro q
      show _ ↔ q ∈ r.cur.U.filter (· != pos)
      rw [hb3 q, List.mem_filter]; simp
    · show ∀ l, height l = 0 → (PrunedBy b'.pruneList.bitmap l ↔ _)
      rw [hb4]; exact hcur.pruned
    · show ∀ x ∈ b'.pruneList.bitmap, _
      rw [hb4]; exact hcur.rootsC
    · intro hd; exact absurd hd (by simp [RefSt.step])
  | rewind N' rm =>
    obtain ⟨happ, hC, hN, hrm⟩ := hok
    obtain ⟨hb1, hb2⟩ := hnb happ
    have hb2' := hb2 df hcur.live.data
    have hroots : ∀ x ∈ p.b.pruneList.bitmap, x ≤ mmr N' :=
      fun x hx => Nat.le_trans (hcur.rootsC x hx) (mmr_le_mmr hC)
    have hrm' : ∀ x ∈ rm, 1 ≤ x ∧ x ≤ mmr N' ∧ height (x - 1) = 0 ∧
        ¬ PrunedBy p.b.pruneList.bitmap (x - 1) := by
      intro x hx
      obtain ⟨a1, a2, a3, a4⟩ := hrm x hx
      have hl := (isLeaf_iff _).1 a3
      exact ⟨a1, a2, hl, fun hp => a4 ((hcur.pruned _ hl).1 hp)⟩
    obtain ⟨df', hl, hbuf1, hbuf2, hw, hmem⟩ := hcur.live.rewind hb1 hb2' hN hroots rm hrm'
    have hstep : bstep el hf p (.rewind N' rm) = { b := p.b.rewind (mmr N') rm, size := mmr N' } := by
      show PM.rewind p (mmr N') rm = _
      simp only [PM.rewind, roundUp_mmr]
    have hlen : (r.cur.es.take N').length = N' := by rw [List.length_take]; omega
    -- the file positions lie inside the files the unit started from
    have hw0 : (Backend.Op.rewind (mmr N') rm).Within b0 df0 := by
      obtain ⟨dfx, hdx, hdu⟩ := hunit.data
      have hdd : dfx = df := by
        rw [hcur.live.data] at hdx
        injection hdx with e; exact e.symm
      subst hdd
      show _ ≤ _ ∧ _ ≤ _
      rw [← hunit.pl, ← hunit.hash.1, ← hdu.1]
      exact hw
    rw [hstep]
    refine ⟨⟨df', ⟨?_, ?_, ?_, hcur.pruned, hcur.rootsC, ?_⟩⟩, ⟨b0, df0, hs0, ha0, ?_, ?_⟩, ?_⟩
    · show Live _ (r.cur.es.take N').length _ _ _
      rw [hlen]; exact hl.congr (leafFn_take r.cur.es N')
    · show mmr N' = mmr (r.cur.es.take N').length
      rw [hlen]
    · intro q
      show _ ↔ q ∈ r.cur.U.filter (· < mmr N') ++ rm.map (· - 1)
      rw [hmem, List.mem_append, List.mem_filter, mem_pred (fun y hy => (hrm y hy).1),
        (hcur.unspent q)]
      simp only [decide_eq_true_eq]
      constructor
      · rintro (⟨h1, h2⟩ | h)
        · exact Or.inl ⟨h1, by omega⟩
        · exact Or.inr h
      · rintro (⟨h1, h2⟩ | h)
        · exact Or.inl ⟨h1, by omega⟩
        · exact Or.inr h
    · show r.C ≤ (r.cur.es.take N').length
      rw [hlen]; exact hC
    · exact Backend.inUnit_apply hunit (.rewind (mmr N') rm) hw0
    · intro hd'; exact absurd hd' (by simp [RefSt.step])
    · intro _
      refine ⟨hbuf1, ?_⟩
      intro dfx hdx
      rw [hl.data] at hdx
      injection hdx with e
      rw [← e]; exact hbuf2
  | sync =>
    have hsy := hcur.live.sync
    have ha : Agree hf { b := p.b.sync, size := mmr r.cur.es.length } r.cur r.G r.C df.flush :=
      ⟨hsy.live, rfl, hcur.unspent, hcur.pruned, hcur.rootsC, hcur.cle⟩
    have hstep : bstep el hf p .sync = { b := p.b.sync, size := mmr r.cur.es.length } := by
      show ({ p with b := p.b.sync } : PM H) = _
      rw [← hcur.size]
    rw [hstep]
    exact ⟨⟨_, ha⟩, ⟨p.b.sync, _, hsy, ha, Backend.inUnit_refl hsy.cleanFixed, fun _ => ⟨rfl, rfl⟩⟩,
      fun _ => hsy.nobuf⟩
  | discard =>
    have hdisc := Backend.discard_of_inUnit hs0.cleanFixed hunit
    have hstep : bstep el hf p .discard = { b := b0, size := mmr r.saved.es.length } := by
      show ({ b := p.b.discard, size := p.b.discard.unprunedSize } : PM H) = _
      rw [hdisc, hs0.unprunedSize]
    rw [hstep]
    exact ⟨⟨_, ha0⟩, ⟨b0, df0, hs0, ha0, Backend.inUnit_refl hs0.cleanFixed, fun _ => ⟨rfl, rfl⟩⟩,
      fun _ => hs0.nobuf⟩
  | compact K rm =>
    obtain ⟨hd, hK⟩ := hok
    obtain ⟨hpb, hcs⟩ := hclean hd
    rw [hcs] at hK
    have hcut : mmr K ≤ mmr r.saved.es.length := mmr_le_mmr hK
    obtain ⟨df', hs'⟩ := hs0.checkCompact el hcut rm
    have hM : max r.C K ≤ r.saved.es.length := by have := ha0.cle; omega
    have hpM : Backend.CompactPre b0 (mmr (max r.C K)) (mmr K) :=
      ⟨hs0.inv, hs0.lsSorted,
        fun x hx => Nat.le_trans (ha0.rootsC x hx) (mmr_le_mmr (by omega)),
        mmr_le_mmr (by omega),
        by have := hs0.bound; have := mmr_le_mmr hM; omega⟩
    have hp := hs0.compactPre hcut
    have hstep : bstep el hf p (.compact K rm) =
        { b := b0.checkCompact el (mmr K) rm, size := mmr r.saved.es.length } := by
      show ({ p with b := p.b.checkCompact el (mmr K) rm } : PM H) = _
      rw [hpb, ← hcs, ← hcur.size]
    have ha : Agree hf { b := b0.checkCompact el (mmr K) rm, size := mmr r.saved.es.length } r.saved
        (r.step (.compact K rm)).G (r.step (.compact K rm)).C df' := by
      refine ⟨hs'.live, rfl, ha0.unspent, ?_, fun x hx => (Backend.newBm_roots hpM rm x hx).2, hM⟩
      intro l hl
      show PrunedBy (Backend.newBm b0 (mmr K) rm) l ↔ _
      rw [Backend.newBm_prunedBy hp rm l, full_leaf hl]
      unfold P0 Backend.leavesRm
      show _ ∨ (l + 1) ∈ b0.leafSet.removedPreCutoff (mmr K) rm b0.pruneList ↔ _
      rw [LeafSet.mem_removedPreCutoff_iff hs0.lsSorted, ha0.pruned l hl]
      simp only [RefSt.step, List.mem_append, List.mem_filter, List.mem_range, Bool.and_eq_true,
        Bool.not_eq_true', List.elem_eq_mem, decide_eq_false_iff_not, Nat.add_sub_cancel]
      rw [hcs, (isLeaf_iff l).2 hl]
      have hpr : b0.pruneList.isPruned l = false ↔ l ∉ r.G := by
        rw [← ha0.pruned l hl, ← PruneList.isPruned_iff_prunedBy hs0.inv]
        cases b0.pruneList.isPruned l <;> simp
      rw [hpr, ha0.unspent l]
      constructor
      · rintro (h | ⟨_, h2, h3, h4, _, h6⟩)
        · exact Or.inl h
        · exact Or.inr ⟨by omega, ⟨⟨⟨rfl, h3⟩, h4⟩, h6⟩⟩
      · rintro (h | ⟨h1, ⟨⟨⟨_, h3⟩, h4⟩, h6⟩⟩)
        · exact Or.inl h
        · exact Or.inr ⟨by omega, by omega, h3, h4, rfl, h6⟩
    rw [hstep]
    refine ⟨⟨df', ?_⟩, ⟨_, df', hs', ha, Backend.inUnit_refl hs'.cleanFixed, fun _ => ⟨rfl, hcs⟩⟩,
      fun _ => hs'.nobuf⟩
    show Agree hf _ r.cur _ _ _
    rw [hcs]; exact ha
  | reopen =>
    have hd : r.dirty = false := hok
    obtain ⟨hpb, hcs⟩ := hclean hd
    have hro := hs0.reopen el
    have hstep : bstep el hf p .reopen = p := by
      show ({ b := p.b.reopen el, size := (p.b.reopen el).unprunedSize } : PM H) = _
      rw [hpb, hro, hs0.unprunedSize, ← hcs, ← hcur.size, ← hpb]
    rw [hstep]
    exact ⟨⟨df, hcur⟩, ⟨b0, df0, hs0, ha0, hunit, hclean⟩, hnb⟩

/-! ### units that only remove leaves, and the rewind that undoes them -/

namespace RefSt

theorem proto_append (r : RefSt) (a b : List HOp) :
    Proto r (a ++ b) ↔ Proto r a ∧ Proto (a.foldl step r) b := by
  induction a generalizing r with
  | nil => simp [Proto]
  | cons op ops ih => simp only [List.cons_append, Proto, List.foldl_cons, ih, and_assoc]

/-- a run of `prune`s: always allowed; it leaves the leaf history, `G` and `C` alone and removes
the pruned positions from the unspent set -/
theorem prunes (r : RefSt) (ps : List Nat) :
    Proto r (ps.map HOp.prune) ∧
    ((ps.map HOp.prune).foldl step r).cur.es = r.cur.es ∧
    ((ps.map HOp.prune).foldl step r).G = r.G ∧ ((ps.map HOp.prune).foldl step r).C = r.C ∧
    ((ps.map HOp.prune).foldl step r).saved = r.saved ∧
    ∀ q, q ∈ ((ps.map HOp.prune).foldl step r).cur.U ↔ (q ∈ r.cur.U ∧ q ∉ ps) := by
  induction ps generalizing r with
  | nil => simp [Proto]
  | cons p ps ih =>
    obtain ⟨h1, h2, h3, h4, h5, h6⟩ := ih (r.step (.prune p))
    simp only [List.map_cons, List.foldl_cons, Proto]
    refine ⟨⟨trivial, h1⟩, h2, h3, h4, h5, ?_⟩
    intro q
    rw [h6 q]
    simp only [step, List.mem_filter, List.mem_cons, bne_iff_ne, ne_eq, not_or]
    constructor
    · rintro ⟨⟨a, b⟩, c⟩; exact ⟨a, b, c⟩
    · rintro ⟨a, b, c⟩; exact ⟨⟨a, b⟩, c⟩

/-- **A unit of work that only removes leaves, followed by the rewind that undoes it, conforms to
the protocol.**  From any state of the reference (with `C ≤` the current leaf count – an
invariant of conforming histories), the history

  `prune p₁, …, prune pₖ, sync, rewind N [p₁+1, …, pₖ+1]`   (`N` = the current leaf count)

is allowed whenever the `pᵢ` are leaf positions of the MMR that no compaction has removed: the
rewind position is the *current* size (the unit appended nothing), and `rewind_rm_pos` is exactly
what the unit removed.  Afterwards the reference holds the same leaves, and its unspent set is
the one from before the unit if the `pᵢ` were unspent. -/
theorem removal_unit_then_rewind (r : RefSt) (hC : r.C ≤ r.cur.es.length) (ps : List Nat)
    (hps : ∀ p ∈ ps, isLeaf p = true ∧ p + 1 ≤ mmr r.cur.es.length ∧ p ∉ r.G) :
    let ops := ps.map HOp.prune ++ [HOp.sync, HOp.rewind r.cur.es.length (ps.map (· + 1))]
    Proto r ops ∧ (ops.foldl step r).cur.es = r.cur.es ∧
    ((∀ p ∈ ps, p ∈ r.cur.U) → (∀ q ∈ r.cur.U, q < mmr r.cur.es.length) →
      ∀ q, q ∈ (ops.foldl step r).cur.U ↔ q ∈ r.cur.U) := by
  intro ops
  obtain ⟨h1, h2, h3, h4, _, h6⟩ := prunes r ps
  generalize hr' : (ps.map HOp.prune).foldl step r = r' at *
  have hfold : ops.foldl step r = (r'.step .sync).step (.rewind r.cur.es.length (ps.map (· + 1))) := by
    show (ps.map HOp.prune ++ _).foldl step r = _
    rw [List.foldl_append, hr']; rfl
  refine ⟨?_, ?_, ?_⟩
  · show Proto r (ps.map HOp.prune ++ _)
    rw [proto_append, hr']
    refine ⟨h1, trivial, ⟨rfl, ?_, ?_, ?_⟩, trivial⟩
    · show r'.C ≤ _; rw [h4]; exact hC
    · show _ ≤ r'.cur.es.length; rw [h2]; exact Nat.le_refl _
    · intro x hx
      obtain ⟨p, hp, rfl⟩ := List.mem_map.1 hx
      obtain ⟨a, b, c⟩ := hps p hp
      refine ⟨by omega, b, by rw [Nat.add_sub_cancel]; exact a, ?_⟩
      show p + 1 - 1 ∉ r'.G
      rw [Nat.add_sub_cancel, h3]; exact c
  · rw [hfold]
    show r'.cur.es.take r.cur.es.length = _
    rw [h2, List.take_length]
  · intro hin hlt q
    rw [hfold]
    show q ∈ r'.cur.U.filter (· < mmr r.cur.es.length) ++ (ps.map (· + 1)).map (· - 1) ↔ _
    rw [List.mem_append, List.mem_filter, h6 q, List.map_map]
    have hmap : q ∈ ps.map ((· - 1) ∘ (· + 1)) ↔ q ∈ ps := by
      rw [List.mem_map]
      constructor
      · rintro ⟨p, hp, rfl⟩; simpa using hp
      · intro h; exact ⟨q, h, by simp⟩
    rw [hmap]
    simp only [decide_eq_true_eq]
    constructor
    · rintro (⟨⟨a, _⟩, _⟩ | h)
      · exact a
      · exact hin q h
    · intro h
      by_cases hq : q ∈ ps
      · exact Or.inr hq
      · exact Or.inl ⟨⟨h, hq⟩, hlt q h⟩

end RefSt

/-- the empty store agrees with the empty reference -/
theorem synced_empty {H : Type} (ref : Nat → H) (dref : Nat → Bytes) :
    Synced ({} : Backend H) 0 ref dref {} := by
  refine ⟨PruneList.inv_empty, ⟨rfl, rfl, rfl⟩, ?_, rfl, ⟨rfl, rfl, rfl⟩, ?_, List.Pairwise.nil, rfl,
    ?_, ?_, ?_, by rw [mmr_zero]; omega, rfl⟩
  · rw [mmr_zero]; rfl
  · rw [mmr_zero]; rfl
  · intro x hx; exact absurd hx (by simp)
  · intro x hx; exact absurd hx (by simp)
  · intro x hx; exact absurd hx (by simp)

theorem hinv_init {H : Type} (hf : HashFn Bytes H) : HInv hf ({} : PM H) ({} : RefSt) := by
  have hs : Synced ({} : Backend H) ({} : RefView).es.length (refHash hf (leafFn ({} : RefView).es))
      (refData (leafFn ({} : RefView).es)) {} := synced_empty _ _
  have ha : Agree hf ({ b := {}, size := mmr ({} : RefView).es.length } : PM H) {} [] 0 {} :=
    ⟨hs.live, rfl, fun q => by simp, fun l _ => by simp [PrunedBy],
      fun x hx => absurd hx (by simp), Nat.le_refl _⟩
  have e : ({} : PM H) = { b := {}, size := mmr ({} : RefView).es.length } := by
    show ({ b := {}, size := 0 } : PM H) = _
    rw [show ({} : RefView).es.length = 0 from rfl, mmr_zero]
  rw [e]
  exact ⟨⟨{}, ha⟩, ⟨{}, {}, hs, ha, Backend.inUnit_refl hs.cleanFixed, fun _ => ⟨rfl, rfl⟩⟩, fun _ => hs.nobuf⟩

/-- **the invariant holds after every history the protocol allows** -/
theorem hinv_run {H : Type} (el : Bytes → Option Nat) (hf : HashFn Bytes H) :
    ∀ (ops : List HOp) (p : PM H) (r : RefSt), HInv hf p r → RefSt.Proto r ops →
      HInv hf (ops.foldl (bstep el hf) p) (ops.foldl RefSt.step r) := by
  intro ops
  induction ops with
  | nil => intro p r h _; exact h
  | cons op ops ih =>
    intro p r h hp
    exact ih _ _ (hinv_step el hf p r h op hp.1) hp.2

/-- a leaf history is the list of its leaves -/
theorem es_eq_map_leafFn (es : List Bytes) : es = (List.range es.length).map (leafFn es) := by
  apply List.ext_getElem?
  intro i
  by_cases hi : i < es.length
  · rw [List.getElem?_map, List.getElem?_range hi]
    simp [leafFn, List.getD, List.getElem?_eq_getElem hi]
  · rw [List.getElem?_eq_none (by omega), List.getElem?_eq_none (by simp; omega)]

/-- **the reference is the unpruned Vec-backed MMR of the leaf history**: pushing the leaves one
by one onto an empty `Vec` backend yields the hash vector `allHashes` whose entries are `refHash` -/
theorem reference_is_vec_mmr {H : Type} (hf : HashFn Bytes H) (es : List Bytes) (hN : es.length ≤ 2 ^ 65) :
    Pmmr.pushAll hf [] es = some (allHashes hf (leafFn es) es.length) := by
  have := pushAll_range hf (leafFn es) es.length hN
  rw [← es_eq_map_leafFn] at this
  exact this

/-- the observables of a store that satisfies the history invariant are those of the reference -/
theorem hinv_observables {H : Type} (el : Bytes → Option Nat) (hf : HashFn Bytes H) {p : PM H}
    {r : RefSt} (h : HInv hf p r) :
    p.size = mmr r.cur.es.length ∧
    (r.dirty = false → p.b.unprunedSize = mmr r.cur.es.length) ∧
    PM.root hf p = Pmmr.root hf (allHashes hf (leafFn r.cur.es) r.cur.es.length) ∧
    (∀ q, (q + 1) ∈ p.b.leafSet.bitmap ↔ q ∈ r.cur.U) ∧
    (∀ q, q ∈ r.cur.U → ∃ i, i < r.cur.es.length ∧ q = mmr i ∧
      PM.getHash p q = some (refHash hf (leafFn r.cur.es) q) ∧
      (allHashes hf (leafFn r.cur.es) r.cur.es.length)[q]? = some (refHash hf (leafFn r.cur.es) q) ∧
      PM.getData el p q = some (r.cur.es.getD i [])) ∧
    (∀ q, q ∈ r.cur.U → ∀ a, Sub (family a).1 q → a < mmr r.cur.es.length →
      p.b.getFromFile a = some (refHash hf (leafFn r.cur.es) a)) ∧
    (∀ pk ∈ peaks (mmr r.cur.es.length),
      p.b.getPeakFromFile pk = some (refHash hf (leafFn r.cur.es) pk)) := by
  obtain ⟨⟨df, hc⟩, ⟨b0, df0, hs0, _, _, hclean⟩, _⟩ := h
  have hl := hc.live
  refine ⟨hc.size, fun hd => by
    obtain ⟨e1, e2⟩ := hclean hd
    rw [e1, e2]; exact hs0.unprunedSize, ?_, hc.unspent, ?_, ?_, fun pk hpk => hl.read_peak pk hpk⟩
  · have := hl.root_eq hf
    rw [allHashes_eq_ref, ← this, ← hc.size]
  · intro q hq
    have hm := (hc.unspent q).2 hq
    obtain ⟨_, h2, h3⟩ := hl.lsLeaf (q + 1) hm
    rw [Nat.add_sub_cancel] at h3
    obtain ⟨i, rfl⟩ := leaf_coord h3
    have hi : i < r.cur.es.length := by
      apply Classical.byContradiction
      intro hcn
      have := mmr_le_mmr (show r.cur.es.length ≤ i by omega)
      omega
    obtain ⟨r1, r2⟩ := hl.read_unspent el (mmr i) hm
    have hlf : isLeaf (mmr i) = true := (isLeaf_iff _).2 h3
    refine ⟨i, hi, rfl, ?_, ?_, ?_⟩
    · unfold PM.getHash
      rw [hc.size, if_neg (by omega), if_pos hlf]; exact r1
    · rw [allHashes_eq_ref, List.getElem?_map, List.getElem?_range (by omega)]; rfl
    · unfold PM.getData
      rw [hc.size, if_neg (by omega), if_pos hlf, r2]
      simp [refData, peakMapHeight_leaf, leafFn]
  · intro q hq a ha hlt
    exact hl.read_path q ((hc.unspent q).2 hq) a ha hlt

end GV.Store
