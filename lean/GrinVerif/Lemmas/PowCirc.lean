import GrinVerif.Lemmas.PowRoom
/-! The circular `prev` lists of Cuckatoo / Cuckaroo / Cuckarooz: the inner loop started at slot
`i` visits every *other* slot with the same list key exactly once and then comes back to `i`.
Hence its result is: the unique other slot of the same list that matches `i` (`ok j`), `i`
itself if there is none, error `branch` if there are two. -/
namespace GV.Pow

/-- closed form of a circular predecessor: next lower slot with the same key, else the largest -/
def prevCirc (key : Nat → Nat) (N : Nat) (t : Nat) : Nat :=
  if lastBelow (fun t' => key t' == key t) N t = N then lastBelow (fun t' => key t' == key t) N N
  else lastBelow (fun t' => key t' == key t) N t

section
variable (C : UCfg) (key : Nat → Nat) (N : Nat) (uvs prev : Nat → Nat) (i : Nat)

/-- slots already inspected when the inner loop stands at `k` -/
def Vis (k s : Nat) : Prop := (k ≤ i ∧ k ≤ s ∧ s < i) ∨ (i < k ∧ (s < i ∨ k ≤ s))

def Other (s : Nat) : Prop := s < N ∧ s ≠ i ∧ key s = key i

def FInv (k j : Nat) : Prop :=
  (j = i ∧ ∀ s, Other key N i s → Vis i k s → C.mt (uvs s) (uvs i) = false) ∨
  (Other key N i j ∧ Vis i k j ∧ C.mt (uvs j) (uvs i) = true ∧
    ∀ s, Other key N i s → Vis i k s → C.mt (uvs s) (uvs i) = true → s = j)

variable (hi : i < N) (hprev : ∀ t, t < N → prev t = prevCirc key N t)
include hi hprev

/-- one step along the circular list -/
theorem circ_step (k : Nat) (hk : k < N) (hkey : key k = key i) :
    prev k < N ∧ key (prev k) = key i ∧
    (prev k ≠ i → ∀ s, Other key N i s → (Vis i (prev k) s ↔ (Vis i k s ∨ s = prev k))) ∧
    (prev k = i → ∀ s, Other key N i s → Vis i k s) := by
  have hA := lastBelow_spec (fun t' => key t' == key k) N k
  have hH := lastBelow_spec (fun t' => key t' == key k) N N
  rw [hprev k hk]
  unfold prevCirc
  -- the list is not empty: `i` is on it
  have hHn : lastBelow (fun t' => key t' == key k) N N < N ∧
      key (lastBelow (fun t' => key t' == key k) N N) = key k ∧
      ∀ s, s < N → key s = key k → s ≤ lastBelow (fun t' => key t' == key k) N N := by
    rcases hH with ⟨_, h2⟩ | ⟨h1, h2, h3⟩
    · have := h2 i hi; simp [hkey] at this
    · exact ⟨h1, by simpa using h2, fun s hs hks => h3 s hs (by simp [hks])⟩
  by_cases hnil : lastBelow (fun t' => key t' == key k) N k = N
  · -- wrap around: nothing below k
    rw [if_pos hnil]
    have hnone : ∀ s, s < k → key s = key k → False := by
      intro s hs hks
      rcases hA with ⟨_, h2⟩ | ⟨h1, _, _⟩
      · have := h2 s hs; simp [hks] at this
      · omega
    obtain ⟨g1, g2, g3⟩ := hHn
    have hik : k ≤ i := by
      rcases Nat.lt_or_ge i k with h | h
      · exact absurd hkey.symm (fun e => hnone i h e)
      · exact h
    have hiH := g3 i hi hkey.symm
    refine ⟨g1, by rw [g2, hkey], ?_, ?_⟩
    · intro hne s hs
      obtain ⟨hs1, hs2, hs3⟩ := hs
      have hsk : ¬ s < k := fun h => hnone s h (by rw [hs3, hkey])
      have hsH := g3 s hs1 (by rw [hs3, hkey])
      unfold Vis
      constructor
      · intro h; omega
      · intro h; omega
    · intro he s hs
      obtain ⟨hs1, hs2, hs3⟩ := hs
      have hsk : ¬ s < k := fun h => hnone s h (by rw [hs3, hkey])
      have hsH := g3 s hs1 (by rw [hs3, hkey])
      unfold Vis
      omega
  · rw [if_neg hnil]
    rcases hA with ⟨h1, _⟩ | ⟨h1, h2, h3⟩
    · exact absurd h1 hnil
    · have h2' : key (lastBelow (fun t' => key t' == key k) N k) = key k := by simpa using h2
      have h3' : ∀ s, s < k → key s = key k → s ≤ lastBelow (fun t' => key t' == key k) N k :=
        fun s hs hks => h3 s hs (by simp [hks])
      refine ⟨by omega, by rw [h2', hkey], ?_, ?_⟩
      · intro hne s hs
        obtain ⟨hs1, hs2, hs3⟩ := hs
        have := h3' s
        have hik := h3' i
        unfold Vis
        constructor
        · intro h
          by_cases hsk : s < k
          · have := this hsk (by rw [hs3, hkey]); omega
          · omega
        · intro h
          by_cases hsk : s < k
          · have := this hsk (by rw [hs3, hkey])
            by_cases hik' : i < k
            · have := hik hik' hkey.symm; omega
            · omega
          · by_cases hik' : i < k
            · have := hik hik' hkey.symm; omega
            · omega
      · intro he s hs
        obtain ⟨hs1, hs2, hs3⟩ := hs
        unfold Vis
        by_cases hsk : s < k
        · have := h3' s hsk (by rw [hs3, hkey]); omega
        · omega

/-- result of the inner loop -/
theorem uFind_ok : ∀ f k j r, k < N → key k = key i → FInv C key N uvs i k j →
    uFind C uvs prev i f k j = .ok r →
    (r = i ∧ ∀ s, Other key N i s → C.mt (uvs s) (uvs i) = false) ∨
    (Other key N i r ∧ C.mt (uvs r) (uvs i) = true ∧
      ∀ s, Other key N i s → C.mt (uvs s) (uvs i) = true → s = r) := by
  intro f
  induction f with
  | zero => intro k j r _ _ _ h; simp [uFind] at h
  | succ f ih =>
    intro k j r hk hkey inv h
    obtain ⟨c1, c2, c3, c4⟩ := circ_step key N prev i hi hprev k hk hkey
    unfold uFind at h
    by_cases e : prev k = i
    · simp only [e, if_true] at h
      injection h with h
      subst h
      have hall := c4 e
      rcases inv with ⟨j1, j2⟩ | ⟨j1, j2, j3, j4⟩
      · left; exact ⟨j1, fun s hs => j2 s hs (hall s hs)⟩
      · right; exact ⟨j1, j3, fun s hs hm => j4 s hs (hall s hs) hm⟩
    · simp only [e, if_false] at h
      have hiff := c3 e
      have hoth : Other key N i (prev k) := ⟨c1, e, c2⟩
      by_cases hm : C.mt (uvs (prev k)) (uvs i) = true
      · simp only [hm, if_true] at h
        by_cases hj : j = i
        · simp only [hj, ne_eq, not_true_eq_false, if_false] at h
          refine ih (prev k) (prev k) r c1 c2 ?_ h
          right
          refine ⟨hoth, ((hiff _ hoth).mpr (Or.inr rfl)), hm, ?_⟩
          intro s hs hv hms
          rcases (hiff s hs).mp hv with hv | hv
          · rcases inv with ⟨_, j2⟩ | ⟨j1, _, _, _⟩
            · have := j2 s hs hv; rw [this] at hms; cases hms
            · exact absurd hj j1.2.1
          · exact hv
        · simp [hj] at h
      · simp only [hm] at h
        refine ih (prev k) j r c1 c2 ?_ h
        have hmf : C.mt (uvs (prev k)) (uvs i) = false := by simpa using hm
        rcases inv with ⟨j1, j2⟩ | ⟨j1, j2, j3, j4⟩
        · left
          refine ⟨j1, fun s hs hv => ?_⟩
          rcases (hiff s hs).mp hv with hv | hv
          · exact j2 s hs hv
          · rw [hv]; exact hmf
        · right
          refine ⟨j1, (hiff j j1).mpr (Or.inl j2), j3, fun s hs hv hms => ?_⟩
          rcases (hiff s hs).mp hv with hv | hv
          · exact j4 s hs hv hms
          · rw [hv, hmf] at hms; cases hms

omit hi hprev in
theorem finv_init : FInv C key N uvs i i i := by
  left
  refine ⟨rfl, fun s _ hv => ?_⟩
  unfold Vis at hv
  omega

end
end GV.Pow
