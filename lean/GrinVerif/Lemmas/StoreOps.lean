import GrinVerif.Lemmas.StoreLive
/-! `push` and `rewind` against the reference (C08 history): `PMMR::push` over a backend that
satisfies the in-unit invariant computes the reference hashes (it only reads left siblings whose
parent is outside the MMR, which are never compacted) and re-establishes the invariant for one
more leaf; `rewind` to an earlier boundary at or above every pruned root truncates both files to
the layout of the smaller MMR.  Core Lean only. -/
namespace GV.Store
open GV GV.Pmmr GV.Pmmr.Co

/-! ### ranges -/

theorem range_add' (a k : Nat) : List.range (a + k) = List.range a ++ List.range' a k := by
  rw [List.range_add, List.range'_eq_map_range]

theorem filter_range_take (p : Nat → Bool) {M' M : Nat} (h : M' ≤ M) :
    ((List.range M).filter p).take (rk p M') = (List.range M').filter p := by
  obtain ⟨k, rfl⟩ : ∃ k, M = M' + k := ⟨M - M', by omega⟩
  rw [range_add', List.filter_append]
  exact List.take_left' (filter_range_length p M')

/-- positions at or beyond every pruned root are not compacted -/
theorem not_compacted_of_ge {bm : Bitmap} {size q : Nat} (hroots : ∀ x ∈ bm, x ≤ size)
    (hq : size ≤ q + 1) : compactedP bm q = false := by
  rw [compactedP_false_iff]
  rintro ⟨x, hx, hs, hne⟩
  have := hroots x hx; have := hs.2; omega

theorem height_mmr (N : Nat) : height (mmr N) = 0 := by
  simpa using height_co N 0 (Nat.zero_le _)

/-! ### the total leaf shift -/

theorem totalLeafShift_counts {pl : PruneList} (h : pl.Inv) {size : Nat}
    (hroots : ∀ x ∈ pl.bitmap, x ≤ size) :
    pl.getTotalLeafShift = rk (fun q => isLeaf q && compactedP pl.bitmap q) size := by
  unfold rk
  rw [count_compacted_p isLeaf _ h.disj h.pos]
  have hsum : sumF (fun r => rk isLeaf (min r size) - rk isLeaf (min (bintreeLeftmost r) size)) pl.bitmap =
      sumF PruneList.rootLeafShift pl.bitmap := by
    apply sumF_congr
    intro x hx
    have := hroots x hx; have := h.pos x hx
    have := PruneList.leftmost_le (x - 1)
    rw [rootLeafShift_count]
    have e1 : min (x - 1) size = x - 1 := by omega
    have e2 : min (bintreeLeftmost (x - 1)) size = bintreeLeftmost (x - 1) := by omega
    rw [e1, e2]
  rw [hsum]
  unfold PruneList.getTotalLeafShift
  rw [PruneList.getLeafShift_spec h]
  congr 1
  cases hm : Bm.maximum pl.bitmap with
  | none =>
    have : pl.bitmap = [] := by unfold Bm.maximum at hm; simpa using hm
    rw [this]; rfl
  | some m =>
    simp only [Option.getD_some]
    rw [List.filter_eq_self]
    intro x hx
    have h1 := le_maximum_of_sorted h.sorted x hx
    rw [hm] at h1
    have := h.pos m (maximum_mem hm)
    simp only [Option.getD_some] at h1
    simp; omega

/-- number of leaves in the data file + leaves compacted away = leaves of the MMR -/
theorem dataLayout_length {pl : PruneList} (h : pl.Inv) {N : Nat}
    (hroots : ∀ x ∈ pl.bitmap, x ≤ mmr N) :
    (dataLayout pl.bitmap (mmr N)).length + pl.getTotalLeafShift = N := by
  rw [totalLeafShift_counts h hroots]
  unfold dataLayout
  rw [filter_range_length]
  have := rk_split isLeaf (compactedP pl.bitmap) (mmr N)
  rw [(rk_leaf_coord N).1] at this
  omega

/-! ### `push` reads the reference -/

theorem bits_lt_trailingOnes (N : Nat) : ∀ i, (∀ i', i' ≤ i → bitSet N i' = true) → i < trailingOnes N := by
  intro i
  induction i with
  | zero =>
    intro h
    have := h 0 (Nat.le_refl _)
    rw [bitSet_coord (Nat.zero_le _)] at this
    simpa using this
  | succ k ih =>
    intro h
    have hk := ih (fun i' hi' => h i' (by omega))
    have := h (k + 1) (Nat.le_refl _)
    rw [bitSet_coord (show k + 1 ≤ trailingOnes N by omega)] at this
    simpa using this

theorem pushLoopB_congr {H : Type} (hf : HashFn Bytes H) (getPeak : Nat → Option H) (hashes : List H)
    (pm : Nat) : ∀ (fuel j pos : Nat) (cur : H) (acc : List H),
      (∀ i, (∀ i', i' ≤ i → bitSet pm (j + i') = true) →
        getPeak (pos + i + 1 - 2 * 2 ^ (j + i)) = hashes[pos + i + 1 - 2 * 2 ^ (j + i)]?) →
      pushLoopB hf getPeak pm fuel j pos cur acc = pushLoop hf hashes pm fuel j pos cur acc := by
  intro fuel
  induction fuel with
  | zero => intros; rfl
  | succ n ih =>
    intro j pos cur acc h
    by_cases hb : bitSet pm j = true
    · have h0 := h 0 (fun i' hi' => by
        have : i' = 0 := by omega
        subst this; simpa using hb)
      simp only [Nat.add_zero] at h0
      simp only [pushLoopB, pushLoop, hb, if_true, h0]
      cases hashes[pos + 1 - 2 * 2 ^ j]? with
      | none => rfl
      | some l =>
        simp only
        apply ih
        intro i hi
        have := h (i + 1) (fun i' hi' => by
          cases i' with
          | zero => simpa using hb
          | succ k =>
            have := hi k (by omega)
            have e : j + (k + 1) = j + 1 + k := by omega
            rw [e]; exact this)
        have e1 : pos + (i + 1) + 1 - 2 * 2 ^ (j + (i + 1)) = pos + 1 + i + 1 - 2 * 2 ^ (j + 1 + i) := by
          have e : j + (i + 1) = j + 1 + i := by omega
          rw [e]; omega
        rw [e1] at this; exact this
    · simp only [pushLoopB, pushLoop, hb]
      rfl

namespace Live
variable {H : Type} {b : Backend H} {N : Nat} {df : AOF Bytes}

/-- the left siblings `push` reads: inside the MMR, never compacted -/
theorem left_sibling_ok {bm : Bitmap} (hroots : ∀ x ∈ bm, x ≤ mmr N) {i : Nat}
    (hi : i < trailingOnes N) :
    mmr N + i + 1 - 2 * 2 ^ i < mmr N ∧ compactedP bm (mmr N + i + 1 - 2 * 2 ^ i) = false := by
  obtain ⟨l1, l2, l3, l4⟩ := left_sibling_coord hi
  have hpos := two_pow_pos i
  have e : mmr N + i + 1 - 2 * 2 ^ i = mmr (N - 2 ^ i) + i := by omega
  rw [e]
  refine ⟨(coord_lt_iff l1).2 (by omega), ?_⟩
  cases hc : compactedP bm (mmr (N - 2 ^ i) + i) with
  | false => rfl
  | true =>
    exfalso
    obtain ⟨x, hx, hs⟩ := compactedP_iff_parent.1 hc
    have hfam : (family (mmr (N - 2 ^ i) + i)).1 = mmr N + i + 1 := by
      simp only [family, peakMapHeight_co _ _ l1, bitSet_coord l1]
      have : ¬ i < trailingOnes (N - 2 ^ i) := by omega
      simp only [this, decide_false, Bool.false_eq_true, if_false]
      omega
    rw [hfam] at hs
    have := hroots x hx; have := hs.2; omega

/-- **`push` against the reference**: pushing the next leaf of the history onto a backend that
satisfies the in-unit invariant succeeds, computes exactly the reference hashes, and the
invariant holds for the MMR with one more leaf -/
theorem push {hf : HashFn Bytes H} {f : Nat → Bytes}
    (h : Live b N (refHash hf f) (refData f) df) (hb : mmr (N + 1) + 64 < 2 ^ 64) :
    ∃ b', PM.push hf { b := b, size := mmr N } (f N) = some { b := b', size := mmr (N + 1) } ∧
      b.append (f N) (emitted hf f N) = some b' ∧
      Live b' (N + 1) (refHash hf f) (refData f) (df.append (f N)) ∧
      b'.leafSet.bitmap = Bm.add b.leafSet.bitmap (1 + mmr N) ∧ b'.pruneList = b.pruneList := by
  have hbd := h.bound
  have hN : N < 2 ^ 65 := by have := le_mmr N; omega
  -- (a) the hashes are the reference hashes
  have hread : ∀ i, (∀ i', i' ≤ i → bitSet N (0 + i') = true) →
      b.getPeakFromFile (mmr N + i + 1 - 2 * 2 ^ (0 + i)) =
        (allHashes hf f N)[mmr N + i + 1 - 2 * 2 ^ (0 + i)]? := by
    intro i hi
    simp only [Nat.zero_add] at hi ⊢
    have hlt := bits_lt_trailingOnes N i hi
    obtain ⟨s1, s2⟩ := left_sibling_ok h.roots hlt
    rw [(h.read_hash _ s1 s2).1, allHashes_eq_ref, List.getElem?_map, List.getElem?_range s1]
    rfl
  have hph : pushHashes hf b.getPeakFromFile (mmr N) (f N) = some (emitted hf f N) := by
    have hpush := push_coord hf f N hN
    unfold Pmmr.push at hpush
    simp only [allHashes_length, peakMapHeight_leaf, ne_eq, not_true_eq_false, if_false] at hpush
    unfold pushHashes
    simp only [peakMapHeight_leaf, ne_eq, not_true_eq_false, if_false]
    rw [pushLoopB_congr hf _ (allHashes hf f N) N 65 0 (mmr N) _ _ hread]
    cases hl : pushLoop hf (allHashes hf f N) N 65 0 (mmr N) (hf.leaf (mmr N) (f N))
        [hf.leaf (mmr N) (f N)] with
    | none => rw [hl] at hpush; exact absurd hpush (by simp)
    | some new =>
      rw [hl] at hpush
      simp only [Option.some.injEq] at hpush
      rw [show allHashes hf f (N + 1) = allHashes hf f N ++ emitted hf f N from rfl] at hpush
      rw [List.append_cancel_left hpush]
  have hlen : (emitted hf f N).length = trailingOnes N + 1 := by simp [emitted]
  have hsz : mmr N + (emitted hf f N).length = mmr (N + 1) := by rw [hlen, mmr_succ]; omega
  -- (b) the backend after `append`
  have hpos : insertionToPmmrIndex ((df.append (f N)).sizeUnsyncInElmts + b.pruneList.getTotalLeafShift - 1)
      = mmr N := by
    obtain ⟨w, v⟩ := AOF.wf_append h.dataWF (f N)
    rw [← AOF.view_length w, v, List.length_append, h.dataLay, List.length_map]
    have := dataLayout_length h.inv h.roots
    unfold insertionToPmmrIndex
    congr 1
    simp only [List.length_singleton]
    omega
  refine ⟨{ b with dataFile := .fixed (df.append (f N)), hashFile := b.hashFile.extend (emitted hf f N),
                   leafSet := b.leafSet.add (mmr N) }, ?_, ?_, ?_, rfl, rfl⟩
  · unfold PM.push
    simp only [hph]
    unfold Backend.append
    simp only [h.data, DFile.append, hpos, hsz]
  · unfold Backend.append
    simp only [h.data, DFile.append, hpos]
  · -- (c) the invariant for `N + 1` leaves
    have hnew : ∀ q, mmr N ≤ q → compactedP b.pruneList.bitmap q = false :=
      fun q hq => not_compacted_of_ge h.roots (by omega)
    have hmm : mmr (N + 1) = mmr N + (trailingOnes N + 1) := by rw [mmr_succ]; omega
    obtain ⟨w1, v1⟩ := AOF.wf_extend h.hashWF (emitted hf f N)
    obtain ⟨w2, v2⟩ := AOF.wf_append h.dataWF (f N)
    refine ⟨h.inv, w1, ?_, rfl, w2, ?_, sorted_add h.lsSorted, ?_, ?_, ?_, hb, h.pruneFile⟩
    · show (b.hashFile.extend (emitted hf f N)).view = _
      rw [v1, h.hashLay, hmm]
      unfold layout
      rw [range_add', List.filter_append, List.map_append]
      congr 1
      rw [List.filter_eq_self.2 (fun q hq => by
        have := (List.mem_range'_1.1 hq).1
        simp [hnew q this])]
      unfold emitted
      rw [List.range'_eq_map_range, List.map_map]
      apply List.map_congr_left
      intro k hk
      have hk' : k ≤ trailingOnes N := by have := List.mem_range.1 hk; omega
      simp only [Function.comp, refHash, peakMapHeight_co N k hk']
    · rw [v2, h.dataLay, hmm]
      unfold dataLayout
      rw [range_add', List.filter_append, List.map_append]
      congr 1
      have : (List.range' (mmr N) (trailingOnes N + 1)).filter
          (fun q => isLeaf q && !compactedP b.pruneList.bitmap q) = [mmr N] := by
        rw [List.range'_succ, List.filter_cons]
        have h0 : (isLeaf (mmr N) && !compactedP b.pruneList.bitmap (mmr N)) = true := by
          simp [isLeaf, height_mmr N, hnew (mmr N) (Nat.le_refl _)]
        rw [if_pos h0]
        congr 1
        rw [List.filter_eq_nil_iff]
        intro q hq
        obtain ⟨hq1, hq2⟩ := List.mem_range'_1.1 hq
        have : q = mmr N + (q - mmr N) := by omega
        rw [this]
        simp [isLeaf, height_co N (q - mmr N) (by omega)]
        omega
      rw [this]
      simp [refData, peakMapHeight_leaf]
    · intro x hx
      rcases mem_add.1 hx with rfl | hx
      · refine ⟨by omega, by omega, ?_⟩
        rw [Nat.add_sub_cancel_left]; exact height_mmr N
      · obtain ⟨a1, a2, a3⟩ := h.lsLeaf x hx
        exact ⟨a1, by omega, a3⟩
    · intro x hx
      rcases mem_add.1 hx with rfl | hx
      · rw [Nat.add_sub_cancel_left]
        rintro ⟨r, hr, hs⟩
        have := h.roots r hr; have := hs.2; have := h.inv.pos r hr
        omega
      · exact h.unpruned x hx
    · intro x hx
      have := h.roots x hx; omega

end Live

/-! ### `rewind` from a synced state -/

namespace Synced
variable {H : Type} {b : Backend H} {N : Nat} {ref : Nat → H} {dref : Nat → Bytes} {df : AOF Bytes}

/-- the file positions `rewind` computes for the boundary `mmr N'` are the lengths of the two
layouts of the smaller MMR -/
theorem rewind_positions_of_inv (hinv : b.pruneList.Inv) {N' : Nat}
    (hroots : ∀ x ∈ b.pruneList.bitmap, x ≤ mmr N') :
    mmr N' - (if mmr N' = 0 then 0 else b.pruneList.getShift (mmr N' - 1)) =
      rk (fun x => !compactedP b.pruneList.bitmap x) (mmr N') ∧
    nLeaves (mmr N') - (if mmr N' = 0 then 0 else b.pruneList.getLeafShift (mmr N')) =
      rk (fun x => isLeaf x && !compactedP b.pruneList.bitmap x) (mmr N') := by
  have hnl : nLeaves (mmr N') = N' := by unfold nLeaves; simp [peakMapHeight_leaf]
  have hsplit := rk_split isLeaf (compactedP b.pruneList.bitmap) (mmr N')
  rw [(rk_leaf_coord N').1] at hsplit
  by_cases h0 : mmr N' = 0
  · simp only [h0, if_true]
    rw [h0] at hnl hsplit
    have : rk (fun x => !compactedP b.pruneList.bitmap x) 0 = 0 := rfl
    have : rk (fun x => isLeaf x && compactedP b.pruneList.bitmap x) 0 = 0 := rfl
    rw [hnl]; omega
  · simp only [h0, if_false]
    have hnc : compactedP b.pruneList.bitmap (mmr N' - 1) = false :=
      not_compacted_of_ge hroots (by omega)
    have e : mmr N' = (mmr N' - 1) + 1 := by omega
    have i1 := hashIdx_eq hinv _ hnc
    have i2 := PruneList.getLeafShift_counts hinv _ hnc
    have e' : 1 + (mmr N' - 1) = mmr N' := by omega
    rw [e'] at i2
    have r1 := rk_succ (fun x => !compactedP b.pruneList.bitmap x) (mmr N' - 1)
    have r2 := rk_succ (fun x => isLeaf x && compactedP b.pruneList.bitmap x) (mmr N' - 1)
    simp only [hnc, Bool.not_false, if_true, Bool.and_false, Bool.false_eq_true, if_false,
      Nat.add_zero] at r1 r2
    rw [← e] at r1 r2
    rw [hnl, i2]
    unfold rk at *
    omega

theorem rewind_positions (h : Synced b N ref dref df) {N' : Nat}
    (hroots : ∀ x ∈ b.pruneList.bitmap, x ≤ mmr N') :
    mmr N' - (if mmr N' = 0 then 0 else b.pruneList.getShift (mmr N' - 1)) =
      rk (fun x => !compactedP b.pruneList.bitmap x) (mmr N') ∧
    nLeaves (mmr N') - (if mmr N' = 0 then 0 else b.pruneList.getLeafShift (mmr N')) =
      rk (fun x => isLeaf x && !compactedP b.pruneList.bitmap x) (mmr N') :=
  rewind_positions_of_inv h.inv hroots

/-- **`rewind` against the reference**: rewinding a synced backend to the boundary `mmr N'`
(at or above every pruned root), re-adding the leaves `rm` (leaf positions of the smaller MMR that
are not pruned) gives the in-unit invariant for the first `N'` leaves of the same reference; the
leaf set is the old one cut at the boundary plus `rm` -/
theorem rewind (h : Synced b N ref dref df) {N' : Nat} (hN : N' ≤ N)
    (hroots : ∀ x ∈ b.pruneList.bitmap, x ≤ mmr N') (rm : Bitmap)
    (hrm : ∀ x ∈ rm, 1 ≤ x ∧ x ≤ mmr N' ∧ height (x - 1) = 0 ∧ ¬ PrunedBy b.pruneList.bitmap (x - 1)) :
    ∃ df', Live (b.rewind (mmr N') rm) N' ref dref df' ∧
      (Backend.Op.rewind (mmr N') rm).Within b df ∧
      ∀ x, x ∈ (b.rewind (mmr N') rm).leafSet.bitmap ↔ (x ∈ b.leafSet.bitmap ∧ x ≤ mmr N') ∨ x ∈ rm := by
  obtain ⟨p1, p2⟩ := h.rewind_positions hroots
  have hmono := mmr_le_mmr hN
  have hl1 : rk (fun x => !compactedP b.pruneList.bitmap x) (mmr N') ≤ b.hashFile.disk.length := by
    rw [h.hashLay, List.length_map]; unfold layout
    rw [filter_range_length]; exact rk_mono _ hmono
  have hl2 : rk (fun x => isLeaf x && !compactedP b.pruneList.bitmap x) (mmr N') ≤ df.disk.length := by
    rw [h.dataLay, List.length_map]; unfold dataLayout
    rw [filter_range_length]; exact rk_mono _ hmono
  have hmem := LeafSet.mem_rewind b.leafSet (mmr N') rm h.lsSorted
  obtain ⟨w1, v1⟩ := AOF.rewind_of_clean h.hashClean _ hl1
  obtain ⟨w2, v2⟩ := AOF.rewind_of_clean h.dataClean _ hl2
  refine ⟨df.rewind (rk (fun x => isLeaf x && !compactedP b.pruneList.bitmap x) (mmr N')), ?_, ?_, hmem⟩
  · refine ⟨h.inv, ?_, ?_, ?_, w2, ?_, ?_, ?_, ?_, hroots, by have := h.bound; omega, h.pruneFile⟩
    · show (b.hashFile.rewind _).WF
      rw [p1]; exact w1
    · show (b.hashFile.rewind _).view = _
      rw [p1, v1, h.hashLay, ← List.map_take]
      unfold layout
      rw [filter_range_take _ hmono]
      rfl
    · show b.dataFile.rewind _ = _
      rw [p2, h.data]; rfl
    · rw [v2, h.dataLay, ← List.map_take]
      unfold dataLayout
      rw [filter_range_take _ hmono]
      rfl
    · exact sorted_or (sorted_removeRange h.lsSorted _ _)
    · intro x hx
      rcases (hmem x).1 hx with ⟨hx1, hx2⟩ | hx1
      · obtain ⟨a1, _, a3⟩ := h.lsLeaf x hx1
        exact ⟨a1, hx2, a3⟩
      · obtain ⟨a1, a2, a3, _⟩ := hrm x hx1
        exact ⟨a1, a2, a3⟩
    · intro x hx
      rcases (hmem x).1 hx with ⟨hx1, _⟩ | hx1
      · exact h.unpruned x hx1
      · exact (hrm x hx1).2.2.2
  · show _ ≤ _ ∧ _ ≤ _
    rw [p1, p2]; exact ⟨hl1, hl2⟩

end Synced

namespace Live
variable {H : Type} {b : Backend H} {N : Nat} {ref : Nat → H} {dref : Nat → Bytes} {df : AOF Bytes}

/-- **a further `rewind` inside a unit of work in which nothing has been appended yet** (the chain
rewinds block by block: `rewind_single_block` per block, all in one extension): from the in-unit
invariant with empty buffers, rewinding to the boundary `mmr N'` (at or above every pruned root)
and re-adding the unpruned leaves `rm` of the smaller MMR gives the in-unit invariant for the
first `N'` leaves, again with empty buffers; the positions asked of the two files lie inside
what is on disk. -/
theorem rewind (h : Live b N ref dref df) (hb1 : b.hashFile.buffer = []) (hb2 : df.buffer = [])
    {N' : Nat} (hN : N' ≤ N)
    (hroots : ∀ x ∈ b.pruneList.bitmap, x ≤ mmr N') (rm : Bitmap)
    (hrm : ∀ x ∈ rm, 1 ≤ x ∧ x ≤ mmr N' ∧ height (x - 1) = 0 ∧ ¬ PrunedBy b.pruneList.bitmap (x - 1)) :
    ∃ df', Live (b.rewind (mmr N') rm) N' ref dref df' ∧
      (b.rewind (mmr N') rm).hashFile.buffer = [] ∧ df'.buffer = [] ∧
      (mmr N' - (if mmr N' = 0 then 0 else b.pruneList.getShift (mmr N' - 1)) ≤ b.hashFile.disk.length ∧
       nLeaves (mmr N') - (if mmr N' = 0 then 0 else b.pruneList.getLeafShift (mmr N')) ≤ df.disk.length) ∧
      ∀ x, x ∈ (b.rewind (mmr N') rm).leafSet.bitmap ↔ (x ∈ b.leafSet.bitmap ∧ x ≤ mmr N') ∨ x ∈ rm := by
  obtain ⟨p1, p2⟩ := Synced.rewind_positions_of_inv (b := b) h.inv hroots
  have hmono := mmr_le_mmr hN
  have hv1 := AOF.view_length h.hashWF
  have hv2 := AOF.view_length h.dataWF
  unfold AOF.sizeUnsyncInElmts at hv1 hv2
  rw [hb1] at hv1; rw [hb2] at hv2
  simp only [List.length_nil, Nat.add_zero] at hv1 hv2
  have hl1 : rk (fun x => !compactedP b.pruneList.bitmap x) (mmr N') ≤ b.hashFile.bsp := by
    rw [← hv1, h.hashLay, List.length_map]; unfold layout
    rw [filter_range_length]; exact rk_mono _ hmono
  have hl2 : rk (fun x => isLeaf x && !compactedP b.pruneList.bitmap x) (mmr N') ≤ df.bsp := by
    rw [← hv2, h.dataLay, List.length_map]; unfold dataLayout
    rw [filter_range_length]; exact rk_mono _ hmono
  have hmem := LeafSet.mem_rewind b.leafSet (mmr N') rm h.lsSorted
  obtain ⟨w1, v1, e1⟩ := AOF.rewind_of_wf h.hashWF hb1 _ hl1
  obtain ⟨w2, v2, e2⟩ := AOF.rewind_of_wf h.dataWF hb2 _ hl2
  refine ⟨df.rewind (rk (fun x => isLeaf x && !compactedP b.pruneList.bitmap x) (mmr N')), ?_, ?_, e2, ?_, hmem⟩
  · refine ⟨h.inv, ?_, ?_, ?_, w2, ?_, ?_, ?_, ?_, hroots, by have := h.bound; omega, h.pruneFile⟩
    · show (b.hashFile.rewind _).WF
      rw [p1]; exact w1
    · show (b.hashFile.rewind _).view = _
      rw [p1, v1, h.hashLay, ← List.map_take]
      unfold layout
      rw [filter_range_take _ hmono]
      rfl
    · show b.dataFile.rewind _ = _
      rw [p2, h.data]; rfl
    · rw [v2, h.dataLay, ← List.map_take]
      unfold dataLayout
      rw [filter_range_take _ hmono]
      rfl
    · exact sorted_or (sorted_removeRange h.lsSorted _ _)
    · intro x hx
      rcases (hmem x).1 hx with ⟨hx1, hx2⟩ | hx1
      · obtain ⟨a1, _, a3⟩ := h.lsLeaf x hx1
        exact ⟨a1, hx2, a3⟩
      · obtain ⟨a1, a2, a3, _⟩ := hrm x hx1
        exact ⟨a1, a2, a3⟩
    · intro x hx
      rcases (hmem x).1 hx with ⟨hx1, _⟩ | hx1
      · exact h.unpruned x hx1
      · exact (hrm x hx1).2.2.2
  · show (b.hashFile.rewind _).buffer = []
    rw [p1]; exact e1
  · rw [p1, p2]
    exact ⟨Nat.le_trans hl1 h.hashWF.le, Nat.le_trans hl2 h.dataWF.le⟩

end Live
end GV.Store
