import GrinVerif.Lemmas.StoreBitmap
/-! The prune-list invariant (`PruneList.Inv`): what every list built by `append`s satisfies,
and what `get_shift` / `get_leaf_shift` compute under it (DESIGN A.5). Core Lean only. -/
namespace GV.Store
open GV GV.Pmmr

/-- running sums of `f` over the 0-based roots of a 1-based bitmap, starting at `acc` -/
def scanFrom (f : Nat → Nat) : Nat → List Nat → List Nat
  | _, [] => []
  | acc, x :: xs => (acc + f (x - 1)) :: scanFrom f (acc + f (x - 1)) xs

/-- `Σ_{x ∈ l} f (x - 1)` -/
def sumF (f : Nat → Nat) : List Nat → Nat
  | [] => 0
  | x :: xs => f (x - 1) + sumF f xs

theorem sumF_append (f : Nat → Nat) (l r : List Nat) : sumF f (l ++ r) = sumF f l + sumF f r := by
  induction l with
  | nil => simp [sumF]
  | cons a t ih => simp [sumF, ih]; omega

theorem scanFrom_length (f : Nat → Nat) (a : Nat) (l : List Nat) : (scanFrom f a l).length = l.length := by
  induction l generalizing a with
  | nil => rfl
  | cons x xs ih => simp [scanFrom, ih]

theorem scanFrom_append (f : Nat → Nat) (a : Nat) (l : List Nat) (x : Nat) :
    scanFrom f a (l ++ [x]) = scanFrom f a l ++ [a + sumF f l + f (x - 1)] := by
  induction l generalizing a with
  | nil => simp [scanFrom, sumF]
  | cons y ys ih => simp [scanFrom, sumF, ih]; omega

theorem scanFrom_take (f : Nat → Nat) (a : Nat) (l : List Nat) (k : Nat) :
    (scanFrom f a l).take k = scanFrom f a (l.take k) := by
  induction l generalizing a k with
  | nil => simp [scanFrom]
  | cons y ys ih =>
    cases k with
    | zero => simp [scanFrom]
    | succ k => simp [scanFrom, ih]

theorem scanFrom_getD (f : Nat → Nat) (a : Nat) (l : List Nat) (k : Nat) (hk : k < l.length) :
    (scanFrom f a l).getD k 0 = a + sumF f (l.take (k + 1)) := by
  induction l generalizing a k with
  | nil => simp at hk
  | cons y ys ih =>
    cases k with
    | zero => simp [scanFrom, sumF]
    | succ k =>
      have hk' : k < ys.length := by simpa using hk
      simp only [scanFrom, List.getD_cons_succ, List.take_succ_cons, sumF]
      rw [ih _ _ hk']; omega

namespace PruneList

/-- `cacheAt` on a consistent cache is the prefix sum -/
theorem cacheAt_scan (f : Nat → Nat) (l : List Nat) (k : Nat) (hk : k ≤ l.length) :
    cacheAt (scanFrom f 0 l) k = sumF f (l.take k) := by
  unfold cacheAt
  by_cases h0 : k = 0
  · simp [h0, sumF]
  · rw [if_neg h0, scanFrom_length, Nat.min_eq_left hk, scanFrom_getD f 0 l (k - 1) (by omega)]
    have : k - 1 + 1 = k := by omega
    rw [this]; omega

/-- `is_pruned` looks at the bitmap only -/
def isPrunedBm (bm : Bitmap) (pos0 : Nat) : Bool := isPruned { bitmap := bm } pos0

theorem isPruned_eq (pl : PruneList) (p : Nat) : isPruned pl p = isPrunedBm pl.bitmap p := rfl

/-- roll-up closure: the sibling of every root is not pruned by the roots before it (otherwise
`append` would have replaced both by their parent) -/
def RollupClosed (bm : Bitmap) : Prop :=
  ∀ k, (h : k < bm.length) → isPrunedBm (bm.take k) (family (bm[k] - 1)).2 = false

/-- The invariant of a prune list built by `append`:
positions are 1-based, strictly ascending; the subtree of every root lies entirely to the right
of all earlier roots (no root inside another root's subtree, no overlap); both caches hold the
running sums of the per-root shifts; no root has a pruned sibling. -/
structure Inv (pl : PruneList) : Prop where
  pos : ∀ x ∈ pl.bitmap, 1 ≤ x
  sorted : Sorted pl.bitmap
  disj : List.Pairwise (fun a b => a ≤ bintreeLeftmost (b - 1)) pl.bitmap
  shift : pl.shiftCache = scanFrom rootShift 0 pl.bitmap
  leaf : pl.leafShiftCache = scanFrom rootLeafShift 0 pl.bitmap
  closed : RollupClosed pl.bitmap

theorem inv_empty : Inv {} :=
  ⟨by simp, List.Pairwise.nil, List.Pairwise.nil, rfl, rfl, fun k h => by simp at h⟩

/-- **shift_spec** (`get_shift`): the sum of `2·(2^h − 1)` over the pruned roots at or before `pos0` -/
theorem getShift_spec {pl : PruneList} (h : Inv pl) (pos0 : Nat) :
    getShift pl pos0 = sumF rootShift (pl.bitmap.filter (· ≤ 1 + pos0)) := by
  unfold getShift
  rw [h.shift, cacheAt_scan _ _ _ (rank_le_length _ _), filter_le_eq_take _ h.sorted]; rfl

/-- **shift_spec** (`get_leaf_shift`): the sum of `2^h` over the pruned roots of height `h > 0`
at or before `pos0` -/
theorem getLeafShift_spec {pl : PruneList} (h : Inv pl) (pos0 : Nat) :
    getLeafShift pl pos0 = sumF rootLeafShift (pl.bitmap.filter (· ≤ 1 + pos0)) := by
  unfold getLeafShift
  rw [h.leaf, cacheAt_scan _ _ _ (rank_le_length _ _), filter_le_eq_take _ h.sorted]; rfl

/-- the invariant is closed under taking a prefix of the roots (what `cleanup_subtree` does) -/
theorem inv_take {pl : PruneList} (h : Inv pl) (k : Nat) :
    Inv { bitmap := pl.bitmap.take k, shiftCache := pl.shiftCache.take k,
          leafShiftCache := pl.leafShiftCache.take k } := by
  refine ⟨fun x hx => h.pos x (List.mem_of_mem_take hx), sorted_take k h.sorted,
    List.Pairwise.sublist (List.take_sublist k _) h.disj, ?_, ?_, ?_⟩
  · simp only; rw [h.shift, scanFrom_take]
  · simp only; rw [h.leaf, scanFrom_take]
  · intro j hj
    simp only [List.length_take] at hj
    have hj' : j < pl.bitmap.length := by omega
    have := h.closed j hj'
    simp only [List.take_take, List.getElem_take]
    rwa [Nat.min_eq_left (by omega)]

theorem leftmost_le (p : Nat) : bintreeLeftmost p ≤ p := by
  unfold bintreeLeftmost
  have : 0 < 2 ^ height p := Nat.pow_pos (by omega)
  omega

/-- `cleanup_subtree` keeps the invariant and leaves only roots left of the subtree of `pos0` -/
theorem cleanup_inv {pl : PruneList} (h : Inv pl) (pos0 : Nat) :
    Inv (cleanupSubtree pl pos0) ∧
    (∀ x ∈ (cleanupSubtree pl pos0).bitmap, x ≤ bintreeLeftmost pos0) ∧
    (∀ x ∈ (cleanupSubtree pl pos0).bitmap, x ∈ pl.bitmap) := by
  unfold cleanupSubtree
  simp only
  split
  · rename_i hge
    refine ⟨h, fun x hx => ?_, fun x hx => hx⟩
    have := le_maximum_of_sorted h.sorted x hx
    omega
  · rw [removeRange_to_max _ h.sorted (le_maximum_of_sorted h.sorted)]
    refine ⟨inv_take h _, fun x hx => ?_, fun x hx => List.mem_of_mem_take hx⟩
    simp only [Bm.rank] at hx
    rw [← filter_le_eq_take _ h.sorted] at hx
    simpa using (List.mem_filter.1 hx).2

/-- if every root is `≤ 1 + p` then `is_pruned p` is just `is_pruned_root p` -/
theorem isPrunedBm_of_all_le {bm : Bitmap} {p : Nat} (hall : ∀ x ∈ bm, x ≤ 1 + p) :
    isPrunedBm bm p = Bm.contains bm (1 + p) := by
  unfold isPrunedBm isPruned isPrunedRoot
  simp only
  split
  · rename_i hc; simp [hc]
  · rename_i hc
    have hr : Bm.rank bm (1 + p) = bm.length := countP_eq_length_of_all_le hall
    simp [hr, Bm.select]
    simpa using hc

/-- `append_single` of a root whose subtree is right of everything present and whose sibling is
not a root keeps the invariant -/
theorem appendSingle_inv {pl : PruneList} (h : Inv pl) (pos0 : Nat)
    (hall : ∀ x ∈ pl.bitmap, x ≤ bintreeLeftmost pos0)
    (hsib : Bm.contains pl.bitmap (1 + (family pos0).2) = false)
    (hsibpos : ∀ x ∈ pl.bitmap, x ≤ 1 + (family pos0).2) :
    Inv (appendSingle pl pos0) ∧ (appendSingle pl pos0).bitmap = pl.bitmap ++ [1 + pos0] := by
  have hlm := leftmost_le pos0
  have hlt : ∀ y ∈ pl.bitmap, y < 1 + pos0 := fun y hy => by have := hall y hy; omega
  have hadd : Bm.add pl.bitmap (1 + pos0) = pl.bitmap ++ [1 + pos0] := add_eq_append hlt
  have hrank : pos0 ≠ 0 → Bm.rank (pl.bitmap ++ [1 + pos0]) (1 + (pos0 - 1)) = pl.bitmap.length := by
    intro hp
    unfold Bm.rank
    rw [List.countP_append]
    rw [countP_eq_length_of_all_le (fun b hb => by have := hall b hb; omega)]
    have : ¬ (1 + pos0 ≤ 1 + (pos0 - 1)) := by omega
    simp [this]
  have hroot : Bm.contains (pl.bitmap ++ [1 + pos0]) (1 + pos0) = true := by simp [Bm.contains]
  have hzero : pos0 = 0 → pl.bitmap = [] := by
    intro hp; subst hp
    cases hb : pl.bitmap with
    | nil => rfl
    | cons a t =>
      have h1 := h.pos a (by simp [hb])
      have h2 := hall a (by simp [hb])
      omega
  have hprev : ∀ (f : Nat → Nat) (c : List Nat), c = scanFrom f 0 pl.bitmap →
      (if pos0 = 0 then 0 else cacheAt c (Bm.rank (pl.bitmap ++ [1 + pos0]) (1 + (pos0 - 1))))
        = sumF f pl.bitmap := by
    intro f c hc
    split
    · rename_i hp; rw [hzero hp]; rfl
    · rename_i hp
      rw [hrank hp, hc, cacheAt_scan _ _ _ (Nat.le_refl _), List.take_length]
  have hbm : (appendSingle pl pos0).bitmap = pl.bitmap ++ [1 + pos0] := by
    simp [appendSingle, hadd]
  refine ⟨⟨?_, ?_, ?_, ?_, ?_, ?_⟩, hbm⟩
  · rw [hbm]; intro x hx
    rcases List.mem_append.1 hx with hx | hx
    · exact h.pos x hx
    · simp at hx; omega
  · rw [hbm]; exact sorted_append_singleton h.sorted hlt
  · rw [hbm, List.pairwise_append]
    refine ⟨h.disj, List.pairwise_singleton _ _, fun a ha b hb => ?_⟩
    have : b = 1 + pos0 := by simpa using hb
    subst this
    have := hall a ha
    simpa using this
  · -- shift cache
    rw [hbm, scanFrom_append]
    simp only [appendSingle, calculateNextShift, getShift, isPrunedRoot, hadd, hroot, if_true]
    rw [hprev rootShift _ h.shift, h.shift]
    simp
  · rw [hbm, scanFrom_append]
    simp only [appendSingle, calculateNextLeafShift, getLeafShift, isPrunedRoot, hadd, hroot, if_true]
    rw [hprev rootLeafShift _ h.leaf, h.leaf]
    simp
  · rw [hbm]
    intro k hk
    simp only [List.length_append, List.length_singleton] at hk
    by_cases hkl : k < pl.bitmap.length
    · rw [List.take_append_of_le_length (by omega), List.getElem_append_left hkl]
      exact h.closed k hkl
    · have hk' : k = pl.bitmap.length := by omega
      subst hk'
      rw [List.take_left, List.getElem_append_right (Nat.le_refl _)]
      simp only [Nat.sub_self, List.getElem_cons_zero, Nat.add_sub_cancel_left]
      rw [isPrunedBm_of_all_le hsibpos]; exact hsib

theorem family_parent_gt (p : Nat) : p < (family p).1 := by
  unfold family; simp only
  have : 0 < 2 ^ (peakMapHeight p).2 := Nat.pow_pos (by omega)
  split <;> simp <;> omega

/-- sibling of `p` relative to the subtree of `p`: either just left of its leftmost position or
right of `p` -/
theorem family_sibling_cases (p : Nat) :
    ((family p).2 + 1 = bintreeLeftmost p ∨ (bintreeLeftmost p = 0 ∧ (family p).2 = 0)) ∨
    p < (family p).2 := by
  unfold family bintreeLeftmost height; simp only
  have : 0 < 2 ^ (peakMapHeight p).2 := Nat.pow_pos (by omega)
  split <;> simp <;> omega

/-- **roll-up invariant preserved by `append`** (any fuel, any position) -/
theorem appendFuel_inv (fuel : Nat) {pl : PruneList} (h : Inv pl) (pos0 : Nat) :
    Inv (appendFuel fuel pl pos0) := by
  induction fuel generalizing pos0 with
  | zero => exact h
  | succ n ih =>
    unfold appendFuel; simp only
    split
    · exact ih _
    · rename_i hnp
      obtain ⟨hc, hall, hsub⟩ := cleanup_inv h pos0
      have hsibroot : Bm.contains pl.bitmap (1 + (family pos0).2) = false := by
        have hnp' : isPruned pl (family pos0).2 = false := by simpa using hnp
        unfold isPruned at hnp'
        by_cases hr : isPrunedRoot pl (family pos0).2 = true
        · simp [hr] at hnp'
        · simpa [isPrunedRoot] using hr
      have hsib' : Bm.contains (cleanupSubtree pl pos0).bitmap (1 + (family pos0).2) = false := by
        cases hcc : Bm.contains (cleanupSubtree pl pos0).bitmap (1 + (family pos0).2) with
        | false => rfl
        | true =>
          have := hsub _ (contains_iff.1 hcc)
          rw [contains_iff.2 this] at hsibroot; exact absurd hsibroot (by simp)
      have hsibpos : ∀ x ∈ (cleanupSubtree pl pos0).bitmap, x ≤ 1 + (family pos0).2 := by
        intro x hx
        have h1 := hall x hx
        have h2 := hc.pos x hx
        have h3 := leftmost_le pos0
        rcases family_sibling_cases pos0 with (h4 | h4) | h4 <;> omega
      exact (appendSingle_inv hc pos0 hall hsib' hsibpos).1

theorem append_inv {pl : PruneList} (h : Inv pl) (pos0 : Nat) : Inv (append pl pos0) :=
  appendFuel_inv 64 h pos0

/-- every prune list built by `PruneList::new` from any bitmap satisfies the invariant -/
theorem new_inv (bm : Bitmap) : Inv (PruneList.new bm) := by
  unfold PruneList.new
  suffices ∀ (l : List Nat) (pl : PruneList), Inv pl →
      Inv (l.foldl (fun pl pos1 => append pl (pos1 - 1)) pl) from this bm {} inv_empty
  intro l
  induction l with
  | nil => intro pl h; exact h
  | cons x xs ih => intro pl h; exact ih _ (append_inv h _)

/-- the caches are determined by the bitmap -/
theorem inv_ext {a b : PruneList} (ha : Inv a) (hb : Inv b) (h : a.bitmap = b.bitmap) : a = b := by
  have h1 := ha.shift; have h2 := hb.shift; have h3 := ha.leaf; have h4 := hb.leaf
  cases a; cases b; simp_all

/-- one `append` of a root whose subtree is right of everything present and whose sibling is
not pruned: no roll-up, no clean-up, the root is appended -/
theorem append_step_of_inv {pre : PruneList} (hpre : Inv pre) (x : Nat) (hx1 : 1 ≤ x)
    (hall : ∀ y ∈ pre.bitmap, y ≤ bintreeLeftmost (x - 1))
    (hclosed : isPrunedBm pre.bitmap (family (x - 1)).2 = false) :
    Inv (append pre (x - 1)) ∧ (append pre (x - 1)).bitmap = pre.bitmap ++ [x] := by
  have hcl : cleanupSubtree pre (x - 1) = pre := by
    unfold cleanupSubtree
    simp only
    rw [if_pos]
    cases hm : Bm.maximum pre.bitmap with
    | none => simp
    | some m => simpa using hall m (maximum_mem hm)
  have hsibc : Bm.contains pre.bitmap (1 + (family (x - 1)).2) = false := by
    unfold isPrunedBm isPruned at hclosed
    by_cases hr : isPrunedRoot { bitmap := pre.bitmap } (family (x - 1)).2 = true
    · simp [hr] at hclosed
    · simpa [isPrunedRoot] using hr
  have hsibpos : ∀ y ∈ pre.bitmap, y ≤ 1 + (family (x - 1)).2 := by
    intro y hy
    have h1 := hall y hy
    have h2 := hpre.pos y hy
    have h3 := leftmost_le (x - 1)
    rcases family_sibling_cases (x - 1) with (h4 | h4) | h4 <;> omega
  have hstep : append pre (x - 1) = appendSingle pre (x - 1) := by
    unfold append appendFuel
    simp only
    rw [isPruned_eq, hclosed, hcl]
    simp
  obtain ⟨hinv, hbm⟩ := appendSingle_inv hpre (x - 1) hall hsibc hsibpos
  rw [hstep]
  refine ⟨hinv, ?_⟩
  rw [hbm]
  have : 1 + (x - 1) = x := by omega
  rw [this]

theorem list_snoc_induction {α : Type} {P : List α → Prop} (h0 : P [])
    (hs : ∀ l x, P l → P (l ++ [x])) : ∀ l, P l := by
  intro l
  generalize hn : l.length = n
  induction n generalizing l with
  | zero => have := List.eq_nil_of_length_eq_zero hn; subst this; exact h0
  | succ n ih =>
    have hne : l ≠ [] := by intro h; subst h; simp at hn
    rw [← List.dropLast_concat_getLast hne]
    exact hs _ _ (ih _ (by simp [hn]))

/-- re-appending the roots of a list that satisfies the invariant rebuilds exactly that list:
no roll-up and no clean-up fires -/
theorem new_of_inv : ∀ (l : List Nat) (pl : PruneList), Inv pl → pl.bitmap = l → PruneList.new l = pl := by
  apply list_snoc_induction
  · intro pl h hb
    exact inv_ext inv_empty h (by simp [PruneList.new, hb])
  · intro l x ih pl h hb
    have hlen : l.length < pl.bitmap.length := by rw [hb]; simp
    have hpre := inv_take h l.length
    have hpb : pl.bitmap.take l.length = l := by rw [hb]; simp
    have hnew := ih _ hpre hpb
    have hx : pl.bitmap[l.length] = x := by simp [hb]
    have hx1 : 1 ≤ x := h.pos x (by rw [hb]; simp)
    have hclosed := h.closed l.length hlen
    rw [hx, hpb] at hclosed
    have hall : ∀ y ∈ l, y ≤ bintreeLeftmost (x - 1) := by
      intro y hy
      have hd := h.disj
      rw [hb, List.pairwise_append] at hd
      exact hd.2.2 y hy x (by simp)
    have hstep : PruneList.new (l ++ [x]) = append (PruneList.new l) (x - 1) := by
      unfold PruneList.new
      rw [List.foldl_append]; rfl
    rw [hstep, hnew]
    obtain ⟨hinv, hbm⟩ := append_step_of_inv hpre x hx1 (by simpa [hpb] using hall)
      (by simpa [hpb] using hclosed)
    apply inv_ext hinv h
    rw [hbm, hb]
    simp [hpb]

/-- position of an element of a strictly ascending list = number of elements below it -/
theorem rank_pred_getElem {l : List Nat} (hs : Sorted l) (k : Nat) (hk : k < l.length)
    (h0 : ¬ l[k] - 1 = 0) : Bm.rank l (1 + (l[k] - 1 - 1)) = k := by
  have hsplit : l = l.take k ++ l[k] :: l.drop (k + 1) := by
    rw [List.getElem_cons_drop]; simp
  have hs' := hs
  unfold Sorted at hs'
  rw [hsplit, List.pairwise_append] at hs'
  obtain ⟨_, h2, h3⟩ := hs'
  have h2' := List.pairwise_cons.1 h2
  generalize hv : l[k] = v at *
  unfold Bm.rank
  rw [hsplit, List.countP_append, List.countP_cons]
  rw [countP_eq_length_of_all_le (fun b hb => by have := h3 b hb v (by simp); omega)]
  rw [countP_eq_zero_of_all_gt (fun b hb => by have := h2'.1 b hb; omega)]
  have : ¬ (v ≤ 1 + (v - 1 - 1)) := by omega
  simp [this, List.length_take]; omega

theorem first_of_pred_zero {pl : PruneList} (h : Inv pl) (k : Nat) (hk : k < pl.bitmap.length)
    (hz : pl.bitmap[k] - 1 = 0) : k = 0 := by
  cases k with
  | zero => rfl
  | succ j =>
    have hlt : pl.bitmap[j] < pl.bitmap[j+1] :=
      List.pairwise_iff_getElem.1 h.sorted j (j+1) (by omega) hk (by omega)
    have := h.pos _ (List.getElem_mem (show j < pl.bitmap.length by omega))
    omega

/-- the value `build_*_cache` pushes for the `k`-th root, given the cache built so far -/
theorem calc_at (f : Nat → Nat) {pl : PruneList} (h : Inv pl) (c : List Nat) (k : Nat)
    (hk : k < pl.bitmap.length) (hc : c = scanFrom f 0 (pl.bitmap.take k)) :
    (if pl.bitmap[k] - 1 = 0 then 0 else cacheAt c (Bm.rank pl.bitmap (1 + (pl.bitmap[k] - 1 - 1))))
      = sumF f (pl.bitmap.take k) := by
  split
  · rename_i hz
    have hk0 := first_of_pred_zero h k hk hz
    subst hk0; simp [sumF]
  · rename_i hz
    rw [rank_pred_getElem h.sorted k hk hz, hc,
      cacheAt_scan _ _ _ (by simp [List.length_take]; omega)]
    simp [List.take_take]

theorem isPrunedRoot_getElem {pl : PruneList} (h : Inv pl) (k : Nat) (hk : k < pl.bitmap.length) :
    Bm.contains pl.bitmap (1 + (pl.bitmap[k] - 1)) = true := by
  have hx1 : 1 ≤ pl.bitmap[k] := h.pos _ (List.getElem_mem hk)
  have : 1 + (pl.bitmap[k] - 1) = pl.bitmap[k] := by omega
  rw [this]; exact contains_iff.2 (List.getElem_mem hk)

/-- `build_shift_cache` on a list satisfying the invariant recomputes the cache it has -/
theorem buildShiftCache_inv {pl : PruneList} (h : Inv pl) : buildShiftCache pl = pl := by
  have key : ∀ k, k ≤ pl.bitmap.length →
      (pl.bitmap.take k).foldl (fun acc pos1 =>
        { acc with shiftCache := acc.shiftCache ++ [calculateNextShift acc (pos1 - 1)] })
        { pl with shiftCache := [] } =
      { pl with shiftCache := scanFrom rootShift 0 (pl.bitmap.take k) } := by
    intro k
    induction k with
    | zero => intro _; simp [scanFrom]
    | succ k ih =>
      intro hk
      have hk' : k < pl.bitmap.length := by omega
      rw [List.take_succ_eq_append_getElem hk', List.foldl_append, ih (by omega)]
      simp only [List.foldl_cons, List.foldl_nil, scanFrom_append]
      have := calc_at rootShift h _ k hk' rfl
      simp only [calculateNextShift, getShift, isPrunedRoot, isPrunedRoot_getElem h k hk', if_true]
      rw [this]; simp
  unfold buildShiftCache
  have := key pl.bitmap.length (Nat.le_refl _)
  rw [List.take_length] at this
  rw [this, ← h.shift]

theorem buildLeafShiftCache_inv {pl : PruneList} (h : Inv pl) : buildLeafShiftCache pl = pl := by
  have key : ∀ k, k ≤ pl.bitmap.length →
      (pl.bitmap.take k).foldl (fun acc pos1 =>
        { acc with leafShiftCache := acc.leafShiftCache ++ [calculateNextLeafShift acc (pos1 - 1)] })
        { pl with leafShiftCache := [] } =
      { pl with leafShiftCache := scanFrom rootLeafShift 0 (pl.bitmap.take k) } := by
    intro k
    induction k with
    | zero => intro _; simp [scanFrom]
    | succ k ih =>
      intro hk
      have hk' : k < pl.bitmap.length := by omega
      rw [List.take_succ_eq_append_getElem hk', List.foldl_append, ih (by omega)]
      simp only [List.foldl_cons, List.foldl_nil, scanFrom_append]
      have := calc_at rootLeafShift h _ k hk' rfl
      simp only [calculateNextLeafShift, getLeafShift, isPrunedRoot, isPrunedRoot_getElem h k hk', if_true]
      rw [this]; simp
  unfold buildLeafShiftCache
  have := key pl.bitmap.length (Nat.le_refl _)
  rw [List.take_length] at this
  rw [this, ← h.leaf]

/-- **reopen is the identity on the prune list**: writing the bitmap to `pmmr_prun.bin` and
`PruneList::open`ing it (re-append every root, rebuild both caches) gives back the same list -/
theorem openBm_of_inv {pl : PruneList} (h : Inv pl) : openBm pl.bitmap = pl := by
  unfold openBm initCaches
  rw [new_of_inv _ pl h rfl, buildShiftCache_inv h, buildLeafShiftCache_inv h]

end PruneList
end GV.Store
