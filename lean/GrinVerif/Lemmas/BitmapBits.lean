import GrinVerif.Lemmas.BitmapLoop
/-! Bit-level content of a chunk of the spec vector, and the little sort used by
`apply_to_bitmap_accumulator`. Core Lean only. -/
namespace GV.Bitmap
open GV GV.Pmmr

theorem chunkSet_testBit (ch j i : Nat) : (chunkSet ch j).testBit i = (ch.testBit i || decide (j = i)) := by
  simp [chunkSet, Nat.testBit_or, Nat.testBit_two_pow]

theorem setAll_testBit : ∀ (l : List Nat) (ch i : Nat),
    (setAll ch l).testBit i = (ch.testBit i || l.any (fun x => decide (x % 1024 = i))) := by
  intro l
  induction l with
  | nil => intro ch i; simp [setAll]
  | cons x l ih =>
    intro ch i
    have : setAll ch (x :: l) = setAll (chunkSet ch (x % 1024)) l := rfl
    rw [this, ih, chunkSet_testBit, List.any_cons, Bool.or_assoc]

/-- bit `i` of chunk `c` of the spec vector is set exactly when index `1024 c + i` is in `U` -/
theorem chunkOf_testBit (U : List Nat) (c i : Nat) (hi : i < 1024) :
    (chunkOf U c).testBit i = decide (c * 1024 + i ∈ U) := by
  rw [chunkOf_eq, setAll_testBit]
  simp only [chunkNew, Nat.zero_testBit, Bool.false_or]
  rw [Bool.eq_iff_iff]
  simp only [List.any_eq_true, List.mem_filter, decide_eq_true_eq, inChunk, beq_iff_eq]
  constructor
  · rintro ⟨x, ⟨hx, hc⟩, hm⟩
    have := Nat.div_add_mod x 1024
    have e : c * 1024 + i = x := by rw [← hc, ← hm, Nat.mul_comm]; exact this
    rw [e]; exact hx
  · intro h
    refine ⟨c * 1024 + i, ⟨h, ?_⟩, ?_⟩
    · rw [Nat.mul_comm, Nat.mul_add_div (by omega), Nat.div_eq_of_lt hi]; rfl
    · rw [Nat.mul_comm, Nat.mul_add_mod, Nat.mod_eq_of_lt hi]

/-! ### `sort_unstable` -/

theorem mem_insertSorted (x y : Nat) : ∀ l : List Nat, y ∈ insertSorted x l ↔ y = x ∨ y ∈ l := by
  intro l
  induction l with
  | nil => simp [insertSorted]
  | cons z zs ih =>
    rw [insertSorted]
    split
    · simp
    · simp only [List.mem_cons, ih]
      constructor
      · rintro (h | h | h) <;> simp [h]
      · rintro (h | h | h) <;> simp [h]

theorem mem_sortNat (y : Nat) : ∀ l : List Nat, y ∈ sortNat l ↔ y ∈ l := by
  intro l
  induction l with
  | nil => simp [sortNat]
  | cons x xs ih =>
    have : sortNat (x :: xs) = insertSorted x (sortNat xs) := rfl
    rw [this, mem_insertSorted, ih]; simp

theorem insertSorted_sorted (x : Nat) : ∀ l : List Nat, l.Pairwise (· ≤ ·) →
    (insertSorted x l).Pairwise (· ≤ ·) := by
  intro l
  induction l with
  | nil => intro _; simp [insertSorted]
  | cons z zs ih =>
    intro hs
    rw [insertSorted]
    rw [List.pairwise_cons] at hs
    split
    · rename_i hxz
      rw [List.pairwise_cons]
      refine ⟨?_, List.pairwise_cons.2 hs⟩
      intro a ha
      rcases List.mem_cons.1 ha with h | h
      · omega
      · have := hs.1 a h; omega
    · rename_i hxz
      rw [List.pairwise_cons]
      refine ⟨?_, ih hs.2⟩
      intro a ha
      rcases (mem_insertSorted x a zs).1 ha with h | h
      · omega
      · exact hs.1 a h

theorem sortNat_sorted : ∀ l : List Nat, (sortNat l).Pairwise (· ≤ ·) := by
  intro l
  induction l with
  | nil => simp [sortNat]
  | cons x xs ih => exact insertSorted_sorted x _ ih

/-- the head of the sorted vector is the minimum of the input -/
theorem sortNat_head (l : List Nat) (a : Nat) (t : List Nat) (h : sortNat l = a :: t) :
    a ∈ l ∧ ∀ y ∈ l, a ≤ y := by
  have hs := sortNat_sorted l
  rw [h, List.pairwise_cons] at hs
  constructor
  · exact (mem_sortNat a l).1 (by rw [h]; exact List.mem_cons_self)
  · intro y hy
    have : y ∈ a :: t := by rw [← h]; exact (mem_sortNat y l).2 hy
    rcases List.mem_cons.1 this with h1 | h1
    · omega
    · exact hs.1 y h1

theorem sortNat_eq_nil (l : List Nat) : sortNat l = [] ↔ l = [] := by
  constructor
  · intro h
    cases l with
    | nil => rfl
    | cons x xs =>
      have : x ∈ sortNat (x :: xs) := (mem_sortNat x _).2 List.mem_cons_self
      rw [h] at this; simp at this
  · intro h; subst h; rfl

end GV.Bitmap
