import GrinVerif.Model.Crash
/-! Lemmas about `pathOf` (the canonical path of a stored block read off the block table):
accumulator form, fuel monotonicity, determinism, every non-empty prefix of a path is the path of
its own tip, ids on a path are pairwise distinct, length bound. -/
namespace GV.Crash

theorem list_rev_ind {α : Type} {motive : List α → Prop} (nil : motive [])
    (snoc : ∀ l a, motive l → motive (l ++ [a])) : ∀ l, motive l := by
  intro l
  have : ∀ l' : List α, motive l'.reverse := by
    intro l'
    induction l' with
    | nil => exact nil
    | cons a l ih => rw [List.reverse_cons]; exact snoc _ _ ih
  simpa using this l.reverse

theorem snoc_ne_nil {α : Type} (l : List α) (a : α) : l ++ [a] ≠ [] := by
  intro h; simpa using congrArg List.length h

/-- id of the last block of a path (0 for the empty path), as used by `consistent`, `Target.tip`
and `fallback` -/
def tipOf (p : List BlkInfo) : Nat := (p.getLast?.map (·.id)).getD 0

@[simp] theorem tipOf_snoc (p : List BlkInfo) (b : BlkInfo) : tipOf (p ++ [b]) = b.id := by
  simp [tipOf]

theorem tipOf_eq (p : List BlkInfo) : (p.getLast?.map (·.id)).getD 0 = tipOf p := rfl

theorem pathOf_acc (tbl : List BlkInfo) : ∀ (fuel id : Nat) (acc : List BlkInfo),
    pathOf tbl fuel id acc = (pathOf tbl fuel id []).map (· ++ acc) := by
  intro fuel
  induction fuel with
  | zero => intro id acc; simp [pathOf]
  | succ f ih =>
    intro id acc
    simp only [pathOf]
    split
    · simp
    · rename_i b _
      split
      · simp
      · rename_i p _
        rw [ih p (b :: acc), ih p [b], Option.map_map]
        congr 1
        funext x
        simp

/-- one unfolding of `pathOf` with an empty accumulator -/
theorem pathOf_succ (tbl : List BlkInfo) (fuel id : Nat) :
    pathOf tbl (fuel + 1) id [] =
      match tbl.find? (·.id == id) with
      | none => none
      | some b => match b.parent with
        | none => some [b]
        | some p => (pathOf tbl fuel p []).map (· ++ [b]) := by
  simp only [pathOf]
  cases hf : tbl.find? (·.id == id) with
  | none => rfl
  | some b =>
    simp only
    cases hp : b.parent with
    | none => rfl
    | some p => simp only; rw [pathOf_acc]

theorem pathOf_mono_succ (tbl : List BlkInfo) : ∀ (fuel id : Nat) (r : List BlkInfo),
    pathOf tbl fuel id [] = some r → pathOf tbl (fuel + 1) id [] = some r := by
  intro fuel
  induction fuel with
  | zero => intro id r h; simp [pathOf] at h
  | succ f ih =>
    intro id r h
    rw [pathOf_succ] at h ⊢
    cases hf : tbl.find? (·.id == id) with
    | none => simp [hf] at h
    | some b =>
      simp only [hf] at h ⊢
      cases hp : b.parent with
      | none => simpa [hp] using h
      | some p =>
        simp only [hp] at h ⊢
        cases hq : pathOf tbl f p [] with
        | none => simp [hq] at h
        | some q =>
          rw [hq] at h
          rw [ih p q hq]
          exact h

theorem pathOf_mono (tbl : List BlkInfo) (fuel fuel' id : Nat) (r : List BlkInfo)
    (hle : fuel ≤ fuel') (h : pathOf tbl fuel id [] = some r) : pathOf tbl fuel' id [] = some r := by
  induction hle with
  | refl => exact h
  | step _ ih => exact pathOf_mono_succ tbl _ id r ih

/-- the path of an id does not depend on the fuel once it is found -/
theorem pathOf_det (tbl : List BlkInfo) (f f' id : Nat) (r r' : List BlkInfo)
    (h : pathOf tbl f id [] = some r) (h' : pathOf tbl f' id [] = some r') : r = r' := by
  have a := pathOf_mono tbl f (max f f') id r (Nat.le_max_left _ _) h
  have b := pathOf_mono tbl f' (max f f') id r' (Nat.le_max_right _ _) h'
  rw [a] at b
  exact Option.some.inj b

/-- shape of a found path: it ends in the block carrying the id, and what precedes it is the path
of that block's parent -/
theorem pathOf_snoc (tbl : List BlkInfo) (fuel id : Nat) (r : List BlkInfo)
    (h : pathOf tbl fuel id [] = some r) :
    ∃ pre b, r = pre ++ [b] ∧ b.id = id ∧
      ((b.parent = none ∧ pre = []) ∨ (∃ p, b.parent = some p ∧ pathOf tbl fuel p [] = some pre)) := by
  cases fuel with
  | zero => simp [pathOf] at h
  | succ f =>
    rw [pathOf_succ] at h
    cases hf : tbl.find? (·.id == id) with
    | none => simp [hf] at h
    | some b =>
      have hid : b.id = id := by
        have := List.find?_some hf
        simpa using this
      simp only [hf] at h
      cases hp : b.parent with
      | none =>
        simp only [hp] at h
        refine ⟨[], b, ?_, hid, Or.inl ⟨hp, rfl⟩⟩
        simpa using (Option.some.inj h).symm
      | some p =>
        simp only [hp] at h
        cases hq : pathOf tbl f p [] with
        | none => simp [hq] at h
        | some q =>
          rw [hq] at h
          refine ⟨q, b, ?_, hid, Or.inr ⟨p, hp, pathOf_mono_succ tbl f p q hq⟩⟩
          simpa using (Option.some.inj h).symm

theorem pathOf_ne_nil (tbl : List BlkInfo) (fuel id : Nat) (r : List BlkInfo)
    (h : pathOf tbl fuel id [] = some r) : r ≠ [] := by
  obtain ⟨pre, b, rfl, _, _⟩ := pathOf_snoc tbl fuel id r h
  simp

theorem pathOf_tip (tbl : List BlkInfo) (fuel id : Nat) (r : List BlkInfo)
    (h : pathOf tbl fuel id [] = some r) : tipOf r = id := by
  obtain ⟨pre, b, rfl, hid, _⟩ := pathOf_snoc tbl fuel id r h
  simp [hid]

/-- every non-empty prefix of a found path is the path of its own tip (same fuel) -/
theorem pathOf_prefix (tbl : List BlkInfo) (fuel : Nat) (Q : List BlkInfo) (hQ : Q ≠ []) :
    ∀ (R : List BlkInfo) (tip : Nat), pathOf tbl fuel tip [] = some (Q ++ R) →
      pathOf tbl fuel (tipOf Q) [] = some Q := by
  intro R
  induction R using list_rev_ind with
  | nil =>
    intro tip h
    rw [List.append_nil] at h
    rw [pathOf_tip tbl fuel tip Q h]; exact h
  | snoc R x ih =>
    intro tip h
    obtain ⟨pre, b, e, _, hh⟩ := pathOf_snoc tbl fuel tip _ h
    rw [← List.append_assoc] at e
    have e1 : Q ++ R = pre := (List.append_inj' e rfl).1
    rcases hh with ⟨_, hpre⟩ | ⟨p, _, hp⟩
    · rw [hpre] at e1
      have : Q = [] := (List.append_eq_nil_iff.mp e1).1
      exact absurd this hQ
    · rw [← e1] at hp
      exact ih p hp

/-- the ids on a found path are pairwise distinct (a repeated id would be a parent cycle) -/
theorem pathOf_ids_nodup (tbl : List BlkInfo) (fuel tip : Nat) (P : List BlkInfo)
    (h : pathOf tbl fuel tip [] = some P) : (P.map (·.id)).Nodup := by
  rw [List.nodup_iff_pairwise_ne, List.pairwise_map, List.pairwise_iff_getElem]
  intro i j hi hj hij heq
  -- the two prefixes ending in P[i] and P[j] are both the path of the same id
  have split : ∀ k (hk : k < P.length), P = (P.take k ++ [P[k]]) ++ P.drop (k + 1) := by
    intro k hk
    rw [List.append_assoc, List.singleton_append, List.getElem_cons_drop, List.take_append_drop]
  have pi := pathOf_prefix tbl fuel (P.take i ++ [P[i]]) (snoc_ne_nil _ _) (P.drop (i + 1)) tip (by rw [← split i hi]; exact h)
  have pj := pathOf_prefix tbl fuel (P.take j ++ [P[j]]) (snoc_ne_nil _ _) (P.drop (j + 1)) tip (by rw [← split j hj]; exact h)
  rw [tipOf_snoc] at pi pj
  rw [heq] at pi
  have := pathOf_det tbl fuel fuel _ _ _ pi pj
  have hl := congrArg List.length this
  simp only [List.length_append, List.length_take, List.length_singleton] at hl
  omega

theorem pathOf_length_le (tbl : List BlkInfo) : ∀ (fuel id : Nat) (r : List BlkInfo),
    pathOf tbl fuel id [] = some r → r.length ≤ fuel := by
  intro fuel
  induction fuel with
  | zero => intro id r h; simp [pathOf] at h
  | succ f ih =>
    intro id r h
    rw [pathOf_succ] at h
    cases hf : tbl.find? (·.id == id) with
    | none => simp [hf] at h
    | some b =>
      simp only [hf] at h
      cases hp : b.parent with
      | none =>
        simp only [hp] at h
        have := (Option.some.inj h).symm
        subst this; simp
      | some p =>
        simp only [hp] at h
        cases hq : pathOf tbl f p [] with
        | none => simp [hq] at h
        | some q =>
          rw [hq] at h
          have := (Option.some.inj h).symm
          subst this
          have := ih p q hq
          simp; omega

end GV.Crash
