import GrinVerif.Props.C07
import GrinVerif.Lemmas.StoreArith
import GrinVerif.Lemmas.SegInj
/-! The positions of a full segment are the post-order traversal of one complete subtree:
children arithmetic of `bintree_postorder_height`, decomposition of a subtree range, the stack
depth of the loop of `Segment::root` over it, and the identifier arithmetic without wrap-around.
Core Lean only. -/
namespace GV.Seg
open GV GV.Pmmr

/-! ### bits -/

theorem popcount_eq (n : Nat) : popcount n = n % 2 + popcount (n / 2) := by
  cases n with
  | zero => simp [popcount]
  | succ m => rw [popcount]

theorem trailingOnes_eq (m : Nat) :
    trailingOnes m = if m % 2 = 1 then 1 + trailingOnes (m / 2) else 0 := by
  cases m with
  | zero => simp [trailingOnes]
  | succ k => rw [trailingOnes]

theorem two_pow_succ (k : Nat) : 2 ^ (k + 1) = 2 * 2 ^ k := by rw [Nat.pow_succ]; omega

theorem popcount_mul_pow_add (k : Nat) : ∀ (a m : Nat), m < 2 ^ k →
    popcount (a * 2 ^ k + m) = popcount a + popcount m := by
  induction k with
  | zero => intro a m hm; have : m = 0 := by simpa using hm
            subst this; simp [popcount]
  | succ k ih =>
    intro a m hm
    have hp := two_pow_succ k
    have hA : a * 2 ^ (k + 1) = 2 * (a * 2 ^ k) := by rw [hp]; ac_rfl
    rw [popcount_eq (a * 2 ^ (k + 1) + m), popcount_eq m]
    have h1 : (a * 2 ^ (k + 1) + m) % 2 = m % 2 := by rw [hA]; omega
    have h2 : (a * 2 ^ (k + 1) + m) / 2 = a * 2 ^ k + m / 2 := by rw [hA]; omega
    rw [h1, h2, ih a (m / 2) (by omega)]
    omega

theorem trailingOnes_mod (k : Nat) : ∀ n, k ≤ trailingOnes n → n % 2 ^ k = 2 ^ k - 1 := by
  induction k with
  | zero => intro n _; simp [Nat.mod_one]
  | succ k ih =>
    intro n hn
    rw [trailingOnes_eq] at hn
    split at hn
    · rename_i hodd
      have := ih (n / 2) (by omega)
      rw [two_pow_succ, Nat.mod_mul, hodd, this]
      have hpos : 0 < 2 ^ k := Nat.pow_pos (by omega)
      omega
    · omega

theorem trailingOnes_full (k : Nat) : ∀ a, k ≤ trailingOnes (a * 2 ^ k + (2 ^ k - 1)) := by
  induction k with
  | zero => intro a; omega
  | succ k ih =>
    intro a
    have hp := two_pow_succ k
    have hpos : 0 < 2 ^ k := Nat.pow_pos (by omega)
    have hA : a * 2 ^ (k + 1) = 2 * (a * 2 ^ k) := by rw [hp]; ac_rfl
    rw [trailingOnes_eq]
    have h1 : (a * 2 ^ (k + 1) + (2 ^ (k + 1) - 1)) % 2 = 1 := by rw [hA]; omega
    have h2 : (a * 2 ^ (k + 1) + (2 ^ (k + 1) - 1)) / 2 = a * 2 ^ k + (2 ^ k - 1) := by rw [hA]; omega
    rw [if_pos h1, h2]
    have := ih a
    omega

/-- `mmr` of the last leaf index of an aligned block of `2^k` leaves -/
theorem mmr_block (a k : Nat) :
    mmr (a * 2 ^ k + (2 ^ k - 1)) + k + 2 = mmr (a * 2 ^ k) + 2 * 2 ^ k := by
  have hpos : 0 < 2 ^ k := Nat.pow_pos (by omega)
  have h1 := popcount_mul_pow_add k a (2 ^ k - 1) (by omega)
  have h2 := popcount_mul_pow_add k a 0 hpos
  rw [GV.Store.popcount_pow_pred] at h1
  have h0 : popcount 0 = 0 := by simp [popcount]
  rw [h0] at h2
  simp only [Nat.add_zero] at h2
  have h3 := popcount_le a
  have h4 : a ≤ a * 2 ^ k := Nat.le_mul_of_pos_right a hpos
  have h5 : k ≤ 2 ^ k - 1 := by
    have := popcount_le (2 ^ k - 1); rw [GV.Store.popcount_pow_pred] at this; exact this
  unfold mmr
  rw [h1, h2]
  omega

/-! ### children of a node -/

/-- the right child of a node of height `h+1` at `p` is `p-1`, the left child `p - 2^(h+1)`;
both have height `h` -/
theorem height_children (p h : Nat) (hp : height p = h + 1) :
    height (p - 1) = h ∧ height (p - 2 ^ (h + 1)) = h := by
  obtain ⟨n, k, hk, rfl⟩ := GV.Props.C07.coord_surjective p
  have hc := GV.Props.C07.height_coord n k hk
  rw [hc] at hp
  subst hp
  constructor
  · have e : mmr n + (h + 1) - 1 = mmr n + h := by omega
    rw [e]
    exact GV.Props.C07.height_coord n h (by omega)
  · -- n = a * 2^(h+1) + (2^(h+1) - 1)
    have hmod := trailingOnes_mod (h + 1) n hk
    have hp := two_pow_succ h
    have hpos : 0 < 2 ^ h := Nat.pow_pos (by omega)
    obtain ⟨a, ha⟩ : ∃ a, n = a * 2 ^ (h + 1) + (2 ^ (h + 1) - 1) :=
      ⟨n / 2 ^ (h + 1), by have := Nat.div_add_mod n (2 ^ (h + 1)); rw [hmod] at this; rw [Nat.mul_comm]; omega⟩
    -- left child = node (n - 2^h, h)
    have hn' : n - 2 ^ h = (2 * a) * 2 ^ h + (2 ^ h - 1) := by
      rw [ha, hp]; rw [Nat.mul_assoc]
      have : a * (2 * 2 ^ h) = 2 * (a * 2 ^ h) := by ac_rfl
      rw [this]; omega
    have b1 := mmr_block a (h + 1)
    have b2 := mmr_block (2 * a) h
    have e0 : a * 2 ^ (h + 1) = 2 * a * 2 ^ h := by rw [hp]; ac_rfl
    rw [← ha] at b1
    rw [← hn'] at b2
    rw [e0] at b1
    have e : mmr n + (h + 1) - 2 ^ (h + 1) = mmr (n - 2 ^ h) + h := by omega
    rw [e]
    refine GV.Props.C07.height_coord (n - 2 ^ h) h ?_
    rw [hn']
    exact trailingOnes_full h (2 * a)

/-! ### the range of a subtree -/

/-- positions of the subtree of height `h` rooted at `p`, in post-order -/
def treeRange (h p : Nat) : List Nat := List.range' (p + 2 - 2 ^ (h + 1)) (2 ^ (h + 1) - 1)

theorem treeRange_zero (p : Nat) : treeRange 0 p = [p] := by
  simp [treeRange, List.range'_one]

theorem treeRange_succ (h p : Nat) (hb : 2 * 2 ^ (h + 1) ≤ p + 2) :
    treeRange (h + 1) p = treeRange h (p - 2 ^ (h + 1)) ++ treeRange h (p - 1) ++ [p] := by
  unfold treeRange
  have hp := two_pow_succ h
  have hp2 := two_pow_succ (h + 1)
  have hpos : 0 < 2 ^ h := Nat.pow_pos (by omega)
  have e1 : p - 1 + 2 - 2 ^ (h + 1) = (p - 2 ^ (h + 1) + 2 - 2 ^ (h + 1)) + (2 ^ (h + 1) - 1) := by omega
  have e2 : [p] = List.range' ((p - 2 ^ (h + 1) + 2 - 2 ^ (h + 1)) + ((2 ^ (h + 1) - 1) + (2 ^ (h + 1) - 1))) 1 := by
    rw [List.range'_one]; congr 1; omega
  rw [e1, List.range'_append_1, e2, List.range'_append_1]
  congr 1 <;> omega

theorem depthLoop_append : ∀ (a b : List Nat) (d : Nat),
    depthLoop d (a ++ b) = match depthLoop d a with
      | some d' => depthLoop d' b
      | none => none := by
  intro a
  induction a with
  | nil => intro b d; simp [depthLoop]
  | cons p ps ih =>
    intro b d
    simp only [List.cons_append, depthLoop]
    cases depthStep d p with
    | none => rfl
    | some d' => exact ih b d'

/-- the loop over a complete subtree leaves exactly one more entry on the stack -/
theorem depthLoop_tree (h : Nat) : ∀ (p d : Nat), height p = h →
    depthLoop d (treeRange h p) = some (d + 1) := by
  induction h with
  | zero =>
    intro p d hp
    simp [treeRange_zero, depthLoop, depthStep, hp]
  | succ h ih =>
    intro p d hp
    have hb := GV.Store.height_bound p
    rw [hp] at hb
    obtain ⟨hr, hl⟩ := height_children p h hp
    rw [treeRange_succ h p hb, depthLoop_append, depthLoop_append, ih _ d hl]
    simp only [ih _ (d + 1) hr]
    simp [depthLoop, depthStep, hp]

/-! ### identifier arithmetic of a full segment, without wrap-around -/

/-- a full segment of an MMR whose leaf count is far below the u64 range: `height < 64`, the
block of `2^height` leaves lies inside the MMR -/
structure FullId (id : Ident) (size : Nat) : Prop where
  hh : id.height < 64
  fit : (id.idx + 1) * 2 ^ id.height ≤ nLeaves size
  small : nLeaves size < 2 ^ 62

/-- last position of the full segment `id`: the subtree root above its `2^height` leaves -/
def lastOf (id : Ident) : Nat := mmr (id.idx * 2 ^ id.height + (2 ^ id.height - 1)) + id.height

theorem subW_small (a b : Nat) (hb : b ≤ a) (ha : a < 2 ^ 64) : subW a b = a - b := by
  unfold subW
  have : b % 2 ^ 64 = b := Nat.mod_eq_of_lt (by omega)
  rw [this]
  omega

theorem ins2pmmrW_small (n : Nat) (hn : n < 2 ^ 63) : ins2pmmrW n = mmr n := by
  unfold ins2pmmrW mulW mmr
  have h1 := popcount_le n
  have : 2 * n % 2 ^ 64 = 2 * n := Nat.mod_eq_of_lt (by omega)
  rw [this]
  exact subW_small _ _ (by omega) (by omega)

theorem full_arith (id : Ident) (size : Nat) (v : FullId id size) :
    id.capacity = 2 ^ id.height ∧ id.leafOffset = id.idx * 2 ^ id.height ∧
    id.full size = true ∧
    id.posRange size = (mmr (id.idx * 2 ^ id.height), lastOf id) := by
  obtain ⟨hh, fit, small⟩ := v
  have hpow : 2 ^ id.height < 2 ^ 64 := Nat.pow_lt_pow_right (by omega) (by omega)
  have hpos : 0 < 2 ^ id.height := Nat.pow_pos (by omega)
  have hcap : id.capacity = 2 ^ id.height := by
    unfold Ident.capacity shlW
    rw [Nat.mod_eq_of_lt hh, Nat.one_mul, Nat.mod_eq_of_lt hpow]
  have hfit : id.idx * 2 ^ id.height + 2 ^ id.height ≤ nLeaves size := by
    rw [Nat.add_mul, Nat.one_mul] at fit; exact fit
  have hoff : id.leafOffset = id.idx * 2 ^ id.height := by
    unfold Ident.leafOffset mulW
    rw [hcap]
    exact Nat.mod_eq_of_lt (by omega)
  have hus : id.unprunedSize size = 2 ^ id.height := by
    unfold Ident.unprunedSize satSub
    rw [hcap, hoff]
    exact Nat.min_eq_left (by omega)
  have hfull : id.full size = true := by
    unfold Ident.full
    rw [hus, hcap]
    simp
  refine ⟨hcap, hoff, hfull, ?_⟩
  unfold Ident.posRange lastOf
  simp only [hfull, if_true, hus, hoff]
  have e1 : addW (id.idx * 2 ^ id.height) (2 ^ id.height) = id.idx * 2 ^ id.height + 2 ^ id.height := by
    unfold addW; exact Nat.mod_eq_of_lt (by omega)
  have e2 : subW (id.idx * 2 ^ id.height + 2 ^ id.height) 1 = id.idx * 2 ^ id.height + (2 ^ id.height - 1) := by
    rw [subW_small _ _ (by omega) (by omega)]; omega
  rw [e1, e2, ins2pmmrW_small _ (by omega), ins2pmmrW_small _ (by omega)]
  have hm : mmr (id.idx * 2 ^ id.height + (2 ^ id.height - 1)) ≤ 2 * (id.idx * 2 ^ id.height + (2 ^ id.height - 1)) := by
    unfold mmr; omega
  have e3 : addW (mmr (id.idx * 2 ^ id.height + (2 ^ id.height - 1))) id.height =
      mmr (id.idx * 2 ^ id.height + (2 ^ id.height - 1)) + id.height := by
    unfold addW; exact Nat.mod_eq_of_lt (by omega)
  rw [e3]

theorem height_lastOf (id : Ident) : height (lastOf id) = id.height :=
  GV.Props.C07.height_coord _ _ (trailingOnes_full id.height id.idx)

/-- the positions of a full segment are the post-order range of the subtree below its last
position -/
theorem full_positions (id : Ident) (size : Nat) (v : FullId id size) :
    id.positions size = treeRange id.height (lastOf id) := by
  obtain ⟨_, _, _, hr⟩ := full_arith id size v
  unfold Ident.positions treeRange
  rw [hr]
  simp only
  have hb := mmr_block id.idx id.height
  have hp := two_pow_succ id.height
  have hl : lastOf id = mmr (id.idx * 2 ^ id.height + (2 ^ id.height - 1)) + id.height := rfl
  congr 1 <;> omega

/-- **a full segment's range is well formed** (the loop of `root` leaves exactly one entry) -/
theorem wellFormed_full (id : Ident) (size : Nat) (v : FullId id size) : WellFormedRange id size := by
  unfold WellFormedRange
  rw [full_positions id size v, (full_arith id size v).2.2.1]
  simp only [if_true]
  exact depthLoop_tree id.height (lastOf id) 0 (height_lastOf id)

end GV.Seg
