import GrinVerif.Lemmas.SegLive
import GrinVerif.Lemmas.SegPeaks
/-! Segments of a pruned / compacted MMR served with `prunable = true` and validated with the
bitmap of unspent leaves (output and rangeproof MMRs).  `PrunedView` characterises what the
`ReadonlyPMMR` of a store in a state reachable through its usage protocol answers: a position is
off file only strictly inside a compacted subtree, whose leaves are all spent.  Core Lean only. -/
namespace GV.Seg
open GV GV.Pmmr

variable {α H : Type}

/-! ### `from_pmmr(.., prunable = true)`: what the fill loop collects -/

/-- the leaf entry `from_pmmr` pushes for position `p` -/
def leafEntry (V : View α H) (p : Nat) : Option (Nat × α) :=
  if isLeaf p then (V.dataFromFile p).map fun d => (p, d) else none

/-- the hash entry `from_pmmr` pushes for position `p` (prunable MMR) -/
def hashEntry (V : View α H) (p : Nat) : Option (Nat × H) :=
  if (leafEntry V p).isSome then none else (V.fromFile p).map fun h => (p, h)

theorem fill_prunable (V : View α H) : ∀ (ps : List Nat),
    fill V true ps = .ok (ps.filterMap (hashEntry V), ps.filterMap (leafEntry V)) := by
  intro ps
  induction ps with
  | nil => rfl
  | cons p ps ih =>
    simp only [fill, Bool.not_true, Bool.and_false, Bool.false_eq_true, if_false, ih, if_true,
      List.filterMap_cons, hashEntry, leafEntry]
    by_cases hl : isLeaf p = true
    · simp only [hl, if_true]
      cases hd : V.dataFromFile p with
      | some d => simp
      | none =>
        simp only [Option.map_none, Option.isSome_none, Bool.false_eq_true, if_false]
        cases V.fromFile p <;> simp
    · simp only [hl, Bool.false_eq_true, if_false, Option.isSome_none]
      cases V.fromFile p <;> simp

theorem leafEntry_fst (V : View α H) (p : Nat) (e : Nat × α) (h : leafEntry V p = some e) :
    e.1 = p ∧ height p = 0 ∧ V.dataFromFile p = some e.2 := by
  unfold leafEntry at h
  by_cases hl : isLeaf p = true
  · simp only [hl, if_true] at h
    cases hd : V.dataFromFile p with
    | none => rw [hd] at h; cases h
    | some d =>
      rw [hd] at h
      simp only [Option.map_some, Option.some.injEq] at h
      subst h
      exact ⟨rfl, by simpa [isLeaf] using hl, rfl⟩
  · simp only [hl, Bool.false_eq_true, if_false] at h; cases h

theorem hashEntry_fst (V : View α H) (p : Nat) (e : Nat × H) (h : hashEntry V p = some e) :
    e.1 = p ∧ V.fromFile p = some e.2 := by
  unfold hashEntry at h
  split at h
  · cases h
  · cases hd : V.fromFile p with
    | none => rw [hd] at h; cases h
    | some x =>
      rw [hd] at h
      simp only [Option.map_some, Option.some.injEq] at h
      subst h
      exact ⟨rfl, rfl⟩

/-- `get_hash` on the collected hash list finds the entry of a position -/
theorem lookup_filterMap {β : Type} (F : Nat → Option (Nat × β))
    (hF : ∀ p e, F p = some e → e.1 = p) (d : Nat) (x : β) (hd : F d = some (d, x)) :
    ∀ (ps : List Nat), d ∈ ps → lookup (ps.filterMap F) d = some x := by
  intro ps
  induction ps with
  | nil => intro h; cases h
  | cons p ps ih =>
    intro h
    by_cases hp : p = d
    · subst hp
      simp [List.filterMap_cons, hd, lookup]
    · have hm : d ∈ ps := by
        rcases List.mem_cons.1 h with h | h
        · exact absurd h.symm hp
        · exact h
      rw [List.filterMap_cons]
      cases hfp : F p with
      | none => exact ih hm
      | some e =>
        obtain ⟨q, y⟩ := e
        have := hF p _ hfp
        simp only at this
        subst this
        simp only [lookup, hp, if_false]
        exact ih hm

/-- the segment `from_pmmr(.., prunable = true)` builds when it is not completely compacted -/
def prunedSeg (V : View α H) (id : Ident) (ps : List Nat) (proof : List H) : Segment α H :=
  { id := id,
    hashPos := (ps.filterMap (hashEntry V)).map (·.1), hashes := (ps.filterMap (hashEntry V)).map (·.2),
    leafPos := (ps.filterMap (leafEntry V)).map (·.1), leafData := (ps.filterMap (leafEntry V)).map (·.2),
    proof := proof }

theorem prunedSeg_getHash (V : View α H) (id : Ident) (ps : List Nat) (proof : List H) (d : Nat) (x : H)
    (hd : d ∈ ps) (he : hashEntry V d = some (d, x)) :
    (prunedSeg V id ps proof).getHash d = .ok x := by
  unfold Segment.getHash prunedSeg
  simp only
  rw [← List.zip_of_prod rfl rfl,
    lookup_filterMap (hashEntry V) (fun p e h => (hashEntry_fst V p e h).1) d x he ps hd]

theorem prunedSeg_leaves (V : View α H) (id : Ident) (ps : List Nat) (proof : List H) :
    (prunedSeg V id ps proof).leafPos.zip (prunedSeg V id ps proof).leafData
      = ps.filterMap (leafEntry V) := (List.zip_of_prod rfl rfl).symm

theorem fromPmmrWith_prunable (hf : HashFn α H) (V : View α H) (id : Ident) (ps : List Nat)
    (first last : Nat)
    (hne : ¬ ((ps.filterMap (leafEntry V)).isEmpty = true ∧ (ps.filterMap (hashEntry V)).isEmpty = true))
    (proof : List H) (hgen : generate hf V (1 + first) (1 + last) none = .ok proof) :
    fromPmmrWith hf V id true ps first last = .ok (prunedSeg V id ps proof) := by
  unfold fromPmmrWith
  rw [fill_prunable]
  have : ((ps.filterMap (leafEntry V)).isEmpty && (ps.filterMap (hashEntry V)).isEmpty) = false := by
    cases h1 : (ps.filterMap (leafEntry V)).isEmpty <;> cases h2 : (ps.filterMap (hashEntry V)).isEmpty <;>
      simp_all
  simp only [this, Bool.false_eq_true, if_false, hgen]
  rfl

/-! ### the served state -/

/-- What a `ReadonlyPMMR` over a pruned / compacted backend answers, with the bitmap `b` of unspent
leaf indices (`N < 2^32` leaves: the bitmap is indexed by `u32`).  In (leaf-count, height)
coordinates the inner node `(n, k+1)` has the children `(n - 2^k, k)` and `(n, k)` and covers the
leaves `n + 1 - 2^(k+1) ..= n`.  `compacted`: a position is off file only strictly inside a
compacted subtree — if an inner node or one of its children is off file then both children are,
and no leaf below the node is marked unspent.  `data_compacted`: a leaf whose hash is off file has
its data off file too — `PMMRBackend::get_from_file` and `get_data_from_file`
(`store/src/pmmr.rs`) both start with `if self.is_compacted(pos0) { return None; }` and read the
file otherwise, so below the MMR size `get_from_file(pos0) = None` means `is_compacted(pos0)`, and
then `get_data_from_file(pos0) = None` (the converse of `data_of_file`; without it the record
admits a view that still answers the *data* of a compacted leaf, for which `from_pmmr` does not
take its "fully pruned segment" branch and fails: `Lemmas/SegFupViews.lean`, `keepData_fails`). -/
structure PrunedView (hf : HashFn α H) (f : Nat → α) (N : Nat) (b : Nat → Bool) (V : View α H) : Prop where
  size : V.size = mmr N
  small : N < 2 ^ 32
  file_genuine : ∀ q h, q < mmr N → V.fromFile q = some h → h = hAt hf f q
  data_genuine : ∀ q d, q < mmr N → height q = 0 → V.dataFromFile q = some d → d = dAt f q
  data_of_file : ∀ q, q < mmr N → height q = 0 → V.dataFromFile q = none → V.fromFile q = none
  data_compacted : ∀ q, q < mmr N → height q = 0 → V.fromFile q = none → V.dataFromFile q = none
  hash_inner : ∀ q, q < mmr N → height q ≠ 0 → V.hash q = V.fromFile q
  peaks_on_file : ∀ p ∈ peaks (mmr N), V.fromFile p ≠ none
  compacted : ∀ n k, k + 1 ≤ trailingOnes n → n < N →
    (V.fromFile (mmr n + (k + 1)) = none ∨ V.fromFile (mmr (n - 2 ^ k) + k) = none ∨
      V.fromFile (mmr n + k) = none) →
    V.fromFile (mmr (n - 2 ^ k) + k) = none ∧ V.fromFile (mmr n + k) = none ∧
      ∀ j, n + 1 - 2 ^ (k + 1) ≤ j → j ≤ n → b j = false

/-! ### `required` in coordinates -/

theorem required_leaf (b : Nat → Bool) (N j : Nat) (hj : j < N) (hN : N < 2 ^ 32) :
    required (some b) (mmr N) (mmr j) =
      (b j || b (if trailingOnes j = 0 then j + 1 else j - 1) || mmr j == mmr N - 1) := by
  have h1 : nLeaves (mmr j + 1) = j + 1 := by rw [Nat.add_comm]; exact nLeaves_succ_leaf j
  have h2 : isLeftSibling (mmr j) = decide (0 = trailingOnes j) := by
    have := GV.Props.C07.isLeftSibling_coord j 0 (Nat.zero_le _)
    simpa using this
  have hm : mmr N ≤ 2 * N := by unfold mmr; omega
  have hm1 : 1 ≤ mmr N := by have := le_mmr N; omega
  have h3 : subW (mmr N) 1 = mmr N - 1 := subW_small _ _ hm1 (by omega)
  unfold required
  simp only [h1, h2, h3, Nat.add_sub_cancel]
  have e1 : j % 2 ^ 32 = j := Nat.mod_eq_of_lt (by omega)
  by_cases ht : trailingOnes j = 0
  · have e2 : (j + 1) % 2 ^ 32 = j + 1 := Nat.mod_eq_of_lt (by omega)
    simp [ht, e1, e2]
  · have e2 : (j - 1) % 2 ^ 32 = j - 1 := Nat.mod_eq_of_lt (by omega)
    have : ¬ (0 = trailingOnes j) := by omega
    simp [ht, this, e1, e2]

/-- the two leaf children of an inner node `(n, 1)` are leaves `n - 1` and `n`; they are required
together -/
theorem required_pair (b : Nat → Bool) (N n : Nat) (hn : n < N) (hN : N < 2 ^ 32)
    (ht : 1 ≤ trailingOnes n) :
    required (some b) (mmr N) (mmr (n - 1)) = (b (n - 1) || b n) ∧
    required (some b) (mmr N) (mmr n) = (b (n - 1) || b n) := by
  obtain ⟨_, h2, h3, h4⟩ := Co.left_sibling_coord (show 0 < trailingOnes n from ht)
  simp only [Nat.pow_zero] at h2 h3 h4
  have hlt : mmr n + 1 < mmr N := (Co.coord_lt_iff (show 1 ≤ trailingOnes n from ht)).2 hn
  rw [required_leaf b N (n - 1) (by omega) hN, required_leaf b N n hn hN]
  have e1 : (mmr (n - 1) == mmr N - 1) = false := by
    simp only [beq_eq_false_iff_ne, ne_eq]; omega
  have e2 : (mmr n == mmr N - 1) = false := by
    simp only [beq_eq_false_iff_ne, ne_eq]; omega
  have e3 : n - 1 + 1 = n := by omega
  have e4 : ¬ trailingOnes n = 0 := by omega
  simp only [h4, if_true, e1, e2, e3, e4, if_false, Bool.or_false]
  exact ⟨trivial, Bool.or_comm _ _⟩

/-- no leaf below the inner node `(n, h)`, `h ≥ 1`, is marked ⇒ nothing below it is required -/
theorem dead_of_unmarked (b : Nat → Bool) (N : Nat) (hN : N < 2 ^ 32) : ∀ (h n : Nat),
    h + 1 ≤ trailingOnes n → n < N → (∀ j, n + 1 - 2 ^ (h + 1) ≤ j → j ≤ n → b j = false) →
    liveAt (some b) (mmr N) (h + 1) (mmr n + (h + 1)) = false := by
  intro h
  induction h with
  | zero =>
    intro n ht hn hb
    obtain ⟨_, h2, h3, _⟩ := Co.left_sibling_coord (show 0 < trailingOnes n from ht)
    simp only [Nat.pow_zero] at h2 h3
    obtain ⟨r1, r2⟩ := required_pair b N n hn hN ht
    have eL : mmr n + (0 + 1) - 2 ^ (0 + 1) = mmr (n - 1) := by simp; omega
    have eR : mmr n + (0 + 1) - 1 = mmr n := by omega
    have hb1 : b (n - 1) = false := hb (n - 1) (by simp only [Nat.zero_add, Nat.pow_one]; omega) (by omega)
    have hb2 : b n = false := hb n (by simp only [Nat.zero_add, Nat.pow_one]; omega) (Nat.le_refl n)
    simp only [liveAt, eL, eR, r1, r2, hb1, hb2]
    rfl
  | succ h ih =>
    intro n ht hn hb
    obtain ⟨h1, h2, h3, _⟩ := Co.left_sibling_coord (show h + 1 < trailingOnes n from ht)
    have hp1 := two_pow_succ (h + 1)
    have hpos : 0 < 2 ^ (h + 1) := Nat.pow_pos (by omega)
    have eL : mmr n + (h + 1 + 1) - 2 ^ (h + 1 + 1) = mmr (n - 2 ^ (h + 1)) + (h + 1) := by omega
    have eR : mmr n + (h + 1 + 1) - 1 = mmr n + (h + 1) := by omega
    rw [liveAt, eL, eR, ih (n - 2 ^ (h + 1)) h1 (by omega) (fun j hj1 hj2 => hb j (by omega) (by omega)),
      ih n (by omega) hn (fun j hj1 hj2 => hb j (by omega) hj2)]
    rfl

/-! ### what the pruned segment holds -/

section Holds
variable {hf : HashFn α H} {f : Nat → α} {N : Nat} {b : Nat → Bool} {V : View α H}

/-- the data of every required leaf is on file -/
theorem required_has_data (pv : PrunedView hf f N b V) (q : Nat) (hq : q < mmr N) (hl : height q = 0)
    (hr : required (some b) (mmr N) q = true) : V.dataFromFile q ≠ none := by
  intro hd
  have hfile := pv.data_of_file q hq hl hd
  obtain ⟨j, h, hh, rfl⟩ := Co.coord_surj q
  rw [Co.height_co j h hh] at hl
  subst hl
  simp only [Nat.add_zero] at hq hr hfile
  have hj : j < N := (Co.coord_lt_iff (Nat.zero_le _)).1 (by simpa using hq)
  by_cases ht : 1 ≤ trailingOnes j
  · -- right child of `(j, 1)`
    obtain ⟨_, _, hun⟩ := pv.compacted j 0 ht hj (Or.inr (Or.inr (by simpa using hfile)))
    obtain ⟨_, r2⟩ := required_pair b N j hj pv.small ht
    have hp := Co.two_pow_le_of_le_trailingOnes ht
    rw [r2, hun (j - 1) (by simp only [Nat.zero_add, Nat.pow_one]; omega) (by omega),
      hun j (by simp only [Nat.zero_add, Nat.pow_one]; omega) (Nat.le_refl j)] at hr
    cases hr
  · have ht0 : 0 = trailingOnes j := by omega
    by_cases hlast : j + 1 < N
    · -- left child of `(j + 1, 1)`
      obtain ⟨h1, _⟩ := Co.right_sibling_coord ht0
      simp only [Nat.pow_zero, Nat.zero_add] at h1
      have e : j + 1 - 2 ^ 0 = j := by simp
      obtain ⟨_, _, hun⟩ := pv.compacted (j + 1) 0 h1 hlast (Or.inr (Or.inl (by rw [e]; simpa using hfile)))
      obtain ⟨r1, _⟩ := required_pair b N (j + 1) hlast pv.small h1
      simp only [Nat.add_sub_cancel] at r1
      rw [r1, hun j (by simp only [Nat.zero_add, Nat.pow_one]; omega) (by omega),
        hun (j + 1) (by simp only [Nat.zero_add, Nat.pow_one]; omega) (Nat.le_refl _)] at hr
      cases hr
    · -- the lone last leaf is a peak
      have hN : N = j + 1 := by omega
      have hlp := last_peak N (by omega)
      have hm : mmr N - 1 = mmr j := by rw [hN, mmr_succ]; omega
      rw [hm] at hlp
      exact pv.peaks_on_file (mmr j) (List.mem_of_getLast? hlp) hfile

/-- an inner node with exactly one live child: the dead child is on file, not a leaf, genuine -/
theorem dead_child_on_file (pv : PrunedView hf f N b V) (p k : Nat) (hp : p < mmr N)
    (hh : height p = k + 1)
    (hne : liveAt (some b) (mmr N) k (p - 2 ^ (k + 1)) ≠ liveAt (some b) (mmr N) k (p - 1)) :
    1 ≤ k ∧ V.fromFile (p - 2 ^ (k + 1)) = some (hAt hf f (p - 2 ^ (k + 1))) ∧
      V.fromFile (p - 1) = some (hAt hf f (p - 1)) := by
  obtain ⟨n, h, hv, rfl⟩ := Co.coord_surj p
  rw [Co.height_co n h hv] at hh
  subst hh
  have hn : n < N := (Co.coord_lt_iff hv).1 hp
  obtain ⟨h1, h2, h3, _⟩ := Co.left_sibling_coord (show k < trailingOnes n from hv)
  have hp1 := two_pow_succ k
  have hpos : 0 < 2 ^ k := Nat.pow_pos (by omega)
  have eL : mmr n + (k + 1) - 2 ^ (k + 1) = mmr (n - 2 ^ k) + k := by omega
  have eR : mmr n + (k + 1) - 1 = mmr n + k := by omega
  rw [eL, eR] at hne ⊢
  have hk : 1 ≤ k := by
    apply Classical.byContradiction
    intro hc
    have : k = 0 := by omega
    subst this
    obtain ⟨r1, r2⟩ := required_pair b N n hn pv.small hv
    simp only [liveAt, Nat.pow_zero, Nat.add_zero] at hne
    rw [r1, r2] at hne
    exact hne rfl
  have hon : V.fromFile (mmr (n - 2 ^ k) + k) ≠ none ∧ V.fromFile (mmr n + k) ≠ none := by
    apply Classical.byContradiction
    intro hc
    have hoff : V.fromFile (mmr (n - 2 ^ k) + k) = none ∨ V.fromFile (mmr n + k) = none := by
      by_cases h1' : V.fromFile (mmr (n - 2 ^ k) + k) = none
      · exact Or.inl h1'
      · by_cases h2' : V.fromFile (mmr n + k) = none
        · exact Or.inr h2'
        · exact absurd ⟨h1', h2'⟩ hc
    obtain ⟨_, _, hun⟩ := pv.compacted n k hv hn (Or.inr hoff)
    obtain ⟨k', rfl⟩ : ∃ k', k = k' + 1 := ⟨k - 1, by omega⟩
    have hd := dead_of_unmarked b N pv.small (k' + 1) n hv hn hun
    rw [liveAt, eL, eR] at hd
    cases hL : liveAt (some b) (mmr N) (k' + 1) (mmr (n - 2 ^ (k' + 1)) + (k' + 1)) <;>
      cases hR : liveAt (some b) (mmr N) (k' + 1) (mmr n + (k' + 1)) <;> simp_all
  have hltL : mmr (n - 2 ^ k) + k < mmr N := (Co.coord_lt_iff h1).2 (by omega)
  have hltR : mmr n + k < mmr N := (Co.coord_lt_iff (show k ≤ trailingOnes n by omega)).2 hn
  refine ⟨hk, ?_, ?_⟩
  · cases hx : V.fromFile (mmr (n - 2 ^ k) + k) with
    | none => exact absurd hx hon.1
    | some x => rw [pv.file_genuine _ x hltL hx]
  · cases hx : V.fromFile (mmr n + k) with
    | none => exact absurd hx hon.2
    | some x => rw [pv.file_genuine _ x hltR hx]

/-- the hash entry of a non-leaf position on file -/
theorem hashEntry_inner (V : View α H) (d : Nat) (x : H) (hd : height d ≠ 0) (hx : V.fromFile d = some x) :
    hashEntry V d = some (d, x) := by
  have hl : isLeaf d = false := by simp [isLeaf, hd]
  simp [hashEntry, leafEntry, hl, hx]

/-- the leaves that must be found in the segment's leaf list -/
def needOf (V : View α H) (ps : List Nat) (q : Nat) : Prop :=
  q ∈ ps ∧ height q = 0 ∧ V.dataFromFile q ≠ none

theorem pruned_holds (pv : PrunedView hf f N b V) (id : Ident) (ps : List Nat) (proof : List H)
    (lo0 hi0 : Nat) (hps : ∀ q, lo0 ≤ q → q ≤ hi0 → q ∈ ps) (hhi : hi0 < mmr N) :
    Holds hf f (prunedSeg V id ps proof) (some b) (mmr N) (needOf V ps) lo0 hi0 where
  leaf := fun q h1 h2 hl hr => ⟨hps q h1 h2, hl, required_has_data pv q (by omega) hl hr⟩
  left := by
    intro p k h1 h2 hh hL hR
    obtain ⟨hk, hfl, _⟩ := dead_child_on_file pv p k (by omega) hh (by rw [hL, hR]; simp)
    have hb := GV.Store.height_bound p
    rw [hh] at hb
    have hp1 := two_pow_succ (k + 1)
    have hp0 := two_pow_succ k
    have hpos : 0 < 2 ^ k := Nat.pow_pos (by omega)
    obtain ⟨_, hhl⟩ := height_children p k hh
    exact prunedSeg_getHash V id ps proof _ _ (hps _ (by omega) (by omega))
      (hashEntry_inner V _ _ (by omega) hfl)
  right := by
    intro p k h1 h2 hh hL hR
    obtain ⟨hk, _, hfr⟩ := dead_child_on_file pv p k (by omega) hh (by rw [hL, hR]; simp)
    have hb := GV.Store.height_bound p
    rw [hh] at hb
    have hp1 := two_pow_succ (k + 1)
    have hp0 := two_pow_succ k
    have hpos : 0 < 2 ^ k := Nat.pow_pos (by omega)
    obtain ⟨hhr, _⟩ := height_children p k hh
    exact prunedSeg_getHash V id ps proof _ _ (hps _ (by omega) (by omega))
      (hashEntry_inner V _ _ (by omega) hfr)

/-- the leaf list `from_pmmr` collected satisfies the iterator invariant -/
theorem pruned_iterInv (pv : PrunedView hf f N b V) (ps : List Nat) (hsorted : ps.Pairwise (· < ·))
    (hlt : ∀ p ∈ ps, p < mmr N) (lo : Nat) :
    IterInv f (needOf V ps) (ps.filterMap (leafEntry V)) lo where
  sorted := by
    apply List.Pairwise.filterMap (leafEntry V) _ hsorted
    intro a a' haa e he e' he'
    rw [(leafEntry_fst V a e he).1, (leafEntry_fst V a' e' he').1]
    exact haa
  genuine := by
    intro e he
    obtain ⟨p, hp, hpe⟩ := List.mem_filterMap.1 he
    obtain ⟨h1, h2, h3⟩ := leafEntry_fst V p e hpe
    rw [h1]
    exact pv.data_genuine p e.2 (hlt p hp) h2 h3
  has := by
    intro q _ hn
    obtain ⟨hq, hl, hd⟩ := hn
    cases hx : V.dataFromFile q with
    | none => exact absurd hx hd
    | some d =>
      have := pv.data_genuine q d (hlt q hq) hl hx
      subst this
      apply List.mem_filterMap.2
      refine ⟨q, hq, ?_⟩
      have : isLeaf q = true := by simp [isLeaf, hl]
      simp [leafEntry, this, hx]

end Holds

/-! ### root and first unpruned parent of the pruned segment -/

theorem rootWith_tree_live (hf : HashFn α H) (f : Nat → α) (s : Segment α H) (bm : Option (Nat → Bool))
    (S : Nat) (need : Nat → Prop) (h p : Nat) (hp : height p = h)
    (hold : Holds hf f s bm S need (p + 2 - 2 ^ (h + 1)) p)
    (hinv : IterInv f need (s.leafPos.zip s.leafData) (p + 2 - 2 ^ (h + 1))) (pks : List Nat) :
    rootWith hf s S bm (treeRange h p) true pks = .ok (entryAt hf f bm S h p) := by
  obtain ⟨it', hloop, _⟩ := rootLoop_tree_live hf f s bm S need _ _ hold h p [] _ hp
    (Nat.le_refl _) (Nat.le_refl _) hinv
  unfold rootWith
  rw [hloop]
  simp [rootFinish]

theorem fupLoop_first (s : Segment α H) (b : Nat → Bool) (nl pos0 : Nat) (fb : List (Nat × Nat)) (x : H)
    (h : s.getHash pos0 = .ok x) : fupLoop s b nl pos0 fb = .ok (x, 1 + pos0) := by
  cases fb with
  | nil => simp [fupLoop, h]
  | cons y rest => obtain ⟨p0, s0⟩ := y; simp [fupLoop, h]

/-- a segment whose loop leaves `entryAt` and which holds the hash of its last position: the first
unpruned parent is the committed hash at the last position, whether or not anything is live -/
theorem fupWith_entry (hf : HashFn α H) (f : Nat → α) (s : Segment α H) (b : Nat → Bool) (S h last : Nat)
    (hget : s.getHash last = .ok (hAt hf f last)) :
    fupWith s S (some b) (.ok (entryAt hf f (some b) S h last)) last = .ok (hAt hf f last, 1 + last) := by
  unfold fupWith entryAt
  cases liveAt (some b) S h last with
  | true => simp
  | false =>
    simp only [Bool.false_eq_true, if_false]
    exact fupLoop_first s b _ last _ _ hget

section Pruned
variable {hf : HashFn α H} {f : Nat → α} {N : Nat} {b : Nat → Bool} {V : View α H}

theorem range'_pairwise (a n : Nat) : (List.range' a n).Pairwise (· < ·) := by
  induction n generalizing a with
  | zero => simp
  | succ n ih =>
    rw [List.range'_succ]
    refine List.Pairwise.cons ?_ (ih (a + 1))
    intro x hx
    simp only [List.mem_range'_1] at hx
    omega

theorem positions_facts (id : Ident) (N : Nat) (fit : FitId id N) :
    (id.positions (mmr N)).Pairwise (· < ·) ∧
    (∀ q, (id.posRange (mmr N)).1 ≤ q → q ≤ (id.posRange (mmr N)).2 → q ∈ id.positions (mmr N)) ∧
    (∀ q ∈ id.positions (mmr N), q < mmr N) := by
  obtain ⟨_, h2, _, _⟩ := fit_range id N fit
  have hpos : id.positions (mmr N) = List.range' (id.posRange (mmr N)).1
      ((id.posRange (mmr N)).2 + 1 - (id.posRange (mmr N)).1) := rfl
  rw [hpos]
  generalize (id.posRange (mmr N)).1 = a at *
  generalize (id.posRange (mmr N)).2 = c at *
  refine ⟨range'_pairwise _ _, ?_, ?_⟩
  · intro q h1 h3; simp only [List.mem_range'_1]; omega
  · intro q hq; simp only [List.mem_range'_1] at hq; omega

/-- one step up the family branch stays on file -/
theorem branch_step (pv : PrunedView hf f N b V) {n k : Nat} {L R : List (Nat × Nat)}
    (c : Co.PeakCtx N n k L R) (j : Nat) (hj : j < k)
    (hon : V.fromFile (Co.cpos (Co.up n j, j)) ≠ none) :
    V.fromFile (Co.cpos (Co.up n (j + 1), j + 1)) ≠ none ∧ V.fromFile (Co.cpos (Co.sibCo n j)) ≠ none := by
  have hv := Co.up_valid n (j + 1)
  have hm := c.up_lt (show j + 1 ≤ k from hj)
  have hpos : 0 < 2 ^ j := Nat.pow_pos (by omega)
  apply Classical.byContradiction
  intro hc
  have hoff : V.fromFile (Co.cpos (Co.up n (j + 1), j + 1)) = none ∨ V.fromFile (Co.cpos (Co.sibCo n j)) = none := by
    by_cases h1 : V.fromFile (Co.cpos (Co.up n (j + 1), j + 1)) = none
    · exact Or.inl h1
    · by_cases h2 : V.fromFile (Co.cpos (Co.sibCo n j)) = none
      · exact Or.inr h2
      · exact absurd ⟨h1, h2⟩ hc
  cases hb : bitSet n j with
  | true =>
    obtain ⟨hu, hs, _⟩ := Co.step_right hb
    have hcomp := pv.compacted (Co.up n (j + 1)) j hv hm
      (by rcases hoff with h | h
          · exact Or.inl h
          · right; left; rw [hs, hu.symm] at h; exact h)
    apply hon
    have := hcomp.2.1
    rw [hu] at this
    exact this
  | false =>
    obtain ⟨hu, hs, _⟩ := Co.step_left hb
    have hcomp := pv.compacted (Co.up n (j + 1)) j hv hm
      (by rcases hoff with h | h
          · exact Or.inl h
          · right; right; rw [hs] at h; exact h)
    apply hon
    have := hcomp.1
    have e : Co.up n (j + 1) - 2 ^ j = Co.up n j := by omega
    rw [e] at this
    exact this

theorem branch_on_file (pv : PrunedView hf f N b V) {n k : Nat} {L R : List (Nat × Nat)}
    (c : Co.PeakCtx N n k L R) (g : Nat) (hon : V.fromFile (Co.cpos (Co.up n g, g)) ≠ none) :
    ∀ d, g + d ≤ k → V.fromFile (Co.cpos (Co.up n (g + d), g + d)) ≠ none := by
  intro d
  induction d with
  | zero => intro _; exact hon
  | succ d ih =>
    intro hle
    exact (branch_step pv c (g + d) (by omega) (ih (by omega))).1

/-- a peak other than the last position is not a leaf -/
theorem peak_height_pos (N p : Nat) (hp : p ∈ peaks (mmr N)) (hne : p ≠ mmr N - 1) : height p ≠ 0 := by
  rw [Co.peaks_forest] at hp
  obtain ⟨c, hc, rfl⟩ := List.mem_map.1 hp
  obtain ⟨h1, h2, h3⟩ := Co.forest_mem hc
  rw [show Co.cpos c = mmr c.1 + c.2 from rfl, Co.height_co c.1 c.2 (by omega)]
  intro h0
  apply hne
  rw [h0] at h3 h1
  have : N = c.1 + 1 := by simp at h3; omega
  simp only [Co.cpos, h0, Nat.add_zero]
  rw [this, mmr_succ]; omega

theorem peak_file (pv : PrunedView hf f N b V) (p : Nat) (hp : p ∈ peaks (mmr N)) :
    V.fromFile p = some (hAt hf f p) := by
  cases hx : V.fromFile p with
  | none => exact absurd hx (pv.peaks_on_file p hp)
  | some x => rw [pv.file_genuine p x (Co.peaks_lt_size hp) hx]

theorem left_peak_hash (pv : PrunedView hf f N b V) (p first : Nat) (hp : p ∈ peaks (mmr N))
    (hlt : p < first) (hf1 : first ≤ mmr N - 1) : V.hash p = some (hAt hf f p) := by
  rw [pv.hash_inner p (Co.peaks_lt_size hp) (peak_height_pos N p hp (by omega))]
  exact peak_file pv p hp

end Pruned

/-! ### assembly -/

section Assembly
variable {hf : HashFn α H} {f : Nat → α} {N : Nat} {b : Nat → Bool} {V : View α H}

/-- the sibling hashes on the family branch of a full segment whose root is on file -/
theorem full_sibs_pruned (pv : PrunedView hf f N b V) (id : Ident) (v : FullId id (mmr N))
    (hg : 1 ≤ id.height) (hon : V.fromFile (lastOf id) ≠ none) :
    ∀ x ∈ familyBranch (lastOf id) (mmr N), V.hash x.2 = some (hAt hf f x.2) := by
  obtain ⟨k, L, R, c⟩ := Co.exists_peakCtx (lastLeaf_lt id N v)
  have hle := full_height_le c
  rw [full_familyBranch c]
  intro x hx
  simp only [Co.branchCo, List.mem_map, List.mem_range'_1] at hx
  obtain ⟨j, ⟨hj1, hj2⟩, rfl⟩ := hx
  have hjk : j < k := by omega
  obtain ⟨d, rfl⟩ := Nat.exists_eq_add_of_le hj1
  have hon' : V.fromFile (Co.cpos (Co.up (lastLeaf id) id.height, id.height)) ≠ none := by
    rw [full_up, ← lastOf_eq]; exact hon
  have haj := branch_on_file pv c id.height hon' d (by omega)
  have hsib := (branch_step pv c (id.height + d) hjk haj).2
  have hvalid := Co.sibCo_valid (lastLeaf id) (id.height + d)
  have hlt : Co.cpos (Co.sibCo (lastLeaf id) (id.height + d)) < mmr N :=
    (Co.coord_lt_iff hvalid).2 (c.sib_lt hjk)
  have hh : height (Co.cpos (Co.sibCo (lastLeaf id) (id.height + d))) ≠ 0 := by
    rw [show Co.cpos (Co.sibCo (lastLeaf id) (id.height + d)) =
      mmr (Co.sibCo (lastLeaf id) (id.height + d)).1 + (Co.sibCo (lastLeaf id) (id.height + d)).2 from rfl,
      Co.height_co _ _ hvalid, Co.sibCo_snd]
    omega
  simp only
  rw [pv.hash_inner _ hlt hh]
  cases hx : V.fromFile (Co.cpos (Co.sibCo (lastLeaf id) (id.height + d))) with
  | none => exact absurd hx hsib
  | some y => rw [pv.file_genuine _ y hlt hx]

/-- **a full segment (height ≥ 1) of a pruned MMR whose subtree root is on file validates** against
the bitmap of unspent leaves — live (some leaf required) or completely spent but not yet compacted -/
theorem full_complete_pruned [DecidableEq H] (pv : PrunedView hf f N b V) (id : Ident)
    (v : FullId id (mmr N)) (hg : 1 ≤ id.height) (hon : V.fromFile (lastOf id) ≠ none) :
    ∃ proof r, fromPmmr hf V id true = .ok (prunedSeg V id (id.positions (mmr N)) proof) ∧
      rootOf hf f N = some r ∧
      (prunedSeg V id (id.positions (mmr N)) proof).root hf (mmr N) (some b)
        = .ok (entryAt hf f (some b) (mmr N) id.height (lastOf id)) ∧
      (prunedSeg V id (id.positions (mmr N)) proof).firstUnprunedParent hf (mmr N) (some b)
        = .ok (hAt hf f (lastOf id), 1 + lastOf id) ∧
      (prunedSeg V id (id.positions (mmr N)) proof).validate hf (mmr N) (some b) r = .ok () ∧
      ∀ hlp other left, (prunedSeg V id (id.positions (mmr N)) proof).validateWith hf (mmr N) (some b)
        (if left then hf.node hlp other r else hf.node hlp r other) hlp other left = .ok () := by
  have fit : FitId id N := ⟨v.hh, by
    have := v.fit
    rw [GV.Props.C07.nLeaves_at_leaf_boundary, Nat.add_mul, Nat.one_mul] at this
    have hpos : 0 < 2 ^ id.height := Nat.pow_pos (by omega)
    omega, by have := v.small; rwa [GV.Props.C07.nLeaves_at_leaf_boundary] at this⟩
  obtain ⟨hcap, hoff, hfull, hr⟩ := full_arith id (mmr N) v
  obtain ⟨hsorted, hmem, hlt⟩ := positions_facts id N fit
  obtain ⟨_, hlastlt, _, hne0⟩ := fit_range id N fit
  rw [hr] at hmem hlastlt
  simp only at hmem hlastlt
  have hhl := height_lastOf id
  have hpos := full_positions id (mmr N) v
  have hb := mmr_block id.idx id.height
  have hp1 := two_pow_succ id.height
  have hposg : 0 < 2 ^ id.height := Nat.pow_pos (by omega)
  have hldef : lastOf id = mmr (id.idx * 2 ^ id.height + (2 ^ id.height - 1)) + id.height := rfl
  have hlo : lastOf id + 2 - 2 ^ (id.height + 1) = mmr (id.idx * 2 ^ id.height) := by omega
  -- the proof
  obtain ⟨proof, r, hgen, hroot, hrec⟩ := full_generate_reconstruct hf f N id v V pv.size
    (full_sibs_pruned pv id v hg hon) (fun p hp => peak_file pv p hp)
    (fun p hp hlt' => left_peak_hash pv p _ hp hlt' (by
      have : mmr (id.idx * 2 ^ id.height) ≤ lastOf id := by omega
      omega))
  -- the hash of the last position
  have hlastfile : V.fromFile (lastOf id) = some (hAt hf f (lastOf id)) := by
    cases hx : V.fromFile (lastOf id) with
    | none => exact absurd hx hon
    | some y => rw [pv.file_genuine _ y hlastlt hx]
  have hget : (prunedSeg V id (id.positions (mmr N)) proof).getHash (lastOf id) = .ok (hAt hf f (lastOf id)) :=
    prunedSeg_getHash V id _ proof _ _ (hmem _ (by omega) (Nat.le_refl _))
      (hashEntry_inner V _ _ (by rw [hhl]; omega) hlastfile)
  -- from_pmmr
  have hfrom : fromPmmr hf V id true = .ok (prunedSeg V id (id.positions (mmr N)) proof) := by
    unfold fromPmmr
    rw [pv.size, if_neg hne0]
    apply fromPmmrWith_prunable hf V id _ _ _ _ proof (by rw [hr]; exact hgen)
    intro hc
    have hin : (lastOf id, hAt hf f (lastOf id)) ∈ (id.positions (mmr N)).filterMap (hashEntry V) :=
      List.mem_filterMap.2 ⟨lastOf id, hmem _ (by omega) (Nat.le_refl _),
        hashEntry_inner V _ _ (by rw [hhl]; omega) hlastfile⟩
    rw [List.isEmpty_iff.1 hc.2] at hin
    cases hin
  -- root
  have hholds := pruned_holds pv id (id.positions (mmr N)) proof (mmr (id.idx * 2 ^ id.height)) (lastOf id)
    hmem hlastlt
  have hinv := pruned_iterInv pv (id.positions (mmr N)) hsorted hlt (mmr (id.idx * 2 ^ id.height))
  have hrootS : (prunedSeg V id (id.positions (mmr N)) proof).root hf (mmr N) (some b)
      = .ok (entryAt hf f (some b) (mmr N) id.height (lastOf id)) := by
    have hinv' : IterInv f (needOf V (id.positions (mmr N)))
        ((prunedSeg V id (id.positions (mmr N)) proof).leafPos.zip
          (prunedSeg V id (id.positions (mmr N)) proof).leafData) (mmr (id.idx * 2 ^ id.height)) := by
      rw [prunedSeg_leaves]; exact hinv
    have hid : (prunedSeg V id (id.positions (mmr N)) proof).id = id := rfl
    rw [root_of_nonempty hf _ (mmr N) (some b) (by rw [hid]; exact hne0)]
    rw [hid]
    generalize prunedSeg V id (id.positions (mmr N)) proof = S0 at hholds hinv' ⊢
    rw [hpos, hfull]
    exact rootWith_tree_live hf f S0 (some b) (mmr N) _ id.height (lastOf id) hhl
      (by rw [hlo]; exact hholds) (by rw [hlo]; exact hinv') _
  have hfup : (prunedSeg V id (id.positions (mmr N)) proof).firstUnprunedParent hf (mmr N) (some b)
      = .ok (hAt hf f (lastOf id), 1 + lastOf id) := by
    unfold Segment.firstUnprunedParent
    rw [hrootS]
    show fupWith _ (mmr N) (some b) _ (id.posRange (mmr N)).2 = _
    rw [hr]
    exact fupWith_entry hf f _ b (mmr N) id.height (lastOf id) hget
  obtain ⟨hv, hvw⟩ := validate_of_parts hf (prunedSeg V id (id.positions (mmr N)) proof) (mmr N)
    (some b) (hAt hf f (lastOf id)) r (1 + lastOf id) [] hfup (by
      show reconstructRoot hf proof (mmr N) (id.posRange (mmr N)).1 (id.posRange (mmr N)).2 _ _ = _
      rw [hr]; exact hrec)
  exact ⟨proof, r, hfrom, hroot, hrootS, hfup, hv, hvw⟩

/-- the root of a not-full segment over a list of complete subtrees, with a bitmap: dead peaks are
loaded from the segment's hashes, the result is the bag of all peak hashes -/
theorem rootWith_tiles_live (hf : HashFn α H) (f : Nat → α) (s : Segment α H) (bm : Option (Nat → Bool))
    (S : Nat) (need : Nat → Prop) (l : List (Nat × Nat)) (hv : ∀ c ∈ l, c.2 ≤ trailingOnes c.1)
    (hne : l ≠ []) (a hi0 : Nat) (hold : Holds hf f s bm S need a hi0)
    (htl : tiles l = List.range' a (tiles l).length) (hhi : a + (tiles l).length ≤ hi0 + 1)
    (hinv : IterInv f need (s.leafPos.zip s.leafData) a)
    (hpk : ∀ c ∈ l, liveAt bm S c.2 (Co.cpos c) = false →
      bm.isSome = true ∧ s.getHash (Co.cpos c) = .ok (Co.nh hf f c)) :
    ∃ sr, bag hf S (l.map (Co.nh hf f)) = some sr ∧
      rootWith hf s S bm (tiles l) false ((l.map Co.cpos).reverse) = .ok (some sr) := by
  have hne' : l.map (Co.nh hf f) ≠ [] := by simpa using hne
  cases hb : bag hf S (l.map (Co.nh hf f)) with
  | none => exact absurd hb (Co.bag_ne_none hf S _ hne')
  | some sr =>
    refine ⟨sr, rfl, ?_⟩
    obtain ⟨it', hloop, _⟩ := rootLoop_tiles_live hf f s bm S need a hi0 hold l a [] _ hv htl
      (Nat.le_refl _) hhi hinv
    unfold rootWith
    rw [hloop]
    simp only [rootFinish, Bool.false_eq_true, if_false]
    have hts := bagPeaks_entries hf s bm S
      ((l.map fun c => (entryAt hf f bm S c.2 (Co.cpos c), Co.cpos c, Co.nh hf f c)).reverse) none []
      (by
        intro t ht
        obtain ⟨c, hc, rfl⟩ := List.mem_map.1 (List.mem_reverse.1 ht)
        simp only [entryAt]
        cases hl : liveAt bm S c.2 (Co.cpos c) with
        | true => left; simp [hAt_cpos hf f c (hv c hc)]
        | false => right; obtain ⟨h1, h2⟩ := hpk c hc hl; exact ⟨by simp, h1, h2⟩)
    simp only [List.map_reverse, List.map_map] at hts
    have e1 : (l.map ((fun x => x.1) ∘ fun c => (entryAt hf f bm S c.2 (Co.cpos c), Co.cpos c, Co.nh hf f c)))
        = l.map fun c => entryAt hf f bm S c.2 (Co.cpos c) := rfl
    have e2 : (l.map ((fun x => x.2.1) ∘ fun c => (entryAt hf f bm S c.2 (Co.cpos c), Co.cpos c, Co.nh hf f c)))
        = l.map Co.cpos := rfl
    have e3 : (l.map ((fun x => x.2.2) ∘ fun c => (entryAt hf f bm S c.2 (Co.cpos c), Co.cpos c, Co.nh hf f c)))
        = l.map (Co.nh hf f) := rfl
    rw [e1, e2, e3] at hts
    rw [hts, ← bag_eq_foldl, hb]

/-- **the final, not full segment of a pruned MMR validates** against the bitmap of unspent leaves,
in every prune state: spent peaks are represented by their hash -/
theorem final_complete_pruned [DecidableEq H] (pv : PrunedView hf f N b V) (id : Ident)
    (v : FinalId id N) :
    ∃ proof r sr, fromPmmr hf V id true = .ok (prunedSeg V id (id.positions (mmr N)) proof) ∧
      rootOf hf f N = some r ∧ segRootOf hf f N id = some sr ∧
      (prunedSeg V id (id.positions (mmr N)) proof).root hf (mmr N) (some b) = .ok (some sr) ∧
      (prunedSeg V id (id.positions (mmr N)) proof).validate hf (mmr N) (some b) r = .ok () ∧
      ∀ hlp other left, (prunedSeg V id (id.positions (mmr N)) proof).validateWith hf (mmr N) (some b)
        (if left then hf.node hlp other r else hf.node hlp r other) hlp other left = .ok () := by
  have fit : FitId id N := ⟨v.hh, v.lo, v.small⟩
  obtain ⟨_, _, _, hfull, hr⟩ := final_arith id N v
  obtain ⟨Lh, hL, hLlt, hfl, hgt, hN⟩ := final_forest id N v
  obtain ⟨hsorted, hmem, hlt⟩ := positions_facts id N fit
  obtain ⟨_, _, _, hne0⟩ := fit_range id N fit
  rw [hr] at hmem
  simp only at hmem
  have hS : 1 ≤ mmr N := by have := le_mmr N; have := v.lo; omega
  have hfirst : mmr (id.idx * 2 ^ id.height) ≤ mmr N - 1 := by
    have := Co.mmr_lt_mmr v.lo; omega
  have hnfit : ¬ (id.idx + 1) * 2 ^ id.height ≤ N := by have := v.hi; omega
  have hposT := final_positions id N v
  have hpk := final_peaksIn id N v
  have hmm := final_trees_mem id N v
  -- the bagged peaks inside
  have hneL : Co.forestFrom id.height (id.idx * 2 ^ id.height) (finalLeaves id N) ≠ [] := by
    intro hc
    have ht := forestFrom_tiles id.height id.idx (finalLeaves id N) hfl
    rw [hc, tiles_nil] at ht
    have := congrArg List.length ht
    simp only [List.length_range', List.length_nil] at this
    have := le_mmr (finalLeaves id N)
    omega
  -- the last position is a peak on file: the segment is not empty
  have hlastpk : mmr N - 1 ∈ peaks (mmr N) := List.mem_of_getLast? (last_peak N (by have := v.lo; omega))
  have hlastfile := peak_file pv _ hlastpk
  -- root (for any proof)
  have hroot_any : ∀ proof, ∃ sr, segRootOf hf f N id = some sr ∧
      (prunedSeg V id (id.positions (mmr N)) proof).root hf (mmr N) (some b) = .ok (some sr) := by
    intro proof
    have hholds := pruned_holds pv id (id.positions (mmr N)) proof (mmr (id.idx * 2 ^ id.height)) (mmr N - 1)
      hmem (by omega)
    have hinv : IterInv f (needOf V (id.positions (mmr N)))
        ((prunedSeg V id (id.positions (mmr N)) proof).leafPos.zip
          (prunedSeg V id (id.positions (mmr N)) proof).leafData) (mmr (id.idx * 2 ^ id.height)) := by
      rw [prunedSeg_leaves]
      exact pruned_iterInv pv (id.positions (mmr N)) hsorted hlt _
    have hdead : ∀ c ∈ Co.forestFrom id.height (id.idx * 2 ^ id.height) (finalLeaves id N),
        liveAt (some b) (mmr N) c.2 (Co.cpos c) = false →
        (some b).isSome = true ∧
          (prunedSeg V id (id.positions (mmr N)) proof).getHash (Co.cpos c) = .ok (Co.nh hf f c) := by
      intro c hc hdead
      obtain ⟨h1, h2, h3⟩ := hmm c hc
      have hfm := Co.forestFrom_mem id.height id.idx (finalLeaves id N) hfl c hc
      have hcp : Co.cpos c ∈ peaks (mmr N) := by
        rw [Co.peaks_forest, hL]
        exact List.mem_map.2 ⟨c, List.mem_append_right _ hc, rfl⟩
      have hc2 : c.2 ≠ 0 := by
        intro h0
        have hc1 : c.1 + 1 = N := by rw [h0] at hfm; simp at hfm; omega
        have hreq := required_leaf b N c.1 h3 pv.small
        have hm : mmr c.1 = mmr N - 1 := by rw [← hc1, mmr_succ]; omega
        have hcpos : Co.cpos c = mmr c.1 := by simp [Co.cpos, h0]
        rw [hcpos, h0] at hdead
        simp only [liveAt] at hdead
        rw [hreq, hm] at hdead
        simp at hdead
      have hlt' := Co.peaks_lt_size hcp
      have hge := Co.mmr_le_mmr h2
      refine ⟨rfl, prunedSeg_getHash V id _ proof _ _ (hmem _ (by simp only [Co.cpos]; omega) (by omega))
        (hashEntry_inner V _ _ ?_ ?_)⟩
      · rw [show Co.cpos c = mmr c.1 + c.2 from rfl, Co.height_co c.1 c.2 (by omega)]; exact hc2
      · rw [peak_file pv _ hcp, hAt_cpos hf f c (by omega)]
    have hid : (prunedSeg V id (id.positions (mmr N)) proof).id = id := rfl
    have htl : tiles (Co.forestFrom id.height (id.idx * 2 ^ id.height) (finalLeaves id N)) =
        List.range' (mmr (id.idx * 2 ^ id.height))
          (tiles (Co.forestFrom id.height (id.idx * 2 ^ id.height) (finalLeaves id N))).length := by
      have h1 := forestFrom_tiles id.height id.idx (finalLeaves id N) hfl
      rw [← h1]; simp
    have hlen : (tiles (Co.forestFrom id.height (id.idx * 2 ^ id.height) (finalLeaves id N))).length
        = mmr (finalLeaves id N) := by
      rw [← forestFrom_tiles id.height id.idx (finalLeaves id N) hfl]; simp
    have hadd := mmr_add_low id.height id.idx (finalLeaves id N) hfl
    rw [← hN] at hadd
    rw [root_of_nonempty hf _ (mmr N) (some b) (by rw [hid]; exact hne0)]
    rw [hid]
    generalize prunedSeg V id (id.positions (mmr N)) proof = S0 at hholds hinv hdead ⊢
    rw [hposT, hfull, hpk]
    obtain ⟨sr, hsr, hroot⟩ := rootWith_tiles_live hf f S0 (some b) (mmr N) _ _
      (fun c hc => by have := hmm c hc; omega) hneL _ (mmr N - 1) hholds htl (by rw [hlen]; omega) hinv hdead
    refine ⟨sr, ?_, hroot⟩
    unfold segRootOf; rw [if_neg hnfit]; exact hsr
  obtain ⟨sr, hsr, _⟩ := hroot_any []
  have hsr' : bag hf (mmr N) ((Co.forestFrom id.height (id.idx * 2 ^ id.height) (finalLeaves id N)).map
      (Co.nh hf f)) = some sr := by
    unfold segRootOf at hsr; rw [if_neg hnfit] at hsr; exact hsr
  obtain ⟨proof, r, hgen, hroot, hrec⟩ := final_generate_reconstruct hf f N id v V pv.size
    (fun p hp hlt' => left_peak_hash pv p _ hp hlt' hfirst) sr hsr'
  obtain ⟨sr2, hsr2, hrootS⟩ := hroot_any proof
  rw [hsr] at hsr2
  injection hsr2 with hsr2
  subst hsr2
  -- from_pmmr
  have hfrom : fromPmmr hf V id true = .ok (prunedSeg V id (id.positions (mmr N)) proof) := by
    unfold fromPmmr
    rw [pv.size, if_neg hne0]
    apply fromPmmrWith_prunable hf V id _ _ _ _ proof (by rw [hr]; exact hgen)
    intro hc
    have hin := hmem (mmr N - 1) hfirst (Nat.le_refl _)
    by_cases hh : height (mmr N - 1) = 0
    · have hd : V.dataFromFile (mmr N - 1) ≠ none := by
        intro hd
        have := pv.data_of_file _ (by omega) hh hd
        rw [hlastfile] at this; cases this
      cases hx : V.dataFromFile (mmr N - 1) with
      | none => exact absurd hx hd
      | some d =>
        have : (mmr N - 1, d) ∈ (id.positions (mmr N)).filterMap (leafEntry V) :=
          List.mem_filterMap.2 ⟨_, hin, by
            have : isLeaf (mmr N - 1) = true := by simp [isLeaf, hh]
            simp [leafEntry, this, hx]⟩
        rw [List.isEmpty_iff.1 hc.1] at this
        cases this
    · have : (mmr N - 1, hAt hf f (mmr N - 1)) ∈ (id.positions (mmr N)).filterMap (hashEntry V) :=
        List.mem_filterMap.2 ⟨_, hin, hashEntry_inner V _ _ hh hlastfile⟩
      rw [List.isEmpty_iff.1 hc.2] at this
      cases this
  have hfup : (prunedSeg V id (id.positions (mmr N)) proof).firstUnprunedParent hf (mmr N) (some b)
      = .ok (sr, 1 + (mmr N - 1)) := by
    have h := fup_of_root_some hf _ (mmr N) (some b) sr hrootS
    rw [show (prunedSeg V id (id.positions (mmr N)) proof).id = id from rfl, hr] at h
    exact h
  obtain ⟨hv, hvw⟩ := validate_of_parts hf (prunedSeg V id (id.positions (mmr N)) proof) (mmr N)
    (some b) sr r (1 + (mmr N - 1)) [] hfup (by
      show reconstructRoot hf proof (mmr N) (id.posRange (mmr N)).1 (id.posRange (mmr N)).2 _ _ = _
      rw [hr]; exact hrec)
  exact ⟨proof, r, sr, hfrom, hroot, hsr, hrootS, hv, hvw⟩

end Assembly

/-! ### views that satisfy `PrunedView` -/

section Views
variable {hf : HashFn α H} {f : Nat → α} {N : Nat}

/-- nothing compacted (leaves may be spent: `get_hash` of leaves is not constrained): any bitmap -/
theorem prunedView_of_all_on_file (V : View α H) (b : Nat → Bool) (hN : N < 2 ^ 32)
    (hsize : V.size = mmr N)
    (hfile : ∀ q, q < mmr N → V.fromFile q = some (hAt hf f q))
    (hdata : ∀ q, q < mmr N → height q = 0 → V.dataFromFile q = some (dAt f q))
    (hinner : ∀ q, q < mmr N → height q ≠ 0 → V.hash q = V.fromFile q) :
    PrunedView hf f N b V where
  size := hsize
  small := hN
  file_genuine := fun q h hq hx => by rw [hfile q hq] at hx; injection hx with hx; exact hx.symm
  data_genuine := fun q d hq hl hx => by
    rw [hdata q hq hl] at hx; injection hx with hx; exact hx.symm
  data_of_file := fun q hq hl hd => by rw [hdata q hq hl] at hd; cases hd
  data_compacted := fun q hq _ hx => by rw [hfile q hq] at hx; cases hx
  hash_inner := hinner
  peaks_on_file := fun p hp => by rw [hfile p (Co.peaks_lt_size hp)]; simp
  compacted := by
    intro n k hk hn hoff
    have hp1 := two_pow_succ k
    obtain ⟨h1, h2, h3, _⟩ := Co.left_sibling_coord (show k < trailingOnes n from hk)
    have l1 : mmr n + (k + 1) < mmr N := (Co.coord_lt_iff hk).2 hn
    have l2 : mmr (n - 2 ^ k) + k < mmr N := (Co.coord_lt_iff h1).2 (by omega)
    have l3 : mmr n + k < mmr N := by omega
    rw [hfile _ l1, hfile _ l2, hfile _ l3] at hoff
    rcases hoff with h | h | h <;> cases h

/-- the view after the sibling leaves `n0 - 1`, `n0` (`n0` odd) were compacted: their hashes and
data are gone from the files, their parent (the pruned root) stays -/
def compactPair (V : View α H) (n0 : Nat) : View α H where
  size := V.size
  dataFromFile := fun q => if q = mmr (n0 - 1) ∨ q = mmr n0 then none else V.dataFromFile q
  fromFile := fun q => if q = mmr (n0 - 1) ∨ q = mmr n0 then none else V.fromFile q
  hash := fun q => if q = mmr (n0 - 1) ∨ q = mmr n0 then none else V.hash q

theorem odd_of_trailingOnes {n : Nat} (h : 1 ≤ trailingOnes n) : n % 2 = 1 := by
  rw [trailingOnes_eq] at h
  split at h
  · assumption
  · omega

/-- **a genuinely compacted state**: one compacted sibling pair, both leaves unmarked in the bitmap -/
theorem prunedView_compactPair (V : View α H) (b : Nat → Bool) (hN : N < 2 ^ 32) (n0 : Nat)
    (hodd : 1 ≤ trailingOnes n0) (hn0 : n0 < N) (hb1 : b (n0 - 1) = false) (hb2 : b n0 = false)
    (hsize : V.size = mmr N)
    (hfile : ∀ q, q < mmr N → V.fromFile q = some (hAt hf f q))
    (hdata : ∀ q, q < mmr N → height q = 0 → V.dataFromFile q = some (dAt f q))
    (hinner : ∀ q, q < mmr N → height q ≠ 0 → V.hash q = V.fromFile q) :
    PrunedView hf f N b (compactPair V n0) := by
  have hn0odd := odd_of_trailingOnes hodd
  have hleaf : ∀ q, q = mmr (n0 - 1) ∨ q = mmr n0 → height q = 0 := by
    intro q hq
    rcases hq with rfl | rfl
    · have := Co.height_co (n0 - 1) 0 (Nat.zero_le _); simpa using this
    · have := Co.height_co n0 0 (Nat.zero_le _); simpa using this
  -- a node `(n, h)` sitting at one of the two positions
  have hcoord : ∀ n h, h ≤ trailingOnes n → (mmr n + h = mmr (n0 - 1) ∨ mmr n + h = mmr n0) →
      h = 0 ∧ (n = n0 - 1 ∨ n = n0) := by
    intro n h hv hq
    rcases hq with hq | hq
    · have := Co.coord_inj hv (Nat.zero_le (trailingOnes (n0 - 1))) (by simpa using hq)
      exact ⟨this.2, Or.inl this.1⟩
    · have := Co.coord_inj hv (Nat.zero_le (trailingOnes n0)) (by simpa using hq)
      exact ⟨this.2, Or.inr this.1⟩
  refine
    { size := hsize, small := hN, file_genuine := ?_, data_genuine := ?_, data_of_file := ?_,
      data_compacted := ?_, hash_inner := ?_, peaks_on_file := ?_, compacted := ?_ }
  · intro q h hq hx
    simp only [compactPair] at hx
    split at hx
    · cases hx
    · rw [hfile q hq] at hx; injection hx with hx; exact hx.symm
  · intro q d hq hl hx
    simp only [compactPair] at hx
    split at hx
    · cases hx
    · rw [hdata q hq hl] at hx; injection hx with hx; exact hx.symm
  · intro q hq hl hd
    simp only [compactPair] at hd ⊢
    split
    · rfl
    · rename_i hc
      rw [if_neg hc, hdata q hq hl] at hd; cases hd
  · intro q hq _ hx
    simp only [compactPair] at hx ⊢
    split at hx
    · rename_i hc; rw [if_pos hc]
    · rw [hfile q hq] at hx; cases hx
  · intro q hq hh
    have hc : ¬ (q = mmr (n0 - 1) ∨ q = mmr n0) := fun hc => hh (hleaf q hc)
    simp only [compactPair, if_neg hc]
    exact hinner q hq hh
  · intro p hp
    have hlt := Co.peaks_lt_size hp
    rw [Co.peaks_forest] at hp
    obtain ⟨c, hc, rfl⟩ := List.mem_map.1 hp
    obtain ⟨h1, h2, h3⟩ := Co.forest_mem hc
    have hne : ¬ (Co.cpos c = mmr (n0 - 1) ∨ Co.cpos c = mmr n0) := by
      intro hq
      obtain ⟨h0, hn⟩ := hcoord c.1 c.2 (by omega) hq
      rw [h0] at h1 h3
      rcases hn with hn | hn
      · simp at h3; omega
      · rw [hn] at h1; omega
    simp only [compactPair, if_neg hne]
    rw [hfile _ hlt]; simp
  · intro n k hk hn hoff
    have hp1 := two_pow_succ k
    have hpos : 0 < 2 ^ k := Nat.pow_pos (by omega)
    obtain ⟨h1, h2, h3, _⟩ := Co.left_sibling_coord (show k < trailingOnes n from hk)
    have l1 : mmr n + (k + 1) < mmr N := (Co.coord_lt_iff hk).2 hn
    have l2 : mmr (n - 2 ^ k) + k < mmr N := (Co.coord_lt_iff h1).2 (by omega)
    have l3 : mmr n + k < mmr N := by omega
    have hnodd := odd_of_trailingOnes (show 1 ≤ trailingOnes n by omega)
    -- which position is off file
    have key : k = 0 ∧ n = n0 := by
      simp only [compactPair] at hoff
      rcases hoff with h | h | h
      · split at h
        · rename_i hc
          have := (hcoord n (k + 1) hk hc).1; omega
        · rw [hfile _ l1] at h; cases h
      · split at h
        · rename_i hc
          obtain ⟨h0, hn'⟩ := hcoord (n - 2 ^ k) k h1 hc
          subst h0
          simp only [Nat.pow_zero] at hn' h2
          refine ⟨rfl, ?_⟩
          rcases hn' with hn' | hn' <;> omega
        · rw [hfile _ l2] at h; cases h
      · split at h
        · rename_i hc
          obtain ⟨h0, hn'⟩ := hcoord n k (by omega) hc
          refine ⟨h0, ?_⟩
          rcases hn' with hn' | hn' <;> omega
        · rw [hfile _ l3] at h; cases h
    obtain ⟨rfl, rfl⟩ := key
    simp only [compactPair, Nat.pow_zero, Nat.add_zero, true_or, or_true, if_true, true_and]
    intro j hj1 hj2
    have : j = n - 1 ∨ j = n := by simp only [Nat.zero_add, Nat.pow_one] at hj1; omega
    rcases this with rfl | rfl
    · exact hb1
    · exact hb2

end Views

end GV.Seg
