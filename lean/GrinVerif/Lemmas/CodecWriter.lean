import GrinVerif.Model.CodecConn
import GrinVerif.Lemmas.CodecRun
/-! The writer side (`write_message`, the `peer_write` thread) and the ring of own addresses:
helper lemmas for `Props/C19Conn.lean`. -/
namespace GV.Codec
open GV GV.Ser GV.Dec GV.Msg GV.Gen.Msg GV.Gen.CodecConn

theorem WRITE_ATTACHMENT_BUF_pos : 1 ≤ WRITE_ATTACHMENT_BUF := by decide

theorem readSize_pos (buf r rem : Nat) (hb : 1 ≤ buf) (hr : 1 ≤ rem) : 1 ≤ readSize buf r rem := by
  unfold readSize; omega

theorem readSize_le_buf (buf r rem : Nat) : readSize buf r rem ≤ buf := by
  unfold readSize; omega

theorem readSize_le_rem (buf r rem : Nat) : readSize buf r rem ≤ rem := by
  unfold readSize; omega

/-- the pieces of the attachment loop put the file on the wire, byte for byte, whatever `read`
returns each time -/
theorem attWrites_flatten (buf : Nat) (hb : 1 ≤ buf) : ∀ (f : Nat) (rs : List Nat) (data : Bytes),
    data.length ≤ f → (attWrites buf f rs data).flatten = data := by
  intro f
  induction f with
  | zero =>
    intro rs data h
    have : data = [] := List.eq_nil_of_length_eq_zero (by omega)
    subst this; rfl
  | succ f ih =>
    intro rs data h
    unfold attWrites
    by_cases he : data.isEmpty = true
    · rw [if_pos he]
      have : data = [] := by simpa using he
      subst this; rfl
    · rw [if_neg he]
      have hne : 1 ≤ data.length := by
        cases data with
        | nil => simp at he
        | cons a t => simp
      have hp := readSize_pos buf (rs.headD buf) data.length hb hne
      rw [List.flatten_cons, ih rs.tail _ (by rw [List.length_drop]; omega), List.take_append_drop]

/-- every piece is non-empty and fits the scratch buffer -/
theorem attWrites_pieces (buf : Nat) (hb : 1 ≤ buf) : ∀ (f : Nat) (rs : List Nat) (data : Bytes),
    ∀ p ∈ attWrites buf f rs data, 1 ≤ p.length ∧ p.length ≤ buf := by
  intro f
  induction f with
  | zero => intro rs data p hp; simp [attWrites] at hp
  | succ f ih =>
    intro rs data p hp
    unfold attWrites at hp
    by_cases he : data.isEmpty = true
    · rw [if_pos he] at hp; cases hp
    · rw [if_neg he] at hp
      have hne : 1 ≤ data.length := by
        cases data with
        | nil => simp at he
        | cons a t => simp
      rcases List.mem_cons.mp hp with rfl | hp'
      · rw [List.length_take]
        have h1 := readSize_pos buf (rs.headD buf) data.length hb hne
        have h2 := readSize_le_buf buf (rs.headD buf) data.length
        have h3 := readSize_le_rem buf (rs.headD buf) data.length
        omega
      · exact ih _ _ p hp'

/-- the `write_all`s of one `write_message` concatenate to the frame `writeMessage` specifies -/
theorem writeOps_flatten (net : NetCfg) (rs : List Nat) (m : OutMsg) :
    (writeOps net rs m).flatten = writeMessage net m.t m.body (m.att.getD []) := by
  unfold writeOps writeMessage
  cases hm : m.att with
  | none => simp
  | some a =>
    simp only [List.flatten_cons, Option.getD_some]
    rw [attWrites_flatten _ WRITE_ATTACHMENT_BUF_pos _ _ _ (Nat.le_refl _)]

theorem ADDRS_CAP_ge : 2 ≤ ADDRS_CAP := by decide

theorem pushAddr_eq (ring : List SockAddr) (a : SockAddr) (h : ring.length ≤ ADDRS_CAP - 1) :
    pushAddr ring a = (ring ++ [a]).drop ((ring.length + 1) - (ADDRS_CAP - 1)) := by
  have hc := ADDRS_CAP_ge
  unfold pushAddr
  simp only [List.length_append, List.length_cons, List.length_nil, ge_iff_le]
  by_cases hf : ADDRS_CAP ≤ ring.length + 0 + 1
  · rw [if_pos hf]
    have : ring.length + 1 - (ADDRS_CAP - 1) = 1 := by omega
    rw [this]
  · rw [if_neg hf]
    have : ring.length + 1 - (ADDRS_CAP - 1) = 0 := by omega
    rw [this, List.drop_zero]

theorem pushAddr_length (ring : List SockAddr) (a : SockAddr) (h : ring.length ≤ ADDRS_CAP - 1) :
    (pushAddr ring a).length ≤ ADDRS_CAP - 1 := by
  have hc := ADDRS_CAP_ge
  rw [pushAddr_eq ring a h, List.length_drop, List.length_append]
  simp only [List.length_cons, List.length_nil]
  omega

theorem foldl_pushAddr (as : List SockAddr) : ∀ ring : List SockAddr, ring.length ≤ ADDRS_CAP - 1 →
    as.foldl pushAddr ring = (ring ++ as).drop ((ring ++ as).length - (ADDRS_CAP - 1)) := by
  have hc := ADDRS_CAP_ge
  induction as with
  | nil =>
    intro ring h
    have : (ring ++ ([] : List SockAddr)).length - (ADDRS_CAP - 1) = 0 := by simp; omega
    rw [this]; simp
  | cons a as ih =>
    intro ring h
    rw [List.foldl_cons, ih _ (pushAddr_length ring a h), pushAddr_eq ring a h]
    generalize hk : ring.length + 1 - (ADDRS_CAP - 1) = k
    have hkl : k ≤ (ring ++ [a]).length := by
      rw [List.length_append, List.length_singleton]; omega
    have e0 : (ring ++ [a]).drop k ++ as = (ring ++ [a] ++ as).drop k :=
      (List.drop_append_of_le_length hkl).symm
    have e1 : ring ++ [a] ++ as = ring ++ a :: as := by simp
    rw [e0, e1, List.drop_drop]
    congr 1
    have hl : (ring ++ a :: as).length = ring.length + 1 + as.length := by
      rw [List.length_append, List.length_cons]; omega
    rw [List.length_drop, hl]
    omega

end GV.Codec
