import GrinVerif.Lemmas.DesegApply
/-! `next_desired_segments` in the bitmap phase: the segment that comes next is the first one
asked for (the test `>=` of the repair d6b49984d). -/
namespace GV.Deseg
open GV GV.Pmmr GV.Seg

/-- the loop only appends -/
theorem wantBitmapLoop_prefix (s : St) (max : Nat) : ∀ (l : List Nat) (acc : List (Kind × Ident)),
    ∃ t, wantBitmapLoop s max l acc = acc ++ t
  | [], acc => ⟨[], by simp [wantBitmapLoop]⟩
  | idx :: rest, acc => by
    unfold wantBitmapLoop
    simp only
    split
    · split
      · exact ⟨[(Kind.bitmap, ⟨s.hB, idx⟩)], rfl⟩
      · obtain ⟨t, ht⟩ := wantBitmapLoop_prefix s max rest (acc ++ [(Kind.bitmap, ⟨s.hB, idx⟩)])
        exact ⟨(Kind.bitmap, ⟨s.hB, idx⟩) :: t, by rw [ht, List.append_assoc]; rfl⟩
    · exact wantBitmapLoop_prefix s max rest acc

/-- over the indices `a, a+1, …`: everything before `k` is skipped, `k` is taken first -/
theorem wantBitmapLoop_first (s : St) (max k : Nat)
    (hskip : ∀ idx, idx < k →
      ((({ height := s.hB, idx := idx } : Ident).posRange s.bmSize).2 ≥ s.bm.size &&
        !hasId s.bm.cache { height := s.hB, idx := idx }) = false)
    (htake : ((({ height := s.hB, idx := k } : Ident).posRange s.bmSize).2 ≥ s.bm.size &&
        !hasId s.bm.cache { height := s.hB, idx := k }) = true) :
    ∀ (n a : Nat), a ≤ k → k < a + n →
      ∃ t, wantBitmapLoop s max (List.range' a n) [] = (Kind.bitmap, ⟨s.hB, k⟩) :: t
  | 0, a, h1, h2 => by omega
  | n + 1, a, h1, h2 => by
    rw [List.range'_succ]
    unfold wantBitmapLoop
    simp only
    by_cases hak : a = k
    · subst hak
      rw [htake]
      simp only [if_true, List.nil_append]
      split
      · exact ⟨[], rfl⟩
      · obtain ⟨t, ht⟩ := wantBitmapLoop_prefix s max (List.range' (a + 1) n) [(Kind.bitmap, ⟨s.hB, a⟩)]
        exact ⟨t, by rw [ht]; rfl⟩
    · rw [hskip a (by omega)]
      simp only [Bool.false_eq_true, if_false]
      exact wantBitmapLoop_first s max k hskip htake n (a + 1) (by omega) (by omega)

/-- **In the bitmap phase the request list starts with the bitmap segment that comes next**
(unless it is cached already), for every `max_elements` -/
theorem desired_bitmap_next (No Nk : Nat) (s : St) (hi : Inv No Nk s) (hbc : s.bitmapCache = false)
    (k : Nat) (p : Pos false s.hB (Dsg.expectedChunks No) s.bm.leaves (some k))
    (hnc : hasId s.bm.cache { height := s.hB, idx := k } = false) (max : Nat) :
    ∃ t, s.desired max = (Kind.bitmap, ⟨s.hB, k⟩) :: t := by
  obtain ⟨par, bm, _, _, _, _, _, _⟩ := hi
  have hcs := chunks_small No par.NoS
  have hp := pow_pos' s.hB
  have hbs : s.bmSize = mmr (Dsg.expectedChunks No) := par.bms
  have hlt := p.lt_of_some
  have hn : s.bm.leaves = k * 2 ^ s.hB := by
    generalize hl : s.bm.leaves = n at p
    cases p with
    | boundary k hk => rfl
    | genesis hg _ => cases hg
  have hsz : s.bm.size = mmr (k * 2 ^ s.hB) := by rw [bm.size_eq, hn]
  rw [hn] at hlt
  unfold St.desired
  rw [hbc]
  simp only [Bool.not_false, if_true]
  have htot : Ident.countSegmentsRequired s.bmSize s.hB = Dsg.segCount (Dsg.expectedChunks No) s.hB := by
    rw [hbs]; exact csr_mmr _ _ par.hB hcs
  rw [htot, List.range_eq_range']
  have hk : k < Dsg.segCount (Dsg.expectedChunks No) s.hB := (idx_lt_segCount_iff _ _ _).mpr hlt
  refine wantBitmapLoop_first s max k ?_ ?_ _ 0 (Nat.zero_le _) (by omega)
  · intro idx hidx
    have h1 : (idx + 1) * 2 ^ s.hB ≤ k * 2 ^ s.hB := Nat.mul_le_mul_right _ hidx
    have := posRange_last_lt ⟨s.hB, idx⟩ (Dsg.expectedChunks No) (k * 2 ^ s.hB) par.hB hcs h1 (by omega)
    rw [← hbs, ← hsz] at this
    have hf : decide (((⟨s.hB, idx⟩ : Ident).posRange s.bmSize).2 ≥ s.bm.size) = false := by
      simp only [decide_eq_false_iff_not, ge_iff_le, Nat.not_le]; exact this
    rw [hf]; rfl
  · have := posRange_last_ge ⟨s.hB, k⟩ (Dsg.expectedChunks No) par.hB hcs hlt
    rw [← hbs, ← hsz] at this
    have ht : decide (((⟨s.hB, k⟩ : Ident).posRange s.bmSize).2 ≥ s.bm.size) = true := by
      simp only [decide_eq_true_eq, ge_iff_le]; exact this
    rw [ht, hnc]; rfl

/-- `maybe_add_to_request` leaves the identifier in the list -/
theorem maybeAdd_mem (max : Nat) (acc : List (Kind × Ident)) (x : Kind × Ident) : x ∈ maybeAdd max acc x := by
  unfold maybeAdd
  split
  · rename_i h
    exact List.contains_iff_mem.mp h
  · exact List.mem_append_right _ List.mem_cons_self

/-- "Ensure we explicitly ask for the next … segment": after the step the next segment of that tree
is in the list unless it is cached -/
theorem ensureNext_mem (max : Nat) (acc : List (Kind × Ident)) (k : Kind) (h n : Nat) (cache : List Cached)
    (hnc : hasId cache { height := h, idx := n } = false) :
    (k, ({ height := h, idx := n } : Ident)) ∈ ensureNext max acc k h (some n) cache := by
  unfold ensureNext
  simp only [hnc, Bool.false_eq_true, if_false]
  exact maybeAdd_mem max acc _

/-- the last of the three "ensure" steps is the kernel tree's: **after the bitmap phase the request
list always contains the kernel segment that comes next** (unless it is cached), for every
`max_elements` ≥ 0 and whatever the other two trees ask for -/
theorem desired_kernel_next (No Nk : Nat) (s : St) (hi : Inv No Nk s) (hbc : s.bitmapCache = true)
    (k : Nat) (p : Pos true s.hK Nk s.ker.leaves (some k))
    (hnc : hasId s.ker.cache { height := s.hK, idx := k } = false) (max : Nat) :
    (Kind.kernel, ({ height := s.hK, idx := k } : Ident)) ∈ s.desired max := by
  have hnk : s.nextRequired .kernel = some k := (next_values No Nk s hi).2.2.2 _ p
  unfold St.desired
  rw [hbc]
  simp only [Bool.not_true, Bool.false_eq_true, if_false]
  rw [hnk]
  exact ensureNext_mem max _ .kernel s.hK k s.ker.cache hnc

end GV.Deseg
