import GrinVerif.Lemmas.DecSerTx
/-! `Proof::read` (bit unpacking), `BlockHeader`, `UntrustedBlockHeader`, `UntrustedBlock`,
`CompactBlockBody`, `UntrustedCompactBlock`: bounds, panic-freedom. -/
namespace GV.DecSer
open GV GV.Ser GV.Dec GV.Msg

/-! ### `extract_bits` / `read_number`: every slice and shift is in range -/

theorem extractBitsP_ok {bits : Bytes} {s c rf : Nat} (h1 : rf + 8 ≤ bits.length) (h2 : c ≤ 64)
    (h3 : rf * 8 ≤ s) (h4 : s - rf * 8 < 64) : ∃ v, extractBitsP bits s c rf = .ok v := by
  unfold extractBitsP
  rw [if_neg (by omega)]
  by_cases hc : c = 64
  · rw [if_pos hc]; exact ⟨_, rfl⟩
  · rw [if_neg hc, if_neg (by omega), if_neg (by omega), if_neg (by omega)]; exact ⟨_, rfl⟩

/-- `read_number(bits, bit_start, bit_count)` does not panic when the buffer has at least 8 bytes, the
requested bits lie inside it and at most 63 bits are requested -/
theorem readNumberP_ok {bits : Bytes} {s c : Nat} (hl : 8 ≤ bits.length) (hs : s + c ≤ bits.length * 8)
    (hc : c ≤ 63) : ∃ v, readNumberP bits s c = .ok v := by
  unfold readNumberP
  by_cases h0 : c = 0
  · rw [if_pos h0]; exact ⟨_, rfl⟩
  · rw [if_neg h0]
    simp only
    rw [if_neg (by omega)]
    by_cases hmv : s / 8 + 8 > bits.length
    · -- moved back to the last 8 bytes: everything fits in one read
      rw [if_pos hmv, if_pos (by omega)]
      exact extractBitsP_ok (by omega) (by omega) (by omega) (by omega)
    · rw [if_neg hmv]
      by_cases hone : s + c ≤ (s / 8 + 8) * 8
      · rw [if_pos hone]
        exact extractBitsP_ok (by omega) (by omega) (by omega) (by omega)
      · rw [if_neg hone, if_neg (by omega)]
        obtain ⟨lo, hlo⟩ := extractBitsP_ok (bits := bits) (s := s) (c := 8) (rf := s / 8)
          (by omega) (by omega) (by omega) (by omega)
        obtain ⟨hi, hhi⟩ := extractBitsP_ok (bits := bits) (s := s + 8) (c := c - 8) (rf := s / 8 + 1)
          (by omega) (by omega) (by omega) (by omega)
        rw [hlo, hhi]; exact ⟨_, rfl⟩

theorem nonceLoop_ok {bits : Bytes} {eb : Nat} (hl : 8 ≤ bits.length) (heb : eb ≤ 63) :
    ∀ (k n : Nat), (n + k) * eb ≤ bits.length * 8 → ∃ vs, nonceLoop bits eb k n = .ok vs := by
  intro k
  induction k with
  | zero => intro n _; exact ⟨[], rfl⟩
  | succ k ih =>
    intro n h
    have h1 : (n + 1) * eb ≤ (n + (k + 1)) * eb := Nat.mul_le_mul_right eb (by omega)
    have h2 : (n + 1) * eb = n * eb + eb := by rw [Nat.add_mul, Nat.one_mul]
    obtain ⟨v, hv⟩ := readNumberP_ok (bits := bits) (s := n * eb) (c := eb) hl (by omega) heb
    obtain ⟨vs, hvs⟩ := ih (n + 1) (by rw [show n + 1 + k = n + (k + 1) by omega]; exact h)
    exact ⟨v :: vs, by simp only [nonceLoop, hv, hvs]⟩

theorem packLen_mul8 (ps eb : Nat) : ps * eb ≤ packLen ps eb * 8 := by
  unfold packLen
  rw [Nat.mul_comm ps eb]
  omega

theorem packLen_le (ps eb : Nat) (heb : eb ≤ 63) : packLen ps eb ≤ 8 * ps := by
  unfold packLen
  have : eb * ps ≤ 63 * ps := Nat.mul_le_mul_right ps heb
  omega

/-- the nonce loop and the padding check of `Proof::read` never panic on a buffer of exactly
`pack_len(edge_bits) ≥ 8` bytes with `edge_bits ≤ 63` -/
theorem noPanic_proofFromBits (c : Cfg) {eb : Nat} (heb : eb ≤ 63) (hpl : 8 ≤ packLen c.proofSize eb)
    {bits : Bytes} (hb : bits.length = packLen c.proofSize eb) : NoPanic (proofFromBits c eb bits) := by
  intro r
  have hm := packLen_mul8 c.proofSize eb
  obtain ⟨vs, hvs⟩ := nonceLoop_ok (bits := bits) (eb := eb) (by omega) heb c.proofSize 0
    (by rw [Nat.zero_add, hb]; exact hm)
  obtain ⟨pad, hpad⟩ := readNumberP_ok (bits := bits) (s := c.proofSize * eb)
    (c := packLen c.proofSize eb * 8 - c.proofSize * eb) (by omega) (by rw [hb]; omega)
    (by unfold packLen at hm ⊢; rw [Nat.mul_comm c.proofSize eb]; omega)
  unfold proofFromBits
  simp only [hvs, hpad]
  rw [if_neg (by omega)]
  split <;> rfl

theorem bnd_proofFromBits (c0 : Nat) (c : Cfg) (eb : Nat) (bits : Bytes) : Bnd c0 0 0 (proofFromBits c eb bits) := by
  intro r
  unfold proofFromBits
  cases nonceLoop bits eb c.proofSize 0 with
  | error s => simp
  | ok vs =>
    simp only
    split
    · simp
    · cases readNumberP bits (c.proofSize * eb) (packLen c.proofSize eb * 8 - c.proofSize * eb) with
      | error s => simp
      | ok pad =>
        simp only
        split <;> simp

/-- `Proof::read`: `8 · proofsize` for the nonce vector, the packed bytes it reads, and one failed read
of at most `8 · proofsize` bytes -/
theorem bnd_rProof (rd : Rdr) (c : Cfg) : Bnd 1 (8 * c.proofSize) (8 * c.proofSize) (rProof rd c) :=
  (Bnd.bind (bnd_rU8 1) fun eb =>
    Bnd.iteH (eb = 0 ∨ eb > 63)
      (fun _ => (Bnd.fail 1 .corrupted).mono (Nat.le_refl 1) (Nat.zero_le _) (Nat.zero_le _))
      (fun heb => (Bnd.withCapacity (A := 8 * c.proofSize)
        (Bnd.ite (packLen c.proofSize eb < 8)
          ((Bnd.fail 1 .corrupted).mono (Nat.le_refl 1) (Nat.le_refl _) (Nat.zero_le (8 * c.proofSize)))
          ((Bnd.bind (bnd_rFixed rd (packLen c.proofSize eb)) (bnd_proofFromBits 1 c eb)).mono (Nat.le_refl 1)
            (Nat.le_refl _) (by have := packLen_le c.proofSize eb (by omega); omega)))
        c.proofSize 8 (by omega)).mono (Nat.le_refl 1) (Nat.le_refl _) (Nat.le_refl _))).mono
    (Nat.le_refl 1) (by omega) (by omega)

theorem noPanic_rProof (rd : Rdr) (c : Cfg) (hps : c.proofSize * 8 ≤ ISIZE_MAX) : NoPanic (rProof rd c) :=
  NoPanic.bind noPanic_rU8 fun eb =>
    NoPanic.iteH (eb = 0 ∨ eb > 63) (fun _ => NoPanic.fail .corrupted)
      (fun heb => NoPanic.withCapacity
        (NoPanic.iteH (packLen c.proofSize eb < 8) (fun _ => NoPanic.fail .corrupted)
          (fun hpl => NoPanic.bindQ (Q := fun bits : Bytes => bits.length = packLen c.proofSize eb)
            (noPanic_rFixed rd _) (fun _ _ _ _ h => rFixed_ok_length h)
            (fun bits hb => noPanic_proofFromBits c (by omega) (by omega) hb)))
        c.proofSize 8 hps)

theorem bnd_rProofOfWork (rd : Rdr) (c : Cfg) :
    Bnd 1 (8 * c.proofSize) (8 * c.proofSize) (rProofOfWork rd c) :=
  (Bnd.bind (bnd_rU64 1) fun td => Bnd.bind (bnd_rU32 1) fun ss => Bnd.bind (bnd_rU64 1) fun nonce =>
    Bnd.bind (bnd_rProof rd c) fun pf => Bnd.pure 1 (ProofOfWork.mk td ss nonce pf)).mono
    (Nat.le_refl 1) (by omega) (by omega)

theorem noPanic_rProofOfWork (rd : Rdr) (c : Cfg) (hps : c.proofSize * 8 ≤ ISIZE_MAX) :
    NoPanic (rProofOfWork rd c) :=
  NoPanic.bind noPanic_rU64 fun td => NoPanic.bind noPanic_rU32 fun ss => NoPanic.bind noPanic_rU64 fun nonce =>
    NoPanic.bind (noPanic_rProof rd c hps) fun pf => NoPanic.pure (ProofOfWork.mk td ss nonce pf)

/-! ### `BlockHeader`, `UntrustedBlockHeader` -/

theorem bnd_rBlockHeader (rd : Rdr) (c : Cfg) :
    Bnd 1 (8 * c.proofSize) (32 + 8 * c.proofSize) (rBlockHeader rd c) :=
  (Bnd.bind (bnd_rU16 1) fun version =>
   Bnd.bind (bnd_rU64 1) fun height =>
   Bnd.bind (bnd_rI64 1) fun timestamp =>
   Bnd.bind (bnd_rHash rd) fun prevHash =>
   Bnd.bind (bnd_rHash rd) fun prevRoot =>
   Bnd.bind (bnd_rHash rd) fun outputRoot =>
   Bnd.bind (bnd_rHash rd) fun rangeProofRoot =>
   Bnd.bind (bnd_rHash rd) fun kernelRoot =>
   Bnd.bind (bnd_rBlind rd) fun tko =>
   Bnd.bind (bnd_rU64 1) fun oms =>
   Bnd.bind (bnd_rU64 1) fun kms =>
   Bnd.bind (bnd_rProofOfWork rd c) fun pow =>
     Bnd.ite (timestamp > TS_MAX ∨ timestamp < TS_MIN) (Bnd.fail 1 .corrupted)
       (Bnd.pure 1 (BlockHeader.mk version height prevHash prevRoot timestamp outputRoot rangeProofRoot
          kernelRoot tko oms kms pow))).mono
    (Nat.le_refl 1) (by omega) (by omega)

theorem noPanic_rBlockHeader (rd : Rdr) (c : Cfg) (hps : c.proofSize * 8 ≤ ISIZE_MAX) :
    NoPanic (rBlockHeader rd c) :=
  NoPanic.bind noPanic_rU16 fun version =>
   NoPanic.bind noPanic_rU64 fun height =>
   NoPanic.bind noPanic_rI64 fun timestamp =>
   NoPanic.bind (noPanic_rHash rd) fun prevHash =>
   NoPanic.bind (noPanic_rHash rd) fun prevRoot =>
   NoPanic.bind (noPanic_rHash rd) fun outputRoot =>
   NoPanic.bind (noPanic_rHash rd) fun rangeProofRoot =>
   NoPanic.bind (noPanic_rHash rd) fun kernelRoot =>
   NoPanic.bind (noPanic_rBlind rd) fun tko =>
   NoPanic.bind noPanic_rU64 fun oms =>
   NoPanic.bind noPanic_rU64 fun kms =>
   NoPanic.bind (noPanic_rProofOfWork rd c hps) fun pow =>
     NoPanic.ite (timestamp > TS_MAX ∨ timestamp < TS_MIN) (NoPanic.fail .corrupted)
       (NoPanic.pure (BlockHeader.mk version height prevHash prevRoot timestamp outputRoot rangeProofRoot
          kernelRoot tko oms kms pow))

theorem bnd_untrustedChecks (c0 : Nat) (e : Env) (h : BlockHeader) :
    Bnd c0 (powVerifyAlloc e.cfg.proofSize) 0 (untrustedChecks e h) := by
  intro r
  unfold untrustedChecks
  simp only
  cases GV.Cons.untrustedHeaderCheck e.ct e.now e.ftl (e.powOk h) (toHdr h) with
  | error x => cases x <;> simp only [charge, Outcome.addAlloc, OBnd_err] <;> split <;> omega
  | ok u => simp only [charge, Outcome.addAlloc, OBnd_ok]; refine ⟨Nat.le_refl _, ?_⟩; split <;> omega

theorem noPanic_untrustedChecks (e : Env) (h : BlockHeader) : NoPanic (untrustedChecks e h) := by
  intro r
  unfold untrustedChecks
  simp only
  cases GV.Cons.untrustedHeaderCheck e.ct e.now e.ftl (e.powOk h) (toHdr h) with
  | error x => cases x <;> rfl
  | ok u => rfl

/-- the additive constant of a header: nonce vector + what `verify_size` allocates -/
def hdrK (ps : Nat) : Nat := 8 * ps + powVerifyAlloc ps
/-- the slack of a failed read inside a header -/
def hdrE (ps : Nat) : Nat := 32 + 8 * ps

theorem bnd_rUntrustedHeader (rd : Rdr) (e : Env) :
    Bnd 1 (hdrK e.cfg.proofSize) (hdrE e.cfg.proofSize) (rUntrustedHeader rd e) :=
  (Bnd.bind (bnd_rBlockHeader rd e.cfg) (bnd_untrustedChecks 1 e)).mono (Nat.le_refl 1)
    (by unfold hdrK; omega) (by unfold hdrE; omega)

theorem noPanic_rUntrustedHeader (rd : Rdr) (e : Env) (hps : e.cfg.proofSize * 8 ≤ ISIZE_MAX) :
    NoPanic (rUntrustedHeader rd e) :=
  NoPanic.bind (noPanic_rBlockHeader rd e.cfg hps) (noPanic_untrustedChecks e)

/-! ### `UntrustedBlock` -/

theorem bnd_rUntrustedBlock (rd : Rdr) (e : Env) :
    Bnd CB (hdrK e.cfg.proofSize) (675 + hdrE e.cfg.proofSize) (rUntrustedBlock rd e) :=
  ((BndS.bind (k2 := 0)
      (Bnd.toBndS ((bnd_rUntrustedHeader rd e).mono (by decide : 1 ≤ CB) (Nat.le_refl _) (Nat.le_refl _))) fun h =>
    BndS.bind (k2 := 0) (bndS_rTxBody rd e.cfg) fun body =>
    BndS.bind (k2 := 0) (bndS_validateReadBody e.cfg e.cfg.maxWeight body) fun _ =>
      BndS.pure CB (fun _ : Block => 0) (Block.mk h body)).mono
    (Nat.le_refl _) (by omega) (by omega) (fun _ => Nat.le_refl _)).toBnd

theorem noPanic_rUntrustedBlock (rd : Rdr) (e : Env) (hps : e.cfg.proofSize * 8 ≤ ISIZE_MAX) :
    NoPanic (rUntrustedBlock rd e) :=
  NoPanic.bind (noPanic_rUntrustedHeader rd e hps) fun h =>
    NoPanic.bind (noPanic_rTxBody rd e.cfg) fun body =>
    NoPanic.bind (noPanic_validateReadBody e.cfg e.cfg.maxWeight body) fun _ => NoPanic.pure (Block.mk h body)

/-! ### `CompactBlockBody`, `UntrustedCompactBlock` -/

/-- the coefficient of the compact-block body: 1 + 70, where 70 · 42 ≥ 4 · 728 pays for the pushed
`Vec<Output>` per 42-byte output (there is no weight pre-check and no `to_vec()`) -/
def CC : Nat := 71

theorem compactVerifySortedP_noPanic (key : Bytes → Nat) (b : CompactBlockBody) (s : Site) :
    compactVerifySortedP key b ≠ .panic s :=
  Chk.andThen_noPanic (verifySortedP_noPanic _)
    (Chk.andThen_noPanic (verifySortedP_noPanic _) (verifySortedP_noPanic _)) s

theorem bnd_rCompactBody (rd : Rdr) (c : Cfg) : Bnd CC 0 675 (rCompactBody rd c) :=
  ((BndS.bind (k2 := 0) (Bnd.toBndS (bnd_rU64 CC)) fun no =>
    BndS.bind (k2 := 0) (Bnd.toBndS (bnd_rU64 CC)) fun nk =>
    BndS.bind (k2 := 0) (Bnd.toBndS (bnd_rU64 CC)) fun ni =>
    (BndS.bind (k2 := 0)
      (bndS_readMulti (c0 := 1) (c1 := 70) (w := 42) (d := 0) (bnd_rOutput rd) (progW_rOutput rd) (by decide) no)
      fun outs =>
      (BndS.bind (k2 := 0)
        (bndS_readMulti (c0 := 1) (c1 := 70) (w := 97) (d := 0) (bnd_rTxKernel rd c) (progW_rTxKernel rd c)
          (by decide) nk)
        fun kers =>
        (BndS.bind (k2 := 0)
          (bndS_readMulti (c0 := 1) (c1 := 70) (w := 6) (d := 0) (bnd_rShortId rd) (progW_rShortId rd)
            (by decide) ni)
          fun ids =>
          (BndS.corrupt (compactVerifySortedP c.key (CompactBlockBody.mk outs kers ids))
            (BndS.pure CC (fun _ : CompactBlockBody => 0) (CompactBlockBody.mk outs kers ids))).mono
            (Nat.le_refl _) (Nat.zero_le _) (Nat.le_refl _) (fun _ => Nat.le_refl _)).mono
          (e' := 675) (Nat.le_refl _) (Nat.zero_le _) (by decide) (fun _ => Nat.le_refl _)).mono
        (e' := 675) (Nat.le_refl _) (Nat.zero_le _) (by decide) (fun _ => Nat.le_refl _)).mono
      (e' := 675) (Nat.le_refl _) (Nat.le_refl _) (by decide) (fun _ => Nat.le_refl _)).mono
    (Nat.le_refl _) (by decide) (by decide) (fun _ => Nat.le_refl _)).toBnd

theorem noPanic_rCompactBody (rd : Rdr) (c : Cfg) : NoPanic (rCompactBody rd c) :=
  NoPanic.bind noPanic_rU64 fun no =>
  NoPanic.bind noPanic_rU64 fun nk =>
  NoPanic.bind noPanic_rU64 fun ni =>
  NoPanic.bind (noPanic_readMulti (noPanic_rOutput rd) OUTPUT_MEM no) fun outs =>
  NoPanic.bind (noPanic_readMulti (noPanic_rTxKernel rd c) KERNEL_MEM nk) fun kers =>
  NoPanic.bind (noPanic_readMulti (noPanic_rShortId rd) SHORT_ID_MEM ni) fun ids =>
    NoPanic.corrupt _ (compactVerifySortedP_noPanic c.key _) (NoPanic.pure (CompactBlockBody.mk outs kers ids))

theorem bnd_rUntrustedCompactBlock (rd : Rdr) (e : Env) :
    Bnd CC (hdrK e.cfg.proofSize) (675 + hdrE e.cfg.proofSize) (rUntrustedCompactBlock rd e) :=
  (Bnd.bind ((bnd_rUntrustedHeader rd e).mono (by decide : 1 ≤ CC) (Nat.le_refl _) (Nat.le_refl _)) fun h =>
    Bnd.bind (bnd_rU64 CC) fun nonce =>
    Bnd.bind (bnd_rCompactBody rd e.cfg) fun body =>
      (BndS.corrupt (compactVerifySortedP e.cfg.key body)
        (BndS.pure CC (fun _ : CompactBlock => 0) (CompactBlock.mk h nonce body))).toBnd).mono
    (Nat.le_refl _) (by omega) (by omega)

theorem noPanic_rUntrustedCompactBlock (rd : Rdr) (e : Env) (hps : e.cfg.proofSize * 8 ≤ ISIZE_MAX) :
    NoPanic (rUntrustedCompactBlock rd e) :=
  NoPanic.bind (noPanic_rUntrustedHeader rd e hps) fun h =>
    NoPanic.bind noPanic_rU64 fun nonce =>
    NoPanic.bind (noPanic_rCompactBody rd e.cfg) fun body =>
      NoPanic.corrupt _ (compactVerifySortedP_noPanic e.cfg.key body) (NoPanic.pure (CompactBlock.mk h nonce body))

end GV.DecSer
