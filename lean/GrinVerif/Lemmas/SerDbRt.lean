import GrinVerif.Model.SerDb
import GrinVerif.Lemmas.SerStoreRt
import GrinVerif.Lemmas.SerMsgRt
/-! Lemmas about `Model/SerDb.lean`: round trips with any continuation, inversion ("accepted ⇒ these
were the bytes"), refusals, and what the two normalising readers (`BoolFlag`, `PeerData`) do. -/
namespace GV.SerDb
open GV GV.Ser GV.SerMsg

/-! ## variant bytes -/

theorem decWrapperVariant_tag (v : WrapperVariant) (rest : Bytes) :
    decWrapperVariant (writeU8 v.tag ++ rest) = .ok (v, rest) := by
  cases v <;> rfl

theorem decEntryVariant_tag (v : EntryVariant) (rest : Bytes) :
    decEntryVariant (writeU8 v.tag ++ rest) = .ok (v, rest) := by
  cases v <;> rfl

theorem decWrapperVariant_inv {bs : Bytes} {v : WrapperVariant} {r : Bytes}
    (h : decWrapperVariant bs = .ok (v, r)) : bs = writeU8 v.tag ++ r := by
  unfold decWrapperVariant at h
  obtain ⟨t, r1, h1, k⟩ := andThen_inv h
  have e := readU8_inv h1
  subst e
  by_cases h0 : t = 0
  · subst h0
    simp at k
    obtain ⟨rfl, rfl⟩ := k
    rfl
  · by_cases h1' : t = 1
    · subst h1'
      simp at k
      obtain ⟨rfl, rfl⟩ := k
      rfl
    · simp [h0, h1'] at k

theorem decEntryVariant_inv {bs : Bytes} {v : EntryVariant} {r : Bytes}
    (h : decEntryVariant bs = .ok (v, r)) : bs = writeU8 v.tag ++ r := by
  unfold decEntryVariant at h
  obtain ⟨t, r1, h1, k⟩ := andThen_inv h
  have e := readU8_inv h1
  subst e
  by_cases h2 : t = 2
  · subst h2
    simp at k
    obtain ⟨rfl, rfl⟩ := k
    rfl
  · by_cases h3 : t = 3
    · subst h3
      simp at k
      obtain ⟨rfl, rfl⟩ := k
      rfl
    · by_cases h4 : t = 4
      · subst h4
        simp at k
        obtain ⟨rfl, rfl⟩ := k
        rfl
      · simp [h2, h3, h4] at k

theorem decWrapperVariant_unknown (t : Nat) (ht : 2 ≤ t) (r : Bytes) :
    decWrapperVariant (t :: r) = .error .corrupted := by
  have h0 : ¬ t = 0 := by omega
  have h1 : ¬ t = 1 := by omega
  simp [decWrapperVariant, readU8, h0, h1]

theorem decEntryVariant_unknown (t : Nat) (ht : t < 2 ∨ 4 < t) (r : Bytes) :
    decEntryVariant (t :: r) = .error .corrupted := by
  have h2 : ¬ t = 2 := by omega
  have h3 : ¬ t = 3 := by omega
  have h4 : ¬ t = 4 := by omega
  simp [decEntryVariant, readU8, h2, h3, h4]

/-! ## ListWrapper<T> / ListEntry<T>, generically in the item codec -/

/-- the item codec round-trips on `x` with every continuation -/
def ItemRt {α : Type} (p : Parser α) (w : α → Bytes) (x : α) : Prop :=
  ∀ rest, p (w x ++ rest) = .ok (x, rest)

/-- whatever the item reader accepts is the encoding of the value it returns -/
def ItemCanon {α : Type} (p : Parser α) (w : α → Bytes) : Prop :=
  ∀ bs x r, AllBytes bs → p bs = .ok (x, r) → bs = w x ++ r

def ListWrapper.WF {α : Type} (p : Parser α) (w : α → Bytes) : ListWrapper α → Prop
  | .single pos => ItemRt p w pos
  | .multi head tail => head < 2^64 ∧ tail < 2^64

def ListEntry.WF {α : Type} (p : Parser α) (w : α → Bytes) : ListEntry α → Prop
  | .head pos next => ItemRt p w pos ∧ next < 2^64
  | .tail pos prev => ItemRt p w pos ∧ prev < 2^64
  | .middle pos next prev => ItemRt p w pos ∧ next < 2^64 ∧ prev < 2^64

theorem decListWrapper_enc {α : Type} (p : Parser α) (w : α → Bytes) (x : ListWrapper α)
    (h : x.WF p w) (rest : Bytes) : decListWrapper p (encListWrapper w x ++ rest) = .ok (x, rest) := by
  cases x with
  | single pos =>
    rw [decListWrapper, encListWrapper]
    simp only [List.append_assoc]
    rw [decWrapperVariant_tag, andThen_ok]
    simp only
    rw [h rest, andThen_ok]
  | multi head tail =>
    obtain ⟨h1, h2⟩ := h
    rw [decListWrapper, encListWrapper]
    simp only [List.append_assoc]
    rw [decWrapperVariant_tag, andThen_ok]
    simp only
    rw [readU64_write _ h1, andThen_ok, readU64_write _ h2, andThen_ok]

theorem decListEntry_enc {α : Type} (p : Parser α) (w : α → Bytes) (x : ListEntry α)
    (h : x.WF p w) (rest : Bytes) : decListEntry p (encListEntry w x ++ rest) = .ok (x, rest) := by
  cases x with
  | head pos next =>
    obtain ⟨h1, h2⟩ := h
    rw [decListEntry, encListEntry]
    simp only [List.append_assoc]
    rw [decEntryVariant_tag, andThen_ok]
    simp only
    rw [h1, andThen_ok, readU64_write _ h2, andThen_ok]
  | tail pos prev =>
    obtain ⟨h1, h2⟩ := h
    rw [decListEntry, encListEntry]
    simp only [List.append_assoc]
    rw [decEntryVariant_tag, andThen_ok]
    simp only
    rw [h1, andThen_ok, readU64_write _ h2, andThen_ok]
  | middle pos next prev =>
    obtain ⟨h1, h2, h3⟩ := h
    rw [decListEntry, encListEntry]
    simp only [List.append_assoc]
    rw [decEntryVariant_tag, andThen_ok]
    simp only
    rw [h1, andThen_ok, readU64_write _ h2, andThen_ok, readU64_write _ h3, andThen_ok]

theorem decListWrapper_inv {α : Type} {p : Parser α} {w : α → Bytes} (hc : ItemCanon p w)
    {bs : Bytes} {x : ListWrapper α} {r : Bytes} (hb : AllBytes bs)
    (h : decListWrapper p bs = .ok (x, r)) : bs = encListWrapper w x ++ r := by
  unfold decListWrapper at h
  obtain ⟨v, r1, h1, k⟩ := andThen_inv h
  have e := decWrapperVariant_inv h1
  subst e
  have b1 := allBytes_append_right hb
  cases v with
  | single =>
    simp only at k
    obtain ⟨pos, r2, h2, k2⟩ := andThen_inv k
    simp only [Except.ok.injEq, Prod.mk.injEq] at k2
    obtain ⟨rfl, rfl⟩ := k2
    have e2 := hc _ _ _ b1 h2
    subst e2
    simp [encListWrapper]
  | multi =>
    simp only at k
    obtain ⟨hd, r2, h2, k2⟩ := andThen_inv k
    obtain ⟨tl, r3, h3, k3⟩ := andThen_inv k2
    simp only [Except.ok.injEq, Prod.mk.injEq] at k3
    obtain ⟨rfl, rfl⟩ := k3
    obtain ⟨e2, _⟩ := readU64_inv b1 h2
    subst e2
    obtain ⟨e3, _⟩ := readU64_inv (allBytes_append_right b1) h3
    subst e3
    simp [encListWrapper]

theorem decListEntry_inv {α : Type} {p : Parser α} {w : α → Bytes} (hc : ItemCanon p w)
    {bs : Bytes} {x : ListEntry α} {r : Bytes} (hb : AllBytes bs)
    (h : decListEntry p bs = .ok (x, r)) : bs = encListEntry w x ++ r := by
  unfold decListEntry at h
  obtain ⟨v, r1, h1, k⟩ := andThen_inv h
  have e := decEntryVariant_inv h1
  subst e
  have b1 := allBytes_append_right hb
  cases v with
  | head =>
    simp only at k
    obtain ⟨pos, r2, h2, k2⟩ := andThen_inv k
    obtain ⟨nx, r3, h3, k3⟩ := andThen_inv k2
    simp only [Except.ok.injEq, Prod.mk.injEq] at k3
    obtain ⟨rfl, rfl⟩ := k3
    have e2 := hc _ _ _ b1 h2
    subst e2
    obtain ⟨e3, _⟩ := readU64_inv (allBytes_append_right b1) h3
    subst e3
    simp [encListEntry]
  | tail =>
    simp only at k
    obtain ⟨pos, r2, h2, k2⟩ := andThen_inv k
    obtain ⟨nx, r3, h3, k3⟩ := andThen_inv k2
    simp only [Except.ok.injEq, Prod.mk.injEq] at k3
    obtain ⟨rfl, rfl⟩ := k3
    have e2 := hc _ _ _ b1 h2
    subst e2
    obtain ⟨e3, _⟩ := readU64_inv (allBytes_append_right b1) h3
    subst e3
    simp [encListEntry]
  | middle =>
    simp only at k
    obtain ⟨pos, r2, h2, k2⟩ := andThen_inv k
    obtain ⟨nx, r3, h3, k3⟩ := andThen_inv k2
    obtain ⟨pv, r4, h4, k4⟩ := andThen_inv k3
    simp only [Except.ok.injEq, Prod.mk.injEq] at k4
    obtain ⟨rfl, rfl⟩ := k4
    have e2 := hc _ _ _ b1 h2
    subst e2
    have b2 := allBytes_append_right b1
    obtain ⟨e3, _⟩ := readU64_inv b2 h3
    subst e3
    obtain ⟨e4, _⟩ := readU64_inv (allBytes_append_right b2) h4
    subst e4
    simp [encListEntry]

/-- the first byte of a written entry is 2, 3 or 4; of a written list 0 or 1 -/
theorem encListEntry_head {α : Type} (w : α → Bytes) (e : ListEntry α) :
    ∃ t tl, encListEntry w e = t :: tl ∧ 2 ≤ t := by
  cases e <;> exact ⟨_, _, rfl, by decide⟩

theorem encListWrapper_head {α : Type} (w : α → Bytes) (l : ListWrapper α) :
    ∃ t tl, encListWrapper w l = t :: tl ∧ t < 2 := by
  cases l <;> exact ⟨_, _, rfl, by decide⟩

theorem decListWrapper_unknown {α : Type} (p : Parser α) (t : Nat) (ht : 2 ≤ t) (r : Bytes) :
    decListWrapper p (t :: r) = .error .corrupted := by
  rw [decListWrapper, decWrapperVariant_unknown t ht, andThen_error]

theorem decListEntry_unknown {α : Type} (p : Parser α) (t : Nat) (ht : t < 2 ∨ 4 < t) (r : Bytes) :
    decListEntry p (t :: r) = .error .corrupted := by
  rw [decListEntry, decEntryVariant_unknown t ht, andThen_error]

/-! ## the CommitPos instances -/

theorem commitPos_itemRt (c : CommitPos) (h : c.WF) : ItemRt decCommitPos encCommitPos c :=
  fun rest => decCommitPos_enc c h rest

theorem commitPos_itemCanon : ItemCanon decCommitPos encCommitPos :=
  fun _ _ _ hb h => (decCommitPos_inv hb h).1

/-! ## BlockSums, SizeEntry -/

def BlockSums.WF (s : BlockSums) : Prop := s.utxoSum.length = COMMIT_SIZE ∧ s.kernelSum.length = COMMIT_SIZE
instance (s : BlockSums) : Decidable s.WF := by unfold BlockSums.WF; infer_instance

theorem decBlockSums_enc (s : BlockSums) (h : s.WF) (rest : Bytes) :
    decBlockSums (encBlockSums s ++ rest) = .ok (s, rest) := by
  obtain ⟨h1, h2⟩ := h
  rw [decBlockSums, encBlockSums]
  simp only [List.append_assoc]
  rw [readFixed_write _ _ h1 (by decide), andThen_ok, readFixed_write _ _ h2 (by decide), andThen_ok]

theorem decBlockSums_inv {bs : Bytes} {s : BlockSums} {r : Bytes} (h : decBlockSums bs = .ok (s, r)) :
    bs = encBlockSums s ++ r ∧ s.WF := by
  rw [decBlockSums] at h
  obtain ⟨u, r1, h1, k1⟩ := andThen_inv h
  obtain ⟨k, r2, h2, k2⟩ := andThen_inv k1
  simp only [Except.ok.injEq, Prod.mk.injEq] at k2
  obtain ⟨rfl, rfl⟩ := k2
  obtain ⟨e1, l1⟩ := readFixed_ok h1
  subst e1
  obtain ⟨e2, l2⟩ := readFixed_ok h2
  subst e2
  exact ⟨by simp [encBlockSums, writeFixed], l1, l2⟩

def SizeEntry.WF (e : SizeEntry) : Prop := e.offset < 2^64 ∧ e.size < 2^16
instance (e : SizeEntry) : Decidable e.WF := by unfold SizeEntry.WF; infer_instance

theorem decSizeEntry_enc (e : SizeEntry) (h : e.WF) (rest : Bytes) :
    decSizeEntry (encSizeEntry e ++ rest) = .ok (e, rest) := by
  obtain ⟨h1, h2⟩ := h
  rw [decSizeEntry, encSizeEntry]
  simp only [List.append_assoc]
  rw [readU64_write _ h1, andThen_ok, readU16_write _ h2, andThen_ok]

theorem decSizeEntry_inv {bs : Bytes} {e : SizeEntry} {r : Bytes} (hb : AllBytes bs)
    (h : decSizeEntry bs = .ok (e, r)) : bs = encSizeEntry e ++ r ∧ e.WF := by
  rw [decSizeEntry] at h
  obtain ⟨o, r1, h1, k1⟩ := andThen_inv h
  obtain ⟨s, r2, h2, k2⟩ := andThen_inv k1
  simp only [Except.ok.injEq, Prod.mk.injEq] at k2
  obtain ⟨rfl, rfl⟩ := k2
  obtain ⟨e1, l1⟩ := readU64_inv hb h1
  subst e1
  obtain ⟨e2, l2⟩ := readU16_inv (allBytes_append_right hb) h2
  subst e2
  exact ⟨by simp [encSizeEntry], l1, l2⟩

theorem encSizeEntry_length (e : SizeEntry) : (encSizeEntry e).length = SIZE_ENTRY_LEN := rfl

/-! ## i32, tuples -/

theorem toI32_ofI32 (z : Int) (h1 : -(2^31 : Int) ≤ z) (h2 : z < (2^31 : Int)) :
    toI32 ((z % 2^32).toNat) = z := by
  unfold toI32
  split <;> omega

theorem readI32_write (z : Int) (h1 : -(2^31 : Int) ≤ z) (h2 : z < (2^31 : Int)) (rest : Bytes) :
    readI32 (writeI32 z ++ rest) = .ok (z, rest) := by
  have hlt : (z % 2^32).toNat < 2^32 := by omega
  rw [readI32, writeI32, readU32_write _ hlt, andThen_ok, toI32_ofI32 z h1 h2]

theorem readI32_inv {bs : Bytes} {z : Int} {r : Bytes} (hb : AllBytes bs) (h : readI32 bs = .ok (z, r)) :
    bs = writeI32 z ++ r ∧ -(2^31 : Int) ≤ z ∧ z < (2^31 : Int) := by
  unfold readI32 at h
  obtain ⟨u, r1, h1, k⟩ := andThen_inv h
  simp only [Except.ok.injEq, Prod.mk.injEq] at k
  obtain ⟨rfl, rfl⟩ := k
  obtain ⟨e, l⟩ := readU32_inv hb h1
  subst e
  have hz : ((toI32 u) % 2^32).toNat = u := by
    unfold toI32
    split <;> omega
  refine ⟨by rw [writeI32, hz], ?_, ?_⟩ <;> (unfold toI32; split <;> omega)

theorem decTriple_enc {α β γ : Type} (pa : Parser α) (pb : Parser β) (pc : Parser γ)
    (wa : α → Bytes) (wb : β → Bytes) (wc : γ → Bytes) (x : α × β × γ)
    (ha : ItemRt pa wa x.1) (hb : ItemRt pb wb x.2.1) (hc : ItemRt pc wc x.2.2) (rest : Bytes) :
    decTriple pa pb pc (encTriple wa wb wc x ++ rest) = .ok (x, rest) := by
  obtain ⟨a, b, c⟩ := x
  rw [decTriple, encTriple]
  simp only [List.append_assoc]
  rw [ha, andThen_ok, hb, andThen_ok, hc, andThen_ok]

theorem decTriple_inv {α β γ : Type} {pa : Parser α} {pb : Parser β} {pc : Parser γ}
    {wa : α → Bytes} {wb : β → Bytes} {wc : γ → Bytes}
    (ca : ItemCanon pa wa) (cb : ItemCanon pb wb) (cc : ItemCanon pc wc)
    {bs : Bytes} {x : α × β × γ} {r : Bytes} (hbs : AllBytes bs)
    (h : decTriple pa pb pc bs = .ok (x, r)) : bs = encTriple wa wb wc x ++ r := by
  unfold decTriple at h
  obtain ⟨a, r1, h1, k1⟩ := andThen_inv h
  obtain ⟨b, r2, h2, k2⟩ := andThen_inv k1
  obtain ⟨c, r3, h3, k3⟩ := andThen_inv k2
  simp only [Except.ok.injEq, Prod.mk.injEq] at k3
  obtain ⟨rfl, rfl⟩ := k3
  have e1 := ca _ _ _ hbs h1
  subst e1
  have b1 := allBytes_append_right hbs
  have e2 := cb _ _ _ b1 h2
  subst e2
  have e3 := cc _ _ _ (allBytes_append_right b1) h3
  subst e3
  simp [encTriple]

theorem decQuad_enc {α β γ δ : Type} (pa : Parser α) (pb : Parser β) (pc : Parser γ) (pd : Parser δ)
    (wa : α → Bytes) (wb : β → Bytes) (wc : γ → Bytes) (wd : δ → Bytes) (x : α × β × γ × δ)
    (ha : ItemRt pa wa x.1) (hb : ItemRt pb wb x.2.1) (hc : ItemRt pc wc x.2.2.1)
    (hd : ItemRt pd wd x.2.2.2) (rest : Bytes) :
    decQuad pa pb pc pd (encQuad wa wb wc wd x ++ rest) = .ok (x, rest) := by
  obtain ⟨a, b, c, d⟩ := x
  rw [decQuad, encQuad]
  simp only [List.append_assoc]
  rw [ha, andThen_ok, hb, andThen_ok, hc, andThen_ok, hd, andThen_ok]

/-! ## BoolFlag -/

theorem decBoolFlag_enc (b : Bool) (rest : Bytes) : decBoolFlag (encBoolFlag b ++ rest) = .ok (b, rest) := by
  cases b <;> rfl

theorem decBoolFlag_any (x : Nat) (rest : Bytes) : decBoolFlag (x :: rest) = .ok (x % 2 == 1, rest) := rfl

/-! ## PeerData -/

def PeerData.WF (p : PeerData) : Prop :=
  p.addr.WF ∧ p.addr.norm = p.addr ∧ CapsWF p.capabilities ∧ StringWF p.userAgent ∧ p.flags ≤ PEER_STATE_MAX
  ∧ (-(2^63 : Int) ≤ p.lastBanned ∧ p.lastBanned < (2^63 : Int)) ∧ p.banReason ≤ 7
  ∧ (-(2^63 : Int) ≤ p.lastConnected ∧ p.lastConnected < (2^63 : Int))
  ∧ (-(2^63 : Int) ≤ p.lastAttempt ∧ p.lastAttempt < (2^63 : Int))

/-- everything up to and including the ban reason: the mandatory part -/
def encPeerDataHead (p : PeerData) : Bytes :=
  encPeerAddr p.addr ++ writeU32 p.capabilities ++ writeBytes p.userAgent ++ writeU8 p.flags
  ++ writeI64 p.lastBanned ++ writeU32 p.banReason

theorem encPeerData_eq (p : PeerData) :
    encPeerData p = encPeerDataHead p ++ (writeI64 p.lastConnected ++ writeI64 p.lastAttempt) := by
  simp [encPeerData, encPeerDataHead]

theorem readI64_short (bs : Bytes) (h : bs.length < 8) : readI64 bs = .error .ioEof := by
  unfold readI64
  match bs, h with
  | [], _ => rfl
  | [_], _ => rfl
  | [_, _], _ => rfl
  | [_, _, _], _ => rfl
  | [_, _, _, _], _ => rfl
  | [_, _, _, _, _], _ => rfl
  | [_, _, _, _, _, _], _ => rfl
  | [_, _, _, _, _, _, _], _ => rfl
  | _ :: _ :: _ :: _ :: _ :: _ :: _ :: _ :: _, h => simp at h; omega

/-- the reader on `head ++ tail` for ANY tail: the mandatory fields come back, the two optional ones
are whatever `readTrailing` makes of the tail -/
theorem decPeerData_head (now : Int) (p : PeerData) (h : p.WF) (tail : Bytes) :
    decPeerData now (encPeerDataHead p ++ tail)
      = .ok ({ p with lastConnected := (readTrailing now tail).1, lastAttempt := (readTrailing now tail).2.1 },
             (readTrailing now tail).2.2) := by
  obtain ⟨ha, hn, hc, hs, hf, ⟨hb1, hb2⟩, hr, _, _⟩ := h
  have hc32 := capsWF_lt hc
  have hr32 : p.banReason < 2^32 := by omega
  rw [decPeerData, encPeerDataHead]
  simp only [List.append_assoc]
  rw [decPeerAddr_enc _ ha, andThen_ok, readU32_write _ hc32, andThen_ok,
    readBytesLenPrefix_write _ hs.1, andThen_ok, readU8_write, andThen_ok,
    readI64_write _ hb1 hb2, andThen_ok, readU32_write _ hr32, andThen_ok]
  have hu : validUtf8 p.userAgent = true := hs.2
  have hfl : ¬ p.flags > PEER_STATE_MAX := by omega
  simp only [hu, Bool.not_true, Bool.false_eq_true, ↓reduceIte, reasonOfI32_some _ hr, hfl, hn]
  unfold CapsWF at hc
  rw [hc]

theorem readTrailing_full (now : Int) (lc la : Int) (h1 : -(2^63 : Int) ≤ lc ∧ lc < (2^63 : Int))
    (h2 : -(2^63 : Int) ≤ la ∧ la < (2^63 : Int)) (rest : Bytes) :
    readTrailing now (writeI64 lc ++ writeI64 la ++ rest) = (lc, la, rest) := by
  unfold readTrailing
  simp only [List.append_assoc]
  rw [readI64_write _ h1.1 h1.2]
  simp only
  rw [readI64_write _ h2.1 h2.2]

theorem readTrailing_none (now : Int) (tail : Bytes) (h : tail.length < 8) :
    readTrailing now tail = (now, 0, []) := by
  unfold readTrailing
  rw [readI64_short tail h]

theorem readTrailing_one (now : Int) (lc : Int) (h1 : -(2^63 : Int) ≤ lc ∧ lc < (2^63 : Int))
    (tail : Bytes) (h : tail.length < 8) :
    readTrailing now (writeI64 lc ++ tail) = (lc, 0, []) := by
  unfold readTrailing
  rw [readI64_write _ h1.1 h1.2]
  simp only
  rw [readI64_short tail h]

end GV.SerDb
