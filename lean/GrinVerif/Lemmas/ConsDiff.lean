import GrinVerif.Lemmas.ConsArith
/-! Normal forms of the retarget functions of the C04 model: each of `secondaryPowScaling`,
`nextDmaDifficulty`, `nextWtemaDifficulty` is rewritten, for every input on which it does not
panic, as one closed arithmetic expression; the property theorems in `Props/C04.lean` are read
off these. -/
namespace GV.Cons
open GV GV.Gen

/-- the clamped, damped time span used by the DMA retarget:
`clamp(damp(ts_delta, BLOCK_TIME_WINDOW, DMA_DAMP_FACTOR), BLOCK_TIME_WINDOW, CLAMP_FACTOR)` -/
def dmaAdjTs (tsDelta : Nat) : Nat :=
  max (BLOCK_TIME_WINDOW / CLAMP_FACTOR)
    (min (addW tsDelta (mulW (subW DMA_DAMP_FACTOR 1) BLOCK_TIME_WINDOW) / DMA_DAMP_FACTOR)
      (mulW BLOCK_TIME_WINDOW CLAMP_FACTOR))

theorem dmaAdjTs_val (d : Nat) : dmaAdjTs d = max 1800 (min (addW d 7200 / 3) 7200) := by
  unfold dmaAdjTs
  have e1 : mulW (subW DMA_DAMP_FACTOR 1) BLOCK_TIME_WINDOW = 7200 := by decide
  have e2 : mulW BLOCK_TIME_WINDOW CLAMP_FACTOR = 7200 := by decide
  have e3 : BLOCK_TIME_WINDOW / CLAMP_FACTOR = 1800 := by decide
  rw [e1, e2, e3, DMA_DAMP_FACTOR_val]

theorem dmaAdjTs_bounds (d : Nat) :
    BLOCK_TIME_WINDOW / CLAMP_FACTOR ≤ dmaAdjTs d ∧ dmaAdjTs d ≤ BLOCK_TIME_WINDOW * CLAMP_FACTOR := by
  rw [dmaAdjTs_val, BLOCK_TIME_WINDOW_val, CLAMP_FACTOR_val]
  omega

theorem dmaAdjTs_pos (d : Nat) : 0 < dmaAdjTs d := by
  rw [dmaAdjTs_val]; omega

/-- when `ts_delta + 2·BTW` does not wrap, damping alone keeps the adjusted span at or above
`(DAMP-1)/DAMP` of the target window -/
theorem dmaAdjTs_lower_nowrap (d : Nat) (h : d + (DMA_DAMP_FACTOR - 1) * BLOCK_TIME_WINDOW < 2^64) :
    (DMA_DAMP_FACTOR - 1) * BLOCK_TIME_WINDOW / DMA_DAMP_FACTOR ≤ dmaAdjTs d := by
  rw [dmaAdjTs_val]
  rw [DMA_DAMP_FACTOR_val, BLOCK_TIME_WINDOW_val] at *
  rw [addW_eq (by omega)]
  omega

/-- `dmaAdjTs` is monotone in the (non-wrapping) time span -/
theorem dmaAdjTs_mono {d d' : Nat} (hdd : d ≤ d')
    (h : d' + (DMA_DAMP_FACTOR - 1) * BLOCK_TIME_WINDOW < 2^64) : dmaAdjTs d ≤ dmaAdjTs d' := by
  rw [dmaAdjTs_val, dmaAdjTs_val]
  rw [DMA_DAMP_FACTOR_val, BLOCK_TIME_WINDOW_val] at h
  rw [addW_eq (by omega), addW_eq (by omega)]
  omega

/-- the DMA result as a function of the window's time span and difficulty sum -/
def dmaDiff (tsDelta diffSum : Nat) : Nat :=
  fromNum (max MIN_DMA_DIFFICULTY (mulW diffSum BLOCK_TIME_SEC / dmaAdjTs tsDelta))

/-- the clamped, damped secondary count used by `secondary_pow_scaling` -/
def arAdjCount (height : Nat) (data : List HDI) : Nat :=
  let targetCount := mulW DMA_WINDOW (secondaryPowRatio height)
  max (targetCount / CLAMP_FACTOR)
    (min (addW (arCount data) (mulW (subW AR_SCALE_DAMP_FACTOR 1) targetCount) / AR_SCALE_DAMP_FACTOR)
      (mulW targetCount CLAMP_FACTOR))

/-- the untruncated scale `scale_sum * target_pct / max(1, adj_count)` -/
def arScale (height : Nat) (data : List HDI) : Nat :=
  mulW (sumW (data.map (·.scaling))) (secondaryPowRatio height) / max 1 (arAdjCount height data)

/-- `secondary_pow_scaling` never panics; closed form -/
theorem secondaryPowScaling_eq (height : Nat) (data : List HDI) :
    secondaryPowScaling height data = some (max MIN_AR_SCALE (arScale height data) % 2^32) := by
  unfold secondaryPowScaling
  have h1 : AR_SCALE_DAMP_FACTOR ≠ 0 := by decide
  have h2 : CLAMP_FACTOR ≠ 0 := by decide
  simp only [damp_some h1, clamp_some h2, arAdjCount, arScale]

/-- `next_dma_difficulty` never panics on a non-empty cursor; closed form -/
theorem nextDmaDifficulty_eq (ct : ChainType) (height : Nat) (cursor : List HDI) (hne : cursor ≠ []) :
    ∃ data hi lo, difficultyDataToVector ct cursor = some data ∧ data.length = DMA_WINDOW + 1 ∧
      data[DMA_WINDOW]? = some hi ∧ data[0]? = some lo ∧
      nextDmaDifficulty ct height cursor = some
        { ts := 1
          diff := dmaDiff (subW hi.ts lo.ts) (sumW ((data.drop 1).map (·.diff)))
          scaling := max MIN_AR_SCALE (arScale height (data.drop 1)) % 2^32
          isSec := true } := by
  obtain ⟨data, hd, hl⟩ := difficultyDataToVector_length ct cursor hne
  have hw : DMA_WINDOW < data.length := by omega
  have h0 : 0 < data.length := by omega
  refine ⟨data, data[DMA_WINDOW], data[0], hd, hl, List.getElem?_eq_getElem hw,
    List.getElem?_eq_getElem h0, ?_⟩
  unfold nextDmaDifficulty
  rw [hd]
  simp only [secondaryPowScaling_eq]
  rw [List.getElem?_eq_getElem hw, List.getElem?_eq_getElem h0]
  have h1 : DMA_DAMP_FACTOR ≠ 0 := by decide
  have h2 : CLAMP_FACTOR ≠ 0 := by decide
  simp only [damp_some h1, clamp_some h2]
  have hpos := dmaAdjTs_pos (subW data[DMA_WINDOW].ts data[0].ts)
  unfold dmaAdjTs at hpos
  rw [if_neg (by omega)]
  simp [dmaDiff, dmaAdjTs]

/-- closed form of `next_wtema_difficulty` -/
def wtemaOf (ct : ChainType) (last prev : HDI) : HDI :=
  let den := addW (subW WTEMA_HALF_LIFE BLOCK_TIME_SEC) (subW last.ts prev.ts)
  { ts := 1
    diff := max (minWtemaGraphWeight ct) (fromNum (mulW last.diff WTEMA_HALF_LIFE / den))
    scaling := 0, isSec := true }

theorem nextWtemaDifficulty_cons (ct : ChainType) (last prev : HDI) (rest : List HDI) :
    nextWtemaDifficulty ct (last :: prev :: rest) =
      if addW (subW WTEMA_HALF_LIFE BLOCK_TIME_SEC) (subW last.ts prev.ts) = 0 then none
      else some (wtemaOf ct last prev) := by
  simp [nextWtemaDifficulty, wtemaOf]

/-- the WTEMA divisor for non-decreasing, in-range timestamps -/
theorem wtema_den_eq {last prev : HDI} (hle : prev.ts ≤ last.ts)
    (hr : last.ts + WTEMA_HALF_LIFE < 2^64) :
    addW (subW WTEMA_HALF_LIFE BLOCK_TIME_SEC) (subW last.ts prev.ts) =
      WTEMA_HALF_LIFE - BLOCK_TIME_SEC + (last.ts - prev.ts) := by
  have e : subW WTEMA_HALF_LIFE BLOCK_TIME_SEC = WTEMA_HALF_LIFE - BLOCK_TIME_SEC := by decide
  rw [WTEMA_HALF_LIFE_val] at hr
  rw [e, subW_eq hle (by omega), addW_eq (by rw [WTEMA_HALF_LIFE_val, BLOCK_TIME_SEC_val]; omega)]

end GV.Cons
