import GrinVerif.Drv.Common
import GrinVerif.Drv.PmmrD
import GrinVerif.Drv.SerD
import GrinVerif.Drv.TxD
import GrinVerif.Drv.ConsD
import GrinVerif.Drv.PowD
import GrinVerif.Drv.BitmapD
import GrinVerif.Drv.StoreD
import GrinVerif.Drv.KvD
import GrinVerif.Drv.ChainD
import GrinVerif.Drv.PoolD
import GrinVerif.Drv.SegD
import GrinVerif.Drv.KeysD
import GrinVerif.Drv.CodecD
import GrinVerif.Drv.ConcD
import GrinVerif.Drv.CrashD
import GrinVerif.Drv.DesegD
import GrinVerif.Drv.NrdD
/-! Line-protocol driver: stdin lines `<domain> <op> <args…> => <impl result>`;
for each line prints `ok`, `FAIL n model=… impl=…`, `DIFF n model=… impl=…`, `UNK n`. -/
open GV GV.Drv

structure DState where
  pmmr : PmmrD.St := {}
  ser : SerD.St := {}
  tx : TxD.St := {}
  cons : ConsD.St := {}
  pow : PowD.St := {}
  bitmap : BitmapD.St := {}
  store : StoreD.St := {}
  kv : KvD.St := {}
  chain : ChainD.St := {}
  pool : PoolD.St := {}
  seg : SegD.St := {}
  keys : KeysD.St := {}
  codec : CodecD.St := {}
  conc : ConcD.St := {}
  crash : CrashD.St := {}
  deseg : DesegD.St := {}
  nrd : NrdD.St := {}

def dispatch (s : DState) (dom : String) (args : List String) (impl : String) : DState × Verdict :=
  match dom with
  | "pmmr" => let (st, v) := PmmrD.handle s.pmmr args impl; ({ s with pmmr := st }, v)
  | "ser" => let (st, v) := SerD.handle s.ser args impl; ({ s with ser := st }, v)
  | "tx" => let (st, v) := TxD.handle s.tx args impl; ({ s with tx := st }, v)
  | "cons" => let (st, v) := ConsD.handle s.cons args impl; ({ s with cons := st }, v)
  | "pow" => let (st, v) := PowD.handle s.pow args impl; ({ s with pow := st }, v)
  | "bitmap" => let (st, v) := BitmapD.handle s.bitmap args impl; ({ s with bitmap := st }, v)
  | "store" => let (st, v) := StoreD.handle s.store args impl; ({ s with store := st }, v)
  | "kv" => let (st, v) := KvD.handle s.kv args impl; ({ s with kv := st }, v)
  | "chain" => let (st, v) := ChainD.handle s.chain args impl; ({ s with chain := st }, v)
  | "pool" => let (st, v) := PoolD.handle s.pool args impl; ({ s with pool := st }, v)
  | "seg" => let (st, v) := SegD.handle s.seg args impl; ({ s with seg := st }, v)
  | "keys" => let (st, v) := KeysD.handle s.keys args impl; ({ s with keys := st }, v)
  | "codec" => let (st, v) := CodecD.handle s.codec args impl; ({ s with codec := st }, v)
  | "conc" => let (st, v) := ConcD.handle s.conc args impl; ({ s with conc := st }, v)
  | "crash" => let (st, v) := CrashD.handle s.crash args impl; ({ s with crash := st }, v)
  | "deseg" => let (st, v) := DesegD.handle s.deseg args impl; ({ s with deseg := st }, v)
  | "nrd" => let (st, v) := NrdD.handle s.nrd args impl; ({ s with nrd := st }, v)
  | _ => (s, .unknown)

partial def loop (h : IO.FS.Stream) (out : IO.FS.Stream) (s : DState) (n ok fail diff unk : Nat) : IO Unit := do
  let line ← h.getLine
  if line.isEmpty then
    out.putStrLn s!"# lines={n} ok={ok} fail={fail} diff={diff} unk={unk}"
    return ()
  let line := line.trimAscii.toString
  if line.isEmpty || line.startsWith "#" then
    loop h out s n ok fail diff unk
  else
    let (lhs, impl) := match line.splitOn " => " with
      | [a, b] => (a, b)
      | [a] => (a, "")
      | a :: rest => (a, " => ".intercalate rest)
      | [] => ("", "")
    match splitWs lhs with
    | dom :: args =>
      let (s', v) := dispatch s dom args impl.trimAscii.toString
      match v with
      | .ok => loop h out s' (n+1) (ok+1) fail diff unk
      | .fail m => out.putStrLn s!"FAIL {n+1} {lhs} model={m} impl={impl}"; loop h out s' (n+1) ok (fail+1) diff unk
      | .diff m => out.putStrLn s!"DIFF {n+1} {lhs} model={m} impl={impl}"; loop h out s' (n+1) ok fail (diff+1) unk
      | .unknown => out.putStrLn s!"UNK {n+1} {lhs}"; loop h out s' (n+1) ok fail diff (unk+1)
      | .note m => out.putStrLn s!"NOTE {n+1} {m}"; loop h out s' (n+1) (ok+1) fail diff unk
    | [] => loop h out s n ok fail diff unk

def main : IO Unit := do
  loop (← IO.getStdin) (← IO.getStdout) {} 0 0 0 0 0
