import GrinVerif.Drv.Common
import GrinVerif.Drv.PmmrD
/-! Line-protocol driver: stdin lines `<domain> <op> <args…> => <impl result>`;
for each line prints `ok`, `FAIL n model=… impl=…`, `DIFF n model=… impl=…`, `UNK n`. -/
open GV GV.Drv

structure DState where
  pmmr : PmmrD.St := {}

def dispatch (s : DState) (dom : String) (args : List String) (impl : String) : DState × Verdict :=
  match dom with
  | "pmmr" => let (st, v) := PmmrD.handle s.pmmr args impl; ({ s with pmmr := st }, v)
  | _ => (s, .unknown)

partial def loop (h : IO.FS.Stream) (out : IO.FS.Stream) (s : DState) (n ok fail diff unk : Nat) : IO Unit := do
  let line ← h.getLine
  if line.isEmpty then
    out.putStrLn s!"# lines={n} ok={ok} fail={fail} diff={diff} unk={unk}"
    return ()
  let line := line.trimAscii.toString
  if line.isEmpty || line.startsWith "#" then
    loop h out s n ok fail diff unk
  else
    let (lhs, impl) := match line.splitOn " => " with
      | [a, b] => (a, b)
      | [a] => (a, "")
      | a :: rest => (a, " => ".intercalate rest)
      | [] => ("", "")
    match splitWs lhs with
    | dom :: args =>
      let (s', v) := dispatch s dom args impl.trimAscii.toString
      match v with
      | .ok => loop h out s' (n+1) (ok+1) fail diff unk
      | .fail m => out.putStrLn s!"FAIL {n+1} {lhs} model={m} impl={impl}"; loop h out s' (n+1) ok (fail+1) diff unk
      | .diff m => out.putStrLn s!"DIFF {n+1} {lhs} model={m} impl={impl}"; loop h out s' (n+1) ok fail (diff+1) unk
      | .unknown => out.putStrLn s!"UNK {n+1} {lhs}"; loop h out s' (n+1) ok fail diff (unk+1)
      | .note m => out.putStrLn s!"NOTE {n+1} {m}"; loop h out s' (n+1) (ok+1) fail diff unk
    | [] => loop h out s n ok fail diff unk

def main : IO Unit := do
  loop (← IO.getStdin) (← IO.getStdout) {} 0 0 0 0 0
