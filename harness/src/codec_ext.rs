//! C19, connection level (included by src/bin/codec.rs as `mod ext`): the WRITER side of a connection
//! (`ConnHandle::send` -> `peer_write` thread -> `write_message`, attachments read from a real file),
//! the handler results the reader loop of `conn::poll` distinguishes, and the handshake messages on the
//! wire (the `Hand` written by `Handshake::initiate`, the `Shake` written by `Handshake::accept`, the
//! `PeerInfo` both return, the deny / allow lists, the ring of own addresses).
//!
//! Lines (driver: lean/GrinVerif/Drv/CodecConnD.lean):
//!   codec duplex <ver> [<t>:<body hex>:<attachment hex | ->,…] => [ev;…]|[ev;…]
//!       two real `conn::listen` ends on a loopback connection; end A is handed the messages through its
//!       `ConnHandle::send` (real `Msg::new`, attachments as real files), end B records what its handler
//!       sees and answers every Ping with a Pong, which travels back through B's writer thread to A's
//!       reader thread: left = events at B, right = events at A
//!   codec dtrack <ver> [<t>:<body hex>:<attachment hex | ->,…] => sent:<bytes>:<count>;recv:<bytes>:<count>
//!       the trackers of A (sent) and B (received) after the same conversation (only printed when no gap
//!       between two deliveries came near the 2 s read timeout, which the reader counts as a message)
//!   codec hconn <ver> <frags> => [ev;…;pongs:<n>;closed:<0|1>]
//!       the reader thread with a handler whose answer to a Ping is scripted by `height % 16`
//!   codec hsw hand <genesis> <caps> <td> <self addr> <peer addr> <ua hex> <nonce> => <frame hex>
//!   codec hsw accept <genesis> <caps> <td> <ua hex> <deny spec> <peer ip hex>:<port> <ring nonce | -> <addrs before> <stream hex>
//!         => <ok caps:ua:ip:port:ver:td:in | err E>|<frame written, hex | ->|<addrs after>
//!   codec hsw initiate <genesis> <deny spec> <peer ip hex>:<port> <stream hex> => ok caps:ua:ip:port:ver:td:out | err E
use super::*;
use grin_core::ser::Writer;
use grin_p2p::msg::PeerAddrs as CfgPeerAddrs;

/// a body that is already serialised (what `Msg::new` puts behind the frame header)
pub struct RawBody(pub Vec<u8>);
impl Writeable for RawBody {
	fn write<W: Writer>(&self, writer: &mut W) -> Result<(), ser::Error> {
		writer.write_fixed_bytes(&self.0)
	}
}

#[derive(Clone)]
pub struct PlanMsg {
	pub t: Type,
	pub body: Vec<u8>,
	pub att: Option<Vec<u8>>,
	pub exp: Vec<Exp>,
	pub name: String,
}

fn canon_any(m: Message, ver: u32) -> Option<(u8, String)> {
	if let Some(x) = canon_message(&m, ver) {
		return Some(x);
	}
	Some(match m {
		Message::Header(h) => (Type::Header as u8, hex(&sv(&BlockHeader::from(h), ver))),
		Message::Block(b) => (Type::Block as u8, hex(&sv(&Block::from(b), ver))),
		Message::CompactBlock(b) => (Type::CompactBlock as u8, hex(&sv(&CompactBlock::from(b), ver))),
		Message::KernelSegment(r) => (Type::KernelSegment as u8, hex(&sv(&r, ver))),
		Message::OutputSegment(r) => (Type::OutputSegment as u8, hex(&sv(&r, ver))),
		Message::RangeProofSegment(r) => (Type::RangeProofSegment as u8, hex(&sv(&r, ver))),
		Message::OutputBitmapSegment(r) => (Type::OutputBitmapSegment as u8, hex(&sv(&r, ver))),
		_ => return None,
	})
}

#[derive(Default)]
pub struct Seen2 {
	pub events: Vec<String>,
	pub got: Vec<Exp>,
	pub n_att: u64,
	pub times: Vec<Instant>,
}

/// records EVERY kind of message; answers a Ping with a Pong (or, when `scripted`, with the result
/// selected by `height % 16`) and a TxHashSetArchive with `Consumed::Attachment`
pub struct Recorder2 {
	pub ver: u32,
	pub work: std::path::PathBuf,
	pub id: u64,
	pub scripted: bool,
	pub seen: Arc<Mutex<Seen2>>,
}

pub const SCRIPT_NAMES: [&str; 16] = [
	"None", "Response", "Internal", "NoDandelionRelay", "Store", "Chain", "BadMessage", "Send", "Timeout", "PeerException",
	"Connection:TimedOut", "Connection:WouldBlock", "Connection:Other", "Disconnect", "Banned", "Serialization",
];

fn scripted_result(code: u64, pong: Msg) -> Result<Consumed, grin_p2p::Error> {
	use grin_p2p::Error as E;
	match code {
		0 => Ok(Consumed::None),
		1 => Ok(Consumed::Response(pong)),
		2 => Err(E::Internal),
		3 => Err(E::NoDandelionRelay),
		4 => Err(E::Store(grin_store::Error::NotFoundErr("verif".to_string()))),
		5 => Err(E::Chain(grin_chain::Error::Unfit("verif".to_string()))),
		6 => Err(E::BadMessage),
		7 => Err(E::Send("verif".to_string())),
		8 => Err(E::Timeout),
		9 => Err(E::PeerException),
		10 => Err(E::Connection(std::io::Error::new(std::io::ErrorKind::TimedOut, "verif"))),
		11 => Err(E::Connection(std::io::Error::new(std::io::ErrorKind::WouldBlock, "verif"))),
		12 => Err(E::Connection(std::io::Error::new(std::io::ErrorKind::Other, "verif"))),
		13 => Ok(Consumed::Disconnect),
		14 => Err(E::Banned),
		_ => Err(E::Serialization(ser::Error::CorruptedData)),
	}
}

impl MessageHandler for Recorder2 {
	fn consume(&self, message: Message) -> Result<Consumed, grin_p2p::Error> {
		let ver = self.ver;
		let mut seen = self.seen.lock().unwrap();
		seen.times.push(Instant::now());
		match message {
			Message::Headers(d) => {
				let canon: Vec<u8> = d.headers.iter().flat_map(|h| sv(h, ver)).collect();
				seen.events.push(format!("headers:{}:{}:{}", d.headers.len(), d.remaining, hex(&canon)));
				seen.got.push(Exp::Headers(d.headers.len(), d.remaining, hex(&canon)));
				Ok(Consumed::None)
			}
			Message::Attachment(up, _) => {
				seen.events.push(format!("att:{}:{}", up.read, up.left));
				seen.got.push(Exp::Att(up.read, up.left, 0));
				if up.left == 0 {
					let data = std::fs::read(&up.meta.path).unwrap_or_default();
					seen.events.push(format!("attsum:{}:{}", data.len(), checksum(&data)));
					seen.got.push(Exp::AttSum(data.len(), checksum(&data)));
					let _ = std::fs::remove_file(&up.meta.path);
				}
				Ok(Consumed::None)
			}
			m => {
				let mut resp = Ok(Consumed::None);
				if let Message::Ping(p) = &m {
					let pong = Pong { total_difficulty: p.total_difficulty, height: p.height };
					let pm = Msg::new(Type::Pong, pong, ProtocolVersion(ver))?;
					resp = if self.scripted { scripted_result(p.height % 16, pm) } else { Ok(Consumed::Response(pm)) };
				}
				if let Message::TxHashSetArchive(a) = &m {
					seen.n_att += 1;
					let path = self.work.join(format!("ext-att-{}-{}.bin", self.id, seen.n_att));
					let file = std::fs::File::create(&path).map_err(|_| grin_p2p::Error::Internal)?;
					let meta = AttachmentMeta { size: a.bytes as usize, hash: a.hash, height: a.height, start_time: Utc::now(), path };
					resp = Ok(Consumed::Attachment(Arc::new(meta), file));
				}
				match canon_any(m, ver) {
					Some((t, c)) => {
						seen.events.push(format!("body:{}:{}", t, c));
						seen.got.push(Exp::Body(t, c));
					}
					None => seen.events.push("other".to_string()),
				}
				resp
			}
		}
	}
}

fn plain_plan<T: Writeable>(t: Type, body: &T, ver: u32, name: &str) -> PlanMsg {
	let b = sv(body, ver);
	PlanMsg { t, body: b.clone(), att: None, exp: vec![Exp::Body(t as u8, hex(&b))], name: name.to_string() }
}

fn headers_plan(hs: &[BlockHeader], ver: u32) -> PlanMsg {
	let n = hs.len();
	let mut exp = vec![];
	if n == 0 {
		exp.push(Exp::Headers(0, 0, hex(&[])));
	}
	let mut i = 0;
	while i < n {
		let j = (i + 32).min(n);
		let canon: Vec<u8> = hs[i..j].iter().flat_map(|h| sv(h, ver)).collect();
		exp.push(Exp::Headers(j - i, (n - j) as u64, hex(&canon)));
		i = j;
	}
	PlanMsg { t: Type::Headers, body: sv(&Headers { headers: hs.to_vec() }, ver), att: None, exp, name: format!("Headers({})", n) }
}

fn archive_plan(rng: &mut Rng, size: usize, ver: u32) -> PlanMsg {
	let data = rng.bytes(size);
	let body = TxHashSetArchive { hash: hash32(rng), height: rng.next(), bytes: size as u64 };
	let b = sv(&body, ver);
	let mut exp = vec![Exp::Body(Type::TxHashSetArchive as u8, hex(&b))];
	if size == 0 {
		exp.push(Exp::Att(0, 0, 0));
	}
	let mut off = 0;
	while off < size {
		let n = (size - off).min(48_000);
		exp.push(Exp::Att(n, size - off - n, 0));
		off += n;
	}
	exp.push(Exp::AttSum(size, checksum(&data)));
	PlanMsg { t: Type::TxHashSetArchive, body: b, att: Some(data), exp, name: format!("TxHashSetArchive+{}", size) }
}

/// one message of kind `k` for the duplex conversations
fn plan_message(cx: &mut Ctx, ver: u32, k: u64) -> PlanMsg {
	match k {
		0 => plain_plan(Type::Ping, &Ping { total_difficulty: Difficulty::from_num(cx.rng.next()), height: cx.rng.next() }, ver, "Ping"),
		1 => plain_plan(Type::GetPeerAddrs, &GetPeerAddrs { capabilities: Capabilities::from_bits_truncate(cx.rng.next() as u32) }, ver, "GetPeerAddrs"),
		2 => {
			let n = *cx.rng.pick(&[0usize, 1, 3, 9]);
			let peers = (0..n).map(|_| gen_addr(&mut cx.rng)).collect();
			plain_plan(Type::PeerAddrs, &PeerAddrs { peers }, ver, "PeerAddrs")
		}
		3 => {
			let n = *cx.rng.pick(&[0usize, 1, 2, 20]);
			let hashes = (0..n).map(|_| hash32(&mut cx.rng)).collect();
			plain_plan(Type::GetHeaders, &Locator { hashes }, ver, "GetHeaders")
		}
		4 => {
			let h = header_pool(cx, 1).pop().unwrap();
			plain_plan(Type::Header, &h, ver, "Header")
		}
		5 => {
			let n = *cx.rng.pick(&[0usize, 1, 2, 32, 33, 40]);
			let hs = if n == 0 { vec![] } else { header_pool(cx, n) };
			headers_plan(&hs, ver)
		}
		6 => {
			let (no, nk) = (cx.rng.below(3) as usize, 1 + cx.rng.below(2) as usize);
			let b = gen_block(cx, no, nk);
			plain_plan(Type::Block, &b, ver, "Block")
		}
		7 => {
			let b = gen_block(cx, 1, 1);
			let cb: CompactBlock = b.into();
			plain_plan(Type::CompactBlock, &cb, ver, "CompactBlock")
		}
		8 | 9 => {
			let outs: Vec<Output> = (0..1 + cx.rng.below(2)).map(|_| gen_output(&mut cx.rng)).collect();
			let kerns: Vec<TxKernel> = (0..1 + cx.rng.below(2)).map(|_| gen_kernel(&mut cx.rng)).collect();
			let ins: Vec<Input> = (0..cx.rng.below(3)).map(|_| Input::new(OutputFeatures::Plain, rand_commit(&mut cx.rng))).collect();
			let tx = Transaction::new(Inputs::from(ins.as_slice()), &outs, &kerns);
			if k == 8 {
				plain_plan(Type::Transaction, &tx, ver, "Transaction")
			} else {
				plain_plan(Type::StemTransaction, &tx, ver, "StemTransaction")
			}
		}
		10 => {
			let nl = 1 + cx.rng.below(3);
			let body = gen_kernel_segment_body(&mut cx.rng, ver, nl);
			PlanMsg { t: Type::KernelSegment, body: body.clone(), att: None, exp: vec![Exp::Body(Type::KernelSegment as u8, hex(&body))], name: "KernelSegment".into() }
		}
		11 => plain_plan(Type::TxHashSetRequest, &TxHashSetRequest { hash: hash32(&mut cx.rng), height: cx.rng.next() }, ver, "TxHashSetRequest"),
		12 => {
			let t = *cx.rng.pick(&[Type::GetOutputBitmapSegment, Type::GetOutputSegment, Type::GetRangeProofSegment, Type::GetKernelSegment]);
			let req = SegmentRequest { block_hash: hash32(&mut cx.rng), identifier: SegmentIdentifier { height: cx.rng.below(14) as u8, idx: cx.rng.below(1 << 20) } };
			plain_plan(t, &req, ver, "SegmentRequest")
		}
		13 => {
			let t = *cx.rng.pick(&[Type::GetBlock, Type::GetCompactBlock, Type::GetTransaction, Type::TransactionKernel]);
			plain_plan(t, &hash32(&mut cx.rng), ver, "hash request")
		}
		14 => plain_plan(Type::BanReason, &BanReason { ban_reason: ReasonForBan::BadBlock }, ver, "BanReason"),
		_ => plain_plan(Type::Pong, &Pong { total_difficulty: Difficulty::from_num(cx.rng.next()), height: cx.rng.next() }, ver, "Pong"),
	}
}

pub struct DuplexRes {
	pub b_events: Vec<String>,
	pub b_got: Vec<Exp>,
	pub a_events: Vec<String>,
	pub a_got: Vec<Exp>,
	pub sent: (u64, u64),
	pub recv: (u64, u64),
	pub max_gap_ms: u128,
	pub wall_ms: u128,
	pub send_errors: usize,
}

/// end A sends `plan` through its real writer thread, end B records and answers Pings
pub fn run_duplex(ver: u32, plan: &[PlanMsg], work: &std::path::Path, id: u64) -> DuplexRes {
	let t0 = Instant::now();
	let listener = TcpListener::bind("127.0.0.1:0").unwrap();
	let a_sock = TcpStream::connect(listener.local_addr().unwrap()).unwrap();
	a_sock.set_nodelay(true).unwrap();
	let (b_sock, _) = listener.accept().unwrap();
	b_sock.set_nodelay(true).unwrap();
	let seen_a = Arc::new(Mutex::new(Seen2::default()));
	let seen_b = Arc::new(Mutex::new(Seen2::default()));
	let tr_a = Arc::new(Tracker::new());
	let tr_b = Arc::new(Tracker::new());
	let (_hb, stop_b) = listen(b_sock, ProtocolVersion(ver), tr_b.clone(), Recorder2 { ver, work: work.to_path_buf(), id: id * 2, scripted: false, seen: seen_b.clone() }).unwrap();
	let (ha, stop_a) = listen(a_sock, ProtocolVersion(ver), tr_a.clone(), Recorder2 { ver, work: work.to_path_buf(), id: id * 2 + 1, scripted: false, seen: seen_a.clone() }).unwrap();
	let start = Instant::now();
	let mut send_errors = 0;
	let mut want_b = 0;
	let mut want_a = 0;
	for (i, p) in plan.iter().enumerate() {
		let mut m = Msg::new(p.t, RawBody(p.body.clone()), ProtocolVersion(ver)).unwrap();
		if let Some(a) = &p.att {
			let path = work.join(format!("ext-src-{}-{}.bin", id, i));
			std::fs::write(&path, a).unwrap();
			m.add_attachment(std::fs::File::open(&path).unwrap());
			let _ = std::fs::remove_file(&path);
		}
		if ha.send(m).is_err() {
			send_errors += 1;
		}
		want_b += p.exp.len();
		if p.t == Type::Ping {
			want_a += 1;
		}
	}
	// wait (logically: until everything due has been seen or nothing can arrive any more)
	let deadline = Instant::now() + Duration::from_secs(120);
	loop {
		let nb = seen_b.lock().unwrap().got.len();
		let na = seen_a.lock().unwrap().got.len();
		if (nb >= want_b && na >= want_a) || Instant::now() > deadline {
			break;
		}
		std::thread::sleep(Duration::from_millis(20));
	}
	// nothing more is due: give a stray extra message the time to show up
	std::thread::sleep(Duration::from_millis(250));
	let sent = { let s = tr_a.sent_bytes.read(); (s.bytes_per_min(), s.count_per_min()) };
	let recv = { let s = tr_b.received_bytes.read(); (s.bytes_per_min(), s.count_per_min()) };
	stop_a.stop();
	stop_b.stop();
	let sa = seen_a.lock().unwrap();
	let sb = seen_b.lock().unwrap();
	let mut max_gap = 0u128;
	let mut last = start;
	for t in sb.times.iter() {
		max_gap = max_gap.max(t.duration_since(last).as_millis());
		last = *t;
	}
	max_gap = max_gap.max(last.elapsed().as_millis().saturating_sub(0));
	DuplexRes {
		b_events: sb.events.clone(),
		b_got: sb.got.clone(),
		a_events: sa.events.clone(),
		a_got: sa.got.clone(),
		sent,
		recv,
		max_gap_ms: max_gap,
		wall_ms: t0.elapsed().as_millis(),
		send_errors,
	}
}

fn plan_text(plan: &[PlanMsg]) -> String {
	let v: Vec<String> = plan
		.iter()
		.map(|p| format!("{}:{}:{}", p.t as u8, hex(&p.body), p.att.as_ref().map(|a| if a.is_empty() { "e".to_string() } else { hex(a) }).unwrap_or_else(|| "-".to_string())))
		.collect();
	format!("[{}]", v.join(","))
}

pub fn duplex(cx: &mut Ctx, work: &std::path::Path) {
	let nconv = if cx.thorough { 32 } else { 8 };
	// attachment sizes around the 8000-byte scratch buffer of write_message and the 48000-byte chunk of the codec
	let att_sizes: Vec<usize> = vec![0, 1, 7_999, 8_000, 8_001, 16_000, 47_999, 48_000, 48_001, 56_000, 96_000, 100_001];
	let mut plans: Vec<(u32, Vec<PlanMsg>)> = vec![];
	for ci in 0..nconv {
		let ver = VERSIONS[ci % 4];
		let n = if cx.thorough { 8 + cx.rng.below(8) as usize } else { 6 + cx.rng.below(4) as usize };
		let mut plan = vec![];
		for mi in 0..n {
			// every kind appears: message `mi` of conversation `ci` starts from kind (ci * 5 + mi) % 16
			let k = if mi < 5 { ((ci * 5 + mi) % 16) as u64 } else { cx.rng.below(16) };
			plan.push(plan_message(cx, ver, k));
			if mi == 2 {
				let size = att_sizes[(ci * 3 + cx.rng.below(3) as usize) % att_sizes.len()];
				plan.push(archive_plan(&mut cx.rng, size, ver));
			}
		}
		// a long header list FIRST: its first batch is reported quietly and is the oldest entry of the
		// receiver's RateCounter (which drops quiet entries at the front)
		if ci % 4 == 3 {
			let hs = header_pool(cx, 33 + (ci % 8));
			plan.insert(0, headers_plan(&hs, ver));
		}
		// a Ping right behind an attachment and one at the very end: both must be answered
		plan.insert(4.min(plan.len()), plan_message(cx, ver, 0));
		plan.push(plan_message(cx, ver, 0));
		plans.push((ver, plan));
	}
	let t_all = Instant::now();
	let chan = std::thread::spawn(|| {
		global::set_local_chain_type(ChainTypes::AutomatedTesting);
		run_channel(1000)
	});
	let handles: Vec<_> = plans
		.iter()
		.enumerate()
		.map(|(i, (ver, plan))| {
			let (ver, plan, work) = (*ver, plan.clone(), work.to_path_buf());
			std::thread::spawn(move || {
				global::set_local_chain_type(ChainTypes::AutomatedTesting);
				run_duplex(ver, &plan, &work, i as u64)
			})
		})
		.collect();
	let results: Vec<Option<DuplexRes>> = handles.into_iter().map(|h| h.join().ok()).collect();
	let chan_res = chan.join().ok().flatten();
	emit_channel(cx, chan_res);
	for (i, (ver, plan)) in plans.iter().enumerate() {
		let r = match &results[i] {
			Some(r) => r,
			None => {
				cx.fails += 1;
				cx.out.raw(&format!("#ORACLE-FAIL C19 duplex conversation panicked: {:?}", plan.iter().map(|p| p.name.clone()).collect::<Vec<_>>()));
				continue;
			}
		};
		for p in plan {
			cx.stat(&format!("duplex: sent {}", p.name.split('(').next().unwrap().split('+').next().unwrap()));
			if let Some(a) = &p.att {
				cx.stat(&format!("duplex: attachment of {} bytes", a.len()));
			}
		}
		let want_b: Vec<Exp> = plan.iter().flat_map(|p| p.exp.clone()).collect();
		let want_a: Vec<Exp> = plan.iter().filter(|p| p.t == Type::Ping).map(|p| Exp::Body(Type::Pong as u8, hex(&p.body))).collect();
		if r.b_got != want_b || r.a_got != want_a || r.send_errors != 0 {
			cx.fails += 1;
			let short = |v: &Vec<Exp>| v.iter().map(|e| format!("{:?}", e).chars().take(40).collect::<String>()).collect::<Vec<_>>();
			cx.out.raw(&format!(
				"#ORACLE-FAIL C19 a sequence of messages written by one peer (ConnHandle::send -> writer thread -> write_message) was not read by the other as the identical sequence, or a Ping was not answered with its Pong: version {}, messages {:?}: the receiver's handler saw {:?}, expected {:?}; the sender got back {:?}, expected {:?}; send errors {}",
				ver, plan.iter().map(|p| p.name.clone()).collect::<Vec<_>>(), short(&r.b_got), short(&want_b), short(&r.a_got), short(&want_a), r.send_errors
			));
		}
		cx.out.line(&format!("codec duplex {} {}", ver, plan_text(plan)), &format!("[{}]|[{}]", r.b_events.join(";"), r.a_events.join(";")));
		// the trackers: only when no delivery gap came near the read timeout (a timed-out read counts as a message)
		if r.max_gap_ms < 1500 && r.wall_ms < 45_000 {
			cx.stat("duplex: tracker counters compared");
			cx.out.line(&format!("codec dtrack {} {}", ver, plan_text(plan)), &format!("sent:{}:{};recv:{}:{}", r.sent.0, r.sent.1, r.recv.0, r.recv.1));
		} else {
			cx.stat("duplex: tracker counters NOT compared (machine too slow: a delivery gap came near the 2 s read timeout)");
		}
		cx.out.raw(&format!("#STAT duplex conversation {}: {} messages, {} ms, largest delivery gap {} ms", i, plan.len(), r.wall_ms, r.max_gap_ms));
	}
	cx.out.raw(&format!("#STAT duplex: {} conversations in {} ms wall clock", plans.len(), t_all.elapsed().as_millis()));
}

// ---------------------------------------------------------------------------------------------------
// handler results at connection level

pub fn handler_results(cx: &mut Ctx, work: &std::path::Path) {
	let vers: Vec<u32> = if cx.thorough { VERSIONS.to_vec() } else { vec![1000, 2] };
	struct Case {
		ver: u32,
		code: u64,
		frags: Vec<Vec<u8>>,
		want_events: usize,
		want_pongs: usize,
		want_closed: bool,
	}
	let tolerated = |c: u64| matches!(c, 0 | 1 | 2 | 3 | 4 | 5 | 10 | 11);
	let mut cases = vec![];
	for &ver in &vers {
		for code in 0..16u64 {
			let h = |c: u64, k: u64| 16 * (1000 + k) + c;
			let mut stream = vec![];
			stream.extend_from_slice(&ping_frame(ver, h(1, 1)));
			stream.extend_from_slice(&ping_frame(ver, h(code, 2)));
			stream.extend_from_slice(&getpeers_frame(ver, 15));
			stream.extend_from_slice(&ping_frame(ver, h(1, 3)));
			let cut = 27 + 1 + cx.rng.below(40) as usize;
			let frags = if code % 2 == 0 { vec![stream[..27].to_vec(), stream[27..].to_vec()] } else { vec![stream[..27].to_vec(), stream[27..cut].to_vec(), stream[cut..].to_vec()] };
			let (ev, pongs) = if tolerated(code) { (4, 2 + if code == 1 { 1 } else { 0 }) } else { (2, 1) };
			cases.push(Case { ver, code, frags, want_events: ev, want_pongs: pongs, want_closed: !tolerated(code) });
		}
	}
	let handles: Vec<_> = cases
		.iter()
		.enumerate()
		.map(|(i, c)| {
			let (ver, frags, want_pongs, work) = (c.ver, c.frags.clone(), c.want_pongs, work.to_path_buf());
			std::thread::spawn(move || {
				global::set_local_chain_type(ChainTypes::AutomatedTesting);
				let listener = TcpListener::bind("127.0.0.1:0").unwrap();
				let mut client = TcpStream::connect(listener.local_addr().unwrap()).unwrap();
				client.set_nodelay(true).unwrap();
				let (server, _) = listener.accept().unwrap();
				let seen = Arc::new(Mutex::new(Seen2::default()));
				let handler = Recorder2 { ver, work, id: 10_000 + i as u64, scripted: true, seen: seen.clone() };
				let (_h, stop) = listen(server, ProtocolVersion(ver), Arc::new(Tracker::new()), handler).unwrap();
				// the first Ping on its own, and its Pong awaited (a logical barrier, not a pause: the reader
				// thread shuts the socket down when it leaves the loop, which must not race with the writer
				// thread still holding the first Pong)
				let _ = client.write_all(&frags[0]);
				let first = read_frame(&mut client).map(|f| f[2] == Type::Pong as u8).unwrap_or(false);
				let sched: Vec<(u64, Vec<u8>)> = frags[1..].iter().map(|f| (2u64, f.clone())).collect();
				let (pongs, closed) = drive_client(&mut client, &sched, want_pongs - 1);
				let pongs = pongs + if first { 1 } else { 0 };
				stop.stop();
				let _ = client.shutdown(Shutdown::Both);
				let ev = seen.lock().unwrap().events.clone();
				(ev, pongs, closed)
			})
		})
		.collect();
	let results: Vec<_> = handles.into_iter().map(|h| h.join().ok()).collect();
	for (i, c) in cases.iter().enumerate() {
		let (ev, pongs, closed) = match &results[i] {
			Some(r) => r.clone(),
			None => {
				cx.fails += 1;
				cx.out.raw(&format!("#ORACLE-FAIL C19 handler-result delivery panicked (code {})", c.code));
				continue;
			}
		};
		cx.stat(&format!("hconn: handler answers {}", SCRIPT_NAMES[c.code as usize]));
		if ev.len() != c.want_events || pongs != c.want_pongs || closed != c.want_closed {
			cx.fails += 1;
			cx.out.raw(&format!(
				"#ORACLE-FAIL C19 reader loop and handler result `{}` (version {}): Ping, Ping answered with that result, GetPeerAddrs, Ping: the handler saw {} messages (expected {}), {} Pongs came back (expected {}), connection closed by the reader: {} (expected {})",
				SCRIPT_NAMES[c.code as usize], c.ver, ev.len(), c.want_events, pongs, c.want_pongs, closed, c.want_closed
			));
		}
		let mut evs = ev.clone();
		evs.push(format!("pongs:{}", pongs));
		evs.push(format!("closed:{}", if closed { 1 } else { 0 }));
		cx.out.line(&format!("codec hconn {} {}", c.ver, hex_list(&c.frags)), &format!("[{}]", evs.join(";")));
	}
}

// ---------------------------------------------------------------------------------------------------
// the handshake on the wire

fn ip_hex(ip: std::net::IpAddr) -> String {
	match ip {
		std::net::IpAddr::V4(a) => hex(&a.octets()),
		std::net::IpAddr::V6(a) => hex(&a.octets()),
	}
}

fn addrs_text(hs: &Handshake) -> String {
	let v: Vec<String> = hs.addrs.read().iter().map(|a| format!("{}:{}", ip_hex(a.0.ip()), a.0.port())).collect();
	format!("[{}]", v.join(","))
}

fn info_text(i: &PeerInfo, inbound: bool) -> String {
	format!(
		"ok {}:{}:{}:{}:{}:{}:{}",
		i.capabilities.bits(),
		if i.user_agent.is_empty() { "-".to_string() } else { hex(i.user_agent.as_bytes()) },
		ip_hex(i.addr.0.ip()),
		i.addr.0.port(),
		i.version.value(),
		i.total_difficulty().to_num(),
		if inbound { "in" } else { "out" }
	)
}

/// read one frame (header + announced body) off a socket
fn read_frame(s: &mut TcpStream) -> Option<Vec<u8>> {
	let _ = s.set_read_timeout(Some(Duration::from_secs(20)));
	let mut head = [0u8; 11];
	s.read_exact(&mut head).ok()?;
	let mut l = [0u8; 8];
	l.copy_from_slice(&head[3..11]);
	let mut body = vec![0u8; (u64::from_be_bytes(l) as usize).min(1 << 20)];
	s.read_exact(&mut body).ok()?;
	let mut v = head.to_vec();
	v.extend_from_slice(&body);
	Some(v)
}

/// one outbound attempt of `hs` to a listener that reads the Hand and hangs up: the frame it wrote
fn outbound_hand(hs: &Handshake, caps: Capabilities, td: u64, self_addr: PeerAddr) -> Option<(Vec<u8>, PeerAddr)> {
	let listener = TcpListener::bind("127.0.0.1:0").ok()?;
	let peer_addr = PeerAddr(listener.local_addr().ok()?);
	let t = std::thread::spawn(move || {
		let (mut s, _) = listener.accept().ok()?;
		let f = read_frame(&mut s);
		let _ = s.shutdown(Shutdown::Both);
		f
	});
	let mut c = TcpStream::connect(peer_addr.0).ok()?;
	let _ = hs.initiate(caps, Difficulty::from_num(td), self_addr, &mut c);
	let _ = c.shutdown(Shutdown::Both);
	t.join().ok()?.map(|f| (f, peer_addr))
}

fn deny_cfg(spec: &str) -> P2PConfig {
	let mut cfg = P2PConfig::default();
	let mk = |s: &str| -> CfgPeerAddrs {
		CfgPeerAddrs { peers: s.split('+').map(|a| PeerAddr(a.parse().unwrap())).collect() }
	};
	if let Some(rest) = spec.strip_prefix("d=") {
		cfg.peers_deny = Some(mk(rest));
	} else if let Some(rest) = spec.strip_prefix("a=") {
		cfg.peers_allow = Some(mk(rest));
	} else if let Some(rest) = spec.strip_prefix("da=") {
		let (d, a) = rest.split_once('/').unwrap();
		cfg.peers_deny = Some(mk(d));
		cfg.peers_allow = Some(mk(a));
	}
	cfg
}

/// deny spec as the driver reads it: `-` | `d=<iphex>:<port>+…` | `a=…` | `da=…/…`
fn deny_text(spec: &str) -> String {
	let conv = |s: &str| -> String {
		s.split('+')
			.map(|a| {
				let sa: std::net::SocketAddr = a.parse().unwrap();
				format!("{}:{}", ip_hex(sa.ip()), sa.port())
			})
			.collect::<Vec<_>>()
			.join("+")
	};
	if let Some(rest) = spec.strip_prefix("d=") {
		format!("d={}", conv(rest))
	} else if let Some(rest) = spec.strip_prefix("a=") {
		format!("a={}", conv(rest))
	} else if let Some(rest) = spec.strip_prefix("da=") {
		let (d, a) = rest.split_once('/').unwrap();
		format!("da={}/{}", conv(d), conv(a))
	} else {
		"-".to_string()
	}
}

pub fn handshake_wire(cx: &mut Ctx) {
	let ua = grin_p2p::msg::user_agent();
	let ua_hex = hex(ua.as_bytes());
	// (1) the Hand that the real `initiate` writes
	let n_hand = if cx.thorough { 24 } else { 8 };
	for i in 0..n_hand {
		let g = hash32(&mut cx.rng);
		let caps = Capabilities::from_bits_truncate(cx.rng.next() as u32);
		let td = cx.rng.below(1 << 50);
		let self_addr = if i % 3 == 2 { gen_addr(&mut cx.rng) } else { PeerAddr(format!("127.0.0.{}:{}", 1 + i, 13000 + i).parse().unwrap()) };
		let hs = Handshake::new(g, P2PConfig::default());
		match outbound_hand(&hs, caps, td, self_addr) {
			Some((frame, peer_addr)) => {
				let nonce = if frame.len() >= 27 {
					let mut b = [0u8; 8];
					b.copy_from_slice(&frame[19..27]);
					u64::from_be_bytes(b)
				} else {
					0
				};
				cx.stat("hsw: Hand frames written by the real initiate");
				cx.out.line(
					&format!("codec hsw hand {} {} {} {} {} {} {}", hex(g.as_bytes()), caps.bits(), td, hex(&sv(&self_addr, 1)), hex(&sv(&peer_addr, 1)), ua_hex, nonce),
					&hex(&frame),
				);
			}
			None => {
				cx.fails += 1;
				cx.out.raw("#ORACLE-FAIL C19 the real Handshake::initiate wrote no complete Hand frame");
			}
		}
	}
	// (2) the real `accept`: result, Shake on the wire, ring of own addresses; deny / allow lists; order of the checks
	struct Acc {
		deny: String,
		same_genesis: bool,
		own_nonce: bool,
		hand_ver: u32,
		adv_port: u16,
		reps: usize,
	}
	let mut accs = vec![];
	for &v in &[0u32, 1, 2, 3, 999, 1000, 1001, u32::MAX] {
		accs.push(Acc { deny: "-".into(), same_genesis: true, own_nonce: false, hand_ver: v, adv_port: 4000 + (v % 1000) as u16, reps: 1 });
	}
	// the resolved address is 127.0.0.1:<advertised port>
	accs.push(Acc { deny: "d=127.0.0.1:4100".into(), same_genesis: true, own_nonce: false, hand_ver: 1000, adv_port: 4100, reps: 1 });
	accs.push(Acc { deny: "d=127.0.0.1:4101".into(), same_genesis: true, own_nonce: false, hand_ver: 1000, adv_port: 4100, reps: 1 });
	accs.push(Acc { deny: "d=127.0.0.2:4100+10.0.0.1:1".into(), same_genesis: true, own_nonce: false, hand_ver: 1000, adv_port: 4100, reps: 1 });
	accs.push(Acc { deny: "a=127.0.0.1:4100".into(), same_genesis: true, own_nonce: false, hand_ver: 2, adv_port: 4100, reps: 1 });
	accs.push(Acc { deny: "a=127.0.0.1:4101+127.0.0.3:4100".into(), same_genesis: true, own_nonce: false, hand_ver: 2, adv_port: 4100, reps: 1 });
	accs.push(Acc { deny: "da=127.0.0.1:4100/127.0.0.1:4100".into(), same_genesis: true, own_nonce: false, hand_ver: 3, adv_port: 4100, reps: 1 });
	accs.push(Acc { deny: "da=127.0.0.1:4200/127.0.0.1:4100".into(), same_genesis: true, own_nonce: false, hand_ver: 3, adv_port: 4100, reps: 1 });
	// order of the checks: genesis before own nonce before the deny list
	accs.push(Acc { deny: "d=127.0.0.1:4100".into(), same_genesis: false, own_nonce: true, hand_ver: 1000, adv_port: 4100, reps: 1 });
	accs.push(Acc { deny: "d=127.0.0.1:4100".into(), same_genesis: true, own_nonce: true, hand_ver: 1000, adv_port: 4100, reps: 1 });
	accs.push(Acc { deny: "d=127.0.0.1:4100".into(), same_genesis: false, own_nonce: false, hand_ver: 1000, adv_port: 4100, reps: 1 });
	accs.push(Acc { deny: "-".into(), same_genesis: false, own_nonce: true, hand_ver: 1000, adv_port: 4100, reps: 1 });
	// the ring of own addresses: 12 self connections in a row announcing different ports (ADDRS_CAP = 10)
	accs.push(Acc { deny: "-".into(), same_genesis: true, own_nonce: true, hand_ver: 1000, adv_port: 5000, reps: 12 });
	for a in &accs {
		let g = hash32(&mut cx.rng);
		let caps = Capabilities::from_bits_truncate(cx.rng.next() as u32);
		let td = cx.rng.below(1 << 50);
		let hs = Handshake::new(g, deny_cfg(&a.deny));
		// one outbound attempt puts a nonce of its own into the ring
		let ring_nonce = outbound_hand(&hs, caps, td, PeerAddr("127.0.0.1:3414".parse().unwrap())).and_then(|(f, _)| {
			if f.len() >= 27 {
				let mut b = [0u8; 8];
				b.copy_from_slice(&f[19..27]);
				Some(u64::from_be_bytes(b))
			} else {
				None
			}
		});
		let ring_nonce = match ring_nonce {
			Some(n) => n,
			None => {
				cx.fails += 1;
				cx.out.raw("#ORACLE-FAIL C19 the real Handshake::initiate wrote no complete Hand frame (ring set-up)");
				continue;
			}
		};
		for rep in 0..a.reps {
			let adv: PeerAddr = PeerAddr(format!("10.9.8.7:{}", a.adv_port as usize + rep).parse().unwrap());
			let hand = Hand {
				version: ProtocolVersion(a.hand_ver),
				capabilities: Capabilities::from_bits_truncate(cx.rng.next() as u32),
				nonce: if a.own_nonce { ring_nonce } else { ring_nonce.wrapping_add(1 + cx.rng.below(1000)) },
				genesis: if a.same_genesis { g } else { hash32(&mut cx.rng) },
				total_difficulty: Difficulty::from_num(cx.rng.below(1 << 50)),
				sender_addr: adv,
				receiver_addr: gen_addr(&mut cx.rng),
				user_agent: ["", "peer/1.0", "x\u{e9}\u{4e16}"][cx.rng.below(3) as usize].to_string(),
			};
			let stream = wire(&Msg::new(Type::Hand, hand, ProtocolVersion(1)).unwrap());
			let before = addrs_text(&hs);
			let (mut cl, mut sv_sock) = hs_pair();
			let peer_of_server = sv_sock.peer_addr().unwrap();
			let st2 = stream.clone();
			let t = std::thread::spawn(move || {
				let _ = cl.write_all(&st2);
				let f = read_frame_or_eof(&mut cl);
				let _ = cl.shutdown(Shutdown::Both);
				f
			});
			let r = hs.accept(caps, Difficulty::from_num(td), &mut sv_sock);
			let _ = sv_sock.shutdown(Shutdown::Both);
			let wrote = t.join().ok().flatten();
			let res = match &r {
				Ok(i) => info_text(i, matches!(i.direction, grin_p2p::types::Direction::Inbound)),
				Err(e) => format!("err {}", err_name(e)),
			};
			// oracle on the implementation: a refused connection is told nothing; the lower version wins
			let refused = r.is_err();
			if refused != wrote.is_none() || (a.own_nonce && a.same_genesis && !matches!(r, Err(grin_p2p::Error::PeerWithSelf))) || (!a.same_genesis && !matches!(r, Err(grin_p2p::Error::GenesisMismatch { .. }))) {
				cx.fails += 1;
				cx.out.raw(&format!(
					"#ORACLE-FAIL C19 Handshake::accept (deny spec {}, same genesis {}, own nonce {}, Hand version {}): result {}, frame written to the peer: {}",
					a.deny, a.same_genesis, a.own_nonce, a.hand_ver, res, wrote.as_ref().map(|f| hex(f)).unwrap_or_else(|| "-".to_string())
				));
			}
			if let Ok(i) = &r {
				if i.version.value() != a.hand_ver.min(1000) {
					cx.fails += 1;
					cx.out.raw(&format!("#ORACLE-FAIL C19 Handshake::accept settles on version {} for a Hand announcing {} (local 1000)", i.version.value(), a.hand_ver));
				}
			}
			cx.stat(&format!("hsw: accept -> {}", if let Err(e) = &r { err_name(e) } else { "ok".to_string() }));
			cx.out.line(
				&format!(
					"codec hsw accept {} {} {} {} {} {}:{} {} {} {}",
					hex(g.as_bytes()), caps.bits(), td, ua_hex, deny_text(&a.deny), ip_hex(peer_of_server.ip()), peer_of_server.port(),
					ring_nonce, before, hex(&stream)
				),
				&format!("{}|{}|{}", res, wrote.as_ref().map(|f| hex(f)).unwrap_or_else(|| "-".to_string()), addrs_text(&hs)),
			);
		}
	}
	// (3) the real `initiate` reading a Shake: PeerInfo, deny list on the dialled address
	let n_init = if cx.thorough { 24 } else { 10 };
	for i in 0..n_init {
		let g = hash32(&mut cx.rng);
		let listener = TcpListener::bind("127.0.0.1:0").unwrap();
		let la = listener.local_addr().unwrap();
		let deny = match i % 5 {
			0 => format!("d={}", la),
			1 => format!("a={}", la),
			2 => format!("a=127.0.0.1:{}", la.port().wrapping_add(1).max(1)),
			_ => "-".to_string(),
		};
		let shake_ver = *cx.rng.pick(&[0u32, 1, 2, 3, 999, 1000, 1001, u32::MAX]);
		let shake = Shake {
			version: ProtocolVersion(shake_ver),
			capabilities: Capabilities::from_bits_truncate(cx.rng.next() as u32),
			genesis: if i % 7 == 6 { hash32(&mut cx.rng) } else { g },
			total_difficulty: Difficulty::from_num(cx.rng.below(1 << 50)),
			user_agent: ["", "peer/2.0", "\u{e9}"][cx.rng.below(3) as usize].to_string(),
		};
		let stream = wire(&Msg::new(Type::Shake, shake, ProtocolVersion(1)).unwrap());
		let st2 = stream.clone();
		let t = std::thread::spawn(move || {
			if let Ok((mut s, _)) = listener.accept() {
				let _ = read_frame(&mut s);
				let _ = s.write_all(&st2);
				let _ = s.shutdown(Shutdown::Write);
				let mut sink = vec![];
				let _ = s.read_to_end(&mut sink);
			}
		});
		let hs = Handshake::new(g, deny_cfg(&deny));
		let mut c = TcpStream::connect(la).unwrap();
		let r = hs.initiate(Capabilities::default(), Difficulty::from_num(1), PeerAddr("127.0.0.1:3414".parse().unwrap()), &mut c);
		let _ = c.shutdown(Shutdown::Both);
		let _ = t.join();
		let res = match &r {
			Ok(i) => info_text(i, matches!(i.direction, grin_p2p::types::Direction::Inbound)),
			Err(e) => format!("err {}", err_name(e)),
		};
		if let Ok(i) = &r {
			if i.version.value() != shake_ver.min(1000) {
				cx.fails += 1;
				cx.out.raw(&format!("#ORACLE-FAIL C19 Handshake::initiate settles on version {} for a Shake announcing {} (local 1000)", i.version.value(), shake_ver));
			}
		}
		cx.stat(&format!("hsw: initiate -> {}", if let Err(e) = &r { err_name(e) } else { "ok".to_string() }));
		cx.out.line(&format!("codec hsw initiate {} {} {}:{} {}", hex(g.as_bytes()), deny_text(&deny), ip_hex(la.ip()), la.port(), hex(&stream)), &res);
	}
}

/// the frame the acceptor answers with, or `None` when it hangs up without a word
fn read_frame_or_eof(s: &mut TcpStream) -> Option<Vec<u8>> {
	read_frame(s)
}

// ---------------------------------------------------------------------------------------------------
// Headers frames too short to hold the item count (msg_len 0 / 1), and with msg_len 2 / 3 and no items

pub fn headers_short(cx: &mut Ctx) {
	for &ver in &[1u32, 1000] {
		let ping = ping_frame(ver, 77);
		for (len, body) in [(0u64, vec![]), (1, vec![0u8]), (1, vec![1u8]), (3, vec![0u8, 0, 0]), (3, vec![0u8, 1, 9])] {
			let mut w = raw_frame([73, 43], Type::Headers as u8, len, &body);
			w.extend_from_slice(&ping);
			for frags in [vec![w.clone()], split_at_points(&w, &[11]), split_at_points(&w, &[11 + body.len().min(1)])] {
				let r = run_codec(ver, &frags, &[]);
				cx.stat("Headers frames shorter than their item count field / with stray bytes");
				// oracle: never delivered as a batch, never a panic, nothing behind the frame header is executed
				if r.end == "panic" || !r.got.is_empty() {
					cx.fails += 1;
					cx.out.raw(&format!("#ORACLE-FAIL C19 Headers frame with msg_len {} (no room for / disagreeing with the item count): delivered {:?}, end {} ({})", len, r.events, r.end, hex(&w)));
				}
				emit_run(cx, ver, &frags, &r, false);
			}
		}
	}
}

// ---------------------------------------------------------------------------------------------------
// the length limit of every type byte: limit - 1 / limit / limit + 1, header only, versions 1..3

pub fn limits_sweep(cx: &mut Ctx) {
	// the property's table (p2p/src/msg.rs `max_msg_size`, times the 4x allowance; unknown types: the default)
	let mbs: u64 = global::max_block_weight() / 21 * 708;
	let mut limits: Vec<(u8, u64)> = vec![
		(0, 0), (1, 128), (2, 88), (3, 16), (4, 16), (5, 4), (6, 4 + 19 * 256), (7, 1 + 32 * 20), (8, 365), (9, 2 + 365 * 512),
		(10, 32), (11, mbs), (12, 32), (13, mbs / 10), (14, mbs), (15, mbs), (16, 40), (17, 64), (18, 64), (19, 32), (20, 32),
		(21, 41), (22, 2 * mbs), (23, 41), (24, 2 * mbs), (25, 41), (26, 2 * mbs), (27, 41), (28, 2 * mbs),
	];
	for t in [29u8, 30, 77, 128, 200, 254, 255] {
		limits.push((t, mbs));
	}
	for ver in [1u32, 2, 3] {
		for &(t, lim) in &limits {
			let l4 = 4 * lim;
			for len in [l4.wrapping_sub(1), l4, l4 + 1] {
				if len == u64::MAX {
					continue;
				}
				let mut w = vec![73u8, 43, t];
				w.extend_from_slice(&len.to_be_bytes());
				// header only: whether it was accepted shows in how the read ends (nothing of a body follows)
				let r = run_codec(ver, &[w.clone()], &[0]);
				let over = len > l4;
				cx.stat(if over { "limit sweep: limit + 1" } else if len == l4 { "limit sweep: at the limit" } else { "limit sweep: limit - 1" });
				let ok = if over {
					r.end == "Ser:TooLargeReadErr" && r.end_bytes == 11 && r.end_maxreq <= 65536 && r.events.is_empty()
				} else {
					r.end != "Ser:TooLargeReadErr" && r.end != "panic" && r.end_bytes == 11 + if t == 9 { 0 } else { 0 }
				};
				if !ok {
					cx.fails += 1;
					cx.out.raw(&format!(
						"#ORACLE-FAIL C19 length limit of type byte {} (4 x {} = {}) at protocol version {}: a frame header announcing {} bytes ended with {} after {} bytes read, largest allocation request {} (events {:?})",
						t, lim, l4, ver, len, r.end, r.end_bytes, r.end_maxreq, r.events
					));
				}
				emit_run(cx, ver, &[w], &r, over);
			}
		}
	}
}

// ---------------------------------------------------------------------------------------------------
// the send channel at exactly SEND_CHANNEL_CAP queued messages

pub struct ChanRes {
	pub accepted: usize,
	pub extra_ok: bool,
	pub received: Vec<u64>,
	pub extra_seen: bool,
}

/// the writer thread is parked on the tracker lock (a logical barrier: `write_message` starts with
/// `tracker.sent_bytes.read()`), the channel is filled through `send_channel.try_send` until it reports
/// Full, then ONE more message goes through `ConnHandle::send`; afterwards everything is drained
pub fn run_channel(ver: u32) -> Option<ChanRes> {
	let cap = grin_p2p::SEND_CHANNEL_CAP;
	let listener = TcpListener::bind("127.0.0.1:0").ok()?;
	let a_sock = TcpStream::connect(listener.local_addr().ok()?).ok()?;
	let (mut b_sock, _) = listener.accept().ok()?;
	let tr = Arc::new(Tracker::new());
	let seen = Arc::new(Mutex::new(Seen2::default()));
	let (ha, stop) = listen(a_sock, ProtocolVersion(ver), tr.clone(), Recorder2 { ver, work: std::path::PathBuf::new(), id: 0, scripted: false, seen }).ok()?;
	let mk = |h: u64| Msg::new(Type::Ping, Ping { total_difficulty: Difficulty::from_num(7), height: h }, ProtocolVersion(ver)).unwrap();
	let mut accepted = 0usize;
	{
		let _guard = tr.sent_bytes.write();
		let deadline = Instant::now() + Duration::from_secs(60);
		let mut next = mk(0);
		loop {
			match ha.send_channel.try_send(next) {
				Ok(()) => {
					accepted += 1;
					if accepted > cap + 6 {
						break;
					}
					next = mk(accepted as u64);
				}
				Err(std::sync::mpsc::TrySendError::Full(m)) => {
					// the channel holds `cap` messages; one more is in the hands of the parked writer thread once
					// it has taken it out - from then on nothing can move (no timing involved)
					if accepted >= cap + 1 || Instant::now() > deadline {
						break;
					}
					next = m;
					std::thread::sleep(Duration::from_millis(2));
				}
				Err(_) => return None,
			}
		}
		// the channel is full now: ConnHandle::send reports success and drops the message
		let extra_ok = ha.send(mk(999_999)).is_ok();
		drop(_guard);
		// drain
		let mut received = vec![];
		let mut extra_seen = false;
		let _ = b_sock.set_read_timeout(Some(Duration::from_secs(30)));
		loop {
			if received.len() >= accepted {
				let _ = b_sock.set_read_timeout(Some(Duration::from_millis(700)));
			}
			let mut f = [0u8; 27];
			if b_sock.read_exact(&mut f).is_err() {
				break;
			}
			let mut hb = [0u8; 8];
			hb.copy_from_slice(&f[19..27]);
			let h = u64::from_be_bytes(hb);
			if h == 999_999 {
				extra_seen = true;
			}
			received.push(h);
			if received.len() > accepted + 3 {
				break;
			}
		}
		stop.stop();
		return Some(ChanRes { accepted, extra_ok, received, extra_seen });
	}
}

pub fn emit_channel(cx: &mut Ctx, r: Option<ChanRes>) {
	let cap = grin_p2p::SEND_CHANNEL_CAP;
	match r {
		None => {
			cx.fails += 1;
			cx.out.raw("#ORACLE-FAIL C19 send channel run could not be set up");
		}
		Some(r) => {
			let in_order = r.received.iter().enumerate().all(|(i, h)| *h == i as u64);
			if r.accepted != cap + 1 || !r.extra_ok || r.extra_seen || r.received.len() != r.accepted || !in_order {
				cx.fails += 1;
				cx.out.raw(&format!(
					"#ORACLE-FAIL C19 send channel at its capacity (SEND_CHANNEL_CAP = {}): with the writer thread parked {} messages were accepted (expected {}), ConnHandle::send of one more returned ok: {}, after the drain {} messages arrived (in order: {}), the extra one among them: {}",
					cap, r.accepted, cap + 1, r.extra_ok, r.received.len(), in_order, r.extra_seen
				));
			}
			cx.stat("channel: filled to capacity with the writer parked");
			cx.out.line(
				"codec chan fill",
				&format!("accepted:{};extra:{};received:{};inorder:{};extraseen:{}", r.accepted, if r.extra_ok { "ok" } else { "err" }, r.received.len(), if in_order { 1 } else { 0 }, if r.extra_seen { 1 } else { 0 }),
			);
		}
	}
}
