//! C19, connection level (included by src/bin/codec.rs as `mod ext`): the WRITER side of a connection
//! (`ConnHandle::send` -> `peer_write` thread -> `write_message`, attachments read from a real file),
//! the handler results the reader loop of `conn::poll` distinguishes, and the handshake messages on the
//! wire (the `Hand` written by `Handshake::initiate`, the `Shake` written by `Handshake::accept`, the
//! `PeerInfo` both return, the deny / allow lists, the ring of own addresses).
//!
//! Lines (driver: lean/GrinVerif/Drv/CodecConnD.lean):
//!   codec duplex <ver> [<t>:<body hex>:<attachment hex | ->,…] => [ev;…]|[ev;…]
//!       two real `conn::listen` ends on a loopback connection; end A is handed the messages through its
//!       `ConnHandle::send` (real `Msg::new`, attachments as real files), end B records what its handler
//!       sees and answers every Ping with a Pong, which travels back through B's writer thread to A's
//!       reader thread: left = events at B, right = events at A
//!   codec dtrack <ver> [<t>:<body hex>:<attachment hex | ->,…] => sent:<bytes>:<count>;recv:<bytes>:<count>
//!       the trackers of A (sent) and B (received) after the same conversation (only printed when no gap
//!       between two deliveries came near the 2 s read timeout, which the reader counts as a message)
//!   codec hconn <ver> <frags> => [ev;…;pongs:<n>;closed:<0|1>]
//!       the reader thread with a handler whose answer to a Ping is scripted by `height % 16`
//!   codec hsw hand <genesis> <caps> <td> <self addr> <peer addr> <ua hex> <nonce> => <frame hex>
//!   codec hsw accept <genesis> <caps> <td> <ua hex> <deny spec> <peer ip hex>:<port> <ring nonce | -> <addrs before> <stream hex>
//!         => <ok caps:ua:ip:port:ver:td:in | err E>|<frame written, hex | ->|<addrs after>
//!   codec hsw initiate <genesis> <deny spec> <peer ip hex>:<port> <stream hex> => ok caps:ua:ip:port:ver:td:out | err E
use super::*;
use grin_core::ser::Writer;
use grin_p2p::msg::PeerAddrs as CfgPeerAddrs;

/// a body that is already serialised (what `Msg::new` puts behind the frame header)
pub struct RawBody(pub Vec<u8>);
impl Writeable for RawBody {
	fn write<W: Writer>(&self, writer: &mut W) -> Result<(), ser::Error> {
		writer.write_fixed_bytes(&self.0)
	}
}

#[derive(Clone)]
pub struct PlanMsg {
	pub t: Type,
	pub body: Vec<u8>,
	pub att: Option<Vec<u8>>,
	pub exp: Vec<Exp>,
	pub name: String,
}

pub fn canon_any(m: Message, ver: u32) -> Option<(u8, String)> {
	if let Some(x) = canon_message(&m, ver) {
		return Some(x);
	}
	Some(match m {
		Message::Header(h) => (Type::Header as u8, hex(&sv(&BlockHeader::from(h), ver))),
		Message::Block(b) => (Type::Block as u8, hex(&sv(&Block::from(b), ver))),
		Message::CompactBlock(b) => (Type::CompactBlock as u8, hex(&sv(&CompactBlock::from(b), ver))),
		Message::KernelSegment(r) => (Type::KernelSegment as u8, hex(&sv(&r, ver))),
		Message::OutputSegment(r) => (Type::OutputSegment as u8, hex(&sv(&r, ver))),
		Message::RangeProofSegment(r) => (Type::RangeProofSegment as u8, hex(&sv(&r, ver))),
		Message::OutputBitmapSegment(r) => (Type::OutputBitmapSegment as u8, hex(&sv(&r, ver))),
		_ => return None,
	})
}

#[derive(Default)]
pub struct Seen2 {
	pub events: Vec<String>,
	pub got: Vec<Exp>,
	pub n_att: u64,
	pub times: Vec<Instant>,
}

/// records EVERY kind of message; answers a Ping with a Pong (or, when `scripted`, with the result
/// selected by `height % 16`) and a TxHashSetArchive with `Consumed::Attachment`
pub struct Recorder2 {
	pub ver: u32,
	pub work: std::path::PathBuf,
	pub id: u64,
	pub scripted: bool,
	pub seen: Arc<Mutex<Seen2>>,
}

pub const SCRIPT_NAMES: [&str; 16] = [
	"None", "Response", "Internal", "NoDandelionRelay", "Store", "Chain", "BadMessage", "Send", "Timeout", "PeerException",
	"Connection:TimedOut", "Connection:WouldBlock", "Connection:Other", "Disconnect", "Banned", "Serialization",
];

fn scripted_result(code: u64, pong: Msg) -> Result<Consumed, grin_p2p::Error> {
	use grin_p2p::Error as E;
	match code {
		0 => Ok(Consumed::None),
		1 => Ok(Consumed::Response(pong)),
		2 => Err(E::Internal),
		3 => Err(E::NoDandelionRelay),
		4 => Err(E::Store(grin_store::Error::NotFoundErr("verif".to_string()))),
		5 => Err(E::Chain(grin_chain::Error::Unfit("verif".to_string()))),
		6 => Err(E::BadMessage),
		7 => Err(E::Send("verif".to_string())),
		8 => Err(E::Timeout),
		9 => Err(E::PeerException),
		10 => Err(E::Connection(std::io::Error::new(std::io::ErrorKind::TimedOut, "verif"))),
		11 => Err(E::Connection(std::io::Error::new(std::io::ErrorKind::WouldBlock, "verif"))),
		12 => Err(E::Connection(std::io::Error::new(std::io::ErrorKind::Other, "verif"))),
		13 => Ok(Consumed::Disconnect),
		14 => Err(E::Banned),
		_ => Err(E::Serialization(ser::Error::CorruptedData)),
	}
}

impl MessageHandler for Recorder2 {
	fn consume(&self, message: Message) -> Result<Consumed, grin_p2p::Error> {
		let ver = self.ver;
		let mut seen = self.seen.lock().unwrap();
		seen.times.push(Instant::now());
		match message {
			Message::Headers(d) => {
				let canon: Vec<u8> = d.headers.iter().flat_map(|h| sv(h, ver)).collect();
				seen.events.push(format!("headers:{}:{}:{}", d.headers.len(), d.remaining, hex(&canon)));
				seen.got.push(Exp::Headers(d.headers.len(), d.remaining, hex(&canon)));
				Ok(Consumed::None)
			}
			Message::Attachment(up, _) => {
				seen.events.push(format!("att:{}:{}", up.read, up.left));
				seen.got.push(Exp::Att(up.read, up.left, 0));
				if up.left == 0 {
					let data = std::fs::read(&up.meta.path).unwrap_or_default();
					seen.events.push(format!("attsum:{}:{}", data.len(), checksum(&data)));
					seen.got.push(Exp::AttSum(data.len(), checksum(&data)));
					let _ = std::fs::remove_file(&up.meta.path);
				}
				Ok(Consumed::None)
			}
			m => {
				let mut resp = Ok(Consumed::None);
				if let Message::Ping(p) = &m {
					let pong = Pong { total_difficulty: p.total_difficulty, height: p.height };
					let pm = Msg::new(Type::Pong, pong, ProtocolVersion(ver))?;
					resp = if self.scripted { scripted_result(p.height % 16, pm) } else { Ok(Consumed::Response(pm)) };
				}
				if let Message::TxHashSetArchive(a) = &m {
					seen.n_att += 1;
					let path = self.work.join(format!("ext-att-{}-{}.bin", self.id, seen.n_att));
					let file = std::fs::File::create(&path).map_err(|_| grin_p2p::Error::Internal)?;
					let meta = AttachmentMeta { size: a.bytes as usize, hash: a.hash, height: a.height, start_time: Utc::now(), path };
					resp = Ok(Consumed::Attachment(Arc::new(meta), file));
				}
				match canon_any(m, ver) {
					Some((t, c)) => {
						seen.events.push(format!("body:{}:{}", t, c));
						seen.got.push(Exp::Body(t, c));
					}
					None => seen.events.push("other".to_string()),
				}
				resp
			}
		}
	}
}

fn plain_plan<T: Writeable>(t: Type, body: &T, ver: u32, name: &str) -> PlanMsg {
	let b = sv(body, ver);
	PlanMsg { t, body: b.clone(), att: None, exp: vec![Exp::Body(t as u8, hex(&b))], name: name.to_string() }
}

fn headers_plan(hs: &[BlockHeader], ver: u32) -> PlanMsg {
	let n = hs.len();
	let mut exp = vec![];
	if n == 0 {
		exp.push(Exp::Headers(0, 0, hex(&[])));
	}
	let mut i = 0;
	while i < n {
		let j = (i + 32).min(n);
		let canon: Vec<u8> = hs[i..j].iter().flat_map(|h| sv(h, ver)).collect();
		exp.push(Exp::Headers(j - i, (n - j) as u64, hex(&canon)));
		i = j;
	}
	PlanMsg { t: Type::Headers, body: sv(&Headers { headers: hs.to_vec() }, ver), att: None, exp, name: format!("Headers({})", n) }
}

fn archive_plan(rng: &mut Rng, size: usize, ver: u32) -> PlanMsg {
	let data = rng.bytes(size);
	let body = TxHashSetArchive { hash: hash32(rng), height: rng.next(), bytes: size as u64 };
	let b = sv(&body, ver);
	let mut exp = vec![Exp::Body(Type::TxHashSetArchive as u8, hex(&b))];
	if size == 0 {
		exp.push(Exp::Att(0, 0, 0));
	}
	let mut off = 0;
	while off < size {
		let n = (size - off).min(48_000);
		exp.push(Exp::Att(n, size - off - n, 0));
		off += n;
	}
	exp.push(Exp::AttSum(size, checksum(&data)));
	PlanMsg { t: Type::TxHashSetArchive, body: b, att: Some(data), exp, name: format!("TxHashSetArchive+{}", size) }
}

/// one message of kind `k` for the duplex conversations
fn plan_message(cx: &mut Ctx, ver: u32, k: u64) -> PlanMsg {
	match k {
		0 => plain_plan(Type::Ping, &Ping { total_difficulty: Difficulty::from_num(cx.rng.next()), height: cx.rng.next() }, ver, "Ping"),
		1 => plain_plan(Type::GetPeerAddrs, &GetPeerAddrs { capabilities: Capabilities::from_bits_truncate(cx.rng.next() as u32) }, ver, "GetPeerAddrs"),
		2 => {
			let n = *cx.rng.pick(&[0usize, 1, 3, 9]);
			let peers = (0..n).map(|_| gen_addr(&mut cx.rng)).collect();
			plain_plan(Type::PeerAddrs, &PeerAddrs { peers }, ver, "PeerAddrs")
		}
		3 => {
			let n = *cx.rng.pick(&[0usize, 1, 2, 20]);
			let hashes = (0..n).map(|_| hash32(&mut cx.rng)).collect();
			plain_plan(Type::GetHeaders, &Locator { hashes }, ver, "GetHeaders")
		}
		4 => {
			let h = header_pool(cx, 1).pop().unwrap();
			plain_plan(Type::Header, &h, ver, "Header")
		}
		5 => {
			let n = *cx.rng.pick(&[0usize, 1, 2, 32, 33, 40]);
			let hs = if n == 0 { vec![] } else { header_pool(cx, n) };
			headers_plan(&hs, ver)
		}
		6 => {
			let (no, nk) = (cx.rng.below(3) as usize, 1 + cx.rng.below(2) as usize);
			let b = gen_block(cx, no, nk);
			plain_plan(Type::Block, &b, ver, "Block")
		}
		7 => {
			let b = gen_block(cx, 1, 1);
			let cb: CompactBlock = b.into();
			plain_plan(Type::CompactBlock, &cb, ver, "CompactBlock")
		}
		8 | 9 => {
			let outs: Vec<Output> = (0..1 + cx.rng.below(2)).map(|_| gen_output(&mut cx.rng)).collect();
			let kerns: Vec<TxKernel> = (0..1 + cx.rng.below(2)).map(|_| gen_kernel(&mut cx.rng)).collect();
			let ins: Vec<Input> = (0..cx.rng.below(3)).map(|_| Input::new(OutputFeatures::Plain, rand_commit(&mut cx.rng))).collect();
			let tx = Transaction::new(Inputs::from(ins.as_slice()), &outs, &kerns);
			if k == 8 {
				plain_plan(Type::Transaction, &tx, ver, "Transaction")
			} else {
				plain_plan(Type::StemTransaction, &tx, ver, "StemTransaction")
			}
		}
		10 => {
			let nl = 1 + cx.rng.below(3);
			let body = gen_kernel_segment_body(&mut cx.rng, ver, nl);
			PlanMsg { t: Type::KernelSegment, body: body.clone(), att: None, exp: vec![Exp::Body(Type::KernelSegment as u8, hex(&body))], name: "KernelSegment".into() }
		}
		11 => plain_plan(Type::TxHashSetRequest, &TxHashSetRequest { hash: hash32(&mut cx.rng), height: cx.rng.next() }, ver, "TxHashSetRequest"),
		12 => {
			let t = *cx.rng.pick(&[Type::GetOutputBitmapSegment, Type::GetOutputSegment, Type::GetRangeProofSegment, Type::GetKernelSegment]);
			let req = SegmentRequest { block_hash: hash32(&mut cx.rng), identifier: SegmentIdentifier { height: cx.rng.below(14) as u8, idx: cx.rng.below(1 << 20) } };
			plain_plan(t, &req, ver, "SegmentRequest")
		}
		13 => {
			let t = *cx.rng.pick(&[Type::GetBlock, Type::GetCompactBlock, Type::GetTransaction, Type::TransactionKernel]);
			plain_plan(t, &hash32(&mut cx.rng), ver, "hash request")
		}
		14 => plain_plan(Type::BanReason, &BanReason { ban_reason: ReasonForBan::BadBlock }, ver, "BanReason"),
		_ => plain_plan(Type::Pong, &Pong { total_difficulty: Difficulty::from_num(cx.rng.next()), height: cx.rng.next() }, ver, "Pong"),
	}
}

pub struct DuplexRes {
	pub b_events: Vec<String>,
	pub b_got: Vec<Exp>,
	pub a_events: Vec<String>,
	pub a_got: Vec<Exp>,
	pub sent: (u64, u64),
	pub recv: (u64, u64),
	pub max_gap_ms: u128,
	pub wall_ms: u128,
	pub send_errors: usize,
}

/// end A sends `plan` through its real writer thread, end B records and answers Pings
pub fn run_duplex(ver: u32, plan: &[PlanMsg], work: &std::path::Path, id: u64) -> DuplexRes {
	let t0 = Instant::now();
	let listener = TcpListener::bind("127.0.0.1:0").unwrap();
	let a_sock = TcpStream::connect(listener.local_addr().unwrap()).unwrap();
	a_sock.set_nodelay(true).unwrap();
	let (b_sock, _) = listener.accept().unwrap();
	b_sock.set_nodelay(true).unwrap();
	let seen_a = Arc::new(Mutex::new(Seen2::default()));
	let seen_b = Arc::new(Mutex::new(Seen2::default()));
	let tr_a = Arc::new(Tracker::new());
	let tr_b = Arc::new(Tracker::new());
	let (_hb, stop_b) = listen(b_sock, ProtocolVersion(ver), tr_b.clone(), Recorder2 { ver, work: work.to_path_buf(), id: id * 2, scripted: false, seen: seen_b.clone() }).unwrap();
	let (ha, stop_a) = listen(a_sock, ProtocolVersion(ver), tr_a.clone(), Recorder2 { ver, work: work.to_path_buf(), id: id * 2 + 1, scripted: false, seen: seen_a.clone() }).unwrap();
	let start = Instant::now();
	let mut send_errors = 0;
	let mut want_b = 0;
	let mut want_a = 0;
	for (i, p) in plan.iter().enumerate() {
		let mut m = Msg::new(p.t, RawBody(p.body.clone()), ProtocolVersion(ver)).unwrap();
		if let Some(a) = &p.att {
			let path = work.join(format!("ext-src-{}-{}.bin", id, i));
			std::fs::write(&path, a).unwrap();
			m.add_attachment(std::fs::File::open(&path).unwrap());
			let _ = std::fs::remove_file(&path);
		}
		if ha.send(m).is_err() {
			send_errors += 1;
		}
		want_b += p.exp.len();
		if p.t == Type::Ping {
			want_a += 1;
		}
	}
	// wait (logically: until everything due has been seen or nothing can arrive any more)
	let deadline = Instant::now() + Duration::from_secs(120);
	loop {
		let nb = seen_b.lock().unwrap().got.len();
		let na = seen_a.lock().unwrap().got.len();
		if (nb >= want_b && na >= want_a) || Instant::now() > deadline {
			break;
		}
		std::thread::sleep(Duration::from_millis(20));
	}
	// nothing more is due: give a stray extra message the time to show up
	std::thread::sleep(Duration::from_millis(250));
	let sent = { let s = tr_a.sent_bytes.read(); (s.bytes_per_min(), s.count_per_min()) };
	let recv = { let s = tr_b.received_bytes.read(); (s.bytes_per_min(), s.count_per_min()) };
	stop_a.stop();
	stop_b.stop();
	let sa = seen_a.lock().unwrap();
	let sb = seen_b.lock().unwrap();
	let mut max_gap = 0u128;
	let mut last = start;
	for t in sb.times.iter() {
		max_gap = max_gap.max(t.duration_since(last).as_millis());
		last = *t;
	}
	max_gap = max_gap.max(last.elapsed().as_millis().saturating_sub(0));
	DuplexRes {
		b_events: sb.events.clone(),
		b_got: sb.got.clone(),
		a_events: sa.events.clone(),
		a_got: sa.got.clone(),
		sent,
		recv,
		max_gap_ms: max_gap,
		wall_ms: t0.elapsed().as_millis(),
		send_errors,
	}
}

fn plan_text(plan: &[PlanMsg]) -> String {
	let v: Vec<String> = plan
		.iter()
		.map(|p| format!("{}:{}:{}", p.t as u8, hex(&p.body), p.att.as_ref().map(|a| if a.is_empty() { "e".to_string() } else { hex(a) }).unwrap_or_else(|| "-".to_string())))
		.collect();
	format!("[{}]", v.join(","))
}

pub fn duplex(cx: &mut Ctx, work: &std::path::Path) {
	let nconv = if cx.thorough { 32 } else { 8 };
	// attachment sizes around the 8000-byte scratch buffer of write_message and the 48000-byte chunk of the codec
	let att_sizes: Vec<usize> = vec![0, 1, 7_999, 8_000, 8_001, 16_000, 47_999, 48_000, 48_001, 56_000, 96_000, 100_001];
	let mut plans: Vec<(u32, Vec<PlanMsg>)> = vec![];
	for ci in 0..nconv {
		let ver = VERSIONS[ci % 4];
		let n = if cx.thorough { 8 + cx.rng.below(8) as usize } else { 6 + cx.rng.below(4) as usize };
		let mut plan = vec![];
		for mi in 0..n {
			// every kind appears: message `mi` of conversation `ci` starts from kind (ci * 5 + mi) % 16
			let k = if mi < 5 { ((ci * 5 + mi) % 16) as u64 } else { cx.rng.below(16) };
			plan.push(plan_message(cx, ver, k));
			if mi == 2 {
				let size = att_sizes[(ci * 3 + cx.rng.below(3) as usize) % att_sizes.len()];
				plan.push(archive_plan(&mut cx.rng, size, ver));
			}
		}
		// a long header list FIRST: its first batch is reported quietly and is the oldest entry of the
		// receiver's RateCounter (which drops quiet entries at the front)
		if ci % 4 == 3 {
			let hs = header_pool(cx, 33 + (ci % 8));
			plan.insert(0, headers_plan(&hs, ver));
		}
		// a Ping right behind an attachment and one at the very end: both must be answered
		plan.insert(4.min(plan.len()), plan_message(cx, ver, 0));
		plan.push(plan_message(cx, ver, 0));
		plans.push((ver, plan));
	}
	let t_all = Instant::now();
	let chan = std::thread::spawn(|| {
		global::set_local_chain_type(ChainTypes::AutomatedTesting);
		run_channel(1000)
	});
	let handles: Vec<_> = plans
		.iter()
		.enumerate()
		.map(|(i, (ver, plan))| {
			let (ver, plan, work) = (*ver, plan.clone(), work.to_path_buf());
			std::thread::spawn(move || {
				global::set_local_chain_type(ChainTypes::AutomatedTesting);
				run_duplex(ver, &plan, &work, i as u64)
			})
		})
		.collect();
	let results: Vec<Option<DuplexRes>> = handles.into_iter().map(|h| h.join().ok()).collect();
	let chan_res = chan.join().ok().flatten();
	emit_channel(cx, chan_res);
	for (i, (ver, plan)) in plans.iter().enumerate() {
		let r = match &results[i] {
			Some(r) => r,
			None => {
				cx.fails += 1;
				cx.out.raw(&format!("#ORACLE-FAIL C19 duplex conversation panicked: {:?}", plan.iter().map(|p| p.name.clone()).collect::<Vec<_>>()));
				continue;
			}
		};
		for p in plan {
			cx.stat(&format!("duplex: sent {}", p.name.split('(').next().unwrap().split('+').next().unwrap()));
			if let Some(a) = &p.att {
				cx.stat(&format!("duplex: attachment of {} bytes", a.len()));
			}
		}
		let want_b: Vec<Exp> = plan.iter().flat_map(|p| p.exp.clone()).collect();
		let want_a: Vec<Exp> = plan.iter().filter(|p| p.t == Type::Ping).map(|p| Exp::Body(Type::Pong as u8, hex(&p.body))).collect();
		if r.b_got != want_b || r.a_got != want_a || r.send_errors != 0 {
			cx.fails += 1;
			let short = |v: &Vec<Exp>| v.iter().map(|e| format!("{:?}", e).chars().take(40).collect::<String>()).collect::<Vec<_>>();
			cx.out.raw(&format!(
				"#ORACLE-FAIL C19 a sequence of messages written by one peer (ConnHandle::send -> writer thread -> write_message) was not read by the other as the identical sequence, or a Ping was not answered with its Pong: version {}, messages {:?}: the receiver's handler saw {:?}, expected {:?}; the sender got back {:?}, expected {:?}; send errors {}",
				ver, plan.iter().map(|p| p.name.clone()).collect::<Vec<_>>(), short(&r.b_got), short(&want_b), short(&r.a_got), short(&want_a), r.send_errors
			));
		}
		cx.out.line(&format!("codec duplex {} {}", ver, plan_text(plan)), &format!("[{}]|[{}]", r.b_events.join(";"), r.a_events.join(";")));
		// the trackers: only when no delivery gap came near the read timeout (a timed-out read counts as a message)
		if r.max_gap_ms < 1500 && r.wall_ms < 45_000 {
			cx.stat("duplex: tracker counters compared");
			cx.out.line(&format!("codec dtrack {} {}", ver, plan_text(plan)), &format!("sent:{}:{};recv:{}:{}", r.sent.0, r.sent.1, r.recv.0, r.recv.1));
		} else {
			cx.stat("duplex: tracker counters NOT compared (machine too slow: a delivery gap came near the 2 s read timeout)");
		}
		cx.out.raw(&format!("#STAT duplex conversation {}: {} messages, {} ms, largest delivery gap {} ms", i, plan.len(), r.wall_ms, r.max_gap_ms));
	}
	cx.out.raw(&format!("#STAT duplex: {} conversations in {} ms wall clock", plans.len(), t_all.elapsed().as_millis()));
}

// ---------------------------------------------------------------------------------------------------
// handler results at connection level

pub fn handler_results(cx: &mut Ctx, work: &std::path::Path) {
	let vers: Vec<u32> = if cx.thorough { VERSIONS.to_vec() } else { vec![1000, 2] };
	struct Case {
		ver: u32,
		code: u64,
		frags: Vec<Vec<u8>>,
		want_events: usize,
		want_pongs: usize,
		want_closed: bool,
	}
	let tolerated = |c: u64| matches!(c, 0 | 1 | 2 | 3 | 4 | 5 | 10 | 11);
	let mut cases = vec![];
	for &ver in &vers {
		for code in 0..16u64 {
			let h = |c: u64, k: u64| 16 * (1000 + k) + c;
			let mut stream = vec![];
			stream.extend_from_slice(&ping_frame(ver, h(1, 1)));
			stream.extend_from_slice(&ping_frame(ver, h(code, 2)));
			stream.extend_from_slice(&getpeers_frame(ver, 15));
			stream.extend_from_slice(&ping_frame(ver, h(1, 3)));
			let cut = 27 + 1 + cx.rng.below(40) as usize;
			let frags = if code % 2 == 0 { vec![stream[..27].to_vec(), stream[27..].to_vec()] } else { vec![stream[..27].to_vec(), stream[27..cut].to_vec(), stream[cut..].to_vec()] };
			let (ev, pongs) = if tolerated(code) { (4, 2 + if code == 1 { 1 } else { 0 }) } else { (2, 1) };
			cases.push(Case { ver, code, frags, want_events: ev, want_pongs: pongs, want_closed: !tolerated(code) });
		}
	}
	let handles: Vec<_> = cases
		.iter()
		.enumerate()
		.map(|(i, c)| {
			let (ver, frags, want_pongs, work) = (c.ver, c.frags.clone(), c.want_pongs, work.to_path_buf());
			std::thread::spawn(move || {
				global::set_local_chain_type(ChainTypes::AutomatedTesting);
				let listener = TcpListener::bind("127.0.0.1:0").unwrap();
				let mut client = TcpStream::connect(listener.local_addr().unwrap()).unwrap();
				client.set_nodelay(true).unwrap();
				let (server, _) = listener.accept().unwrap();
				let seen = Arc::new(Mutex::new(Seen2::default()));
				let handler = Recorder2 { ver, work, id: 10_000 + i as u64, scripted: true, seen: seen.clone() };
				let (_h, stop) = listen(server, ProtocolVersion(ver), Arc::new(Tracker::new()), handler).unwrap();
				// the first Ping on its own, and its Pong awaited (a logical barrier, not a pause: the reader
				// thread shuts the socket down when it leaves the loop, which must not race with the writer
				// thread still holding the first Pong)
				let _ = client.write_all(&frags[0]);
				let first = read_frame(&mut client).map(|f| f[2] == Type::Pong as u8).unwrap_or(false);
				let sched: Vec<(u64, Vec<u8>)> = frags[1..].iter().map(|f| (2u64, f.clone())).collect();
				let (pongs, closed) = drive_client(&mut client, &sched, want_pongs - 1);
				let pongs = pongs + if first { 1 } else { 0 };
				stop.stop();
				let _ = client.shutdown(Shutdown::Both);
				let ev = seen.lock().unwrap().events.clone();
				(ev, pongs, closed)
			})
		})
		.collect();
	let results: Vec<_> = handles.into_iter().map(|h| h.join().ok()).collect();
	for (i, c) in cases.iter().enumerate() {
		let (ev, pongs, closed) = match &results[i] {
			Some(r) => r.clone(),
			None => {
				cx.fails += 1;
				cx.out.raw(&format!("#ORACLE-FAIL C19 handler-result delivery panicked (code {})", c.code));
				continue;
			}
		};
		cx.stat(&format!("hconn: handler answers {}", SCRIPT_NAMES[c.code as usize]));
		if ev.len() != c.want_events || pongs != c.want_pongs || closed != c.want_closed {
			cx.fails += 1;
			cx.out.raw(&format!(
				"#ORACLE-FAIL C19 reader loop and handler result `{}` (version {}): Ping, Ping answered with that result, GetPeerAddrs, Ping: the handler saw {} messages (expected {}), {} Pongs came back (expected {}), connection closed by the reader: {} (expected {})",
				SCRIPT_NAMES[c.code as usize], c.ver, ev.len(), c.want_events, pongs, c.want_pongs, closed, c.want_closed
			));
		}
		let mut evs = ev.clone();
		evs.push(format!("pongs:{}", pongs));
		evs.push(format!("closed:{}", if closed { 1 } else { 0 }));
		cx.out.line(&format!("codec hconn {} {}", c.ver, hex_list(&c.frags)), &format!("[{}]", evs.join(";")));
	}
}

// ---------------------------------------------------------------------------------------------------
// the handshake on the wire

fn ip_hex(ip: std::net::IpAddr) -> String {
	match ip {
		std::net::IpAddr::V4(a) => hex(&a.octets()),
		std::net::IpAddr::V6(a) => hex(&a.octets()),
	}
}

fn addrs_text(hs: &Handshake) -> String {
	let v: Vec<String> = hs.addrs.read().iter().map(|a| format!("{}:{}", ip_hex(a.0.ip()), a.0.port())).collect();
	format!("[{}]", v.join(","))
}

fn info_text(i: &PeerInfo, inbound: bool) -> String {
	format!(
		"ok {}:{}:{}:{}:{}:{}:{}",
		i.capabilities.bits(),
		if i.user_agent.is_empty() { "-".to_string() } else { hex(i.user_agent.as_bytes()) },
		ip_hex(i.addr.0.ip()),
		i.addr.0.port(),
		i.version.value(),
		i.total_difficulty().to_num(),
		if inbound { "in" } else { "out" }
	)
}

/// read one frame (header + announced body) off a socket
fn read_frame(s: &mut TcpStream) -> Option<Vec<u8>> {
	let _ = s.set_read_timeout(Some(Duration::from_secs(20)));
	let mut head = [0u8; 11];
	s.read_exact(&mut head).ok()?;
	let mut l = [0u8; 8];
	l.copy_from_slice(&head[3..11]);
	let mut body = vec![0u8; (u64::from_be_bytes(l) as usize).min(1 << 20)];
	s.read_exact(&mut body).ok()?;
	let mut v = head.to_vec();
	v.extend_from_slice(&body);
	Some(v)
}

/// one outbound attempt of `hs` to a listener that reads the Hand and hangs up: the frame it wrote
fn outbound_hand(hs: &Handshake, caps: Capabilities, td: u64, self_addr: PeerAddr) -> Option<(Vec<u8>, PeerAddr)> {
	let listener = TcpListener::bind("127.0.0.1:0").ok()?;
	let peer_addr = PeerAddr(listener.local_addr().ok()?);
	let t = std::thread::spawn(move || {
		let (mut s, _) = listener.accept().ok()?;
		let f = read_frame(&mut s);
		let _ = s.shutdown(Shutdown::Both);
		f
	});
	let mut c = TcpStream::connect(peer_addr.0).ok()?;
	let _ = hs.initiate(caps, Difficulty::from_num(td), self_addr, &mut c);
	let _ = c.shutdown(Shutdown::Both);
	t.join().ok()?.map(|f| (f, peer_addr))
}

fn deny_cfg(spec: &str) -> P2PConfig {
	let mut cfg = P2PConfig::default();
	let mk = |s: &str| -> CfgPeerAddrs {
		CfgPeerAddrs { peers: s.split('+').map(|a| PeerAddr(a.parse().unwrap())).collect() }
	};
	if let Some(rest) = spec.strip_prefix("d=") {
		cfg.peers_deny = Some(mk(rest));
	} else if let Some(rest) = spec.strip_prefix("a=") {
		cfg.peers_allow = Some(mk(rest));
	} else if let Some(rest) = spec.strip_prefix("da=") {
		let (d, a) = rest.split_once('/').unwrap();
		cfg.peers_deny = Some(mk(d));
		cfg.peers_allow = Some(mk(a));
	}
	cfg
}

/// deny spec as the driver reads it: `-` | `d=<iphex>:<port>+…` | `a=…` | `da=…/…`
fn deny_text(spec: &str) -> String {
	let conv = |s: &str| -> String {
		s.split('+')
			.map(|a| {
				let sa: std::net::SocketAddr = a.parse().unwrap();
				format!("{}:{}", ip_hex(sa.ip()), sa.port())
			})
			.collect::<Vec<_>>()
			.join("+")
	};
	if let Some(rest) = spec.strip_prefix("d=") {
		format!("d={}", conv(rest))
	} else if let Some(rest) = spec.strip_prefix("a=") {
		format!("a={}", conv(rest))
	} else if let Some(rest) = spec.strip_prefix("da=") {
		let (d, a) = rest.split_once('/').unwrap();
		format!("da={}/{}", conv(d), conv(a))
	} else {
		"-".to_string()
	}
}

pub fn handshake_wire(cx: &mut Ctx) {
	let ua = grin_p2p::msg::user_agent();
	let ua_hex = hex(ua.as_bytes());
	// (1) the Hand that the real `initiate` writes
	let n_hand = if cx.thorough { 24 } else { 8 };
	for i in 0..n_hand {
		let g = hash32(&mut cx.rng);
		let caps = Capabilities::from_bits_truncate(cx.rng.next() as u32);
		let td = cx.rng.below(1 << 50);
		let self_addr = if i % 3 == 2 { gen_addr(&mut cx.rng) } else { PeerAddr(format!("127.0.0.{}:{}", 1 + i, 13000 + i).parse().unwrap()) };
		let hs = Handshake::new(g, P2PConfig::default());
		match outbound_hand(&hs, caps, td, self_addr) {
			Some((frame, peer_addr)) => {
				let nonce = if frame.len() >= 27 {
					let mut b = [0u8; 8];
					b.copy_from_slice(&frame[19..27]);
					u64::from_be_bytes(b)
				} else {
					0
				};
				cx.stat("hsw: Hand frames written by the real initiate");
				cx.out.line(
					&format!("codec hsw hand {} {} {} {} {} {} {}", hex(g.as_bytes()), caps.bits(), td, hex(&sv(&self_addr, 1)), hex(&sv(&peer_addr, 1)), ua_hex, nonce),
					&hex(&frame),
				);
			}
			None => {
				cx.fails += 1;
				cx.out.raw("#ORACLE-FAIL C19 the real Handshake::initiate wrote no complete Hand frame");
			}
		}
	}
	// (2) the real `accept`: result, Shake on the wire, ring of own addresses; deny / allow lists; order of the checks
	struct Acc {
		deny: String,
		same_genesis: bool,
		own_nonce: bool,
		hand_ver: u32,
		adv_port: u16,
		reps: usize,
	}
	let mut accs = vec![];
	for &v in &[0u32, 1, 2, 3, 999, 1000, 1001, u32::MAX] {
		accs.push(Acc { deny: "-".into(), same_genesis: true, own_nonce: false, hand_ver: v, adv_port: 4000 + (v % 1000) as u16, reps: 1 });
	}
	// the resolved address is 127.0.0.1:<advertised port>
	accs.push(Acc { deny: "d=127.0.0.1:4100".into(), same_genesis: true, own_nonce: false, hand_ver: 1000, adv_port: 4100, reps: 1 });
	accs.push(Acc { deny: "d=127.0.0.1:4101".into(), same_genesis: true, own_nonce: false, hand_ver: 1000, adv_port: 4100, reps: 1 });
	accs.push(Acc { deny: "d=127.0.0.2:4100+10.0.0.1:1".into(), same_genesis: true, own_nonce: false, hand_ver: 1000, adv_port: 4100, reps: 1 });
	accs.push(Acc { deny: "a=127.0.0.1:4100".into(), same_genesis: true, own_nonce: false, hand_ver: 2, adv_port: 4100, reps: 1 });
	accs.push(Acc { deny: "a=127.0.0.1:4101+127.0.0.3:4100".into(), same_genesis: true, own_nonce: false, hand_ver: 2, adv_port: 4100, reps: 1 });
	accs.push(Acc { deny: "da=127.0.0.1:4100/127.0.0.1:4100".into(), same_genesis: true, own_nonce: false, hand_ver: 3, adv_port: 4100, reps: 1 });
	accs.push(Acc { deny: "da=127.0.0.1:4200/127.0.0.1:4100".into(), same_genesis: true, own_nonce: false, hand_ver: 3, adv_port: 4100, reps: 1 });
	// order of the checks: genesis before own nonce before the deny list
	accs.push(Acc { deny: "d=127.0.0.1:4100".into(), same_genesis: false, own_nonce: true, hand_ver: 1000, adv_port: 4100, reps: 1 });
	accs.push(Acc { deny: "d=127.0.0.1:4100".into(), same_genesis: true, own_nonce: true, hand_ver: 1000, adv_port: 4100, reps: 1 });
	accs.push(Acc { deny: "d=127.0.0.1:4100".into(), same_genesis: false, own_nonce: false, hand_ver: 1000, adv_port: 4100, reps: 1 });
	accs.push(Acc { deny: "-".into(), same_genesis: false, own_nonce: true, hand_ver: 1000, adv_port: 4100, reps: 1 });
	// the ring of own addresses: 12 self connections in a row announcing different ports (ADDRS_CAP = 10)
	accs.push(Acc { deny: "-".into(), same_genesis: true, own_nonce: true, hand_ver: 1000, adv_port: 5000, reps: 12 });
	for a in &accs {
		let g = hash32(&mut cx.rng);
		let caps = Capabilities::from_bits_truncate(cx.rng.next() as u32);
		let td = cx.rng.below(1 << 50);
		let hs = Handshake::new(g, deny_cfg(&a.deny));
		// one outbound attempt puts a nonce of its own into the ring
		let ring_nonce = outbound_hand(&hs, caps, td, PeerAddr("127.0.0.1:3414".parse().unwrap())).and_then(|(f, _)| {
			if f.len() >= 27 {
				let mut b = [0u8; 8];
				b.copy_from_slice(&f[19..27]);
				Some(u64::from_be_bytes(b))
			} else {
				None
			}
		});
		let ring_nonce = match ring_nonce {
			Some(n) => n,
			None => {
				cx.fails += 1;
				cx.out.raw("#ORACLE-FAIL C19 the real Handshake::initiate wrote no complete Hand frame (ring set-up)");
				continue;
			}
		};
		for rep in 0..a.reps {
			let adv: PeerAddr = PeerAddr(format!("10.9.8.7:{}", a.adv_port as usize + rep).parse().unwrap());
			let hand = Hand {
				version: ProtocolVersion(a.hand_ver),
				capabilities: Capabilities::from_bits_truncate(cx.rng.next() as u32),
				nonce: if a.own_nonce { ring_nonce } else { ring_nonce.wrapping_add(1 + cx.rng.below(1000)) },
				genesis: if a.same_genesis { g } else { hash32(&mut cx.rng) },
				total_difficulty: Difficulty::from_num(cx.rng.below(1 << 50)),
				sender_addr: adv,
				receiver_addr: gen_addr(&mut cx.rng),
				user_agent: ["", "peer/1.0", "x\u{e9}\u{4e16}"][cx.rng.below(3) as usize].to_string(),
			};
			let stream = wire(&Msg::new(Type::Hand, hand, ProtocolVersion(1)).unwrap());
			let before = addrs_text(&hs);
			let (mut cl, mut sv_sock) = hs_pair();
			let peer_of_server = sv_sock.peer_addr().unwrap();
			let st2 = stream.clone();
			let t = std::thread::spawn(move || {
				let _ = cl.write_all(&st2);
				let f = read_frame_or_eof(&mut cl);
				let _ = cl.shutdown(Shutdown::Both);
				f
			});
			let r = hs.accept(caps, Difficulty::from_num(td), &mut sv_sock);
			let _ = sv_sock.shutdown(Shutdown::Both);
			let wrote = t.join().ok().flatten();
			let res = match &r {
				Ok(i) => info_text(i, matches!(i.direction, grin_p2p::types::Direction::Inbound)),
				Err(e) => format!("err {}", err_name(e)),
			};
			// oracle on the implementation: a refused connection is told nothing; the lower version wins
			let refused = r.is_err();
			if refused != wrote.is_none() || (a.own_nonce && a.same_genesis && !matches!(r, Err(grin_p2p::Error::PeerWithSelf))) || (!a.same_genesis && !matches!(r, Err(grin_p2p::Error::GenesisMismatch { .. }))) {
				cx.fails += 1;
				cx.out.raw(&format!(
					"#ORACLE-FAIL C19 Handshake::accept (deny spec {}, same genesis {}, own nonce {}, Hand version {}): result {}, frame written to the peer: {}",
					a.deny, a.same_genesis, a.own_nonce, a.hand_ver, res, wrote.as_ref().map(|f| hex(f)).unwrap_or_else(|| "-".to_string())
				));
			}
			if let Ok(i) = &r {
				if i.version.value() != a.hand_ver.min(1000) {
					cx.fails += 1;
					cx.out.raw(&format!("#ORACLE-FAIL C19 Handshake::accept settles on version {} for a Hand announcing {} (local 1000)", i.version.value(), a.hand_ver));
				}
			}
			cx.stat(&format!("hsw: accept -> {}", if let Err(e) = &r { err_name(e) } else { "ok".to_string() }));
			cx.out.line(
				&format!(
					"codec hsw accept {} {} {} {} {} {}:{} {} {} {}",
					hex(g.as_bytes()), caps.bits(), td, ua_hex, deny_text(&a.deny), ip_hex(peer_of_server.ip()), peer_of_server.port(),
					ring_nonce, before, hex(&stream)
				),
				&format!("{}|{}|{}", res, wrote.as_ref().map(|f| hex(f)).unwrap_or_else(|| "-".to_string()), addrs_text(&hs)),
			);
		}
	}
	// (3) the real `initiate` reading a Shake: PeerInfo, deny list on the dialled address
	let n_init = if cx.thorough { 24 } else { 10 };
	for i in 0..n_init {
		let g = hash32(&mut cx.rng);
		let listener = TcpListener::bind("127.0.0.1:0").unwrap();
		let la = listener.local_addr().unwrap();
		let deny = match i % 5 {
			0 => format!("d={}", la),
			1 => format!("a={}", la),
			2 => format!("a=127.0.0.1:{}", la.port().wrapping_add(1).max(1)),
			_ => "-".to_string(),
		};
		let shake_ver = *cx.rng.pick(&[0u32, 1, 2, 3, 999, 1000, 1001, u32::MAX]);
		let shake = Shake {
			version: ProtocolVersion(shake_ver),
			capabilities: Capabilities::from_bits_truncate(cx.rng.next() as u32),
			genesis: if i % 7 == 6 { hash32(&mut cx.rng) } else { g },
			total_difficulty: Difficulty::from_num(cx.rng.below(1 << 50)),
			user_agent: ["", "peer/2.0", "\u{e9}"][cx.rng.below(3) as usize].to_string(),
		};
		let stream = wire(&Msg::new(Type::Shake, shake, ProtocolVersion(1)).unwrap());
		let st2 = stream.clone();
		let t = std::thread::spawn(move || {
			if let Ok((mut s, _)) = listener.accept() {
				let _ = read_frame(&mut s);
				let _ = s.write_all(&st2);
				let _ = s.shutdown(Shutdown::Write);
				let mut sink = vec![];
				let _ = s.read_to_end(&mut sink);
			}
		});
		let hs = Handshake::new(g, deny_cfg(&deny));
		let mut c = TcpStream::connect(la).unwrap();
		let r = hs.initiate(Capabilities::default(), Difficulty::from_num(1), PeerAddr("127.0.0.1:3414".parse().unwrap()), &mut c);
		let _ = c.shutdown(Shutdown::Both);
		let _ = t.join();
		let res = match &r {
			Ok(i) => info_text(i, matches!(i.direction, grin_p2p::types::Direction::Inbound)),
			Err(e) => format!("err {}", err_name(e)),
		};
		if let Ok(i) = &r {
			if i.version.value() != shake_ver.min(1000) {
				cx.fails += 1;
				cx.out.raw(&format!("#ORACLE-FAIL C19 Handshake::initiate settles on version {} for a Shake announcing {} (local 1000)", i.version.value(), shake_ver));
			}
		}
		cx.stat(&format!("hsw: initiate -> {}", if let Err(e) = &r { err_name(e) } else { "ok".to_string() }));
		cx.out.line(&format!("codec hsw initiate {} {} {}:{} {}", hex(g.as_bytes()), deny_text(&deny), ip_hex(la.ip()), la.port(), hex(&stream)), &res);
	}
}

/// capability words with bits OUTSIDE the defined flags (a newer peer): both handshake messages must still
/// be read (unknown bits dropped, known ones kept), the acceptor must answer, the version is min(local, v)
pub fn handshake_caps(cx: &mut Ctx) {
	let ua_hex = hex(grin_p2p::msg::user_agent().as_bytes());
	let known: u32 = Capabilities::all().bits();
	let mut words: Vec<u32> = vec![known, 0, 0xFFFF_FFFF, 0x8000_0000, !known];
	for b in 0..32 {
		if known & (1 << b) == 0 {
			words.push(1 << b);
			if cx.thorough {
				words.push((1 << b) | known);
			}
		}
	}
	for _ in 0..(if cx.thorough { 16 } else { 4 }) {
		words.push(cx.rng.next() as u32);
	}
	let local = ProtocolVersion::local().value();
	let vers: Vec<u32> = vec![1, 2, 3, local - 1, local, local + 1, local + 2, local + 3, u32::MAX];
	let mut n = 0usize;
	for (wi, &word) in words.iter().enumerate() {
		let vs: Vec<u32> = if cx.thorough || wi < 5 { vers.clone() } else { vec![vers[wi % vers.len()], local + 1] };
		for &v in &vs {
			n += 1;
			let g = hash32(&mut cx.rng);
			let (caps, td) = (Capabilities::from_bits_truncate(cx.rng.next() as u32), cx.rng.below(1 << 50));
			// --- the acceptor reads a Hand whose capability word is `word`
			let adv = PeerAddr(format!("10.9.8.7:{}", 6000 + (n % 1000)).parse().unwrap());
			let hand = Hand { version: ProtocolVersion(v), capabilities: Capabilities::default(), nonce: cx.rng.next(), genesis: g, total_difficulty: Difficulty::from_num(cx.rng.below(1 << 50)), sender_addr: adv, receiver_addr: gen_addr(&mut cx.rng), user_agent: "newer/9.9".to_string() };
			let mut stream = wire(&Msg::new(Type::Hand, hand, ProtocolVersion(1)).unwrap());
			stream[15..19].copy_from_slice(&word.to_be_bytes());
			let hs = Handshake::new(g, P2PConfig::default());
			let (mut cl, mut sv_sock) = hs_pair();
			let peer_of_server = sv_sock.peer_addr().unwrap();
			let st2 = stream.clone();
			let t = std::thread::spawn(move || {
				let _ = cl.write_all(&st2);
				let f = read_frame(&mut cl);
				let _ = cl.shutdown(Shutdown::Both);
				f
			});
			let r = hs.accept(caps, Difficulty::from_num(td), &mut sv_sock);
			let _ = sv_sock.shutdown(Shutdown::Both);
			let wrote = t.join().ok().flatten();
			let res = match &r {
				Ok(i) => info_text(i, true),
				Err(e) => format!("err {}", err_name(e)),
			};
			let ok = match &r {
				Ok(i) => i.version.value() == v.min(local) && i.capabilities.bits() == word & known && wrote.is_some(),
				Err(_) => false,
			};
			if !ok {
				cx.fails += 1;
				cx.out.raw(&format!(
					"#ORACLE-FAIL C19 Handshake::accept of a Hand announcing version {} with capability word {:#010x} (defined flags {:#x}): {} ; Shake written: {} - expected acceptance, version {}, capabilities {}",
					v, word, known, res, wrote.is_some(), v.min(local), word & known
				));
			}
			cx.stat("hsw: accept of a Hand with an arbitrary capability word");
			cx.out.line(
				&format!("codec hsw accepts {} {} {} {} - {}:{} 0 [] {}", hex(g.as_bytes()), caps.bits(), td, ua_hex, ip_hex(peer_of_server.ip()), peer_of_server.port(), hex(&stream)),
				&format!("{}|{}|[]", res, wrote.as_ref().map(|f| hex(f)).unwrap_or_else(|| "-".to_string())),
			);
			// --- the initiator reads a Shake whose capability word is `word`
			let listener = TcpListener::bind("127.0.0.1:0").unwrap();
			let la = listener.local_addr().unwrap();
			let shake = Shake { version: ProtocolVersion(v), capabilities: Capabilities::default(), genesis: g, total_difficulty: Difficulty::from_num(cx.rng.below(1 << 50)), user_agent: "newer/9.9".to_string() };
			let mut sstream = wire(&Msg::new(Type::Shake, shake, ProtocolVersion(1)).unwrap());
			sstream[15..19].copy_from_slice(&word.to_be_bytes());
			let st2 = sstream.clone();
			let t = std::thread::spawn(move || {
				if let Ok((mut s, _)) = listener.accept() {
					let _ = read_frame(&mut s);
					let _ = s.write_all(&st2);
					let _ = s.shutdown(Shutdown::Write);
					let mut sink = vec![];
					let _ = s.read_to_end(&mut sink);
				}
			});
			let hs = Handshake::new(g, P2PConfig::default());
			let mut c = TcpStream::connect(la).unwrap();
			let r = hs.initiate(Capabilities::default(), Difficulty::from_num(1), PeerAddr("127.0.0.1:3414".parse().unwrap()), &mut c);
			let _ = c.shutdown(Shutdown::Both);
			let _ = t.join();
			let res = match &r {
				Ok(i) => info_text(i, false),
				Err(e) => format!("err {}", err_name(e)),
			};
			let ok = match &r {
				Ok(i) => i.version.value() == v.min(local) && i.capabilities.bits() == word & known,
				Err(_) => false,
			};
			if !ok {
				cx.fails += 1;
				cx.out.raw(&format!(
					"#ORACLE-FAIL C19 Handshake::initiate reading a Shake announcing version {} with capability word {:#010x} (defined flags {:#x}): {} - expected acceptance, version {}, capabilities {}",
					v, word, known, res, v.min(local), word & known
				));
			}
			cx.stat("hsw: initiate reading a Shake with an arbitrary capability word");
			cx.out.line(&format!("codec hsw initiates {} - {}:{} {}", hex(g.as_bytes()), ip_hex(la.ip()), la.port(), hex(&sstream)), &res);
		}
	}
	// the same word in a message AFTER the handshake: GetPeerAddrs through the real Codec
	for &word in words.iter().take(if cx.thorough { words.len() } else { 12 }) {
		let mut w = getpeers_frame(1000, 0);
		w[11..15].copy_from_slice(&word.to_be_bytes());
		w.extend_from_slice(&ping_frame(1000, 5));
		let r = run_codec(1000, &[w.clone()], &[0]);
		let want = Exp::Body(Type::GetPeerAddrs as u8, hex(&(word & known).to_be_bytes()));
		if r.got.first() != Some(&want) || r.got.len() != 2 {
			cx.fails += 1;
			cx.out.raw(&format!("#ORACLE-FAIL C19 GetPeerAddrs with capability word {:#010x}: read {:?} end {}", word, r.got, r.end));
		}
		cx.stat("GetPeerAddrs with an arbitrary capability word through the codec");
		emit_run(cx, 1000, &[w], &r, false);
	}
}

/// the frame the acceptor answers with, or `None` when it hangs up without a word
fn read_frame_or_eof(s: &mut TcpStream) -> Option<Vec<u8>> {
	read_frame(s)
}

// ---------------------------------------------------------------------------------------------------
// Headers frames too short to hold the item count (msg_len 0 / 1), and with msg_len 2 / 3 and no items

pub fn headers_short(cx: &mut Ctx) {
	for &ver in &[1u32, 1000] {
		let ping = ping_frame(ver, 77);
		for (len, body) in [(0u64, vec![]), (1, vec![0u8]), (1, vec![1u8]), (3, vec![0u8, 0, 0]), (3, vec![0u8, 1, 9])] {
			let mut w = raw_frame([73, 43], Type::Headers as u8, len, &body);
			w.extend_from_slice(&ping);
			for frags in [vec![w.clone()], split_at_points(&w, &[11]), split_at_points(&w, &[11 + body.len().min(1)])] {
				let r = run_codec(ver, &frags, &[]);
				cx.stat("Headers frames shorter than their item count field / with stray bytes");
				// oracle: never delivered as a batch, never a panic, nothing behind the frame header is executed
				if r.end == "panic" || !r.got.is_empty() {
					cx.fails += 1;
					cx.out.raw(&format!("#ORACLE-FAIL C19 Headers frame with msg_len {} (no room for / disagreeing with the item count): delivered {:?}, end {} ({})", len, r.events, r.end, hex(&w)));
				}
				emit_run(cx, ver, &frags, &r, false);
			}
		}
	}
}

// ---------------------------------------------------------------------------------------------------
// the length limit of every type byte: limit - 1 / limit / limit + 1, header only, versions 1..3

pub fn limits_sweep(cx: &mut Ctx) {
	// the property's table (p2p/src/msg.rs `max_msg_size`, times the 4x allowance; unknown types: the default)
	let mbs: u64 = global::max_block_weight() / 21 * 708;
	let mut limits: Vec<(u8, u64)> = vec![
		(0, 0), (1, 128), (2, 88), (3, 16), (4, 16), (5, 4), (6, 4 + 19 * 256), (7, 1 + 32 * 20), (8, 365), (9, 2 + 365 * 512),
		(10, 32), (11, mbs), (12, 32), (13, mbs / 10), (14, mbs), (15, mbs), (16, 40), (17, 64), (18, 64), (19, 32), (20, 32),
		(21, 41), (22, 2 * mbs), (23, 41), (24, 2 * mbs), (25, 41), (26, 2 * mbs), (27, 41), (28, 2 * mbs),
	];
	for t in [29u8, 30, 77, 128, 200, 254, 255] {
		limits.push((t, mbs));
	}
	for ver in [1u32, 2, 3] {
		for &(t, lim) in &limits {
			let l4 = 4 * lim;
			for len in [l4.wrapping_sub(1), l4, l4 + 1] {
				if len == u64::MAX {
					continue;
				}
				let mut w = vec![73u8, 43, t];
				w.extend_from_slice(&len.to_be_bytes());
				// header only: whether it was accepted shows in how the read ends (nothing of a body follows)
				let r = run_codec(ver, &[w.clone()], &[0]);
				let over = len > l4;
				cx.stat(if over { "limit sweep: limit + 1" } else if len == l4 { "limit sweep: at the limit" } else { "limit sweep: limit - 1" });
				let ok = if over {
					r.end == "Ser:TooLargeReadErr" && r.end_bytes == 11 && r.end_maxreq <= 65536 && r.events.is_empty()
				} else {
					r.end != "Ser:TooLargeReadErr" && r.end != "panic" && r.end_bytes == 11 + if t == 9 { 0 } else { 0 }
				};
				if !ok {
					cx.fails += 1;
					cx.out.raw(&format!(
						"#ORACLE-FAIL C19 length limit of type byte {} (4 x {} = {}) at protocol version {}: a frame header announcing {} bytes ended with {} after {} bytes read, largest allocation request {} (events {:?})",
						t, lim, l4, ver, len, r.end, r.end_bytes, r.end_maxreq, r.events
					));
				}
				emit_run(cx, ver, &[w], &r, over);
			}
		}
	}
}

// ---------------------------------------------------------------------------------------------------
// the send channel at exactly SEND_CHANNEL_CAP queued messages

pub struct ChanRes {
	pub accepted: usize,
	pub extra_ok: bool,
	pub received: Vec<u64>,
	pub extra_seen: bool,
}

/// the writer thread is parked on the tracker lock (a logical barrier: `write_message` starts with
/// `tracker.sent_bytes.read()`), the channel is filled through `send_channel.try_send` until it reports
/// Full, then ONE more message goes through `ConnHandle::send`; afterwards everything is drained
pub fn run_channel(ver: u32) -> Option<ChanRes> {
	let cap = grin_p2p::SEND_CHANNEL_CAP;
	let listener = TcpListener::bind("127.0.0.1:0").ok()?;
	let a_sock = TcpStream::connect(listener.local_addr().ok()?).ok()?;
	let (mut b_sock, _) = listener.accept().ok()?;
	let tr = Arc::new(Tracker::new());
	let seen = Arc::new(Mutex::new(Seen2::default()));
	let (ha, stop) = listen(a_sock, ProtocolVersion(ver), tr.clone(), Recorder2 { ver, work: std::path::PathBuf::new(), id: 0, scripted: false, seen }).ok()?;
	let mk = |h: u64| Msg::new(Type::Ping, Ping { total_difficulty: Difficulty::from_num(7), height: h }, ProtocolVersion(ver)).unwrap();
	let mut accepted = 0usize;
	{
		let _guard = tr.sent_bytes.write();
		let deadline = Instant::now() + Duration::from_secs(60);
		let mut next = mk(0);
		loop {
			match ha.send_channel.try_send(next) {
				Ok(()) => {
					accepted += 1;
					if accepted > cap + 6 {
						break;
					}
					next = mk(accepted as u64);
				}
				Err(std::sync::mpsc::TrySendError::Full(m)) => {
					// the channel holds `cap` messages; one more is in the hands of the parked writer thread once
					// it has taken it out - from then on nothing can move (no timing involved)
					if accepted >= cap + 1 || Instant::now() > deadline {
						break;
					}
					next = m;
					std::thread::sleep(Duration::from_millis(2));
				}
				Err(_) => return None,
			}
		}
		// the channel is full now: ConnHandle::send reports success and drops the message
		let extra_ok = ha.send(mk(999_999)).is_ok();
		drop(_guard);
		// drain
		let mut received = vec![];
		let mut extra_seen = false;
		let _ = b_sock.set_read_timeout(Some(Duration::from_secs(30)));
		loop {
			if received.len() >= accepted {
				let _ = b_sock.set_read_timeout(Some(Duration::from_millis(700)));
			}
			let mut f = [0u8; 27];
			if b_sock.read_exact(&mut f).is_err() {
				break;
			}
			let mut hb = [0u8; 8];
			hb.copy_from_slice(&f[19..27]);
			let h = u64::from_be_bytes(hb);
			if h == 999_999 {
				extra_seen = true;
			}
			received.push(h);
			if received.len() > accepted + 3 {
				break;
			}
		}
		stop.stop();
		return Some(ChanRes { accepted, extra_ok, received, extra_seen });
	}
}

pub fn emit_channel(cx: &mut Ctx, r: Option<ChanRes>) {
	let cap = grin_p2p::SEND_CHANNEL_CAP;
	match r {
		None => {
			cx.fails += 1;
			cx.out.raw("#ORACLE-FAIL C19 send channel run could not be set up");
		}
		Some(r) => {
			let in_order = r.received.iter().enumerate().all(|(i, h)| *h == i as u64);
			if r.accepted != cap + 1 || !r.extra_ok || r.extra_seen || r.received.len() != r.accepted || !in_order {
				cx.fails += 1;
				cx.out.raw(&format!(
					"#ORACLE-FAIL C19 send channel at its capacity (SEND_CHANNEL_CAP = {}): with the writer thread parked {} messages were accepted (expected {}), ConnHandle::send of one more returned ok: {}, after the drain {} messages arrived (in order: {}), the extra one among them: {}",
					cap, r.accepted, cap + 1, r.extra_ok, r.received.len(), in_order, r.extra_seen
				));
			}
			cx.stat("channel: filled to capacity with the writer parked");
			cx.out.line(
				"codec chan fill",
				&format!("accepted:{};extra:{};received:{};inorder:{};extraseen:{}", r.accepted, if r.extra_ok { "ok" } else { "err" }, r.received.len(), if in_order { 1 } else { 0 }, if r.extra_seen { 1 } else { 0 }),
			);
		}
	}
}

// ---------------------------------------------------------------------------------------------------
// every payload kind through the plain Codec at EVERY split point

fn gen_segment_body(rng: &mut Rng, leaf: &dyn Fn(&mut Rng) -> Vec<u8>, nl: u64) -> Vec<u8> {
	let be64 = |x: u64| x.to_be_bytes();
	let mut b = rng.bytes(32);
	b.push(rng.below(14) as u8);
	b.extend_from_slice(&be64(rng.below(1 << 20)));
	let nh = 1 + rng.below(2);
	b.extend_from_slice(&be64(nh));
	let mut p = 0u64;
	for _ in 0..nh {
		p += 1 + rng.below(9);
		b.extend_from_slice(&be64(p));
	}
	for _ in 0..nh {
		b.extend_from_slice(&rng.bytes(32));
	}
	b.extend_from_slice(&be64(nl));
	let mut p = 0u64;
	for _ in 0..nl {
		p += 1 + rng.below(9);
		b.extend_from_slice(&be64(p));
	}
	for _ in 0..nl {
		b.extend_from_slice(&leaf(rng));
	}
	let np = 1 + rng.below(2);
	b.extend_from_slice(&be64(np));
	for _ in 0..np {
		b.extend_from_slice(&rng.bytes(32));
	}
	b
}

/// the canonical serialisation of what `raw` decodes to (None: the real decoder refuses it)
fn canon_body<T: ser::Readable + Writeable>(raw: &[u8], ver: u32) -> Option<Vec<u8>> {
	let v: T = ser::deserialize(&mut &raw[..], ProtocolVersion(ver), DeserializationMode::default()).ok()?;
	Some(sv(&v, ver))
}

/// small instances of every payload kind (frame <= ~1.4 kB so that every split point is affordable)
pub fn payload_frames(cx: &mut Ctx, ver: u32) -> Vec<(String, Vec<u8>, Vec<Exp>)> {
	use grin_p2p::msg::{OutputBitmapSegmentResponse, OutputSegmentResponse, SegmentResponse};
	let mut out: Vec<(String, Vec<u8>, Vec<Exp>)> = vec![];
	let mut add = |name: &str, t: Type, body: Vec<u8>| {
		let mut w = sv(&MsgHeader::new(t, body.len() as u64), ver);
		w.extend_from_slice(&body);
		out.push((name.to_string(), w, vec![Exp::Body(t as u8, hex(&body))]));
	};
	let h = header_pool(cx, 1).pop().unwrap();
	add("Header", Type::Header, sv(&h, ver));
	let b = gen_block(cx, 0, 1);
	add("Block", Type::Block, sv(&b, ver));
	let b1 = gen_block(cx, 1, 1);
	add("Block", Type::Block, sv(&b1, ver));
	let cb: CompactBlock = gen_block(cx, 0, 2).into();
	add("CompactBlock", Type::CompactBlock, sv(&cb, ver));
	let kerns: Vec<TxKernel> = vec![gen_kernel(&mut cx.rng)];
	let ins: Vec<Input> = (0..2).map(|_| Input::new(OutputFeatures::Plain, rand_commit(&mut cx.rng))).collect();
	let tx = Transaction::new(Inputs::from(ins.as_slice()), &[], &kerns);
	// the value as the receiver will hold it (the input representation depends on the version)
	if let Some(c) = canon_body::<Transaction>(&sv(&tx, ver), ver) {
		add("Transaction", Type::Transaction, c.clone());
		add("StemTransaction", Type::StemTransaction, c);
	}
	let k = gen_segment_body(&mut cx.rng, &|r| sv(&gen_kernel(r), ver), 2);
	if let Some(c) = canon_body::<SegmentResponse<TxKernel>>(&k, ver) {
		add("KernelSegment", Type::KernelSegment, c);
	}
	let mut o = gen_segment_body(&mut cx.rng, &|r| { let mut v = vec![r.below(2) as u8]; v.extend_from_slice(&r.bytes(33)); v }, 3);
	o.extend_from_slice(&cx.rng.bytes(32));
	if let Some(c) = canon_body::<OutputSegmentResponse>(&o, ver) {
		add("OutputSegment", Type::OutputSegment, c);
	}
	let rp = gen_segment_body(&mut cx.rng, &|r| { let mut v = 675u64.to_be_bytes().to_vec(); v.extend_from_slice(&r.bytes(675)); v }, 1);
	if let Some(c) = canon_body::<SegmentResponse<RangeProof>>(&rp, ver) {
		add("RangeProofSegment", Type::RangeProofSegment, c);
	}
	// OutputBitmapSegment: block hash, BitmapSegment (identifier, blocks, proof), output root
	let mut bm = cx.rng.bytes(32);
	bm.push(9);
	bm.extend_from_slice(&cx.rng.below(1000).to_be_bytes());
	bm.extend_from_slice(&1u16.to_be_bytes());
	// one block of two chunks listing 3 set bits
	bm.extend_from_slice(&[2u8, 1]);
	bm.extend_from_slice(&3u16.to_be_bytes());
	for x in [5u16, 77, 1900] {
		bm.extend_from_slice(&x.to_be_bytes());
	}
	bm.extend_from_slice(&2u64.to_be_bytes());
	bm.extend_from_slice(&cx.rng.bytes(64));
	bm.extend_from_slice(&cx.rng.bytes(32));
	if let Some(c) = canon_body::<OutputBitmapSegmentResponse>(&bm, ver) {
		add("OutputBitmapSegment", Type::OutputBitmapSegment, c);
	}
	out
}

pub fn payload_every_split(cx: &mut Ctx, work: &std::path::Path) {
	let vers: Vec<u32> = if cx.thorough { VERSIONS.to_vec() } else { vec![1, 1000] };
	for &ver in &vers {
		let frames = payload_frames(cx, ver);
		let kinds: Vec<String> = frames.iter().map(|f| f.0.clone()).collect();
		for want in ["Header", "Block", "CompactBlock", "Transaction", "StemTransaction", "KernelSegment", "OutputSegment", "RangeProofSegment", "OutputBitmapSegment"] {
			if !kinds.iter().any(|k| k == want) {
				cx.fails += 1;
				cx.out.raw(&format!("#ORACLE-FAIL C19 payload run: no instance of {} that the real decoder accepts (generator broken)", want));
			}
		}
		let ping = ping_frame(ver, 4711);
		let ping_exp = Exp::Body(Type::Ping as u8, hex(&ping[11..]));
		for (name, w, exp) in frames {
			cx.stat(&format!("payload kind at every split point: {}", name));
			let mut stream = w.clone();
			stream.extend_from_slice(&ping);
			let mut e = exp.clone();
			e.push(ping_exp.clone());
			// quick: every split point when the frame is short, else every split point of the header and the
			// last 40 bytes plus a sample; thorough: every split point up to 1500 bytes
			let extra: Vec<usize> = (w.len().saturating_sub(20)..w.len() + 12).collect();
			// quick: version 1000 at every split point; version 1 at every split point for the kinds whose
			// encoding depends on the version, sampled otherwise
			let version_dependent = matches!(name.as_str(), "Block" | "Transaction" | "StemTransaction" | "KernelSegment" | "CompactBlock");
			let dense = (cx.thorough && stream.len() <= 1500) || ((ver == 1000 || version_dependent) && stream.len() <= 1000);
			deliver_parallel(cx, ver, &stream, &e, &[name.clone(), "Ping".into()], dense, &extra);
		}
		if ver != 1000 && !cx.thorough {
			continue;
		}
		// mixed-size Headers (two sizes) + Ping, and an archive with a short attachment + Ping: every split point
		let hs = sized_headers(cx, &[12, 10]);
		let canon: Vec<u8> = hs.iter().flat_map(|h| sv(h, ver)).collect();
		let mut stream = wire(&Msg::new(Type::Headers, Headers { headers: hs }, ProtocolVersion(ver)).unwrap());
		stream.extend_from_slice(&ping);
		deliver_parallel(cx, ver, &stream, &[Exp::Headers(2, 0, hex(&canon)), ping_exp.clone()], &["Headers(mixed)".into(), "Ping".into()], true, &[]);
		for size in [0usize, 1, 200] {
			let data = cx.rng.bytes(size);
			let path = work.join(format!("pl-att-{}.bin", cx.rng.next()));
			std::fs::write(&path, &data).unwrap();
			let body = TxHashSetArchive { hash: hash32(&mut cx.rng), height: cx.rng.next(), bytes: size as u64 };
			let canon = hex(&sv(&body, ver));
			let mut m = Msg::new(Type::TxHashSetArchive, body, ProtocolVersion(ver)).unwrap();
			m.add_attachment(std::fs::File::open(&path).unwrap());
			let mut stream = wire(&m);
			let _ = std::fs::remove_file(&path);
			stream.extend_from_slice(&ping);
			let e = vec![Exp::Body(Type::TxHashSetArchive as u8, canon), Exp::Att(size, 0, checksum(&data)), ping_exp.clone()];
			cx.stat("payload kind at every split point: TxHashSetArchive+attachment");
			deliver_parallel(cx, ver, &stream, &e, &["TxHashSetArchive+attachment".into(), "Ping".into()], true, &[]);
		}
	}
}

/// as `deliver_plans_at` with `dense`, but the deliveries of one stream run on 8 threads (the largest
/// allocation request is not looked at here, so the shared counter does not matter)
fn deliver_parallel(cx: &mut Ctx, ver: u32, stream: &[u8], exp: &[Exp], names: &[String], every: bool, extra: &[usize]) {
	let mut plans: Vec<Vec<usize>> = vec![vec![]];
	if every {
		for p in 1..stream.len() {
			plans.push(vec![p]);
		}
		cx.stat("streams cut at every single split point");
	} else {
		for p in (1..12.min(stream.len())).chain(extra.iter().copied().filter(|p| *p > 0 && *p < stream.len())) {
			plans.push(vec![p]);
		}
		for _ in 0..8 {
			plans.push(vec![1 + cx.rng.below(stream.len() as u64 - 1) as usize]);
		}
	}
	for _ in 0..4 {
		let k = 2 + cx.rng.below(12) as usize;
		let mut ps: Vec<usize> = (0..k).map(|_| 1 + cx.rng.below(stream.len() as u64 - 1) as usize).collect();
		ps.sort_unstable();
		ps.dedup();
		plans.push(ps);
	}
	if stream.len() <= 300 {
		plans.push((1..stream.len()).collect());
		cx.stat("streams delivered byte by byte");
	}
	let plans = Arc::new(plans);
	let stream_a = Arc::new(stream.to_vec());
	const NT: usize = 8;
	let handles: Vec<_> = (0..NT)
		.map(|ti| {
			let (plans, stream_a) = (plans.clone(), stream_a.clone());
			std::thread::spawn(move || {
				global::set_local_chain_type(ChainTypes::AutomatedTesting);
				let mut out = vec![];
				let mut i = ti;
				while i < plans.len() {
					let frags = split_at_points(&stream_a, &plans[i]);
					let gaps: Vec<u64> = (0..frags.len()).map(|j| if plans[i].len() <= 1 { 200 } else { (j as u64 * 37) % 900 }).collect();
					let r = run_codec(ver, &frags, &gaps);
					out.push((i, frags, r));
					i += NT;
				}
				out
			})
		})
		.collect();
	let mut all: Vec<(usize, Vec<Vec<u8>>, RunResult)> = handles.into_iter().flat_map(|h| h.join().unwrap_or_default()).collect();
	all.sort_by_key(|x| x.0);
	if all.len() != plans.len() {
		cx.fails += 1;
		cx.out.raw(&format!("#ORACLE-FAIL C19 payload deliveries panicked: {} of {} done ({:?})", all.len(), plans.len(), names));
	}
	for (_, frags, r) in all {
		if r.got != exp || r.end != "Connection" {
			cx.fails += 1;
			cx.out.raw(&format!(
				"#ORACLE-FAIL C19 sequence read differs from sequence written: version {} messages {:?} fragments {} read {:?} end {}",
				ver, names, hex_list(&frags).chars().take(600).collect::<String>(), r.got.iter().map(|e| format!("{:?}", e).chars().take(60).collect::<String>()).collect::<Vec<_>>(), r.end
			));
		}
		emit_run(cx, ver, &frags, &r, false);
	}
}

// ---------------------------------------------------------------------------------------------------
// Hand / Shake with user agents of 0 … max … max + 1 bytes, byte by byte and coalesced with a Ping, both directions

pub fn handshake_frag(cx: &mut Ctx) {
	let g = Hash::from_vec(&[7u8; 32]);
	let a4 = PeerAddr("127.0.0.1:3414".parse().unwrap());
	// frame limits 4 x 128 / 4 x 88; fixed parts: Hand 4+4+8+8+7+7+8+32 = 78, Shake 4+4+8+8+32 = 56
	let (hand_max, shake_max) = (512 - 78, 352 - 56);
	struct Job {
		accept: bool,
		ver: u32,
		ua: usize,
		over: bool,
		frags: Vec<Vec<u8>>,
		height: u64,
		mode: &'static str,
	}
	let mut jobs = vec![];
	let vers: Vec<u32> = if cx.thorough { VERSIONS.to_vec() } else { vec![1000, 2] };
	for accept in [true, false] {
		let max = if accept { hand_max } else { shake_max };
		let mut lens = vec![0usize, 1, 63, max - 1, max, max + 1];
		if cx.thorough {
			lens.extend_from_slice(&[2, 64, 65, 255, 256, max + 2, max + 100]);
		}
		for (li, &ua) in lens.iter().enumerate() {
			for (mi, mode) in ["bytewise", "coalesced", "bytewise-all"].iter().enumerate() {
				let ver = vers[(li + mi) % vers.len()];
				let agent: String = (0..ua).map(|i| (b'a' + (i % 26) as u8) as char).collect();
				let hs_msg = if accept {
					wire(&Msg::new(Type::Hand, Hand { version: ProtocolVersion(ver), capabilities: Capabilities::default(), nonce: cx.rng.next(), genesis: g, total_difficulty: Difficulty::from_num(1), sender_addr: a4, receiver_addr: a4, user_agent: agent }, ProtocolVersion(ver)).unwrap())
				} else {
					wire(&Msg::new(Type::Shake, Shake { version: ProtocolVersion(ver), capabilities: Capabilities::default(), genesis: g, total_difficulty: Difficulty::from_num(1), user_agent: agent }, ProtocolVersion(ver)).unwrap())
				};
				let height = 80_000 + cx.rng.below(10_000);
				let ping = ping_frame(ver.min(1000), height);
				let frags: Vec<Vec<u8>> = match *mode {
					// every byte of the handshake message in a write of its own, the Ping behind the last byte
					"bytewise" => {
						let mut f: Vec<Vec<u8>> = hs_msg.iter().map(|b| vec![*b]).collect();
						f.last_mut().unwrap().extend_from_slice(&ping);
						f
					}
					"coalesced" => {
						let mut f = hs_msg.clone();
						f.extend_from_slice(&ping);
						vec![f]
					}
					_ => hs_msg.iter().chain(ping.iter()).map(|b| vec![*b]).collect(),
				};
				jobs.push(Job { accept, ver, ua, over: ua > max, frags, height, mode });
			}
		}
	}
	// a handshake message whose frame header announces MORE bytes than its fields occupy (what a newer peer that
	// appended a field sends; within the 4x limit): the surplus belongs to the message - it has to be taken off the
	// socket with it, the Ping behind must be read at the right offset.  And one byte LESS than the fields need:
	// refused.
	for accept in [true, false] {
		for (ki, k) in [1i64, 4, 64, -1].iter().enumerate() {
			for (mi, mode) in ["coalesced", "bytewise"].iter().enumerate() {
				let ver = vers[(ki + mi) % vers.len()];
				let agent = "verif/surplus".to_string();
				let mut hs_msg = if accept {
					wire(&Msg::new(Type::Hand, Hand { version: ProtocolVersion(ver), capabilities: Capabilities::default(), nonce: cx.rng.next(), genesis: g, total_difficulty: Difficulty::from_num(1), sender_addr: a4, receiver_addr: a4, user_agent: agent }, ProtocolVersion(ver)).unwrap())
				} else {
					wire(&Msg::new(Type::Shake, Shake { version: ProtocolVersion(ver), capabilities: Capabilities::default(), genesis: g, total_difficulty: Difficulty::from_num(1), user_agent: agent }, ProtocolVersion(ver)).unwrap())
				};
				let body_len = (hs_msg.len() - 11) as i64;
				hs_msg[3..11].copy_from_slice(&((body_len + k) as u64).to_be_bytes());
				if *k > 0 {
					// surplus bytes that are no frame header (read as one they give a wrong magic)
					for j in 0..*k {
						hs_msg.push(0xA0 | (j as u8 & 0x0f));
					}
				} else {
					hs_msg.pop();
				}
				let height = 70_000 + cx.rng.below(10_000);
				let ping = ping_frame(ver.min(1000), height);
				let frags: Vec<Vec<u8>> = match *mode {
					"coalesced" => {
						let mut f = hs_msg.clone();
						f.extend_from_slice(&ping);
						vec![f]
					}
					_ => {
						let mut f: Vec<Vec<u8>> = hs_msg.iter().map(|b| vec![*b]).collect();
						f.last_mut().unwrap().extend_from_slice(&ping);
						f
					}
				};
				// `ua` carries the surplus for the statistics line; `over` = the handshake must fail
				jobs.push(Job { accept, ver, ua: (1000 + k) as usize, over: *k < 0, frags, height, mode: if *mode == "coalesced" { "surplus-coalesced" } else { "surplus-bytewise" } });
			}
		}
	}
	let now = Utc::now().timestamp();
	let batch = 8;
	let mut results: Vec<Option<Result<PeerRes, String>>> = (0..jobs.len()).map(|_| None).collect();
	let mut start = 0;
	while start < jobs.len() {
		let end = (start + batch).min(jobs.len());
		let hs: Vec<_> = (start..end)
			.map(|i| {
				let (accept, ver, over) = (jobs[i].accept, jobs[i].ver, jobs[i].over);
				let sched: Vec<(u64, Vec<u8>)> = jobs[i].frags.iter().map(|f| (0u64, f.clone())).collect();
				std::thread::spawn(move || {
					global::set_local_chain_type(ChainTypes::AutomatedTesting);
					run_hs_then(accept, ver, &sched, if over { 0 } else { 1 })
				})
			})
			.collect();
		for (j, h) in hs.into_iter().enumerate() {
			results[start + j] = h.join().ok();
		}
		start = end;
	}
	for (i, job) in jobs.iter().enumerate() {
		let dir = if job.accept { "accept" } else { "connect" };
		if job.mode.starts_with("surplus") {
			cx.stat(&format!("hsfrag: {} {} announced length = fields {:+} bytes", dir, job.mode, job.ua as i64 - 1000));
		} else {
			cx.stat(&format!("hsfrag: {} {} user agent of {} bytes{}", dir, job.mode, job.ua, if job.over { " (one over the frame limit)" } else { "" }));
		}
		let rs = match &results[i] {
			Some(Ok(r)) => {
				let mut evs = r.events.clone();
				evs.push(format!("pongs:{}", r.pongs));
				evs.push(format!("closed:{}", if r.closed { 1 } else { 0 }));
				if job.over || r.events != vec![format!("ping:{}", job.height)] || r.pongs != 1 || r.closed || r.version != job.ver.min(1000) {
					cx.fails += 1;
					cx.out.raw(&format!(
						"#ORACLE-FAIL C19 handshake message with a user agent of {} bytes delivered {} ({}, version {}): the node saw {:?}, Pongs {}, closed {}, negotiated version {} (a frame over the limit must be refused: {})",
						job.ua, job.mode, dir, job.ver, r.events, r.pongs, r.closed, r.version, job.over
					));
				}
				format!("[{}]", evs.join(";"))
			}
			Some(Err(e)) => {
				if !job.over {
					cx.fails += 1;
					cx.out.raw(&format!("#ORACLE-FAIL C19 handshake failed although the handshake message is well-formed (user agent of {} bytes, {} {}, version {}): {}", job.ua, dir, job.mode, job.ver, e));
				}
				"[handshake-failed]".to_string()
			}
			None => {
				cx.fails += 1;
				cx.out.raw("#ORACLE-FAIL C19 handshake fragmentation delivery panicked in the harness");
				"[panic]".to_string()
			}
		};
		cx.out.line(&format!("codec hsthen {} {} {} {}", dir, job.ver.min(1000), now, hex_list(&job.frags)), &rs);
	}
}

// ---------------------------------------------------------------------------------------------------
// list-carrying messages at their exact maximum item count

fn peer_addrs_body(rng: &mut Rng, count_field: u32, present: usize) -> Vec<u8> {
	let mut b = count_field.to_be_bytes().to_vec();
	for _ in 0..present {
		b.extend_from_slice(&sv(&gen_addr(rng), 1));
	}
	b
}

fn locator_body(rng: &mut Rng, count_field: u8, present: usize) -> Vec<u8> {
	let mut b = vec![count_field];
	for _ in 0..present {
		b.extend_from_slice(&rng.bytes(32));
	}
	b
}

pub fn list_limits(cx: &mut Ctx, work: &std::path::Path) {
	let max_pa = grin_p2p::MAX_PEER_ADDRS as usize;
	let max_loc = grin_p2p::MAX_LOCATORS as usize;
	let max_hdr = grin_p2p::MAX_BLOCK_HEADERS as usize;
	let vers: Vec<u32> = if cx.thorough { VERSIONS.to_vec() } else { vec![1000, 1] };
	for &ver in &vers {
		let ping = ping_frame(ver, 31_415);
		let ping_exp = Exp::Body(Type::Ping as u8, hex(&ping[11..]));
		// (name, type, body, accepted?)
		let mut cases: Vec<(String, Type, Vec<u8>, bool)> = vec![];
		for n in [0usize, 1, max_pa - 1, max_pa] {
			let peers: Vec<PeerAddr> = (0..n).map(|_| gen_addr(&mut cx.rng)).collect();
			cases.push((format!("PeerAddrs({})", n), Type::PeerAddrs, sv(&PeerAddrs { peers }, ver), true));
		}
		for n in [max_pa + 1, 2 * max_pa] {
			cases.push((format!("PeerAddrs({})", n), Type::PeerAddrs, peer_addrs_body(&mut cx.rng, n as u32, n), false));
		}
		for n in [0usize, 1, max_loc - 1, max_loc] {
			let hashes: Vec<Hash> = (0..n).map(|_| hash32(&mut cx.rng)).collect();
			cases.push((format!("GetHeaders({})", n), Type::GetHeaders, sv(&Locator { hashes }, ver), true));
		}
		for n in [max_loc + 1, 2 * max_loc] {
			cases.push((format!("GetHeaders({})", n), Type::GetHeaders, locator_body(&mut cx.rng, n as u8, n), false));
		}
		for (name, t, body, accepted) in &cases {
			let mut w = sv(&MsgHeader::new(*t, body.len() as u64), ver);
			w.extend_from_slice(body);
			w.extend_from_slice(&ping);
			let cut_count = 11 + if *t == Type::PeerAddrs { 4 } else { 1 };
			let mut plans: Vec<Vec<usize>> = vec![vec![], vec![cut_count], vec![11 + body.len()], vec![11 + body.len() - 1]];
			for _ in 0..2 {
				plans.push(vec![1 + cx.rng.below(w.len() as u64 - 1) as usize]);
			}
			for ps in plans {
				let ps: Vec<usize> = ps.into_iter().filter(|p| *p > 0 && *p < w.len()).collect();
				let frags = split_at_points(&w, &ps);
				let r = run_codec(ver, &frags, &[200]);
				cx.stat(&format!("list at its count limit: {} {}", name, if *accepted { "(within the writer's range)" } else { "(above the maximum)" }));
				let ok = if *accepted {
					r.got == vec![Exp::Body(*t as u8, hex(body)), ping_exp.clone()] && r.end == "Connection"
				} else {
					r.got.is_empty() && r.end == "Ser:TooLargeReadErr"
				};
				if !ok {
					cx.fails += 1;
					cx.out.raw(&format!(
						"#ORACLE-FAIL C19 list message at its item-count limit: {} at version {} (maxima: PeerAddrs {}, locator {}) {}: the codec read {:?} and ended with {} (frame {} bytes, fragments at {:?})",
						name, ver, max_pa, max_loc, if *accepted { "must be read back as written" } else { "must be refused with TooLargeReadErr and nothing behind it executed" },
						r.got.iter().map(|e| format!("{:?}", e).chars().take(50).collect::<String>()).collect::<Vec<_>>(), r.end, w.len(), ps
					));
				}
				emit_run(cx, ver, &frags, &r, false);
			}
		}
		// the count disagrees with the frame length
		let mut odd: Vec<(Type, Vec<u8>)> = vec![
			(Type::PeerAddrs, peer_addrs_body(&mut cx.rng, max_pa as u32, max_pa - 1)),
			(Type::PeerAddrs, peer_addrs_body(&mut cx.rng, max_pa as u32 - 1, max_pa)),
			(Type::PeerAddrs, peer_addrs_body(&mut cx.rng, max_pa as u32 + 1, max_pa)),
			(Type::PeerAddrs, peer_addrs_body(&mut cx.rng, 0, 3)),
			(Type::PeerAddrs, peer_addrs_body(&mut cx.rng, u32::MAX, 2)),
			(Type::GetHeaders, locator_body(&mut cx.rng, max_loc as u8, max_loc - 1)),
			(Type::GetHeaders, locator_body(&mut cx.rng, max_loc as u8 - 1, max_loc)),
			(Type::GetHeaders, locator_body(&mut cx.rng, max_loc as u8 + 1, max_loc)),
			(Type::GetHeaders, locator_body(&mut cx.rng, 255, 2)),
		];
		for (t, body) in odd.drain(..) {
			let mut w = sv(&MsgHeader::new(t, body.len() as u64), ver);
			w.extend_from_slice(&body);
			w.extend_from_slice(&ping);
			let r = run_codec(ver, &[w.clone()], &[0]);
			cx.stat("list whose count disagrees with the frame length");
			if r.end == "panic" {
				cx.fails += 1;
				cx.out.raw(&format!("#ORACLE-FAIL C11/C19 list message with inconsistent count panicked the codec: {}", hex(&w).chars().take(300).collect::<String>()));
			}
			emit_run(cx, ver, &[w], &r, false);
		}
		// Headers at MAX_BLOCK_HEADERS: max - 1, max (what an honest peer answers to GetHeaders), and max + 1 (the
		// streaming codec has no count bound of its own: only the frame length limits the list)
		for n in [max_hdr - 1, max_hdr, max_hdr + 1, 600] {
			if ver != 1000 && !cx.thorough {
				continue;
			}
			let mut hs = header_pool(cx, 48);
			while hs.len() < n {
				let k = hs.len();
				hs.push(hs[k % 48].clone());
			}
			let w0 = wire(&Msg::new(Type::Headers, Headers { headers: hs.clone() }, ProtocolVersion(ver)).unwrap());
			let mut w = w0.clone();
			w.extend_from_slice(&ping);
			let mut exp = vec![];
			let mut i = 0;
			while i < n {
				let j = (i + 32).min(n);
				let canon: Vec<u8> = hs[i..j].iter().flat_map(|h| sv(h, ver)).collect();
				exp.push(Exp::Headers(j - i, (n - j) as u64, hex(&canon)));
				i = j;
			}
			exp.push(ping_exp.clone());
			for ps in [vec![], vec![13], vec![w0.len() - 1], vec![1 + cx.rng.below(w.len() as u64 - 1) as usize]] {
				let frags = split_at_points(&w, &ps);
				let r = run_codec(ver, &frags, &[200]);
				cx.stat(&format!("list at its count limit: Headers({})", n));
				if r.got != exp || r.end != "Connection" {
					cx.fails += 1;
					cx.out.raw(&format!("#ORACLE-FAIL C19 Headers list of {} items (MAX_BLOCK_HEADERS = {}) at version {} not read back in batches of 32 as written: {} batches, end {}", n, max_hdr, ver, r.got.len(), r.end));
				}
				emit_run(cx, ver, &frags, &r, false);
			}
		}
	}
	// the same through the real writer thread and the real reader thread
	for &ver in &vers {
		let mut plan: Vec<PlanMsg> = vec![];
		let pa = |cx: &mut Ctx, n: usize| {
			let peers: Vec<PeerAddr> = (0..n).map(|_| gen_addr(&mut cx.rng)).collect();
			plain_plan(Type::PeerAddrs, &PeerAddrs { peers }, ver, &format!("PeerAddrs({})", n))
		};
		let loc = |cx: &mut Ctx, n: usize| {
			let hashes: Vec<Hash> = (0..n).map(|_| hash32(&mut cx.rng)).collect();
			plain_plan(Type::GetHeaders, &Locator { hashes }, ver, &format!("GetHeaders({})", n))
		};
		plan.push(pa(cx, max_pa));
		plan.push(plan_message(cx, ver, 0));
		plan.push(loc(cx, max_loc));
		let mut hs = header_pool(cx, 48);
		while hs.len() < max_hdr {
			let k = hs.len();
			hs.push(hs[k % 48].clone());
		}
		plan.push(headers_plan(&hs, ver));
		// beyond MAX_BLOCK_HEADERS: nothing on either side caps the list (the u16 count and the frame limit do):
		// what `Headers::write` is handed is what the other side's handler sees
		for n in [max_hdr + 1, 600] {
			let mut hs2 = hs.clone();
			while hs2.len() < n {
				let k = hs2.len();
				hs2.push(hs2[k % 48].clone());
			}
			plan.push(headers_plan(&hs2, ver));
			plan.push(plan_message(cx, ver, 0));
		}
		plan.push(pa(cx, max_pa - 1));
		plan.push(loc(cx, max_loc - 1));
		plan.push(pa(cx, 0));
		plan.push(loc(cx, 0));
		plan.push(pa(cx, 1));
		plan.push(plan_message(cx, ver, 0));
		let r = run_duplex(ver, &plan, work, 900 + ver as u64);
		let want_b: Vec<Exp> = plan.iter().flat_map(|p| p.exp.clone()).collect();
		let want_a: Vec<Exp> = plan.iter().filter(|p| p.t == Type::Ping).map(|p| Exp::Body(Type::Pong as u8, hex(&p.body))).collect();
		cx.stat("list messages at their maximum count through the writer and reader threads");
		if r.b_got != want_b || r.a_got != want_a || r.send_errors != 0 {
			cx.fails += 1;
			let short = |v: &Vec<Exp>| v.iter().map(|e| format!("{:?}", e).chars().take(40).collect::<String>()).collect::<Vec<_>>();
			cx.out.raw(&format!(
				"#ORACLE-FAIL C19 list messages at their maximum item count (PeerAddrs {}, locator {}, Headers {}) written by one peer were not read by the other as the identical sequence: version {}, messages {:?}: the receiver's handler saw {:?}; Pongs back {:?} of {}",
				max_pa, max_loc, max_hdr, ver, plan.iter().map(|p| p.name.clone()).collect::<Vec<_>>(), short(&r.b_got), r.a_got.len(), want_a.len()
			));
		}
		cx.out.line(&format!("codec duplex {} {}", ver, plan_text(&plan)), &format!("[{}]|[{}]", r.b_events.join(";"), r.a_events.join(";")));
	}
}
