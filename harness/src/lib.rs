//! Shared helpers for the correspondence harness binaries.
pub mod chainkit;
pub mod elem;
use std::io::Write;

/// xorshift64* PRNG: every random choice in a run derives from one state.
pub struct Rng(pub u64);
impl Rng {
	pub fn new(seed: u64) -> Rng {
		Rng(seed.wrapping_mul(0x9E3779B97F4A7C15) ^ 0xD1B54A32D192ED03 | 1)
	}
	pub fn next(&mut self) -> u64 {
		let mut x = self.0;
		x ^= x >> 12;
		x ^= x << 25;
		x ^= x >> 27;
		self.0 = x;
		x.wrapping_mul(0x2545F4914F6CDD1D)
	}
	pub fn below(&mut self, n: u64) -> u64 {
		if n == 0 {
			0
		} else {
			self.next() % n
		}
	}
	pub fn range(&mut self, lo: u64, hi: u64) -> u64 {
		lo + self.below(hi - lo + 1)
	}
	pub fn chance(&mut self, num: u64, den: u64) -> bool {
		self.below(den) < num
	}
	pub fn bytes(&mut self, n: usize) -> Vec<u8> {
		(0..n).map(|_| self.next() as u8).collect()
	}
	pub fn pick<'a, T>(&mut self, v: &'a [T]) -> &'a T {
		&v[self.below(v.len() as u64) as usize]
	}
}

pub fn hex(b: &[u8]) -> String {
	if b.is_empty() {
		return "-".to_string();
	}
	let mut s = String::with_capacity(b.len() * 2);
	for x in b {
		s.push_str(&format!("{:02x}", x));
	}
	s
}

pub fn hex_list<T: AsRef<[u8]>>(v: &[T]) -> String {
	let parts: Vec<String> = v.iter().map(|x| hex(x.as_ref())).collect();
	format!("[{}]", parts.join(","))
}

pub fn nat_list(v: &[u64]) -> String {
	let parts: Vec<String> = v.iter().map(|x| x.to_string()).collect();
	format!("[{}]", parts.join(","))
}

/// Output sink: one `op args => result` line per call.
pub struct Out {
	w: std::io::BufWriter<Box<dyn Write>>,
	pub lines: u64,
}
impl Out {
	pub fn stdout() -> Out {
		Out {
			w: std::io::BufWriter::new(Box::new(std::io::stdout())),
			lines: 0,
		}
	}
	pub fn line(&mut self, lhs: &str, rhs: &str) {
		writeln!(self.w, "{} => {}", lhs, rhs).unwrap();
		self.lines += 1;
	}
	pub fn raw(&mut self, s: &str) {
		writeln!(self.w, "{}", s).unwrap();
	}
	pub fn flush(&mut self) {
		self.w.flush().unwrap();
	}
}

pub fn seed_from_env() -> u64 {
	std::env::var("VERIF_SEED")
		.ok()
		.and_then(|s| s.parse::<u64>().ok())
		.unwrap_or(1)
}

pub fn tier_thorough() -> bool {
	std::env::var("VERIF_TIER").map(|t| t == "thorough").unwrap_or(false)
}

/// Run a closure, mapping a panic to Err(message).
pub fn catch<F: FnOnce() -> R + std::panic::UnwindSafe, R>(f: F) -> Result<R, String> {
	match std::panic::catch_unwind(f) {
		Ok(r) => Ok(r),
		Err(e) => {
			let msg = if let Some(s) = e.downcast_ref::<&str>() {
				s.to_string()
			} else if let Some(s) = e.downcast_ref::<String>() {
				s.clone()
			} else {
				"panic".to_string()
			};
			Err(msg)
		}
	}
}

pub fn quiet_panics() {
	std::panic::set_hook(Box::new(|_| {}));
}
