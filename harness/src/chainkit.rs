//! Builder of real fork trees (blocks with real transactions) on a real `Chain`, with the
//! abstract description (ids, values, features) that the Lean chain model consumes, and
//! subject chains to which the blocks are delivered.
use chrono::Duration;
use grin_chain::types::{NoopAdapter, Options};
use grin_chain::{Chain, Error};
use grin_core::core::hash::{Hash, Hashed};
use grin_core::core::{
	Block, BlockHeader, KernelFeatures, Output, OutputFeatures, Transaction, TxKernel,
};
use grin_core::global::{self, ChainTypes};
use grin_core::libtx::{self, build, reward, ProofBuilder};
use grin_core::pow::{self, Difficulty};
use grin_core::{consensus, genesis};
use grin_keychain::{ExtKeychain, ExtKeychainPath, Identifier, Keychain, SwitchCommitmentType};
use grin_util::secp::pedersen::Commitment;
use std::collections::HashMap;
use std::sync::Arc;

pub fn setup_globals() {
	// VERIF_CHAIN_TYPE=user selects the UserTesting parameters (cut-through horizon 70, larger than
	// the state sync threshold) for the runs that ask for them
	if std::env::var("VERIF_CHAIN_TYPE").map(|v| v == "user").unwrap_or(false) {
		global::set_local_chain_type(ChainTypes::UserTesting);
	} else {
		global::set_local_chain_type(ChainTypes::AutomatedTesting);
	}
	global::set_local_nrd_enabled(true);
	global::set_local_accept_fee_base(1);
}

#[derive(Clone, Debug)]
pub struct OutRec {
	pub id: usize,
	pub commit: Commitment,
	pub value: u64,
	pub key_id: Identifier,
	pub coinbase: bool,
}

#[derive(Clone, Debug)]
pub enum KSpec {
	Plain(u64),
	HeightLocked(u64, u64),
	/// NoRecentDuplicate kernel (fee, relative height, excess slot: kernels built with the same
	/// slot share the same excess commitment)
	Nrd(u64, u64, usize),
	/// a PLAIN kernel (fee) whose excess is the fixed excess of an NRD slot
	PlainSlot(u64, usize),
}

#[derive(Clone, Debug)]
pub struct TxSpec {
	pub inputs: Vec<usize>,
	/// (value, Some(out id) to re-create that commitment with the same key)
	pub outputs: Vec<(u64, Option<usize>)>,
	pub kernel: KSpec,
}

#[derive(Clone)]
pub struct BlkRec {
	pub id: usize,
	pub block: Block,
	pub parent: Option<usize>,
	pub height: u64,
	pub work: u64,
	pub tags: Vec<String>,
	/// processed successfully by the builder chain (fully valid in its context)
	pub valid: bool,
}

pub struct Kit {
	pub kc: ExtKeychain,
	pub dir: String,
	pub builder: Option<Chain>,
	pub genesis: Block,
	pub outs: Vec<OutRec>,
	pub by_commit: HashMap<Commitment, usize>,
	pub blks: Vec<BlkRec>,
	pub by_hash: HashMap<Hash, usize>,
	next_key: u32,
	/// the next assembled block gets its inputs as bare commitments before its roots are computed
	pub wire_next: bool,
}

pub fn init_chain(dir: &str, genesis: Block) -> Result<Chain, Error> {
	Chain::init(
		dir.to_string(),
		Arc::new(NoopAdapter {}),
		genesis,
		pow::verify_size,
		false,
		None,
	)
}

pub fn error_class(e: &Error) -> String {
	match e {
		Error::InvalidBlockProof { source } => {
			let s = format!("{:?}", source);
			let inner: String = s
				.chars()
				.take_while(|c| c.is_alphanumeric() || *c == '(')
				.collect();
			// keep one level of nesting for Transaction(..)/Committed(..)
			let inner = inner.trim_end_matches('(').to_string();
			if s.starts_with("Transaction(") || s.starts_with("Committed(") {
				let rest = &s[s.find('(').unwrap() + 1..];
				let sub: String = rest.chars().take_while(|c| c.is_alphanumeric()).collect();
				format!("Block:{}:{}", inner.split('(').next().unwrap(), sub)
			} else {
				format!("Block:{}", inner.split('(').next().unwrap())
			}
		}
		_ => {
			let s = format!("{:?}", e);
			s.chars().take_while(|c| c.is_alphanumeric()).collect()
		}
	}
}

impl Kit {
	pub fn new(dir: &str) -> Kit {
		setup_globals();
		let kc = ExtKeychain::from_seed(&[7u8; 32], false).unwrap();
		let key_id = ExtKeychainPath::new(1, 0, 0, 0, 0).to_identifier();
		let rw = reward::output(&kc, &ProofBuilder::new(&kc), &key_id, 0, false).unwrap();
		let mut genesis = genesis::genesis_dev().with_reward(rw.0, rw.1);
		// a well-formed genesis header: its MMR sizes cover its own output and kernel
		// (the test helper's genesis leaves them 0, which makes a restart at height 0 truncate
		// the genesis output away; mainnet's genesis has the real sizes)
		genesis.header.output_mmr_size = 1;
		genesis.header.kernel_mmr_size = 1;
		let _ = std::fs::remove_dir_all(dir);
		let builder = init_chain(dir, genesis.clone()).unwrap();
		let mut kit = Kit {
			kc,
			dir: dir.to_string(),
			builder: Some(builder),
			genesis: genesis.clone(),
			outs: vec![],
			by_commit: HashMap::new(),
			blks: vec![],
			by_hash: HashMap::new(),
			next_key: 1,
			wire_next: false,
		};
		// genesis coinbase output
		let value = consensus::reward(0);
		kit.register_out(genesis.outputs()[0].commitment(), value, key_id, true);
		kit.by_hash.insert(genesis.hash(), 0);
		kit.blks.push(BlkRec {
			id: 0,
			block: genesis,
			parent: None,
			height: 0,
			work: 0,
			tags: vec![],
			valid: true,
		});
		let w = kit.blks[0].block.header.total_difficulty().to_num();
		kit.blks[0].work = w;
		kit
	}

	pub fn builder(&self) -> &Chain {
		self.builder.as_ref().unwrap()
	}

	pub fn register_out(&mut self, commit: Commitment, value: u64, key_id: Identifier, coinbase: bool) -> usize {
		if let Some(id) = self.by_commit.get(&commit) {
			return *id;
		}
		let id = self.outs.len();
		self.outs.push(OutRec {
			id,
			commit,
			value,
			key_id,
			coinbase,
		});
		self.by_commit.insert(commit, id);
		id
	}

	pub fn fresh_key(&mut self) -> Identifier {
		let k = self.next_key;
		self.next_key += 1;
		ExtKeychainPath::new(2, k, 0, 0, 0).to_identifier()
	}

	/// Build a real transaction from a spec. Registers the new outputs.
	pub fn build_tx(&mut self, spec: &TxSpec) -> Result<Transaction, String> {
		let ins: Vec<(u64, Identifier, bool)> = spec
			.inputs
			.iter()
			.map(|i| {
				let o = &self.outs[*i];
				(o.value, o.key_id.clone(), o.coinbase)
			})
			.collect();
		let mut new_outs = vec![];
		for (v, reuse) in &spec.outputs {
			let key = match reuse {
				Some(oid) => self.outs[*oid].key_id.clone(),
				None => self.fresh_key(),
			};
			new_outs.push((*v, key));
		}
		let tx = match spec.kernel {
			KSpec::Plain(fee) => make_tx(&self.kc, &ins, &new_outs, KernelFeatures::Plain { fee: (fee as u32).into() })?,
			KSpec::HeightLocked(fee, lock) => make_tx(
				&self.kc,
				&ins,
				&new_outs,
				KernelFeatures::HeightLocked {
					fee: (fee as u32).into(),
					lock_height: lock,
				},
			)?,
			KSpec::Nrd(fee, rel, slot) => make_nrd_tx(&self.kc, &ins, &new_outs, fee, rel, slot)?,
			KSpec::PlainSlot(fee, slot) => make_slot_tx(&self.kc, &ins, &new_outs, KernelFeatures::Plain { fee: (fee as u32).into() }, slot)?,
		};
		for (v, key) in new_outs {
			let commit = self
				.kc
				.commit(v, &key, SwitchCommitmentType::Regular)
				.map_err(|e| format!("{:?}", e))?;
			self.register_out(commit, v, key, false);
		}
		Ok(tx)
	}

	/// Assemble (but do not process) a block on `parent` with the given txs; roots are set by
	/// the builder chain when the block applies cleanly there.
	pub fn assemble(
		&mut self,
		parent: usize,
		diff: u64,
		txs: &[Transaction],
		fee_claim_delta: i64,
	) -> Result<Block, String> {
		self.assemble_with_key(parent, diff, txs, fee_claim_delta, None)
	}

	/// as `assemble`, optionally paying the reward to a given (already used) key
	pub fn assemble_with_key(
		&mut self,
		parent: usize,
		diff: u64,
		txs: &[Transaction],
		fee_claim_delta: i64,
		cb_key: Option<Identifier>,
	) -> Result<Block, String> {
		self.assemble_full(parent, diff, txs, fee_claim_delta, cb_key, false)
	}
	/// `plain_reward`: the reward output and its kernel carry plain features (the kernel signed
	/// as a plain kernel of fee 0), so the block claims the subsidy with no coinbase item in it
	pub fn assemble_full(
		&mut self,
		parent: usize,
		diff: u64,
		txs: &[Transaction],
		fee_claim_delta: i64,
		cb_key: Option<Identifier>,
		plain_reward: bool,
	) -> Result<Block, String> {
		let prev = self.blks[parent].block.header.clone();
		let key_id = match cb_key {
			Some(k) => k,
			None => self.fresh_key(),
		};
		let fees: u64 = txs.iter().map(|tx| tx.fee()).sum();
		let claimed = (fees as i64 + fee_claim_delta) as u64;
		let rw = reward::output(&self.kc, &ProofBuilder::new(&self.kc), &key_id, claimed, false)
			.map_err(|e| format!("{:?}", e))?;
		let rw = if plain_reward { self.plain_reward(rw, &key_id, consensus::reward(claimed))? } else { rw };
		let cb_commit = rw.0.commitment();
		let mut b = Block::new(&prev, txs, Difficulty::from_num(diff), rw).map_err(|e| format!("{:?}", e))?;
		b.header.timestamp = prev.timestamp + Duration::seconds(60);
		b.header.pow.total_difficulty = prev.total_difficulty() + Difficulty::from_num(diff);
		self.register_out(cb_commit, consensus::reward(claimed), key_id, !plain_reward);
		if self.wire_next {
			self.wire_next = false;
			b = wire_form(&b);
		}
		if let Err(e) = self.builder().set_txhashset_roots(&mut b) {
			if std::env::var("VERIF_DEBUG").is_ok() {
				eprintln!("set_txhashset_roots: {:?}", e);
			}
			// the block does not apply on its parent (that is the point of some invalid
			// variants): give it the MMR sizes it would have so it passes the header stage
			use grin_core::core::pmmr::{insertion_to_pmmr_index, n_leaves};
			b.header.output_mmr_size =
				insertion_to_pmmr_index(n_leaves(prev.output_mmr_size) + b.outputs().len() as u64);
			b.header.kernel_mmr_size =
				insertion_to_pmmr_index(n_leaves(prev.kernel_mmr_size) + b.kernels().len() as u64);
			let _ = self.builder().set_prev_root_only(&mut b.header);
		}
		Ok(b)
	}

	/// A block on an arbitrary previous header, neither processed nor given roots by the node that
	/// builds the trees: for states assembled directly inside a txhashset extension (the way a
	/// state archive or PIBD delivers them, with no block validation on the way). The reward
	/// claims the fees of `txs`; the coinbase output is registered.
	pub fn raw_block(&mut self, prev: &BlockHeader, txs: &[Transaction]) -> Result<Block, String> {
		let key_id = self.fresh_key();
		let fees: u64 = txs.iter().map(|tx| tx.fee()).sum();
		let rw = reward::output(&self.kc, &ProofBuilder::new(&self.kc), &key_id, fees, false).map_err(|e| format!("{:?}", e))?;
		let cb_commit = rw.0.commitment();
		let mut b = Block::new(prev, txs, Difficulty::from_num(1), rw).map_err(|e| format!("{:?}", e))?;
		b.header.timestamp = prev.timestamp + Duration::seconds(60);
		self.register_out(cb_commit, consensus::reward(fees), key_id, true);
		Ok(b)
	}

	/// Record a block (valid or not) so it gets an id and an abstract description.
	fn plain_reward(&self, rw: (Output, TxKernel), key_id: &Identifier, value: u64) -> Result<(Output, TxKernel), String> {
		let (mut out, mut ker) = rw;
		// the range proof does not cover the features, the kernel signature does
		out.identifier.features = OutputFeatures::Plain;
		ker.features = KernelFeatures::Plain { fee: grin_core::core::FeeFields::zero() };
		let secp = grin_util::static_secp_instance();
		let secp = secp.lock();
		let pubkey = ker.excess.to_pubkey(&secp).map_err(|e| format!("{:?}", e))?;
		let msg = ker.features.kernel_sig_msg().map_err(|e| format!("{:?}", e))?;
		ker.excess_sig = libtx::aggsig::sign_from_key_id(&secp, &self.kc, &msg, value, key_id, None, Some(&pubkey))
			.map_err(|e| format!("{:?}", e))?;
		Ok((out, ker))
	}
	pub fn record(&mut self, b: Block, parent: usize, tags: Vec<String>, valid: bool) -> usize {
		let id = self.blks.len();
		self.by_hash.insert(b.hash(), id);
		self.blks.push(BlkRec {
			id,
			height: b.header.height,
			work: b.header.total_difficulty().to_num(),
			block: b,
			parent: Some(parent),
			tags,
			valid,
		});
		id
	}

	/// Build a valid block on `parent` from tx specs and process it on the builder chain.
	pub fn new_block(&mut self, parent: usize, diff: u64, specs: &[TxSpec]) -> Result<usize, String> {
		let mut txs = vec![];
		for s in specs {
			txs.push(self.build_tx(s)?);
		}
		let b = self.assemble(parent, diff, &txs, 0)?;
		match self.builder().process_block(b.clone(), Options::SKIP_POW) {
			Ok(_) => Ok(self.record(b, parent, vec![], true)),
			Err(e) => Err(format!("builder rejected: {}", error_class(&e))),
		}
	}

	fn ker_desc(k: &TxKernel) -> String {
		match k.features {
			KernelFeatures::Coinbase => "cb".to_string(),
			KernelFeatures::Plain { fee } => format!("p:{}", fee.fee()),
			KernelFeatures::HeightLocked { fee, lock_height } => format!("hl:{}:{}", fee.fee(), lock_height),
			KernelFeatures::NoRecentDuplicate { fee, relative_height } => {
				format!("nrd:{}:{}:{}", fee.fee(), u64::from(relative_height), crate::hex(&k.excess.0[..8]))
			}
		}
	}

	/// `chain out` lines for outputs not yet described; returns lines.
	pub fn out_lines(&self, from: usize) -> Vec<String> {
		self.outs[from..]
			.iter()
			.map(|o| format!("chain out o{} cb={} v={}", o.id, if o.coinbase { 1 } else { 0 }, o.value))
			.collect()
	}

	/// abstract description of a block, derived from the block's actual contents
	pub fn blk_line(&self, id: usize) -> String {
		let r = &self.blks[id];
		let b = &r.block;
		let ins: Vec<String> = {
			let v: Vec<grin_core::core::CommitWrapper> = b.inputs().into();
			v.iter()
				.map(|i| match self.by_commit.get(&i.commitment()) {
					Some(id) => format!("o{}", id),
					None => "o?".to_string(),
				})
				.collect()
		};
		let outs: Vec<String> = b
			.outputs()
			.iter()
			.map(|o| {
				let oid = self.by_commit.get(&o.commitment()).map(|i| format!("o{}", i)).unwrap_or("o?".to_string());
				format!("{}:{}", oid, if o.features() == OutputFeatures::Coinbase { "cb" } else { "pl" })
			})
			.collect();
		let kers: Vec<String> = b.kernels().iter().map(Self::ker_desc).collect();
		// inputs in features-and-commit form: what each input CLAIMS about the output it spends
		let inf = self.claims_desc(&b.body.inputs);
		format!(
			"chain blk b{} parent={} h={} work={} ver={} ts={} ins=[{}] outs=[{}] kers=[{}]{} osz={} ksz={} tags=[{}]",
			id,
			r.parent.map(|p| format!("b{}", p)).unwrap_or("-".to_string()),
			b.header.height,
			b.header.total_difficulty().to_num(),
			b.header.version.0,
			b.header.timestamp.timestamp(),
			ins.join(","),
			outs.join(","),
			kers.join(","),
			inf,
			// what the header CLAIMS as leaf counts of the output / kernel MMR after the block
			grin_core::core::pmmr::n_leaves(b.header.output_mmr_size),
			grin_core::core::pmmr::n_leaves(b.header.kernel_mmr_size),
			r.tags.join(",")
		)
	}

	/// (output PMMR root, bitmap root) of the state after `b` on its own parent, as the building
	/// node computes them (`Chain::set_txhashset_roots` stops at the merged root)
	pub fn output_roots_after(&self, b: &Block) -> Option<(Hash, Hash)> {
		use grin_chain::{pipe, txhashset};
		let chain = self.builder();
		let hp = chain.header_pmmr();
		let ts = chain.txhashset();
		let mut header_pmmr = hp.write();
		let mut txhashset = ts.write();
		txhashset::extending_readonly(&mut header_pmmr, &mut txhashset, |ext, batch| {
			let prev = batch.get_previous_header(&b.header)?;
			pipe::rewind_and_apply_fork(&prev, ext, batch, &|_| Ok(()))?;
			let extension = &mut ext.extension;
			let header_extension = &mut ext.header_extension;
			extension.apply_block(b, header_extension, batch)?;
			let r = extension.roots()?;
			Ok((r.output_roots.pmmr_root, r.output_roots.bitmap_root))
		})
		.ok()
	}

	/// the header's output root as a block producer writes it for the output MMR size the header
	/// CLAIMS: from version 3 on `H(size | pmmr_root | bitmap_root)`, before that the PMMR root
	pub fn set_output_root_for_claimed_size(&self, b: &mut Block) -> bool {
		use grin_core::ser::PMMRIndexHashable;
		match self.output_roots_after(b) {
			Some((p, bm)) => {
				b.header.output_root = if b.header.version < grin_core::core::HeaderVersion(3) { p } else { (p, bm).hash_with_index(b.header.output_mmr_size) };
				true
			}
			None => false,
		}
	}

	pub fn bid(&self, h: &Hash) -> String {
		match self.by_hash.get(h) {
			Some(i) => format!("b{}", i),
			None => "b?".to_string(),
		}
	}
}

/// A chain under test, fed with blocks/headers built by the kit.
pub struct Subject {
	pub dir: String,
	pub chain: Option<Chain>,
	pub genesis: Block,
}

impl Subject {
	pub fn new(dir: &str, genesis: &Block) -> Subject {
		let _ = std::fs::remove_dir_all(dir);
		let chain = init_chain(dir, genesis.clone()).unwrap();
		Subject {
			dir: dir.to_string(),
			chain: Some(chain),
			genesis: genesis.clone(),
		}
	}
	pub fn c(&self) -> &Chain {
		self.chain.as_ref().unwrap()
	}
	pub fn deliver_block(&self, b: &Block) -> String {
		match self.c().process_block(b.clone(), Options::SKIP_POW) {
			Ok(Some(_)) => "ok:head".to_string(),
			Ok(None) => "ok:fork".to_string(),
			Err(e) => format!("err:{}", error_class(&e)),
		}
	}
	/// the block as protocol version 2 / JSON carries it: every input with the (right) features of its output
	pub fn deliver_block_features(&self, kit: &Kit, b: &Block) -> String {
		match kit.features_form(b, None) {
			Some(w) => self.deliver_block(&w),
			None => self.deliver_block(b),
		}
	}
	/// the block as a peer speaking the current protocol version sends it: inputs as bare commitments
	pub fn deliver_block_wire(&self, b: &Block) -> String {
		self.deliver_block(&wire_form(b))
	}
	pub fn deliver_header(&self, h: &BlockHeader) -> String {
		match self.c().process_block_header(h, Options::SKIP_POW) {
			Ok(_) => "ok".to_string(),
			Err(e) => format!("err:{}", error_class(&e)),
		}
	}
	pub fn sync_headers(&self, hs: &[BlockHeader]) -> String {
		let sync_head = self.c().header_head().unwrap();
		match self.c().sync_block_headers(hs, sync_head, Options::SKIP_POW) {
			Ok(_) => "ok".to_string(),
			Err(e) => format!("err:{}", error_class(&e)),
		}
	}
	/// Close and reopen the chain (restart).
	pub fn reopen(&mut self) -> Result<(), String> {
		self.chain = None;
		match init_chain(&self.dir, self.genesis.clone()) {
			Ok(c) => {
				self.chain = Some(c);
				Ok(())
			}
			Err(e) => Err(error_class(&e)),
		}
	}
	pub fn head_str(&self, kit: &Kit) -> String {
		let h = self.c().head().unwrap();
		let hh = self.c().header_head().unwrap();
		format!("head={} hhead={}", kit.bid(&h.last_block_h), kit.bid(&hh.last_block_h))
	}
	/// sorted list of out ids the chain reports as unspent
	pub fn utxo(&self, kit: &Kit) -> Vec<usize> {
		let mut v = vec![];
		for o in &kit.outs {
			if let Ok(Some(_)) = self.c().get_unspent(o.commit) {
				v.push(o.id);
			}
		}
		v
	}
	pub fn obs(&self, kit: &Kit) -> String {
		let u: Vec<String> = self.utxo(kit).iter().map(|i| format!("o{}", i)).collect();
		format!("{} utxo=[{}]", self.head_str(kit), u.join(","))
	}
	/// roots digest of the current txhashset (hex of output/rproof/kernel roots + sizes)
	pub fn roots(&self) -> String {
		let ts = self.c().txhashset();
		let ts = ts.read();
		let r = ts.roots().unwrap();
		format!(
			"{}:{}:{}:{}",
			crate::hex(&r.output_roots.pmmr_root.as_bytes()[..8]),
			crate::hex(&r.output_roots.bitmap_root.as_bytes()[..8]),
			crate::hex(&r.rproof_root.as_bytes()[..8]),
			crate::hex(&r.kernel_root.as_bytes()[..8])
		)
	}
}

impl Subject {
	/// C01: the running sums stored for the head block against the sums recomputed from the full
	/// state (`Extension::validate_kernel_sums` over every unspent output and every kernel)
	pub fn sums_check(&self) -> Result<(), String> {
		use grin_chain::txhashset;
		let chain = self.c();
		let head = chain.head_header().map_err(|e| format!("head_header: {}", error_class(&e)))?;
		if head.height == 0 {
			return Ok(());
		}
		let stored = chain.get_block_sums(&head.hash()).map_err(|e| format!("no stored sums for the head: {}", error_class(&e)))?;
		let genesis = chain.genesis();
		let hp = chain.header_pmmr();
		let ts = chain.txhashset();
		let mut header_pmmr = hp.write();
		let mut txhashset = ts.write();
		let (u, k) = txhashset::extending_readonly(&mut header_pmmr, &mut txhashset, |ext, _batch| ext.extension.validate_kernel_sums(&genesis, &head))
			.map_err(|e| format!("recomputing the sums from the full state failed: {:?}", e))?;
		if stored.utxo_sum != u || stored.kernel_sum != k {
			return Err(format!(
				"stored sums differ from the recomputed ones at height {}: utxo_sum equal={} kernel_sum equal={}",
				head.height,
				stored.utxo_sum == u,
				stored.kernel_sum == k
			));
		}
		Ok(())
	}

	/// the unspent output `o` read back from the txhashset files (identifier and range proof) must be
	/// the output the block carried
	pub fn readback(&self, kit: &Kit, oid: usize, created: &Output) -> Result<(), String> {
		let c = kit.outs[oid].commit;
		match self.c().get_unspent(c) {
			Ok(Some((_, cp))) => match self.c().get_unspent_output_at(cp.pos - 1) {
				Ok(o) => {
					if o.commitment() != created.commitment() || o.features() != created.features() {
						Err(format!("o{}: another output is read back at its position {}", oid, cp.pos))
					} else if o.proof() != created.proof() {
						Err(format!("o{}: its range proof read back from the data file differs", oid))
					} else {
						Ok(())
					}
				}
				Err(e) => Err(format!("o{}: data not readable at position {}: {}", oid, cp.pos, error_class(&e))),
			},
			Ok(None) => Err(format!("o{}: not reported unspent", oid)),
			Err(e) => Err(format!("o{}: get_unspent: {}", oid, error_class(&e))),
		}
	}

	/// every file under the txhashset directory with its content
	pub fn txhashset_files(&self) -> std::collections::BTreeMap<String, Vec<u8>> {
		fn walk(dir: &std::path::Path, base: &std::path::Path, m: &mut std::collections::BTreeMap<String, Vec<u8>>) {
			if let Ok(rd) = std::fs::read_dir(dir) {
				for e in rd.flatten() {
					let p = e.path();
					if p.is_dir() {
						walk(&p, base, m);
					} else {
						let name = p.strip_prefix(base).map(|x| x.to_string_lossy().to_string()).unwrap_or_default();
						m.insert(name, std::fs::read(&p).unwrap_or_default());
					}
				}
			}
		}
		let base = std::path::Path::new(&self.dir).join("txhashset");
		let mut m = std::collections::BTreeMap::new();
		walk(&base, &base, &mut m);
		m
	}

	/// what the database shows of the best chain: head, body tail, for every output ever built its
	/// indexed position, for every block of `best` its stored sums, spent index and input bitmap
	pub fn db_view(&self, kit: &Kit, best: &[usize]) -> Vec<String> {
		let chain = self.c();
		let mut v = vec![];
		v.push(format!("head={:?}", chain.head().map(|t| (t.height, t.last_block_h)).ok()));
		v.push(format!("tail={:?}", chain.tail().map(|t| (t.height, t.last_block_h)).ok()));
		for o in &kit.outs {
			let pos = chain.store().get_output_pos_height(&o.commit).ok().flatten().map(|cp| (cp.pos, cp.height));
			v.push(format!("pos o{}={:?}", o.id, pos));
		}
		let store = chain.store();
		if let Ok(batch) = store.batch() {
			for b in best {
				let h = kit.blks[*b].block.hash();
				let sums = chain.get_block_sums(&h).ok().map(|s| (s.utxo_sum, s.kernel_sum));
				let spent = batch.get_spent_index(&h).ok().map(|l| l.iter().map(|cp| (cp.pos, cp.height)).collect::<Vec<_>>());
				let bm = batch.get_block_input_bitmap(&h).ok().map(|b| b.to_vec());
				v.push(format!("blk b{} sums={:?} spent={:?} inputs={:?}", b, sums, spent, bm));
			}
		}
		v
	}
}

/// first difference between two snapshots of the txhashset files: (file, description)
pub fn files_diff(a: &std::collections::BTreeMap<String, Vec<u8>>, b: &std::collections::BTreeMap<String, Vec<u8>>) -> Option<String> {
	for (name, x) in a {
		match b.get(name) {
			None => return Some(format!("{} disappeared", name)),
			Some(y) => {
				if x != y {
					let off = x.iter().zip(y.iter()).position(|(p, q)| p != q).unwrap_or(x.len().min(y.len()));
					return Some(format!("{} changed (length {} -> {}, first difference at byte {})", name, x.len(), y.len(), off));
				}
			}
		}
	}
	for name in b.keys() {
		if !a.contains_key(name) {
			return Some(format!("{} appeared", name));
		}
	}
	None
}

impl Kit {
	/// the block with its inputs in the features-and-commit form (protocol version 2, JSON): every
	/// input claims the features its output was created with, except - `lie` - the input naming that
	/// commitment (`Some(None)`: the first input), which claims the opposite (Plain <-> Coinbase).
	/// Inputs stay sorted; the block hash (header only) does not change. None when there is
	/// nothing to lie about.
	pub fn features_form(&self, b: &Block, lie: Option<Option<Commitment>>) -> Option<Block> {
		let v = self.inputs_features_form(&b.inputs(), lie)?;
		let mut w = b.clone();
		w.body.inputs = v;
		Some(w)
	}

	/// the same for a transaction
	pub fn tx_features_form(&self, tx: &Transaction, lie: Option<Option<Commitment>>) -> Option<Transaction> {
		let v = self.inputs_features_form(&tx.inputs(), lie)?;
		let mut w = tx.clone();
		w.body.inputs = v;
		Some(w)
	}

	pub fn inputs_features_form(&self, inputs: &grin_core::core::Inputs, lie: Option<Option<Commitment>>) -> Option<grin_core::core::Inputs> {
		use grin_core::core::{CommitWrapper, Input, Inputs};
		let commits: Vec<CommitWrapper> = inputs.into();
		let mut v: Vec<Input> = vec![];
		let mut lied = false;
		for c in commits {
			let c = c.commitment();
			let cb = self.by_commit.get(&c).map(|i| self.outs[*i].coinbase).unwrap_or(false);
			let mut f = if cb { OutputFeatures::Coinbase } else { OutputFeatures::Plain };
			if let Some(which) = lie {
				if which.map(|w| w == c).unwrap_or(!lied) {
					f = if cb { OutputFeatures::Plain } else { OutputFeatures::Coinbase };
					lied = true;
				}
			}
			v.push(Input::new(f, c));
		}
		if lie.is_some() && !lied {
			return None;
		}
		v.sort_unstable();
		Some(Inputs::FeaturesAndCommit(v))
	}

	/// ` inf=[o3:pl,o7:cb]` for inputs in features-and-commit form (what each input claims), else ""
	pub fn claims_desc(&self, inputs: &grin_core::core::Inputs) -> String {
		match inputs {
			grin_core::core::Inputs::FeaturesAndCommit(v) if !v.is_empty() => {
				let l: Vec<String> = v
					.iter()
					.map(|i| {
						let oid = self.by_commit.get(&i.commit).map(|x| format!("o{}", x)).unwrap_or("o?".to_string());
						format!("{}:{}", oid, if i.features == OutputFeatures::Coinbase { "cb" } else { "pl" })
					})
					.collect();
				format!(" inf=[{}]", l.join(","))
			}
			_ => String::new(),
		}
	}
}

/// inputs in the commit-only representation (protocol version 3 on the wire); same block hash
pub fn wire_form(b: &Block) -> Block {
	let mut w = b.clone();
	let commits: Vec<grin_core::core::CommitWrapper> = b.inputs().into();
	w.body.inputs = grin_core::core::Inputs::CommitOnly(commits);
	w
}

pub fn make_tx(
	kc: &ExtKeychain,
	ins: &[(u64, Identifier, bool)],
	outs: &[(u64, Identifier)],
	features: KernelFeatures,
) -> Result<Transaction, String> {
	let mut parts = vec![];
	for (v, k, cb) in ins {
		if *cb {
			parts.push(build::coinbase_input(*v, k.clone()));
		} else {
			parts.push(build::input(*v, k.clone()));
		}
	}
	for (v, k) in outs {
		parts.push(build::output(*v, k.clone()));
	}
	build::transaction(features, &parts, kc, &ProofBuilder::new(kc)).map_err(|e| format!("{:?}", e))
}

/// the fixed excess blinding factor of an NRD slot
pub fn nrd_excess(kc: &ExtKeychain, slot: usize) -> grin_keychain::BlindingFactor {
	let mut b = [0u8; 32];
	b[31] = 7 + slot as u8;
	b[0] = 0x11;
	let _ = kc;
	grin_keychain::BlindingFactor::from_slice(&b)
}

/// excess commitment (first 8 bytes hex, as printed in kernel descriptions) of an NRD slot
pub fn nrd_excess_tag(kc: &ExtKeychain, slot: usize) -> String {
	let ex = nrd_excess(kc, slot);
	let skey = ex.secret_key(kc.secp()).unwrap();
	let c = kc.secp().commit(0, skey).unwrap();
	crate::hex(&c.0[..8])
}

pub fn make_nrd_tx(
	kc: &ExtKeychain,
	ins: &[(u64, Identifier, bool)],
	outs: &[(u64, Identifier)],
	fee: u64,
	rel: u64,
	slot: usize,
) -> Result<Transaction, String> {
	use grin_core::core::NRDRelativeHeight;
	make_slot_tx(
		kc,
		ins,
		outs,
		KernelFeatures::NoRecentDuplicate {
			fee: (fee as u32).into(),
			relative_height: NRDRelativeHeight::new(rel).map_err(|e| format!("{:?}", e))?,
		},
		slot,
	)
}

/// a transaction whose single kernel has the given features and the fixed excess of `slot`
pub fn make_slot_tx(
	kc: &ExtKeychain,
	ins: &[(u64, Identifier, bool)],
	outs: &[(u64, Identifier)],
	features: KernelFeatures,
	slot: usize,
) -> Result<Transaction, String> {
	use grin_core::libtx::aggsig;
	let mut kernel = TxKernel::with_features(features);
	let msg = kernel.msg_to_sign().map_err(|e| format!("{:?}", e))?;
	let excess = nrd_excess(kc, slot);
	let skey = excess.secret_key(kc.secp()).map_err(|e| format!("{:?}", e))?;
	kernel.excess = kc.secp().commit(0, skey).map_err(|e| format!("{:?}", e))?;
	let pubkey = kernel.excess.to_pubkey(kc.secp()).map_err(|e| format!("{:?}", e))?;
	kernel.excess_sig =
		aggsig::sign_with_blinding(kc.secp(), &msg, &excess, Some(&pubkey)).map_err(|e| format!("{:?}", e))?;
	let mut parts = vec![];
	for (v, k, cb) in ins {
		if *cb {
			parts.push(build::coinbase_input(*v, k.clone()));
		} else {
			parts.push(build::input(*v, k.clone()));
		}
	}
	for (v, k) in outs {
		parts.push(build::output(*v, k.clone()));
	}
	build::transaction_with_kernel(&parts, kernel, excess, kc, &ProofBuilder::new(kc)).map_err(|e| format!("{:?}", e))
}

pub fn corrupt_output_swap_proofs(b: &mut Block) -> bool {
	let _ = b;
	false
}

#[allow(dead_code)]
fn _unused(_: Output, _: libtx::Error) {}
