//! C07 correspondence: position arithmetic, PMMR over VecBackend, Merkle proofs.
use grin_core::core::hash::Hash;
use grin_core::core::merkle_proof::MerkleProof;
use grin_core::core::pmmr::{self, ReadablePMMR, ReadonlyPMMR, RewindablePMMR, VecBackend, PMMR};
use gvharness::elem::Elem;
use gvharness::*;

fn pairs(v: &[(u64, u64)]) -> String {
	let parts: Vec<String> = v.iter().map(|(a, b)| format!("{}:{}", a, b)).collect();
	format!("[{}]", parts.join(","))
}

fn arith_pos(out: &mut Out, p: u64) {
	macro_rules! op {
		($name:expr, $f:expr) => {
			match catch(|| $f) {
				Ok(s) => out.line(&format!("pmmr {} {}", $name, p), &s),
				Err(_) => out.line(&format!("pmmr {} {}", $name, p), "panic"),
			}
		};
	}
	op!("pmh", {
		let r = pmmr::peak_map_height(p);
		format!("{} {}", r.0, r.1)
	});
	op!("height", pmmr::bintree_postorder_height(p).to_string());
	op!("pos2ins", match pmmr::pmmr_leaf_to_insertion_index(p) {
		Some(n) => n.to_string(),
		None => "none".to_string(),
	});
	op!("nleaves", pmmr::n_leaves(p).to_string());
	op!("peaks", nat_list(&pmmr::peaks(p)));
	if p < (1u64 << 62) {
		op!("roundup", pmmr::round_up_to_leaf_pos(p).to_string());
		op!("ins2pos", pmmr::insertion_to_pmmr_index(p).to_string());
		op!("family", {
			let r = pmmr::family(p);
			format!("{} {}", r.0, r.1)
		});
		op!("isleft", pmmr::is_left_sibling(p).to_string());
		op!("rightmost", pmmr::bintree_rightmost(p).to_string());
		op!("leftmost", pmmr::bintree_leftmost(p).to_string());
		op!("range", {
			let r = pmmr::bintree_range(p);
			format!("{} {}", r.start, r.end)
		});
		if pmmr::bintree_postorder_height(p) <= 10 {
			op!("leafiter", nat_list(&pmmr::bintree_leaf_pos_iter(p).collect::<Vec<_>>()));
		}
	}
}

fn arith(out: &mut Out, rng: &mut Rng, thorough: bool) {
	let lim: u64 = if thorough { 1 << 17 } else { 1 << 13 };
	for p in 0..lim {
		arith_pos(out, p);
	}
	for k in 13..=63u32 {
		let base = 1u64 << k;
		for d in 0..=4u64 {
			arith_pos(out, base - 2 + d);
		}
	}
	for d in 0..=8u64 {
		arith_pos(out, u64::MAX - d);
	}
	let nrand = if thorough { 20000 } else { 2000 };
	for _ in 0..nrand {
		let bits = rng.range(1, 62);
		let p = rng.next() >> (64 - bits);
		arith_pos(out, p);
	}
	// family_branch over (pos, size)
	let slim: u64 = if thorough { 400 } else { 120 };
	for size in 0..slim {
		for p in 0..size + 2 {
			out.line(
				&format!("pmmr branch {} {}", p, size),
				&pairs(&pmmr::family_branch(p, size)),
			);
		}
	}
	for _ in 0..nrand {
		let bits = rng.range(3, 40);
		let size = rng.next() >> (64 - bits);
		let p = rng.below(size + 1);
		out.line(
			&format!("pmmr branch {} {}", p, size),
			&pairs(&pmmr::family_branch(p, size)),
		);
	}
}

fn hashes(v: &[Hash]) -> String {
	let parts: Vec<String> = v.iter().map(|h| hex(h.as_bytes())).collect();
	format!("[{}]", parts.join(","))
}

fn root_str(r: Result<Hash, String>) -> String {
	match r {
		Ok(h) => {
			if h == grin_core::core::hash::ZERO_HASH {
				"zero".to_string()
			} else {
				hex(h.as_bytes())
			}
		}
		Err(_) => "err".to_string(),
	}
}

/// push sequences, roots, proofs for every leaf at selected sizes, proof verification and
/// every single-field corruption of a proof
fn mmr(out: &mut Out, rng: &mut Rng, thorough: bool) {
	let maxn: u64 = if thorough { 600 } else { 150 };
	let runs = if thorough { 3 } else { 1 };
	for _run in 0..runs {
		let mut ba = VecBackend::<Elem>::new();
		let mut size = 0u64;
		out.raw("pmmr new");
		let mut elems: Vec<Elem> = vec![];
		for n in 0..maxn {
			let elen = if rng.chance(1, 4) { rng.range(1, 40) as usize } else { 8 };
			let e = Elem(rng.bytes(elen));
			let mut p = PMMR::at(&mut ba, size);
			let res = p.push(&e);
			size = p.size;
			elems.push(e.clone());
			let rhs = match res {
				Ok(_) => format!("{} {}", size, root_str(p.root())),
				Err(_) => "err".to_string(),
			};
			out.line(&format!("pmmr push {}", hex(&e.0)), &rhs);
			let check_all = n < 40 || rng.chance(1, 12);
			if check_all {
				out.line("pmmr validate", &p.validate().is_ok().to_string());
				out.line("pmmr peakhashes", &hashes(&p.peaks()));
				let root = p.root().unwrap();
				// proof for every leaf (and some non-leaves / out of range)
				for i in 0..=n {
					let pos = pmmr::insertion_to_pmmr_index(i);
					if n >= 40 && !rng.chance(1, 6) {
						continue;
					}
					let proof = p.merkle_proof(pos);
					match &proof {
						Ok(pr) => out.line(
							&format!("pmmr proof {}", pos),
							&format!("{} {}", pr.mmr_size, hashes(&pr.path)),
						),
						Err(_) => out.line(&format!("pmmr proof {}", pos), "err"),
					}
					if let Ok(pr) = proof {
						let el = &elems[i as usize];
						let v = pr.verify(root, el, pos).is_ok();
						out.line(
							&format!(
								"pmmr verify {} {} {} {} {}",
								hex(root.as_bytes()),
								pr.mmr_size,
								hashes(&pr.path),
								hex(&el.0),
								pos
							),
							&v.to_string(),
						);
						if !v {
							out.raw(&format!("#ORACLE-FAIL C07 honest proof rejected size={} pos={}", size, pos));
						}
						corrupt(out, rng, &pr, root, el, pos, size, &elems);
					}
				}
				for pos in [1u64, 2, size, size + 1, size + 7] {
					let proof = p.merkle_proof(pos);
					match &proof {
						Ok(pr) => out.line(
							&format!("pmmr proof {}", pos),
							&format!("{} {}", pr.mmr_size, hashes(&pr.path)),
						),
						Err(_) => out.line(&format!("pmmr proof {}", pos), "err"),
					}
				}
			}
		}
	}
}

fn verify_line(out: &mut Out, pr: &MerkleProof, root: Hash, el: &Elem, pos: u64, must_reject: bool, what: &str) {
	let v = match catch(|| pr.verify(root, el, pos).is_ok()) {
		Ok(v) => v.to_string(),
		Err(_) => "panic".to_string(),
	};
	out.line(
		&format!(
			"pmmr verify {} {} {} {} {}",
			hex(root.as_bytes()),
			pr.mmr_size,
			hashes(&pr.path),
			hex(&el.0),
			pos
		),
		&v,
	);
	if must_reject && v != "false" {
		out.raw(&format!(
			"#ORACLE-FAIL C07 corrupted proof accepted ({}) size={} pos={}",
			what, pr.mmr_size, pos
		));
	}
}

fn corrupt(out: &mut Out, rng: &mut Rng, pr: &MerkleProof, root: Hash, el: &Elem, pos: u64, size: u64, elems: &[Elem]) {
	// other element
	let mut other = el.clone();
	let k = rng.below(other.0.len() as u64) as usize;
	other.0[k] ^= 1 << rng.below(8);
	verify_line(out, pr, root, &other, pos, true, "element");
	if elems.len() > 1 {
		let j = rng.below(elems.len() as u64) as usize;
		if &elems[j] != el {
			verify_line(out, pr, root, &elems[j], pos, true, "other-element");
		}
	}
	// other positions: every other leaf position for small sizes, else neighbours
	let n = pmmr::n_leaves(size);
	for i in 0..n.min(24) {
		let p2 = pmmr::insertion_to_pmmr_index(i);
		if p2 != pos {
			verify_line(out, pr, root, el, p2, true, "leaf-position");
		}
	}
	for p2 in [pos + 1, pos.wrapping_sub(1), size, size + 1, pos + 2] {
		if p2 != pos && p2 < (1 << 40) {
			// non-leaf / out of range positions: not claimed to reject, compared with model only
			let must = pmmr::is_leaf(p2) && p2 < size;
			verify_line(out, pr, root, el, p2, must, "position");
		}
	}
	// each path hash altered
	for i in 0..pr.path.len() {
		let mut p2 = pr.clone();
		let mut b = p2.path[i].to_vec();
		b[rng.below(32) as usize] ^= 1 << rng.below(8);
		p2.path[i] = Hash::from_vec(&b);
		verify_line(out, &p2, root, el, pos, true, "path-hash");
	}
	// path shortened / lengthened
	if !pr.path.is_empty() {
		let mut p2 = pr.clone();
		p2.path.remove(0);
		verify_line(out, &p2, root, el, pos, true, "drop-first");
		let mut p2 = pr.clone();
		p2.path.pop();
		verify_line(out, &p2, root, el, pos, true, "drop-last");
		let mut p2 = pr.clone();
		let f = p2.path[0];
		p2.path.insert(0, f);
		verify_line(out, &p2, root, el, pos, true, "dup-first");
		let mut p2 = pr.clone();
		let l = *p2.path.last().unwrap();
		p2.path.push(l);
		verify_line(out, &p2, root, el, pos, true, "dup-last");
	}
	let mut p2 = pr.clone();
	p2.path.push(root);
	verify_line(out, &p2, root, el, pos, true, "append-root");
	// advisory size field: compared with the model only
	for s2 in [size + 1, size.saturating_sub(1), 0, size * 2 + 1] {
		let mut p2 = pr.clone();
		p2.mmr_size = s2;
		verify_line(out, &p2, root, el, pos, false, "mmr-size");
	}
}

fn proof_line<P: ReadablePMMR>(out: &mut Out, p: &P, size: u64, pos: u64) -> Option<MerkleProof> {
	let proof = p.merkle_proof(pos);
	match &proof {
		Ok(pr) => out.line(&format!("pmmr vproof {} {}", size, pos), &format!("{} {}", pr.mmr_size, hashes(&pr.path))),
		Err(_) => out.line(&format!("pmmr vproof {} {}", size, pos), "err"),
	}
	proof.ok()
}

/// views at a size (`PMMR::at`, `ReadonlyPMMR::at`, `RewindablePMMR` moved back and forth) over a
/// backend, and the same views after leaves were pruned: root, peaks and the proofs of present
/// leaves must be those of the defining construction on the first k elements
fn views(out: &mut Out, rng: &mut Rng, thorough: bool) {
	let sizes: Vec<u64> = if thorough {
		(1..=40).chain([63, 64, 65, 100, 127, 128, 129, 255, 257]).collect()
	} else {
		(1..=20).chain([31, 32, 33, 65]).collect()
	};
	for &n in &sizes {
		let mut ba = VecBackend::<Elem>::new();
		let mut size = 0u64;
		out.raw("pmmr new");
		let mut elems: Vec<Elem> = vec![];
		let mut view_sizes = vec![0u64];
		for _ in 0..n {
			let e = Elem(rng.bytes(8));
			let mut p = PMMR::at(&mut ba, size);
			let res = p.push(&e);
			size = p.size;
			elems.push(e.clone());
			let rhs = match res {
				Ok(_) => format!("{} {}", size, root_str(p.root())),
				Err(_) => "err".to_string(),
			};
			out.line(&format!("pmmr push {}", hex(&e.0)), &rhs);
			view_sizes.push(size);
		}
		// read-only views at every earlier size
		for (k, &s) in view_sizes.iter().enumerate() {
			if n > 24 && !rng.chance(1, 5) && s != size {
				continue;
			}
			let v = ReadonlyPMMR::at(&ba, s);
			out.line(&format!("pmmr vroot {}", s), &root_str(v.root()));
			out.line(&format!("pmmr vpeaks {}", s), &hashes(&v.peaks()));
			let root = v.root().unwrap();
			for i in 0..(k as u64 + 1).min(n) {
				if k > 12 && !rng.chance(1, 4) {
					continue;
				}
				let pos = pmmr::insertion_to_pmmr_index(i);
				if let Some(pr) = proof_line(out, &v, s, pos) {
					let ok = pr.verify(root, &elems[i as usize], pos).is_ok();
					if !ok {
						out.raw(&format!("#ORACLE-FAIL C07 proof from a view at size {} for present leaf {} does not verify against the view's root", s, pos));
					}
				}
			}
		}
		// the mutable handle positioned at every earlier size (no rewind of the backend, which holds
		// more): the same root, peaks and proofs, and nothing at or beyond its size
		for (k, &s) in view_sizes.iter().enumerate() {
			if n > 24 && !rng.chance(1, 5) && s != size {
				continue;
			}
			let p = PMMR::at(&mut ba, s);
			out.line(&format!("pmmr vroot {}", s), &root_str(p.root()));
			out.line(&format!("pmmr vpeaks {}", s), &hashes(&p.peaks()));
			for i in 0..(k as u64 + 2).min(n) {
				if k > 12 && !rng.chance(1, 4) && i + 2 < k as u64 {
					continue;
				}
				let pos = pmmr::insertion_to_pmmr_index(i);
				let pr = proof_line(out, &p, s, pos);
				if i < k as u64 {
					let ok = match (&pr, p.root()) {
						(Some(pr), Ok(root)) => pr.verify(root, &elems[i as usize], pos).is_ok(),
						_ => false,
					};
					if !ok {
						out.raw(&format!("#ORACLE-FAIL C07 proof from a handle at size {} for present leaf {} does not verify against its root", s, pos));
					}
				} else if pr.is_some() || p.get_hash(pos).is_some() || p.get_data(pos).is_some() {
					out.raw(&format!("#ORACLE-FAIL C07 a handle at size {} serves position {} which is not part of that MMR (proof {}, hash {}, data {})", s, pos, pr.is_some(), p.get_hash(pos).is_some(), p.get_data(pos).is_some()));
				}
			}
			for pos in [s, s + 1, s + 2, size.saturating_sub(1), size, u64::MAX / 2] {
				if pos >= s && (p.get_hash(pos).is_some() || p.get_data(pos).is_some()) {
					out.raw(&format!("#ORACLE-FAIL C07 a handle at size {} returns a hash or an element for position {}", s, pos));
				}
			}
		}
		// a handle opened at an EARLIER size over the longer backend, rewound to a position at or
		// beyond its own size (the backend still holds more), then appended to: the result is the
		// construction over the elements kept plus the new ones
		if n >= 4 {
			let mut fb = VecBackend::<Elem>::new();
			let mut fsize = 0u64;
			out.raw("pmmr new");
			for e in &elems {
				let mut p = PMMR::at(&mut fb, fsize);
				let res = p.push(e);
				fsize = p.size;
				out.line(&format!("pmmr push {}", hex(&e.0)), &match res { Ok(_) => format!("{} {}", fsize, root_str(p.root())), Err(_) => "err".to_string() });
			}
			let open_leaves = rng.range(1, n - 2);
			let keep = rng.range(open_leaves, n - 1);
			let open_at = pmmr::insertion_to_pmmr_index(open_leaves);
			let mut target = pmmr::insertion_to_pmmr_index(keep);
			if rng.chance(1, 3) && target > open_at + 1 {
				target -= 1;
			}
			{
				let mut p = PMMR::at(&mut fb, open_at);
				let r = p.rewind(target, &croaring::Bitmap::new());
				fsize = p.size;
				out.line(&format!("pmmr prewind {}", target), &if r.is_ok() { fsize.to_string() } else { "err".into() });
			}
			let mut fel: Vec<Elem> = elems[..pmmr::n_leaves(fsize) as usize].to_vec();
			for _ in 0..3 {
				let e = Elem(rng.bytes(8));
				let mut p = PMMR::at(&mut fb, fsize);
				let res = p.push(&e);
				fsize = p.size;
				out.line(&format!("pmmr push {}", hex(&e.0)), &match res { Ok(_) => format!("{} {}", fsize, root_str(p.root())), Err(_) => "err".to_string() });
				fel.push(e);
			}
			let fp = PMMR::at(&mut fb, fsize);
			out.line(&format!("pmmr vroot {}", fsize), &root_str(fp.root()));
			out.line(&format!("pmmr vpeaks {}", fsize), &hashes(&fp.peaks()));
			if let Ok(root) = fp.root() {
				for (i, e) in fel.iter().enumerate() {
					let pos = pmmr::insertion_to_pmmr_index(i as u64);
					let ok = match proof_line(out, &fp, fsize, pos) {
						Some(pr) => pr.verify(root, e, pos).is_ok() && fp.get_data(pos).as_ref() == Some(e),
						None => false,
					};
					if !ok {
						out.raw(&format!("#ORACLE-FAIL C07 after a rewind to {} through a handle opened at size {} and three appends, leaf {} has no verifying proof or not its element", target, open_at, pos));
					}
				}
			}
			// back to the history of this size for the sections below (the driver follows the lines)
			let mut rb = VecBackend::<Elem>::new();
			let mut rsize = 0u64;
			out.raw("pmmr new");
			for e in &elems {
				let mut p = PMMR::at(&mut rb, rsize);
				let res = p.push(e);
				rsize = p.size;
				out.line(&format!("pmmr push {}", hex(&e.0)), &match res { Ok(_) => format!("{} {}", rsize, root_str(p.root())), Err(_) => "err".to_string() });
			}
		}
		// the same elements over a hash-only backend (no element data kept): size, root, peaks and
		// the proof of every leaf are those of the full backend
		{
			let mut hb = VecBackend::<Elem>::new_hash_only();
			let mut hsize = 0u64;
			for e in &elems {
				let mut p = PMMR::at(&mut hb, hsize);
				if p.push(e).is_err() {
					out.raw(&format!("#ORACLE-FAIL C07 push on a hash-only backend failed at size {}", hsize));
				}
				hsize = p.size;
			}
			let hp = PMMR::at(&mut hb, hsize);
			out.line(&format!("pmmr vroot {}", hsize), &root_str(hp.root()));
			out.line(&format!("pmmr vpeaks {}", hsize), &hashes(&hp.peaks()));
			if hsize != size {
				out.raw(&format!("#ORACLE-FAIL C07 hash-only backend has size {} where the full backend has {}", hsize, size));
			}
			if let Ok(root) = hp.root() {
				for i in 0..n {
					if n > 24 && !rng.chance(1, 4) {
						continue;
					}
					let pos = pmmr::insertion_to_pmmr_index(i);
					match proof_line(out, &hp, hsize, pos) {
						Some(pr) => {
							if pr.verify(root, &elems[i as usize], pos).is_err() {
								out.raw(&format!("#ORACLE-FAIL C07 proof from a hash-only backend for present leaf {} (size {}) does not verify", pos, hsize));
							}
						}
						None => out.raw(&format!("#ORACLE-FAIL C07 no proof from a hash-only backend for present leaf {} (size {})", pos, hsize)),
					}
				}
			}
		}
		// a hash-only backend through push / rewind / push: its own history for the model
		if n >= 3 {
			let mut hb = VecBackend::<Elem>::new_hash_only();
			let mut hsize = 0u64;
			out.raw("pmmr new");
			let mut hel: Vec<Elem> = vec![];
			let push = |hb: &mut VecBackend<Elem>, hsize: &mut u64, e: &Elem, out: &mut Out| {
				let mut p = PMMR::at(hb, *hsize);
				let res = p.push(e);
				*hsize = p.size;
				let rhs = match res {
					Ok(_) => format!("{} {}", *hsize, root_str(p.root())),
					Err(_) => "err".to_string(),
				};
				out.line(&format!("pmmr push {}", hex(&e.0)), &rhs);
			};
			for e in &elems {
				push(&mut hb, &mut hsize, e, out);
				hel.push(e.clone());
			}
			// rewind to an earlier leaf boundary (sometimes to a position inside a subtree: rounded up)
			let keep = rng.range(1, n - 1);
			let mut target = pmmr::insertion_to_pmmr_index(keep);
			if rng.chance(1, 3) && target > 1 {
				target -= 1;
			}
			{
				let mut p = PMMR::at(&mut hb, hsize);
				let r = p.rewind(target, &croaring::Bitmap::new());
				hsize = p.size;
				out.line(&format!("pmmr prewind {}", target), &if r.is_ok() { hsize.to_string() } else { "err".into() });
			}
			hel.truncate(pmmr::n_leaves(hsize) as usize);
			for _ in 0..3 {
				let e = Elem(rng.bytes(8));
				push(&mut hb, &mut hsize, &e, out);
				hel.push(e);
			}
			let hp = PMMR::at(&mut hb, hsize);
			out.line(&format!("pmmr vpeaks {}", hsize), &hashes(&hp.peaks()));
			if let Ok(root) = hp.root() {
				for (i, e) in hel.iter().enumerate() {
					let pos = pmmr::insertion_to_pmmr_index(i as u64);
					if let Some(pr) = proof_line(out, &hp, hsize, pos) {
						if pr.verify(root, e, pos).is_err() {
							out.raw(&format!("#ORACLE-FAIL C07 after push/rewind/push on a hash-only backend the proof of leaf {} (size {}) does not verify", pos, hsize));
						}
					}
				}
			}
			// restore the model state of the full backend for the steps below
			out.raw("pmmr new");
			let mut s2 = 0u64;
			let mut tmp = VecBackend::<Elem>::new();
			for e in &elems {
				let mut p = PMMR::at(&mut tmp, s2);
				let res = p.push(e);
				s2 = p.size;
				out.line(&format!("pmmr push {}", hex(&e.0)), &match res { Ok(_) => format!("{} {}", s2, root_str(p.root())), Err(_) => "err".into() });
			}
		}
		// one rewindable view moved backwards and forwards
		{
			let mut rv = RewindablePMMR::<Elem, _>::new(&ba);
			let mut walk: Vec<u64> = vec![];
			for _ in 0..(if thorough { 12 } else { 6 }) {
				walk.push(rng.below(size + 1));
				walk.push(view_sizes[rng.below(view_sizes.len() as u64) as usize]);
			}
			walk.push(size);
			for pos in walk {
				let r = rv.rewind(pos);
				let ro = rv.as_readonly();
				let s = ro.unpruned_size();
				out.line(&format!("pmmr rewind {}", pos), &if r.is_ok() { s.to_string() } else { "err".into() });
				out.line(&format!("pmmr vroot {}", s), &root_str(ro.root()));
				out.line(&format!("pmmr vpeaks {}", s), &hashes(&ro.peaks()));
				let nl = pmmr::n_leaves(s);
				if nl > 0 {
					let i = rng.below(nl);
					let p0 = pmmr::insertion_to_pmmr_index(i);
					if let (Some(pr), Ok(root)) = (proof_line(out, &ro, s, p0), ro.root()) {
						if pr.verify(root, &elems[i as usize], p0).is_err() {
							out.raw(&format!("#ORACLE-FAIL C07 proof from a rewound view at size {} for leaf {} does not verify", s, p0));
						}
					}
				}
			}
		}
		// pruning: the last leaf first (a lone-leaf peak when n is odd), then random leaves
		let mut order: Vec<u64> = vec![n - 1];
		for _ in 0..(n / 2).min(12) {
			order.push(rng.below(n));
		}
		let mut pruned: Vec<u64> = vec![];
		for li in order {
			let pos = pmmr::insertion_to_pmmr_index(li);
			let mut p = PMMR::at(&mut ba, size);
			let r = p.prune(pos);
			out.line(
				&format!("pmmr prune {} {}", size, pos),
				&match r {
					Ok(b) => b.to_string(),
					Err(_) => "err".into(),
				},
			);
			if !pruned.contains(&li) {
				pruned.push(li);
			}
			out.line(&format!("pmmr vroot {}", size), &root_str(p.root()));
			out.line(&format!("pmmr vpeaks {}", size), &hashes(&p.peaks()));
			let root = p.root().unwrap();
			for i in 0..n {
				if n > 20 && !rng.chance(1, 4) {
					continue;
				}
				let q = pmmr::insertion_to_pmmr_index(i);
				let pr = proof_line(out, &p, size, q);
				match pr {
					Some(pr) => {
						if pruned.contains(&i) {
							out.raw(&format!("#ORACLE-FAIL C07 proof produced for pruned leaf {} size {}", q, size));
						} else if pr.verify(root, &elems[i as usize], q).is_err() {
							out.raw(&format!("#ORACLE-FAIL C07 proof for present leaf {} does not verify after leaves {:?} were pruned, size {}", q, pruned, size));
						}
					}
					None => {
						if !pruned.contains(&i) {
							out.raw(&format!("#ORACLE-FAIL C07 no proof for present leaf {} after leaves {:?} were pruned, size {}", q, pruned, size));
						}
					}
				}
			}
			// non-leaf position
			let mut p = PMMR::at(&mut ba, size);
			if size > 2 {
				out.line(&format!("pmmr prune {} {}", size, 2), &match p.prune(2) { Ok(b) => b.to_string(), Err(_) => "err".into() });
			}
		}
		// appending after pruning
		for _ in 0..3 {
			let e = Elem(rng.bytes(8));
			let mut p = PMMR::at(&mut ba, size);
			let res = p.push(&e);
			size = p.size;
			elems.push(e.clone());
			let rhs = match res {
				Ok(_) => format!("{} {}", size, root_str(p.root())),
				Err(_) => "err".to_string(),
			};
			out.line(&format!("pmmr push {}", hex(&e.0)), &rhs);
			let root = p.root().unwrap();
			for i in 0..elems.len() as u64 {
				if pruned.contains(&i) || (n > 20 && !rng.chance(1, 4)) {
					continue;
				}
				let q = pmmr::insertion_to_pmmr_index(i);
				match proof_line(out, &p, size, q) {
					Some(pr) => {
						if pr.verify(root, &elems[i as usize], q).is_err() {
							out.raw(&format!("#ORACLE-FAIL C07 proof for present leaf {} does not verify after pruning and appending, size {}", q, size));
						}
					}
					None => out.raw(&format!("#ORACLE-FAIL C07 no proof for present leaf {} after pruning and appending, size {}", q, size)),
				}
			}
		}
	}
}

fn main() {
	quiet_panics();
	let args: Vec<String> = std::env::args().collect();
	let mode = args.get(1).map(|s| s.as_str()).unwrap_or("all");
	let mut rng = Rng::new(seed_from_env());
	let thorough = tier_thorough();
	let mut out = Out::stdout();
	if mode == "arith" || mode == "all" {
		arith(&mut out, &mut rng, thorough);
	}
	if mode == "mmr" || mode == "all" {
		mmr(&mut out, &mut rng, thorough);
	}
	if mode == "views" || mode == "all" {
		views(&mut out, &mut rng, thorough);
	}
	out.flush();
}
