//! C07 correspondence: position arithmetic, PMMR over VecBackend, Merkle proofs.
use grin_core::core::hash::Hash;
use grin_core::core::merkle_proof::MerkleProof;
use grin_core::core::pmmr::{self, ReadablePMMR, ReadonlyPMMR, RewindablePMMR, VecBackend, PMMR};
use gvharness::elem::Elem;
use gvharness::*;

fn pairs(v: &[(u64, u64)]) -> String {
	let parts: Vec<String> = v.iter().map(|(a, b)| format!("{}:{}", a, b)).collect();
	format!("[{}]", parts.join(","))
}

fn arith_pos(out: &mut Out, p: u64) {
	macro_rules! op {
		($name:expr, $f:expr) => {
			match catch(|| $f) {
				Ok(s) => out.line(&format!("pmmr {} {}", $name, p), &s),
				Err(_) => out.line(&format!("pmmr {} {}", $name, p), "panic"),
			}
		};
	}
	op!("pmh", {
		let r = pmmr::peak_map_height(p);
		format!("{} {}", r.0, r.1)
	});
	op!("height", pmmr::bintree_postorder_height(p).to_string());
	op!("pos2ins", match pmmr::pmmr_leaf_to_insertion_index(p) {
		Some(n) => n.to_string(),
		None => "none".to_string(),
	});
	op!("nleaves", pmmr::n_leaves(p).to_string());
	op!("peaks", nat_list(&pmmr::peaks(p)));
	if p < (1u64 << 62) {
		op!("roundup", pmmr::round_up_to_leaf_pos(p).to_string());
		op!("ins2pos", pmmr::insertion_to_pmmr_index(p).to_string());
		op!("family", {
			let r = pmmr::family(p);
			format!("{} {}", r.0, r.1)
		});
		op!("isleft", pmmr::is_left_sibling(p).to_string());
		op!("rightmost", pmmr::bintree_rightmost(p).to_string());
		op!("leftmost", pmmr::bintree_leftmost(p).to_string());
		op!("range", {
			let r = pmmr::bintree_range(p);
			format!("{} {}", r.start, r.end)
		});
		if pmmr::bintree_postorder_height(p) <= 10 {
			op!("leafiter", nat_list(&pmmr::bintree_leaf_pos_iter(p).collect::<Vec<_>>()));
		}
	}
}


/// would `family_branch(pos0, size)` return?  The loop re-implemented with explicit wrapping
/// arithmetic and a bound: once `peak <<= 1` has shifted the bit out the body changes nothing any
/// more and the real loop (release build) pushes pairs for ever
fn branch_terminates(pos0: u64, size: u64) -> bool {
	let (peak_map, height) = pmmr::peak_map_height(pos0);
	let mut peak: u64 = 1u64 << height;
	let mut current = pos0;
	for _ in 0..200 {
		if !(current.wrapping_add(1) < size) {
			return true;
		}
		if (peak_map & peak) != 0 {
			current = current.wrapping_add(1);
		} else {
			current = current.wrapping_add(peak.wrapping_mul(2));
		}
		if current >= size {
			return true;
		}
		peak = peak.wrapping_shl(1);
	}
	false
}

/// every pure position function on one position near the u64 limit (release arithmetic: the harness
/// is built without overflow checks, as the node is)
fn arith_limit_pos(out: &mut Out, p: u64) {
	macro_rules! op {
		($name:expr, $f:expr) => {
			match catch(|| $f) {
				Ok(s) => out.line(&format!("pmmr {} {}", $name, p), &s),
				Err(_) => out.line(&format!("pmmr {} {}", $name, p), "panic"),
			}
		};
	}
	op!("pmh", {
		let r = pmmr::peak_map_height(p);
		format!("{} {}", r.0, r.1)
	});
	op!("psh", {
		let r = pmmr::peak_sizes_height(p);
		format!("{} {}", nat_list(&r.0), r.1)
	});
	op!("height", pmmr::bintree_postorder_height(p).to_string());
	op!("isleaf", pmmr::is_leaf(p).to_string());
	op!("pos2ins", match pmmr::pmmr_leaf_to_insertion_index(p) {
		Some(n) => n.to_string(),
		None => "none".to_string(),
	});
	op!("nleaves", pmmr::n_leaves(p).to_string());
	op!("peaks", nat_list(&pmmr::peaks(p)));
	op!("isleft", pmmr::is_left_sibling(p).to_string());
	op!("rightmost", pmmr::bintree_rightmost(p).to_string());
	op!("roundupw", pmmr::round_up_to_leaf_pos(p).to_string());
	op!("ins2posw", pmmr::insertion_to_pmmr_index(p).to_string());
	op!("familyw", {
		let r = pmmr::family(p);
		format!("{} {}", r.0, r.1)
	});
	op!("leftmostw", pmmr::bintree_leftmost(p).to_string());
	op!("rangew", {
		let r = pmmr::bintree_range(p);
		format!("{} {}", r.start, r.end)
	});
	if pmmr::bintree_postorder_height(p) <= 10 {
		op!("leafiterw", nat_list(&pmmr::bintree_leaf_pos_iter(p).collect::<Vec<_>>()));
		op!("positerw", {
			let mut it = pmmr::bintree_pos_iter(p);
			let first = it.next();
			let n = it.count() as u64 + first.is_some() as u64;
			format!("{} {}", first.unwrap_or(pmmr::bintree_leftmost(p)), n)
		});
	}
}

fn arith_limit(out: &mut Out, rng: &mut Rng, thorough: bool) {
	let mut ps: Vec<u64> = vec![];
	for k in 0..=64u64 {
		ps.push(u64::MAX - k);
		ps.push((1u64 << 63) + k);
		ps.push((1u64 << 63) - k);
		ps.push((1u64 << 62) + k);
		ps.push((1u64 << 62) - k);
	}
	for j in 1..=64u32 {
		let pw = if j == 64 { 0u64 } else { 1u64 << j };
		ps.push(pw.wrapping_sub(2));
		ps.push(pw.wrapping_sub(1));
		if j < 64 {
			ps.push(pw);
		}
	}
	// the roots of the perfect trees of 2^j - 1 nodes and their children; for j = 64 the parent of the
	// root (and of u64::MAX, the first leaf of the tree after it) lies beyond u64::MAX
	for j in 58..=64u32 {
		let root = (if j == 64 { 0u64 } else { 1u64 << j }).wrapping_sub(2);
		ps.push(root);
		ps.push(root - 1); // right child
		ps.push((1u64 << (j - 1)) - 2); // left child
		ps.push(root.wrapping_add(1));
		ps.push(root.wrapping_add(2));
	}
	let nrand = if thorough { 20000 } else { 2000 };
	for _ in 0..nrand {
		let p = (rng.next() | (1u64 << 62)) >> rng.below(2);
		ps.push(p);
	}
	ps.sort();
	ps.dedup();
	let mut stats = (0u64, 0u64, 0u64);
	for p in &ps {
		arith_limit_pos(out, *p);
		stats.0 += 1;
	}
	// family_branch(pos0, size): sizes at the limit, just above the position, and random ones
	let mut pairs_: Vec<(u64, u64)> = vec![];
	for (i, p) in ps.iter().enumerate() {
		if i % 7 != 0 && *p < u64::MAX - 70 && (*p & (*p + 2)) != 0 && ps.len() > 600 && i > 500 {
			continue;
		}
		for s in [u64::MAX, u64::MAX - 1, p.wrapping_add(1), p.wrapping_add(2), p.wrapping_add(3), (1u64 << 63), (1u64 << 63) + 1, *p, p / 2] {
			pairs_.push((*p, s));
		}
		pairs_.push((*p, p.wrapping_add(rng.next() >> rng.range(1, 63))));
	}
	for (p, s) in pairs_ {
		if !branch_terminates(p, s) {
			// not called: the real loop would push pairs until memory runs out (pos0 >= size here, outside
			// the domain of the function: no caller passes a position beyond the size)
			stats.2 += 1;
			if stats.2 <= 3 {
				out.raw(&format!("#STAT arith-limit: family_branch({}, {}) does not return in a release build (peak shifted out, loop body idle); not called", p, s));
			}
			continue;
		}
		stats.1 += 1;
		match catch(|| pairs(&pmmr::family_branch(p, s))) {
			Ok(v) => out.line(&format!("pmmr branchw {} {}", p, s), &v),
			Err(_) => out.line(&format!("pmmr branchw {} {}", p, s), "panic"),
		}
	}
	out.raw(&format!(
		"#STAT arith-limit: positions in [2^62, u64::MAX] and at 2^j-2, 2^j-1, 2^j: {}, family_branch pairs evaluated: {}, pairs on which family_branch would not return (not called): {}",
		stats.0, stats.1, stats.2
	));
}

fn arith(out: &mut Out, rng: &mut Rng, thorough: bool) {
	arith_limit(out, rng, thorough);
	let lim: u64 = if thorough { 1 << 17 } else { 1 << 13 };
	for p in 0..lim {
		arith_pos(out, p);
	}
	for k in 13..=63u32 {
		let base = 1u64 << k;
		for d in 0..=4u64 {
			arith_pos(out, base - 2 + d);
		}
	}
	for d in 0..=8u64 {
		arith_pos(out, u64::MAX - d);
	}
	let nrand = if thorough { 20000 } else { 2000 };
	for _ in 0..nrand {
		let bits = rng.range(1, 62);
		let p = rng.next() >> (64 - bits);
		arith_pos(out, p);
	}
	// family_branch over (pos, size)
	let slim: u64 = if thorough { 400 } else { 120 };
	for size in 0..slim {
		for p in 0..size + 2 {
			out.line(
				&format!("pmmr branch {} {}", p, size),
				&pairs(&pmmr::family_branch(p, size)),
			);
		}
	}
	for _ in 0..nrand {
		let bits = rng.range(3, 40);
		let size = rng.next() >> (64 - bits);
		let p = rng.below(size + 1);
		out.line(
			&format!("pmmr branch {} {}", p, size),
			&pairs(&pmmr::family_branch(p, size)),
		);
	}
}

fn hashes(v: &[Hash]) -> String {
	let parts: Vec<String> = v.iter().map(|h| hex(h.as_bytes())).collect();
	format!("[{}]", parts.join(","))
}

fn root_str(r: Result<Hash, String>) -> String {
	match r {
		Ok(h) => {
			if h == grin_core::core::hash::ZERO_HASH {
				"zero".to_string()
			} else {
				hex(h.as_bytes())
			}
		}
		Err(_) => "err".to_string(),
	}
}

/// push sequences, roots, proofs for every leaf at selected sizes, proof verification and
/// every single-field corruption of a proof
fn mmr(out: &mut Out, rng: &mut Rng, thorough: bool) {
	let maxn: u64 = if thorough { 600 } else { 150 };
	let runs = if thorough { 3 } else { 1 };
	for _run in 0..runs {
		let mut ba = VecBackend::<Elem>::new();
		let mut size = 0u64;
		out.raw("pmmr new");
		let mut elems: Vec<Elem> = vec![];
		for n in 0..maxn {
			let elen = if rng.chance(1, 4) { rng.range(1, 40) as usize } else { 8 };
			let e = Elem(rng.bytes(elen));
			// PMMR::validate on a backend with ONE hash replaced: every position while the MMR is
			// small, a few random ones later. Oracle (harness): a replaced inner node, or a
			// replaced child of an inner node that exists, must be reported; a replaced node
			// without parent inside the MMR (a peak that is a leaf) cannot be.
			if size > 0 && (n <= 40 || rng.chance(1, 12)) {
				let cands: Vec<u64> = if n < 12 {
					(0..size).collect()
				} else {
					(0..3).map(|_| rng.below(size)).collect()
				};
				for cpos in cands {
					let mut bx = ba.clone();
					let mut hb = bx.hashes[cpos as usize].to_vec();
					let bit = rng.below(256) as usize;
					hb[bit / 8] ^= 1 << (bit % 8);
					bx.hashes[cpos as usize] = Hash::from_vec(&hb);
					let ok = PMMR::<Elem, _>::at(&mut bx, size).validate().is_ok();
					out.line(&format!("pmmr validatex {} {}", cpos, hex(&hb)), &ok.to_string());
					let (parent, _) = pmmr::family(cpos);
					let must_fail = pmmr::bintree_postorder_height(cpos) > 0 || parent < size;
					if ok == must_fail {
						out.raw(&format!(
							"#ORACLE-FAIL C07 PMMR::validate {} a backend of size {} whose hash at position {} (height {}, parent {}) was replaced",
							if ok { "accepts" } else { "refuses" },
							size,
							cpos,
							pmmr::bintree_postorder_height(cpos),
							parent
						));
					}
				}
			}
			let mut p = PMMR::at(&mut ba, size);
			let res = p.push(&e);
			size = p.size;
			elems.push(e.clone());
			let rhs = match res {
				Ok(_) => format!("{} {}", size, root_str(p.root())),
				Err(_) => "err".to_string(),
			};
			out.line(&format!("pmmr push {}", hex(&e.0)), &rhs);
			let check_all = n < 40 || rng.chance(1, 12);
			if check_all {
				out.line("pmmr validate", &p.validate().is_ok().to_string());
				out.line("pmmr peakhashes", &hashes(&p.peaks()));
				let root = p.root().unwrap();
				// proof for every leaf (and some non-leaves / out of range)
				for i in 0..=n {
					let pos = pmmr::insertion_to_pmmr_index(i);
					if n >= 40 && !rng.chance(1, 6) {
						continue;
					}
					let proof = p.merkle_proof(pos);
					match &proof {
						Ok(pr) => out.line(
							&format!("pmmr proof {}", pos),
							&format!("{} {}", pr.mmr_size, hashes(&pr.path)),
						),
						Err(_) => out.line(&format!("pmmr proof {}", pos), "err"),
					}
					if let Ok(pr) = proof {
						let el = &elems[i as usize];
						let v = pr.verify(root, el, pos).is_ok();
						out.line(
							&format!(
								"pmmr verify {} {} {} {} {}",
								hex(root.as_bytes()),
								pr.mmr_size,
								hashes(&pr.path),
								hex(&el.0),
								pos
							),
							&v.to_string(),
						);
						if !v {
							out.raw(&format!("#ORACLE-FAIL C07 honest proof rejected size={} pos={}", size, pos));
						}
						corrupt(out, rng, &pr, root, el, pos, size, &elems);
					}
				}
				for pos in [1u64, 2, size, size + 1, size + 7] {
					let proof = p.merkle_proof(pos);
					match &proof {
						Ok(pr) => out.line(
							&format!("pmmr proof {}", pos),
							&format!("{} {}", pr.mmr_size, hashes(&pr.path)),
						),
						Err(_) => out.line(&format!("pmmr proof {}", pos), "err"),
					}
				}
			}
		}
	}
}

fn verify_line(out: &mut Out, pr: &MerkleProof, root: Hash, el: &Elem, pos: u64, must_reject: bool, what: &str) {
	let v = match catch(|| pr.verify(root, el, pos).is_ok()) {
		Ok(v) => v.to_string(),
		Err(_) => "panic".to_string(),
	};
	out.line(
		&format!(
			"pmmr verify {} {} {} {} {}",
			hex(root.as_bytes()),
			pr.mmr_size,
			hashes(&pr.path),
			hex(&el.0),
			pos
		),
		&v,
	);
	if must_reject && v != "false" {
		out.raw(&format!(
			"#ORACLE-FAIL C07 corrupted proof accepted ({}) size={} pos={}",
			what, pr.mmr_size, pos
		));
	}
}

fn corrupt(out: &mut Out, rng: &mut Rng, pr: &MerkleProof, root: Hash, el: &Elem, pos: u64, size: u64, elems: &[Elem]) {
	// other element
	let mut other = el.clone();
	let k = rng.below(other.0.len() as u64) as usize;
	other.0[k] ^= 1 << rng.below(8);
	verify_line(out, pr, root, &other, pos, true, "element");
	if elems.len() > 1 {
		let j = rng.below(elems.len() as u64) as usize;
		if &elems[j] != el {
			verify_line(out, pr, root, &elems[j], pos, true, "other-element");
		}
	}
	// other positions: every other leaf position for small sizes, else neighbours
	let n = pmmr::n_leaves(size);
	for i in 0..n.min(24) {
		let p2 = pmmr::insertion_to_pmmr_index(i);
		if p2 != pos {
			verify_line(out, pr, root, el, p2, true, "leaf-position");
		}
	}
	for p2 in [pos + 1, pos.wrapping_sub(1), size, size + 1, pos + 2] {
		if p2 != pos && p2 < (1 << 40) {
			// non-leaf / out of range positions: not claimed to reject, compared with model only
			let must = pmmr::is_leaf(p2) && p2 < size;
			verify_line(out, pr, root, el, p2, must, "position");
		}
	}
	// each path hash altered
	for i in 0..pr.path.len() {
		let mut p2 = pr.clone();
		let mut b = p2.path[i].to_vec();
		b[rng.below(32) as usize] ^= 1 << rng.below(8);
		p2.path[i] = Hash::from_vec(&b);
		verify_line(out, &p2, root, el, pos, true, "path-hash");
	}
	// path shortened / lengthened
	if !pr.path.is_empty() {
		let mut p2 = pr.clone();
		p2.path.remove(0);
		verify_line(out, &p2, root, el, pos, true, "drop-first");
		let mut p2 = pr.clone();
		p2.path.pop();
		verify_line(out, &p2, root, el, pos, true, "drop-last");
		let mut p2 = pr.clone();
		let f = p2.path[0];
		p2.path.insert(0, f);
		verify_line(out, &p2, root, el, pos, true, "dup-first");
		let mut p2 = pr.clone();
		let l = *p2.path.last().unwrap();
		p2.path.push(l);
		verify_line(out, &p2, root, el, pos, true, "dup-last");
	}
	let mut p2 = pr.clone();
	p2.path.push(root);
	verify_line(out, &p2, root, el, pos, true, "append-root");
	// advisory size field: compared with the model only
	for s2 in [size + 1, size.saturating_sub(1), 0, size * 2 + 1] {
		let mut p2 = pr.clone();
		p2.mmr_size = s2;
		verify_line(out, &p2, root, el, pos, false, "mmr-size");
	}
}

fn proof_line<P: ReadablePMMR>(out: &mut Out, p: &P, size: u64, pos: u64) -> Option<MerkleProof> {
	let proof = p.merkle_proof(pos);
	match &proof {
		Ok(pr) => out.line(&format!("pmmr vproof {} {}", size, pos), &format!("{} {}", pr.mmr_size, hashes(&pr.path))),
		Err(_) => out.line(&format!("pmmr vproof {} {}", size, pos), "err"),
	}
	proof.ok()
}

/// views at a size (`PMMR::at`, `ReadonlyPMMR::at`, `RewindablePMMR` moved back and forth) over a
/// backend, and the same views after leaves were pruned: root, peaks and the proofs of present
/// leaves must be those of the defining construction on the first k elements
fn views(out: &mut Out, rng: &mut Rng, thorough: bool) {
	let sizes: Vec<u64> = if thorough {
		(1..=40).chain([63, 64, 65, 100, 127, 128, 129, 255, 257]).collect()
	} else {
		(1..=20).chain([31, 32, 33, 65]).collect()
	};
	for &n in &sizes {
		let mut ba = VecBackend::<Elem>::new();
		let mut size = 0u64;
		out.raw("pmmr new");
		let mut elems: Vec<Elem> = vec![];
		let mut view_sizes = vec![0u64];
		for _ in 0..n {
			let e = Elem(rng.bytes(8));
			let mut p = PMMR::at(&mut ba, size);
			let res = p.push(&e);
			size = p.size;
			elems.push(e.clone());
			let rhs = match res {
				Ok(_) => format!("{} {}", size, root_str(p.root())),
				Err(_) => "err".to_string(),
			};
			out.line(&format!("pmmr push {}", hex(&e.0)), &rhs);
			view_sizes.push(size);
		}
		// read-only views at every earlier size
		for (k, &s) in view_sizes.iter().enumerate() {
			if n > 24 && !rng.chance(1, 5) && s != size {
				continue;
			}
			let v = ReadonlyPMMR::at(&ba, s);
			out.line(&format!("pmmr vroot {}", s), &root_str(v.root()));
			out.line(&format!("pmmr vpeaks {}", s), &hashes(&v.peaks()));
			let root = v.root().unwrap();
			for i in 0..(k as u64 + 1).min(n) {
				if k > 12 && !rng.chance(1, 4) {
					continue;
				}
				let pos = pmmr::insertion_to_pmmr_index(i);
				if let Some(pr) = proof_line(out, &v, s, pos) {
					let ok = pr.verify(root, &elems[i as usize], pos).is_ok();
					if !ok {
						out.raw(&format!("#ORACLE-FAIL C07 proof from a view at size {} for present leaf {} does not verify against the view's root", s, pos));
					}
				}
			}
		}
		// element side of the views: ReadonlyPMMR::at at every earlier size and a RewindablePMMR
		// rewound to a random position read through as_readonly(): get_data at every leaf, at inner
		// nodes and beyond the size, get_last_n_insertions, elements_from_pmmr_index (with and
		// without max_pmmr_pos1), leaf_pos_iter / leaf_idx_iter (which ignore the view's size).
		// Oracle on the implementation: element i is served at its leaf position exactly when that
		// position is below the view's size; last-n = the last elements below the size, newest first.
		for (k, &s) in view_sizes.iter().enumerate() {
			if n > 24 && !rng.chance(1, 4) && s != size {
				continue;
			}
			let via_rewind = rng.chance(1, 2);
			let mut rw = RewindablePMMR::at(&ba, size);
			let v = if via_rewind {
				// any position whose round-up is s: s itself is one
				let _ = rw.rewind(s);
				rw.as_readonly()
			} else {
				ReadonlyPMMR::at(&ba, s)
			};
			let vs = v.unpruned_size();
			if vs != s {
				out.raw(&format!("#ORACLE-FAIL C07 RewindablePMMR rewound to the MMR size {} reports size {}", s, vs));
				continue;
			}
			for i in 0..n {
				let pos = pmmr::insertion_to_pmmr_index(i);
				if n > 12 && !rng.chance(1, 3) && i + 1 != k as u64 && i != k as u64 {
					continue;
				}
				let d = v.get_data(pos);
				out.line(&format!("pmmr vdata {} {}", s, pos), &opt_elem(d.clone()));
				let want = if pos < s { Some(elems[i as usize].clone()) } else { None };
				if d != want {
					out.raw(&format!("#ORACLE-FAIL C07 view at size {} ({}): get_data({}) of leaf {} is {:?}", s, if via_rewind { "rewound" } else { "readonly" }, pos, i, d.map(|e| hex(&e.0))));
				}
			}
			for pos in [2u64, 6, s.saturating_sub(1), s, s + 1, size] {
				out.line(&format!("pmmr vdata {} {}", s, pos), &opt_elem(v.get_data(pos)));
			}
			for cnt in [0u64, 1, 3, k as u64, k as u64 + 2] {
				let l = v.get_last_n_insertions(cnt);
				let txt: Vec<String> = l.iter().map(|(h, e)| format!("{}:{}", hex(h.as_bytes()), hex(&e.0))).collect();
				out.line(&format!("pmmr vlastn {} {}", s, cnt), &format!("[{}]", txt.join(",")));
				let want: Vec<Elem> = elems[..k].iter().rev().take(cnt as usize).cloned().collect();
				let got: Vec<Elem> = l.iter().map(|(_, e)| e.clone()).collect();
				if got != want {
					out.raw(&format!("#ORACLE-FAIL C07 view at size {}: get_last_n_insertions({}) returns {} elements, not the last {} below the size newest first", s, cnt, got.len(), want.len()));
				}
			}
			for (i1, m, mp) in [(0u64, 1000u64, None), (1, 3, None), (rng.below(s + 2), rng.range(0, 6), None), (1, 1000, Some(rng.below(size + 3))), (rng.below(s + 2), 4, Some(s)), (1, 1000, Some(s + 1)), (1, 1000, Some(size + 1000)), (s.saturating_sub(2), 1000, Some(u64::MAX)), (s + 5, 3, Some(s + 50))] {
				let (last, l) = v.elements_from_pmmr_index(i1, m, mp);
				if last > s.max(i1.saturating_sub(1)) {
					out.raw(&format!("#ORACLE-FAIL C07 view at size {}: elements_from_pmmr_index({}, {}, {:?}) walked to index {} beyond the MMR", s, i1, m, mp, last));
				}
				let txt: Vec<String> = l.iter().map(|e| hex(&e.0)).collect();
				out.line(
					&format!("pmmr velems {} {} {} {}", s, i1, m, mp.map(|x| x.to_string()).unwrap_or("none".into())),
					&format!("{} [{}]", last, txt.join(",")),
				);
			}
			out.line(&format!("pmmr vleafpos {}", s), &nat_list(&v.leaf_pos_iter().collect::<Vec<_>>()));
			let f = rng.below(n + 2);
			out.line(&format!("pmmr vleafidx {} {}", s, f), &nat_list(&v.leaf_idx_iter(f).collect::<Vec<_>>()));
		}
		// the mutable handle positioned at every earlier size (no rewind of the backend, which holds
		// more): the same root, peaks and proofs, and nothing at or beyond its size
		for (k, &s) in view_sizes.iter().enumerate() {
			if n > 24 && !rng.chance(1, 5) && s != size {
				continue;
			}
			let p = PMMR::at(&mut ba, s);
			out.line(&format!("pmmr vroot {}", s), &root_str(p.root()));
			out.line(&format!("pmmr vpeaks {}", s), &hashes(&p.peaks()));
			for i in 0..(k as u64 + 2).min(n) {
				if k > 12 && !rng.chance(1, 4) && i + 2 < k as u64 {
					continue;
				}
				let pos = pmmr::insertion_to_pmmr_index(i);
				let pr = proof_line(out, &p, s, pos);
				if i < k as u64 {
					let ok = match (&pr, p.root()) {
						(Some(pr), Ok(root)) => pr.verify(root, &elems[i as usize], pos).is_ok(),
						_ => false,
					};
					if !ok {
						out.raw(&format!("#ORACLE-FAIL C07 proof from a handle at size {} for present leaf {} does not verify against its root", s, pos));
					}
				} else if pr.is_some() || p.get_hash(pos).is_some() || p.get_data(pos).is_some() {
					out.raw(&format!("#ORACLE-FAIL C07 a handle at size {} serves position {} which is not part of that MMR (proof {}, hash {}, data {})", s, pos, pr.is_some(), p.get_hash(pos).is_some(), p.get_data(pos).is_some()));
				}
			}
			for pos in [s, s + 1, s + 2, size.saturating_sub(1), size, u64::MAX / 2] {
				if pos >= s && (p.get_hash(pos).is_some() || p.get_data(pos).is_some()) {
					out.raw(&format!("#ORACLE-FAIL C07 a handle at size {} returns a hash or an element for position {}", s, pos));
				}
			}
		}
		// a handle opened at an EARLIER size over the longer backend, rewound to a position at or
		// beyond its own size (the backend still holds more), then appended to: the result is the
		// construction over the elements kept plus the new ones
		if n >= 4 {
			let mut fb = VecBackend::<Elem>::new();
			let mut fsize = 0u64;
			out.raw("pmmr new");
			for e in &elems {
				let mut p = PMMR::at(&mut fb, fsize);
				let res = p.push(e);
				fsize = p.size;
				out.line(&format!("pmmr push {}", hex(&e.0)), &match res { Ok(_) => format!("{} {}", fsize, root_str(p.root())), Err(_) => "err".to_string() });
			}
			let open_leaves = rng.range(1, n - 2);
			let keep = rng.range(open_leaves, n - 1);
			let open_at = pmmr::insertion_to_pmmr_index(open_leaves);
			let mut target = pmmr::insertion_to_pmmr_index(keep);
			if rng.chance(1, 3) && target > open_at + 1 {
				target -= 1;
			}
			{
				let mut p = PMMR::at(&mut fb, open_at);
				let r = p.rewind(target, &croaring::Bitmap::new());
				fsize = p.size;
				out.line(&format!("pmmr prewind {}", target), &if r.is_ok() { fsize.to_string() } else { "err".into() });
			}
			let mut fel: Vec<Elem> = elems[..pmmr::n_leaves(fsize) as usize].to_vec();
			for _ in 0..3 {
				let e = Elem(rng.bytes(8));
				let mut p = PMMR::at(&mut fb, fsize);
				let res = p.push(&e);
				fsize = p.size;
				out.line(&format!("pmmr push {}", hex(&e.0)), &match res { Ok(_) => format!("{} {}", fsize, root_str(p.root())), Err(_) => "err".to_string() });
				fel.push(e);
			}
			let fp = PMMR::at(&mut fb, fsize);
			out.line(&format!("pmmr vroot {}", fsize), &root_str(fp.root()));
			out.line(&format!("pmmr vpeaks {}", fsize), &hashes(&fp.peaks()));
			if let Ok(root) = fp.root() {
				for (i, e) in fel.iter().enumerate() {
					let pos = pmmr::insertion_to_pmmr_index(i as u64);
					let ok = match proof_line(out, &fp, fsize, pos) {
						Some(pr) => pr.verify(root, e, pos).is_ok() && fp.get_data(pos).as_ref() == Some(e),
						None => false,
					};
					if !ok {
						out.raw(&format!("#ORACLE-FAIL C07 after a rewind to {} through a handle opened at size {} and three appends, leaf {} has no verifying proof or not its element", target, open_at, pos));
					}
				}
			}
			// back to the history of this size for the sections below (the driver follows the lines)
			let mut rb = VecBackend::<Elem>::new();
			let mut rsize = 0u64;
			out.raw("pmmr new");
			for e in &elems {
				let mut p = PMMR::at(&mut rb, rsize);
				let res = p.push(e);
				rsize = p.size;
				out.line(&format!("pmmr push {}", hex(&e.0)), &match res { Ok(_) => format!("{} {}", rsize, root_str(p.root())), Err(_) => "err".to_string() });
			}
		}
		// the same elements over a hash-only backend (no element data kept): size, root, peaks and
		// the proof of every leaf are those of the full backend
		{
			let mut hb = VecBackend::<Elem>::new_hash_only();
			let mut hsize = 0u64;
			for e in &elems {
				let mut p = PMMR::at(&mut hb, hsize);
				if p.push(e).is_err() {
					out.raw(&format!("#ORACLE-FAIL C07 push on a hash-only backend failed at size {}", hsize));
				}
				hsize = p.size;
			}
			let hp = PMMR::at(&mut hb, hsize);
			out.line(&format!("pmmr vroot {}", hsize), &root_str(hp.root()));
			out.line(&format!("pmmr vpeaks {}", hsize), &hashes(&hp.peaks()));
			if hsize != size {
				out.raw(&format!("#ORACLE-FAIL C07 hash-only backend has size {} where the full backend has {}", hsize, size));
			}
			if let Ok(root) = hp.root() {
				for i in 0..n {
					if n > 24 && !rng.chance(1, 4) {
						continue;
					}
					let pos = pmmr::insertion_to_pmmr_index(i);
					match proof_line(out, &hp, hsize, pos) {
						Some(pr) => {
							if pr.verify(root, &elems[i as usize], pos).is_err() {
								out.raw(&format!("#ORACLE-FAIL C07 proof from a hash-only backend for present leaf {} (size {}) does not verify", pos, hsize));
							}
						}
						None => out.raw(&format!("#ORACLE-FAIL C07 no proof from a hash-only backend for present leaf {} (size {})", pos, hsize)),
					}
				}
			}
		}
		// a hash-only backend through push / rewind / push: its own history for the model
		if n >= 3 {
			let mut hb = VecBackend::<Elem>::new_hash_only();
			let mut hsize = 0u64;
			out.raw("pmmr new");
			let mut hel: Vec<Elem> = vec![];
			let push = |hb: &mut VecBackend<Elem>, hsize: &mut u64, e: &Elem, out: &mut Out| {
				let mut p = PMMR::at(hb, *hsize);
				let res = p.push(e);
				*hsize = p.size;
				let rhs = match res {
					Ok(_) => format!("{} {}", *hsize, root_str(p.root())),
					Err(_) => "err".to_string(),
				};
				out.line(&format!("pmmr push {}", hex(&e.0)), &rhs);
			};
			for e in &elems {
				push(&mut hb, &mut hsize, e, out);
				hel.push(e.clone());
			}
			// rewind to an earlier leaf boundary (sometimes to a position inside a subtree: rounded up)
			let keep = rng.range(1, n - 1);
			let mut target = pmmr::insertion_to_pmmr_index(keep);
			if rng.chance(1, 3) && target > 1 {
				target -= 1;
			}
			{
				let mut p = PMMR::at(&mut hb, hsize);
				let r = p.rewind(target, &croaring::Bitmap::new());
				hsize = p.size;
				out.line(&format!("pmmr prewind {}", target), &if r.is_ok() { hsize.to_string() } else { "err".into() });
			}
			hel.truncate(pmmr::n_leaves(hsize) as usize);
			for _ in 0..3 {
				let e = Elem(rng.bytes(8));
				push(&mut hb, &mut hsize, &e, out);
				hel.push(e);
			}
			let hp = PMMR::at(&mut hb, hsize);
			out.line(&format!("pmmr vpeaks {}", hsize), &hashes(&hp.peaks()));
			if let Ok(root) = hp.root() {
				for (i, e) in hel.iter().enumerate() {
					let pos = pmmr::insertion_to_pmmr_index(i as u64);
					if let Some(pr) = proof_line(out, &hp, hsize, pos) {
						if pr.verify(root, e, pos).is_err() {
							out.raw(&format!("#ORACLE-FAIL C07 after push/rewind/push on a hash-only backend the proof of leaf {} (size {}) does not verify", pos, hsize));
						}
					}
				}
			}
			// restore the model state of the full backend for the steps below
			out.raw("pmmr new");
			let mut s2 = 0u64;
			let mut tmp = VecBackend::<Elem>::new();
			for e in &elems {
				let mut p = PMMR::at(&mut tmp, s2);
				let res = p.push(e);
				s2 = p.size;
				out.line(&format!("pmmr push {}", hex(&e.0)), &match res { Ok(_) => format!("{} {}", s2, root_str(p.root())), Err(_) => "err".into() });
			}
		}
		// one rewindable view moved backwards and forwards
		{
			let mut rv = RewindablePMMR::<Elem, _>::new(&ba);
			let mut walk: Vec<u64> = vec![];
			for _ in 0..(if thorough { 12 } else { 6 }) {
				walk.push(rng.below(size + 1));
				walk.push(view_sizes[rng.below(view_sizes.len() as u64) as usize]);
			}
			walk.push(size);
			for pos in walk {
				let r = rv.rewind(pos);
				let ro = rv.as_readonly();
				let s = ro.unpruned_size();
				out.line(&format!("pmmr rewind {}", pos), &if r.is_ok() { s.to_string() } else { "err".into() });
				out.line(&format!("pmmr vroot {}", s), &root_str(ro.root()));
				out.line(&format!("pmmr vpeaks {}", s), &hashes(&ro.peaks()));
				let nl = pmmr::n_leaves(s);
				if nl > 0 {
					let i = rng.below(nl);
					let p0 = pmmr::insertion_to_pmmr_index(i);
					if let (Some(pr), Ok(root)) = (proof_line(out, &ro, s, p0), ro.root()) {
						if pr.verify(root, &elems[i as usize], p0).is_err() {
							out.raw(&format!("#ORACLE-FAIL C07 proof from a rewound view at size {} for leaf {} does not verify", s, p0));
						}
					}
				}
			}
		}
		// pruning: the last leaf first (a lone-leaf peak when n is odd), then random leaves
		let mut order: Vec<u64> = vec![n - 1];
		for _ in 0..(n / 2).min(12) {
			order.push(rng.below(n));
		}
		let mut pruned: Vec<u64> = vec![];
		for li in order {
			let pos = pmmr::insertion_to_pmmr_index(li);
			let mut p = PMMR::at(&mut ba, size);
			let r = p.prune(pos);
			out.line(
				&format!("pmmr prune {} {}", size, pos),
				&match r {
					Ok(b) => b.to_string(),
					Err(_) => "err".into(),
				},
			);
			if !pruned.contains(&li) {
				pruned.push(li);
			}
			// leaf iterators over the backend with PRUNED leaves, for every from_idx, through the PMMR
			// handle, a ReadonlyPMMR and the backend itself. Spec: exactly the unpruned leaves'
			// insertion indices >= from, ascending, each mapping back to the position leaf_pos_iter yields.
			{
				use grin_core::core::pmmr::Backend;
				let lp_h: Vec<u64> = p.leaf_pos_iter().collect();
				for from in 0..=n + 1 {
					if n > 24 && !rng.chance(1, 3) && from > 3 {
						continue;
					}
					let via_handle: Vec<u64> = p.leaf_idx_iter(from).collect();
					out.line(&format!("pmmr vleafidx {} {}", size, from), &nat_list(&via_handle));
					let want: Vec<u64> = (from..n).filter(|i| !pruned.contains(i)).collect();
					if via_handle != want {
						out.raw(&format!("#ORACLE-FAIL C07 leaf_idx_iter({}) over {} leaves with leaves {:?} pruned yields {:?}, not the unpruned insertion indices {:?}", from, n, pruned, via_handle, want));
					}
					if via_handle.iter().any(|i| !lp_h.contains(&pmmr::insertion_to_pmmr_index(*i))) {
						out.raw(&format!("#ORACLE-FAIL C07 leaf_idx_iter({}) yields an index whose position leaf_pos_iter does not yield ({} leaves, pruned {:?}): {:?}", from, n, pruned, via_handle));
					}
				}
				out.line(&format!("pmmr vleafpos {}", size), &nat_list(&lp_h));
				drop(p);
				let direct: Vec<Vec<u64>> = (0..=n + 1).map(|f| ba.leaf_idx_iter(f).collect()).collect();
				let ro = ReadonlyPMMR::at(&ba, size);
				for from in 0..=n + 1 {
					let a: Vec<u64> = ro.leaf_idx_iter(from).collect();
					let want: Vec<u64> = (from..n).filter(|i| !pruned.contains(i)).collect();
					if a != want || direct[from as usize] != want {
						out.raw(&format!("#ORACLE-FAIL C07 leaf_idx_iter({}) through ReadonlyPMMR / the backend differs from the unpruned insertion indices ({} leaves, pruned {:?}): {:?} / {:?}", from, n, pruned, a, direct[from as usize]));
					}
				}
			}
			let p = PMMR::at(&mut ba, size);
			out.line(&format!("pmmr vroot {}", size), &root_str(p.root()));
			out.line(&format!("pmmr vpeaks {}", size), &hashes(&p.peaks()));
			let root = p.root().unwrap();
			for i in 0..n {
				if n > 20 && !rng.chance(1, 4) {
					continue;
				}
				let q = pmmr::insertion_to_pmmr_index(i);
				let pr = proof_line(out, &p, size, q);
				match pr {
					Some(pr) => {
						if pruned.contains(&i) {
							out.raw(&format!("#ORACLE-FAIL C07 proof produced for pruned leaf {} size {}", q, size));
						} else if pr.verify(root, &elems[i as usize], q).is_err() {
							out.raw(&format!("#ORACLE-FAIL C07 proof for present leaf {} does not verify after leaves {:?} were pruned, size {}", q, pruned, size));
						}
					}
					None => {
						if !pruned.contains(&i) {
							out.raw(&format!("#ORACLE-FAIL C07 no proof for present leaf {} after leaves {:?} were pruned, size {}", q, pruned, size));
						}
					}
				}
			}
			// non-leaf position
			let mut p = PMMR::at(&mut ba, size);
			if size > 2 {
				out.line(&format!("pmmr prune {} {}", size, 2), &match p.prune(2) { Ok(b) => b.to_string(), Err(_) => "err".into() });
			}
		}
		// appending after pruning
		for _ in 0..3 {
			let e = Elem(rng.bytes(8));
			let mut p = PMMR::at(&mut ba, size);
			let res = p.push(&e);
			size = p.size;
			elems.push(e.clone());
			let rhs = match res {
				Ok(_) => format!("{} {}", size, root_str(p.root())),
				Err(_) => "err".to_string(),
			};
			out.line(&format!("pmmr push {}", hex(&e.0)), &rhs);
			let root = p.root().unwrap();
			for i in 0..elems.len() as u64 {
				if pruned.contains(&i) || (n > 20 && !rng.chance(1, 4)) {
					continue;
				}
				let q = pmmr::insertion_to_pmmr_index(i);
				match proof_line(out, &p, size, q) {
					Some(pr) => {
						if pr.verify(root, &elems[i as usize], q).is_err() {
							out.raw(&format!("#ORACLE-FAIL C07 proof for present leaf {} does not verify after pruning and appending, size {}", q, size));
						}
					}
					None => out.raw(&format!("#ORACLE-FAIL C07 no proof for present leaf {} after pruning and appending, size {}", q, size)),
				}
			}
		}
	}
}

// ---------------------------------------------------------------------------------------------
// One long-lived mutable handle under arbitrary operation histories with sparse observations
// (run `handle`), and handles / views opened at ANY size, valid MMR size or not (run `atsize`).
// Model: `Model/PmmrHandle.lean` (`Handle` = backend + size); driver ops are prefixed `h`.
// ---------------------------------------------------------------------------------------------

/// `2n - popcount n` computed here, not with the code under test
fn size_of_leaves(n: u64) -> u64 {
	2 * n - n.count_ones() as u64
}

/// is `s` the size of an MMR with some number of leaves? (binary search over the leaf count; does
/// not use any function of pmmr.rs)
fn is_valid_mmr_size(s: u64) -> bool {
	let (mut lo, mut hi) = (s / 2, s);
	while lo < hi {
		let mid = lo + (hi - lo) / 2;
		if size_of_leaves(mid) < s {
			lo = mid + 1;
		} else {
			hi = mid;
		}
	}
	size_of_leaves(lo) == s
}

/// number of leaves of the largest MMR of size <= s (own computation)
fn leaves_upto(s: u64) -> u64 {
	let (mut lo, mut hi) = (s / 2, s + 1);
	// largest n with size_of_leaves(n) <= s
	while lo < hi {
		let mid = lo + (hi - lo + 1) / 2;
		if size_of_leaves(mid) <= s {
			lo = mid;
		} else {
			hi = mid - 1;
		}
	}
	lo
}

fn opt_hash(h: Option<Hash>) -> String {
	match h {
		Some(h) => hex(h.as_bytes()),
		None => "none".to_string(),
	}
}

fn opt_elem(e: Option<Elem>) -> String {
	match e {
		Some(e) => hex(&e.0),
		None => "none".to_string(),
	}
}

fn elems_str(v: &[Elem]) -> String {
	let parts: Vec<String> = v.iter().map(|e| hex(&e.0)).collect();
	format!("[{}]", parts.join(","))
}

fn backend_line(out: &mut Out, b: &VecBackend<Elem>) {
	let d = match &b.data {
		Some(d) => d.len().to_string(),
		None => "none".to_string(),
	};
	out.line("pmmr hbackend", &format!("{} {} {}", b.hashes.len(), d, b.removed.len()));
}

/// the MMR of `elems` built from nothing through short-lived handles: (root, hashes)
fn fresh_build(elems: &[Elem]) -> (String, Vec<Hash>) {
	let mut fb = VecBackend::<Elem>::new();
	let mut fsize = 0u64;
	for e in elems {
		let mut p = PMMR::at(&mut fb, fsize);
		let _ = p.push(e);
		fsize = p.size;
	}
	let r = root_str(PMMR::at(&mut fb, fsize).root());
	(r, fb.hashes.clone())
}

#[derive(Default)]
struct HStats {
	histories: u64,
	pushes: u64,
	rewinds: u64,
	rewind_noop: u64,
	rewind_nonleaf: u64,
	rewind_to_zero: u64,
	replace_same_size: u64,
	replace_same_contents: u64,
	replace_observed_both: u64,
	replace_paired: u64,
	obs: u64,
	root_obs: u64,
	proof_obs: u64,
	steps_unobserved: u64,
	steps: u64,
	max_leaves: u64,
	sizes_revisited: u64,
}

/// what the harness remembers of the handle's root observations: contents -> root
struct Seen {
	by_contents: std::collections::HashMap<Vec<Vec<u8>>, String>,
	by_root: std::collections::HashMap<String, Vec<Vec<u8>>>,
}

fn contents(elems: &[Elem]) -> Vec<Vec<u8>> {
	elems.iter().map(|e| e.0.clone()).collect()
}

/// a random batch of observations on the live handle; every observation is a driver line; the
/// oracle of the property is evaluated on the implementation as well
fn observe<'a>(
	out: &mut Out,
	rng: &mut Rng,
	p: &PMMR<'a, Elem, VecBackend<Elem>>,
	elems: &[Elem],
	seen: &mut Seen,
	st: &mut HStats,
	force_root: bool,
	how_many: u64,
) {
	let size = p.unpruned_size();
	let n = elems.len() as u64;
	for k in 0..how_many {
		st.obs += 1;
		let kind = if force_root && k == 0 { 0 } else { rng.below(8) };
		match kind {
			0 | 1 => {
				st.root_obs += 1;
				let r = root_str(p.root());
				out.line("pmmr hroot", &r);
				let ro = root_str(p.readonly_pmmr().root());
				if ro != r {
					out.raw(&format!("#ORACLE-FAIL C07 live handle at size {} ({} leaves {}) says root {} but a fresh ReadonlyPMMR::at on the same backend and size says {}", size, n, elems_str(elems), r, ro));
				}
				let c = contents(elems);
				if let Some(prev) = seen.by_contents.get(&c) {
					if *prev != r {
						out.raw(&format!("#ORACLE-FAIL C07 the same element list {} gave root {} earlier in this handle's history and gives {} now", elems_str(elems), prev, r));
					}
				}
				if let Some(prev) = seen.by_root.get(&r) {
					if *prev != c && r != "zero" {
						out.raw(&format!("#ORACLE-FAIL C07 root {} returned for element list {} was returned before for a different list (size {})", r, elems_str(elems), size));
					}
				}
				seen.by_contents.insert(c.clone(), r.clone());
				seen.by_root.insert(r, c);
			}
			2 => {
				let pk = hashes(&p.peaks());
				out.line("pmmr hpeaks", &pk);
				if hashes(&p.readonly_pmmr().peaks()) != pk {
					out.raw(&format!("#ORACLE-FAIL C07 live handle at size {} and a fresh readonly view disagree on the peaks (elements {})", size, elems_str(elems)));
				}
			}
			3 | 4 => {
				st.proof_obs += 1;
				// mostly a present leaf (often one of the most recent), sometimes anything
				let pos = if n > 0 && !rng.chance(1, 6) {
					let i = if rng.chance(1, 2) { n - 1 - rng.below(n.min(4)) } else { rng.below(n) };
					pmmr::insertion_to_pmmr_index(i)
				} else {
					rng.below(size + 4)
				};
				let proof = p.merkle_proof(pos);
				match &proof {
					Ok(pr) => out.line(&format!("pmmr hproof {}", pos), &format!("{} {}", pr.mmr_size, hashes(&pr.path))),
					Err(_) => out.line(&format!("pmmr hproof {}", pos), "err"),
				}
				let leaf_idx = if is_valid_mmr_size(pos) && pos < size { Some(leaves_upto(pos)) } else { None };
				match (leaf_idx, proof) {
					(Some(i), Ok(pr)) => {
						let ok = match p.root() {
							Ok(root) => pr.verify(root, &elems[i as usize], pos).is_ok(),
							Err(_) => false,
						};
						if !ok {
							out.raw(&format!("#ORACLE-FAIL C07 proof handed out by the live handle for leaf {} (position {}) does not verify against the handle's own root; size {} elements {}", i, pos, size, elems_str(elems)));
						}
					}
					(Some(i), Err(_)) => out.raw(&format!("#ORACLE-FAIL C07 live handle has no proof for present leaf {} (position {}), size {} elements {}", i, pos, size, elems_str(elems))),
					(None, Ok(_)) => out.raw(&format!("#ORACLE-FAIL C07 live handle at size {} hands out a proof for position {} which is not a leaf of its MMR", size, pos)),
					(None, Err(_)) => {}
				}
			}
			5 => {
				if size <= 400 || rng.chance(1, 4) {
					out.line("pmmr hvalidate", &p.validate().is_ok().to_string());
				}
			}
			6 => {
				let pos = if rng.chance(1, 5) { size + rng.below(3) } else { rng.below(size.max(1)) };
				out.line(&format!("pmmr hhash {}", pos), &opt_hash(p.get_hash(pos)));
			}
			_ => {
				let pos = if n > 0 && !rng.chance(1, 5) {
					pmmr::insertion_to_pmmr_index(if rng.chance(1, 2) { n - 1 - rng.below(n.min(4)) } else { rng.below(n) })
				} else {
					rng.below(size + 3)
				};
				let d = p.get_data(pos);
				out.line(&format!("pmmr hdata {}", pos), &opt_elem(d.clone()));
				if is_valid_mmr_size(pos) && pos < size {
					let i = leaves_upto(pos) as usize;
					if d.as_ref() != Some(&elems[i]) {
						out.raw(&format!("#ORACLE-FAIL C07 live handle returns {} for leaf {} (position {}) where {} was pushed; size {}", opt_elem(d), i, pos, hex(&elems[i].0), size));
					}
				} else if d.is_some() {
					out.raw(&format!("#ORACLE-FAIL C07 live handle at size {} returns an element for position {} which is not one of its leaves", size, pos));
				}
			}
		}
	}
	if rng.chance(1, 6) {
		out.line("pmmr hsize", &size.to_string());
	}
}

fn hpush<'a>(out: &mut Out, p: &mut PMMR<'a, Elem, VecBackend<Elem>>, e: &Elem, elems: &mut Vec<Elem>, st: &mut HStats) {
	let before = p.size;
	let r = p.push(e);
	st.pushes += 1;
	match r {
		Ok(_) => {
			out.line(&format!("pmmr hpush {}", hex(&e.0)), &p.size.to_string());
			elems.push(e.clone());
			let want = size_of_leaves(elems.len() as u64);
			if p.size != want {
				out.raw(&format!("#ORACLE-FAIL C07 after pushing leaf number {} the live handle has size {} where the MMR of that many leaves has {}", elems.len(), p.size, want));
			}
		}
		Err(_) => {
			out.line(&format!("pmmr hpush {}", hex(&e.0)), "err");
			out.raw(&format!("#ORACLE-FAIL C07 push refused on a live handle at the valid size {} ({} leaves)", before, elems.len()));
		}
	}
}

fn hrewind<'a>(out: &mut Out, p: &mut PMMR<'a, Elem, VecBackend<Elem>>, pos: u64, elems: &mut Vec<Elem>, st: &mut HStats) {
	let r = p.rewind(pos, &croaring::Bitmap::new());
	st.rewinds += 1;
	out.line(&format!("pmmr hrewind {}", pos), &if r.is_ok() { p.size.to_string() } else { "err".into() });
	// own computation of what must remain: the leaves whose hashes all lie below the least leaf
	// boundary at or above `pos`
	let mut keep = leaves_upto(pos);
	if size_of_leaves(keep) < pos {
		keep += 1;
	}
	let keep = keep.min(elems.len() as u64);
	elems.truncate(keep as usize);
	if p.size != size_of_leaves(keep) {
		out.raw(&format!("#ORACLE-FAIL C07 rewind to position {} leaves the live handle at size {} where {} leaves (size {}) must remain", pos, p.size, keep, size_of_leaves(keep)));
	}
}

/// one history on one live handle
fn one_history(out: &mut Out, rng: &mut Rng, st: &mut HStats, maxn: u64, steps: u64, variant: u64) {
	st.histories += 1;
	let mut ba = VecBackend::<Elem>::new();
	let mut elems: Vec<Elem> = vec![];
	out.raw("pmmr hnew");
	// variants 1,2: the backend is filled through short-lived handles first
	let mut size = 0u64;
	if variant >= 1 {
		let n0 = rng.range(1, maxn / 2 + 1);
		for _ in 0..n0 {
			let e = Elem(rng.bytes(8));
			let mut p = PMMR::at(&mut ba, size);
			let r = p.push(&e);
			size = p.size;
			out.line(&format!("pmmr hpush {}", hex(&e.0)), &if r.is_ok() { size.to_string() } else { "err".into() });
			elems.push(e);
		}
	}
	let mut seen = Seen { by_contents: Default::default(), by_root: Default::default() };
	let mut sizes_seen: std::collections::HashSet<u64> = Default::default();
	{
		// the ONE handle of this history
		let mut p = match variant {
			0 => PMMR::new(&mut ba),
			1 => {
				out.raw(&format!("pmmr hat {}", size));
				PMMR::at(&mut ba, size)
			}
			_ => {
				// opened at an earlier leaf boundary of the longer backend; the first operation is the
				// rewind to a position at or below that size (the use the chain code makes of it)
				let k = rng.below(elems.len() as u64 + 1);
				let s = size_of_leaves(k);
				out.raw(&format!("pmmr hat {}", s));
				let mut p = PMMR::at(&mut ba, s);
				let j = rng.below(k + 1);
				let mut target = size_of_leaves(j);
				if rng.chance(1, 3) && target > 1 && !is_valid_mmr_size(target - 1) {
					target -= 1;
				}
				hrewind(out, &mut p, target, &mut elems, st);
				p
			}
		};
		for _ in 0..steps {
			st.steps += 1;
			let n = elems.len() as u64;
			st.max_leaves = st.max_leaves.max(n);
			if !sizes_seen.insert(p.size) {
				st.sizes_revisited += 1;
			}
			let kind = if n >= maxn { 40 + rng.below(35) } else { rng.below(100) };
			let mut observed = false;
			if kind < 40 {
				for _ in 0..rng.range(1, 3) {
					let elen = if rng.chance(1, 8) { rng.range(1, 40) as usize } else { 8 };
					hpush(out, &mut p, &Elem(rng.bytes(elen)), &mut elems, st);
				}
			} else if kind < 55 {
				// rewind: to an earlier leaf boundary, into the middle of a subtree (rounded up), to
				// the current size (nothing to undo) or to zero
				let c = rng.below(20);
				let target = if c == 0 {
					st.rewind_to_zero += 1;
					0
				} else if c == 1 {
					st.rewind_noop += 1;
					p.size
				} else {
					// mostly a few leaves back, sometimes anywhere
					let keep = if rng.chance(3, 5) { n - rng.below(n.min(6) + 1) } else { rng.below(n + 1) };
					let t = size_of_leaves(keep);
					if rng.chance(1, 3) && t > 1 && !is_valid_mmr_size(t - 1) {
						st.rewind_nonleaf += 1;
						t - 1
					} else {
						t
					}
				};
				hrewind(out, &mut p, target, &mut elems, st);
			} else if kind < 75 && n > 0 {
				// replace the last j leaves: (maybe observe) - rewind - push j leaves back to exactly
				// the same size, other elements or the same ones - NO observation in between -
				// (maybe observe)
				st.replace_same_size += 1;
				let jmax = if rng.chance(1, 5) { 20 } else { 5 };
				let j = rng.range(1, n.min(jmax));
				let before = rng.chance(7, 10);
				let after = rng.chance(8, 10);
				let nobs = rng.range(1, 3);
				let force_b = !rng.chance(1, 4);
				let force_a = !rng.chance(1, 4);
				// half of the time the observations after the replacement are exactly the ones made
				// before it (same calls, same positions): anything remembered per size or per
				// (size, position) is asked for again with other contents
				let paired = rng.chance(1, 2);
				let mut rb = Rng(rng.next() | 1);
				let mut ra = if paired { Rng(rb.0) } else { Rng(rng.next() | 1) };
				if paired && before && after {
					st.replace_paired += 1;
				}
				if before {
					observe(out, &mut rb, &p, &elems, &mut seen, st, force_b, nobs);
				}
				let s0 = p.size;
				let old: Vec<Elem> = elems[(n - j) as usize..].to_vec();
				let same = rng.chance(1, 5);
				if same {
					st.replace_same_contents += 1;
				}
				hrewind(out, &mut p, size_of_leaves(n - j), &mut elems, st);
				for i in 0..j {
					let e = if same { old[i as usize].clone() } else { Elem(rng.bytes(old[i as usize].0.len())) };
					hpush(out, &mut p, &e, &mut elems, st);
				}
				if p.size != s0 {
					out.raw(&format!("#ORACLE-FAIL C07 {} leaves removed and {} pushed: size {} before, {} after", j, j, s0, p.size));
				}
				if after {
					observe(out, &mut ra, &p, &elems, &mut seen, st, if paired { force_b } else { force_a }, nobs);
					observed = true;
				}
				if before && after {
					st.replace_observed_both += 1;
				}
			} else {
				let k = rng.range(1, 3);
				observe(out, rng, &p, &elems, &mut seen, st, false, k);
				observed = true;
			}
			if !observed {
				st.steps_unobserved += 1;
			}
		}
		// end of the history: everything once, against the current list
		observe(out, rng, &p, &elems, &mut seen, st, true, 1);
		out.line("pmmr hpeaks", &hashes(&p.peaks()));
		out.line("pmmr hvalidate", &p.validate().is_ok().to_string());
		out.line("pmmr hsize", &p.unpruned_size().to_string());
		size = p.size;
		let root = p.root();
		for (i, e) in elems.iter().enumerate() {
			if elems.len() > 24 && !rng.chance(1, 4) {
				continue;
			}
			let pos = size_of_leaves(i as u64);
			let proof = p.merkle_proof(pos);
			match &proof {
				Ok(pr) => out.line(&format!("pmmr hproof {}", pos), &format!("{} {}", pr.mmr_size, hashes(&pr.path))),
				Err(_) => out.line(&format!("pmmr hproof {}", pos), "err"),
			}
			let ok = match (&proof, &root) {
				(Ok(pr), Ok(r)) => pr.verify(*r, e, pos).is_ok(),
				_ => false,
			};
			if !ok {
				out.raw(&format!("#ORACLE-FAIL C07 at the end of a history the live handle's proof for leaf {} does not verify against its root (size {}, elements {})", i, size, elems_str(&elems)));
			}
		}
	}
	// the handle is gone: the backend it leaves behind is the backend of the current list
	backend_line(out, &ba);
	out.line("pmmr hfile", &hashes(&ba.hashes));
	out.line("pmmr hdatafile", &elems_str(ba.data.as_ref().unwrap()));
	let (froot, fhashes) = fresh_build(&elems);
	let hroot = root_str(ReadonlyPMMR::at(&ba, size).root());
	if froot != hroot || fhashes != ba.hashes || ba.data.as_ref().unwrap() != &elems {
		out.raw(&format!("#ORACLE-FAIL C07 history dependence: after this handle's history the backend (root {}, {} hashes, {} elements) is not the MMR built from the current list {} alone (root {}, {} hashes)", hroot, ba.hashes.len(), ba.data.as_ref().unwrap().len(), elems_str(&elems), froot, fhashes.len()));
	}
}

fn handle_run(out: &mut Out, rng: &mut Rng, thorough: bool) {
	let mut st = HStats::default();
	let nh = if thorough { 300 } else { 60 };
	for hno in 0..nh {
		let maxn = match hno % 6 {
			0 => 6,
			1 => 17,
			2 => 34,
			3 => 70,
			_ => if thorough { 400 } else { 150 },
		};
		let steps = if thorough { 400 } else { 200 };
		one_history(out, rng, &mut st, maxn, steps, hno % 3);
	}
	out.raw(&format!(
		"#STAT handle: histories={} steps={} (no observation in {}), pushes={} rewinds={} (to-zero {}, nothing-to-undo {}, non-leaf target {}), same-size replacements={} (same contents {}, observed before and after {}, of these with identical calls {}), observations={} (root {}, proof {}), steps at a size seen before in the same history={}, max leaves={}",
		st.histories, st.steps, st.steps_unobserved, st.pushes, st.rewinds, st.rewind_to_zero, st.rewind_noop, st.rewind_nonleaf,
		st.replace_same_size, st.replace_same_contents, st.replace_observed_both, st.replace_paired, st.obs, st.root_obs, st.proof_obs, st.sizes_revisited, st.max_leaves
	));
}

/// every read of `ReadablePMMR` on a handle / view at size `s`, tagged
fn read_all<P: ReadablePMMR<Item = Elem>>(out: &mut Out, rng: &mut Rng, p: &P, tag: &str, s: u64, blen: u64, full: bool) -> (String, String) {
	let r = match catch(std::panic::AssertUnwindSafe(|| root_str(p.root()))) {
		Ok(r) => r,
		Err(_) => "panic".into(),
	};
	out.line(&format!("pmmr hroot {}", tag), &r);
	let pk = match catch(std::panic::AssertUnwindSafe(|| hashes(&p.peaks()))) {
		Ok(r) => r,
		Err(_) => "panic".into(),
	};
	out.line(&format!("pmmr hpeaks {}", tag), &pk);
	out.line(&format!("pmmr hsize {}", tag), &p.unpruned_size().to_string());
	if full {
		let mut poss: Vec<u64> = vec![0, 1, 2, 3, s.saturating_sub(1), s, s + 1, blen.saturating_sub(1), blen];
		for _ in 0..3 {
			poss.push(rng.below(s.min(blen) + 2));
		}
		// the last leaf positions below s and the first at or above it
		let l = leaves_upto(s);
		for d in 0..3 {
			if l > d {
				poss.push(size_of_leaves(l - 1 - d));
			}
		}
		poss.push(size_of_leaves(l));
		poss.push(size_of_leaves(l + 1));
		poss.sort();
		poss.dedup();
		for &pos in &poss {
			if pos > (1 << 32) {
				continue;
			}
			let pr = match catch(std::panic::AssertUnwindSafe(|| p.merkle_proof(pos))) {
				Ok(Ok(pr)) => format!("{} {}", pr.mmr_size, hashes(&pr.path)),
				Ok(Err(_)) => "err".into(),
				Err(_) => "panic".into(),
			};
			out.line(&format!("pmmr hproof {} {}", pos, tag), &pr);
			out.line(&format!("pmmr hhash {} {}", pos, tag), &opt_hash(p.get_hash(pos)));
			out.line(&format!("pmmr hdata {} {}", pos, tag), &opt_elem(p.get_data(pos)));
			if p.get_hash(pos).is_some() && pos >= s {
				out.raw(&format!("#ORACLE-FAIL C07 a {} view at size {} returns a hash for position {}", tag, s, pos));
			}
		}
	}
	(r, pk)
}

#[derive(Default)]
struct AStats {
	sizes: u64,
	invalid: u64,
	beyond: u64,
	push_refused: u64,
	push_ok: u64,
	push_ok_at_end: u64,
	rewinds: u64,
	prunes: u64,
}

/// handles and views opened at every size 0..len+6 (and a few far beyond) of a filled backend
fn at_sizes(out: &mut Out, rng: &mut Rng, st: &mut AStats, nleaves: u64, hash_only: bool, prune_some: bool, extra: &[u64]) {
	let mut base = if hash_only { VecBackend::<Elem>::new_hash_only() } else { VecBackend::<Elem>::new() };
	out.raw(if hash_only { "pmmr hnewho" } else { "pmmr hnew" });
	let mut elems: Vec<Elem> = vec![];
	let mut size = 0u64;
	for _ in 0..nleaves {
		let e = Elem(rng.bytes(8));
		let mut p = PMMR::at(&mut base, size);
		let r = p.push(&e);
		size = p.size;
		out.line(&format!("pmmr hpush {}", hex(&e.0)), &if r.is_ok() { size.to_string() } else { "err".into() });
		elems.push(e);
	}
	if prune_some {
		for _ in 0..3 {
			let pos = size_of_leaves(rng.below(nleaves));
			let mut p = PMMR::at(&mut base, size);
			let r = p.prune(pos);
			out.line(&format!("pmmr hprune {}", pos), &match r { Ok(b) => b.to_string(), Err(_) => "err".into() });
		}
	}
	out.raw("pmmr hsave");
	let blen = base.hashes.len() as u64;
	let mut all: Vec<u64> = (0..=blen + 6).collect();
	all.extend_from_slice(extra);
	for &s in &all {
		st.sizes += 1;
		let valid = is_valid_mmr_size(s);
		if !valid {
			st.invalid += 1;
		}
		if s > blen {
			st.beyond += 1;
		}
		let small = s <= blen + 6;
		// --- reads through the three kinds of handle
		let mut b = base.clone();
		out.raw("pmmr hrestore");
		out.raw(&format!("pmmr hat {}", s));
		let (r1, k1) = {
			let p = PMMR::at(&mut b, s);
			let x = read_all(out, rng, &p, "pmmr", s, blen, small);
			if small {
				out.line("pmmr hvalidate", &match catch(std::panic::AssertUnwindSafe(|| p.validate().is_ok())) { Ok(v) => v.to_string(), Err(_) => "panic".into() });
				if s % 8 == 3 || s == blen {
					out.line("pmmr hleafpos", &nat_list(&p.leaf_pos_iter().collect::<Vec<_>>()));
				}
				if s % 16 == 5 {
					// VecBackend::n_unpruned_leaves is unimplemented!()
					out.line("pmmr hnunpruned", &match catch(std::panic::AssertUnwindSafe(|| p.n_unpruned_leaves())) { Ok(v) => v.to_string(), Err(_) => "panic".into() });
				}
			}
			x
		};
		let (r2, k2) = read_all(out, rng, &ReadonlyPMMR::at(&b, s), "ro", s, blen, small && s % 3 == 0);
		let (r3, k3) = read_all(out, rng, &RewindablePMMR::<Elem, _>::at(&b, s).as_readonly(), "rw", s, blen, false);
		if r1 != r2 || r1 != r3 || k1 != k2 || k1 != k3 {
			out.raw(&format!("#ORACLE-FAIL C07 PMMR::at / ReadonlyPMMR::at / RewindablePMMR::at at size {} over the same backend ({} hashes) disagree: roots {} {} {}", s, blen, r1, r2, r3));
		}
		if !valid && (r1 != "err" || k1 != "[]") {
			out.raw(&format!("#ORACLE-FAIL C07 size {} is not the size of any MMR, yet a handle opened there reports root {} peaks {}", s, r1, k1));
		}
		if valid && s <= blen && !prune_some {
			let (fr, _) = fresh_build(&elems[..leaves_upto(s) as usize]);
			if fr != r1 {
				out.raw(&format!("#ORACLE-FAIL C07 a handle opened at the valid size {} of a backend of {} hashes has root {} where the MMR of the first {} elements has {}", s, blen, r1, leaves_upto(s), fr));
			}
		}
		// --- push
		{
			let e = Elem(rng.bytes(8));
			let (res, sz, root_after, peaks_after) = {
				let mut p = PMMR::at(&mut b, s);
				let res = catch(std::panic::AssertUnwindSafe(|| p.push(&e)));
				(res, p.size, root_str(p.root()), hashes(&p.peaks()))
			};
			let rs = match &res {
				Ok(Ok(_)) => sz.to_string(),
				Ok(Err(_)) => "err".to_string(),
				Err(_) => "panic".to_string(),
			};
			out.line(&format!("pmmr hpush {}", hex(&e.0)), &rs);
			out.line("pmmr hsize", &sz.to_string());
			out.line("pmmr hroot", &root_after);
			out.line("pmmr hpeaks", &peaks_after);
			backend_line(out, &b);
			let unchanged = b.hashes == base.hashes && b.data == base.data && b.removed == base.removed;
			match &res {
				Ok(Ok(_)) => {
					st.push_ok += 1;
					if !valid {
						out.raw(&format!("#ORACLE-FAIL C07 push accepted on a handle opened at size {}, which is not the size of any MMR; the handle now claims size {}", s, sz));
					} else if !is_valid_mmr_size(sz) {
						out.raw(&format!("#ORACLE-FAIL C07 push on a handle at size {} leaves it at size {}, which is not the size of any MMR", s, sz));
					}
					if s == blen && !hash_only {
						st.push_ok_at_end += 1;
						let mut l = elems.clone();
						l.push(e.clone());
						let (fr, fh) = fresh_build(&l);
						if fr != root_after || fh != b.hashes {
							out.raw(&format!("#ORACLE-FAIL C07 push on a handle opened at the end (size {}) of the backend does not give the MMR of the old list plus the element: root {} expected {}", s, root_after, fr));
						}
					}
				}
				_ => {
					st.push_refused += 1;
					if sz != s || !unchanged {
						out.raw(&format!("#ORACLE-FAIL C07 a refused push on a handle opened at size {} changed something: size now {}, backend changed: {}", s, sz, !unchanged));
					}
					if valid && s <= blen {
						out.raw(&format!("#ORACLE-FAIL C07 push refused on a handle opened at the valid size {} inside a backend of {} hashes", s, blen));
					}
				}
			}
		}
		if !small {
			continue;
		}
		// --- rewind: to a non-leaf position, to the size itself, beyond the size, beyond the backend
		let mut targets: Vec<u64> = vec![s, s + 1, s + 3, blen + 5];
		if let Some(q) = (0..s).rev().find(|q| !is_valid_mmr_size(*q)) {
			targets.push(q);
		}
		if s > 2 {
			targets.push(rng.below(s));
		}
		targets.sort();
		targets.dedup();
		for &t in &targets {
			if !(s % 2 == 0 || t == s + 1 || t < s) {
				continue;
			}
			st.rewinds += 1;
			let mut b = base.clone();
			out.raw("pmmr hrestore");
			out.raw(&format!("pmmr hat {}", s));
			let (sz, r, k) = {
				let mut p = PMMR::at(&mut b, s);
				let res = p.rewind(t, &croaring::Bitmap::new());
				out.line(&format!("pmmr hrewind {}", t), &if res.is_ok() { p.size.to_string() } else { "err".into() });
				(p.size, root_str(p.root()), hashes(&p.peaks()))
			};
			out.line("pmmr hroot", &r);
			out.line("pmmr hpeaks", &k);
			backend_line(out, &b);
			if !is_valid_mmr_size(sz) {
				out.raw(&format!("#ORACLE-FAIL C07 rewind to position {} on a handle opened at size {} leaves it at size {}, which is not the size of any MMR", t, s, sz));
			}
			if sz <= blen && !prune_some {
				let (fr, fh) = fresh_build(&elems[..leaves_upto(sz) as usize]);
				if fr != r || fh != b.hashes {
					out.raw(&format!("#ORACLE-FAIL C07 after a rewind to position {} (handle opened at size {}, backend {} hashes) root {} / {} hashes are not those of the first {} elements ({} / {})", t, s, blen, r, b.hashes.len(), leaves_upto(sz), fr, fh.len()));
				}
			}
			if sz <= blen && s % 4 == 0 {
				// and on from there
				let e = Elem(rng.bytes(8));
				let mut p = PMMR::at(&mut b, sz);
				let res = p.push(&e);
				out.raw(&format!("pmmr hat {}", sz));
				out.line(&format!("pmmr hpush {}", hex(&e.0)), &if res.is_ok() { p.size.to_string() } else { "err".into() });
				out.line("pmmr hroot", &root_str(p.root()));
			}
		}
		// --- prune through a handle at s: a non-leaf, a leaf below s (twice), a leaf at or beyond s
		if s % 5 == 0 {
			let mut b = base.clone();
			out.raw("pmmr hrestore");
			out.raw(&format!("pmmr hat {}", s));
			let l = leaves_upto(s);
			let mut poss: Vec<u64> = vec![2];
			if l > 0 {
				let q = size_of_leaves(rng.below(l));
				poss.push(q);
				poss.push(q);
			}
			poss.push(size_of_leaves(l + 1));
			poss.push(size_of_leaves(l + 2));
			for pos in poss {
				st.prunes += 1;
				let mut p = PMMR::at(&mut b, s);
				let r = p.prune(pos);
				out.line(&format!("pmmr hprune {}", pos), &match r { Ok(v) => v.to_string(), Err(_) => "err".into() });
				out.line(&format!("pmmr hproof {}", pos), &match p.merkle_proof(pos) { Ok(pr) => format!("{} {}", pr.mmr_size, hashes(&pr.path)), Err(_) => "err".into() });
				out.line("pmmr hroot", &root_str(p.root()));
			}
			backend_line(out, &b);
		}
	}
}

fn atsize_run(out: &mut Out, rng: &mut Rng, thorough: bool) {
	let mut st = AStats::default();
	let big = [1u64 << 12, (1 << 12) + 1, (1 << 20) - 1, 1 << 20, (1u64 << 40) + 3, (1u64 << 62) - 1];
	at_sizes(out, rng, &mut st, if thorough { 260 } else { 104 }, false, false, &big);
	at_sizes(out, rng, &mut st, 21, false, true, &[]);
	at_sizes(out, rng, &mut st, 19, true, false, &[]);
	if thorough {
		for n in [1, 2, 3, 4, 7, 8, 16, 33, 64] {
			at_sizes(out, rng, &mut st, n, false, false, &[]);
		}
	}
	out.raw(&format!(
		"#STAT atsize: handle sizes opened={} (not an MMR size: {}, beyond the backend: {}), pushes refused={} accepted={} (at the end of the backend: {}), rewinds={} prunes={}",
		st.sizes, st.invalid, st.beyond, st.push_refused, st.push_ok, st.push_ok_at_end, st.rewinds, st.prunes
	));
}

fn main() {
	quiet_panics();
	let args: Vec<String> = std::env::args().collect();
	let mode = args.get(1).map(|s| s.as_str()).unwrap_or("all");
	let mut rng = Rng::new(seed_from_env());
	let thorough = tier_thorough();
	let mut out = Out::stdout();
	if mode == "arith" || mode == "all" {
		arith(&mut out, &mut rng, thorough);
	}
	if mode == "mmr" || mode == "all" {
		mmr(&mut out, &mut rng, thorough);
	}
	if mode == "views" || mode == "all" {
		views(&mut out, &mut rng, thorough);
	}
	if mode == "handle" || mode == "all" {
		handle_run(&mut out, &mut rng, thorough);
	}
	if mode == "atsize" || mode == "all" {
		atsize_run(&mut out, &mut rng, thorough);
	}
	out.flush();
}
